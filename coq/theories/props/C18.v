(* C18 -- "Each output file starts with the number of data rows, then one comment line, then exactly that many rows,
   and parsing it returns the stored x and y within 5e-13 absolute for all finite values of either sign.  Feeding a
   written S(Q) file back in as a dataset reproduces the merged grid and values."

   Model (theories/CodecM.v), exact integer arithmetic, no floating point:
     dyadic {d_neg; d_m; d_e}    the value (-1)^d_neg * d_m * 2^d_e; a finite binary64 has 0 <= d_m < 2^53
     to12 d                      round-half-even of |d| * 10^12: the integer whose digits "{:.12f}" prints
     fmt12 d                     the text "[-]int.12digits";   write_file xs ys   the whole file (StoG._write_out_to_file)
     split_lines, read_file      lines; loadtxt(skiprows=2, comments="#") giving columns 0 and 1 as decimal literals
     decnum (s, N, k)            the decimal literal (-1)^s * N / 10^k
     num N e / den k e           = N / 10^k / 2^e exactly, as a quotient of integers
     nearest53 (s, N, k)         float(text): nearest 53-bit value, ties to even (unbounded exponent)
     read_values                 read_file followed by nearest53 on every entry
   Definitions used in the statements (theories/proofs/CodecP.v):
     wf d      := 0 <= d_m d                    b64 d := 0 <= d_m d < 2^53          norm53 d := 2^52 <= d_m d < 2^53
     reread x  := nearest53 (d_neg x, to12 x, 12)        (what comes back when x is written and parsed)
     mag K d   := d_m d * 2^(d_e d + K)                  (= |d| * 2^K)
     scale_ok K x y := 0 <= K /\ 0 <= d_e x + K /\ 0 <= d_e y + K    (2^K makes |x| 2^K and |y| 2^K integers)
     enc d     := (d_neg d, to12 d, 12)                  rowtext p := fmt12 (fst p) ++ " " ++ fmt12 (snd p)
   Real inequalities are stated multiplied by the positive integer shown in each comment.

   FINDINGS.  (1) The literal "within 5e-13" holds for the printed DECIMAL (C18_printed_decimal_within_5e13) but is
   FALSE for the value parsed back (C18_literal_5e13_refuted: 5.00044e-13; and a full ulp 9.09e-13 for
   4096 <= |x| < 8192, CodecP.literal_5e13_refuted_by_one_ulp); the true bound is 5e-13 + ulp/2
   (C18_roundtrip_bound, C18_excess_at_most_half_ulp).  (2) The header count is len(x), the rows are zip(x, y): they
   agree only when len(x) <= len(y) (CodecP.header_count_mismatch).  (3) An empty curve writes a file that read_dataset
   rejects (CodecP.read_empty). *)
From PyStoG Require Import CodecM.
From PyStoG.proofs Require Import CodecP.
From Coq Require Import List ZArith String Ascii Bool.
Import ListNotations.
Open Scope Z_scope.

(* the lines of a written file: count of min(|xs|,|ys|) rows + " ", the comment line, exactly that many rows, nothing else;
   and the count line parses to that number.  (Hypothesis: x not longer than y; the write_out_* callers pass a master grid and a curve computed on it.) *)
Theorem C18_header_count_eq_rows : forall (xs ys : list dyadic),
  (List.length xs <= List.length ys)%nat ->
  let n := Nat.min (List.length xs) (List.length ys) in
  exists rows,
    split_lines (write_file xs ys) = (dec (Z.of_nat n) ++ " ")%string :: "# Comment line"%string :: rows /\
    List.length rows = n /\
    rows = map rowtext (combine xs ys) /\
    parse_field (dec (Z.of_nat n)) = Some (false, Z.of_nat n, 0%nat).
Proof. exact header_count_eq_rows. Qed.

(* reading a written, non-empty file returns two columns, one entry per row, each entry exactly the sign and the
   integer the writer printed, with 12 fractional digits (string-level round trip) *)
Theorem C18_read_write_shape : forall (xs ys : list dyadic),
  Forall wf xs -> Forall wf ys -> combine xs ys <> [] ->
  read_file (write_file xs ys) =
    Some (map (fun p => enc (fst p)) (combine xs ys), map (fun p => enc (snd p)) (combine xs ys)).
Proof. exact read_write_shape. Qed.

(* ... in particular one number: parse (print (s, N)) = (s, N, 12 digits) for every N >= 0 *)
Theorem C18_parse_field_render12 : forall (s : bool) (N : Z),
  0 <= N -> parse_field (render12 s N) = Some (s, N, 12%nat).
Proof. exact parse_field_render12. Qed.

(* ... and the values: with equal lengths, reading back gives reread of every x and every y *)
Theorem C18_read_values_same_length : forall (xs ys : list dyadic),
  Forall wf xs -> Forall wf ys -> List.length xs = List.length ys -> xs <> [] ->
  read_values (write_file xs ys) = Some (map reread xs, map reread ys).
Proof. exact read_values_same_length. Qed.

(* | to12 d / 10^12 - m 2^e | <= 5e-13 for EVERY finite value.  For e < 0 multiplied by 2 * 10^12 * 2^(-e);
   for e >= 0 the value is an integer and the decimal is exact. *)
Theorem C18_printed_decimal_within_5e13 : forall (d : dyadic),
  (d_e d < 0 -> 2 * Z.abs (to12 d * 2 ^ (- d_e d) - d_m d * 10 ^ 12) <= 2 ^ (- d_e d)) /\
  (0 <= d_e d -> to12 d = d_m d * 2 ^ d_e d * 10 ^ 12).
Proof. exact fmt12_error. Qed.

(* float(text) of N/10^k > 0: sign kept; normalised 53-bit mantissa; | m 2^e - N/10^k | <= 2^e / 2 (times 2 den k e / 2^e);
   even mantissa at a tie; and no 53-bit value m2 2^e2 of any exponent is closer (times 10^k 2^K, K a common scale).
   Exponent unbounded: this is binary64 for 2^-1022 <= N/10^k < 2^1024 (CodecP.nearest53_exponent_range: for k = 12 and
   1 <= N < 2^1000 the exponent lies in [-1074, 971]); N = 0 gives (s, 0, 0) (CodecP.nearest53_zero). *)
Theorem C18_parse_is_nearest_double : forall (s : bool) (N : Z) (k : nat),
  0 < N ->
  let r := nearest53 (s, N, k) in
  d_neg r = s /\ 2 ^ 52 <= d_m r < 2 ^ 53 /\
  2 * Z.abs (d_m r * den k (d_e r) - num N (d_e r)) <= den k (d_e r) /\
  (2 * Z.abs (d_m r * den k (d_e r) - num N (d_e r)) = den k (d_e r) -> Z.even (d_m r) = true) /\
  (forall m2 e2 K, 0 <= m2 < 2 ^ 53 -> 0 <= K -> 0 <= d_e r + K -> 0 <= e2 + K ->
     Z.abs (d_m r * 2 ^ (d_e r + K) * 10 ^ Z.of_nat k - N * 2 ^ K) <=
     Z.abs (m2 * 2 ^ (e2 + K) * 10 ^ Z.of_nat k - N * 2 ^ K)).
Proof. exact parse_is_nearest_double. Qed.

(* | read(write x) - x | <= 5e-13 + ulp(read value)/2, sign preserved (times 2 * 10^12 * 2^K); and for |x| <= 10^6 the
   value read is 0 or a normal binary64 number *)
Theorem C18_roundtrip_bound : forall (x : dyadic) (K : Z),
  wf x -> scale_ok K x (reread x) -> mag K x <= 10 ^ 6 * 2 ^ K ->
  d_neg (reread x) = d_neg x /\
  2 * 10 ^ 12 * Z.abs (mag K (reread x) - mag K x) <= 2 ^ K + 10 ^ 12 * 2 ^ (d_e (reread x) + K) /\
  (d_m (reread x) = 0 \/ (norm53 (reread x) /\ - 1074 <= d_e (reread x) <= 971)).
Proof. exact roundtrip_bound_b64. Qed.

(* where the doubles are spaced more than 10^-12 apart (exponent >= -39, i.e. |x| >= 8192) the value read back IS x *)
Theorem C18_roundtrip_exact_when_coarse : forall (x : dyadic),
  norm53 x -> - 39 <= d_e x -> reread x = x.
Proof. exact roundtrip_exact_when_coarse. Qed.

(* the literal "within 5e-13" is false: a binary64 value of magnitude <= 10^6 whose written-and-read value differs from
   it by MORE than 5e-13 (times 2 * 10^12 * 2^52); the witness is 0x1.9f93b119869a8p+0 *)
Theorem C18_literal_5e13_refuted :
  exists d, b64 d /\ d_m d <= 10 ^ 6 * 2 ^ (- d_e d) /\
    read_values (write_file [d] [d]) = Some ([reread d], [reread d]) /\
    scale_ok 52 d (reread d) /\
    2 * 10 ^ 12 * Z.abs (mag 52 (reread d) - mag 52 d) > 2 ^ 52.
Proof. exact literal_5e13_refuted. Qed.

(* the excess of | read(write x) - x | over 5e-13 is at most half an ulp of the value read back (times 2 * 10^12 * 2^K) *)
Theorem C18_excess_at_most_half_ulp : forall (x : dyadic) (K : Z),
  wf x -> scale_ok K x (reread x) ->
  2 * 10 ^ 12 * Z.abs (mag K (reread x) - mag K x) - 2 ^ K <= 10 ^ 12 * 2 ^ (d_e (reread x) + K).
Proof. exact excess_at_most_half_ulp. Qed.

(* the binary64 nearest to n/100 (a point of the 0.01 grid), either sign, every n >= 0, is unchanged by write + read *)
Theorem C18_reingest_grid_exact : forall (s : bool) (n : Z),
  0 <= n -> reread (nearest53 (s, n, 2%nat)) = nearest53 (s, n, 2%nat).
Proof. exact reingest_grid_exact. Qed.

Print Assumptions C18_header_count_eq_rows.
Print Assumptions C18_read_write_shape.
Print Assumptions C18_parse_field_render12.
Print Assumptions C18_read_values_same_length.
Print Assumptions C18_printed_decimal_within_5e13.
Print Assumptions C18_parse_is_nearest_double.
Print Assumptions C18_roundtrip_bound.
Print Assumptions C18_roundtrip_exact_when_coarse.
Print Assumptions C18_literal_5e13_refuted.
Print Assumptions C18_excess_at_most_half_ulp.
Print Assumptions C18_reingest_grid_exact.
