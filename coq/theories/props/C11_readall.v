(* C11 (the instance's file list read in one go) -- read_all_data = read_dataset on every entry of the file list
   with the call's column numbers (ReadAllM).  The oracle of C11 reads the same banks through this route and
   compares the two storage arrays with those of add_dataset one by one; it also puts a one-column file among them
   and hands over an empty list (the two error branches below). *)
From Coq Require Import List Bool.
From PyStoG Require Import Num ConverterM StogM CallKwM ReadM ReadAllM.
From PyStoG.proofs Require Import ReadAllP.
Import ListNotations.

(* every table has its x and y column: the call is add_dataset on the filled-in entries, in list order, from any state *)
Theorem C11a_read_all_is_add_dataset_in_order : forall (A : Type) (H : Num A) (c : @config A) (s : @state A)
    (es : list (@entry A)) (xcol ycol dycol : nat),
  es <> [] -> forallb (readable xcol ycol) es = true ->
  read_all_data c s es xcol ycol dycol = (fold_left (add_dataset c) (map (filled xcol ycol dycol) es) s, true).
Proof. exact (@read_all_all_readable). Qed.

(* no file: refused, nothing stored *)
Theorem C11a_no_files_rejected : forall (A : Type) (H : Num A) (c : @config A) (s : @state A) (xcol ycol dycol : nat),
  read_all_data c s [] xcol ycol dycol = (s, false).
Proof. exact (@read_all_no_files). Qed.

(* the first table without x or y column stops the call: the banks before it are stored, nothing after it is read *)
Theorem C11a_stops_at_first_unreadable_file : forall (A : Type) (H : Num A) (c : @config A) (good : list (@entry A)) (bad : @entry A)
    (rest : list (@entry A)) (xcol ycol dycol : nat) (s : @state A),
  forallb (readable xcol ycol) good = true -> readable xcol ycol bad = false ->
  read_loop c s (good ++ bad :: rest) xcol ycol dycol =
  (fold_left (add_dataset c) (map (filled xcol ycol dycol) good) s, false).
Proof. exact (@read_loop_stops). Qed.

Print Assumptions C11a_read_all_is_add_dataset_in_order.
Print Assumptions C11a_no_files_rejected.
Print Assumptions C11a_stops_at_first_unreadable_file.
