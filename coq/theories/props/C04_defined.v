(* C04_defined.v -- the 'never NaN or infinity' clause of C04 over the defined-reals carrier (NumE.v):
   a division by zero or a square root of a negative number is `None`; these theorems say the run is total
   and coincides with the real-number model.  Statement-only file. *)
From Coq Require Import List Reals.
From PyStoG Require Import Num NumR NumE ConverterM TransformerM FilterM StogM.
From PyStoG.proofs Require Import DefinedP.
Import ListNotations.
Open Scope R_scope.

(* C03: all 16 reciprocal-space conversions, EVERY abscissa (0 and negative included), any
   lengths, uncertainties given or not: total, and equal to the real-number model *)
(* C04: all 9 real-space conversions *)
Theorem C04_gconv : forall (p b t : R) (l o : bool) (X Y : gfun) (r v : list R) (d : option (list R)),
  b <> 0 -> p <> 0 ->
  let kE : kw ER := {| rho := Some p; bcoh := Some b; btot := Some t; lorch := l; omitted := o |} in
  let kR : kw R := {| rho := p; bcoh := b; btot := t; lorch := l; omitted := o |} in
  gconv X Y (inj r) (inj v) (option_map inj d) kE =
  (inj (fst (gconv X Y r v d kR)), inj (snd (gconv X Y r v d kR))).
Proof. exact gconv_defined_explicit. Qed.

Theorem C04_gconv_sharp : forall (k : kw R) (X Y : gfun) (r v : list R) (d : option (list R)),
  (gneeds_b X Y = true -> bcoh k <> 0) -> (gneeds_rho X Y = true -> rho k <> 0) ->
  gconv X Y (inj r) (inj v) (option_map inj d) (liftk k) = lift2 (gconv X Y r v d k).
Proof. exact gconv_defined_sharp. Qed.
Theorem C04_gconv_needs_rho : fst (gconv gG gGK (inj [1]) (inj [1]) None (liftk (k0 0 1))) = [None].
Proof. exact gconv_needs_rho. Qed.


Print Assumptions C04_gconv.
Print Assumptions C04_gconv_sharp.
Print Assumptions C04_gconv_needs_rho.
