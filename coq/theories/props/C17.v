(* C17 -- StoG.merge_data: the post-merge scale / offset options ("Merging": {"Y": ..,
   "Q[S(Q)-1]": {"Y": ..}}) act as documented on the two stored master curves, absent
   keys behave exactly like the defaults, and the NaN scrub has nothing to do. *)
From Coq Require Import List Reals.
From PyStoG Require Import Num NumR ConverterM TransformerM FilterM StogM.
From PyStoG.proofs Require Import ConverterP MergeOptsP.
Import ListNotations.
Open Scope R_scope.

(* Notation used below (all from the model StogM.v, or three-line definitions in MergeOptsP.v):
   (q, m, dm)        the merged means: unzip3 (merge_sorted (sort_items (zip3 (s_sq s))))
   merged_yscale mo  Merging.Y.Scale  or 1        merged_yoffset mo  Merging.Y.Offset or 0
   cF mo             Merging["Q[S(Q)-1]"].Y.Scale or 1      dF mo   ...Y.Offset or 0
   set_merge c mo    the configuration c with its "Merging" options replaced by mo
   normalize mo      mo with every key present, holding (merged_yscale mo, merged_yoffset mo, cF mo, dF mo)
   allpos q          every entry of q is > 0 *)

(* the stored "Q[S(Q)-1] Merged" curve, with the arithmetic in the order the code performs it *)
Theorem C17_stored_F_formula : forall (c : @config R) (s : @state R) (q m dm : list R),
  unzip3 (merge_sorted (sort_items (zip3 (s_sq s)))) = (q, m, dm) ->
  t_qsq (merge_data c s) =
    Some (map (fun q => q + 0) q,
          map2 (fun q m => (q + 0) * ((m * merged_yscale (c_merge c) + merged_yoffset (c_merge c)) - 1)
                           * cF (c_merge c) + dF (c_merge c)) q m).
Proof. exact stored_F_formula. Qed.

(* the same, readable: F = cF * Q * (aS * mean + bS - 1) + dF on the merged Q grid *)
Theorem C17_stored_F_readable : forall (c : @config R) (s : @state R) (q m dm : list R),
  unzip3 (merge_sorted (sort_items (zip3 (s_sq s)))) = (q, m, dm) ->
  t_qsq (merge_data c s) =
    Some (q, map2 (fun Q mean => cF (c_merge c) * (Q * (merged_yscale (c_merge c) * mean + merged_yoffset (c_merge c) - 1))
                                 + dF (c_merge c)) q m).
Proof. exact stored_F_readable. Qed.

(* the stored "S(Q) Merged" curve is F/Q + 1 of the stored Q[S(Q)-1] curve, on the same grid *)
Theorem C17_stored_S_formula : forall (c : @config R) (s : @state R) (q m dm q' F : list R),
  unzip3 (merge_sorted (sort_items (zip3 (s_sq s)))) = (q, m, dm) -> allpos q ->
  t_qsq (merge_data c s) = Some (q', F) ->
  t_sq (merge_data c s) = Some (q', map2 (fun q f => f / q + 1) q' F).
Proof. exact stored_S_formula. Qed.

(* both curves carry the merged Q grid, have the same length, and satisfy F = Q (S - 1) pointwise *)
Theorem C17_curves_consistent : forall (c : @config R) (s : @state R) (q m dm : list R),
  unzip3 (merge_sorted (sort_items (zip3 (s_sq s)))) = (q, m, dm) -> allpos q ->
  exists S F, t_sq (merge_data c s) = Some (q, S) /\ t_qsq (merge_data c s) = Some (q, F) /\
              length S = length F /\
              F = map2 (fun Q SQ => Q * (SQ - 1)) q S.
Proof. exact curves_consistent. Qed.

(* any subset of missing option keys gives the same state as supplying the defaults 1 / 0 explicitly *)
Theorem C17_absent_keys_are_defaults : forall (c : @config R) (mo : @mopts R) (s : @state R),
  merge_data (set_merge c mo) s = merge_data (set_merge c (normalize mo)) s.
Proof. exact absent_is_identity. Qed.

(* sq[np.isnan(sq)] = 0 is the identity on real data; with all merged Q > 0 every guarded
   division in F_to_S takes its "denominator > 0" branch *)
Theorem C17_nan_scrub_identity :
  (forall l : list R, map (fun v => if eqb v v then v else zero) l = l) /\
  (forall (c : @config R) (s : @state R) (q m dm q' F : list R),
     unzip3 (merge_sorted (sort_items (zip3 (s_sq s)))) = (q, m, dm) -> allpos q ->
     t_qsq (merge_data c s) = Some (q', F) ->
     Forall (fun d => Rltb 0 d = true) q' /\ safe_divide F q' = map2 Rdiv F q').
Proof. exact no_nan_scrub_is_identity. Qed.

Print Assumptions C17_stored_F_formula.
Print Assumptions C17_stored_F_readable.
Print Assumptions C17_stored_S_formula.
Print Assumptions C17_curves_consistent.
Print Assumptions C17_absent_keys_are_defaults.
Print Assumptions C17_nan_scrub_identity.
