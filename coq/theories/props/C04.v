(* C04 -- real-space conversions follow their definitions and invert each other. *)
From Coq Require Import List Reals.
From PyStoG Require Import Num NumR ConverterM.
From PyStoG.proofs Require Import ConverterP.
Open Scope R_scope.

Theorem C04_pointwise : forall X Y (k : kw R) r v d,
  length v = length r -> dok d (length r) ->
  gconv X Y r v d k = (map2 (gval k X Y) r v, map2 (gerr k X Y) r (dflt_zeros v d)).
Proof. exact gconv_pointwise. Qed.

(* for r > 0, rho > 0, <b_coh>^2 <> 0: gspec X Y = fromg Y o tog X
   (G = 4 pi rho r (g-1), G_K = b (g-1)) *)
Theorem C04_defining_formulas : forall (k : kw R) X Y r v d,
  allpos r -> 0 < rho k -> bcoh k <> 0 -> length v = length r -> dok d (length r) ->
  fst (gconv X Y r v d k) = map2 (gspec k X Y) r v.
Proof. exact gconv_formula. Qed.

Theorem C04_roundtrip : forall (k : kw R) X Y r v d d',
  allpos r -> 0 < rho k -> bcoh k <> 0 -> length v = length r -> dok d (length r) -> dok d' (length r) ->
  fst (gconv Y X r (fst (gconv X Y r v d k)) d' k) = v.
Proof. exact gconv_roundtrip. Qed.

Theorem C04_two_step_paths : forall (k : kw R) X Z Y r v d d' d'',
  allpos r -> 0 < rho k -> bcoh k <> 0 -> length v = length r ->
  dok d (length r) -> dok d' (length r) -> dok d'' (length r) ->
  fst (gconv Z Y r (fst (gconv X Z r v d k)) d' k) = fst (gconv X Y r v d'' k).
Proof. exact gconv_path. Qed.

(* at r = 0: g = 1, G = 0, G_K = 0, whatever the function value there *)
Theorem C04_value_at_r0 : forall (k : kw R) X Y r v d i,
  length v = length r -> dok d (length r) -> (i < length r)%nat -> nth i r 0 = 0 ->
  nth i (fst (gconv X Y r v d k)) 0 = gat0 X Y (nth i v 0).
Proof. exact gconv_at_zero. Qed.

Print Assumptions C04_pointwise.
Print Assumptions C04_defining_formulas.
Print Assumptions C04_roundtrip.
Print Assumptions C04_two_step_paths.
Print Assumptions C04_value_at_r0.
