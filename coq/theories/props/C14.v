(* C14 -- Lorch damping: the window is sin(a x)/(a x) with a = pi / xmax, it is 1 at x = 0,
   and transforming with lorch=True is transforming window-multiplied data and uncertainties. *)
From Coq Require Import List Reals.
From PyStoG Require Import Num NumR ConverterM TransformerM.
From PyStoG.proofs Require Import ConverterP LorchP.
Import ListNotations.
Open Scope R_scope.

(* the weight at x = 0 is exactly 1, whatever the constant (and also for a zero constant) *)
Theorem C14_weight_at_0 : forall a : R, lorch_weight a 0 = 1.
Proof. exact lorch_weight_at_0. Qed.
Theorem C14_weight_zero_constant : forall x : R, lorch_weight 0 x = 1.
Proof. exact lorch_weight_zero_a. Qed.

(* elsewhere it is sin(a x)/(a x) *)
Theorem C14_weight_formula : forall a x : R, a * x <> 0 ->
  lorch_weight a x = Rtrigo_def.sin (a * x) / (a * x).
Proof. exact lorch_weight_formula. Qed.

(* which is the Fortran window SIN(xin*A)/xin/A *)
Theorem C14_weight_matches_fortran : forall a x : R, x <> 0 -> a <> 0 ->
  Rtrigo_def.sin (x * a) / x / a = lorch_weight a x.
Proof. exact lorch_weight_fortran. Qed.

(* |weight| <= 1 everywhere *)
Theorem C14_weight_bounded : forall a x : R, Rabs (lorch_weight a x) <= 1.
Proof. exact lorch_weight_bounded. Qed.

(* lorch=True (no omitted-range correction) = plain transform of data and uncertainties
   multiplied by the window w evaluated on the input grid, with a = pi / window_hi;
   window_hi x b = xmax if given, else max(x).  All three outputs. *)
Theorem C14_lorch_is_premultiplication :
  forall (x y xo : list R) (a b : option R) (dy : option (list R)) (k : kw R),
  length y = length x -> dok dy (length x) -> lorch k = true -> omitted k = false ->
  let w := lorch_factor (window_hi x b) x in
  fourier_transform x y xo a b dy k =
  fourier_transform x (vmul w y) xo a b (Some (vmul w (dflt_zeros y dy))) (set_lorch k false).
Proof. exact lorch_is_premultiplication. Qed.

(* window_hi is the largest abscissa entering the transform (the maximum of the cropped grid)
   when xmax is absent or a grid point, and the window [xmin, xmax] is not empty *)
Theorem C14_constant_is_pi_over_largest_abscissa : forall (x : list R) (a b : option R),
  x <> [] ->
  (b = None \/ exists v, b = Some v /\ In v x) ->
  (match a with Some u => u <= window_hi x b | None => True end) ->
  window_hi x b = vmax (cropped_grid x a b).
Proof. exact lorch_constant_is_pi_over_xmax. Qed.

(* the two together: the window is sin(pi t/X)/(pi t/X), X the largest abscissa entering the transform *)
Theorem C14_lorch_window_uses_largest_abscissa :
  forall (x y xo : list R) (a b : option R) (dy : option (list R)) (k : kw R),
  length y = length x -> dok dy (length x) -> lorch k = true -> omitted k = false ->
  x <> [] ->
  (b = None \/ exists v, b = Some v /\ In v x) ->
  (match a with Some u => u <= window_hi x b | None => True end) ->
  let w := map (lorch_weight (PI / vmax (cropped_grid x a b))) x in
  fourier_transform x y xo a b dy k =
  fourier_transform x (vmul w y) xo a b (Some (vmul w (dflt_zeros y dy))) (set_lorch k false).
Proof. exact lorch_window_uses_largest_abscissa. Qed.

Print Assumptions C14_weight_at_0.
Print Assumptions C14_weight_zero_constant.
Print Assumptions C14_weight_formula.
Print Assumptions C14_weight_matches_fortran.
Print Assumptions C14_weight_bounded.
Print Assumptions C14_lorch_is_premultiplication.
Print Assumptions C14_constant_is_pi_over_largest_abscissa.
Print Assumptions C14_lorch_window_uses_largest_abscissa.
