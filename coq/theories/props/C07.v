(* C07 -- the uncertainty channel of fourier_transform: it depends only on
   the grids, the options and the input uncertainties; closed formula with the
   weights E_j; homogeneity, monotonicity; sandwich against the exact
   propagation through the trapezoid weights W_j; uniform grids; F_to_G.

   Vocabulary (defined in proofs/UncertP.v):
     cropw x a b l   the array l (parallel to the grid x) after the model's cropping
                     to the window [a or min x, b or max x]
     ffac x a b k    the Lorch factor on the cropped grid (all ones when lorch k = false)
     eweights xs     E_0 = a_0^2/2, E_j = (a_{j-1}^2 + a_j^2)/2, E_n = a_{n-1}^2/2   (C07_eweights_nth)
     tw xs           W_0 = a_0/2,   W_j = (x_{j+1} - x_{j-1})/2,  W_n = a_{n-1}/2     (C07_tw_nth)
                     with a_j = x_{j+1} - x_j
     sigma_tw xc fe x' = sqrt (sum_j (W_j * fe_j * sin (x_j x'))^2) *)
From Coq Require Import List Reals Sorted.
From PyStoG Require Import Num NumR ConverterM TransformerM.
From PyStoG.proofs Require Import UncertP.
Import ListNotations.
Open Scope R_scope.

(* the returned uncertainty does not depend on the data values *)
Theorem C07_value_independent : forall (x y y' xo : list R) (a b : option R) (dy : option (list R)) (k : kw R),
  length y = length x -> length y' = length x ->
  snd (fourier_transform x y xo a b dy k) = snd (fourier_transform x y' xo a b dy k).
Proof. exact eout_value_independent. Qed.

(* no input uncertainty gives an array of zeros *)
Theorem C07_none_zero : forall (x y xo : list R) (a b : option R) (k : kw R),
  snd (fourier_transform x y xo a b None k) = map (fun _ => 0) xo.
Proof. exact eout_none_zero. Qed.

(* the code's sum  sum_j (x_{j+1}-x_j)^2 (e_{j+1}+e_j)/2  is the weighted sum with the weights E_j *)
Theorem C07_etrapz_weights : forall (xs es : list R), length es = length xs ->
  etrapz xs es = fold_right Rplus 0 (map2 Rmult (eweights xs) es).
Proof. exact etrapz_weights. Qed.

(* what the weights E_j are *)
Theorem C07_eweights_nth : forall (xs : list R) (n : nat), length xs = S n -> (1 <= n)%nat ->
  nth 0 (eweights xs) 0 = (nth 1 xs 0 - nth 0 xs 0) ^ 2 / 2 /\
  (forall j, (0 < j < n)%nat ->
     nth j (eweights xs) 0
     = ((nth j xs 0 - nth (j - 1) xs 0) ^ 2 + (nth (S j) xs 0 - nth j xs 0) ^ 2) / 2) /\
  nth n (eweights xs) 0 = (nth n xs 0 - nth (n - 1) xs 0) ^ 2 / 2.
Proof. exact eweights_nth. Qed.

(* what the trapezoid weights W_j are *)
Theorem C07_tw_nth : forall (xs : list R) (n : nat), length xs = S n -> (1 <= n)%nat ->
  nth 0 (tw xs) 0 = (nth 1 xs 0 - nth 0 xs 0) / 2 /\
  (forall j, (0 < j < n)%nat -> nth j (tw xs) 0 = (nth (S j) xs 0 - nth (j - 1) xs 0) / 2) /\
  nth n (tw xs) 0 = (nth n xs 0 - nth (n - 1) xs 0) / 2.
Proof. exact tw_nth. Qed.

(* eout_i = sqrt (sum_j E_j (f_j e_j sin (x_j x'_i))^2) on the cropped data *)
Theorem C07_formula : forall (x y xo e : list R) (a b : option R) (k : kw R) (i : nat),
  length y = length x -> length e = length x -> (i < length xo)%nat ->
  nth i (snd (fourier_transform x y xo a b (Some e) k)) 0
  = R_sqrt.sqrt (fold_right Rplus 0 (map2 Rmult (eweights (cropw x a b x))
       (map2 (fun fe xj => (fe * Rtrigo_def.sin (xj * nth i xo 0)) ^ 2)
             (vmul (ffac x a b k) (cropw x a b e)) (cropw x a b x)))).
Proof. exact eout_formula. Qed.

(* scaling the input uncertainty by c >= 0 scales the output uncertainty by c *)
Theorem C07_homogeneous : forall (x y xo e : list R) (a b : option R) (k : kw R) (c : R), 0 <= c ->
  snd (fourier_transform x y xo a b (Some (map (Rmult c) e)) k)
  = map (Rmult c) (snd (fourier_transform x y xo a b (Some e) k)).
Proof. exact eout_homogeneous. Qed.

(* larger (nonnegative) input uncertainties give larger output uncertainties *)
Theorem C07_monotone : forall (x y xo e e' : list R) (a b : option R) (k : kw R),
  Forall2 (fun u v => 0 <= u <= v) e e' ->
  Forall2 Rle (snd (fourier_transform x y xo a b (Some e) k))
              (snd (fourier_transform x y xo a b (Some e') k)).
Proof. exact eout_monotone. Qed.

(* never below the exact trapezoid propagation -- any grid, monotone or not *)
Theorem C07_lower_bound : forall (x y xo e : list R) (a b : option R) (k : kw R) (i : nat),
  length y = length x -> length e = length x -> (i < length xo)%nat ->
  sigma_tw (cropw x a b x) (vmul (ffac x a b k) (cropw x a b e)) (nth i xo 0)
  <= nth i (snd (fourier_transform x y xo a b (Some e) k)) 0.
Proof. exact eout_lower. Qed.

(* at most sqrt 2 times the exact trapezoid propagation -- (weakly) increasing input grid, any window *)
Theorem C07_upper_bound : forall (x y xo e : list R) (a b : option R) (k : kw R) (i : nat),
  StronglySorted Rle x ->
  length y = length x -> length e = length x -> (i < length xo)%nat ->
  nth i (snd (fourier_transform x y xo a b (Some e) k)) 0
  <= R_sqrt.sqrt 2 * sigma_tw (cropw x a b x) (vmul (ffac x a b k) (cropw x a b e)) (nth i xo 0).
Proof. exact eout_upper. Qed.

(* the same for a strictly increasing input grid *)
Theorem C07_upper_bound_strict : forall (x y xo e : list R) (a b : option R) (k : kw R) (i : nat),
  StronglySorted Rlt x ->
  length y = length x -> length e = length x -> (i < length xo)%nat ->
  nth i (snd (fourier_transform x y xo a b (Some e) k)) 0
  <= R_sqrt.sqrt 2 * sigma_tw (cropw x a b x) (vmul (ffac x a b k) (cropw x a b e)) (nth i xo 0).
Proof. exact eout_upper_strict. Qed.

(* uniform grid, weights: E_j = W_j^2 in the interior, E = 2 W^2 at the two ends *)
Theorem C07_uniform_weights : forall (h : R) (xs : list R) (n : nat), length xs = S n -> (1 <= n)%nat ->
  (forall j, (j < n)%nat -> nth (S j) xs 0 - nth j xs 0 = h) ->
  nth 0 (eweights xs) 0 = 2 * (nth 0 (tw xs) 0) ^ 2 /\
  (forall j, (0 < j < n)%nat -> nth j (eweights xs) 0 = (nth j (tw xs) 0) ^ 2) /\
  nth n (eweights xs) 0 = 2 * (nth n (tw xs) 0) ^ 2.
Proof. exact eweights_tw_uniform. Qed.

(* uniform cropped grid of spacing h: eout^2 exceeds the exact variance by the two end-point terms only *)
Theorem C07_uniform_grid : forall (x y xo e : list R) (a b : option R) (k : kw R) (i : nat) (h : R) (n : nat),
  length y = length x -> length e = length x -> (i < length xo)%nat ->
  length (cropw x a b x) = S n -> (1 <= n)%nat ->
  (forall j, (j < n)%nat -> nth (S j) (cropw x a b x) 0 - nth j (cropw x a b x) 0 = h) ->
  (nth i (snd (fourier_transform x y xo a b (Some e) k)) 0) ^ 2
  - (sigma_tw (cropw x a b x) (vmul (ffac x a b k) (cropw x a b e)) (nth i xo 0)) ^ 2
  = (h / 2) ^ 2 *
    ((nth 0 (vmul (ffac x a b k) (cropw x a b e)) 0
        * Rtrigo_def.sin (nth 0 (cropw x a b x) 0 * nth i xo 0)) ^ 2 +
     (nth n (vmul (ffac x a b k) (cropw x a b e)) 0
        * Rtrigo_def.sin (nth n (cropw x a b x) 0 * nth i xo 0)) ^ 2).
Proof. exact eout_uniform. Qed.

(* F_to_G returns 2/pi times the uncertainty of the un-windowed transform *)
Theorem C07_F_to_G_scaling : forall (q f r : list R) (df : option (list R)) (k : kw R),
  snd (F_to_G q f r df k) = map (fun v => v * (2 / PI)) (snd (fourier_transform q f r None None df k)).
Proof. exact F_to_G_unc_scaling. Qed.

Theorem C07_F_to_G_value_independent : forall (q f f' r : list R) (df : option (list R)) (k : kw R),
  length f = length q -> length f' = length q ->
  snd (F_to_G q f r df k) = snd (F_to_G q f' r df k).
Proof. exact F_to_G_unc_value_independent. Qed.

Theorem C07_F_to_G_none_zero : forall (q f r : list R) (k : kw R),
  snd (F_to_G q f r None k) = map (fun _ => 0) r.
Proof. exact F_to_G_unc_none_zero. Qed.

Theorem C07_F_to_G_homogeneous : forall (q f r e : list R) (k : kw R) (c : R), 0 <= c ->
  snd (F_to_G q f r (Some (map (Rmult c) e)) k) = map (Rmult c) (snd (F_to_G q f r (Some e) k)).
Proof. exact F_to_G_unc_homogeneous. Qed.

Theorem C07_F_to_G_monotone : forall (q f r e e' : list R) (k : kw R),
  Forall2 (fun u v => 0 <= u <= v) e e' ->
  Forall2 Rle (snd (F_to_G q f r (Some e) k)) (snd (F_to_G q f r (Some e') k)).
Proof. exact F_to_G_unc_monotone. Qed.

Print Assumptions C07_value_independent.
Print Assumptions C07_none_zero.
Print Assumptions C07_etrapz_weights.
Print Assumptions C07_eweights_nth.
Print Assumptions C07_tw_nth.
Print Assumptions C07_formula.
Print Assumptions C07_homogeneous.
Print Assumptions C07_monotone.
Print Assumptions C07_lower_bound.
Print Assumptions C07_upper_bound.
Print Assumptions C07_upper_bound_strict.
Print Assumptions C07_uniform_weights.
Print Assumptions C07_uniform_grid.
Print Assumptions C07_F_to_G_scaling.
Print Assumptions C07_F_to_G_value_independent.
Print Assumptions C07_F_to_G_none_zero.
Print Assumptions C07_F_to_G_homogeneous.
Print Assumptions C07_F_to_G_monotone.
