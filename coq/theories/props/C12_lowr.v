(* C12 (the remaining workflow utility) -- StoG._lowR_mean_square / _get_lowR_mean_square, the low-r cost function a
   caller evaluates on the curve stored by transform_merged / fourier_filter: it reads the stored curve and the instance's
   r grid, uses exactly the points with r <= limit (closed bound), and is the Euclidean norm of those values.  Statements
   only; proofs in proofs/LowRP.v.  Tied to stog.py by Exec.chk_lowr on the state left by every C12 operation sequence. *)
From Coq Require Import List Reals Lra.
From PyStoG Require Import Num NumR LowRM.
From PyStoG.proofs Require Import LowRP.
Import ListNotations.
Open Scope R_scope.

Theorem C12_lowr_get_is_library_call : forall dr g : list R,
  get_lowr_mean_square dr g = lowr_mean_square dr g (101 / 100).
Proof. exact get_lowr_is_library_call. Qed.

Theorem C12_lowr_square_is_sum_of_squares : forall r g (lim : R),
  0 <= lowr_mean_square r g lim /\
  lowr_mean_square r g lim * lowr_mean_square r g lim = sum_l (squares (mask_le lim r g)).
Proof. exact lowr_square_is_sum. Qed.

Theorem C12_lowr_homogeneous : forall (c : R) r g lim,
  lowr_mean_square r (map (Rmult c) g) lim = Rabs c * lowr_mean_square r g lim.
Proof. exact lowr_homogeneous. Qed.

Theorem C12_lowr_zero_iff_curve_vanishes_below_limit : forall r g (lim : R),
  lowr_mean_square r g lim = 0 <-> Forall (fun y => y = 0) (mask_le lim r g).
Proof. exact lowr_zero_iff. Qed.

Theorem C12_lowr_ignores_points_beyond_limit : forall lim r g g', agree_in lim r g g' ->
  lowr_mean_square r g lim = lowr_mean_square r g' lim.
Proof. exact lowr_ignores_beyond_limit. Qed.

Theorem C12_lowr_monotone_in_limit : forall (l1 l2 : R) r g, l1 <= l2 ->
  lowr_mean_square r g l1 <= lowr_mean_square r g l2.
Proof. exact lowr_monotone_in_limit. Qed.

Theorem C12_lowr_whole_curve : forall (lim : R) r g, Forall (fun x => x <= lim) r -> length r = length g ->
  lowr_mean_square r g lim = R_sqrt.sqrt (sum_l (squares g)).
Proof. exact lowr_whole_curve. Qed.

Theorem C12_lowr_empty_window : forall (lim : R) r g, Forall (fun x => lim < x) r -> lowr_mean_square r g lim = 0.
Proof. exact lowr_empty_window. Qed.

(* non-vacuity: the boundary point r = limit is inside (closed bound), the one beyond is not: sqrt(3^2 + 4^2) = 5 *)
Example C12_lowr_closed_bound : lowr_mean_square [0; 1; 2] [3; 4; 12] 1 = 5.
Proof. exact lowr_closed_bound. Qed.

Print Assumptions C12_lowr_get_is_library_call.
Print Assumptions C12_lowr_square_is_sum_of_squares.
Print Assumptions C12_lowr_homogeneous.
Print Assumptions C12_lowr_zero_iff_curve_vanishes_below_limit.
Print Assumptions C12_lowr_ignores_points_beyond_limit.
Print Assumptions C12_lowr_monotone_in_limit.
Print Assumptions C12_lowr_whole_curve.
Print Assumptions C12_lowr_empty_window.
Print Assumptions C12_lowr_closed_bound.
