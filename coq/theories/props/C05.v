(* C05 -- every named transform is: conversion to F(Q) (resp. G(r)), the core transform,
   conversion to the requested function -- and all transforms of the same data agree. *)
From Coq Require Import List Reals.
From PyStoG Require Import Num NumR ConverterM TransformerM.
From PyStoG.proofs Require Import ConverterP NamedP.
Import ListNotations.
Open Scope R_scope.

(* tr_grid / tr_val / tr_err : the three outputs (grid, values, uncertainties) of a transform *)

(* each of the 12 Q -> r methods: X -> F(Q), fourier_transform, * 2/pi, G(r) -> Y;
   values and uncertainties, the same keyword record k everywhere; holds with no side condition *)
Theorem C05_q2r_decomposition : forall X Y (q v r : list R) (dy : option (list R)) (k : kw R),
  q2r X Y q v r dy k =
    let '(f, df) := rconv X rF q v dy k in
    let '(r', T, E) := fourier_transform q f r None None (Some df) k in
    let '(g, dg) := gconv gG Y r' (map (fun t => t * (2 / PI)) T) (Some (map (fun t => t * (2 / PI)) E)) k in
    (r', g, dg).
Proof. exact q2r_decomposition. Qed.

(* each of the 12 r -> Q methods: X -> G(r), fourier_transform, F(Q) -> Y *)
Theorem C05_r2q_decomposition : forall X Y (r v q : list R) (dy : option (list R)) (k : kw R),
  r2q X Y r v q dy k =
    let '(G, dG) := gconv X gG r v dy k in
    let '(q', T, E) := fourier_transform r G q None None (Some dG) k in
    let '(f, df) := rconv rF Y q' T (Some E) k in (q', f, df).
Proof. exact r2q_decomposition. Qed.

(* Q -> r: convert the input X -> X' first and transform to Y' = transform X -> Y, then convert Y -> Y' *)
Theorem C05_transforms_agree_q2r : forall (k : kw R) X X' Y Y' q v r dy,
  allpos q -> allpos r -> 0 < rho k -> 0 < bcoh k -> length v = length q -> dok dy (length q) ->
  tr_val (q2r X' Y' q (fst (rconv X X' q v dy k)) r (Some (snd (rconv X X' q v dy k))) k)
  = fst (gconv Y Y' r (tr_val (q2r X Y q v r dy k)) None k).
Proof. exact transforms_agree_q2r. Qed.

Theorem C05_transforms_agree_q2r_unc : forall (k : kw R) X X' Y Y' q v r dy,
  allpos q -> allpos r -> 0 < rho k -> 0 < bcoh k -> length v = length q -> dok dy (length q) ->
  tr_err (q2r X' Y' q (fst (rconv X X' q v dy k)) r (Some (snd (rconv X X' q v dy k))) k)
  = snd (gconv Y Y' r (tr_val (q2r X Y q v r dy k)) (Some (tr_err (q2r X Y q v r dy k))) k).
Proof. exact transforms_agree_q2r_unc. Qed.

(* r -> Q *)
Theorem C05_transforms_agree_r2q : forall (k : kw R) X X' Y Y' r v q dy,
  allpos r -> allpos q -> 0 < rho k -> 0 < bcoh k -> length v = length r -> dok dy (length r) ->
  tr_val (r2q X' Y' r (fst (gconv X X' r v dy k)) q (Some (snd (gconv X X' r v dy k))) k)
  = fst (rconv Y Y' q (tr_val (r2q X Y r v q dy k)) None k).
Proof. exact transforms_agree_r2q. Qed.

Theorem C05_transforms_agree_r2q_unc : forall (k : kw R) X X' Y Y' r v q dy,
  allpos r -> allpos q -> 0 < rho k -> 0 < bcoh k -> length v = length r -> dok dy (length r) ->
  tr_err (r2q X' Y' r (fst (gconv X X' r v dy k)) q (Some (snd (gconv X X' r v dy k))) k)
  = snd (rconv Y Y' q (tr_val (r2q X Y r v q dy k)) (Some (tr_err (r2q X Y r v q dy k))) k).
Proof. exact transforms_agree_r2q_unc. Qed.

(* grid, values and uncertainties at once *)
Theorem C05_transforms_agree_q2r_full : forall (k : kw R) X X' Y Y' q v r dy,
  allpos q -> allpos r -> 0 < rho k -> 0 < bcoh k -> length v = length q -> dok dy (length q) ->
  q2r X' Y' q (fst (rconv X X' q v dy k)) r (Some (snd (rconv X X' q v dy k))) k
  = let t := q2r X Y q v r dy k in
    let c := gconv Y Y' r (tr_val t) (Some (tr_err t)) k in (r, fst c, snd c).
Proof. exact transforms_agree_q2r_full. Qed.

Theorem C05_transforms_agree_r2q_full : forall (k : kw R) X X' Y Y' r v q dy,
  allpos r -> allpos q -> 0 < rho k -> 0 < bcoh k -> length v = length r -> dok dy (length r) ->
  r2q X' Y' r (fst (gconv X X' r v dy k)) q (Some (snd (gconv X X' r v dy k))) k
  = let t := r2q X Y r v q dy k in
    let c := rconv Y Y' q (tr_val t) (Some (tr_err t)) k in (q, fst c, snd c).
Proof. exact transforms_agree_r2q_full. Qed.

Print Assumptions C05_q2r_decomposition.
Print Assumptions C05_r2q_decomposition.
Print Assumptions C05_transforms_agree_q2r.
Print Assumptions C05_transforms_agree_q2r_unc.
Print Assumptions C05_transforms_agree_r2q.
Print Assumptions C05_transforms_agree_r2q_unc.
Print Assumptions C05_transforms_agree_q2r_full.
Print Assumptions C05_transforms_agree_r2q_full.
