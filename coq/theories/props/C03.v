(* C03 -- reciprocal-space conversions follow their definitions and invert
   each other.  Nothing but statements closed by `exact`, and the axioms each
   depends on. *)
From Coq Require Import List Reals.
From PyStoG Require Import Num NumR ConverterM.
From PyStoG.proofs Require Import ConverterP.
Open Scope R_scope.

(* every one of the 16 (X,Y) entries of the method table is the pointwise
   application of its scalar content, values and uncertainties *)
Theorem C03_pointwise : forall X Y (k : kw R) q v d,
  length v = length q -> dok d (length q) ->
  rconv X Y q v d k = (map2 (rval k X Y) q v, map2 (rerr k X Y) q (dflt_zeros v d)).
Proof. exact rconv_pointwise. Qed.

(* for Q > 0 and <b_coh>^2 <> 0 each conversion equals its defining formula
   rspec X Y = fromS Y o toS X  (Q[S-1] = Q(S-1), F_K = b(S-1), DCS = F_K + t) *)
Theorem C03_defining_formulas : forall (k : kw R) X Y q v d,
  allpos q -> bcoh k <> 0 -> length v = length q -> dok d (length q) ->
  fst (rconv X Y q v d k) = map2 (rspec k X Y) q v.
Proof. exact rconv_formula. Qed.

Theorem C03_roundtrip : forall (k : kw R) X Y q v d d',
  allpos q -> bcoh k <> 0 -> length v = length q -> dok d (length q) -> dok d' (length q) ->
  fst (rconv Y X q (fst (rconv X Y q v d k)) d' k) = v.
Proof. exact rconv_roundtrip. Qed.

Theorem C03_two_step_paths : forall (k : kw R) X Z Y q v d d' d'',
  allpos q -> bcoh k <> 0 -> length v = length q ->
  dok d (length q) -> dok d' (length q) -> dok d'' (length q) ->
  fst (rconv Z Y q (fst (rconv X Z q v d k)) d' k) = fst (rconv X Y q v d'' k).
Proof. exact rconv_path. Qed.

(* at Q = 0 the result is the finite conventional value rat0 (S = 1, F = 0,
   F_K = 0, DCS = <b_tot^2>, or the additive shift of the input where no
   division is involved), independent of every other entry *)
Theorem C03_value_at_Q0 : forall (k : kw R) X Y q v d i,
  length v = length q -> dok d (length q) -> (i < length q)%nat -> nth i q 0 = 0 ->
  nth i (fst (rconv X Y q v d k)) 0 = rat0 k X Y (nth i v 0).
Proof. exact rconv_at_zero. Qed.

Print Assumptions C03_pointwise.
Print Assumptions C03_defining_formulas.
Print Assumptions C03_roundtrip.
Print Assumptions C03_two_step_paths.
Print Assumptions C03_value_at_Q0.
