(* C10 -- merging (StoG.merge_data): the stored (Q, S, dS) rows are stably sorted by Q and runs of equal Q are
   replaced by one row (Q, mean S, sqrt(sum dS^2)/n).  Vocabulary (proofs/MergeP.v):
     item = (Q, S, dS) with projections ikey / ival / ierr;  merge_items l = merge_sorted (sort_items l);
     sum_at q l / cnt_at q l / sumsq_err_at q l = sum of S / number / sum of dS^2 of the items of l whose key is q;
     ksorted l   = keys weakly increasing;      canonical q = exists n : Z, q = IZR n / 100;
     aligned a   = the three columns of a have the same length;
     dataset_ok d = length (d_y d) = length (d_x d) /\ dok (d_dy d) (length (d_x d)). *)
From Coq Require Import List Reals ZArith Permutation Sorted.
From PyStoG Require Import Num NumR ConverterM TransformerM FilterM StogM.
From PyStoG.proofs Require Import ConverterP MergeP.
Import ListNotations.
Open Scope R_scope.

(* the merged Q grid is strictly increasing *)
Theorem C10_strictly_increasing : forall l : list (@item R),
  StronglySorted Rlt (map ikey (merge_items l)).
Proof. exact merge_strictly_increasing. Qed.

(* every input Q appears in the merged grid, nothing else does, and nothing appears twice *)
Theorem C10_keys_exactly_once : forall l : list (@item R),
  (forall q, In q (map ikey (merge_items l)) <-> In q (map ikey l)) /\ NoDup (map ikey (merge_items l)).
Proof. exact merge_keys_exactly_once. Qed.

(* each merged row carries the mean of the contributing S values and sqrt(sum dS^2)/n, n >= 1 *)
Theorem C10_value_is_mean : forall (l : list (@item R)) it, In it (merge_items l) ->
  ival it = sum_at (ikey it) l / cnt_at (ikey it) l /\
  ierr it = R_sqrt.sqrt (sumsq_err_at (ikey it) l) / cnt_at (ikey it) l /\
  1 <= cnt_at (ikey it) l.
Proof. exact merge_value_is_mean. Qed.

(* each merged value lies between two contributing values of the same Q *)
Theorem C10_between_min_max : forall (l : list (@item R)) it, In it (merge_items l) ->
  exists lo hi, In lo l /\ In hi l /\ ikey lo = ikey it /\ ikey hi = ikey it /\ ival lo <= ival it <= ival hi.
Proof. exact merge_between_min_max. Qed.

(* the merged rows do not depend on the order of the input rows *)
Theorem C10_order_independent_items : forall l1 l2 : list (@item R),
  Permutation l1 l2 -> merge_items l1 = merge_items l2.
Proof. exact merge_perm. Qed.

(* the merged curves do not depend on the order in which the datasets were added *)
Theorem C10_order_independent_state : forall (c : @config R) ds1 ds2 s0,
  aligned (s_sq s0) -> Forall dataset_ok ds1 -> Permutation ds1 ds2 ->
  t_sq (merge_data c (fold_left (add_dataset c) ds1 s0)) = t_sq (merge_data c (fold_left (add_dataset c) ds2 s0)) /\
  t_qsq (merge_data c (fold_left (add_dataset c) ds1 s0)) = t_qsq (merge_data c (fold_left (add_dataset c) ds2 s0)).
Proof. exact merge_order_independent_state. Qed.

(* ... in particular from the initial state (whose sq_individuals are empty, hence aligned) *)
Theorem C10_init_state_aligned : aligned (s_sq (@init_state R _)).
Proof. exact init_state_aligned. Qed.

(* state-level form without any length hypothesis: only the multiset of stored rows matters *)
Theorem C10_order_independent_state_rows : forall (c : @config R) s1 s2,
  Permutation (zip3 (s_sq s1)) (zip3 (s_sq s2)) ->
  t_sq (merge_data c s1) = t_sq (merge_data c s2) /\ t_qsq (merge_data c s1) = t_qsq (merge_data c s2).
Proof. exact merge_order_independent_state_partial. Qed.

(* the Q grid of "S(Q) Merged" and of "Q[S(Q)-1] Merged" is the key column of merge_items of the stored rows *)
Theorem C10_merged_grid : forall (c : @config R) s,
  exists sq fq, t_sq (merge_data c s) = Some (map ikey (merge_items (zip3 (s_sq s))), sq) /\
                t_qsq (merge_data c s) = Some (map ikey (merge_items (zip3 (s_sq s))), fq).
Proof. exact merge_data_grid. Qed.

(* the stable sort: a sorted permutation of its input, the identity on key-sorted input *)
Theorem C10_sort_perm : forall l : list (@item R), Permutation (sort_items l) l.
Proof. exact sort_items_perm. Qed.
Theorem C10_sort_sorted : forall l : list (@item R), ksorted (sort_items l).
Proof. exact sort_items_sorted. Qed.
Theorem C10_sort_sorted_id : forall l : list (@item R), ksorted l -> sort_items l = l.
Proof. exact sort_sorted_id. Qed.

(* merging again without new data changes neither the merged curves nor the stored rows *)
Theorem C10_merge_idempotent : forall (c : @config R) s,
  t_sq (merge_data c (merge_data c s)) = t_sq (merge_data c s) /\
  t_qsq (merge_data c (merge_data c s)) = t_qsq (merge_data c s) /\
  s_sq (merge_data c (merge_data c s)) = s_sq (merge_data c s).
Proof. exact merge_idempotent_state. Qed.

(* every Q stored by add_dataset has at most two decimals *)
Theorem C10_keys_on_001_grid : forall (c : @config R) (d : @dinfo R) q,
  In q (fst (fst (ingest_rows c d))) -> exists n : Z, q = IZR n / 100.
Proof. exact keys_canonical. Qed.

(* ... and so has every Q of the merged curve when the stored ones have *)
Theorem C10_merged_keys_on_001_grid : forall (c : @config R) s,
  (forall q, In q (fst (fst (s_sq s))) -> exists n : Z, q = IZR n / 100) ->
  forall qs sq, t_sq (merge_data c s) = Some (qs, sq) -> forall q, In q qs -> exists n : Z, q = IZR n / 100.
Proof. exact merged_keys_canonical. Qed.

Print Assumptions C10_strictly_increasing.
Print Assumptions C10_keys_exactly_once.
Print Assumptions C10_value_is_mean.
Print Assumptions C10_between_min_max.
Print Assumptions C10_order_independent_items.
Print Assumptions C10_order_independent_state.
Print Assumptions C10_init_state_aligned.
Print Assumptions C10_order_independent_state_rows.
Print Assumptions C10_merged_grid.
Print Assumptions C10_sort_perm.
Print Assumptions C10_sort_sorted.
Print Assumptions C10_sort_sorted_id.
Print Assumptions C10_merge_idempotent.
Print Assumptions C10_keys_on_001_grid.
Print Assumptions C10_merged_keys_on_001_grid.
