(* C11 (manipulations given as call keywords) -- "y scaled then offset, uncertainty scaled only, Q shifted
   by the Q offset ... for all crop/scale/offset settings": add_dataset (and read_dataset / read_all_data,
   which forward them) also takes yscale / yoffset / xoffset as keywords (CallKwM).
     ingest_rows_kw c k d      the rows the repaired code stores for the call add_dataset(d, **k)
     effective k d             the description with every manipulation written out (entry, else keyword)
     ingest_rows_kw_orig       the pinned original, which looked at the keywords only when d had a block
   The correspondence check runs Exec.chk_add on `effective k d` (harness/props/stoglib.py: call_kw_of);
   C11k_keyword_call_is_effective_description is what makes that a check of the keyword call. *)
From Coq Require Import List Reals PrimFloat.
From PyStoG Require Import Num NumR NumF ConverterM StogM CallKwM.
From PyStoG.proofs Require Import CallKwP.
Import ListNotations.

(* every carrier: a call with keywords stores what the plain call stores for the effective description;
   hence every C11 theorem about ingest_rows / add_dataset applies to keyword calls *)
Theorem C11k_keyword_call_is_effective_description : forall (A : Type) (H : Num A) (c : @config A) (k : @callkw A) (d : @dinfo A),
  ingest_rows_kw c k d = ingest_rows c (effective k d).
Proof. exact (@ingest_rows_kw_effective). Qed.

(* over R: without keywords this is the model of the plain call *)
Theorem C11k_no_keywords : forall (c : @config R) (d : @dinfo R),
  ingest_rows_kw c default_kw d = ingest_rows c d.
Proof. exact no_keywords_R. Qed.

(* every carrier: an entry of the description wins, the keyword fills in what it leaves out,
   and stands alone when the description has no block at all *)
Theorem C11k_description_entry_wins : forall (A : Type) (k : @callkw A) (d : @dinfo A) (o : @yopts A) (v : A),
  d_Y d = Some o -> o_scale o = Some v -> eff_yscale k d = v.
Proof. exact (@description_wins). Qed.
Theorem C11k_keyword_fills_missing_entry : forall (A : Type) (k : @callkw A) (d : @dinfo A) (o : @yopts A),
  d_Y d = Some o -> o_scale o = None -> eff_yscale k d = k_yscale k.
Proof. exact (@keyword_fills). Qed.
Theorem C11k_keywords_alone : forall (A : Type) (k : @callkw A) (d : @dinfo A),
  d_Y d = None -> d_X d = None ->
  eff_yscale k d = k_yscale k /\ eff_yoffset k d = k_yoffset k /\ eff_xoffset k d = k_xoffset k.
Proof. exact (@keyword_alone). Qed.

(* the pinned original agrees with the repaired code exactly when the description carries a block ... *)
Theorem C11k_original_agrees_with_block : forall (A : Type) (H : Num A) (c : @config A) (k : @callkw A) (d : @dinfo A),
  has_block d = true -> ingest_rows_kw_orig c k d = ingest_rows_kw c k d.
Proof. exact (@orig_agrees_with_block). Qed.
(* ... and (binary64, executed) drops the keywords otherwise: add_dataset({Q = 0.5, 0.6, 0.7; y = 1, 2, 3},
   yscale=2, yoffset=0.5, xoffset=0.1) stored y = 1, 2, 3 where 2.5, 4.5, 6.5 belong (defect D12) *)
Theorem C11k_original_drops_keywords_refuted :
  ycol (ingest_rows_kw_orig wit_c wit_k wit_d) = [1; 2; 3]%float /\
  ycol (ingest_rows_kw wit_c wit_k wit_d) = [2.5; 4.5; 6.5]%float.
Proof. exact original_drops_keywords. Qed.

Print Assumptions C11k_keyword_call_is_effective_description.
Print Assumptions C11k_no_keywords.
Print Assumptions C11k_description_entry_wins.
Print Assumptions C11k_keyword_fills_missing_entry.
Print Assumptions C11k_keywords_alone.
Print Assumptions C11k_original_agrees_with_block.
Print Assumptions C11k_original_drops_keywords_refuted.
