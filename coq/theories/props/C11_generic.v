(* C11 (carrier-independent part) -- what add_dataset does to the state does not depend on the
   state, for EVERY number carrier A with ANY interpretation H of the operations (class Num), no law
   assumed: in particular for the executed IEEE binary64 instance.  (The content of the stored rows
   -- windows, scaling, the 0.01 grid -- is about the real order and arithmetic and stays in C11.v.)

   masters_g s = the nine master curves
                 (t_sq s, t_qsq s, t_ft s, t_sqft s, t_fq s, t_gr s, t_grft s, t_grl s, t_gk s). *)
From Coq Require Import List PrimFloat.
From PyStoG Require Import Num NumF ConverterM TransformerM FilterM StogM.
From PyStoG.proofs Require Import GenericStogP GenericFloatP.
Import ListNotations.

(* add_dataset appends exactly ingest_rows c d (and its S(Q) conversion) to the two storage arrays,
   whatever the state; the nine master curves are untouched *)
Theorem C11g_add_dataset_appends : forall (A : Type) (H : Num A) (c : @config A) (s : @state A) (d : @dinfo A),
  s_recip (add_dataset c s d) = cat3 (s_recip s) (ingest_rows c d) /\
  s_sq (add_dataset c s d) = cat3 (s_sq s) (to_sq c d (ingest_rows c d)) /\
  t_sq (add_dataset c s d) = t_sq s /\ t_qsq (add_dataset c s d) = t_qsq s /\
  t_ft (add_dataset c s d) = t_ft s /\ t_sqft (add_dataset c s d) = t_sqft s /\
  t_fq (add_dataset c s d) = t_fq s /\ t_gr (add_dataset c s d) = t_gr s /\
  t_grft (add_dataset c s d) = t_grft s /\ t_grl (add_dataset c s d) = t_grl s /\
  t_gk (add_dataset c s d) = t_gk s.
Proof. exact @add_dataset_appends_gen. Qed.

(* any number and order of datasets: the arrays are the log of the independently ingested rows *)
Theorem C11g_history_independent : forall (A : Type) (H : Num A) (c : @config A) (ds : list (@dinfo A)) (s0 : @state A),
  s_recip (fold_left (add_dataset c) ds s0) =
    fold_left cat3 (map (ingest_rows c) ds) (s_recip s0) /\
  s_sq (fold_left (add_dataset c) ds s0) =
    fold_left cat3 (map (fun d => to_sq c d (ingest_rows c d)) ds) (s_sq s0).
Proof. exact @ingest_history_independent_gen. Qed.

(* the master curves survive any number of add_dataset calls *)
Theorem C11g_masters_untouched : forall (A : Type) (H : Num A) (c : @config A) (ds : list (@dinfo A)) (s0 : @state A),
  masters_g (fold_left (add_dataset c) ds s0) = masters_g s0.
Proof. exact @masters_untouched_gen. Qed.

(* the S(Q) row is the converter applied to the stored row, with the same Q column *)
Theorem C11g_sq_row_is_conversion : forall (A : Type) (H : Num A) (c : @config A) (d : @dinfo A) (x y e : list A),
  to_sq c d (x, y, e) =
    (x, fst (rconv (d_kind d) rS x y (Some e) (conv_kw c)),
        snd (rconv (d_kind d) rS x y (Some e) (conv_kw c))).
Proof. exact @to_sq_def_gen. Qed.

(* ---- at the executed carrier ---- *)
Theorem C11g_history_independent_binary64 : forall (c : @config float) (ds : list (@dinfo float)) (s0 : @state float),
  s_recip (fold_left (add_dataset c) ds s0) =
    fold_left cat3 (map (ingest_rows c) ds) (s_recip s0) /\
  s_sq (fold_left (add_dataset c) ds s0) =
    fold_left cat3 (map (fun d => to_sq c d (ingest_rows c d)) ds) (s_sq s0).
Proof. exact ingest_history_independent_float. Qed.

Print Assumptions C11g_add_dataset_appends.
Print Assumptions C11g_history_independent.
Print Assumptions C11g_masters_untouched.
Print Assumptions C11g_sq_row_is_conversion.
Print Assumptions C11g_history_independent_binary64.
