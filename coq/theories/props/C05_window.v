(* C05 / C13 for the named transforms called WITH the window keywords xmin / xmax.

   Vocabulary.
   - WindowM.v models the 24 named transforms of Transformer when the caller passes xmin= / xmax=:
       q2r_w lo hi X Y q v r dy k    the Q -> r method  X_to_Y  (X in rS rF rFK rDCS, Y in gg gG gGK),
       r2q_w lo hi X Y r v q dy k    the r -> Q method  X_to_Y  (X in gg gG gGK, Y in rS rF rFK rDCS),
     lo hi : option A  are the keywords (None = keyword not passed);  q / r the input abscissa,
     v the input data, the third vector the output abscissa, dy the optional uncertainties
     (None is read as zeros: dflt_zeros v dy), k the keyword record (rho, bcoh, btot, lorch, omitted).
     The result is the triple (output grid, values, uncertainties); tr_val / tr_err project it.
   - q2r X Y / r2q X Y (TransformerM.v) are the same methods called without window keywords.
   - rconv X Y / gconv X Y (ConverterM.v) are the tables of the Converter methods (reciprocal / real
     space); rconv X X is the identity conversion.
   - fourier_transform x y xout lo hi dy k  is the core sine transform with its window arguments.
   - apply_cropping x y lo hi dy = (x', y', e')  keeps the points with  leb lo x_i && leb x_i hi
     (closed interval), of x, y and the uncertainties (zeros when dy = None), aligned.
   - vscale_r c v = map (fun t => t * c) v;  two_over_pi = two / pi  in the carrier's arithmetic.

   The first group of theorems holds for EVERY number carrier A with ANY interpretation H of the
   operations (class Num) -- no law of the operations is assumed, so they hold verbatim at the
   executed IEEE binary64 instance (NaN, infinities and signed zeros included) and at the reals.
   The second group (index form with real inequalities; agreement of sibling transforms, which uses
   field laws and positivity) is about the reals. *)
From Coq Require Import List Reals Bool.
From PyStoG Require Import Num NumR ConverterM TransformerM WindowM.
From PyStoG.proofs Require Import ConverterP NamedP WindowP.
Import ListNotations.
Open Scope R_scope.

(* ================= every carrier ================= *)

(* a. not passing the window keywords = the un-windowed named method, all 12 + 12 methods *)
Theorem C05w_q2r_no_window :
  forall (A : Type) (H : Num A) X Y (q v r : list A) (dy : option (list A)) (k : kw A),
  q2r_w None None X Y q v r dy k = q2r X Y q v r dy k.
Proof. exact @q2r_w_none. Qed.

Theorem C05w_r2q_no_window :
  forall (A : Type) (H : Num A) X Y (r v q : list A) (dy : option (list A)) (k : kw A),
  r2q_w None None X Y r v q dy k = r2q X Y r v q dy k.
Proof. exact @r2q_w_none. Qed.

(* a missing keyword means the corresponding extreme of the abscissa the caller passed *)
Theorem C05w_q2r_window_defaults :
  forall (A : Type) (H : Num A) lo hi X Y (q v r : list A) (dy : option (list A)) (k : kw A),
  q2r_w lo hi X Y q v r dy k =
  q2r_w (Some (match lo with Some a => a | None => vmin q end))
        (Some (match hi with Some b => b | None => vmax q end)) X Y q v r dy k.
Proof. exact @q2r_w_window_defaults. Qed.

Theorem C05w_r2q_window_defaults :
  forall (A : Type) (H : Num A) lo hi X Y (r v q : list A) (dy : option (list A)) (k : kw A),
  r2q_w lo hi X Y r v q dy k =
  r2q_w (Some (match lo with Some a => a | None => vmin r end))
        (Some (match hi with Some b => b | None => vmax r end)) X Y r v q dy k.
Proof. exact @r2q_w_window_defaults. Qed.

(* b. decomposition: X -> F(Q), core transform WITH THE CALLER'S WINDOW, * 2/pi, G(r) -> Y;
   the conversions do not see the window; values and uncertainties; no side condition *)
Theorem C05w_q2r_decomposition :
  forall (A : Type) (H : Num A) lo hi X Y (q v r : list A) (dy : option (list A)) (k : kw A),
  q2r_w lo hi X Y q v r dy k =
    let '(f, df) := rconv X rF q v dy k in
    let '(r', T, E) := fourier_transform q f r lo hi (Some df) k in
    let '(g, dg) := gconv gG Y r' (vscale_r two_over_pi T) (Some (vscale_r two_over_pi E)) k in
    (r', g, dg).
Proof. exact @q2r_w_decomposition. Qed.

Theorem C05w_r2q_decomposition :
  forall (A : Type) (H : Num A) lo hi X Y (r v q : list A) (dy : option (list A)) (k : kw A),
  r2q_w lo hi X Y r v q dy k =
    let '(G, dG) := gconv X gG r v dy k in
    let '(q', T, E) := fourier_transform r G q lo hi (Some dG) k in
    let '(f, df) := rconv rF Y q' T (Some E) k in (q', f, df).
Proof. exact @r2q_w_decomposition. Qed.

(* every conversion (all 16 of rconv, all 9 of gconv) is pointwise, so it commutes with the crop:
   converting the cropped data = cropping the converted data (values and uncertainties) *)
Theorem C05w_rconv_commutes_with_crop :
  forall (A : Type) (H : Num A) X Y (q v : list A) (dy : option (list A)) lo hi (k : kw A),
  let '(q', v', e') := apply_cropping q v lo hi dy in
  rconv X Y q' v' (Some e') k =
  let '(f, df) := rconv X Y q v dy k in
  let '(_, f', df') := apply_cropping q f lo hi (Some df) in (f', df').
Proof. exact @rconv_commutes_with_crop. Qed.

Theorem C05w_gconv_commutes_with_crop :
  forall (A : Type) (H : Num A) X Y (r v : list A) (dy : option (list A)) lo hi (k : kw A),
  let '(r', v', e') := apply_cropping r v lo hi dy in
  gconv X Y r' v' (Some e') k =
  let '(g, dg) := gconv X Y r v dy k in
  let '(_, g', dg') := apply_cropping r g lo hi (Some dg) in (g', dg').
Proof. exact @gconv_commutes_with_crop. Qed.

(* c. the window is a pre-crop for every named method: calling with the window [lo, hi] = deleting
   the outside points of the caller's data first, then calling with the same window *)
Theorem C05w_q2r_window_is_precrop :
  forall (A : Type) (H : Num A) lo hi X Y (q v r : list A) (dy : option (list A)) (k : kw A),
  q2r_w (Some lo) (Some hi) X Y q v r dy k =
  let '(q', v', e') := apply_cropping q v lo hi dy in
  q2r_w (Some lo) (Some hi) X Y q' v' r (Some e') k.
Proof. exact @q2r_w_window_is_precrop. Qed.

Theorem C05w_r2q_window_is_precrop :
  forall (A : Type) (H : Num A) lo hi X Y (r v q : list A) (dy : option (list A)) (k : kw A),
  r2q_w (Some lo) (Some hi) X Y r v q dy k =
  let '(r', v', e') := apply_cropping r v lo hi dy in
  r2q_w (Some lo) (Some hi) X Y r' v' q (Some e') k.
Proof. exact @r2q_w_window_is_precrop. Qed.

(* d. two inputs with the same cropped triple give identical outputs, for every named method *)
Theorem C05w_q2r_outside_irrelevant :
  forall (A : Type) (H : Num A) lo hi X Y (q1 v1 q2 v2 r : list A) d1 d2 (k : kw A),
  apply_cropping q1 v1 lo hi d1 = apply_cropping q2 v2 lo hi d2 ->
  q2r_w (Some lo) (Some hi) X Y q1 v1 r d1 k = q2r_w (Some lo) (Some hi) X Y q2 v2 r d2 k.
Proof. exact @q2r_w_outside_irrelevant. Qed.

Theorem C05w_r2q_outside_irrelevant :
  forall (A : Type) (H : Num A) lo hi X Y (r1 v1 r2 v2 q : list A) d1 d2 (k : kw A),
  apply_cropping r1 v1 lo hi d1 = apply_cropping r2 v2 lo hi d2 ->
  r2q_w (Some lo) (Some hi) X Y r1 v1 q d1 k = r2q_w (Some lo) (Some hi) X Y r2 v2 q d2 k.
Proof. exact @r2q_w_outside_irrelevant. Qed.

(* d, index form: same abscissae; data and uncertainties agree at every index whose abscissa passes
   the carrier's own closed-interval test *)
Theorem C05w_q2r_outside_irrelevant_idx :
  forall (A : Type) (H : Num A) (lo hi : A) X Y (q v1 v2 r : list A) d1 d2 (k : kw A),
  length v1 = length v2 -> length (dflt_zeros v1 d1) = length (dflt_zeros v2 d2) ->
  (forall i, (i < length q)%nat -> leb lo (nth i q zero) && leb (nth i q zero) hi = true ->
     nth i v1 zero = nth i v2 zero /\
     nth i (dflt_zeros v1 d1) zero = nth i (dflt_zeros v2 d2) zero) ->
  q2r_w (Some lo) (Some hi) X Y q v1 r d1 k = q2r_w (Some lo) (Some hi) X Y q v2 r d2 k.
Proof. exact @q2r_w_outside_irrelevant_idx. Qed.

Theorem C05w_r2q_outside_irrelevant_idx :
  forall (A : Type) (H : Num A) (lo hi : A) X Y (r v1 v2 q : list A) d1 d2 (k : kw A),
  length v1 = length v2 -> length (dflt_zeros v1 d1) = length (dflt_zeros v2 d2) ->
  (forall i, (i < length r)%nat -> leb lo (nth i r zero) && leb (nth i r zero) hi = true ->
     nth i v1 zero = nth i v2 zero /\
     nth i (dflt_zeros v1 d1) zero = nth i (dflt_zeros v2 d2) zero) ->
  r2q_w (Some lo) (Some hi) X Y r v1 q d1 k = r2q_w (Some lo) (Some hi) X Y r v2 q d2 k.
Proof. exact @r2q_w_outside_irrelevant_idx. Qed.

(* ================= the reals ================= *)

(* d. points outside [lo, hi] cannot influence a named method called with the window [lo, hi]:
   data and uncertainties (None = zeros) only have to agree where  lo <= q_i <= hi *)
Theorem C05w_q2r_outside_irrelevant_R :
  forall (lo hi : R) X Y (q v1 v2 r : list R) d1 d2 (k : kw R),
  length v1 = length q -> length v2 = length q -> dok d1 (length q) -> dok d2 (length q) ->
  (forall i, (i < length q)%nat -> lo <= nth i q 0 <= hi ->
     nth i v1 0 = nth i v2 0 /\ nth i (dflt_zeros v1 d1) 0 = nth i (dflt_zeros v2 d2) 0) ->
  q2r_w (Some lo) (Some hi) X Y q v1 r d1 k = q2r_w (Some lo) (Some hi) X Y q v2 r d2 k.
Proof. exact q2r_w_outside_irrelevant_R. Qed.

Theorem C05w_r2q_outside_irrelevant_R :
  forall (lo hi : R) X Y (r v1 v2 q : list R) d1 d2 (k : kw R),
  length v1 = length r -> length v2 = length r -> dok d1 (length r) -> dok d2 (length r) ->
  (forall i, (i < length r)%nat -> lo <= nth i r 0 <= hi ->
     nth i v1 0 = nth i v2 0 /\ nth i (dflt_zeros v1 d1) 0 = nth i (dflt_zeros v2 d2) 0) ->
  r2q_w (Some lo) (Some hi) X Y r v1 q d1 k = r2q_w (Some lo) (Some hi) X Y r v2 q d2 k.
Proof. exact r2q_w_outside_irrelevant_R. Qed.

(* e. sibling methods agree with the same window (present or absent, lo hi : option R) on both
   sides: convert the input X -> X' first and transform to Y' = transform X -> Y, then convert
   Y -> Y'.  Same hypotheses as the un-windowed C05_transforms_agree_*. *)
Theorem C05w_transforms_agree_q2r : forall lo hi (k : kw R) X X' Y Y' q v r dy,
  allpos q -> allpos r -> 0 < rho k -> 0 < bcoh k -> length v = length q -> dok dy (length q) ->
  tr_val (q2r_w lo hi X' Y' q (fst (rconv X X' q v dy k)) r (Some (snd (rconv X X' q v dy k))) k)
  = fst (gconv Y Y' r (tr_val (q2r_w lo hi X Y q v r dy k)) None k).
Proof. exact transforms_agree_q2r_w. Qed.

Theorem C05w_transforms_agree_q2r_unc : forall lo hi (k : kw R) X X' Y Y' q v r dy,
  allpos q -> allpos r -> 0 < rho k -> 0 < bcoh k -> length v = length q -> dok dy (length q) ->
  tr_err (q2r_w lo hi X' Y' q (fst (rconv X X' q v dy k)) r (Some (snd (rconv X X' q v dy k))) k)
  = snd (gconv Y Y' r (tr_val (q2r_w lo hi X Y q v r dy k)) (Some (tr_err (q2r_w lo hi X Y q v r dy k))) k).
Proof. exact transforms_agree_q2r_w_unc. Qed.

Theorem C05w_transforms_agree_r2q : forall lo hi (k : kw R) X X' Y Y' r v q dy,
  allpos r -> allpos q -> 0 < rho k -> 0 < bcoh k -> length v = length r -> dok dy (length r) ->
  tr_val (r2q_w lo hi X' Y' r (fst (gconv X X' r v dy k)) q (Some (snd (gconv X X' r v dy k))) k)
  = fst (rconv Y Y' q (tr_val (r2q_w lo hi X Y r v q dy k)) None k).
Proof. exact transforms_agree_r2q_w. Qed.

Theorem C05w_transforms_agree_r2q_unc : forall lo hi (k : kw R) X X' Y Y' r v q dy,
  allpos r -> allpos q -> 0 < rho k -> 0 < bcoh k -> length v = length r -> dok dy (length r) ->
  tr_err (r2q_w lo hi X' Y' r (fst (gconv X X' r v dy k)) q (Some (snd (gconv X X' r v dy k))) k)
  = snd (rconv Y Y' q (tr_val (r2q_w lo hi X Y r v q dy k)) (Some (tr_err (r2q_w lo hi X Y r v q dy k))) k).
Proof. exact transforms_agree_r2q_w_unc. Qed.

(* grid, values and uncertainties at once *)
Theorem C05w_transforms_agree_q2r_full : forall lo hi (k : kw R) X X' Y Y' q v r dy,
  allpos q -> allpos r -> 0 < rho k -> 0 < bcoh k -> length v = length q -> dok dy (length q) ->
  q2r_w lo hi X' Y' q (fst (rconv X X' q v dy k)) r (Some (snd (rconv X X' q v dy k))) k
  = let t := q2r_w lo hi X Y q v r dy k in
    let c := gconv Y Y' r (tr_val t) (Some (tr_err t)) k in (r, fst c, snd c).
Proof. exact transforms_agree_q2r_w_full. Qed.

Theorem C05w_transforms_agree_r2q_full : forall lo hi (k : kw R) X X' Y Y' r v q dy,
  allpos r -> allpos q -> 0 < rho k -> 0 < bcoh k -> length v = length r -> dok dy (length r) ->
  r2q_w lo hi X' Y' r (fst (gconv X X' r v dy k)) q (Some (snd (gconv X X' r v dy k))) k
  = let t := r2q_w lo hi X Y r v q dy k in
    let c := rconv Y Y' q (tr_val t) (Some (tr_err t)) k in (q, fst c, snd c).
Proof. exact transforms_agree_r2q_w_full. Qed.

Print Assumptions C05w_q2r_no_window.
Print Assumptions C05w_r2q_no_window.
Print Assumptions C05w_q2r_window_defaults.
Print Assumptions C05w_r2q_window_defaults.
Print Assumptions C05w_q2r_decomposition.
Print Assumptions C05w_r2q_decomposition.
Print Assumptions C05w_rconv_commutes_with_crop.
Print Assumptions C05w_gconv_commutes_with_crop.
Print Assumptions C05w_q2r_window_is_precrop.
Print Assumptions C05w_r2q_window_is_precrop.
Print Assumptions C05w_q2r_outside_irrelevant.
Print Assumptions C05w_r2q_outside_irrelevant.
Print Assumptions C05w_q2r_outside_irrelevant_idx.
Print Assumptions C05w_r2q_outside_irrelevant_idx.
Print Assumptions C05w_q2r_outside_irrelevant_R.
Print Assumptions C05w_r2q_outside_irrelevant_R.
Print Assumptions C05w_transforms_agree_q2r.
Print Assumptions C05w_transforms_agree_q2r_unc.
Print Assumptions C05w_transforms_agree_r2q.
Print Assumptions C05w_transforms_agree_r2q_unc.
Print Assumptions C05w_transforms_agree_q2r_full.
Print Assumptions C05w_transforms_agree_r2q_full.
