(* C10 (histories with merges in between) -- "for all ... any number and order of previously added datasets":
   merge_data writes the stored S(Q) rows back sorted, so a later add_dataset appends to a permutation of what a
   single pass would have stored; merging, adding a further dataset and merging again therefore gives the curves of
   merging once after everything was added.  The oracle of C10 replays exactly this history on the implementation. *)
From Coq Require Import List Reals Permutation.
From PyStoG Require Import Num NumR ConverterM TransformerM FilterM StogM.
From PyStoG.proofs Require Import MergeP MergeIncrP.
Import ListNotations.
Open Scope R_scope.

Theorem C10_merge_add_rows_are_a_permutation : forall (c : @config R) (s : @state R) (d : @dinfo R), aligned (s_sq s) ->
  Permutation (zip3 (s_sq (add_dataset c (merge_data c s) d))) (zip3 (s_sq (add_dataset c s d))).
Proof. exact merge_add_rows_perm. Qed.

Theorem C10_merge_add_merge : forall (c : @config R) (s : @state R) (d : @dinfo R), aligned (s_sq s) ->
  t_sq (merge_data c (add_dataset c (merge_data c s) d)) = t_sq (merge_data c (add_dataset c s d)) /\
  t_qsq (merge_data c (add_dataset c (merge_data c s) d)) = t_qsq (merge_data c (add_dataset c s d)).
Proof. exact merge_add_merge. Qed.

Print Assumptions C10_merge_add_rows_are_a_permutation.
Print Assumptions C10_merge_add_merge.
