(* C12 (low-r cost on the workflow state) -- _get_lowR_mean_square after ANY sequence of workflow steps is either
   unavailable (no real-space curve stored yet) or the cost of the transform of the merged data: it does not depend on
   which steps ran, in which order or how often; right after transform_merged it is always available.  For every number
   carrier (no law assumed).  Proofs in proofs/LowRStateP.v on top of the invariant of C12_generic.v. *)
From Coq Require Import List.
From PyStoG Require Import Num ConverterM TransformerM FilterM StogM LowRM.
From PyStoG.proofs Require Import GenericStogP LowRStateP.
Import ListNotations.

Theorem C12g_lowr_history_independent : forall (A : Type) (H : Num A) (c : @config A) (s0 : @state A) (ops : list (@op A)),
  (t_gr s0 = None \/ t_gr s0 = Some (T_g c s0)) ->
  lowr_of_state c (run c s0 ops) = None \/
  lowr_of_state c (run c s0 ops) = Some (get_lowr_mean_square (c_dr c) (snd (T_g c s0))).
Proof. exact @lowr_of_state_history_independent. Qed.

Theorem C12g_lowr_after_transform : forall (A : Type) (H : Num A) (c : @config A) (s0 : @state A) (ops : list (@op A)),
  lowr_of_state c (fst (transform_merged c (run c s0 ops))) = Some (get_lowr_mean_square (c_dr c) (snd (T_g c s0))).
Proof. exact @lowr_of_state_after_transform. Qed.

Print Assumptions C12g_lowr_history_independent.
Print Assumptions C12g_lowr_after_transform.
