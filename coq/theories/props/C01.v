(* C01 -- the Fourier transform pair of transformer.py:
     Q[S(Q)-1] = Int G(r) sin(Qr) dr          (G_to_F: bare trapezoid sine sum)
     G(r) = (2/pi) Int Q[S(Q)-1] sin(Qr) dQ   (F_to_G: the same sum times 2/pi)
   each direction pinned separately, and on the matched uniform grids
     rgrid N dr = [j dr | j = 0..N],   qgrid N dr = [k pi/(N dr) | k = 0..N]
   the two directions are exact inverses of each other (discrete sine
   orthogonality), also through the named methods g_to_S / S_to_g.
   Vocabulary (proofs/RoundTripP.v, proofs/DstP.v):
     vals t    = the values component of the triple (abscissa, values, uncertainties)
     plain k   = lorch k = false /\ omitted k = false
     sumf f n  = f 0 + ... + f (n-1) *)
From PyStoG Require Import Num NumR ConverterM TransformerM.
From PyStoG.proofs Require Import DstP RoundTripP AnchorsP.
(* Reals last: sin, sqrt, exp below are the functions on R *)
From Coq Require Import List Reals.
From Coquelicot Require Import Coquelicot.
Open Scope R_scope.

(* sum_{k<N} sin(j k pi/N) sin(m k pi/N) = N/2 if j = m, else 0   (0 < j, m < N) *)
Theorem C01_dst_orthogonality : forall (N j m : nat), (0 < j < N)%nat -> (0 < m < N)%nat ->
  sumf (fun k => sin (INR j * (INR k * PI / INR N)) * sin (INR m * (INR k * PI / INR N))) N
  = if Nat.eqb j m then INR N / 2 else 0.
Proof. exact dst_orthogonality. Qed.

(* convention, r -> Q:  no prefactor *)
Theorem C01_G_to_F_is_bare_sum : forall (r g q : list R) dg (k : kw R),
  plain k -> length g = length r ->
  vals (G_to_F r g q dg k) = map (fun Q => trapz r (map2 (fun gj rj => gj * sin (rj * Q)) g r)) q.
Proof. exact G_to_F_is_bare_sum. Qed.

(* convention, Q -> r:  the same sum times 2/pi *)
Theorem C01_F_to_G_is_two_over_pi_sum : forall (q f r : list R) df (k : kw R),
  plain k -> length f = length q ->
  vals (F_to_G q f r df k)
  = map (fun r' => trapz q (map2 (fun fj qj => fj * sin (qj * r')) f q) * (2 / PI)) r.
Proof. exact F_to_G_is_two_over_pi_sum. Qed.

(* G(r) -> Q[S(Q)-1] -> G(r) is the identity when G vanishes at both ends of the grid *)
Theorem C01_roundtrip_rQr : forall (N : nat) (dr : R) (G : list R) d1 d2 (k : kw R),
  (0 < N)%nat -> 0 < dr -> plain k ->
  length G = S N -> nth 0 G 0 = 0 -> nth N G 0 = 0 ->
  vals (F_to_G (qgrid N dr) (vals (G_to_F (rgrid N dr) G (qgrid N dr) d1 k)) (rgrid N dr) d2 k) = G.
Proof. exact roundtrip_rQr. Qed.

(* Q[S(Q)-1] -> G(r) -> Q[S(Q)-1] is the identity when F vanishes at both ends of the grid *)
Theorem C01_roundtrip_QrQ : forall (N : nat) (dr : R) (F : list R) d1 d2 (k : kw R),
  (0 < N)%nat -> 0 < dr -> plain k ->
  length F = S N -> nth 0 F 0 = 0 -> nth N F 0 = 0 ->
  vals (G_to_F (rgrid N dr) (vals (F_to_G (qgrid N dr) F (rgrid N dr) d1 k)) (qgrid N dr) d2 k) = F.
Proof. exact roundtrip_QrQ. Qed.

(* g(r) -> S(Q) -> g(r): g = 1 at the last grid point suffices; the result is g
   at every r > 0 and the conventional g = 1 at r = 0 (whatever g was there) *)
Theorem C01_roundtrip_g_S_g : forall (N : nat) (dr : R) (g : list R) d1 d2 (k : kw R),
  (0 < N)%nat -> 0 < dr -> plain k -> 0 < rho k ->
  length g = S N -> nth N g 0 = 1 ->
  let g' := vals (S_to_g (qgrid N dr) (vals (g_to_S (rgrid N dr) g (qgrid N dr) d1 k)) (rgrid N dr) d2 k) in
  length g' = S N /\ nth 0 g' 0 = 1 /\ forall j, (0 < j <= N)%nat -> nth j g' 0 = nth j g 0.
Proof. exact roundtrip_g_S_g. Qed.

(* S(Q) -> g(r) -> S(Q): S = 1 at the last grid point suffices; the result is S
   at every Q > 0 and the conventional S = 1 at Q = 0 *)
Theorem C01_roundtrip_S_g_S : forall (N : nat) (dr : R) (s : list R) d1 d2 (k : kw R),
  (0 < N)%nat -> 0 < dr -> plain k -> 0 < rho k ->
  length s = S N -> nth N s 0 = 1 ->
  let s' := vals (g_to_S (rgrid N dr) (vals (S_to_g (qgrid N dr) s (rgrid N dr) d1 k)) (qgrid N dr) d2 k) in
  length s' = S N /\ nth 0 s' 0 = 1 /\ forall j, (0 < j <= N)%nat -> nth j s' 0 = nth j s 0.
Proof. exact roundtrip_S_g_S. Qed.

(* closed-form anchors of the continuous pair G = r exp(-r^2) <-> F = sqrt(pi) Q/4 exp(-Q^2/4),
   on finite integration ranges, to 1e-9:  F(2) = Int G sin(2r) dr ;  G(1) = 2/pi Int F sin(Q) dQ *)
Theorem C01_anchor_r_to_Q :
  Rabs (RInt (fun r => r * exp (- r * r) * sin (2 * r)) 0 8 - sqrt PI * 2 / 4 * exp (-1)) <= 1e-9.
Proof. exact anchor_r_to_Q. Qed.

Theorem C01_anchor_Q_to_r :
  Rabs (2 / PI * RInt (fun Q => sqrt PI * Q / 4 * exp (- Q * Q / 4) * sin (Q * 1)) 0 16 - 1 * exp (-1)) <= 1e-9.
Proof. exact anchor_Q_to_r. Qed.

Print Assumptions C01_dst_orthogonality.
Print Assumptions C01_G_to_F_is_bare_sum.
Print Assumptions C01_F_to_G_is_two_over_pi_sum.
Print Assumptions C01_roundtrip_rQr.
Print Assumptions C01_roundtrip_QrQ.
Print Assumptions C01_roundtrip_g_S_g.
Print Assumptions C01_roundtrip_S_g_S.
Print Assumptions C01_anchor_r_to_Q.
Print Assumptions C01_anchor_Q_to_r.
