(* C19_flags.v -- flag form of the command line: an omitted flag behaves exactly like its argparse default.
   Statement-only file. *)
From Coq Require Import List ZArith Bool.
From PyStoG Require Import Num ConverterM StogM ConfigM.
From PyStoG.proofs Require Import ConfigFlagsP.

Theorem C19_flags_omitted_is_default : forall (A : Type) (H : Num A) (density : A) (g : @given_flags A),
  args_of_flags density (fill_flags density g) = args_of_flags density g.
Proof. exact @flags_omitted_is_default. Qed.

Theorem C19_no_flags_is_default_args : forall (A : Type) (H : Num A) (density : A),
  args_of_flags density {| g_fn := None; g_rmax := None; g_rpoints := None; g_rdelta := None; g_cutoff := None;
                           g_lorch := false; g_bcoh := None; g_btot := None; g_merge := None; g_lowq := false |}
  = default_args density.
Proof. exact @no_flags_is_default_args. Qed.

Theorem C19_flags_omitted_same_settings : forall (A : Type) (H : Num A) (density : A) (g : @given_flags A),
  kwargs2attr (parse_cli_args (args_of_flags density (fill_flags density g)))
  = kwargs2attr (parse_cli_args (args_of_flags density g)) /\
  cli_plan (parse_cli_args (args_of_flags density (fill_flags density g)))
  = cli_plan (parse_cli_args (args_of_flags density g)).
Proof. exact @flags_omitted_same_settings. Qed.

Print Assumptions C19_flags_omitted_is_default.
Print Assumptions C19_no_flags_is_default_args.
Print Assumptions C19_flags_omitted_same_settings.
