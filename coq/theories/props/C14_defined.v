(* C14_defined.v -- the 'never NaN or infinity' clause of C14 over the defined-reals carrier (NumE.v):
   a division by zero or a square root of a negative number is `None`; these theorems say the run is total
   and coincides with the real-number model.  Statement-only file. *)
From Coq Require Import List Reals.
From PyStoG Require Import Num NumR NumE ConverterM TransformerM FilterM StogM.
From PyStoG.proofs Require Import DefinedP.
Import ListNotations.
Open Scope R_scope.

(* C03: all 16 reciprocal-space conversions, EVERY abscissa (0 and negative included), any
   lengths, uncertainties given or not: total, and equal to the real-number model *)
(* C14: the Lorch weight divides only when a x <> 0 *)
Theorem C14_lorch_weight : forall a x : R,
  lorch_weight (A:=ER) (Some a) (Some x) = Some (lorch_weight a x).
Proof. exact lorch_weight_defined. Qed.
Theorem C14_lorch_factor : forall (xmax : R) (x : list R), xmax <> 0 ->
  lorch_factor (A:=ER) (Some xmax) (inj x) = inj (lorch_factor xmax x).
Proof. exact lorch_factor_defined. Qed.
(* with xmax = 0 the constant pi / xmax is itself undefined, and so is every weight *)
Theorem C14_lorch_constant_undefined : div (A:=ER) pi (Some 0) = None.
Proof. exact pi_over_zero_undefined. Qed.
Theorem C14_lorch_factor_zero_undefined : forall x : list R,
  lorch_factor (A:=ER) (Some 0) (inj x) = map (fun _ => None) x.
Proof. exact lorch_factor_zero_undefined. Qed.

(* C02 / C14: the core transform without omitted-range correction, Lorch on or off, any window,
   any lengths: all three outputs (grid, values, uncertainties) are defined and equal to the
   real-number model.  window_hi x b = b if given, else max(x) *)
Theorem C14_fourier_transform :
  forall (x y xo : list R) (a b : option R) (dy : option (list R)) (k : kw R),
  omitted k = false ->
  (lorch k = true -> window_hi x b <> 0) ->
  fourier_transform (inj x) (inj y) (inj xo) (option_map Some a) (option_map Some b) (option_map inj dy) (liftk k)
  = lift3 (fourier_transform x y xo a b dy k).
Proof. exact fourier_transform_defined. Qed.


Print Assumptions C14_lorch_weight.
Print Assumptions C14_lorch_factor.
Print Assumptions C14_lorch_constant_undefined.
Print Assumptions C14_lorch_factor_zero_undefined.
Print Assumptions C14_fourier_transform.
