(* C16 -- library calls are pure: inputs untouched, results reproducible, dtype-blind.
   The dtype clause: finite-domain theorems about the dtype shadow of every
   buffer creation and store (exhaustive over all int/float assignments).
   The purity / reproducibility clauses: the model of every library method is
   a Gallina function of its arguments -- it has no state, no uninitialised
   slot and no mutation to express -- so they hold of the model by
   construction; what ties them to the code is the correspondence run under
   perturbation (twice, poisoned heap) with argument fingerprints. *)
From Coq Require Import List Bool Reals.
From PyStoG Require Import Num NumR ConverterM TransformerM FilterM DTypeShadow.
From PyStoG.proofs Require Import PurityP.

Theorem C16_no_truncation_conversions : forallb (fun s => negb (bad s)) (conv_sweep sd) = true.
Proof. exact no_truncation_conversions. Qed.
Theorem C16_no_truncation_transforms : forallb (fun s => negb (bad s)) (ft_sweep true) = true.
Proof. exact no_truncation_transforms. Qed.
Theorem C16_transform_outputs_float : forallb (fun s => dt_eqb (v_dt s) F && dt_eqb (e_dt s) F) (ft_sweep true) = true.
Proof. exact transform_outputs_float. Qed.
Theorem C16_conversion_values_float : forallb (fun s => dt_eqb (v_dt s) F) (conv_sweep sd) = true.
Proof. exact conversion_values_float. Qed.
(* the original buffer creations (before the repair) truncate *)
Theorem C16_original_safe_divide_truncates : existsb bad (conv_sweep sd_old) = true.
Proof. exact old_safe_divide_truncates. Qed.
Theorem C16_original_transform_truncates : existsb bad (ft_sweep false) = true.
Proof. exact old_transform_truncates. Qed.
(* same arguments, same result: trivially true of a function, stated for the record *)
Theorem C16_model_is_a_function : forall (x y xo : list R) a b dy (k : kw R) x' y' xo' a' b' dy' k',
  x = x' -> y = y' -> xo = xo' -> a = a' -> b = b' -> dy = dy' -> k = k' ->
  fourier_transform x y xo a b dy k = fourier_transform x' y' xo' a' b' dy' k'.
Proof. exact model_is_a_function. Qed.

Print Assumptions C16_no_truncation_conversions.
Print Assumptions C16_no_truncation_transforms.
Print Assumptions C16_transform_outputs_float.
Print Assumptions C16_conversion_values_float.
Print Assumptions C16_original_safe_divide_truncates.
Print Assumptions C16_original_transform_truncates.
Print Assumptions C16_model_is_a_function.
