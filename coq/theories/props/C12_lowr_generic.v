(* C12 (low-r mean square, carrier-independent part) -- which entries of the stored curve the cost function reads: for
   EVERY number carrier A with ANY interpretation H of the operations (class Num), no law assumed -- in particular for
   the executed IEEE binary64 instance, NaN and infinite samples beyond the limit included.  Proofs in proofs/LowRGenP.v. *)
From Coq Require Import List PrimFloat.
From PyStoG Require Import Num NumF LowRM.
From PyStoG.proofs Require Import LowRGenP.
Import ListNotations.

Theorem C12g_lowr_get_reads_stored_curve : forall (A : Type) (H : Num A) (dr g : list A),
  get_lowr_mean_square dr g = lowr_mean_square dr g lowr_default_limit.
Proof. exact @get_lowr_reads_stored_curve_gen. Qed.

Theorem C12g_lowr_ignores_unmasked_points : forall (A : Type) (H : Num A) (lim : A) r g g',
  agree_masked lim r g g' -> lowr_mean_square r g lim = lowr_mean_square r g' lim.
Proof. exact @lowr_ignores_unmasked_gen. Qed.

Theorem C12g_lowr_selection_is_a_sublist : forall (A : Type) (H : Num A) (lim : A) r g,
  length (mask_le lim r g) <= length g.
Proof. exact @mask_le_length_gen. Qed.

Theorem C12g_lowr_ignores_unmasked_points_binary64 : forall (lim : float) r g g',
  agree_masked lim r g g' -> lowr_mean_square r g lim = lowr_mean_square r g' lim.
Proof. exact lowr_ignores_unmasked_float. Qed.

Print Assumptions C12g_lowr_get_reads_stored_curve.
Print Assumptions C12g_lowr_ignores_unmasked_points.
Print Assumptions C12g_lowr_selection_is_a_sublist.
Print Assumptions C12g_lowr_ignores_unmasked_points_binary64.
