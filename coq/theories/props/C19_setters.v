(* C19 (setters) -- the settings of a StoG object as a state machine over its public setters (stog.py:60-128 initial
   values, 180-806 properties and setters, 261-283 append_file / extend_file_list, 285-291 __update_dr, 130-176
   __kwargs2attr as the sequence of setter calls it makes).
   Vocabulary (SettersM.v): obj = the observable attributes: o_st (the thirteen settings of ConfigM.settings), o_dr (the
   stored r grid), o_tgr / o_tgrft / o_tgrl (the three titles derived from the function name), o_tfix (the five fixed
   titles), o_files, o_stem, o_xmin, o_xmax;  sop = one public call (SRmin v = "s.rmin = v", ..., SAppend f =
   "s.append_file(f)", SExtend l = "s.extend_file_list(l)");  sstep o p = (object after the call, None or Some error);
   srun o ps = the same for a script of calls, stopping at the first call that raises;  obj_init = the object before
   __kwargs2attr;  construct j = the constructor as the setter script ctor_ops_head j ++ ctor_ops_tail j rmax;
   grid_ok o = "o_dr o is the grid of the stored rmin/rmax/rdelta";  titles_ok o = "the three derived titles are the ones
   of the stored function name";  is_dr_op = the dr setter;  is_grid_op = the rmin/rmax/rdelta setters;  is_title_op =
   the three derived-title setters.
   (proofs/SettersP.v): writes_<x> p = Some v when the call p stores v in setting x (None otherwise);  target p = a code
   for the attribute the call is aimed at;  independent p q = different targets, and not (dr setter vs grid setter), and
   not (function-name setter vs derived-title setter);  is_accumulating p = p is SAppend or SExtend;  obj_of s = the
   fresh object with settings s (grid rgrid s, titles of st_fn s, everything else as in obj_init).
   (ConfigM.v): kwargs2attr, json, settings, rgrid, flagv (FlagBool b / FlagOther), fnv (FnName g / FnBad).
   Every statement holds for every carrier (A, Num A): for the reals and for the floats alike. *)
From Coq Require Import List ZArith Bool.
From PyStoG Require Import Num ConverterM StogM ConfigM SettersM.
From PyStoG.proofs Require Import SettersP.
Import ListNotations.

(* ---------------- a. a call that raises leaves the object as it was ---------------- *)

Theorem C19_set_error_keeps_state : forall (A : Type) (H : Num A) (o : @obj A) p e,
  snd (sstep o p) = Some e -> fst (sstep o p) = o.
Proof. exact @error_keeps_state. Qed.

(* a script that raises stops in the state reached by its longest error-free prefix *)
Theorem C19_set_error_prefix : forall (A : Type) (H : Num A) (ps : list (@sop A)) o o' e,
  srun o ps = (o', Some e) ->
  exists ps1 p ps2, ps = ps1 ++ p :: ps2 /\ srun o ps1 = (o', None) /\ snd (sstep o' p) = Some e.
Proof. exact @srun_error_prefix. Qed.

(* ---------------- b. the stored r grid ---------------- *)

Theorem C19_set_grid_init : forall (A : Type) (H : Num A),
  grid_ok (@obj_init A H).
Proof. exact @grid_ok_init. Qed.

(* every call except the dr setter preserves it (whether it raises or not) *)
Theorem C19_set_grid_step : forall (A : Type) (H : Num A) (o : @obj A) p,
  grid_ok o -> is_dr_op p = false -> grid_ok (fst (sstep o p)).
Proof. exact @grid_ok_step. Qed.

Theorem C19_set_grid_run : forall (A : Type) (H : Num A) (ps : list (@sop A)) o,
  grid_ok o -> forallb (fun p => negb (is_dr_op p)) ps = true -> grid_ok (fst (srun o ps)).
Proof. exact @grid_ok_run. Qed.

(* the rmin / rmax / rdelta setters re-establish it from ANY state *)
Theorem C19_set_grid_restored : forall (A : Type) (H : Num A) (o : @obj A) p,
  is_grid_op p = true -> grid_ok (fst (sstep o p)).
Proof. exact @grid_ok_restored. Qed.

(* hence: if the last call touching dr is a grid setter and the script does not raise, the grid is right at the end *)
Theorem C19_set_grid_last_grid_op : forall (A : Type) (H : Num A) (o : @obj A) ps ps1 p ps2,
  ps = ps1 ++ p :: ps2 -> is_grid_op p = true -> forallb (fun q => negb (is_dr_op q)) ps2 = true ->
  snd (srun o ps) = None -> grid_ok (fst (srun o ps)).
Proof. exact @grid_ok_last_grid_op. Qed.

(* ... it is enough that the calls BEFORE the grid setter do not raise *)
Theorem C19_set_grid_last_grid_op_strong : forall (A : Type) (H : Num A) (o : @obj A) ps1 p ps2,
  is_grid_op p = true -> forallb (fun q => negb (is_dr_op q)) ps2 = true ->
  snd (srun o ps1) = None -> grid_ok (fst (srun o (ps1 ++ p :: ps2))).
Proof. exact @grid_ok_last_grid_op_strong. Qed.

(* the invariant is not trivial: the dr setter breaks it (two different grids cannot both be the right one) *)
Theorem C19_set_grid_broken_by_dr : forall (A : Type) (H : Num A) (o : @obj A),
  ~ (grid_ok (fst (sstep o (SDr []))) /\ grid_ok (fst (sstep o (SDr [zero])))).
Proof. exact @grid_ok_broken_by_dr. Qed.

(* ---------------- c. the three derived titles ---------------- *)

Theorem C19_set_titles_init : forall (A : Type) (H : Num A),
  titles_ok (@obj_init A H).
Proof. exact @titles_ok_init. Qed.

Theorem C19_set_titles_step : forall (A : Type) (H : Num A) (o : @obj A) p,
  titles_ok o -> is_title_op p = false -> titles_ok (fst (sstep o p)).
Proof. exact @titles_ok_step. Qed.

Theorem C19_set_titles_run : forall (A : Type) (H : Num A) (ps : list (@sop A)) o,
  titles_ok o -> forallb (fun p => negb (is_title_op p)) ps = true -> titles_ok (fst (srun o ps)).
Proof. exact @titles_ok_run. Qed.

(* the function-name setter re-establishes it from ANY state *)
Theorem C19_set_titles_restored : forall (A : Type) (H : Num A) (o : @obj A) g,
  titles_ok (fst (sstep o (SFn (FnName g)))).
Proof. exact @titles_ok_restored. Qed.

Theorem C19_set_titles_last_fn : forall (A : Type) (H : Num A) (o : @obj A) ps ps1 g ps2,
  ps = ps1 ++ SFn (FnName g) :: ps2 -> forallb (fun q => negb (is_title_op q)) ps2 = true ->
  snd (srun o ps) = None -> titles_ok (fst (srun o ps)).
Proof. exact @titles_ok_last_fn. Qed.

(* not trivial: a title setter breaks it (7 is not the code of a derived title) *)
Theorem C19_set_titles_broken_by_title_op : forall (A : Type) (H : Num A) (o : @obj A),
  ~ titles_ok (fst (sstep o (STgr 7))).
Proof. exact @titles_ok_broken_by_title_op. Qed.

(* ---------------- d. frame: what one call does to each attribute ---------------- *)

Theorem C19_set_frame_rmin : forall (A : Type) (H : Num A) (o : @obj A) p,
  st_rmin (o_st (fst (sstep o p))) = match p with SRmin v => v | _ => st_rmin (o_st o) end.
Proof. exact @frame_rmin. Qed.

Theorem C19_set_frame_rmax : forall (A : Type) (H : Num A) (o : @obj A) p,
  st_rmax (o_st (fst (sstep o p))) = match p with SRmax v => v | _ => st_rmax (o_st o) end.
Proof. exact @frame_rmax. Qed.

Theorem C19_set_frame_rdelta : forall (A : Type) (H : Num A) (o : @obj A) p,
  st_rdelta (o_st (fst (sstep o p))) = match p with SRdelta v => v | _ => st_rdelta (o_st o) end.
Proof. exact @frame_rdelta. Qed.

Theorem C19_set_frame_rho : forall (A : Type) (H : Num A) (o : @obj A) p,
  st_rho (o_st (fst (sstep o p))) = match p with SRho v => v | _ => st_rho (o_st o) end.
Proof. exact @frame_rho. Qed.

Theorem C19_set_frame_bcoh : forall (A : Type) (H : Num A) (o : @obj A) p,
  st_bcoh (o_st (fst (sstep o p))) = match p with SBcoh v => v | _ => st_bcoh (o_st o) end.
Proof. exact @frame_bcoh. Qed.

Theorem C19_set_frame_btot : forall (A : Type) (H : Num A) (o : @obj A) p,
  st_btot (o_st (fst (sstep o p))) = match p with SBtot v => v | _ => st_btot (o_st o) end.
Proof. exact @frame_btot. Qed.

Theorem C19_set_frame_lowq : forall (A : Type) (H : Num A) (o : @obj A) p,
  st_lowq (o_st (fst (sstep o p))) = match p with SLowq (FlagBool b) => b | _ => st_lowq (o_st o) end.
Proof. exact @frame_lowq. Qed.

Theorem C19_set_frame_lorch : forall (A : Type) (H : Num A) (o : @obj A) p,
  st_lorch (o_st (fst (sstep o p))) = match p with SLorch (FlagBool b) => b | _ => st_lorch (o_st o) end.
Proof. exact @frame_lorch. Qed.

Theorem C19_set_frame_cutoff : forall (A : Type) (H : Num A) (o : @obj A) p,
  st_cutoff (o_st (fst (sstep o p))) = match p with SCutoff c => c | _ => st_cutoff (o_st o) end.
Proof. exact @frame_cutoff. Qed.

Theorem C19_set_frame_merge : forall (A : Type) (H : Num A) (o : @obj A) p,
  st_merge (o_st (fst (sstep o p))) = match p with SMerge m => m | _ => st_merge (o_st o) end.
Proof. exact @frame_merge. Qed.

Theorem C19_set_frame_qmin : forall (A : Type) (H : Num A) (o : @obj A) p,
  st_qmin (o_st (fst (sstep o p))) = match p with SQmin q => q | _ => st_qmin (o_st o) end.
Proof. exact @frame_qmin. Qed.

Theorem C19_set_frame_qmax : forall (A : Type) (H : Num A) (o : @obj A) p,
  st_qmax (o_st (fst (sstep o p))) = match p with SQmax q => q | _ => st_qmax (o_st o) end.
Proof. exact @frame_qmax. Qed.

Theorem C19_set_frame_fn : forall (A : Type) (H : Num A) (o : @obj A) p,
  st_fn (o_st (fst (sstep o p))) = match p with SFn (FnName g) => g | _ => st_fn (o_st o) end.
Proof. exact @frame_fn. Qed.

Theorem C19_set_frame_stem : forall (A : Type) (H : Num A) (o : @obj A) p,
  o_stem (fst (sstep o p)) = match p with SStem n => n | _ => o_stem o end.
Proof. exact @frame_stem. Qed.

Theorem C19_set_frame_xmin : forall (A : Type) (H : Num A) (o : @obj A) p,
  o_xmin (fst (sstep o p)) = match p with SXmin v => v | _ => o_xmin o end.
Proof. exact @frame_xmin. Qed.

Theorem C19_set_frame_xmax : forall (A : Type) (H : Num A) (o : @obj A) p,
  o_xmax (fst (sstep o p)) = match p with SXmax v => v | _ => o_xmax o end.
Proof. exact @frame_xmax. Qed.

Theorem C19_set_frame_tfix : forall (A : Type) (H : Num A) (o : @obj A) p,
  o_tfix (fst (sstep o p)) = match p with STfix slot t => set_nth (o_tfix o) slot t | _ => o_tfix o end.
Proof. exact @frame_tfix. Qed.

Theorem C19_set_frame_files : forall (A : Type) (H : Num A) (o : @obj A) p,
  o_files (fst (sstep o p)) =
    match p with
    | SFiles l => l
    | SAppend f => match o_files o with Some l => Some (l ++ [f]) | None => None end
    | SExtend l' => match o_files o with Some l => Some (l ++ l') | None => None end
    | _ => o_files o
    end.
Proof. exact @frame_files. Qed.

(* dr: written by its own setter, recomputed from the values stored AFTER the call by the grid setters *)
Theorem C19_set_frame_dr : forall (A : Type) (H : Num A) (o : @obj A) p,
  o_dr (fst (sstep o p)) =
    match p with
    | SDr l => l
    | SRmin _ | SRmax _ | SRdelta _ => rgrid (o_st (fst (sstep o p)))
    | _ => o_dr o
    end.
Proof. exact @frame_dr. Qed.

Theorem C19_set_frame_tgr : forall (A : Type) (H : Num A) (o : @obj A) p,
  o_tgr (fst (sstep o p)) = match p with STgr t => t | SFn (FnName g) => t_gr_of g | _ => o_tgr o end.
Proof. exact @frame_tgr. Qed.

Theorem C19_set_frame_tgrft : forall (A : Type) (H : Num A) (o : @obj A) p,
  o_tgrft (fst (sstep o p)) = match p with STgrft t => t | SFn (FnName g) => t_grft_of g | _ => o_tgrft o end.
Proof. exact @frame_tgrft. Qed.

Theorem C19_set_frame_tgrl : forall (A : Type) (H : Num A) (o : @obj A) p,
  o_tgrl (fst (sstep o p)) = match p with STgrl t => t | SFn (FnName g) => t_grl_of g | _ => o_tgrl o end.
Proof. exact @frame_tgrl. Qed.

(* ---------------- d'. last write wins, for scripts ---------------- *)

(* generic: any attribute whose one-step behaviour is "written by the calls `writes` selects, kept by all others" *)
Theorem C19_set_last_write_wins : forall (A : Type) (H : Num A) (T : Type) (get : @obj A -> T) (writes : @sop A -> option T),
  (forall o p, get (fst (sstep o p)) = match writes p with Some v => v | None => get o end) ->
  (forall o ps, Forall (fun q => writes q = None) ps -> get (fst (srun o ps)) = get o) /\
  (forall o ps ps1 p v ps2, ps = ps1 ++ p :: ps2 -> writes p = Some v ->
     Forall (fun q => writes q = None) ps2 -> snd (srun o ps) = None -> get (fst (srun o ps)) = v).
Proof. exact @last_write_wins. Qed.

(* per setting: (1) a script that never writes it leaves it as it was (even if the script raises);
   (2) if the script does not raise and its last write to it stores v, the final value is v *)
Theorem C19_set_lww_rmin : forall (A : Type) (H : Num A),
  (forall (o : @obj A) ps, Forall (fun q => writes_rmin q = None) ps -> st_rmin (o_st (fst (srun o ps))) = st_rmin (o_st o)) /\
  (forall (o : @obj A) ps ps1 p v ps2, ps = ps1 ++ p :: ps2 -> writes_rmin p = Some v ->
     Forall (fun q => writes_rmin q = None) ps2 -> snd (srun o ps) = None -> st_rmin (o_st (fst (srun o ps))) = v).
Proof. exact @lww_rmin. Qed.

Theorem C19_set_lww_rmax : forall (A : Type) (H : Num A),
  (forall (o : @obj A) ps, Forall (fun q => writes_rmax q = None) ps -> st_rmax (o_st (fst (srun o ps))) = st_rmax (o_st o)) /\
  (forall (o : @obj A) ps ps1 p v ps2, ps = ps1 ++ p :: ps2 -> writes_rmax p = Some v ->
     Forall (fun q => writes_rmax q = None) ps2 -> snd (srun o ps) = None -> st_rmax (o_st (fst (srun o ps))) = v).
Proof. exact @lww_rmax. Qed.

Theorem C19_set_lww_rdelta : forall (A : Type) (H : Num A),
  (forall (o : @obj A) ps, Forall (fun q => writes_rdelta q = None) ps -> st_rdelta (o_st (fst (srun o ps))) = st_rdelta (o_st o)) /\
  (forall (o : @obj A) ps ps1 p v ps2, ps = ps1 ++ p :: ps2 -> writes_rdelta p = Some v ->
     Forall (fun q => writes_rdelta q = None) ps2 -> snd (srun o ps) = None -> st_rdelta (o_st (fst (srun o ps))) = v).
Proof. exact @lww_rdelta. Qed.

Theorem C19_set_lww_rho : forall (A : Type) (H : Num A),
  (forall (o : @obj A) ps, Forall (fun q => writes_rho q = None) ps -> st_rho (o_st (fst (srun o ps))) = st_rho (o_st o)) /\
  (forall (o : @obj A) ps ps1 p v ps2, ps = ps1 ++ p :: ps2 -> writes_rho p = Some v ->
     Forall (fun q => writes_rho q = None) ps2 -> snd (srun o ps) = None -> st_rho (o_st (fst (srun o ps))) = v).
Proof. exact @lww_rho. Qed.

Theorem C19_set_lww_bcoh : forall (A : Type) (H : Num A),
  (forall (o : @obj A) ps, Forall (fun q => writes_bcoh q = None) ps -> st_bcoh (o_st (fst (srun o ps))) = st_bcoh (o_st o)) /\
  (forall (o : @obj A) ps ps1 p v ps2, ps = ps1 ++ p :: ps2 -> writes_bcoh p = Some v ->
     Forall (fun q => writes_bcoh q = None) ps2 -> snd (srun o ps) = None -> st_bcoh (o_st (fst (srun o ps))) = v).
Proof. exact @lww_bcoh. Qed.

Theorem C19_set_lww_btot : forall (A : Type) (H : Num A),
  (forall (o : @obj A) ps, Forall (fun q => writes_btot q = None) ps -> st_btot (o_st (fst (srun o ps))) = st_btot (o_st o)) /\
  (forall (o : @obj A) ps ps1 p v ps2, ps = ps1 ++ p :: ps2 -> writes_btot p = Some v ->
     Forall (fun q => writes_btot q = None) ps2 -> snd (srun o ps) = None -> st_btot (o_st (fst (srun o ps))) = v).
Proof. exact @lww_btot. Qed.

Theorem C19_set_lww_lowq : forall (A : Type) (H : Num A),
  (forall (o : @obj A) ps, Forall (fun q => writes_lowq q = None) ps -> st_lowq (o_st (fst (srun o ps))) = st_lowq (o_st o)) /\
  (forall (o : @obj A) ps ps1 p v ps2, ps = ps1 ++ p :: ps2 -> writes_lowq p = Some v ->
     Forall (fun q => writes_lowq q = None) ps2 -> snd (srun o ps) = None -> st_lowq (o_st (fst (srun o ps))) = v).
Proof. exact @lww_lowq. Qed.

Theorem C19_set_lww_lorch : forall (A : Type) (H : Num A),
  (forall (o : @obj A) ps, Forall (fun q => writes_lorch q = None) ps -> st_lorch (o_st (fst (srun o ps))) = st_lorch (o_st o)) /\
  (forall (o : @obj A) ps ps1 p v ps2, ps = ps1 ++ p :: ps2 -> writes_lorch p = Some v ->
     Forall (fun q => writes_lorch q = None) ps2 -> snd (srun o ps) = None -> st_lorch (o_st (fst (srun o ps))) = v).
Proof. exact @lww_lorch. Qed.

Theorem C19_set_lww_cutoff : forall (A : Type) (H : Num A),
  (forall (o : @obj A) ps, Forall (fun q => writes_cutoff q = None) ps -> st_cutoff (o_st (fst (srun o ps))) = st_cutoff (o_st o)) /\
  (forall (o : @obj A) ps ps1 p v ps2, ps = ps1 ++ p :: ps2 -> writes_cutoff p = Some v ->
     Forall (fun q => writes_cutoff q = None) ps2 -> snd (srun o ps) = None -> st_cutoff (o_st (fst (srun o ps))) = v).
Proof. exact @lww_cutoff. Qed.

Theorem C19_set_lww_merge : forall (A : Type) (H : Num A),
  (forall (o : @obj A) ps, Forall (fun q => writes_merge q = None) ps -> st_merge (o_st (fst (srun o ps))) = st_merge (o_st o)) /\
  (forall (o : @obj A) ps ps1 p v ps2, ps = ps1 ++ p :: ps2 -> writes_merge p = Some v ->
     Forall (fun q => writes_merge q = None) ps2 -> snd (srun o ps) = None -> st_merge (o_st (fst (srun o ps))) = v).
Proof. exact @lww_merge. Qed.

Theorem C19_set_lww_qmin : forall (A : Type) (H : Num A),
  (forall (o : @obj A) ps, Forall (fun q => writes_qmin q = None) ps -> st_qmin (o_st (fst (srun o ps))) = st_qmin (o_st o)) /\
  (forall (o : @obj A) ps ps1 p v ps2, ps = ps1 ++ p :: ps2 -> writes_qmin p = Some v ->
     Forall (fun q => writes_qmin q = None) ps2 -> snd (srun o ps) = None -> st_qmin (o_st (fst (srun o ps))) = v).
Proof. exact @lww_qmin. Qed.

Theorem C19_set_lww_qmax : forall (A : Type) (H : Num A),
  (forall (o : @obj A) ps, Forall (fun q => writes_qmax q = None) ps -> st_qmax (o_st (fst (srun o ps))) = st_qmax (o_st o)) /\
  (forall (o : @obj A) ps ps1 p v ps2, ps = ps1 ++ p :: ps2 -> writes_qmax p = Some v ->
     Forall (fun q => writes_qmax q = None) ps2 -> snd (srun o ps) = None -> st_qmax (o_st (fst (srun o ps))) = v).
Proof. exact @lww_qmax. Qed.

Theorem C19_set_lww_fn : forall (A : Type) (H : Num A),
  (forall (o : @obj A) ps, Forall (fun q => writes_fn q = None) ps -> st_fn (o_st (fst (srun o ps))) = st_fn (o_st o)) /\
  (forall (o : @obj A) ps ps1 p v ps2, ps = ps1 ++ p :: ps2 -> writes_fn p = Some v ->
     Forall (fun q => writes_fn q = None) ps2 -> snd (srun o ps) = None -> st_fn (o_st (fst (srun o ps))) = v).
Proof. exact @lww_fn. Qed.

Theorem C19_set_lww_stem : forall (A : Type) (H : Num A),
  (forall (o : @obj A) ps, Forall (fun q => writes_stem q = None) ps -> o_stem (fst (srun o ps)) = o_stem o) /\
  (forall (o : @obj A) ps ps1 p v ps2, ps = ps1 ++ p :: ps2 -> writes_stem p = Some v ->
     Forall (fun q => writes_stem q = None) ps2 -> snd (srun o ps) = None -> o_stem (fst (srun o ps)) = v).
Proof. exact @lww_stem. Qed.

Theorem C19_set_lww_xmin : forall (A : Type) (H : Num A),
  (forall (o : @obj A) ps, Forall (fun q => writes_xmin q = None) ps -> o_xmin (fst (srun o ps)) = o_xmin o) /\
  (forall (o : @obj A) ps ps1 p v ps2, ps = ps1 ++ p :: ps2 -> writes_xmin p = Some v ->
     Forall (fun q => writes_xmin q = None) ps2 -> snd (srun o ps) = None -> o_xmin (fst (srun o ps)) = v).
Proof. exact @lww_xmin. Qed.

Theorem C19_set_lww_xmax : forall (A : Type) (H : Num A),
  (forall (o : @obj A) ps, Forall (fun q => writes_xmax q = None) ps -> o_xmax (fst (srun o ps)) = o_xmax o) /\
  (forall (o : @obj A) ps ps1 p v ps2, ps = ps1 ++ p :: ps2 -> writes_xmax p = Some v ->
     Forall (fun q => writes_xmax q = None) ps2 -> snd (srun o ps) = None -> o_xmax (fst (srun o ps)) = v).
Proof. exact @lww_xmax. Qed.

(* ---------------- e. calls that write different attributes commute ---------------- *)
(* independent p q excludes: two calls with the same target (two writes to one attribute; the three file-list calls
   among themselves; two writes to the same fixed-title slot), the dr setter against a grid setter, the function-name
   setter against a derived-title setter.  Rmin / Rmax / Rdelta ARE independent of each other. *)

Theorem C19_set_independent_commute : forall (A : Type) (H : Num A) (o : @obj A) p q,
  independent p q = true -> fst (sstep (fst (sstep o p)) q) = fst (sstep (fst (sstep o q)) p).
Proof. exact @independent_commute. Qed.

(* ... and whether q raises does not depend on an independent call made before it *)
Theorem C19_set_independent_same_error : forall (A : Type) (H : Num A) (o : @obj A) p q,
  independent p q = true -> snd (sstep (fst (sstep o p)) q) = snd (sstep o q).
Proof. exact @independent_same_error. Qed.

(* dr is recomputed from the final values, so the grid setters commute *)
Theorem C19_set_grid_setters_commute : forall (A : Type) (H : Num A) (o : @obj A) a b d,
  fst (sstep (fst (sstep o (SRmin a))) (SRmax b)) = fst (sstep (fst (sstep o (SRmax b))) (SRmin a)) /\
  fst (sstep (fst (sstep o (SRmin a))) (SRdelta d)) = fst (sstep (fst (sstep o (SRdelta d))) (SRmin a)) /\
  fst (sstep (fst (sstep o (SRmax b))) (SRdelta d)) = fst (sstep (fst (sstep o (SRdelta d))) (SRmax b)).
Proof. exact @grid_setters_commute. Qed.

(* the excluded pairs really do not commute *)
Theorem C19_set_dr_vs_grid_op_do_not_commute : forall (A : Type) (H : Num A) (o : @obj A) v,
  ~ (fst (sstep (fst (sstep o (SDr []))) (SRmin v)) = fst (sstep (fst (sstep o (SRmin v))) (SDr [])) /\
     fst (sstep (fst (sstep o (SDr [zero]))) (SRmin v)) = fst (sstep (fst (sstep o (SRmin v))) (SDr [zero]))).
Proof. exact @dr_vs_grid_op_do_not_commute. Qed.

Theorem C19_set_fn_vs_title_op_do_not_commute : forall (A : Type) (H : Num A) (o : @obj A) g,
  fst (sstep (fst (sstep o (SFn (FnName g)))) (STgr 7)) <> fst (sstep (fst (sstep o (STgr 7))) (SFn (FnName g))).
Proof. exact @fn_vs_title_op_do_not_commute. Qed.

Theorem C19_set_same_field_do_not_commute : forall (A : Type) (H : Num A) (o : @obj A),
  fst (sstep (fst (sstep o (SStem 1))) (SStem 2)) <> fst (sstep (fst (sstep o (SStem 2))) (SStem 1)).
Proof. exact @same_field_do_not_commute. Qed.

Theorem C19_set_file_ops_do_not_commute : forall (A : Type) (H : Num A) (o : @obj A),
  fst (sstep (fst (sstep o (SFiles (Some [])))) (SAppend 1)) <> fst (sstep (fst (sstep o (SAppend 1))) (SFiles (Some []))).
Proof. exact @file_ops_do_not_commute. Qed.

(* ---------------- f. idempotence ---------------- *)

Theorem C19_set_idempotent : forall (A : Type) (H : Num A) (o : @obj A) p,
  snd (sstep o p) = None -> is_accumulating p = false -> sstep (fst (sstep o p)) p = sstep o p.
Proof. exact @setter_idempotent. Qed.

(* the success hypothesis is not needed (a call that raises changes nothing and raises again) *)
Theorem C19_set_idempotent_strong : forall (A : Type) (H : Num A) (o : @obj A) p,
  is_accumulating p = false -> sstep (fst (sstep o p)) p = sstep o p.
Proof. exact @setter_idempotent_strong. Qed.

(* the accumulating calls are not idempotent *)
Theorem C19_set_append_not_idempotent : forall (A : Type) (H : Num A) (o : @obj A) l f,
  o_files o = Some l ->
  snd (sstep o (SAppend f)) = None /\ sstep (fst (sstep o (SAppend f))) (SAppend f) <> sstep o (SAppend f).
Proof. exact @append_not_idempotent. Qed.

(* ---------------- g. the constructor is a setter script and agrees with kwargs2attr ---------------- *)

Theorem C19_set_construct_ok : forall (A : Type) (H : Num A) (j : @json A) s,
  kwargs2attr j = Ok s ->
  exists o, construct j = (o, None) /\ o_st o = s /\ o_dr o = rgrid s /\ titles_ok o.
Proof. exact @construct_ok. Qed.

(* the whole object, not only the settings: everything else is as in obj_init *)
Theorem C19_set_construct_obj_of : forall (A : Type) (H : Num A) (j : @json A) s,
  kwargs2attr j = Ok s -> construct j = (obj_of s, None).
Proof. exact @construct_ok_obj_of. Qed.

Theorem C19_set_construct_err : forall (A : Type) (H : Num A) (j : @json A) e,
  kwargs2attr j = Err e ->
  exists o e', construct j = (o, Some e') /\
    (e = ValueError <-> e' = SValueError) /\ (e = TypeError <-> e' = STypeError).
Proof. exact @construct_err. Qed.

Theorem C19_set_construct_ok_only_if : forall (A : Type) (H : Num A) (j : @json A) o,
  construct j = (o, None) -> exists s, kwargs2attr j = Ok s /\ o = obj_of s.
Proof. exact @construct_ok_only_if. Qed.

(* the constructor's script contains no dr setter and no title setter *)
Theorem C19_set_ctor_ops_no_dr_no_title : forall (A : Type) (H : Num A) (j : @json A) r,
  forallb (fun p => negb (is_dr_op p)) (ctor_ops_head j ++ ctor_ops_tail j r) = true /\
  forallb (fun p => negb (is_title_op p)) (ctor_ops_head j ++ ctor_ops_tail j r) = true.
Proof. exact @ctor_ops_no_dr_no_title. Qed.

Print Assumptions C19_set_error_keeps_state.
Print Assumptions C19_set_error_prefix.
Print Assumptions C19_set_grid_init.
Print Assumptions C19_set_grid_step.
Print Assumptions C19_set_grid_run.
Print Assumptions C19_set_grid_restored.
Print Assumptions C19_set_grid_last_grid_op.
Print Assumptions C19_set_grid_last_grid_op_strong.
Print Assumptions C19_set_grid_broken_by_dr.
Print Assumptions C19_set_titles_init.
Print Assumptions C19_set_titles_step.
Print Assumptions C19_set_titles_run.
Print Assumptions C19_set_titles_restored.
Print Assumptions C19_set_titles_last_fn.
Print Assumptions C19_set_titles_broken_by_title_op.
Print Assumptions C19_set_frame_rmin.
Print Assumptions C19_set_frame_rmax.
Print Assumptions C19_set_frame_rdelta.
Print Assumptions C19_set_frame_rho.
Print Assumptions C19_set_frame_bcoh.
Print Assumptions C19_set_frame_btot.
Print Assumptions C19_set_frame_lowq.
Print Assumptions C19_set_frame_lorch.
Print Assumptions C19_set_frame_cutoff.
Print Assumptions C19_set_frame_merge.
Print Assumptions C19_set_frame_qmin.
Print Assumptions C19_set_frame_qmax.
Print Assumptions C19_set_frame_fn.
Print Assumptions C19_set_frame_stem.
Print Assumptions C19_set_frame_xmin.
Print Assumptions C19_set_frame_xmax.
Print Assumptions C19_set_frame_tfix.
Print Assumptions C19_set_frame_files.
Print Assumptions C19_set_frame_dr.
Print Assumptions C19_set_frame_tgr.
Print Assumptions C19_set_frame_tgrft.
Print Assumptions C19_set_frame_tgrl.
Print Assumptions C19_set_last_write_wins.
Print Assumptions C19_set_lww_rmin.
Print Assumptions C19_set_lww_rmax.
Print Assumptions C19_set_lww_rdelta.
Print Assumptions C19_set_lww_rho.
Print Assumptions C19_set_lww_bcoh.
Print Assumptions C19_set_lww_btot.
Print Assumptions C19_set_lww_lowq.
Print Assumptions C19_set_lww_lorch.
Print Assumptions C19_set_lww_cutoff.
Print Assumptions C19_set_lww_merge.
Print Assumptions C19_set_lww_qmin.
Print Assumptions C19_set_lww_qmax.
Print Assumptions C19_set_lww_fn.
Print Assumptions C19_set_lww_stem.
Print Assumptions C19_set_lww_xmin.
Print Assumptions C19_set_lww_xmax.
Print Assumptions C19_set_independent_commute.
Print Assumptions C19_set_independent_same_error.
Print Assumptions C19_set_grid_setters_commute.
Print Assumptions C19_set_dr_vs_grid_op_do_not_commute.
Print Assumptions C19_set_fn_vs_title_op_do_not_commute.
Print Assumptions C19_set_same_field_do_not_commute.
Print Assumptions C19_set_file_ops_do_not_commute.
Print Assumptions C19_set_idempotent.
Print Assumptions C19_set_idempotent_strong.
Print Assumptions C19_set_append_not_idempotent.
Print Assumptions C19_set_construct_ok.
Print Assumptions C19_set_construct_obj_of.
Print Assumptions C19_set_construct_err.
Print Assumptions C19_set_construct_ok_only_if.
Print Assumptions C19_set_ctor_ops_no_dr_no_title.
