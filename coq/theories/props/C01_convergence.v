(* C01 (convergence) -- the "to discretisation accuracy" clause of C01 as theorems:
   the model's trapezoid sine quadrature converges to the integral at second order.
     | Int_a^b f - trapz |  <=  (b - a) h^2 max|f''| / 12      (uniform grid, step h)
   hence G_to_F / F_to_G with plain keywords, applied to samples of a C^2 function on
   the uniform grid j dr (j = 0..N), are within  M L dr^2 / 12  (L = N dr) of the
   integrals they are documented to be, M a bound on the second derivative of the
   integrand; and for the closed-form family member G(r) = r exp(-r^2) at Q = 2 the
   discrete transform on N panels of [0,8] is within 1e-9 + 1706.67/N^2 of the
   closed-form partner sqrt(pi) 2/4 exp(-1), for every N >= 1.
   Vocabulary (proofs/TrapzErrorP.v, proofs/RoundTripP.v):
     C2_on f a b  = at every x in [a,b]: f and Derive f are differentiable and the
                    second derivative Derive_n f 2 is continuous
     ugrid a h n  = [a + j h | j = 0..n]
     rgrid N dr   = [j dr | j = 0..N]
     vals t       = the values component of the triple (abscissa, values, uncertainties)
     plain k      = lorch k = false /\ omitted k = false *)
From PyStoG Require Import Num NumR ConverterM TransformerM.
From PyStoG.proofs Require Import RoundTripP TrapzErrorP.
(* Reals last: sin, sqrt, exp below are the functions on R *)
From Coq Require Import List Reals.
From Coquelicot Require Import Coquelicot.
Import ListNotations.
Open Scope R_scope.

(* one trapezoid panel: | Int_a^{a+h} f - h (f(a) + f(a+h))/2 | <= M h^3 / 12 *)
Theorem C01_trapz_panel_error : forall (f : R -> R) (a h M : R),
  0 <= h -> C2_on f a (a + h) ->
  (forall x, a <= x <= a + h -> Rabs (Derive_n f 2 x) <= M) ->
  Rabs (RInt f a (a + h) - h * (f a + f (a + h)) / 2) <= M * h ^ 3 / 12.
Proof. exact trapz_panel_error. Qed.

(* the model's trapz on n uniform panels: error <= M n h^3 / 12 = (b-a) h^2 M / 12 *)
Theorem C01_trapz_uniform_error : forall (f : R -> R) (a h M : R) (n : nat),
  0 < h -> C2_on f a (a + INR n * h) ->
  (forall x, a <= x <= a + INR n * h -> Rabs (Derive_n f 2 x) <= M) ->
  Rabs (RInt f a (a + INR n * h) - trapz (ugrid a h n) (map f (ugrid a h n)))
    <= M * INR n * h ^ 3 / 12.
Proof. exact trapz_uniform_error. Qed.

(* r -> Q:  | Int_0^L G(r) sin(rQ) dr - G_to_F(samples of G)(Q) | <= M L dr^2 / 12,  L = N dr *)
Theorem C01_G_to_F_converges : forall (G : R -> R) (N : nat) (dr Q M : R) dg (k : kw R),
  plain k -> 0 < dr ->
  C2_on (fun r => G r * sin (r * Q)) 0 (INR N * dr) ->
  (forall r, 0 <= r <= INR N * dr -> Rabs (Derive_n (fun r => G r * sin (r * Q)) 2 r) <= M) ->
  Rabs (RInt (fun r => G r * sin (r * Q)) 0 (INR N * dr)
        - nth 0 (vals (G_to_F (rgrid N dr) (map G (rgrid N dr)) [Q] dg k)) 0)
    <= M * (INR N * dr) * dr ^ 2 / 12.
Proof. exact G_to_F_converges. Qed.

(* Q -> r:  | (2/pi) Int_0^L F(q) sin(qr) dq - F_to_G(samples of F)(r) | <= (2/pi) M L dq^2 / 12,
   L = N dq; rgrid N dq is the uniform grid j dq, here on the Q axis *)
Theorem C01_F_to_G_converges : forall (F : R -> R) (N : nat) (dq r M : R) df (k : kw R),
  plain k -> 0 < dq ->
  C2_on (fun q => F q * sin (q * r)) 0 (INR N * dq) ->
  (forall q, 0 <= q <= INR N * dq -> Rabs (Derive_n (fun q => F q * sin (q * r)) 2 q) <= M) ->
  Rabs (2 / PI * RInt (fun q => F q * sin (q * r)) 0 (INR N * dq)
        - nth 0 (vals (F_to_G (rgrid N dq) (map F (rgrid N dq)) [r] df k)) 0)
    <= 2 / PI * (M * (INR N * dq) * dq ^ 2 / 12).
Proof. exact F_to_G_converges. Qed.

(* the hypotheses hold for the closed-form member G(r) = r exp(-r^2), Q = 2 on [0,8] with M = 40 *)
Theorem C01_member_hypotheses :
  C2_on (fun r => r * exp (- r * r) * sin (r * 2)) 0 8 /\
  (forall r, 0 <= r <= 8 -> Rabs (Derive_n (fun r => r * exp (- r * r) * sin (r * 2)) 2 r) <= 40).
Proof. exact member_hypotheses. Qed.

(* ... so its discrete transform on N panels of [0,8] is within 40 * 8 * (8/N)^2 / 12 of the integral *)
Theorem C01_member_discretisation_error : forall (N : nat) dg (k : kw R), plain k -> (1 <= N)%nat ->
  Rabs (RInt (fun r => r * exp (- r * r) * sin (r * 2)) 0 8
        - nth 0 (vals (G_to_F (rgrid N (8 / INR N)) (map (fun r => r * exp (- r * r)) (rgrid N (8 / INR N)))
                              [2] dg k)) 0)
    <= 40 * 8 * (8 / INR N) ^ 2 / 12.
Proof. exact member_discretisation_error. Qed.

(* ... and, with the anchor C01_anchor_r_to_Q, within 1e-9 + 1706.67/N^2 of the closed-form
   partner value sqrt(pi) * 2/4 * exp(-2^2/4), for every N >= 1 *)
Theorem C01_closed_form_member_converges : forall (N : nat) dg (k : kw R), plain k -> (1 <= N)%nat ->
  Rabs (nth 0 (vals (G_to_F (rgrid N (8 / INR N)) (map (fun r => r * exp (- r * r)) (rgrid N (8 / INR N)))
                            [2] dg k)) 0
        - sqrt PI * 2 / 4 * exp (-1))
    <= 1e-9 + 1706.67 / INR N ^ 2.
Proof. exact closed_form_member_converges. Qed.

Print Assumptions C01_trapz_panel_error.
Print Assumptions C01_trapz_uniform_error.
Print Assumptions C01_G_to_F_converges.
Print Assumptions C01_F_to_G_converges.
Print Assumptions C01_member_hypotheses.
Print Assumptions C01_member_discretisation_error.
Print Assumptions C01_closed_form_member_converges.
