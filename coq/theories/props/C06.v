(* C06 -- conversions propagate uncertainties to first order, independently
   of the function values. *)
From Coq Require Import List Reals.
From PyStoG Require Import Num NumR ConverterM.
From PyStoG.proofs Require Import ConverterP.
Open Scope R_scope.

(* rderiv / gderiv are the derivatives of the defining formulas (which are
   affine in the function value) *)
Theorem C06_derivative_meaning_recip : forall (k : kw R) X Y q v h, 0 < q -> bcoh k <> 0 ->
  rspec k X Y q (v + h) - rspec k X Y q v = rderiv k X Y q * h.
Proof. exact rspec_affine. Qed.
Theorem C06_derivative_meaning_real : forall (k : kw R) X Y r v h, 0 < r -> 0 < rho k -> bcoh k <> 0 ->
  gspec k X Y r (v + h) - gspec k X Y r v = gderiv k X Y r * h.
Proof. exact gspec_affine. Qed.

(* returned uncertainty = |derivative| * input uncertainty, all 12 + 6 conversions *)
Theorem C06_first_order_recip : forall (k : kw R) X Y q v e,
  allpos q -> 0 < bcoh k -> length v = length q -> length e = length q ->
  snd (rconv X Y q v (Some e) k) = map2 (fun q e => Rabs (rderiv k X Y q) * e) q e.
Proof. exact rconv_unc_first_order. Qed.
Theorem C06_first_order_real : forall (k : kw R) X Y r v e,
  allpos r -> 0 < rho k -> 0 < bcoh k -> length v = length r -> length e = length r ->
  snd (gconv X Y r v (Some e) k) = map2 (fun r e => Rabs (gderiv k X Y r) * e) r e.
Proof. exact gconv_unc_first_order. Qed.

(* independent of the function values (every abscissa, every option) *)
Theorem C06_value_independent_recip : forall (k : kw R) X Y q v v' d,
  length v = length q -> length v' = length q -> dok d (length q) ->
  snd (rconv X Y q v d k) = snd (rconv X Y q v' d k).
Proof. exact rconv_unc_value_independent. Qed.
Theorem C06_value_independent_real : forall (k : kw R) X Y r v v' d,
  length v = length r -> length v' = length r -> dok d (length r) ->
  snd (gconv X Y r v d k) = snd (gconv X Y r v' d k).
Proof. exact gconv_unc_value_independent. Qed.

(* zero (an array of zeros, not None) when no uncertainty is supplied *)
Theorem C06_none_gives_zeros_recip : forall (k : kw R) X Y q v, length v = length q ->
  snd (rconv X Y q v None k) = map (fun _ => 0) q.
Proof. exact rconv_unc_none_zero. Qed.
Theorem C06_none_gives_zeros_real : forall (k : kw R) X Y r v, length v = length r ->
  snd (gconv X Y r v None k) = map (fun _ => 0) r.
Proof. exact gconv_unc_none_zero. Qed.

Theorem C06_nonneg_recip : forall (k : kw R) X Y q v e,
  allpos q -> 0 < bcoh k -> length v = length q -> length e = length q ->
  Forall (fun x => 0 <= x) e -> Forall (fun x => 0 <= x) (snd (rconv X Y q v (Some e) k)).
Proof. exact rconv_unc_nonneg. Qed.
Theorem C06_nonneg_real : forall (k : kw R) X Y r v e,
  allpos r -> 0 < rho k -> 0 < bcoh k -> length v = length r -> length e = length r ->
  Forall (fun x => 0 <= x) e -> Forall (fun x => 0 <= x) (snd (gconv X Y r v (Some e) k)).
Proof. exact gconv_unc_nonneg. Qed.

Theorem C06_roundtrip_recip : forall (k : kw R) X Y q v v' e,
  allpos q -> 0 < bcoh k -> length v = length q -> length v' = length q -> length e = length q ->
  snd (rconv Y X q v' (Some (snd (rconv X Y q v (Some e) k))) k) = e.
Proof. exact rconv_unc_roundtrip. Qed.
Theorem C06_roundtrip_real : forall (k : kw R) X Y r v v' e,
  allpos r -> 0 < rho k -> 0 < bcoh k -> length v = length r -> length v' = length r -> length e = length r ->
  snd (gconv Y X r v' (Some (snd (gconv X Y r v (Some e) k))) k) = e.
Proof. exact gconv_unc_roundtrip. Qed.

Print Assumptions C06_derivative_meaning_recip.
Print Assumptions C06_derivative_meaning_real.
Print Assumptions C06_first_order_recip.
Print Assumptions C06_first_order_real.
Print Assumptions C06_value_independent_recip.
Print Assumptions C06_value_independent_real.
Print Assumptions C06_none_gives_zeros_recip.
Print Assumptions C06_none_gives_zeros_real.
Print Assumptions C06_nonneg_recip.
Print Assumptions C06_nonneg_real.
Print Assumptions C06_roundtrip_recip.
Print Assumptions C06_roundtrip_real.
