(* C19 -- configuration (StoG.__kwargs2attr, utils.create_domain, io.parse_cli_args, cli.pystog_cli).
   Vocabulary (ConfigM.v): json = the documented optional keys (None = key absent); kwargs2attr j = Ok settings or
   Err ValueError/TypeError; fill_defaults j = j with every absent key written out with its default;
   rgrid s = create_domain(rmin, rmax, rdelta) = np.arange(rmin, rmax + rdelta, rdelta);
   parse_cli_args a = the kwargs built from the argparse namespace; cli_plan j = the steps pystog_cli performs.
   (proofs/ConfigP.v): library_plan s = the same steps with read_all_data's default skiprows (2) instead of the
   entry point's skiprows=3;  rows_read skip lines = skipn skip lines;  empty_json = no optional key given.
   All statements except C19_rgrid_spec hold for every carrier (A, Num A), in particular for R and for floats. *)
From Coq Require Import List Reals ZArith.
From PyStoG Require Import Num NumR ConverterM StogM ConfigM.
From PyStoG.proofs Require Import ConfigP.
Import ListNotations.
Open Scope R_scope.

(* an omitted optional key behaves exactly like supplying its default (all presence patterns at once) *)
Theorem C19_omitted_is_default : forall (A : Type) (H : Num A) (j : @json A),
  kwargs2attr (fill_defaults j) = kwargs2attr j.
Proof. exact @omitted_is_default. Qed.

(* ... also for the steps taken by the command line entry point *)
Theorem C19_omitted_is_default_cli : forall (A : Type) (H : Num A) (j : @json A),
  cli_plan (fill_defaults j) = cli_plan j.
Proof. exact @omitted_is_default_cli. Qed.

(* fill_defaults j really is the fully explicit configuration (the step is given by Rdelta or by Rpoints) *)
Theorem C19_fill_defaults_total : forall (A : Type) (H : Num A) (j : @json A),
  j_fn (fill_defaults j) <> None /\ j_rmin (fill_defaults j) <> None /\ j_rmax (fill_defaults j) <> None /\
  j_rho (fill_defaults j) <> None /\ j_lowq (fill_defaults j) <> None /\ j_lorch (fill_defaults j) <> None /\
  (exists c, j_ff (fill_defaults j) = Some (Some c)) /\
  j_bcoh (fill_defaults j) <> None /\ j_btot (fill_defaults j) <> None /\ j_merge (fill_defaults j) <> None /\
  (j_rdelta (fill_defaults j) <> None \/ j_rpoints (fill_defaults j) <> None).
Proof. exact @fill_defaults_total. Qed.

(* every given key is the corresponding setting; Rdelta wins over Rpoints; Rpoints divides the final Rmax *)
Theorem C19_given_keys_land : forall (A : Type) (H : Num A) (j : @json A) s, kwargs2attr j = Ok s ->
  (forall v, j_rmin j = Some v -> st_rmin s = v) /\
  (forall v, j_rmax j = Some v -> st_rmax s = v) /\
  (forall v, j_rho j = Some v -> st_rho s = v) /\
  (forall v, j_bcoh j = Some v -> st_bcoh s = v) /\
  (forall v, j_btot j = Some v -> st_btot s = v) /\
  (forall d, j_rdelta j = Some d -> st_rdelta s = d) /\
  (forall n, j_rdelta j = None -> j_rpoints j = Some n -> st_rdelta s = div (st_rmax s) n) /\
  (forall g, j_fn j = Some (FnName g) -> st_fn s = g) /\
  (forall b, j_lowq j = Some (FlagBool b) -> st_lowq s = b) /\
  (forall b, j_lorch j = Some (FlagBool b) -> st_lorch s = b) /\
  (forall c, j_ff j = Some (Some c) -> st_cutoff s = c) /\
  (forall m, j_merge j = Some m -> st_merge s = m /\ st_qmin s = j_qmin j /\ st_qmax s = j_qmax j).
Proof. exact @given_keys_land. Qed.

(* every absent key has its documented default *)
Theorem C19_absent_keys_default : forall (A : Type) (H : Num A) (j : @json A) s, kwargs2attr j = Ok s ->
  (j_rmin j = None -> st_rmin s = zero) /\
  (j_rmax j = None -> st_rmax s = of_Z 50) /\
  (j_rho j = None -> st_rho s = one) /\
  (j_bcoh j = None -> st_bcoh s = one) /\
  (j_btot j = None -> st_btot s = one) /\
  (j_rdelta j = None -> j_rpoints j = None -> st_rdelta s = div (of_Z 1) (of_Z 100)) /\
  (j_fn j = None -> st_fn s = gg) /\
  (j_lowq j = None -> st_lowq s = false) /\
  (j_lorch j = None -> st_lorch s = false) /\
  (j_ff j = None \/ j_ff j = Some None -> st_cutoff s = None) /\
  (j_merge j = None -> st_merge s = default_merge /\ st_qmin s = None /\ st_qmax s = None).
Proof. exact @absent_keys_default. Qed.

(* an unknown function name is a ValueError, a non-boolean flag a TypeError, an unknown dataset kind a ValueError *)
Theorem C19_invalid_choice_rejected : forall (A : Type) (H : Num A) (j : @json A),
  (j_fn j = Some FnBad -> kwargs2attr j = Err ValueError) /\
  (j_fn j <> Some FnBad -> j_lowq j = Some FlagOther -> kwargs2attr j = Err TypeError) /\
  (j_fn j <> Some FnBad -> j_lowq j <> Some FlagOther -> j_lorch j = Some FlagOther ->
     kwargs2attr j = Err TypeError) /\
  kind_of (Some KindBad) = Err ValueError.
Proof. exact @invalid_choice_rejected. Qed.

(* ... and nothing else is rejected *)
Theorem C19_valid_accepted : forall (A : Type) (H : Num A) (j : @json A),
  j_fn j <> Some FnBad -> j_lowq j <> Some FlagOther -> j_lorch j <> Some FlagOther ->
  exists s, kwargs2attr j = Ok s.
Proof. exact @valid_accepted. Qed.

(* the r grid starts at Rmin, has constant step Rdelta and its last point is the first one >= Rmax *)
Theorem C19_rgrid_spec : forall s : @settings R, 0 < st_rdelta s -> st_rmin s <= st_rmax s ->
  let g := rgrid s in let n := length g in
  (1 <= n)%nat /\
  nth 0 g 0 = st_rmin s /\
  (forall i, (i < n)%nat -> nth i g 0 = st_rmin s + INR i * st_rdelta s) /\
  st_rmax s <= nth (n - 1) g 0 < st_rmax s + st_rdelta s.
Proof. exact rgrid_spec. Qed.

(* in terms of the given keys: start Rmin, step Rdelta (or Rmax/Rpoints), covering Rmax *)
Theorem C19_rgrid_from_keys : forall (j : @json R) s rmin rmax, kwargs2attr j = Ok s ->
  j_rmin j = Some rmin -> j_rmax j = Some rmax -> rmin <= rmax ->
  (forall d, j_rdelta j = Some d -> 0 < d ->
     nth 0 (rgrid s) 0 = rmin /\
     (forall i, (i < length (rgrid s))%nat -> nth i (rgrid s) 0 = rmin + INR i * d) /\
     rmax <= nth (length (rgrid s) - 1) (rgrid s) 0 < rmax + d) /\
  (forall n, j_rdelta j = None -> j_rpoints j = Some n -> 0 < rmax / n ->
     nth 0 (rgrid s) 0 = rmin /\
     (forall i, (i < length (rgrid s))%nat -> nth i (rgrid s) 0 = rmin + INR i * (rmax / n)) /\
     rmax <= nth (length (rgrid s) - 1) (rgrid s) 0 < rmax + rmax / n).
Proof. exact rgrid_from_keys. Qed.

(* every command line option lands in the corresponding setting *)
Theorem C19_cli_args_land : forall (A : Type) (H : Num A) (a : @args A) g s,
  a_fn a = FnName g -> kwargs2attr (parse_cli_args a) = Ok s ->
  st_rho s = a_density a /\ st_rmax s = a_rmax a /\ st_rmin s = zero /\
  st_rdelta s = (match a_rdelta a with Some d => d | None => div (a_rmax a) (a_rpoints a) end) /\
  st_fn s = g /\ st_lorch s = a_lorch a /\ st_lowq s = a_lowq a /\ st_cutoff s = a_cutoff a /\
  st_bcoh s = a_bcoh a /\ st_btot s = a_btot a /\
  merged_yscale (st_merge s) = a_merge_scale a /\ merged_yoffset (st_merge s) = a_merge_offset a /\
  st_qmin s = None /\ st_qmax s = None.
Proof. exact @cli_args_land. Qed.

(* the steps of the entry point: filter iff a cutoff is given, Lorch iff the flag is set; errors propagate *)
Theorem C19_cli_plan_spec : forall (A : Type) (H : Num A) (j : @json A),
  (forall s, kwargs2attr j = Ok s ->
     cli_plan j = Ok ([AReadAll cli_skiprows; AMerge; AWriteSQ; ATransform; AWriteGR]
                        ++ (match st_cutoff s with Some _ => [AFilter] | None => [] end)
                        ++ (if st_lorch s then [ALorch] else [])
                        ++ [AKeenFQ; AKeenGR])) /\
  (forall e, kwargs2attr j = Err e -> cli_plan j = Err e).
Proof. exact @cli_plan_spec. Qed.

Theorem C19_cli_filter_iff_cutoff : forall (A : Type) (H : Num A) (j : @json A) p s,
  cli_plan j = Ok p -> kwargs2attr j = Ok s -> (In AFilter p <-> st_cutoff s <> None).
Proof. exact @cli_filter_iff_cutoff. Qed.

Theorem C19_cli_lorch_iff_flag : forall (A : Type) (H : Num A) (j : @json A) p s,
  cli_plan j = Ok p -> kwargs2attr j = Ok s -> (In ALorch p <-> st_lorch s = true).
Proof. exact @cli_lorch_iff_flag. Qed.

(* PARTIAL agreement with the library defaults: every step after the read step coincides *)
Theorem C19_cli_equals_library_partial : forall (A : Type) (H : Num A) (j : @json A) p s,
  cli_plan j = Ok p -> kwargs2attr j = Ok s -> tl p = tl (library_plan s).
Proof. exact @cli_equals_library_partial. Qed.

(* REFUTED: the full equality is false -- the entry point reads with skiprows=3, the library default is 2 *)
Theorem C19_cli_reads_differently_refuted : forall (A : Type) (H : Num A),
  exists (j : @json A) p s, cli_plan j = Ok p /\ kwargs2attr j = Ok s /\ p <> library_plan s.
Proof. exact @cli_reads_differently_refuted. Qed.

(* ... for every accepted configuration, not just one *)
Theorem C19_cli_reads_differently_always : forall (A : Type) (H : Num A) (j : @json A) p s,
  cli_plan j = Ok p -> kwargs2attr j = Ok s ->
  hd AMerge p = AReadAll 3 /\ hd AMerge (library_plan s) = AReadAll 2 /\ p <> library_plan s.
Proof. exact @cli_reads_differently_always. Qed.

(* consequence for a file with two header lines: the entry point loses the first data row *)
Theorem C19_cli_drops_first_data_row : forall (X : Type) (h1 h2 row : X) (rest : list X),
  rows_read cli_skiprows (h1 :: h2 :: row :: rest) = rest /\
  rows_read lib_skiprows (h1 :: h2 :: row :: rest) = row :: rest.
Proof. exact cli_drops_first_data_row. Qed.

Print Assumptions C19_omitted_is_default.
Print Assumptions C19_omitted_is_default_cli.
Print Assumptions C19_fill_defaults_total.
Print Assumptions C19_given_keys_land.
Print Assumptions C19_absent_keys_default.
Print Assumptions C19_invalid_choice_rejected.
Print Assumptions C19_valid_accepted.
Print Assumptions C19_rgrid_spec.
Print Assumptions C19_rgrid_from_keys.
Print Assumptions C19_cli_args_land.
Print Assumptions C19_cli_plan_spec.
Print Assumptions C19_cli_filter_iff_cutoff.
Print Assumptions C19_cli_lorch_iff_flag.
Print Assumptions C19_cli_equals_library_partial.
Print Assumptions C19_cli_reads_differently_refuted.
Print Assumptions C19_cli_reads_differently_always.
Print Assumptions C19_cli_drops_first_data_row.
