(* C11 (rejected entries) -- "both storage arrays stay aligned ... for any number and order of
   previously added datasets", also when the caller offered entries with an unknown function name
   in between and caught the error (EntryM.add_entry: such an entry updates the overall-range
   bookkeeping xmin / xmax and nothing else).
     add_entry c s (d, true)  = add_dataset c s d        add_entry c s (d, false) = reject_entry s d
     accepted es              = the entries of the history that were accepted, in order *)
From Coq Require Import List Reals.
From PyStoG Require Import Num NumR ConverterM StogM EntryM.
From PyStoG.proofs Require Import VecLib IngestP EntryP.
Import ListNotations.
Open Scope R_scope.

(* every carrier: a rejected entry leaves both arrays and every master slot as they were *)
Theorem C11e_reject_keeps_arrays : forall (A : Type) (H : Num A) (s : @state A) (d : @dinfo A),
  s_recip (reject_entry s d) = s_recip s /\ s_sq (reject_entry s d) = s_sq s.
Proof. exact (@reject_keeps_arrays). Qed.

(* every carrier: the arrays after any history with rejected entries are those of the accepted entries alone *)
Theorem C11e_rejected_entries_leave_no_rows : forall (A : Type) (H : Num A) (c : @config A) (es : list (@dinfo A * bool)) (s : @state A),
  s_recip (fold_left (add_entry c) es s) = s_recip (fold_left (add_dataset c) (accepted es) s) /\
  s_sq (fold_left (add_entry c) es s) = s_sq (fold_left (add_dataset c) (accepted es) s).
Proof. exact (@rejected_entries_leave_no_rows_same). Qed.

Theorem C11e_rejected_entries_keep_masters : forall (A : Type) (H : Num A) (c : @config A) (es : list (@dinfo A * bool)) (s : @state A),
  t_sq (fold_left (add_entry c) es s) = t_sq s /\ t_gr (fold_left (add_entry c) es s) = t_gr s.
Proof. exact (@rejected_entries_keep_masters). Qed.

(* over R: both arrays stay aligned, row for row, through any such history *)
Theorem C11e_aligned_with_rejected_entries : forall (c : @config R) (es : list (@dinfo R * bool)),
  Forall d_ok (accepted es) ->
  let st := fold_left (add_entry c) es init_state in
  aligned (s_recip st) /\ aligned (s_sq st) /\ qcol (s_recip st) = qcol (s_sq st).
Proof. exact aligned_with_rejected_entries. Qed.

Print Assumptions C11e_reject_keeps_arrays.
Print Assumptions C11e_rejected_entries_leave_no_rows.
Print Assumptions C11e_rejected_entries_keep_masters.
Print Assumptions C11e_aligned_with_rejected_entries.
