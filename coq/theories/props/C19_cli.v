(* C19_cli.v -- the data flow of the command-line entry point after the merge
   (which curves are handed to the Lorch and Keen steps) is a run of the
   workflow state machine of C12.  Statement-only file. *)
From Coq Require Import List Reals Bool.
From PyStoG Require Import Num NumR ConverterM TransformerM FilterM StogM CliM.
From PyStoG.proofs Require Import CliP.
Import ListNotations.

(* the entry point is the operation sequence cli_ops: every theorem of C12 about `run` applies to it *)
Theorem C19_cli_is_a_workflow_run : forall (c : @config R) (filter_on lorch_on : bool) (s0 : @state R),
  fst (cli_after_merge c filter_on lorch_on s0) = run c s0 (cli_ops c filter_on lorch_on s0).
Proof. exact cli_is_a_run. Qed.

(* the Keen F(Q) / G(r) written at the end are the conversions of the final (q, S) and (r, g) *)
Theorem C19_cli_keen_outputs : forall (c : @config R) (filter_on lorch_on : bool) (s0 : @state R),
  let '(s, fl) := cli_after_merge c filter_on lorch_on s0 in
  t_fq s = Some (f_q fl, fst (S_to_FK (f_q fl) (f_sq fl) None (conv_kw c))) /\
  t_gk s = Some (f_r fl, fst (gconv (c_fn c) gGK (f_r fl) (f_gr fl) None (conv_kw c))).
Proof. exact cli_keen_outputs. Qed.

(* "final": (q, S) from the filter if it ran, else the merged S(Q); (r, g) from the Lorch step if it ran,
   else from the filter, else the merged transform *)
Theorem C19_cli_final_flow : forall (c : @config R) (filter_on lorch_on : bool) (s0 : @state R),
  let s1 := fst (transform_merged c s0) in
  let fl1 := flow_of_merged s1 in
  let '(s2, fl2) := cli_filter c filter_on s1 fl1 in
  let fl := snd (cli_after_merge c filter_on lorch_on s0) in
  f_q fl = f_q fl2 /\ f_sq fl = f_sq fl2 /\
  (lorch_on = false -> f_r fl = f_r fl2 /\ f_gr fl = f_gr fl2) /\
  (filter_on = false -> fl2 = fl1).
Proof. exact cli_final_flow. Qed.

Print Assumptions C19_cli_is_a_workflow_run.
Print Assumptions C19_cli_keen_outputs.
Print Assumptions C19_cli_final_flow.
