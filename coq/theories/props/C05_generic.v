(* C05 (carrier-independent part) -- the decomposition of the 24 named transforms holds for EVERY
   number carrier A with ANY interpretation H of the operations (class Num), no law assumed: in
   particular for the executed IEEE binary64 instance.  (The "all transforms agree" half of C05 uses
   field laws and positivity and stays a statement about the reals.)

   two_over_pi = two / pi = of_Z 2 / pi  is the model's constant (TransformerM.v), computed once in the
   carrier's own arithmetic;  vscale_r c v = map (fun t => t * c) v  multiplies from the right, as
   the code does. *)
From Coq Require Import List PrimFloat.
From PyStoG Require Import Num NumF ConverterM TransformerM.
From PyStoG.proofs Require Import GenericNamedP GenericFloatP.
Import ListNotations.

(* each of the 12 Q -> r methods: X -> F(Q), fourier_transform, * 2/pi, G(r) -> Y;
   values and uncertainties, the same keyword record k everywhere; no side condition *)
Theorem C05g_q2r_decomposition :
  forall (A : Type) (H : Num A) X Y (q v r : list A) (dy : option (list A)) (k : kw A),
  q2r X Y q v r dy k =
    let '(f, df) := rconv X rF q v dy k in
    let '(r', T, E) := fourier_transform q f r None None (Some df) k in
    let '(g, dg) := gconv gG Y r' (vscale_r two_over_pi T) (Some (vscale_r two_over_pi E)) k in
    (r', g, dg).
Proof. exact @q2r_decomposition_gen. Qed.

(* each of the 12 r -> Q methods: X -> G(r), fourier_transform, F(Q) -> Y *)
Theorem C05g_r2q_decomposition :
  forall (A : Type) (H : Num A) X Y (r v q : list A) (dy : option (list A)) (k : kw A),
  r2q X Y r v q dy k =
    let '(G, dG) := gconv X gG r v dy k in
    let '(q', T, E) := fourier_transform r G q None None (Some dG) k in
    let '(f, df) := rconv rF Y q' T (Some E) k in (q', f, df).
Proof. exact @r2q_decomposition_gen. Qed.

(* at the executed carrier: the factor is the binary64 quotient 2 / pi, multiplied from the right *)
Theorem C05g_q2r_decomposition_binary64 :
  forall X Y (q v r : list float) (dy : option (list float)) (k : kw float),
  q2r X Y q v r dy k =
    let '(f, df) := rconv X rF q v dy k in
    let '(r', T, E) := fourier_transform q f r None None (Some df) k in
    let '(g, dg) := gconv gG Y r' (map (fun t => PrimFloat.mul t two_over_pi) T)
                                  (Some (map (fun t => PrimFloat.mul t two_over_pi) E)) k in
    (r', g, dg).
Proof. exact q2r_decomposition_float. Qed.

Theorem C05g_two_over_pi_binary64 : @two_over_pi float NumF = PrimFloat.div 2%float piF.
Proof. exact two_over_pi_float. Qed.

Print Assumptions C05g_q2r_decomposition.
Print Assumptions C05g_r2q_decomposition.
Print Assumptions C05g_q2r_decomposition_binary64.
Print Assumptions C05g_two_over_pi_binary64.
