(* C20 -- Pre_Proc.rebin(x, y, xmin, xdiv, xmax) returns the uniform grid xmin + k*xdiv (k = 0 .. int((xmax-xmin)/xdiv)),
   not beyond xmax, and each output value is the weighted average, with hat-function weights of one bin width,
   of the input points lying in [xmin, xmax]; hence constants are preserved, the result is linear in y, lies between the
   extreme contributing y, data on the grid come back unchanged, and the order of the input points is irrelevant.
   Input abscissae: any order, irregular.  "Every returned bin receives data" = the weight sum of the bin is > 0.

   Definitions used in the statements (theories/proofs/RebinP.v):
     gridpt xmin xdiv k   := xmin + INR k * xdiv                              (k-th output abscissa)
     hat xk xdiv x        := Rmax 0 (1 - Rabs (x - xk) / xdiv)                (tent of half-width xdiv centred on xk)
     inrangeb xmin xmax x := Rleb xmin x && Rleb x xmax                       (the code's test xmin <= x <= xmax)
     ysum xmin xdiv xmax k l := fold_right Rplus 0 (map (fun p => if inrangeb xmin xmax (fst p)
                                   then hat (gridpt xmin xdiv k) xdiv (fst p) * snd p else 0) l)
     nsum xmin xdiv xmax k l := fold_right Rplus 0 (map (fun p => if inrangeb xmin xmax (fst p)
                                   then hat (gridpt xmin xdiv k) xdiv (fst p) else 0) l)
     all_bins_fed x y xmin xdiv xmax := forall k, k < numpts xmin xdiv xmax -> 0 < nsum xmin xdiv xmax k (combine x y)
   and, from the model, numpts xmin xdiv xmax = Z.to_nat (Rtrunc ((xmax - xmin) / xdiv) + 1). *)
From PyStoG Require Import Num NumR RebinM.
From PyStoG.proofs Require Import RebinP.
From Coq Require Import List Reals ZArith Bool Permutation.
Import ListNotations.
Open Scope R_scope.

(* the returned abscissae: uniform grid from xmin with step xdiv, n >= 1 points, none beyond xmax, the next one would be *)
Theorem C20_grid : forall (x y : list R) (xmin xdiv xmax : R),
  0 < xdiv -> xmin <= xmax ->
  let n := Z.to_nat (Rtrunc ((xmax - xmin) / xdiv) + 1) in
  fst (rebin x y xmin xdiv xmax) = map (fun k => xmin + INR k * xdiv) (seq 0 n) /\
  length (fst (rebin x y xmin xdiv xmax)) = n /\
  (1 <= n)%nat /\
  (forall k, (k < n)%nat -> nth k (fst (rebin x y xmin xdiv xmax)) 0 = xmin + INR k * xdiv) /\
  (forall k, (k < n)%nat -> xmin <= xmin + INR k * xdiv <= xmax) /\
  xmax < xmin + INR n * xdiv.
Proof. exact rebin_grid_spec. Qed.

(* scalar lemma: the code's two-neighbour weights (scale1 to bin b = int((x-xmin)/xdiv), scale2 = 1 - scale1 to bin b+1,
   nothing elsewhere) are the hat weights of the grid points at x *)
Theorem C20_hat_weights : forall (xmin xdiv x : R), 0 < xdiv -> xmin <= x ->
  let b := Z.to_nat (Rtrunc ((x - xmin) / xdiv)) in
  let s1 := 1 - (x - (xmin + INR b * xdiv)) / xdiv in
  let s2 := 1 - s1 in
  hat (xmin + INR b * xdiv) xdiv x = s1 /\
  hat (xmin + INR (S b) * xdiv) xdiv x = s2 /\
  (forall j, j <> b -> j <> S b -> hat (xmin + INR j * xdiv) xdiv x = 0) /\
  0 < s1 <= 1 /\ 0 <= s2 < 1.
Proof. exact hat_weights. Qed.

(* the same, with the bin given by its defining inequality xout_b <= x < xout_b + xdiv *)
Theorem C20_hat_weights_bin : forall (xmin xdiv x : R) (b : nat), 0 < xdiv ->
  gridpt xmin xdiv b <= x < gridpt xmin xdiv b + xdiv ->
  let s1 := 1 - (x - gridpt xmin xdiv b) / xdiv in
  hat (gridpt xmin xdiv b) xdiv x = s1 /\
  hat (gridpt xmin xdiv (S b)) xdiv x = 1 - s1 /\
  (forall j, j <> b -> j <> S b -> hat (gridpt xmin xdiv j) xdiv x = 0) /\
  0 < s1 <= 1.
Proof. exact hat_weights_bin. Qed.

(* the hat weight is positive exactly within one bin width of the grid point *)
Theorem C20_hat_support : forall xk xdiv x : R, 0 < xdiv -> (0 < hat xk xdiv x <-> Rabs (x - xk) < xdiv).
Proof. exact hat_pos_iff. Qed.

(* every output value is  sum_i [x_i in range] hat(xout_k, x_i) y_i  /  sum_i [x_i in range] hat(xout_k, x_i) *)
Theorem C20_is_hat_average : forall (x y : list R) (xmin xdiv xmax : R), 0 < xdiv ->
  snd (rebin x y xmin xdiv xmax) =
  map (fun k =>
         fold_right Rplus 0
           (map (fun p => if inrangeb xmin xmax (fst p)
                          then hat (xmin + INR k * xdiv) xdiv (fst p) * snd p else 0) (combine x y))
         /
         fold_right Rplus 0
           (map (fun p => if inrangeb xmin xmax (fst p)
                          then hat (xmin + INR k * xdiv) xdiv (fst p) else 0) (combine x y)))
      (seq 0 (Z.to_nat (Rtrunc ((xmax - xmin) / xdiv) + 1))).
Proof. exact rebin_is_hat_average. Qed.

(* pointwise form, with the named sums *)
Theorem C20_is_hat_average_nth : forall (x y : list R) (xmin xdiv xmax : R) (k : nat), 0 < xdiv ->
  (k < numpts xmin xdiv xmax)%nat ->
  nth k (snd (rebin x y xmin xdiv xmax)) 0 =
  ysum xmin xdiv xmax k (combine x y) / nsum xmin xdiv xmax k (combine x y).
Proof. exact rebin_is_hat_average_nth. Qed.

(* the code's range test is xmin <= x <= xmax *)
Theorem C20_inrange : forall xmin xmax x : R, inrangeb xmin xmax x = true <-> xmin <= x <= xmax.
Proof. exact inrangeb_true_iff. Qed.

(* constant in-range data give that constant in every bin *)
Theorem C20_constant : forall (x y : list R) (xmin xdiv xmax c : R), 0 < xdiv ->
  (forall p, In p (combine x y) -> xmin <= fst p <= xmax -> snd p = c) ->
  all_bins_fed x y xmin xdiv xmax ->
  snd (rebin x y xmin xdiv xmax) = repeat c (numpts xmin xdiv xmax).
Proof. exact rebin_constant. Qed.

(* per bin: only bin k needs to receive data *)
Theorem C20_constant_nth : forall (x y : list R) (xmin xdiv xmax c : R) (k : nat), 0 < xdiv ->
  (k < numpts xmin xdiv xmax)%nat ->
  (forall p, In p (combine x y) -> xmin <= fst p <= xmax -> snd p = c) ->
  0 < nsum xmin xdiv xmax k (combine x y) ->
  nth k (snd (rebin x y xmin xdiv xmax)) 0 = c.
Proof. exact rebin_constant_nth. Qed.

(* linear in y (no condition on the bins: the identity also holds, as 0 = 0, for empty bins of the real model) *)
Theorem C20_linear : forall (x y1 y2 : list R) (a b xmin xdiv xmax : R), 0 < xdiv ->
  length y1 = length y2 ->
  snd (rebin x (map2 (fun u v => a * u + b * v) y1 y2) xmin xdiv xmax) =
  map2 (fun u v => a * u + b * v) (snd (rebin x y1 xmin xdiv xmax)) (snd (rebin x y2 xmin xdiv xmax)).
Proof. exact rebin_linear. Qed.

(* an output lies between any bounds of the in-range y_i within one bin width of its grid point *)
Theorem C20_between : forall (x y : list R) (xmin xdiv xmax m M : R) (k : nat), 0 < xdiv ->
  (k < numpts xmin xdiv xmax)%nat ->
  0 < nsum xmin xdiv xmax k (combine x y) ->
  (forall p, In p (combine x y) -> xmin <= fst p <= xmax ->
             Rabs (fst p - (xmin + INR k * xdiv)) < xdiv -> m <= snd p <= M) ->
  m <= nth k (snd (rebin x y xmin xdiv xmax)) 0 <= M.
Proof. exact rebin_between. Qed.

(* in-range abscissae on grid nodes, the points on node k all carry v and there is at least one: output k is v *)
Theorem C20_identity_on_grid : forall (x y : list R) (xmin xdiv xmax v : R) (k : nat),
  0 < xdiv -> xmin <= xmax -> (k < numpts xmin xdiv xmax)%nat ->
  (forall p, In p (combine x y) -> xmin <= fst p <= xmax -> exists j : nat, fst p = xmin + INR j * xdiv) ->
  (forall p, In p (combine x y) -> fst p = xmin + INR k * xdiv -> snd p = v) ->
  (exists p, In p (combine x y) /\ fst p = xmin + INR k * xdiv) ->
  nth k (snd (rebin x y xmin xdiv xmax)) 0 = v.
Proof. exact rebin_identity_on_grid. Qed.

(* data given on the output grid itself come back unchanged *)
Theorem C20_grid_data_unchanged : forall (y : list R) (xmin xdiv xmax : R),
  0 < xdiv -> xmin <= xmax -> length y = numpts xmin xdiv xmax ->
  snd (rebin (rebin_grid xmin xdiv xmax) y xmin xdiv xmax) = y.
Proof. exact rebin_grid_data_unchanged. Qed.

(* the order of the input points does not matter *)
Theorem C20_order_independent : forall (x y x' y' : list R) (xmin xdiv xmax : R), 0 < xdiv ->
  Permutation (combine x y) (combine x' y') ->
  rebin x y xmin xdiv xmax = rebin x' y' xmin xdiv xmax.
Proof. exact rebin_perm. Qed.

Print Assumptions C20_grid.
Print Assumptions C20_hat_weights.
Print Assumptions C20_hat_weights_bin.
Print Assumptions C20_hat_support.
Print Assumptions C20_is_hat_average.
Print Assumptions C20_is_hat_average_nth.
Print Assumptions C20_inrange.
Print Assumptions C20_constant.
Print Assumptions C20_constant_nth.
Print Assumptions C20_linear.
Print Assumptions C20_between.
Print Assumptions C20_identity_on_grid.
Print Assumptions C20_grid_data_unchanged.
Print Assumptions C20_order_independent.
