(* C12 (carrier-independent part) -- the workflow steps never modify the merged curves, and what
   they store and return does not depend on the order or repetition of the steps: for EVERY number
   carrier A with ANY interpretation H of the operations (class Num), no law assumed -- in
   particular for the executed IEEE binary64 instance.  These are statements about which slot of the
   state each step reads and writes.

   Vocabulary (model: StogM.v, CliM.v; small definitions in proofs/GenericStogP.v):
     T_g c s      (r, g) of  q2r rS (c_fn c) q sq (c_dr c) None (transform_kw c),  (q, sq) the merged S(Q) of s
                  = what S_to_<fn>(q, sq, dr, lorch=False, rho, <b_coh>^2) returns
     run c s ops  the steps ops applied to s from left to right
     cli_after_merge / cli_ops   everything pystog_cli does after merge_data / the same as a list of steps *)
From Coq Require Import List PrimFloat.
From PyStoG Require Import Num NumF ConverterM TransformerM FilterM StogM CliM.
From PyStoG.proofs Require Import GenericStogP GenericFloatP.
Import ListNotations.

(* transform_merged returns T_g c s and stores it under t_gr only *)
Theorem C12g_transform_is_library_call : forall (A : Type) (H : Num A) (c : @config A) (s : @state A),
  transform_merged c s = (set_gr s (Some (T_g c s)), T_g c s).
Proof. exact @transform_is_library_call_gen. Qed.

(* without a stored transform the filter transforms first: filter = transform then filter *)
Theorem C12g_filter_autotransforms : forall (A : Type) (H : Num A) (c : @config A) (s : @state A),
  t_gr s = None ->
  fourier_filter c s = fourier_filter c (fst (transform_merged c s)) /\
  t_gr (fst (fourier_filter c s)) = Some (T_g c s).
Proof. exact @filter_autotransforms_gen. Qed.

(* no sequence of steps modifies the merged curves; the stored transform is the initial one or T_g c s0,
   and if it was absent or T_g c s0 initially it is absent or T_g c s0 ever after *)
Theorem C12g_merged_curves_never_modified :
  forall (A : Type) (H : Num A) (c : @config A) (s0 : @state A) (ops : list (@op A)),
  (t_gr s0 = None \/ t_gr s0 = Some (T_g c s0)) ->
  (t_sq (run c s0 ops) = t_sq s0 /\ t_qsq (run c s0 ops) = t_qsq s0 /\
   (t_gr (run c s0 ops) = t_gr s0 \/ t_gr (run c s0 ops) = Some (T_g c s0))) /\
  (t_gr (run c s0 ops) = None \/ t_gr (run c s0 ops) = Some (T_g c s0)).
Proof. exact @inv_run_gen. Qed.

(* the first part needs no hypothesis on the initial state *)
Theorem C12g_merged_curves_never_modified_any :
  forall (A : Type) (H : Num A) (c : @config A) (s0 : @state A) (ops : list (@op A)),
  t_sq (run c s0 ops) = t_sq s0 /\ t_qsq (run c s0 ops) = t_qsq s0 /\
  (t_gr (run c s0 ops) = t_gr s0 \/ t_gr (run c s0 ops) = Some (T_g c s0)).
Proof. exact @inv_run_any_gen. Qed.

(* after any steps, transform_merged returns the transform of the initial merged data *)
Theorem C12g_transform_history_independent :
  forall (A : Type) (H : Num A) (c : @config A) (s0 : @state A) (ops : list (@op A)),
  snd (transform_merged c (run c s0 ops)) = T_g c s0.
Proof. exact @transform_history_independent_gen. Qed.

(* after any steps, fourier_filter returns and stores what it does on (merged data, its transform) *)
Theorem C12g_filter_history_independent :
  forall (A : Type) (H : Num A) (c : @config A) (s0 : @state A) (ops : list (@op A)),
  (t_gr s0 = None \/ t_gr s0 = Some (T_g c s0)) ->
  let res := fourier_filter c (run c s0 ops) in
  let ref := fourier_filter c (set_gr s0 (Some (T_g c s0))) in
  snd res = snd ref /\
  t_ft (fst res) = t_ft (fst ref) /\ t_sqft (fst res) = t_sqft (fst ref) /\ t_grft (fst res) = t_grft (fst ref) /\
  t_gr (fst res) = Some (T_g c s0).
Proof. exact @filter_history_independent_gen. Qed.

(* repeating any step changes nothing (no hypothesis on the state is needed) *)
Theorem C12g_step_idempotent : forall (A : Type) (H : Num A) (c : @config A) (s : @state A) (o : @op A),
  step c (step c s o) o = step c s o.
Proof. exact @step_idempotent_gen. Qed.

(* the command-line run after the merge is a run of this state machine, for each setting of the two switches *)
Theorem C12g_cli_is_a_workflow_run :
  forall (A : Type) (H : Num A) (c : @config A) (filter_on lorch_on : bool) (s0 : @state A),
  fst (cli_after_merge c filter_on lorch_on s0) = run c s0 (cli_ops c filter_on lorch_on s0).
Proof. exact @cli_is_a_run_gen. Qed.

(* ---- at the executed carrier ---- *)
Theorem C12g_filter_history_independent_binary64 :
  forall (c : @config float) (s0 : @state float) (ops : list (@op float)),
  (t_gr s0 = None \/ t_gr s0 = Some (T_g c s0)) ->
  let res := fourier_filter c (run c s0 ops) in
  let ref := fourier_filter c (set_gr s0 (Some (T_g c s0))) in
  snd res = snd ref /\
  t_ft (fst res) = t_ft (fst ref) /\ t_sqft (fst res) = t_sqft (fst ref) /\ t_grft (fst res) = t_grft (fst ref) /\
  t_gr (fst res) = Some (T_g c s0).
Proof. exact filter_history_independent_float. Qed.

Theorem C12g_cli_is_a_workflow_run_binary64 :
  forall (c : @config float) (filter_on lorch_on : bool) (s0 : @state float),
  fst (cli_after_merge c filter_on lorch_on s0) = run c s0 (cli_ops c filter_on lorch_on s0).
Proof. exact cli_is_a_run_float. Qed.

Print Assumptions C12g_transform_is_library_call.
Print Assumptions C12g_filter_autotransforms.
Print Assumptions C12g_merged_curves_never_modified.
Print Assumptions C12g_merged_curves_never_modified_any.
Print Assumptions C12g_transform_history_independent.
Print Assumptions C12g_filter_history_independent.
Print Assumptions C12g_step_idempotent.
Print Assumptions C12g_cli_is_a_workflow_run.
Print Assumptions C12g_filter_history_independent_binary64.
Print Assumptions C12g_cli_is_a_workflow_run_binary64.
