(* C13 -- the window (xmin, xmax) of the transform is a closed-interval crop of the
   input triple; points outside it cannot influence anything; no window = full data range. *)
From Coq Require Import List Reals Bool.
From PyStoG Require Import Num NumR ConverterM TransformerM.
From PyStoG.proofs Require Import ConverterP CropP.
Import ListNotations.
Open Scope R_scope.

(* the cropped triple is the filter of the zipped (x, y, dy) triples by  xmin <= x <= xmax :
   exactly the points of the closed interval survive, in order, with x / y / dy kept aligned *)
Theorem C13_crop_is_filter : forall (x y : list R) xmin xmax dy,
  length y = length x -> dok dy (length x) ->
  let '(x', y', e') := apply_cropping x y xmin xmax dy in
  combine x' (combine y' e') =
  filter (fun t => Rleb xmin (fst t) && Rleb (fst t) xmax) (combine x (combine y (dflt_zeros y dy))).
Proof. exact crop_is_filter. Qed.

(* every surviving abscissa lies in [xmin, xmax] *)
Theorem C13_crop_in_window : forall (x y : list R) xmin xmax dy,
  let '(x', _, _) := apply_cropping x y xmin xmax dy in
  Forall (fun t => xmin <= t <= xmax) x'.
Proof. exact crop_in_window. Qed.

(* every input point of [xmin, xmax] (boundaries included) survives, with its own y and dy *)
Theorem C13_crop_keeps_inside : forall (x y : list R) xmin xmax dy i,
  length y = length x -> dok dy (length x) ->
  (i < length x)%nat -> xmin <= nth i x 0 <= xmax ->
  let '(x', y', e') := apply_cropping x y xmin xmax dy in
  In (nth i x 0, (nth i y 0, nth i (dflt_zeros y dy) 0)) (combine x' (combine y' e')).
Proof. exact crop_keeps_inside. Qed.

(* the three outputs have the same length *)
Theorem C13_crop_lengths : forall (x y : list R) xmin xmax dy,
  length y = length x -> dok dy (length x) ->
  let '(x', y', e') := apply_cropping x y xmin xmax dy in
  length y' = length x' /\ length e' = length x'.
Proof. exact crop_lengths. Qed.

(* cropping twice with the same window = cropping once *)
Theorem C13_crop_idem : forall (x y : list R) a b dy,
  let '(x', y', e') := apply_cropping x y a b dy in
  apply_cropping x' y' a b (Some e') = (x', y', e').
Proof. exact crop_idem. Qed.

(* transforming with a window = deleting the outside points first, then transforming the rest
   with the same window: all three outputs, Lorch on or off, omitted-range term on or off *)
Theorem C13_window_is_precrop : forall (x y xo : list R) a b dy (k : kw R),
  let '(x', y', e') := apply_cropping x y a b dy in
  fourier_transform x y xo (Some a) (Some b) dy k =
  fourier_transform x' y' xo (Some a) (Some b) (Some e') k.
Proof. exact ft_window_is_precrop. Qed.

(* two inputs that agree inside the window give identical outputs *)
Theorem C13_outside_irrelevant : forall (x1 y1 x2 y2 xo : list R) a b d1 d2 (k : kw R),
  apply_cropping x1 y1 a b d1 = apply_cropping x2 y2 a b d2 ->
  fourier_transform x1 y1 xo (Some a) (Some b) d1 k =
  fourier_transform x2 y2 xo (Some a) (Some b) d2 k.
Proof. exact ft_outside_irrelevant. Qed.

(* the window [min x, max x] removes nothing ... *)
Theorem C13_crop_full_range : forall (x y : list R) dy,
  x <> [] -> length y = length x -> dok dy (length x) ->
  apply_cropping x y (vmin x) (vmax x) dy = (x, y, dflt_zeros y dy).
Proof. exact crop_full_range. Qed.

(* ... and omitting the window means exactly that window *)
Theorem C13_no_window_is_full_range : forall (x y xo : list R) dy (k : kw R),
  fourier_transform x y xo None None dy k =
  fourier_transform x y xo (Some (vmin x)) (Some (vmax x)) dy k.
Proof. exact ft_no_window_is_full_range. Qed.

Print Assumptions C13_crop_is_filter.
Print Assumptions C13_crop_in_window.
Print Assumptions C13_crop_keeps_inside.
Print Assumptions C13_crop_lengths.
Print Assumptions C13_crop_idem.
Print Assumptions C13_window_is_precrop.
Print Assumptions C13_outside_irrelevant.
Print Assumptions C13_crop_full_range.
Print Assumptions C13_no_window_is_full_range.
