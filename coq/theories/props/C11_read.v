(* C11 (datasets arriving through read_dataset) -- "observe at: reciprocal_individuals, sq_individuals after
   add_dataset / read_dataset".  ReadM: the parsed table is the list of its columns; xcol / ycol are required,
   a missing dycol column means zeros, keywords are forwarded.  The correspondence check writes each dataset
   to a text file in one of three layouts (x y [dy]; dy junk x y with xcol=2, ycol=3, dycol=0; junk y x with
   xcol=2, ycol=1, dycol=5), calls read_dataset and compares with Exec.chk_add on the intended columns:
   C11r_layout_* are the model's side of those layouts. *)
From Coq Require Import List Reals.
From PyStoG Require Import Num NumR ConverterM StogM CallKwM ReadM.
From PyStoG.proofs Require Import ReadP.
Import ListNotations.
Open Scope nat_scope.

Theorem C11r_three_columns : forall (A : Type) (H : Num A) (x y e : list A), read_columns [x; y; e] 0 1 2 = Some (x, y, e).
Proof. exact (@read_three_columns). Qed.
Theorem C11r_two_columns : forall (A : Type) (H : Num A) (x y : list A), read_columns [x; y] 0 1 2 = Some (x, y, zeros_like y).
Proof. exact (@read_two_columns). Qed.

(* extra columns are ignored; the three roles may sit anywhere in the table *)
Theorem C11r_named_columns : forall (A : Type) (H : Num A) (t : list (list A)) (xcol ycol dycol : nat),
  xcol < length t -> ycol < length t -> dycol < length t ->
  read_columns t xcol ycol dycol = Some (nth xcol t [], nth ycol t [], nth dycol t []).
Proof. exact (@read_named_columns). Qed.
Theorem C11r_no_uncertainty_column : forall (A : Type) (H : Num A) (t : list (list A)) (xcol ycol dycol : nat),
  xcol < length t -> ycol < length t -> length t <= dycol ->
  read_columns t xcol ycol dycol = Some (nth xcol t [], nth ycol t [], zeros_like (nth ycol t [])).
Proof. exact (@read_without_dy_column). Qed.
(* the error branch: a table without the x or the y column is rejected and nothing is stored *)
Theorem C11r_too_few_columns_rejected : forall (A : Type) (H : Num A) (t : list (list A)) (xcol ycol dycol : nat),
  length t <= xcol \/ length t <= ycol -> read_columns t xcol ycol dycol = None.
Proof. exact (@read_too_few_columns). Qed.

Theorem C11r_layout_dy_junk_x_y : forall (A : Type) (H : Num A) (x y e junk : list A),
  read_columns [e; junk; x; y] 2 3 0 = Some (x, y, e).
Proof. exact (@read_layout_dy_junk_x_y). Qed.
Theorem C11r_layout_junk_y_x : forall (A : Type) (H : Num A) (x y junk : list A),
  read_columns [junk; y; x] 2 1 5 = Some (x, y, zeros_like y).
Proof. exact (@read_layout_junk_y_x). Qed.

(* read_dataset = add_dataset on the entry with the columns filled in, or nothing at all *)
Theorem C11r_read_dataset_is_add_dataset : forall (A : Type) (H : Num A) (c : @config A) (s : @state A) (d : @dinfo A)
    (t : list (list A)) (xcol ycol dycol : nat),
  match read_columns t xcol ycol dycol with
  | Some xyz => read_dataset c s d t xcol ycol dycol = Some (add_dataset c s (with_data d xyz))
  | None => read_dataset c s d t xcol ycol dycol = None
  end.
Proof. exact (@read_dataset_spec). Qed.

(* forwarded keywords act as in add_dataset *)
Theorem C11r_forwarded_keywords : forall (A : Type) (H : Num A) (c : @config A) (k : @callkw A) (d : @dinfo A)
    (t : list (list A)) (xcol ycol dycol : nat) (xyz : list A * list A * list A),
  read_columns t xcol ycol dycol = Some xyz ->
  read_rows c k d t xcol ycol dycol = Some (ingest_rows c (effective k (with_data d xyz))).
Proof. exact (@read_rows_effective). Qed.

(* over R: a file without uncertainty column stores what add_dataset stores for data given without uncertainties *)
Theorem C11r_two_columns_is_no_uncertainty : forall (c : @config R) (d : @dinfo R) (x y : list R),
  ingest_rows c (with_data d (x, y, zeros_like y)) =
  ingest_rows c {| d_x := x; d_y := y; d_dy := None; d_qmin := d_qmin d; d_qmax := d_qmax d;
                   d_Y := d_Y d; d_X := d_X d; d_kind := d_kind d |}.
Proof. exact read_two_columns_is_no_dy. Qed.

Print Assumptions C11r_three_columns.
Print Assumptions C11r_two_columns.
Print Assumptions C11r_named_columns.
Print Assumptions C11r_no_uncertainty_column.
Print Assumptions C11r_too_few_columns_rejected.
Print Assumptions C11r_layout_dy_junk_x_y.
Print Assumptions C11r_layout_junk_y_x.
Print Assumptions C11r_read_dataset_is_add_dataset.
Print Assumptions C11r_forwarded_keywords.
Print Assumptions C11r_two_columns_is_no_uncertainty.
