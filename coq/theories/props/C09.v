(* C09 -- the 12 Fourier-filter variants are the same filter: on the same physical data
   every output of every variant is the function conversion of the corresponding output of
   the g(r) / Q[S(Q)-1] core, values and uncertainties. *)
From Coq Require Import List Reals.
From PyStoG Require Import Num NumR ConverterM TransformerM FilterM.
From PyStoG.proofs Require Import ConverterP FilterP FilterC09P.
Import ListNotations.
Open Scope R_scope.

(* Vocabulary:
     G : gfun ranges over g(r), G(r), G_K(r);  Q : rfun over S, F = Q[S-1], F_K, DCS;
     filter_variant G Q is the method <G>_using_<Q>; g_using_F = filter_variant gg rF is the core.
     The common physical data are g(r) with uncertainty dg on the grid r and F(Q) = Q[S(Q)-1]
     with uncertainty df on the grid q; a variant is fed their conversions
       gconv gg G r g (Some dg) k  and  rconv rF Q q f (Some df) k   (values, uncertainties).
     core_of G Q ...    the call of g_using_F a variant makes after converting its inputs
     convert_out G Q k o  the record o with (y_ft,dy_ft), (y_c,dy_c) converted F -> Q and
                          (g_o,dg_o) converted g -> G     (both defined in proofs/FilterP.v)
     rderiv k X Y x / gderiv k X Y x  the slope of the conversion X -> Y at abscissa x (ConverterP.v)
     allnonneg r        every r_i >= 0 *)

(* 0. structure, no side condition: every variant converts in, runs the core, converts out
      (g_using_DCS, written out in the code with q_ft in place of q, included) *)
Theorem C09_variant_normal_form : forall (G : gfun) (Q : rfun) r gr q y cutoff dgr dy (k : kw R),
  filter_variant G Q r gr q y cutoff dgr dy k = convert_out G Q k (core_of G Q r gr q y cutoff dgr dy k).
Proof. exact variant_normal_form. Qed.

(* 1. all nine outputs of every variant are the conversions of the core's outputs *)
Theorem C09_variant_is_conversion_of_core :
  forall (G : gfun) (Q : rfun) (r g dg q f df : list R) cutoff (k : kw R),
  allpos r -> allpos q -> 0 < rho k -> 0 < bcoh k ->
  length g = length r -> length dg = length r -> length f = length q -> length df = length q ->
  let gin := fst (gconv gg G r g (Some dg) k) in
  let dgin := snd (gconv gg G r g (Some dg) k) in
  let yin := fst (rconv rF Q q f (Some df) k) in
  let dyin := snd (rconv rF Q q f (Some df) k) in
  let o := filter_variant G Q r gin q yin cutoff (Some dgin) (Some dyin) k in
  let o0 := g_using_F r g q f cutoff (Some dg) (Some df) k in
  q_ft o = q_ft o0 /\ q_c o = q_c o0 /\ r_o o = r_o o0 /\
  (y_ft o, dy_ft o) = rconv rF Q (q_ft o0) (y_ft o0) (Some (dy_ft o0)) k /\
  (y_c o, dy_c o) = rconv rF Q (q_c o0) (y_c o0) (Some (dy_c o0)) k /\
  (g_o o, dg_o o) = gconv gg G (r_o o0) (g_o o0) (Some (dg_o o0)) k.
Proof. exact variant_is_conversion_of_core. Qed.

(* 1'. the same when the real-space grid contains r = 0 (r >= 0 instead of r > 0) *)
Theorem C09_variant_is_conversion_of_core_nonneg_r :
  forall (G : gfun) (Q : rfun) (r g dg q f df : list R) cutoff (k : kw R),
  allnonneg r -> allpos q -> 0 < rho k -> 0 < bcoh k ->
  length g = length r -> length dg = length r -> length f = length q -> length df = length q ->
  let gin := fst (gconv gg G r g (Some dg) k) in
  let dgin := snd (gconv gg G r g (Some dg) k) in
  let yin := fst (rconv rF Q q f (Some df) k) in
  let dyin := snd (rconv rF Q q f (Some df) k) in
  let o := filter_variant G Q r gin q yin cutoff (Some dgin) (Some dyin) k in
  let o0 := g_using_F r g q f cutoff (Some dg) (Some df) k in
  q_ft o = q_ft o0 /\ q_c o = q_c o0 /\ r_o o = r_o o0 /\
  (y_ft o, dy_ft o) = rconv rF Q (q_ft o0) (y_ft o0) (Some (dy_ft o0)) k /\
  (y_c o, dy_c o) = rconv rF Q (q_c o0) (y_c o0) (Some (dy_c o0)) k /\
  (g_o o, dg_o o) = gconv gg G (r_o o0) (g_o o0) (Some (dg_o o0)) k.
Proof. exact variant_is_conversion_of_core_nonneg_r. Qed.

(* 2. any two variants: each output of one is the conversion of the corresponding output of the
      other, values and uncertainties *)
Theorem C09_variants_agree :
  forall (G G' : gfun) (Q Q' : rfun) (r g dg q f df : list R) cutoff (k : kw R),
  allpos r -> allpos q -> 0 < rho k -> 0 < bcoh k ->
  length g = length r -> length dg = length r -> length f = length q -> length df = length q ->
  let o := filter_variant G Q r (fst (gconv gg G r g (Some dg) k)) q (fst (rconv rF Q q f (Some df) k)) cutoff
             (Some (snd (gconv gg G r g (Some dg) k))) (Some (snd (rconv rF Q q f (Some df) k))) k in
  let o' := filter_variant G' Q' r (fst (gconv gg G' r g (Some dg) k)) q (fst (rconv rF Q' q f (Some df) k)) cutoff
             (Some (snd (gconv gg G' r g (Some dg) k))) (Some (snd (rconv rF Q' q f (Some df) k))) k in
  q_ft o' = q_ft o /\ q_c o' = q_c o /\ r_o o' = r_o o /\
  (y_ft o', dy_ft o') = rconv Q Q' (q_ft o) (y_ft o) (Some (dy_ft o)) k /\
  (y_c o', dy_c o') = rconv Q Q' (q_c o) (y_c o) (Some (dy_c o)) k /\
  (g_o o', dg_o o') = gconv G G' (r_o o) (g_o o) (Some (dg_o o)) k.
Proof. exact variants_agree. Qed.

(* 3. the uncertainty half of 1, on its own: the three uncertainty outputs of every variant are
      the converted uncertainties of the core (which depend on dg and df, see C07 / C08) *)
Theorem C09_no_variant_drops_uncertainty :
  forall (G : gfun) (Q : rfun) (r g dg q f df : list R) cutoff (k : kw R),
  allpos r -> allpos q -> 0 < rho k -> 0 < bcoh k ->
  length g = length r -> length dg = length r -> length f = length q -> length df = length q ->
  let gin := fst (gconv gg G r g (Some dg) k) in
  let dgin := snd (gconv gg G r g (Some dg) k) in
  let yin := fst (rconv rF Q q f (Some df) k) in
  let dyin := snd (rconv rF Q q f (Some df) k) in
  let o := filter_variant G Q r gin q yin cutoff (Some dgin) (Some dyin) k in
  let o0 := g_using_F r g q f cutoff (Some dg) (Some df) k in
  dy_ft o = snd (rconv rF Q (q_ft o0) (y_ft o0) (Some (dy_ft o0)) k) /\
  dy_c o = snd (rconv rF Q (q_c o0) (y_c o0) (Some (dy_c o0)) k) /\
  dg_o o = snd (gconv gg G (r_o o0) (g_o o0) (Some (dg_o o0)) k).
Proof. exact no_variant_drops_uncertainty. Qed.

Theorem C09_no_variant_drops_uncertainty_nonneg_r :
  forall (G : gfun) (Q : rfun) (r g dg q f df : list R) cutoff (k : kw R),
  allnonneg r -> allpos q -> 0 < rho k -> 0 < bcoh k ->
  length g = length r -> length dg = length r -> length f = length q -> length df = length q ->
  let gin := fst (gconv gg G r g (Some dg) k) in
  let dgin := snd (gconv gg G r g (Some dg) k) in
  let yin := fst (rconv rF Q q f (Some df) k) in
  let dyin := snd (rconv rF Q q f (Some df) k) in
  let o := filter_variant G Q r gin q yin cutoff (Some dgin) (Some dyin) k in
  let o0 := g_using_F r g q f cutoff (Some dg) (Some df) k in
  dy_ft o = snd (rconv rF Q (q_ft o0) (y_ft o0) (Some (dy_ft o0)) k) /\
  dy_c o = snd (rconv rF Q (q_c o0) (y_c o0) (Some (dy_c o0)) k) /\
  dg_o o = snd (gconv gg G (r_o o0) (g_o o0) (Some (dg_o o0)) k).
Proof. exact no_variant_drops_uncertainty_nonneg_r. Qed.

(* ... with the factors written out: point by point, the core's uncertainty times the positive
   slope of the conversion (1/Q for S, 1 for F, bcoh/Q for F_K and DCS; 1, 4 pi rho r, bcoh for g, G, G_K) *)
Theorem C09_no_variant_drops_uncertainty_factors :
  forall (G : gfun) (Q : rfun) (r g dg q f df : list R) cutoff (k : kw R),
  allpos r -> allpos q -> 0 < rho k -> 0 < bcoh k ->
  length g = length r -> length dg = length r -> length f = length q -> length df = length q ->
  let gin := fst (gconv gg G r g (Some dg) k) in
  let dgin := snd (gconv gg G r g (Some dg) k) in
  let yin := fst (rconv rF Q q f (Some df) k) in
  let dyin := snd (rconv rF Q q f (Some df) k) in
  let o := filter_variant G Q r gin q yin cutoff (Some dgin) (Some dyin) k in
  let o0 := g_using_F r g q f cutoff (Some dg) (Some df) k in
  dy_ft o = map2 (fun x e => rderiv k rF Q x * e) q (dy_ft o0) /\
  dy_c o = map2 (fun x e => rderiv k rF Q x * e) q (dy_c o0) /\
  dg_o o = map2 (fun x e => gderiv k gg G x * e) r (dg_o o0) /\
  (forall x, 0 < x -> 0 < rderiv k rF Q x) /\ (forall x, 0 < x -> 0 < gderiv k gg G x).
Proof. exact no_variant_drops_uncertainty_factors. Qed.

Print Assumptions C09_variant_normal_form.
Print Assumptions C09_variant_is_conversion_of_core.
Print Assumptions C09_variant_is_conversion_of_core_nonneg_r.
Print Assumptions C09_variants_agree.
Print Assumptions C09_no_variant_drops_uncertainty.
Print Assumptions C09_no_variant_drops_uncertainty_nonneg_r.
Print Assumptions C09_no_variant_drops_uncertainty_factors.
