(* C03_defined.v -- the 'never NaN or infinity' clause of C03 over the defined-reals carrier (NumE.v):
   a division by zero or a square root of a negative number is `None`; these theorems say the run is total
   and coincides with the real-number model.  Statement-only file. *)
From Coq Require Import List Reals.
From PyStoG Require Import Num NumR NumE ConverterM TransformerM FilterM StogM.
From PyStoG.proofs Require Import DefinedP.
Import ListNotations.
Open Scope R_scope.

(* C03: all 16 reciprocal-space conversions, EVERY abscissa (0 and negative included), any
   lengths, uncertainties given or not: total, and equal to the real-number model *)
Theorem C03_rconv : forall (p b t : R) (l o : bool) (X Y : rfun) (q v : list R) (d : option (list R)),
  b <> 0 ->
  let kE : kw ER := {| rho := Some p; bcoh := Some b; btot := Some t; lorch := l; omitted := o |} in
  let kR : kw R := {| rho := p; bcoh := b; btot := t; lorch := l; omitted := o |} in
  rconv X Y (inj q) (inj v) (option_map inj d) kE =
  (inj (fst (rconv X Y q v d kR)), inj (snd (rconv X Y q v d kR))).
Proof. exact rconv_defined_explicit. Qed.

(* entry by entry: b <> 0 is needed only for FK/DCS -> S/F and GK -> g/G, rho <> 0 only for g/G -> GK *)
Theorem C03_rconv_sharp : forall (k : kw R) (X Y : rfun) (q v : list R) (d : option (list R)),
  (rneeds_b X Y = true -> bcoh k <> 0) ->
  rconv X Y (inj q) (inj v) (option_map inj d) (liftk k) = lift2 (rconv X Y q v d k).
Proof. exact rconv_defined_sharp. Qed.
(* ... and there they are needed *)
Theorem C03_rconv_needs_b : fst (rconv rFK rF (inj [1]) (inj [1]) None (liftk (k0 1 0))) = [None].
Proof. exact rconv_needs_b. Qed.
(* sharpness: 1/0 is undefined; with the guard 0 <= d instead of 0 < d, F_to_S is undefined at
   Q = 0; with the guard as written it returns the conventional 1 *)
Theorem C03_guard_is_needed :
  (Some 1 / Some 0)%num = None /\
  (forall k, fst (F_to_S_unguarded (inj [0]) (inj [3]) None k) = [None]) /\
  (forall k, fst (F_to_S (inj [0]) (inj [3]) None k) = [Some 1]).
Proof. exact unguarded_division_undefined. Qed.


Print Assumptions C03_rconv.
Print Assumptions C03_rconv_sharp.
Print Assumptions C03_rconv_needs_b.
Print Assumptions C03_guard_is_needed.
