(* C20 (locality) -- "a local weighted average": the rebinned curve sees the input only through the samples
   whose abscissa lies in [xmin, xmax]; whatever lies outside (however large) has no influence at all.
   The oracle of C20 replaces the out-of-window ordinates by values around 1e18, appends two more samples
   beyond either end and requires the same bins. *)
From PyStoG Require Import Num NumR RebinM.
From PyStoG.proofs Require Import RebinP RebinLocalP.
From Coq Require Import List Reals.
Import ListNotations.
Open Scope R_scope.

(* two inputs with the same in-window samples (in the same order) give the same result, grid and values *)
Theorem C20_outside_window_irrelevant : forall (x y x' y' : list R) (xmin xdiv xmax : R), 0 < xdiv ->
  filter (in_window xmin xmax) (combine x y) = filter (in_window xmin xmax) (combine x' y') ->
  rebin x y xmin xdiv xmax = rebin x' y' xmin xdiv xmax.
Proof. exact rebin_local. Qed.

(* samples appended outside the window change nothing *)
Theorem C20_samples_outside_appended : forall (x y xe ye : list R) (xmin xdiv xmax : R), 0 < xdiv ->
  length x = length y ->
  (forall p, In p (combine xe ye) -> in_window xmin xmax p = false) ->
  rebin (x ++ xe) (y ++ ye) xmin xdiv xmax = rebin x y xmin xdiv xmax.
Proof. exact rebin_outside_appended. Qed.

Print Assumptions C20_outside_window_irrelevant.
Print Assumptions C20_samples_outside_appended.
