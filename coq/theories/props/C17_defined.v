(* C17_defined.v -- the 'never NaN or infinity' clause of C17 over the defined-reals carrier (NumE.v):
   a division by zero or a square root of a negative number is `None`; these theorems say the run is total
   and coincides with the real-number model.  Statement-only file. *)
From Coq Require Import List Reals.
From PyStoG Require Import Num NumR NumE ConverterM TransformerM FilterM StogM.
From PyStoG.proofs Require Import DefinedP.
Import ListNotations.
Open Scope R_scope.

(* C03: all 16 reciprocal-space conversions, EVERY abscissa (0 and negative included), any
   lengths, uncertainties given or not: total, and equal to the real-number model *)
(* C17: the pieces of merge_data (every Q, independent of the keyword record) *)
Theorem C17_merge_pieces :
  forall (q v : list R) (d : option (list R)) (kE : kw ER) (kR : kw R) (c : R) (l : list R),
  S_to_F (inj q) (inj v) (option_map inj d) kE = lift2 (S_to_F q v d kR) /\
  F_to_S (inj q) (inj v) (option_map inj d) kE = lift2 (F_to_S q v d kR) /\
  vscale_r (A:=ER) (Some c) (inj l) = inj (vscale_r c l) /\
  vadd_s (A:=ER) (Some c) (inj l) = inj (vadd_s c l) /\
  map (fun v : ER => if eqb v v then v else zero) (inj l) = inj (map (fun v : R => if eqb v v then v else zero) l).
Proof. exact merge_pieces_defined. Qed.

(* the sort / run-length-average loop: divisions by a count >= 1, roots of sums of squares.
   inji (x, y, e) = (Some x, Some y, Some e) *)
Theorem C17_merge_items : forall l : list (@item R),
  merge_items (map inji l) = map inji (merge_items l).
Proof. exact merge_items_defined. Qed.

(* merge_data: what it stores is defined (no positivity of Q needed) ... *)
Theorem C17_merge_data : forall (cE : @config ER) (sE : @state ER) (cR : @config R) (sR : @state R),
  c_merge cE = liftm (c_merge cR) -> s_sq sE = lift3 (s_sq sR) ->
  s_sq (merge_data cE sE) = lift3 (s_sq (merge_data cR sR)) /\
  t_sq (merge_data cE sE) = option_map lift2 (t_sq (merge_data cR sR)) /\
  t_qsq (merge_data cE sE) = option_map lift2 (t_qsq (merge_data cR sR)).
Proof. exact merge_data_defined. Qed.
(* ... and on a lifted configuration and state the whole step commutes *)
Theorem C17_merge_data_state : forall (c : @config R) (s : @state R),
  merge_data (liftcfg c) (liftst s) = liftst (merge_data c s).
Proof. exact merge_data_state_defined. Qed.


Print Assumptions C17_merge_pieces.
Print Assumptions C17_merge_items.
Print Assumptions C17_merge_data.
Print Assumptions C17_merge_data_state.
