(* C13 (carrier-independent part) -- the statements of C13 that are structural: they hold
   for EVERY number carrier A with ANY interpretation H of the operations (class Num), no law
   assumed -- in particular for the IEEE binary64 instance NumF that is executed and compared with
   the Python code (NaN, infinities, signed zeros included), and for the reals.

   [leb] is the carrier's own  <=  test (Rleb at the reals, the IEEE comparison at binary64).

   NOT carrier-independent, and therefore absent: C13_crop_in_window / C13_crop_keeps_inside (they
   speak about the real order) and C13_crop_full_range ("[min x, max x] removes nothing" needs a total
   order: false for a NaN abscissa; see full_range_ok in proofs/GenericCropP.v and the
   counterexample crop_full_range_fails_for_nan in proofs/GenericFloatP.v). *)
From Coq Require Import List Bool PrimFloat.
From PyStoG Require Import Num NumF ConverterM TransformerM.
From PyStoG.proofs Require Import GenericCropP GenericFloatP.
Import ListNotations.

(* the cropped triple is the filter of the zipped (x, y, dy) triples by  leb xmin x && leb x xmax;
   no length hypothesis is needed *)
Theorem C13g_crop_is_filter : forall (A : Type) (H : Num A) (x y : list A) (xmin xmax : A) (dy : option (list A)),
  let '(x', y', e') := apply_cropping x y xmin xmax dy in
  combine x' (combine y' e') =
  filter (fun t => leb xmin (fst t) && leb (fst t) xmax) (combine x (combine y (dflt_zeros y dy))).
Proof. exact @crop_is_filter_gen. Qed.

(* the three outputs have the same length;  dok_g dy n  :=  forall e, dy = Some e -> length e = n *)
Theorem C13g_crop_lengths : forall (A : Type) (H : Num A) (x y : list A) (xmin xmax : A) (dy : option (list A)),
  length y = length x -> dok_g dy (length x) ->
  let '(x', y', e') := apply_cropping x y xmin xmax dy in
  length y' = length x' /\ length e' = length x'.
Proof. exact @crop_lengths_gen. Qed.

(* cropping twice with the same window = cropping once (uses only that leb is a function) *)
Theorem C13g_crop_idem : forall (A : Type) (H : Num A) (x y : list A) (a b : A) (dy : option (list A)),
  let '(x', y', e') := apply_cropping x y a b dy in
  apply_cropping x' y' a b (Some e') = (x', y', e').
Proof. exact @crop_idem_gen. Qed.

(* transforming with a window = deleting the outside points first, then transforming the rest
   with the same window: all three outputs, Lorch on or off, omitted-range term on or off *)
Theorem C13g_window_is_precrop : forall (A : Type) (H : Num A) (x y xo : list A) (a b : A) (dy : option (list A)) (k : kw A),
  let '(x', y', e') := apply_cropping x y a b dy in
  fourier_transform x y xo (Some a) (Some b) dy k =
  fourier_transform x' y' xo (Some a) (Some b) (Some e') k.
Proof. exact @ft_window_is_precrop_gen. Qed.

(* two inputs that agree inside the window give identical outputs *)
Theorem C13g_outside_irrelevant : forall (A : Type) (H : Num A) (x1 y1 x2 y2 xo : list A) (a b : A) d1 d2 (k : kw A),
  apply_cropping x1 y1 a b d1 = apply_cropping x2 y2 a b d2 ->
  fourier_transform x1 y1 xo (Some a) (Some b) d1 k =
  fourier_transform x2 y2 xo (Some a) (Some b) d2 k.
Proof. exact @ft_outside_irrelevant_gen. Qed.

(* omitting the window means exactly the window [vmin x, vmax x] (Python's min / max of the array) *)
Theorem C13g_no_window_is_full_range : forall (A : Type) (H : Num A) (x y xo : list A) (dy : option (list A)) (k : kw A),
  fourier_transform x y xo None None dy k =
  fourier_transform x y xo (Some (vmin x)) (Some (vmax x)) dy k.
Proof. exact @ft_no_window_is_full_range_gen. Qed.

(* ---- the same at the executed carrier: IEEE binary64, comparisons = PrimFloat.leb ---- *)
Theorem C13g_crop_is_filter_binary64 : forall (x y : list float) (xmin xmax : float) (dy : option (list float)),
  let '(x', y', e') := apply_cropping x y xmin xmax dy in
  combine x' (combine y' e') =
  filter (fun t => PrimFloat.leb xmin (fst t) && PrimFloat.leb (fst t) xmax)
         (combine x (combine y (dflt_zeros y dy))).
Proof. exact crop_is_filter_float. Qed.

Theorem C13g_crop_idem_binary64 : forall (x y : list float) (a b : float) (dy : option (list float)),
  let '(x', y', e') := apply_cropping x y a b dy in
  apply_cropping x' y' a b (Some e') = (x', y', e').
Proof. exact crop_idem_float. Qed.

Theorem C13g_window_is_precrop_binary64 : forall (x y xo : list float) (a b : float) dy (k : kw float),
  let '(x', y', e') := apply_cropping x y a b dy in
  fourier_transform x y xo (Some a) (Some b) dy k =
  fourier_transform x' y' xo (Some a) (Some b) (Some e') k.
Proof. exact ft_window_is_precrop_float. Qed.

Print Assumptions C13g_crop_is_filter.
Print Assumptions C13g_crop_lengths.
Print Assumptions C13g_crop_idem.
Print Assumptions C13g_window_is_precrop.
Print Assumptions C13g_outside_irrelevant.
Print Assumptions C13g_no_window_is_full_range.
Print Assumptions C13g_crop_is_filter_binary64.
Print Assumptions C13g_crop_idem_binary64.
Print Assumptions C13g_window_is_precrop_binary64.
