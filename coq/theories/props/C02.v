(* C02 -- the core transform is the trapezoid-rule sine quadrature
     out(x') = sum_k W_k y_k sin(x_k x')
   with the standard trapezoid weights, and equals the Fortran reference loop (stog_bit)
   on uniform grids.  "values" = snd (fst (fourier_transform ...)). *)
From Coq Require Import List Reals Bool.
From PyStoG Require Import Num NumR ConverterM TransformerM FortranM.
From PyStoG.proofs Require Import ConverterP CropP TransformerP.
Import ListNotations.
Open Scope R_scope.

(* plain transform (no Lorch, no omitted-range term, no window): the output abscissa is returned
   unchanged and the value at x' is trapz over the input grid of  y_j sin(x_j x') *)
Theorem C02_ft_is_trapz : forall (x y xo : list R) dy (k : kw R),
  omitted k = false -> lorch k = false -> x <> [] -> length y = length x ->
  fst (fst (fourier_transform x y xo None None dy k)) = xo /\
  snd (fst (fourier_transform x y xo None None dy k)) =
  map (fun x' => trapz x (map2 (fun yj xj => yj * Rtrigo_def.sin (xj * x')) y x)) xo.
Proof. exact ft_is_trapz. Qed.

(* trapz is the weighted sum with the trapezoid weights `tweights` (TransformerP.v):
   W_0 = (x_1-x_0)/2, W_k = (x_{k+1}-x_{k-1})/2, W_n = (x_n-x_{n-1})/2 -- see the four lemmas below *)
Theorem C02_trapz_weights : forall (xs ys : list R), length ys = length xs ->
  trapz xs ys = fold_right Rplus 0 (map2 Rmult (tweights xs) ys).
Proof. exact trapz_weights. Qed.

Theorem C02_tweights_length : forall xs, length (tweights xs) = length xs.
Proof. exact tweights_length. Qed.
Theorem C02_tweights_first : forall xs, (2 <= length xs)%nat ->
  nth 0 (tweights xs) 0 = (nth 1 xs 0 - nth 0 xs 0) / 2.
Proof. exact tweights_first. Qed.
Theorem C02_tweights_interior : forall xs k, (0 < k)%nat -> (S k < length xs)%nat ->
  nth k (tweights xs) 0 = (nth (S k) xs 0 - nth (k - 1) xs 0) / 2.
Proof. exact tweights_interior. Qed.
Theorem C02_tweights_last : forall xs, (2 <= length xs)%nat ->
  nth (length xs - 1) (tweights xs) 0 = (nth (length xs - 1) xs 0 - nth (length xs - 2) xs 0) / 2.
Proof. exact tweights_last. Qed.
Theorem C02_tweights_short : tweights [] = [] /\ forall x, tweights [x] = [0].
Proof. exact (conj tweights_nil tweights_one). Qed.

(* value 0 at output abscissa 0: any window, any dy, Lorch on or off *)
Theorem C02_zero_at_0 : forall (x y xo : list R) wa wb dy (k : kw R) i,
  omitted k = false -> (i < length xo)%nat -> nth i xo 0 = 0 ->
  nth i (snd (fst (fourier_transform x y xo wa wb dy k))) 0 = 0.
Proof. exact ft_zero_at_0. Qed.

(* odd in the output abscissa *)
Theorem C02_odd : forall (x y xo : list R) wa wb dy (k : kw R),
  omitted k = false ->
  snd (fst (fourier_transform x y (map Ropp xo) wa wb dy k)) =
  map Ropp (snd (fst (fourier_transform x y xo wa wb dy k))).
Proof. exact ft_odd. Qed.

(* linear in the data *)
Theorem C02_linear : forall (x y1 y2 xo : list R) a b wa wb dy (k : kw R),
  omitted k = false -> length y1 = length x -> length y2 = length x ->
  snd (fst (fourier_transform x (map2 (fun u v => a * u + b * v) y1 y2) xo wa wb dy k)) =
  map2 (fun u v => a * u + b * v)
       (snd (fst (fourier_transform x y1 xo wa wb dy k)))
       (snd (fst (fourier_transform x y2 xo wa wb dy k))).
Proof. exact ft_linear. Qed.

(* Fortran stog_bit transform loop (FortranM.v, without the low-Q term) = S(Q) -> F(Q) -> G(r)
   of the model, on a uniform Q grid  x0 + j h, j < n,  and r grid  delr * (i+1), i < lptout *)
Theorem C02_fortran_core : forall x0 h n (s : list R) delr lptout (k : kw R),
  (2 <= n)%nat -> h <> 0 -> length s = n -> lorch k = false -> omitted k = false ->
  let xin := map (fun j => x0 + INR j * h) (seq 0 n) in
  let rgrid := map (fun i => delr * INR (S i)) (seq 0 lptout) in
  stog_bit_core xin s delr false lptout =
  snd (fst (F_to_G xin (fst (S_to_F xin s None k)) rgrid None k)).
Proof. exact fortran_eq_pystog. Qed.

(* the same with the Lorch modification on both sides (increasing grid of positive Q) *)
Theorem C02_fortran_core_lorch : forall x0 h n (s : list R) delr lptout (k : kw R),
  (2 <= n)%nat -> 0 < x0 -> 0 < h -> length s = n -> lorch k = true -> omitted k = false ->
  let xin := map (fun j => x0 + INR j * h) (seq 0 n) in
  let rgrid := map (fun i => delr * INR (S i)) (seq 0 lptout) in
  stog_bit_core xin s delr true lptout =
  snd (fst (F_to_G xin (fst (S_to_F xin s None k)) rgrid None k)).
Proof. exact fortran_eq_pystog_lorch. Qed.

(* final g(r) = yout/(4 pi rho)/r + 1  of the Fortran  =  S_to_g of the model *)
Theorem C02_fortran_g : forall x0 h n (s : list R) delr lptout (k : kw R),
  (2 <= n)%nat -> h <> 0 -> length s = n -> lorch k = false -> omitted k = false ->
  0 < rho k -> 0 < delr ->
  let xin := map (fun j => x0 + INR j * h) (seq 0 n) in
  let rgrid := map (fun i => delr * INR (S i)) (seq 0 lptout) in
  stog_bit_g xin s delr (rho k) false lptout = snd (fst (S_to_g xin s rgrid None k)).
Proof. exact fortran_g_eq_pystog. Qed.

Theorem C02_fortran_g_lorch : forall x0 h n (s : list R) delr lptout (k : kw R),
  (2 <= n)%nat -> 0 < x0 -> 0 < h -> length s = n -> lorch k = true -> omitted k = false ->
  0 < rho k -> 0 < delr ->
  let xin := map (fun j => x0 + INR j * h) (seq 0 n) in
  let rgrid := map (fun i => delr * INR (S i)) (seq 0 lptout) in
  stog_bit_g xin s delr (rho k) true lptout = snd (fst (S_to_g xin s rgrid None k)).
Proof. exact fortran_g_eq_pystog_lorch. Qed.

Print Assumptions C02_ft_is_trapz.
Print Assumptions C02_trapz_weights.
Print Assumptions C02_tweights_length.
Print Assumptions C02_tweights_first.
Print Assumptions C02_tweights_interior.
Print Assumptions C02_tweights_last.
Print Assumptions C02_tweights_short.
Print Assumptions C02_zero_at_0.
Print Assumptions C02_odd.
Print Assumptions C02_linear.
Print Assumptions C02_fortran_core.
Print Assumptions C02_fortran_core_lorch.
Print Assumptions C02_fortran_g.
Print Assumptions C02_fortran_g_lorch.
