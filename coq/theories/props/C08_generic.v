(* C08 / C09 (carrier-independent part) -- structural statements about the Fourier filter that hold
   for EVERY number carrier A with ANY interpretation H of the operations (class Num), no law
   assumed: in particular for the executed IEEE binary64 instance.

   Vocabulary (proofs/GenericFilterP.v, proofs/GenericCropP.v):
     core_of_g G Q r gr q y cutoff dgr dy k   g_using_F applied to the inputs converted  G -> g(r),  Q -> Q[S(Q)-1]
     convert_out_g G Q k o                    the 9 outputs of the core converted back  Q[S(Q)-1] -> Q,  g(r) -> G
     full_range_ok q                          Forall (fun t => leb (vmin q) t && leb t (vmax q) = true) q

   One statement is NOT structural and is given in two forms: the removed component is computed as
   the transform of the low-r data CROPPED to [min q, max q] (unconditional, as the code is written);
   the crop disappears exactly when every q passes the test, i.e. under full_range_ok q.  At the reals
   that holds for every q; at binary64 it fails for a NaN abscissa (leb NaN NaN = false; see
   full_range_ok_fails_for_nan / crop_full_range_fails_for_nan in proofs/GenericFloatP.v). *)
From Coq Require Import List Bool PrimFloat.
From PyStoG Require Import Num NumF ConverterM TransformerM FilterM.
From PyStoG.proofs Require Import GenericCropP GenericFilterP GenericFloatP.
Import ListNotations.
Local Open Scope num_scope.

(* 4a. unconditional form: the removed component is the r -> Q transform of the data on [0, cutoff]
       alone (g_to_F of g' + 1, as the code writes it), cropped to [min q, max q] *)
Theorem C08g_removed_is_cropped_lowr_transform :
  forall (A : Type) (H : Num A) (r gr q fq : list A) (cutoff : A) dgr dfq (k : kw A),
  let '(r', g', d') := apply_cropping r gr zero cutoff dgr in
  let o := g_using_F r gr q fq cutoff dgr dfq k in
  (q_ft o, y_ft o, dy_ft o) =
  let '(q1, f, d) := g_to_F r' (map (fun v => v + one) g') q (Some d') k in
  apply_cropping q1 f (vmin q) (vmax q) (Some d).
Proof. exact @removed_is_cropped_lowr_transform_gen. Qed.

(* 4b. the form of C08_removed_is_lowr_transform, under the explicit order hypothesis on the grid q
       (needs of the carrier: every q_i compares  vmin q <= q_i <= vmax q;  NaN violates it) *)
Theorem C08g_removed_is_lowr_transform :
  forall (A : Type) (H : Num A) (r gr q fq : list A) (cutoff : A) dgr dfq (k : kw A),
  full_range_ok q ->
  let '(r', g', d') := apply_cropping r gr zero cutoff dgr in
  let o := g_using_F r gr q fq cutoff dgr dfq k in
  (q_ft o, y_ft o, dy_ft o) = g_to_F r' (map (fun v => v + one) g') q (Some d') k.
Proof. exact @removed_is_lowr_transform_gen. Qed.

(* full_range_ok q holds for every q in a carrier whose leb / ltb form a total order
   (reflexive, transitive, ltb implies leb, not ltb implies the converse leb): true at R, all false with NaN *)
Theorem C08g_full_range_ok_of_order : forall (A : Type) (H : Num A),
  (forall a : A, leb a a = true) ->
  (forall a b c : A, leb a b = true -> leb b c = true -> leb a c = true) ->
  (forall a b : A, ltb a b = true -> leb a b = true) ->
  (forall a b : A, ltb a b = false -> leb b a = true) ->
  forall q : list A, full_range_ok q.
Proof. exact @full_range_ok_of_order. Qed.

(* 5. real-space data beyond the cutoff have no influence on any of the 9 outputs: core ... *)
Theorem C08g_beyond_cutoff_irrelevant :
  forall (A : Type) (H : Num A) (r g1 g2 q fq : list A) (cutoff : A) d1 d2 dfq (k : kw A),
  apply_cropping r g1 zero cutoff d1 = apply_cropping r g2 zero cutoff d2 ->
  g_using_F r g1 q fq cutoff d1 dfq k = g_using_F r g2 q fq cutoff d2 dfq k.
Proof. exact @beyond_cutoff_irrelevant_gen. Qed.

(* ... and all 12 variants, hypothesis on the converted real-space inputs *)
Theorem C08g_beyond_cutoff_irrelevant_variants :
  forall (A : Type) (H : Num A) (G : gfun) (Q : rfun) (r g1 g2 q y : list A) (cutoff : A) d1 d2 dy (k : kw A),
  apply_cropping r (fst (gconv G gg r g1 d1 k)) zero cutoff (Some (snd (gconv G gg r g1 d1 k)))
  = apply_cropping r (fst (gconv G gg r g2 d2 k)) zero cutoff (Some (snd (gconv G gg r g2 d2 k))) ->
  filter_variant G Q r g1 q y cutoff d1 dy k = filter_variant G Q r g2 q y cutoff d2 dy k.
Proof. exact @beyond_cutoff_irrelevant_variants_gen. Qed.

(* 7. the returned real-space function is the transform of the corrected function with its
      quadrature uncertainty (core; no side condition) *)
Theorem C08g_returned_is_transform_of_corrected :
  forall (A : Type) (H : Num A) (r gr q fq : list A) (cutoff : A) dgr dfq (k : kw A),
  let o := g_using_F r gr q fq cutoff dgr dfq k in
  (r_o o, g_o o, dg_o o) = F_to_g (q_c o) (y_c o) r (Some (dy_c o)) k.
Proof. exact @returned_is_transform_of_corrected_gen. Qed.

(* the corrected function is (cropped input) - (removed), uncertainties sqrt(a*a + b*b), as written *)
Theorem C08g_corrected_is_difference :
  forall (A : Type) (H : Num A) (r gr q fq : list A) (cutoff : A) dgr dfq (k : kw A),
  let o := g_using_F r gr q fq cutoff dgr dfq k in
  let c2 := apply_cropping q fq (vmin q) (vmax q) dfq in
  q_c o = fst (fst c2) /\
  y_c o = map2 sub (snd (fst c2)) (y_ft o) /\
  dy_c o = map2 (fun a b => sqrt (a * a + b * b)) (snd c2) (dy_ft o).
Proof. exact @corrected_is_difference_gen. Qed.

(* C09: all 12 variants  <G>_using_<Q>  are: convert in, run g_using_F, convert the 9 outputs back *)
Theorem C08g_variant_normal_form :
  forall (A : Type) (H : Num A) (G : gfun) (Q : rfun) (r gr q y : list A) (cutoff : A) dgr dy (k : kw A),
  filter_variant G Q r gr q y cutoff dgr dy k =
  convert_out_g G Q k (core_of_g G Q r gr q y cutoff dgr dy k).
Proof. exact @variant_normal_form_gen. Qed.

(* ---- at the executed carrier ---- *)
Theorem C08g_variant_normal_form_binary64 :
  forall (G : gfun) (Q : rfun) (r gr q y : list float) (cutoff : float) dgr dy (k : kw float),
  filter_variant G Q r gr q y cutoff dgr dy k =
  convert_out_g G Q k (core_of_g G Q r gr q y cutoff dgr dy k).
Proof. exact variant_normal_form_float. Qed.

Theorem C08g_beyond_cutoff_irrelevant_binary64 :
  forall (r g1 g2 q fq : list float) (cutoff : float) d1 d2 dfq (k : kw float),
  apply_cropping r g1 0%float cutoff d1 = apply_cropping r g2 0%float cutoff d2 ->
  g_using_F r g1 q fq cutoff d1 dfq k = g_using_F r g2 q fq cutoff d2 dfq k.
Proof. exact beyond_cutoff_irrelevant_float. Qed.

Print Assumptions C08g_removed_is_cropped_lowr_transform.
Print Assumptions C08g_removed_is_lowr_transform.
Print Assumptions C08g_full_range_ok_of_order.
Print Assumptions C08g_beyond_cutoff_irrelevant.
Print Assumptions C08g_beyond_cutoff_irrelevant_variants.
Print Assumptions C08g_returned_is_transform_of_corrected.
Print Assumptions C08g_corrected_is_difference.
Print Assumptions C08g_variant_normal_form.
Print Assumptions C08g_variant_normal_form_binary64.
Print Assumptions C08g_beyond_cutoff_irrelevant_binary64.
