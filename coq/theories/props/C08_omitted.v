(* C08 (the omitted-range option inside the filter) -- "the removed component is the transform of the
   real-space signal on [0, cutoff]": with OmittedXrangeCorrection the r -> Q transform of that signal
   carries, on top of the quadrature, the closed-form term TransformerM.low_x_term built from the first
   kept r point, the last kept r point (Lorch width) and the first value of the transformed
   G(r) = 4 pi rho r (g - 1) -- without the 2/pi that F_to_G applies.  C15_term_is_integral_plain /
   _lorch identify that term with the integral of the linear-to-zero model over (0, r_first), damped like
   the data when Lorch is on; the oracle of C08 compares the implementation with that integral
   (Gauss-Legendre) through pi/2 * (the C15 reference). *)
From PyStoG Require Import Num NumR ConverterM TransformerM FilterM.
From PyStoG.proofs Require Import LowQP FilterOmittedP.
From Coq Require Import List Reals.
Import ListNotations.
Open Scope R_scope.

(* r -> Q: corrected F(Q) = uncorrected F(Q) + term(Q), term from r_min, r_max and the first G value *)
Theorem C08o_omitted_term_in_G_to_F : forall (r g q : list R) (dg : option (list R)) (k : kw R),
  length g = length r -> omitted k = true ->
  tvalues (G_to_F r g q dg k) =
  map2 (fun v q' => v + low_x_term (lorch k) (vmin r) (vmax r) (hd 0 g) q')
       (tvalues (G_to_F r g q dg (without_omitted k))) q.
Proof. exact low_x_added_term_G_to_F. Qed.

(* the same through g_to_F, which is what the filter calls *)
Theorem C08o_omitted_term_in_g_to_F : forall (r g q : list R) (dg : option (list R)) (k : kw R),
  length g = length r -> omitted k = true ->
  tvalues (g_to_F r g q dg k) =
  map2 (fun v q' => v + low_x_term (lorch k) (vmin r) (vmax r) (hd 0 (fst (g_to_G r g dg k))) q')
       (tvalues (g_to_F r g q dg (without_omitted k))) q.
Proof. exact low_x_added_term_g_to_F. Qed.

Theorem C08o_first_transformed_value : forall (r0 g0 : R) (r g : list R) (dg : option (list R)) (k : kw R),
  hd 0 (fst (g_to_G (r0 :: r) (g0 :: g) dg k)) = 4 * PI * r0 * rho k * (g0 - 1).
Proof. exact g_to_G_head. Qed.

(* the removed component of the filter: with the option on it is the one with the option off plus that term,
   built from the points kept by the [0, cutoff] window *)
Theorem C08o_removed_omitted_term : forall (r gr q fq : list R) cutoff dgr dfq (k : kw R),
  let '(r', g', d') := apply_cropping r gr 0 cutoff dgr in
  length g' = length r' -> omitted k = true ->
  y_ft (g_using_F r gr q fq cutoff dgr dfq k) =
  map2 (fun v q' => v + low_x_term (lorch k) (vmin r') (vmax r')
                          (hd 0 (fst (g_to_G r' (map (fun v => v + 1) g') (Some d') k))) q')
       (y_ft (g_using_F r gr q fq cutoff dgr dfq (without_omitted k))) q.
Proof. exact removed_omitted_term. Qed.

Print Assumptions C08o_omitted_term_in_G_to_F.
Print Assumptions C08o_omitted_term_in_g_to_F.
Print Assumptions C08o_first_transformed_value.
Print Assumptions C08o_removed_omitted_term.
