(* C08 -- the Fourier filter: what is removed is the sine transform of the real-space
   signal on [0, cutoff]; removed + corrected = input; uncertainties add in quadrature;
   the returned real-space function is the transform of the corrected one. *)
From Coq Require Import List Reals.
From PyStoG Require Import Num NumR ConverterM TransformerM FilterM.
From PyStoG.proofs Require Import ConverterP FilterP FilterC08P.
Import ListNotations.
Open Scope R_scope.

(* Vocabulary (defined in proofs/FilterC08P.v):
     addc k Q            the additive constant of a reciprocal-space function:
                         1 for S(Q), 0 for Q[S(Q)-1] and F_K(Q), <b_tot^2> (btot k) for DCS(Q)
     agree_below r c a b the arrays a and b agree at every index i with 0 <= r_i <= c
   G : gfun ranges over g(r), G(r), G_K(r);  Q : rfun over S, F = Q[S-1], F_K, DCS;
   filter_variant G Q is the method  <G>_using_<Q>  of FourierFilter. *)

(* 1. the core g_using_F: removed + corrected = input, on the input grid *)
Theorem C08_split_core : forall (r gr q fq : list R) cutoff dgr dfq (k : kw R),
  length fq = length q -> dok dfq (length q) ->
  let o := g_using_F r gr q fq cutoff dgr dfq k in
  map2 Rplus (y_ft o) (y_c o) = fq /\ q_ft o = q /\ q_c o = q.
Proof. exact split_core. Qed.

(* 2. all 12 variants: the split is additive in the function's own additive sense
      (S-1, Q[S-1], F_K, DCS - <b_tot^2>) *)
Theorem C08_split_variants : forall (G : gfun) (Q : rfun) (r gr q y : list R) cutoff dgr dy (k : kw R),
  allpos q -> bcoh k <> 0 -> length y = length q -> dok dy (length q) ->
  let o := filter_variant G Q r gr q y cutoff dgr dy k in
  map2 (fun a b => (a - addc k Q) + (b - addc k Q)) (y_ft o) (y_c o) = map (fun v => v - addc k Q) y.
Proof. exact split_variants. Qed.

(* 3. the uncertainty of the corrected function: input and removed part in quadrature *)
Theorem C08_unc_quadrature_core : forall (r gr q fq : list R) cutoff dgr dfq (k : kw R),
  length fq = length q -> dok dfq (length q) ->
  let o := g_using_F r gr q fq cutoff dgr dfq k in
  dy_c o = map2 (fun a b => R_sqrt.sqrt (a * a + b * b)) (dflt_zeros fq dfq) (dy_ft o).
Proof. exact unc_quadrature_core. Qed.

(* ... and the same relation in every variant's own representation *)
Theorem C08_unc_quadrature_variants : forall (G : gfun) (Q : rfun) (r gr q y d : list R) cutoff dgr (k : kw R),
  allpos q -> 0 < bcoh k -> length y = length q -> length d = length q ->
  let o := filter_variant G Q r gr q y cutoff dgr (Some d) k in
  dy_c o = map2 (fun a b => R_sqrt.sqrt (a * a + b * b)) d (dy_ft o).
Proof. exact unc_quadrature_variants. Qed.

(* 4. the removed component is the r -> Q transform of the data on [0, cutoff] alone.
      NOTE what the code really transforms: g_to_F of (g' + 1), and g_to_F subtracts the 1
      again, i.e. the sine transform of G = 4 pi rho r g'(r): the real-space input is used as
      a deviation from 1.  No side condition. *)
Theorem C08_removed_is_lowr_transform : forall (r gr q fq : list R) cutoff dgr dfq (k : kw R),
  let '(r', g', d') := apply_cropping r gr 0 cutoff dgr in
  let o := g_using_F r gr q fq cutoff dgr dfq k in
  (q_ft o, y_ft o, dy_ft o) = g_to_F r' (map (fun v => v + 1) g') q (Some d') k.
Proof. exact removed_is_lowr_transform. Qed.

(* 5. real-space data beyond the cutoff have no influence on any of the 9 outputs *)
Theorem C08_beyond_cutoff_irrelevant : forall (r g1 g2 q fq : list R) cutoff d1 d2 dfq (k : kw R),
  apply_cropping r g1 0 cutoff d1 = apply_cropping r g2 0 cutoff d2 ->
  g_using_F r g1 q fq cutoff d1 dfq k = g_using_F r g2 q fq cutoff d2 dfq k.
Proof. exact beyond_cutoff_irrelevant. Qed.

(* all 12 variants, hypothesis on the converted real-space inputs *)
Theorem C08_beyond_cutoff_irrelevant_variants :
  forall (G : gfun) (Q : rfun) (r g1 g2 q y : list R) cutoff d1 d2 dy (k : kw R),
  apply_cropping r (fst (gconv G gg r g1 d1 k)) 0 cutoff (Some (snd (gconv G gg r g1 d1 k)))
  = apply_cropping r (fst (gconv G gg r g2 d2 k)) 0 cutoff (Some (snd (gconv G gg r g2 d2 k))) ->
  filter_variant G Q r g1 q y cutoff d1 dy k = filter_variant G Q r g2 q y cutoff d2 dy k.
Proof. exact beyond_cutoff_irrelevant_variants. Qed.

(* all 12 variants, hypothesis on the raw inputs (values and uncertainties agree wherever 0 <= r <= cutoff) *)
Theorem C08_beyond_cutoff_irrelevant_raw :
  forall (G : gfun) (Q : rfun) (r g1 g2 q y : list R) cutoff d1 d2 dy (k : kw R),
  length g1 = length r -> length g2 = length r -> dok d1 (length r) -> dok d2 (length r) ->
  agree_below r cutoff g1 g2 -> agree_below r cutoff (dflt_zeros g1 d1) (dflt_zeros g2 d2) ->
  filter_variant G Q r g1 q y cutoff d1 dy k = filter_variant G Q r g2 q y cutoff d2 dy k.
Proof. exact beyond_cutoff_irrelevant_raw. Qed.

(* the real-space wrapper G_using_F / GK_using_F, raw inputs *)
Theorem C08_beyond_cutoff_irrelevant_wrap_real :
  forall (X : gfun) (r g1 g2 q fq : list R) cutoff d1 d2 dfq (k : kw R),
  length g1 = length r -> length g2 = length r -> dok d1 (length r) -> dok d2 (length r) ->
  agree_below r cutoff g1 g2 -> agree_below r cutoff (dflt_zeros g1 d1) (dflt_zeros g2 d2) ->
  wrap_real X r g1 q fq cutoff d1 dfq k = wrap_real X r g2 q fq cutoff d2 dfq k.
Proof. exact beyond_cutoff_irrelevant_wrap_real. Qed.

(* 6. without the low-Q correction (omitted = false), Lorch on or off: if the real-space
      input vanishes on [0, cutoff] nothing is removed *)
Theorem C08_zero_lowr_untouched : forall (r gr q fq : list R) cutoff dgr dfq (k : kw R),
  omitted k = false -> length fq = length q -> dok dfq (length q) ->
  Forall (fun v => v = 0) (snd (fst (apply_cropping r gr 0 cutoff dgr))) ->
  let o := g_using_F r gr q fq cutoff dgr dfq k in
  y_ft o = map (fun _ => 0) q /\ y_c o = fq.
Proof. exact zero_lowr_untouched. Qed.

(* 7. the returned real-space function is the transform of the corrected function
      (with its quadrature uncertainty); no side condition for the core *)
Theorem C08_returned_is_transform_of_corrected : forall (r gr q fq : list R) cutoff dgr dfq (k : kw R),
  let o := g_using_F r gr q fq cutoff dgr dfq k in
  (r_o o, g_o o, dg_o o) = F_to_g (q_c o) (y_c o) r (Some (dy_c o)) k.
Proof. exact returned_is_transform_of_corrected. Qed.

Theorem C08_returned_is_transform_of_corrected_S : forall (r gr q y : list R) cutoff dgr dy (k : kw R),
  allpos q -> length y = length q -> dok dy (length q) ->
  let o := g_using_S r gr q y cutoff dgr dy k in
  (r_o o, g_o o, dg_o o) = S_to_g (q_c o) (y_c o) r (Some (dy_c o)) k.
Proof. exact returned_is_transform_of_corrected_S. Qed.

(* all 12 variants: q2r Q G is the named transform <Q>_to_<G> *)
Theorem C08_returned_is_transform_of_corrected_all :
  forall (G : gfun) (Q : rfun) (r gr q y : list R) cutoff dgr dy (k : kw R),
  allpos q -> allpos r -> 0 < rho k -> 0 < bcoh k -> length y = length q -> dok dy (length q) ->
  let o := filter_variant G Q r gr q y cutoff dgr dy k in
  (r_o o, g_o o, dg_o o) = q2r Q G (q_c o) (y_c o) r (Some (dy_c o)) k.
Proof. exact returned_is_transform_of_corrected_all. Qed.

Print Assumptions C08_split_core.
Print Assumptions C08_split_variants.
Print Assumptions C08_unc_quadrature_core.
Print Assumptions C08_unc_quadrature_variants.
Print Assumptions C08_removed_is_lowr_transform.
Print Assumptions C08_beyond_cutoff_irrelevant.
Print Assumptions C08_beyond_cutoff_irrelevant_variants.
Print Assumptions C08_beyond_cutoff_irrelevant_raw.
Print Assumptions C08_beyond_cutoff_irrelevant_wrap_real.
Print Assumptions C08_zero_lowr_untouched.
Print Assumptions C08_returned_is_transform_of_corrected.
Print Assumptions C08_returned_is_transform_of_corrected_S.
Print Assumptions C08_returned_is_transform_of_corrected_all.
