(* C15 -- the omitted low-Q range correction adds (2/pi) Int_0^Qmin Q[S(Q)-1] sin(Qr) dQ for the
   linear model S(Q) = S(Qmin) Q/Qmin (Lorch-damped when Lorch is on); it is zero for Qmin = 0,
   vanishes at r = 0 and depends on the data only through Qmin, S(Qmin) (and Qmax). *)
From PyStoG Require Import Num NumR ConverterM TransformerM.
From PyStoG.proofs Require Import LowQP.
(* imported after the model so that sin, PI ... are the real-analysis ones *)
From Coq Require Import List Reals.
From Coquelicot Require Import Coquelicot.
Open Scope R_scope.

(* low_x_term lorch xmin xmax yin0 r : yin0 = Qmin [S(Qmin) - 1], so S(Qmin) = yin0/xmin + 1 *)

(* no window: the term is Int_0^Qmin Q [S0 Q/Qmin - 1] sin(Q r) dQ  (any r, r = 0 included) *)
Theorem C15_term_is_integral_plain : forall xmin xmax yin0 r : R, 0 < xmin ->
  is_RInt (fun Q => Q * ((yin0 / xmin + 1) * Q / xmin - 1) * sin (Q * r)) 0 xmin
          (low_x_term false xmin xmax yin0 r).
Proof. exact low_x_term_plain_is_integral. Qed.

(* Lorch window sin(aQ)/(aQ), a = pi/Qmax; the closed form needs r <> +-a *)
Theorem C15_term_is_integral_lorch : forall xmin xmax yin0 r : R,
  0 < xmin -> 0 < xmax -> r <> PI / xmax -> r <> - (PI / xmax) ->
  is_RInt (fun Q => Q * ((yin0 / xmin + 1) * Q / xmin - 1)
                    * (sin (PI / xmax * Q) / (PI / xmax * Q)) * sin (Q * r))
          0 xmin (low_x_term true xmin xmax yin0 r).
Proof. exact low_x_term_lorch_is_integral. Qed.

(* the same, with the window written as the model's own lorch_weight *)
Theorem C15_term_is_integral_lorch_window : forall xmin xmax yin0 r : R,
  0 < xmin -> 0 < xmax -> r <> PI / xmax -> r <> - (PI / xmax) ->
  is_RInt (fun Q => Q * ((yin0 / xmin + 1) * Q / xmin - 1) * lorch_weight (PI / xmax) Q * sin (Q * r))
          0 xmin (low_x_term true xmin xmax yin0 r).
Proof. exact low_x_term_lorch_is_integral_window. Qed.

(* corrected G(r) = uncorrected G(r) + (2/pi) * term(r), term built from Qmin, Qmax, F(Qmin) *)
Theorem C15_added_term_in_F_to_G : forall (q f r : list R) (df : option (list R)) (k : kw R),
  length f = length q -> omitted k = true ->
  tvalues (F_to_G q f r df k) =
  map2 (fun v r' => v + low_x_term (lorch k) (vmin q) (vmax q) (hd 0 f) r' * (2 / PI))
       (tvalues (F_to_G q f r df (without_omitted k))) r.
Proof. exact low_x_added_term_F_to_G. Qed.

(* nothing is added when the data start at Qmin = 0 *)
Theorem C15_zero_when_Qmin_0 : forall (l : bool) (xmax yin0 r : R), low_x_term l 0 xmax yin0 r = 0.
Proof. exact low_x_term_zero_qmin0. Qed.

(* the added term vanishes at r = 0 *)
Theorem C15_zero_at_r0_plain : forall xmin xmax yin0 : R, low_x_term false xmin xmax yin0 0 = 0.
Proof. exact low_x_term_zero_r0. Qed.

Theorem C15_zero_at_r0_lorch : forall xmin xmax yin0 : R, low_x_term true xmin xmax yin0 0 = 0.
Proof. exact low_x_term_zero_r0_lorch. Qed.

(* the correction sees the input only through Qmin = min q, Qmax = max q and the first data value *)
Theorem C15_depends_only_on_Qmin_S0_Qmax : forall (l : bool) (q q' f f' r y : list R),
  vmin q = vmin q' -> vmax q = vmax q' -> hd 0 f = hd 0 f' ->
  low_x_correction l q f r y = low_x_correction l q' f' r y.
Proof. exact low_x_depends_only_on. Qed.

Print Assumptions C15_term_is_integral_plain.
Print Assumptions C15_term_is_integral_lorch.
Print Assumptions C15_term_is_integral_lorch_window.
Print Assumptions C15_added_term_in_F_to_G.
Print Assumptions C15_zero_when_Qmin_0.
Print Assumptions C15_zero_at_r0_plain.
Print Assumptions C15_zero_at_r0_lorch.
Print Assumptions C15_depends_only_on_Qmin_S0_Qmax.
