(* C11 -- dataset ingestion (StoG.add_dataset): a dataset is stored as its points inside the
   per-dataset [Qmin, Qmax], y scaled then offset, uncertainty scaled only, Q shifted and kept on
   the 0.01 grid, then restricted to the global Qmin/Qmax window; the stored S(Q) row is the
   conversion of that row; nothing outside the global window is stored, nothing inside both
   windows is lost, both storage arrays stay aligned -- for any history of earlier datasets.

   Vocabulary (defined in proofs/IngestP.v):
     rows_of (x, y, e) = combine x (combine y e)      rows are nested triples (q, (y, e))
     qcol a            = the first (Q) column of a
     aligned (x, y, e) = length y = length x /\ length e = length x
     d_err d           = the given uncertainties, or zeros_like (d_y d)
     d_lo d / d_hi d   = the dataset's Qmin / Qmax, else min / max of the rounded Q column
     in_dataset_window d t = Rleb (d_lo d) (fst t) && Rleb (fst t) (d_hi d)
     adjust_row d (q, (y, e)) = if 'Y' or 'X' is given
                                then (around2 (q + xoffset), (y * yscale + yoffset, e * yscale))
                                else (q, (y, e))          (yscale, yoffset, xoffset default 1, 0, 0)
     in_global_window c t  = (Qmin absent or Rleb Qmin (fst t)) && (Qmax absent or Rleb (fst t) Qmax)
     on_grid q         = exists n : Z, q = IZR n / 100 *)
From Coq Require Import List Reals Bool ZArith.
From PyStoG Require Import Num NumR ConverterM TransformerM FilterM StogM.
From PyStoG.proofs Require Import ConverterP CropP IngestP.
Import ListNotations.
Open Scope R_scope.

(* what is stored for one dataset: crop to the dataset window (on the rounded Q), scale then
   offset y, scale dy, shift Q and re-round, restrict to the global window; row order preserved.
   Holds for every dataset (no length hypothesis is needed for the row view). *)
Theorem C11_ingest_rows_spec : forall (c : @config R) (d : @dinfo R),
  rows_of (ingest_rows c d) =
  filter (in_global_window c)
    (map (adjust_row d)
       (filter (in_dataset_window d) (rows_of (map around2 (d_x d), d_y d, d_err d)))).
Proof. exact ingest_rows_spec. Qed.

(* add_dataset appends exactly those rows (and their S(Q) conversion) to the two storage arrays,
   whatever the state; the nine master curves are untouched *)
Theorem C11_add_dataset_appends : forall (c : @config R) (s : @state R) (d : @dinfo R),
  s_recip (add_dataset c s d) = cat3 (s_recip s) (ingest_rows c d) /\
  s_sq (add_dataset c s d) = cat3 (s_sq s) (to_sq c d (ingest_rows c d)) /\
  t_sq (add_dataset c s d) = t_sq s /\ t_qsq (add_dataset c s d) = t_qsq s /\
  t_ft (add_dataset c s d) = t_ft s /\ t_sqft (add_dataset c s d) = t_sqft s /\
  t_fq (add_dataset c s d) = t_fq s /\ t_gr (add_dataset c s d) = t_gr s /\
  t_grft (add_dataset c s d) = t_grft s /\ t_grl (add_dataset c s d) = t_grl s /\
  t_gk (add_dataset c s d) = t_gk s.
Proof. exact add_dataset_appends. Qed.

(* any number and order of datasets: the arrays are the log of the independently ingested rows *)
Theorem C11_history_independent : forall (c : @config R) (ds : list (@dinfo R)) (s0 : @state R),
  s_recip (fold_left (add_dataset c) ds s0) =
    fold_left cat3 (map (ingest_rows c) ds) (s_recip s0) /\
  s_sq (fold_left (add_dataset c) ds s0) =
    fold_left cat3 (map (fun d => to_sq c d (ingest_rows c d)) ds) (s_sq s0).
Proof. exact ingest_history_independent. Qed.

(* ... and the master curves survive any number of add_dataset calls *)
Theorem C11_masters_untouched : forall (c : @config R) (ds : list (@dinfo R)) (s0 : @state R),
  masters (fold_left (add_dataset c) ds s0) = masters s0.
Proof. exact ingest_keeps_masters. Qed.

(* the S(Q) array row is the converter applied to the stored row with the instance's scattering
   lengths; its Q column is the Q column of the reciprocal array *)
Theorem C11_sq_row_is_conversion : forall (c : @config R) (d : @dinfo R) (x y e : list R),
  to_sq c d (x, y, e) =
    (x, fst (rconv (d_kind d) rS x y (Some e) (conv_kw c)),
        snd (rconv (d_kind d) rS x y (Some e) (conv_kw c))) /\
  qcol (to_sq c d (x, y, e)) = x.
Proof. exact sq_row_is_conversion. Qed.

(* row by row (all rows, also Q <= 0): the converter's scalar content rval / rerr *)
Theorem C11_sq_rows_pointwise : forall (c : @config R) (d : @dinfo R) (a : @arr3 R),
  aligned a ->
  rows_of (to_sq c d a) =
  map (fun t : row => let '(q, (y, e)) := t in
         (q, (rval (conv_kw c) (d_kind d) rS q y, rerr (conv_kw c) (d_kind d) rS q e)))
      (rows_of a).
Proof. exact sq_rows_pointwise. Qed.

(* for a stored row with Q > 0 and <b_coh>^2 <> 0: the stored S is the defining formula of
   kind -> S(Q), the stored uncertainty is the slope of that map times the row's uncertainty
   (dtoS: 1, 1/Q, 1/<b_coh>^2, 1/<b_coh>^2 for S(Q), Q[S(Q)-1], FK(Q), DCS(Q)) *)
Theorem C11_sq_row_formula : forall (c : @config R) (d : @dinfo R) (i : nat),
  length (d_y d) = length (d_x d) /\ (forall e, d_dy d = Some e -> length e = length (d_x d)) ->
  c_bcoh c <> 0 ->
  (i < length (rows_of (ingest_rows c d)))%nat ->
  let '(q, (y, e)) := nth i (rows_of (ingest_rows c d)) (0, (0, 0)) in
  0 < q ->
  nth i (rows_of (to_sq c d (ingest_rows c d))) (0, (0, 0)) =
  (q, (rspec (conv_kw c) (d_kind d) rS q y, dtoS (conv_kw c) (d_kind d) q * e)).
Proof. exact sq_row_formula. Qed.

(* no stored point lies outside the global window *)
Theorem C11_nothing_outside_global_window : forall (c : @config R) (d : @dinfo R),
  Forall (fun q => (forall lo, c_qmin c = Some lo -> lo <= q) /\
                   (forall hi, c_qmax c = Some hi -> q <= hi))
         (qcol (ingest_rows c d)).
Proof. exact no_point_outside_global_window. Qed.

(* every stored Q is on the 0.01 grid, shifted or not *)
Theorem C11_stored_q_on_grid : forall (c : @config R) (d : @dinfo R),
  Forall on_grid (qcol (ingest_rows c d)).
Proof. exact stored_q_on_grid. Qed.

(* a point whose rounded Q is inside the dataset window and whose shifted Q is inside the global
   window is stored, with its own scaled/offset y and scaled dy *)
Theorem C11_nothing_inside_both_windows_lost : forall (c : @config R) (d : @dinfo R) (i : nat),
  length (d_y d) = length (d_x d) /\ (forall e, d_dy d = Some e -> length e = length (d_x d)) ->
  (i < length (d_x d))%nat ->
  let q := around2 (nth i (d_x d) 0) in
  let t := adjust_row d (q, (nth i (d_y d) 0, nth i (d_err d) 0)) in
  d_lo d <= q <= d_hi d ->
  (forall lo, c_qmin c = Some lo -> lo <= fst t) ->
  (forall hi, c_qmax c = Some hi -> fst t <= hi) ->
  In t (rows_of (ingest_rows c d)).
Proof. exact no_point_inside_both_lost. Qed.

(* after any sequence of well-formed datasets from the initial state: both arrays have three
   columns of one length and the same Q column (row i of one corresponds to row i of the other) *)
Theorem C11_arrays_aligned : forall (c : @config R) (ds : list (@dinfo R)),
  Forall (fun d => length (d_y d) = length (d_x d) /\
                   (forall e, d_dy d = Some e -> length e = length (d_x d))) ds ->
  let st := fold_left (add_dataset c) ds init_state in
  aligned (s_recip st) /\ aligned (s_sq st) /\ qcol (s_recip st) = qcol (s_sq st).
Proof. exact arrays_aligned. Qed.

Print Assumptions C11_ingest_rows_spec.
Print Assumptions C11_add_dataset_appends.
Print Assumptions C11_history_independent.
Print Assumptions C11_masters_untouched.
Print Assumptions C11_sq_row_is_conversion.
Print Assumptions C11_sq_rows_pointwise.
Print Assumptions C11_sq_row_formula.
Print Assumptions C11_nothing_outside_global_window.
Print Assumptions C11_stored_q_on_grid.
Print Assumptions C11_nothing_inside_both_windows_lost.
Print Assumptions C11_arrays_aligned.
