(* C12 -- the StoG workflow steps (transform_merged, fourier_filter, apply_lorch, _add_keen_fq,
   _add_keen_gr) are exactly the library primitives applied to the merged S(Q), they never
   modify the merged curves, and what they store and return does not depend on the order or
   repetition of the steps. *)
From Coq Require Import List Reals.
From PyStoG Require Import Num NumR ConverterM TransformerM FilterM StogM.
From PyStoG.proofs Require Import ConverterP NamedP WorkflowP.
Import ListNotations.
Open Scope R_scope.

(* Notation used below (model: StogM.v; the rest are small definitions in WorkflowP.v):
   tr_grid / tr_val      first / second component of the (grid, values, uncertainties) triple of a transform
   T c s                 (r, g) of  q2r rS (c_fn c) q sq (c_dr c) None (transform_kw c),  (q, sq) the merged S(Q) of s
                         = what S_to_<fn>(q, sq, dr, lorch=False, rho, <b_coh>^2) returns
   filter_call c s (r,g) filter_variant (c_fn c) rS r g q sq (c_cutoff c) None None (filter_kw c),  (q, sq) the merged S(Q) of s
   with_filter s o       s with  "FT term" := (around2 (q_ft o), y_ft o), "S(Q) FT" := (around2 (q_c o), y_c o),
                         "<fn> FT" := (r_o o, g_o o);  every other field as in s
   filter_ret o          the returned record  {q := around2 (q_c o); sq := y_c o; r := r_o o; gr := g_o o}
   set_gr / with_grl / with_fq / with_gk s v    s with the one slot t_gr / t_grl / t_fq / t_gk set to v
   run c s ops           the steps ops applied to s from left to right *)

(* transform_merged returns S_to_<fn> of the merged S(Q) on the configured r grid and stores it under t_gr only *)
Theorem C12_transform_is_library_call : forall (c : @config R) (s : @state R) (q sq : list R),
  curve_or_empty (t_sq s) = (q, sq) ->
  let lib := q2r rS (c_fn c) q sq (c_dr c) None (transform_kw c) in
  T c s = (tr_grid lib, tr_val lib) /\
  transform_merged c s = (set_gr s (Some (T c s)), T c s).
Proof. exact transform_is_library_call_explicit. Qed.

(* ... where q2r rS <fn> is, by definition, the named library method *)
Theorem C12_transform_table :
  @q2r R NumR rS gg = S_to_g /\ @q2r R NumR rS gG = S_to_G /\ @q2r R NumR rS gGK = S_to_GK.
Proof. exact q2r_table. Qed.

(* with a stored transform (r, gr), fourier_filter stores and returns the fields of <fn>_using_S(r, gr, q, sq, cutoff, ...) *)
Theorem C12_filter_is_library_call : forall (c : @config R) (s : @state R) (r gr q sq : list R),
  t_gr s = Some (r, gr) -> curve_or_empty (t_sq s) = (q, sq) ->
  let o := filter_variant (c_fn c) rS r gr q sq (c_cutoff c) None None (filter_kw c) in
  fourier_filter c s = (with_filter s o, filter_ret o).
Proof. exact filter_is_library_call_explicit. Qed.

Theorem C12_filter_table :
  @filter_variant R NumR gg rS = g_using_S /\ @filter_variant R NumR gG rS = G_using_S /\
  @filter_variant R NumR gGK rS = GK_using_S.
Proof. exact filter_variant_table. Qed.

(* without a stored transform the filter transforms first: filter = transform then filter *)
Theorem C12_filter_autotransforms : forall (c : @config R) (s : @state R),
  t_gr s = None ->
  fourier_filter c s = fourier_filter c (fst (transform_merged c s)) /\
  t_gr (fst (fourier_filter c s)) = Some (T c s).
Proof. exact filter_autotransforms. Qed.

(* no sequence of steps modifies the merged curves; the stored transform is the initial one or T c s0,
   and if it was absent or T c s0 initially it is absent or T c s0 ever after *)
Theorem C12_merged_curves_never_modified : forall (c : @config R) (s0 : @state R) (ops : list (@op R)),
  (t_gr s0 = None \/ t_gr s0 = Some (T c s0)) ->
  (t_sq (run c s0 ops) = t_sq s0 /\ t_qsq (run c s0 ops) = t_qsq s0 /\
   (t_gr (run c s0 ops) = t_gr s0 \/ t_gr (run c s0 ops) = Some (T c s0))) /\
  (t_gr (run c s0 ops) = None \/ t_gr (run c s0 ops) = Some (T c s0)).
Proof. exact inv_run. Qed.

(* the first part needs no hypothesis on the initial state *)
Theorem C12_merged_curves_never_modified_any : forall (c : @config R) (s0 : @state R) (ops : list (@op R)),
  t_sq (run c s0 ops) = t_sq s0 /\ t_qsq (run c s0 ops) = t_qsq s0 /\
  (t_gr (run c s0 ops) = t_gr s0 \/ t_gr (run c s0 ops) = Some (T c s0)).
Proof. exact inv_run_any. Qed.

(* after any steps, transform_merged returns the transform of the initial merged data *)
Theorem C12_transform_history_independent : forall (c : @config R) (s0 : @state R) (ops : list (@op R)),
  snd (transform_merged c (run c s0 ops)) = T c s0.
Proof. exact transform_history_independent. Qed.

(* after any steps, fourier_filter returns and stores what it does on (merged data, its transform) *)
Theorem C12_filter_history_independent : forall (c : @config R) (s0 : @state R) (ops : list (@op R)),
  (t_gr s0 = None \/ t_gr s0 = Some (T c s0)) ->
  let res := fourier_filter c (run c s0 ops) in
  let ref := fourier_filter c (set_gr s0 (Some (T c s0))) in
  snd res = snd ref /\
  t_ft (fst res) = t_ft (fst ref) /\ t_sqft (fst res) = t_sqft (fst ref) /\ t_grft (fst res) = t_grft (fst ref) /\
  t_gr (fst res) = Some (T c s0).
Proof. exact filter_history_independent. Qed.

(* repeating any step changes nothing (no hypothesis on the state is needed) *)
Theorem C12_step_idempotent : forall (c : @config R) (s : @state R) (o : @op R),
  step c (step c s o) o = step c s o.
Proof. exact step_idempotent. Qed.

(* apply_lorch stores and returns S_to_<fn>(q, sq, r, lorch=True, ...), whatever the state holds *)
Theorem C12_lorch_is_library_call : forall (c : @config R) (s : @state R) (q sq r : list R),
  let lib := q2r rS (c_fn c) q sq r None (lorch_kw c) in
  apply_lorch c s q sq r = (with_grl s (Some (tr_grid lib, tr_val lib)), (tr_grid lib, tr_val lib)).
Proof. exact lorch_is_library_call_explicit. Qed.

(* _add_keen_fq stores S_to_FK(q, sq); for Q > 0 and <b_coh>^2 <> 0 that is <b_coh>^2 (S - 1) *)
Theorem C12_keen_fq_is_conversion : forall (c : @config R) (s : @state R) (q sq : list R),
  add_keen_fq c s q sq = with_fq s (Some (q, fst (S_to_FK q sq None (conv_kw c)))) /\
  (allpos q -> c_bcoh c <> 0 -> length sq = length q ->
   fst (S_to_FK q sq None (conv_kw c)) = map (fun SQ => c_bcoh c * (SQ - 1)) sq).
Proof. exact keen_fq_is_conversion. Qed.

(* _add_keen_gr stores the conversion <fn> -> GK; for r > 0, rho > 0, <b_coh>^2 <> 0 it is the defining
   formula gspec (C04); when <fn> already is GK it is gr itself *)
Theorem C12_keen_gr_is_conversion : forall (c : @config R) (s : @state R) (r gr : list R),
  add_keen_gr c s r gr = with_gk s (Some (r, fst (gconv (c_fn c) gGK r gr None (conv_kw c)))) /\
  (allpos r -> 0 < c_rho c -> c_bcoh c <> 0 -> length gr = length r ->
   fst (gconv (c_fn c) gGK r gr None (conv_kw c)) = map2 (gspec (conv_kw c) (c_fn c) gGK) r gr) /\
  (c_fn c = gGK -> fst (gconv (c_fn c) gGK r gr None (conv_kw c)) = gr).
Proof. exact keen_gr_is_conversion. Qed.

(* gspec _ <fn> gGK written out *)
Theorem C12_keen_gr_formulas : forall (c : @config R) (r v : R),
  gspec (conv_kw c) gg gGK r v = c_bcoh c * (v - 1) /\
  gspec (conv_kw c) gG gGK r v = c_bcoh c * (v / (4 * PI * c_rho c * r) + 1 - 1) /\
  gspec (conv_kw c) gGK gGK r v = c_bcoh c * (v / c_bcoh c + 1 - 1).
Proof. exact keen_gr_spec_table. Qed.

(* after ANY sequence of steps, each stored curve is either what it was initially or the one value
   determined by the configuration and the merged S(Q) *)
Theorem C12_stored_curves_are_functions_of_merged : forall (c : @config R) (s0 : @state R) (ops : list (@op R)),
  (t_gr s0 = None \/ t_gr s0 = Some (T c s0)) ->
  let s := run c s0 ops in
  let o := filter_call c s0 (T c s0) in
  t_sq s = t_sq s0 /\ t_qsq s = t_qsq s0 /\
  (t_gr s = t_gr s0 \/ t_gr s = Some (T c s0)) /\
  (t_ft s = t_ft s0 \/ t_ft s = Some (map around2 (q_ft o), y_ft o)) /\
  (t_sqft s = t_sqft s0 \/ t_sqft s = Some (map around2 (q_c o), y_c o)) /\
  (t_grft s = t_grft s0 \/ t_grft s = Some (r_o o, g_o o)).
Proof. exact stored_curves_are_functions_of_merged. Qed.

Print Assumptions C12_transform_is_library_call.
Print Assumptions C12_transform_table.
Print Assumptions C12_filter_is_library_call.
Print Assumptions C12_filter_table.
Print Assumptions C12_filter_autotransforms.
Print Assumptions C12_merged_curves_never_modified.
Print Assumptions C12_merged_curves_never_modified_any.
Print Assumptions C12_transform_history_independent.
Print Assumptions C12_filter_history_independent.
Print Assumptions C12_step_idempotent.
Print Assumptions C12_lorch_is_library_call.
Print Assumptions C12_keen_fq_is_conversion.
Print Assumptions C12_keen_gr_is_conversion.
Print Assumptions C12_keen_gr_formulas.
Print Assumptions C12_stored_curves_are_functions_of_merged.
