(* NumE.v -- the "defined reals" carrier: option R, where None means
   "undefined".  Every operation is the real one on defined arguments, EXCEPT
   that a division by zero and the square root of a negative number are
   undefined (the two sources of NaN / infinity in the floating-point code).
   Undefinedness propagates through the arithmetic; comparisons involving an
   undefined value are false (as for NaN).
   A run of the model at this carrier that returns only `Some` values has
   therefore never evaluated a division by zero. *)
From Coq Require Import Reals ZArith Bool List Lra.
From PyStoG Require Import Num NumR.
Import ListNotations.
Open Scope R_scope.

Definition ER := option R.

Definition Elift1 (f : R -> R) (x : ER) : ER :=
  match x with Some a => Some (f a) | None => None end.
Definition Elift2 (f : R -> R -> R) (x y : ER) : ER :=
  match x, y with Some a, Some b => Some (f a b) | _, _ => None end.
(* a division by zero is UNDEFINED *)
Definition Ediv (x y : ER) : ER :=
  match x, y with
  | Some a, Some b => if Req_EM_T b 0 then None else Some (a / b)
  | _, _ => None
  end.
(* the square root of a negative number is UNDEFINED *)
Definition Esqrt (x : ER) : ER :=
  match x with
  | Some a => if Rlt_dec a 0 then None else Some (R_sqrt.sqrt a)
  | None => None
  end.
(* comparisons: false as soon as one side is undefined (NaN semantics) *)
Definition Ecmp (c : R -> R -> bool) (x y : ER) : bool :=
  match x, y with Some a, Some b => c a b | _, _ => false end.
Definition EtoZ (f : R -> Z) (x : ER) : Z :=
  match x with Some a => f a | None => 0%Z end.

#[export] Instance NumE : Num ER := {|
  zero := Some 0; one := Some 1;
  add := Elift2 Rplus; sub := Elift2 Rminus; mul := Elift2 Rmult; div := Ediv;
  opp := Elift1 Ropp; abs := Elift1 Rabs; sqrt := Esqrt;
  sin := Elift1 Rtrigo_def.sin; cos := Elift1 Rtrigo_def.cos;
  pi := Some PI;
  ltb := Ecmp Rltb; leb := Ecmp Rleb; eqb := Ecmp Reqb;
  of_Z := fun z => Some (IZR z);
  rint := Elift1 Rrint; trunc := EtoZ Rtrunc; ceilZ := EtoZ Rceil;
  noise16 := Elift1 (fun x => x)
|}.

(* embedding of real vectors, and "every entry is defined" *)
Definition inj (l : list R) : list ER := map Some l.
Definition defined (l : list ER) : Prop := Forall (fun x => x <> None) l.

(* unfold the class projections at ER (and compute the lifted operations on
   `Some` arguments) *)
Ltac numE :=
  cbn [zero one add sub mul div opp abs sqrt sin cos pi ltb leb eqb of_Z rint trunc ceilZ noise16 NumE
       two four gtb geb neqb hundred Elift1 Elift2 Ediv Esqrt Ecmp EtoZ] in *.
