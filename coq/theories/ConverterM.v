(* ConverterM.v -- model of src/pystog/converter.py, method by method.
   A conversion takes the abscissa vector, the function vector, an optional
   uncertainty vector and the keyword record, and returns (values,
   uncertainties), as in the code.  Definitions only. *)
From Coq Require Import List ZArith Bool.
From PyStoG Require Import Num.
Import ListNotations.

Section Converter.
  Context {A : Type} `{Num A}.
  Local Open Scope num_scope.

  (* the **kwargs the library layer reads *)
  Record kw := { rho : A; bcoh : A; btot : A; lorch : bool; omitted : bool }.

  (* converter.py:34-40  zero where the denominator is not > 0 *)
  Definition safe_divide (num den : list A) : list A :=
    map2 (fun n d => if ltb zero d then n / d else zero) num den.

  Definition conv := list A -> list A -> option (list A) -> kw -> list A * list A.

  (* ---- reciprocal space ---- *)
  Definition F_to_S : conv := fun q fq dfq _ =>
    let dfq := dflt_zeros fq dfq in
    (vadd_s one (safe_divide fq q), safe_divide dfq q).

  Definition F_to_FK : conv := fun q fq dfq k =>
    let dfq := dflt_zeros fq dfq in
    (vscale (bcoh k) (safe_divide fq q), vscale (bcoh k) (safe_divide dfq q)).

  Definition FK_to_DCS : conv := fun q fq dfq k =>
    let dfq := dflt_zeros fq dfq in
    (vadd_s (btot k) fq, dfq).

  Definition F_to_DCS : conv := fun q fq dfq k =>
    let '(fk, dfk) := F_to_FK q fq dfq k in FK_to_DCS q fk (Some dfk) k.

  Definition S_to_F : conv := fun q sq dsq _ =>
    let dsq := dflt_zeros sq dsq in
    (map2 (fun q s => q * (s - one)) q sq, vmul q dsq).

  Definition S_to_FK : conv := fun q sq dsq k =>
    let '(fq, dfq) := S_to_F q sq dsq k in F_to_FK q fq (Some dfq) k.

  Definition S_to_DCS : conv := fun q sq dsq k =>
    let '(fq, dfq) := S_to_FK q sq dsq k in FK_to_DCS q fq (Some dfq) k.

  Definition FK_to_F : conv := fun q fk dfk k =>
    let dfk := dflt_zeros fk dfk in
    (map2 (fun q f => q * f / bcoh k) q fk, map2 (fun q d => q * d / bcoh k) q dfk).

  Definition FK_to_S : conv := fun q fk dfk k =>
    let '(fq, dfq) := FK_to_F q fk dfk k in F_to_S q fq (Some dfq) k.

  Definition DCS_to_FK : conv := fun q dcs ddcs k =>
    let ddcs := dflt_zeros dcs ddcs in
    (vsub_s (btot k) dcs, ddcs).

  Definition DCS_to_F : conv := fun q dcs ddcs k =>
    let '(fq, dfq) := DCS_to_FK q dcs ddcs k in FK_to_F q fq (Some dfq) k.

  Definition DCS_to_S : conv := fun q dcs ddcs k =>
    let '(fq, dfq) := DCS_to_FK q dcs ddcs k in FK_to_S q fq (Some dfq) k.

  (* ---- real space ---- *)
  Definition fourpi : A := four * pi.

  Definition G_to_GK : conv := fun r gr dgr k =>
    let factor := bcoh k / (fourpi * rho k) in
    let dgr := dflt_zeros gr dgr in
    (vscale factor (safe_divide gr r), vscale factor (safe_divide dgr r)).

  Definition G_to_g : conv := fun r gr dgr k =>
    let factor := fourpi * rho k in
    let dgr := dflt_zeros gr dgr in
    let fr := vscale factor r in
    (vadd_s one (safe_divide gr fr), safe_divide dgr fr).

  Definition GK_to_G : conv := fun r gr dgr k =>
    let factor := (fourpi * rho k) / bcoh k in
    let dgr := dflt_zeros gr dgr in
    (map2 (fun r g => factor * r * g) r gr, map2 (fun r d => factor * r * d) r dgr).

  Definition GK_to_g : conv := fun r gr dgr k =>
    let '(g1, d1) := GK_to_G r gr dgr k in G_to_g r g1 (Some d1) k.

  Definition g_to_G : conv := fun r gr dgr k =>
    let dgr := dflt_zeros gr dgr in
    (map2 (fun r g => (fourpi * r * rho k) * (g - one)) r gr,
     map2 (fun r d => (fourpi * r * rho k) * d) r dgr).

  Definition g_to_GK : conv := fun r gr dgr k =>
    let '(g1, d1) := g_to_G r gr dgr k in G_to_GK r g1 (Some d1) k.

  (* ---- the method table: every ordered pair of function kinds is mapped
     to the *named* method, so no pair can be forgotten in a theorem ---- *)
  Inductive rfun := rS | rF | rFK | rDCS.
  Inductive gfun := gg | gG | gGK.

  Definition idconv : conv := fun _ y dy _ => (y, dflt_zeros y dy).

  Definition rconv (X Y : rfun) : conv :=
    match X, Y with
    | rS, rS => idconv | rS, rF => S_to_F | rS, rFK => S_to_FK | rS, rDCS => S_to_DCS
    | rF, rS => F_to_S | rF, rF => idconv | rF, rFK => F_to_FK | rF, rDCS => F_to_DCS
    | rFK, rS => FK_to_S | rFK, rF => FK_to_F | rFK, rFK => idconv | rFK, rDCS => FK_to_DCS
    | rDCS, rS => DCS_to_S | rDCS, rF => DCS_to_F | rDCS, rFK => DCS_to_FK | rDCS, rDCS => idconv
    end.
  Definition gconv (X Y : gfun) : conv :=
    match X, Y with
    | gg, gg => idconv | gg, gG => g_to_G | gg, gGK => g_to_GK
    | gG, gg => G_to_g | gG, gG => idconv | gG, gGK => G_to_GK
    | gGK, gg => GK_to_g | gGK, gG => GK_to_G | gGK, gGK => idconv
    end.
End Converter.

Arguments kw : clear implicits.
Arguments conv : clear implicits.
