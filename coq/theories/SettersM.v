(* SettersM.v -- model of the StoG object's settings as a state machine over its
   public setters (stog.py:60-128 initial values, 180-806 properties and setters,
   261-283 append_file / extend_file_list, 285-291 __update_dr), and of
   __kwargs2attr (stog.py:130-176) as the sequence of setter calls it is.
   Definitions only.

   Observable state: the thirteen settings of ConfigM.settings, the stored r grid
   (a separate attribute with its own setter, refreshed by the Rmin / Rmax /
   Rdelta setters only), the eight curve titles (three of them re-derived by the
   real_space_function setter), the file list, the stem name, xmin / xmax.
   Titles, file names and stem names are abstract codes (nat); the harness maps
   the strings of a run to codes.  Not modelled: aliasing of the list object
   handed to the files setter (extend_file_list mutates it in place). *)
From Coq Require Import List ZArith Bool.
From PyStoG Require Import Num ConverterM StogM ConfigM.
Import ListNotations.

Section Setters.
  Context {A : Type} `{Num A}.
  Local Open Scope num_scope.

  Inductive serr := SValueError | STypeError | SAttributeError.

  Definition fn_idx (g : gfun) : nat := match g with gg => 0 | gG => 1 | gGK => 2 end.
  (* "<fn> Merged", "<fn> FT", "<fn> FT Lorched" *)
  Definition t_gr_of (g : gfun) : nat := 10 + fn_idx g.
  Definition t_grft_of (g : gfun) : nat := 20 + fn_idx g.
  Definition t_grl_of (g : gfun) : nat := 30 + fn_idx g.
  (* "S(Q) Merged", "Q[S(Q)-1] Merged", "S(Q) FT", "F(Q) Merged", "G(r) (Keen Version)" *)
  Definition fixed_titles : list nat := [1; 2; 3; 4; 5].

  Record obj := {
    o_st : @settings A;
    o_dr : list A;
    o_tgr : nat; o_tgrft : nat; o_tgrl : nat;
    o_tfix : list nat;
    o_files : option (list nat);
    o_stem : nat;
    o_xmin : A; o_xmax : A
  }.

  (* ---- field updates ---- *)
  Definition st_with_fn (s : @settings A) v := {| st_fn := v; st_rmin := st_rmin s; st_rmax := st_rmax s; st_rdelta := st_rdelta s; st_rho := st_rho s; st_bcoh := st_bcoh s; st_btot := st_btot s; st_lowq := st_lowq s; st_lorch := st_lorch s; st_cutoff := st_cutoff s; st_merge := st_merge s; st_qmin := st_qmin s; st_qmax := st_qmax s |}.
  Definition st_with_rmin (s : @settings A) v := {| st_fn := st_fn s; st_rmin := v; st_rmax := st_rmax s; st_rdelta := st_rdelta s; st_rho := st_rho s; st_bcoh := st_bcoh s; st_btot := st_btot s; st_lowq := st_lowq s; st_lorch := st_lorch s; st_cutoff := st_cutoff s; st_merge := st_merge s; st_qmin := st_qmin s; st_qmax := st_qmax s |}.
  Definition st_with_rmax (s : @settings A) v := {| st_fn := st_fn s; st_rmin := st_rmin s; st_rmax := v; st_rdelta := st_rdelta s; st_rho := st_rho s; st_bcoh := st_bcoh s; st_btot := st_btot s; st_lowq := st_lowq s; st_lorch := st_lorch s; st_cutoff := st_cutoff s; st_merge := st_merge s; st_qmin := st_qmin s; st_qmax := st_qmax s |}.
  Definition st_with_rdelta (s : @settings A) v := {| st_fn := st_fn s; st_rmin := st_rmin s; st_rmax := st_rmax s; st_rdelta := v; st_rho := st_rho s; st_bcoh := st_bcoh s; st_btot := st_btot s; st_lowq := st_lowq s; st_lorch := st_lorch s; st_cutoff := st_cutoff s; st_merge := st_merge s; st_qmin := st_qmin s; st_qmax := st_qmax s |}.
  Definition st_with_rho (s : @settings A) v := {| st_fn := st_fn s; st_rmin := st_rmin s; st_rmax := st_rmax s; st_rdelta := st_rdelta s; st_rho := v; st_bcoh := st_bcoh s; st_btot := st_btot s; st_lowq := st_lowq s; st_lorch := st_lorch s; st_cutoff := st_cutoff s; st_merge := st_merge s; st_qmin := st_qmin s; st_qmax := st_qmax s |}.
  Definition st_with_bcoh (s : @settings A) v := {| st_fn := st_fn s; st_rmin := st_rmin s; st_rmax := st_rmax s; st_rdelta := st_rdelta s; st_rho := st_rho s; st_bcoh := v; st_btot := st_btot s; st_lowq := st_lowq s; st_lorch := st_lorch s; st_cutoff := st_cutoff s; st_merge := st_merge s; st_qmin := st_qmin s; st_qmax := st_qmax s |}.
  Definition st_with_btot (s : @settings A) v := {| st_fn := st_fn s; st_rmin := st_rmin s; st_rmax := st_rmax s; st_rdelta := st_rdelta s; st_rho := st_rho s; st_bcoh := st_bcoh s; st_btot := v; st_lowq := st_lowq s; st_lorch := st_lorch s; st_cutoff := st_cutoff s; st_merge := st_merge s; st_qmin := st_qmin s; st_qmax := st_qmax s |}.
  Definition st_with_lowq (s : @settings A) v := {| st_fn := st_fn s; st_rmin := st_rmin s; st_rmax := st_rmax s; st_rdelta := st_rdelta s; st_rho := st_rho s; st_bcoh := st_bcoh s; st_btot := st_btot s; st_lowq := v; st_lorch := st_lorch s; st_cutoff := st_cutoff s; st_merge := st_merge s; st_qmin := st_qmin s; st_qmax := st_qmax s |}.
  Definition st_with_lorch (s : @settings A) v := {| st_fn := st_fn s; st_rmin := st_rmin s; st_rmax := st_rmax s; st_rdelta := st_rdelta s; st_rho := st_rho s; st_bcoh := st_bcoh s; st_btot := st_btot s; st_lowq := st_lowq s; st_lorch := v; st_cutoff := st_cutoff s; st_merge := st_merge s; st_qmin := st_qmin s; st_qmax := st_qmax s |}.
  Definition st_with_cutoff (s : @settings A) v := {| st_fn := st_fn s; st_rmin := st_rmin s; st_rmax := st_rmax s; st_rdelta := st_rdelta s; st_rho := st_rho s; st_bcoh := st_bcoh s; st_btot := st_btot s; st_lowq := st_lowq s; st_lorch := st_lorch s; st_cutoff := v; st_merge := st_merge s; st_qmin := st_qmin s; st_qmax := st_qmax s |}.
  Definition st_with_merge (s : @settings A) v := {| st_fn := st_fn s; st_rmin := st_rmin s; st_rmax := st_rmax s; st_rdelta := st_rdelta s; st_rho := st_rho s; st_bcoh := st_bcoh s; st_btot := st_btot s; st_lowq := st_lowq s; st_lorch := st_lorch s; st_cutoff := st_cutoff s; st_merge := v; st_qmin := st_qmin s; st_qmax := st_qmax s |}.
  Definition st_with_qmin (s : @settings A) v := {| st_fn := st_fn s; st_rmin := st_rmin s; st_rmax := st_rmax s; st_rdelta := st_rdelta s; st_rho := st_rho s; st_bcoh := st_bcoh s; st_btot := st_btot s; st_lowq := st_lowq s; st_lorch := st_lorch s; st_cutoff := st_cutoff s; st_merge := st_merge s; st_qmin := v; st_qmax := st_qmax s |}.
  Definition st_with_qmax (s : @settings A) v := {| st_fn := st_fn s; st_rmin := st_rmin s; st_rmax := st_rmax s; st_rdelta := st_rdelta s; st_rho := st_rho s; st_bcoh := st_bcoh s; st_btot := st_btot s; st_lowq := st_lowq s; st_lorch := st_lorch s; st_cutoff := st_cutoff s; st_merge := st_merge s; st_qmin := st_qmin s; st_qmax := v |}.

  Definition o_with_st (o : obj) s := {| o_st := s; o_dr := o_dr o; o_tgr := o_tgr o; o_tgrft := o_tgrft o; o_tgrl := o_tgrl o; o_tfix := o_tfix o; o_files := o_files o; o_stem := o_stem o; o_xmin := o_xmin o; o_xmax := o_xmax o |}.
  Definition o_with_dr (o : obj) d := {| o_st := o_st o; o_dr := d; o_tgr := o_tgr o; o_tgrft := o_tgrft o; o_tgrl := o_tgrl o; o_tfix := o_tfix o; o_files := o_files o; o_stem := o_stem o; o_xmin := o_xmin o; o_xmax := o_xmax o |}.
  Definition o_with_titles (o : obj) a b c := {| o_st := o_st o; o_dr := o_dr o; o_tgr := a; o_tgrft := b; o_tgrl := c; o_tfix := o_tfix o; o_files := o_files o; o_stem := o_stem o; o_xmin := o_xmin o; o_xmax := o_xmax o |}.
  Definition o_with_tfix (o : obj) l := {| o_st := o_st o; o_dr := o_dr o; o_tgr := o_tgr o; o_tgrft := o_tgrft o; o_tgrl := o_tgrl o; o_tfix := l; o_files := o_files o; o_stem := o_stem o; o_xmin := o_xmin o; o_xmax := o_xmax o |}.
  Definition o_with_files (o : obj) f := {| o_st := o_st o; o_dr := o_dr o; o_tgr := o_tgr o; o_tgrft := o_tgrft o; o_tgrl := o_tgrl o; o_tfix := o_tfix o; o_files := f; o_stem := o_stem o; o_xmin := o_xmin o; o_xmax := o_xmax o |}.
  Definition o_with_stem (o : obj) n := {| o_st := o_st o; o_dr := o_dr o; o_tgr := o_tgr o; o_tgrft := o_tgrft o; o_tgrl := o_tgrl o; o_tfix := o_tfix o; o_files := o_files o; o_stem := n; o_xmin := o_xmin o; o_xmax := o_xmax o |}.
  Definition o_with_xmin (o : obj) v := {| o_st := o_st o; o_dr := o_dr o; o_tgr := o_tgr o; o_tgrft := o_tgrft o; o_tgrl := o_tgrl o; o_tfix := o_tfix o; o_files := o_files o; o_stem := o_stem o; o_xmin := v; o_xmax := o_xmax o |}.
  Definition o_with_xmax (o : obj) v := {| o_st := o_st o; o_dr := o_dr o; o_tgr := o_tgr o; o_tgrft := o_tgrft o; o_tgrl := o_tgrl o; o_tfix := o_tfix o; o_files := o_files o; o_stem := o_stem o; o_xmin := o_xmin o; o_xmax := v |}.

  (* __update_dr: dr = create_domain(rmin, rmax, rdelta) from the values stored now *)
  Definition update_dr (o : obj) : obj := o_with_dr o (rgrid (o_st o)).

  Fixpoint set_nth (l : list nat) (i : nat) (v : nat) : list nat :=
    match l, i with
    | [], _ => []
    | _ :: t, O => v :: t
    | h :: t, S j => h :: set_nth t j v
    end.

  (* stog.py:60-128 *)
  Definition obj_init : obj :=
    {| o_st := defaults; o_dr := rgrid defaults;
       o_tgr := t_gr_of gg; o_tgrft := t_grft_of gg; o_tgrl := t_grl_of gg;
       o_tfix := fixed_titles; o_files := None; o_stem := 0;
       o_xmin := of_Z 100; o_xmax := zero |}.

  Inductive sop :=
  | SRmin (v : A) | SRmax (v : A) | SRdelta (v : A) | SDr (l : list A)
  | SRho (v : A) | SBcoh (v : A) | SBtot (v : A)
  | SLowq (f : flagv) | SLorch (f : flagv) | SCutoff (c : option A)
  | SMerge (m : @mopts A) | SQmin (q : option A) | SQmax (q : option A)
  | SFn (f : fnv)
  | STgr (t : nat) | STgrft (t : nat) | STgrl (t : nat) | STfix (slot : nat) (t : nat)
  | SFiles (l : option (list nat)) | SAppend (f : nat) | SExtend (l : list nat)
  | SStem (n : nat) | SXmin (v : A) | SXmax (v : A).

  (* one public call; a call that raises leaves the object as it was *)
  Definition sstep (o : obj) (p : sop) : obj * option serr :=
    match p with
    | SRmin v => (update_dr (o_with_st o (st_with_rmin (o_st o) v)), None)
    | SRmax v => (update_dr (o_with_st o (st_with_rmax (o_st o) v)), None)
    | SRdelta v => (update_dr (o_with_st o (st_with_rdelta (o_st o) v)), None)
    | SDr l => (o_with_dr o l, None)
    | SRho v => (o_with_st o (st_with_rho (o_st o) v), None)
    | SBcoh v => (o_with_st o (st_with_bcoh (o_st o) v), None)
    | SBtot v => (o_with_st o (st_with_btot (o_st o) v), None)
    | SLowq (FlagBool b) => (o_with_st o (st_with_lowq (o_st o) b), None)
    | SLowq FlagOther => (o, Some STypeError)
    | SLorch (FlagBool b) => (o_with_st o (st_with_lorch (o_st o) b), None)
    | SLorch FlagOther => (o, Some STypeError)
    | SCutoff c => (o_with_st o (st_with_cutoff (o_st o) c), None)
    | SMerge m => (o_with_st o (st_with_merge (o_st o) m), None)
    | SQmin q => (o_with_st o (st_with_qmin (o_st o) q), None)
    | SQmax q => (o_with_st o (st_with_qmax (o_st o) q), None)
    | SFn (FnName g) =>
        (o_with_titles (o_with_st o (st_with_fn (o_st o) g)) (t_gr_of g) (t_grft_of g) (t_grl_of g), None)
    | SFn FnBad => (o, Some SValueError)
    | STgr t => (o_with_titles o t (o_tgrft o) (o_tgrl o), None)
    | STgrft t => (o_with_titles o (o_tgr o) t (o_tgrl o), None)
    | STgrl t => (o_with_titles o (o_tgr o) (o_tgrft o) t, None)
    | STfix slot t => (o_with_tfix o (set_nth (o_tfix o) slot t), None)
    | SFiles l => (o_with_files o l, None)
    | SAppend f => match o_files o with
                   | Some l => (o_with_files o (Some (l ++ [f])), None)
                   | None => (o, Some STypeError)            (* None + [f] *)
                   end
    | SExtend l' => match o_files o with
                    | Some l => (o_with_files o (Some (l ++ l')), None)
                    | None => (o, Some SAttributeError)      (* None.extend *)
                    end
    | SStem n => (o_with_stem o n, None)
    | SXmin v => (o_with_xmin o v, None)
    | SXmax v => (o_with_xmax o v, None)
    end.

  (* a script of calls; stops at the first one that raises *)
  Fixpoint srun (o : obj) (ps : list sop) : obj * option serr :=
    match ps with
    | [] => (o, None)
    | p :: t => match sstep o p with
                | (o', None) => srun o' t
                | (o', Some e) => (o', Some e)
                end
    end.

  (* ---- __kwargs2attr as the setter calls it makes, in the order of the code ---- *)
  Definition opt_op {T} (x : option T) (f : T -> sop) : list sop :=
    match x with Some v => [f v] | None => [] end.

  (* the prefix up to and including Rmax; the Rpoints branch reads the rmax stored by then *)
  Definition ctor_ops_head (j : @json A) : list sop :=
    opt_op (j_fn j) SFn ++ opt_op (j_rmin j) SRmin ++ opt_op (j_rmax j) SRmax.
  Definition ctor_ops_tail (j : @json A) (rmax_now : A) : list sop :=
    (match j_rdelta j, j_rpoints j with
     | Some d, _ => [SRdelta d]
     | None, Some n => [SRdelta (rmax_now / n)]
     | None, None => []
     end)
    ++ opt_op (j_rho j) SRho
    ++ opt_op (j_lowq j) SLowq
    ++ opt_op (j_lorch j) SLorch
    ++ (match j_ff j with Some (Some c) => [SCutoff c] | _ => [] end)
    ++ opt_op (j_bcoh j) SBcoh
    ++ opt_op (j_btot j) SBtot
    ++ (match j_merge j with
        | Some m => [SMerge m] ++ opt_op (j_qmin j) (fun q => SQmin (Some q)) ++ opt_op (j_qmax j) (fun q => SQmax (Some q))
        | None => []
        end).

  Definition construct (j : @json A) : obj * option serr :=
    match srun obj_init (ctor_ops_head j) with
    | (o, None) => srun o (ctor_ops_tail j (st_rmax (o_st o)))
    | r => r
    end.

  (* ---- the invariants the theorems are about ---- *)
  Definition grid_ok (o : obj) : Prop := o_dr o = rgrid (o_st o).
  Definition titles_ok (o : obj) : Prop :=
    o_tgr o = t_gr_of (st_fn (o_st o)) /\ o_tgrft o = t_grft_of (st_fn (o_st o)) /\ o_tgrl o = t_grl_of (st_fn (o_st o)).
  Definition is_dr_op (p : sop) : bool := match p with SDr _ => true | _ => false end.
  Definition is_grid_op (p : sop) : bool := match p with SRmin _ | SRmax _ | SRdelta _ => true | _ => false end.
  Definition is_title_op (p : sop) : bool := match p with STgr _ | STgrft _ | STgrl _ => true | _ => false end.
End Setters.
