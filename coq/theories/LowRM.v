(* LowRM.v -- StoG._lowR_mean_square / StoG._get_lowR_mean_square (stog.py:1303-1341), the cost function
   offered for the Qmax adjustment:

       gr = gr[r <= limit]; gr_sq = np.multiply(gr, gr); average = sum(gr_sq); return np.sqrt(average)

   `sum` is Python's builtin: a left fold from the integer 0 (0 + x is exact in binary64), i.e. Num.sum_l.
   Definitions only. *)
From Coq Require Import List Bool ZArith.
From PyStoG Require Import Num.
Import ListNotations.

Section LowR.
  Context {A : Type} `{Num A}.
  Local Open Scope num_scope.

  (* gr[r <= limit] : the entries whose abscissa passes the mask, in order *)
  Fixpoint mask_le (limit : A) (r g : list A) : list A :=
    match r, g with
    | x :: r, y :: g => if leb x limit then y :: mask_le limit r g else mask_le limit r g
    | _, _ => []
    end.

  Definition squares (g : list A) : list A := map (fun y => y * y) g.

  Definition lowr_mean_square (r g : list A) (limit : A) : A :=
    sqrt (sum_l (squares (mask_le limit r g))).

  (* the default of the keyword: limit=1.01 *)
  Definition lowr_default_limit : A := of_Z 101%Z / of_Z 100%Z.

  (* _get_lowR_mean_square: the instance's r grid and the stored real-space curve *)
  Definition get_lowr_mean_square (dr stored_gr : list A) : A :=
    lowr_mean_square dr stored_gr lowr_default_limit.
End LowR.
