(* NumR.v -- the real-number carrier: every theorem is about the model
   instantiated here. *)
From Coq Require Import Reals ZArith Bool Lra.
From PyStoG Require Import Num.
Open Scope R_scope.

Definition Rltb (x y : R) : bool := if Rlt_dec x y then true else false.
Definition Rleb (x y : R) : bool := if Rle_dec x y then true else false.
Definition Reqb (x y : R) : bool := if Req_EM_T x y then true else false.

Definition Rfloor (x : R) : Z := (up x - 1)%Z.
Definition Rceil (x : R) : Z := (- Rfloor (- x))%Z.
Definition Rtrunc (x : R) : Z := if Rle_dec 0 x then Rfloor x else Rceil x.
Definition Rrint (x : R) : R :=
  let f := Rfloor x in
  let d := x - IZR f in
  if Rlt_dec d (1/2) then IZR f
  else if Rlt_dec (1/2) d then IZR (f + 1)
  else if Z.even f then IZR f else IZR (f + 1).

#[export] Instance NumR : Num R := {|
  zero := 0; one := 1;
  add := Rplus; sub := Rminus; mul := Rmult; div := Rdiv;
  opp := Ropp; abs := Rabs; sqrt := R_sqrt.sqrt; sin := Rtrigo_def.sin; cos := Rtrigo_def.cos;
  pi := PI;
  ltb := Rltb; leb := Rleb; eqb := Reqb;
  of_Z := IZR;
  rint := Rrint; trunc := Rtrunc; ceilZ := Rceil;
  noise16 := fun x => x
|}.

(* unfold the class projections at R *)
Ltac numR :=
  cbn [zero one add sub mul div opp abs sqrt sin cos pi ltb leb eqb of_Z rint trunc ceilZ noise16 NumR
       two four gtb geb neqb hundred] in *.

Lemma Rltb_spec x y : reflect (x < y) (Rltb x y).
Proof. unfold Rltb. destruct (Rlt_dec x y); constructor; assumption. Qed.
Lemma Rleb_spec x y : reflect (x <= y) (Rleb x y).
Proof. unfold Rleb. destruct (Rle_dec x y); constructor; assumption. Qed.
Lemma Reqb_spec x y : reflect (x = y) (Reqb x y).
Proof. unfold Reqb. destruct (Req_EM_T x y); constructor; assumption. Qed.
Lemma Rltb_true x y : x < y -> Rltb x y = true.
Proof. intros. destruct (Rltb_spec x y); [reflexivity|contradiction]. Qed.
Lemma Rltb_false x y : ~ x < y -> Rltb x y = false.
Proof. intros. destruct (Rltb_spec x y); [contradiction|reflexivity]. Qed.
Lemma Rleb_true x y : x <= y -> Rleb x y = true.
Proof. intros. destruct (Rleb_spec x y); [reflexivity|contradiction]. Qed.
Lemma Rleb_false x y : ~ x <= y -> Rleb x y = false.
Proof. intros. destruct (Rleb_spec x y); [contradiction|reflexivity]. Qed.
