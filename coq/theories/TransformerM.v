(* TransformerM.v -- model of src/pystog/transformer.py.  Definitions only. *)
From Coq Require Import List ZArith Bool.
From PyStoG Require Import Num ConverterM.
Import ListNotations.

Section Transformer.
  Context {A : Type} `{Num A}.
  Local Open Scope num_scope.

  (* boolean-mask indexing  a[mask] *)
  Fixpoint select {B} (mask : list bool) (l : list B) : list B :=
    match mask, l with
    | b :: mask, x :: l => if b then x :: select mask l else select mask l
    | _, _ => []
    end.

  (* transformer.py:104-128  closed interval; missing uncertainty = zeros *)
  Definition crop_mask (x : list A) (xmin xmax : A) : list bool :=
    map (fun x => leb xmin x && leb x xmax) x.
  Definition apply_cropping (x y : list A) (xmin xmax : A) (dy : option (list A))
    : list A * list A * list A :=
    let err := dflt_zeros y dy in
    let m := crop_mask x xmin xmax in
    (select m x, select m y, select m err).

  (* np.trapezoid(y, x=x) = sum( diff(x) * (y[1:] + y[:-1]) / 2 ) *)
  Fixpoint trapz (xs ys : list A) : A :=
    match xs, ys with
    | x0 :: ((x1 :: _) as xs'), y0 :: ((y1 :: _) as ys') =>
        (x1 - x0) * (y1 + y0) / two + trapz xs' ys'
    | _, _ => zero
    end.
  (* sum( diff(x)**2 * (e[1:] + e[:-1]) / 2 ) *)
  Fixpoint etrapz (xs es : list A) : A :=
    match xs, es with
    | x0 :: ((x1 :: _) as xs'), e0 :: ((e1 :: _) as es') =>
        ((x1 - x0) * (x1 - x0)) * (e1 + e0) / two + etrapz xs' es'
    | _, _ => zero
    end.

  (* Lorch window sin(a x)/(a x), a = pi/xmax; 1 where a x = 0
     (transformer.py:160-165) *)
  Definition lorch_weight (a x : A) : A :=
    let denom := a * x in
    if neqb denom zero then sin (a * x) / denom else one.
  Definition lorch_factor (xmax : A) (xin : list A) : list A :=
    map (lorch_weight (pi / xmax)) xin.

  (* transformer.py:40-102, one output point; yin0 = Q[S(Q)-1] at xmin *)
  Definition low_x_term (lorchf : bool) (xmin xmax yin0 x : A) : A :=
    let s0 := if neqb xmin zero then yin0 / xmin + one else zero in
    let a := pi / xmax in
    let v := xmin * x in
    let '(F1, F2) :=
      if lorchf then
        let vm := xmin * (x - a) in
        let vp := xmin * (x + a) in
        let term1 := (vm * sin vm + cos vm - one) / ((x - a) * (x - a)) in
        let term2 := (vp * sin vp + cos vp - one) / ((x + a) * (x + a)) in
        ((term1 - term2) / (two * a),
         (sin vm / (x - a) - sin vp / (x + a)) / (two * a))
      else
        let f1 := two * v * sin v - (v * v - two) * cos v - two in
        let f2 := sin v - v * cos v in
        (if neqb x zero then f1 / (x * x * x) else zero,
         if neqb x zero then f2 / (x * x) else zero) in
    let num := F1 * s0 in
    let factor := if neqb xmin zero then num / xmin else zero in
    factor - F2.
  Definition low_x_correction (lorchf : bool) (xin yin xout yout : list A) : list A :=
    let xmin := vmin xin in
    let xmax := vmax xin in
    let yin0 := hd zero yin in
    map2 (fun x y => y + low_x_term lorchf xmin xmax yin0 x) xout yout.

  (* transformer.py:130-178 *)
  Definition fourier_transform (xin yin xout : list A) (xmin xmax : option A)
      (dy_in : option (list A)) (k : kw A) : list A * list A * list A :=
    let xmax := match xmax with Some v => v | None => vmax xin end in
    let xmin := match xmin with Some v => v | None => vmin xin end in
    let '(xin, yin, err) := apply_cropping xin yin xmin xmax dy_in in
    let factor := if lorch k then lorch_factor xmax xin else ones_like yin in
    let fy := vmul factor yin in
    let fe := vmul factor err in
    let yout := map (fun x => trapz xin (map2 (fun f xi => f * sin (xi * x)) fy xin)) xout in
    let eout := map (fun x => sqrt (etrapz xin
                   (map2 (fun f xi => (f * sin (xi * x)) * (f * sin (xi * x))) fe xin))) xout in
    let yout := if omitted k then low_x_correction (lorch k) xin yin xout yout else yout in
    (xout, yout, eout).

  (* ---- the 24 named transforms, as written ---- *)
  Definition tr := list A -> list A -> list A -> option (list A) -> kw A -> list A * list A * list A.

  Definition two_over_pi : A := two / pi.

  Definition F_to_G : tr := fun q fq r dfq k =>
    let '(r, gr, dgr) := fourier_transform q fq r None None dfq k in
    (r, vscale_r two_over_pi gr, vscale_r two_over_pi dgr).
  Definition F_to_GK : tr := fun q fq r dfq k =>
    let '(r, gr, dgr) := F_to_G q fq r dfq k in
    let '(gr, dgr) := G_to_GK r gr (Some dgr) k in (r, gr, dgr).
  Definition F_to_g : tr := fun q fq r dfq k =>
    let '(r, gr, dgr) := F_to_G q fq r dfq k in
    let '(gr, dgr) := G_to_g r gr (Some dgr) k in (r, gr, dgr).

  Definition S_to_G : tr := fun q sq r dsq k =>
    let '(fq, dfq) := S_to_F q sq dsq k in F_to_G q fq r (Some dfq) k.
  Definition S_to_GK : tr := fun q sq r dsq k =>
    let '(fq, dfq) := S_to_F q sq dsq k in F_to_GK q fq r (Some dfq) k.
  Definition S_to_g : tr := fun q sq r dsq k =>
    let '(fq, dfq) := S_to_F q sq dsq k in F_to_g q fq r (Some dfq) k.

  Definition FK_to_G : tr := fun q fk r dfk k =>
    let '(fq, dfq) := FK_to_F q fk dfk k in F_to_G q fq r (Some dfq) k.
  Definition FK_to_GK : tr := fun q fk r dfk k =>
    let '(fq, dfq) := FK_to_F q fk dfk k in F_to_GK q fq r (Some dfq) k.
  Definition FK_to_g : tr := fun q fk r dfk k =>
    let '(fq, dfq) := FK_to_F q fk dfk k in F_to_g q fq r (Some dfq) k.

  Definition DCS_to_G : tr := fun q dcs r ddcs k =>
    let '(fq, dfq) := DCS_to_F q dcs ddcs k in F_to_G q fq r (Some dfq) k.
  Definition DCS_to_GK : tr := fun q dcs r ddcs k =>
    let '(fq, dfq) := DCS_to_F q dcs ddcs k in F_to_GK q fq r (Some dfq) k.
  Definition DCS_to_g : tr := fun q dcs r ddcs k =>
    let '(fq, dfq) := DCS_to_F q dcs ddcs k in F_to_g q fq r (Some dfq) k.

  Definition G_to_F : tr := fun r gr q dgr k => fourier_transform r gr q None None dgr k.
  Definition G_to_S : tr := fun r gr q dgr k =>
    let '(q, fq, dfq) := G_to_F r gr q dgr k in
    let '(sq, dsq) := F_to_S q fq (Some dfq) k in (q, sq, dsq).
  Definition G_to_FK : tr := fun r gr q dgr k =>
    let '(q, fq, dfq) := G_to_F r gr q dgr k in
    let '(fk, dfk) := F_to_FK q fq (Some dfq) k in (q, fk, dfk).
  Definition G_to_DCS : tr := fun r gr q dgr k =>
    let '(q, fq, dfq) := G_to_F r gr q dgr k in
    let '(dcs, ddcs) := F_to_DCS q fq (Some dfq) k in (q, dcs, ddcs).

  Definition GK_to_F : tr := fun r gr q dgr k =>
    let '(g1, d1) := GK_to_G r gr dgr k in G_to_F r g1 q (Some d1) k.
  Definition GK_to_S : tr := fun r gr q dgr k =>
    let '(g1, d1) := GK_to_G r gr dgr k in G_to_S r g1 q (Some d1) k.
  Definition GK_to_FK : tr := fun r gr q dgr k =>
    let '(g1, d1) := GK_to_G r gr dgr k in G_to_FK r g1 q (Some d1) k.
  Definition GK_to_DCS : tr := fun r gr q dgr k =>
    let '(g1, d1) := GK_to_G r gr dgr k in G_to_DCS r g1 q (Some d1) k.

  Definition g_to_F : tr := fun r gr q dgr k =>
    let '(g1, d1) := g_to_G r gr dgr k in G_to_F r g1 q (Some d1) k.
  Definition g_to_S : tr := fun r gr q dgr k =>
    let '(g1, d1) := g_to_G r gr dgr k in G_to_S r g1 q (Some d1) k.
  Definition g_to_FK : tr := fun r gr q dgr k =>
    let '(g1, d1) := g_to_G r gr dgr k in G_to_FK r g1 q (Some d1) k.
  Definition g_to_DCS : tr := fun r gr q dgr k =>
    let '(g1, d1) := g_to_G r gr dgr k in G_to_DCS r g1 q (Some d1) k.

  (* method table *)
  Definition q2r (X : rfun) (Y : gfun) : tr :=
    match X, Y with
    | rF, gG => F_to_G | rF, gGK => F_to_GK | rF, gg => F_to_g
    | rS, gG => S_to_G | rS, gGK => S_to_GK | rS, gg => S_to_g
    | rFK, gG => FK_to_G | rFK, gGK => FK_to_GK | rFK, gg => FK_to_g
    | rDCS, gG => DCS_to_G | rDCS, gGK => DCS_to_GK | rDCS, gg => DCS_to_g
    end.
  Definition r2q (X : gfun) (Y : rfun) : tr :=
    match X, Y with
    | gG, rF => G_to_F | gG, rS => G_to_S | gG, rFK => G_to_FK | gG, rDCS => G_to_DCS
    | gGK, rF => GK_to_F | gGK, rS => GK_to_S | gGK, rFK => GK_to_FK | gGK, rDCS => GK_to_DCS
    | gg, rF => g_to_F | gg, rS => g_to_S | gg, rFK => g_to_FK | gg, rDCS => g_to_DCS
    end.
End Transformer.
