(* CropP.v -- lemmas about select / crop_mask / apply_cropping and the
   window arguments of fourier_transform, at the real numbers (C13). *)
From Coq Require Import List Reals Lra Lia Bool ZArith.
From PyStoG Require Import Num NumR ConverterM TransformerM.
From PyStoG.proofs Require Import VecLib ConverterP.
Import ListNotations.
Open Scope R_scope.

(* ---------- boolean-mask selection ---------- *)
Lemma select_nil_r {B} m : @select B m [] = [].
Proof. destruct m; reflexivity. Qed.

Lemma combine_nil_r {X Y} (l : list X) : combine l (@nil Y) = [].
Proof. destruct l; reflexivity. Qed.

Lemma select_combine {X Y} m (a : list X) (b : list Y) :
  select m (combine a b) = combine (select m a) (select m b).
Proof.
  revert a b; induction m as [|c m IH]; intros [|x a] [|y b]; cbn [select combine]; auto.
  - destruct c; [reflexivity | symmetry; apply combine_nil_r].
  - destruct c; cbn [combine]; rewrite IH; reflexivity.
Qed.

Lemma select_map_filter_combine {X Y} (p : X -> bool) (l : list X) (r : list Y) :
  select (map p l) (combine l r) = filter (fun t => p (fst t)) (combine l r).
Proof.
  revert r; induction l as [|x l IH]; intros [|y r]; cbn [map combine select filter fst]; auto.
  rewrite IH. reflexivity.
Qed.

Lemma select_map_filter {X} (p : X -> bool) (l : list X) : select (map p l) l = filter p l.
Proof. induction l as [|x l IH]; cbn [map select filter]; auto. rewrite IH; reflexivity. Qed.

Lemma select_length {X Y} m (l1 : list X) (l2 : list Y) :
  length l1 = length l2 -> length (select m l1) = length (select m l2).
Proof.
  revert l1 l2; induction m as [|c m IH]; intros [|x l1] [|y l2] L; cbn [select length] in *; try lia.
  destruct c; cbn [length]; rewrite (IH l1 l2) by lia; reflexivity.
Qed.

Lemma select_length_le {X Y} m (l : list X) (l' : list Y) :
  (length m <= length l')%nat -> (length (select m l) <= length (select m l'))%nat.
Proof.
  revert l l'; induction m as [|c m IH]; intros [|x l] [|y l'] L; cbn [select length] in *; try lia.
  assert (L' : (length m <= length l')%nat) by lia.
  specialize (IH l l' L'). destruct c; cbn [length]; lia.
Qed.

Lemma select_all_true {X} m (l : list X) :
  Forall (fun b => b = true) m -> (length l <= length m)%nat -> select m l = l.
Proof.
  intros F; revert l; induction F as [|c m Hc F IH]; intros [|x l] L; cbn [select length] in *; try lia; auto.
  subst c. rewrite IH by lia. reflexivity.
Qed.

Lemma select_map2 {X Y Z} (f : X -> Y -> Z) m l1 l2 :
  select m (map2 f l1 l2) = map2 f (select m l1) (select m l2).
Proof.
  revert l1 l2; induction m as [|c m IH]; intros [|x l1] [|y l2]; cbn [select map2]; auto.
  - destruct c; [reflexivity|]. destruct (select m l1); reflexivity.
  - destruct c; cbn [map2]; rewrite IH; reflexivity.
Qed.

Lemma nth_combine {X Y} (l : list X) (r : list Y) i dx dy :
  length l = length r -> nth i (combine l r) (dx, dy) = (nth i l dx, nth i r dy).
Proof. intros L. apply combine_nth. exact L. Qed.

(* ---------- the crop ---------- *)
Definition inwin (xmin xmax t : R) : bool := Rleb xmin t && Rleb t xmax.

Lemma inwin_spec a b t : inwin a b t = true <-> a <= t <= b.
Proof.
  unfold inwin. rewrite andb_true_iff.
  destruct (Rleb_spec a t), (Rleb_spec t b); split; intros [? ?]; try discriminate; try lra; auto.
Qed.

Lemma crop_mask_R x a b : crop_mask x a b = map (inwin a b) x.
Proof. reflexivity. Qed.

Lemma dflt_zeros_length (y : list R) dy n : length y = n -> dok dy n -> length (dflt_zeros y dy) = n.
Proof.
  intros Ly D. destruct dy as [d|]; cbn [dflt_zeros].
  - apply D; reflexivity.
  - unfold zeros_like. rewrite map_length. exact Ly.
Qed.

(* unconditional form *)
Lemma crop_is_filter_gen (x y : list R) xmin xmax dy :
  let '(x', y', e') := apply_cropping x y xmin xmax dy in
  combine x' (combine y' e') =
  filter (fun t => Rleb xmin (fst t) && Rleb (fst t) xmax) (combine x (combine y (dflt_zeros y dy))).
Proof.
  unfold apply_cropping. cbv zeta. rewrite <- !select_combine.
  rewrite crop_mask_R. apply (select_map_filter_combine (inwin xmin xmax)).
Qed.

Theorem crop_is_filter (x y : list R) xmin xmax dy :
  length y = length x -> dok dy (length x) ->
  let '(x', y', e') := apply_cropping x y xmin xmax dy in
  combine x' (combine y' e') =
  filter (fun t => Rleb xmin (fst t) && Rleb (fst t) xmax) (combine x (combine y (dflt_zeros y dy))).
Proof. intros _ _. apply crop_is_filter_gen. Qed.

Theorem crop_in_window (x y : list R) xmin xmax dy :
  let '(x', _, _) := apply_cropping x y xmin xmax dy in
  Forall (fun t => xmin <= t <= xmax) x'.
Proof.
  unfold apply_cropping. cbv zeta. rewrite crop_mask_R, select_map_filter.
  apply Forall_forall. intros t Ht. apply filter_In in Ht. apply inwin_spec. tauto.
Qed.

Theorem crop_keeps_inside (x y : list R) xmin xmax dy i :
  length y = length x -> dok dy (length x) ->
  (i < length x)%nat -> xmin <= nth i x 0 <= xmax ->
  let '(x', y', e') := apply_cropping x y xmin xmax dy in
  In (nth i x 0, (nth i y 0, nth i (dflt_zeros y dy) 0)) (combine x' (combine y' e')).
Proof.
  intros Ly D Hi Hw.
  pose proof (crop_is_filter_gen x y xmin xmax dy) as E.
  destruct (apply_cropping x y xmin xmax dy) as [[x' y'] e'].
  rewrite E. apply filter_In. split.
  - assert (Le : length (dflt_zeros y dy) = length x) by (apply dflt_zeros_length; assumption).
    rewrite <- (nth_combine y (dflt_zeros y dy) i 0 0) by lia.
    rewrite <- (nth_combine x (combine y (dflt_zeros y dy)) i 0 (0, 0))
      by (rewrite combine_length; lia).
    apply nth_In. rewrite !combine_length. lia.
  - cbn [fst]. apply (proj2 (inwin_spec xmin xmax _)). exact Hw.
Qed.

Theorem crop_lengths (x y : list R) xmin xmax dy :
  length y = length x -> dok dy (length x) ->
  let '(x', y', e') := apply_cropping x y xmin xmax dy in
  length y' = length x' /\ length e' = length x'.
Proof.
  intros Ly D. unfold apply_cropping. cbv zeta. split; apply select_length.
  - exact Ly.
  - apply dflt_zeros_length; assumption.
Qed.

(* idempotence, equation form (no length hypothesis is needed) *)
Lemma crop_idem_eq (x y : list R) a b dy x' y' e' :
  apply_cropping x y a b dy = (x', y', e') ->
  apply_cropping x' y' a b (Some e') = (x', y', e').
Proof.
  unfold apply_cropping. cbv zeta. cbn [dflt_zeros]. rewrite !crop_mask_R. intros E.
  injection E as Ex Ey Ee.
  assert (T : Forall (fun c => c = true) (map (inwin a b) x')).
  { subst x'. rewrite select_map_filter. apply Forall_forall. intros c Hc.
    apply in_map_iff in Hc. destruct Hc as [t [<- Ht]]. apply filter_In in Ht. tauto. }
  assert (Lx : length (map (inwin a b) x') = length x') by apply map_length.
  assert (Lm : (length (map (inwin a b) x) <= length x)%nat) by (rewrite map_length; lia).
  f_equal; [f_equal|]; apply select_all_true; auto; rewrite Lx.
  - lia.
  - subst x' y'. apply select_length_le. exact Lm.
  - subst x' e'. apply select_length_le. exact Lm.
Qed.

Theorem crop_idem (x y : list R) a b dy :
  let '(x', y', e') := apply_cropping x y a b dy in
  apply_cropping x' y' a b (Some e') = (x', y', e').
Proof.
  destruct (apply_cropping x y a b dy) as [[x' y'] e'] eqn:E.
  eapply crop_idem_eq; eassumption.
Qed.

(* ---------- the window of fourier_transform ---------- *)
Theorem ft_window_is_precrop (x y xo : list R) a b dy (k : kw R) :
  let '(x', y', e') := apply_cropping x y a b dy in
  fourier_transform x y xo (Some a) (Some b) dy k =
  fourier_transform x' y' xo (Some a) (Some b) (Some e') k.
Proof.
  destruct (apply_cropping x y a b dy) as [[x' y'] e'] eqn:E.
  unfold fourier_transform. rewrite E, (crop_idem_eq _ _ _ _ _ _ _ _ E). reflexivity.
Qed.

Theorem ft_outside_irrelevant (x1 y1 x2 y2 xo : list R) a b d1 d2 (k : kw R) :
  apply_cropping x1 y1 a b d1 = apply_cropping x2 y2 a b d2 ->
  fourier_transform x1 y1 xo (Some a) (Some b) d1 k =
  fourier_transform x2 y2 xo (Some a) (Some b) d2 k.
Proof. intros E. unfold fourier_transform. rewrite E. reflexivity. Qed.

(* ---------- min / max over R ---------- *)
Lemma minl_le_d (d : R) l : minl d l <= d.
Proof.
  revert d; induction l as [|x l IH]; intros d; cbn [minl]; numR; [lra|].
  eapply Rle_trans; [apply IH|]. destruct (Rltb_spec x d); lra.
Qed.
Lemma minl_le_in (d : R) l t : In t l -> minl d l <= t.
Proof.
  revert d; induction l as [|x l IH]; intros d HI; [destruct HI|]. destruct HI as [E|I]; cbn [minl]; numR.
  - subst t. eapply Rle_trans; [apply minl_le_d|]. destruct (Rltb_spec x d); lra.
  - apply IH; exact I.
Qed.
Lemma maxl_ge_d (d : R) l : d <= maxl d l.
Proof.
  revert d; induction l as [|x l IH]; intros d; cbn [maxl]; numR; [lra|].
  eapply Rle_trans; [|apply IH]. destruct (Rltb_spec d x); lra.
Qed.
Lemma maxl_ge_in (d : R) l t : In t l -> t <= maxl d l.
Proof.
  revert d; induction l as [|x l IH]; intros d HI; [destruct HI|]. destruct HI as [E|I]; cbn [maxl]; numR.
  - subst t. eapply Rle_trans; [|apply maxl_ge_d]. destruct (Rltb_spec d x); lra.
  - apply IH; exact I.
Qed.
Lemma maxl_in (d : R) l : maxl d l = d \/ In (maxl d l) l.
Proof.
  revert d; induction l as [|x l IH]; intros d; cbn [maxl]; numR; [left; reflexivity|].
  destruct (IH (if Rltb d x then x else d)) as [E|I].
  - rewrite E. destruct (Rltb d x); [right; left; reflexivity | left; reflexivity].
  - right; right; exact I.
Qed.
Lemma minl_in (d : R) l : minl d l = d \/ In (minl d l) l.
Proof.
  revert d; induction l as [|x l IH]; intros d; cbn [minl]; numR; [left; reflexivity|].
  destruct (IH (if Rltb x d then x else d)) as [E|I].
  - rewrite E. destruct (Rltb x d); [right; left; reflexivity | left; reflexivity].
  - right; right; exact I.
Qed.

Lemma vmin_le (x : list R) t : In t x -> vmin x <= t.
Proof. destruct x as [|a l]; intros HI; [destruct HI|]. destruct HI as [E|I]; cbn [vmin]; [subst; apply minl_le_d | apply minl_le_in; exact I]. Qed.
Lemma vmax_ge (x : list R) t : In t x -> t <= vmax x.
Proof. destruct x as [|a l]; intros HI; [destruct HI|]. destruct HI as [E|I]; cbn [vmax]; [subst; apply maxl_ge_d | apply maxl_ge_in; exact I]. Qed.
Lemma vmax_in (x : list R) : x <> [] -> In (vmax x) x.
Proof. destruct x as [|a l]; [congruence|]. intros _. cbn [vmax]. destruct (maxl_in a l) as [E|I]; [left; auto | right; exact I]. Qed.
Lemma vmin_in (x : list R) : x <> [] -> In (vmin x) x.
Proof. destruct x as [|a l]; [congruence|]. intros _. cbn [vmin]. destruct (minl_in a l) as [E|I]; [left; auto | right; exact I]. Qed.

Lemma full_mask_true (x : list R) : Forall (fun c => c = true) (crop_mask x (vmin x) (vmax x)).
Proof.
  rewrite crop_mask_R. apply Forall_forall. intros c Hc. apply in_map_iff in Hc.
  destruct Hc as [t [<- Ht]]. apply inwin_spec. split; [apply vmin_le | apply vmax_ge]; exact Ht.
Qed.

Lemma full_mask_select {X} (x : list R) (l : list X) :
  (length l <= length x)%nat -> select (crop_mask x (vmin x) (vmax x)) l = l.
Proof.
  intros L. apply select_all_true; [apply full_mask_true|].
  unfold crop_mask. rewrite map_length. exact L.
Qed.

Theorem crop_full_range (x y : list R) dy :
  x <> [] -> length y = length x -> dok dy (length x) ->
  apply_cropping x y (vmin x) (vmax x) dy = (x, y, dflt_zeros y dy).
Proof.
  intros _ Ly D. unfold apply_cropping. cbv zeta.
  rewrite !full_mask_select; auto; try lia.
  rewrite (dflt_zeros_length y dy (length x)); auto.
Qed.

Theorem ft_no_window_is_full_range (x y xo : list R) dy (k : kw R) :
  fourier_transform x y xo None None dy k =
  fourier_transform x y xo (Some (vmin x)) (Some (vmax x)) dy k.
Proof. reflexivity. Qed.

(* ---------- non-vacuity / concrete sanity instances ---------- *)
Ltac decide_Rleb :=
  repeat match goal with
  | |- context [Rleb ?a ?b] =>
      first [ rewrite (Rleb_true a b) by lra | rewrite (Rleb_false a b) by lra ]
  end.

Example crop_is_filter_nonvacuous :
  length [4; 5; 6] = length [1; 2; 3] /\ dok None (length [1; 2; 3]) /\
  apply_cropping [1; 2; 3] [4; 5; 6] 2 3 None = ([2; 3], [5; 6], [0; 0]).
Proof.
  split; [reflexivity|]. split; [apply dok_none|].
  unfold apply_cropping, crop_mask. cbn [map dflt_zeros zeros_like]. numR. decide_Rleb. reflexivity.
Qed.

Example crop_keeps_inside_nonvacuous :
  length [4; 5; 6] = length [1; 2; 3] /\ dok (Some [7; 8; 9]) (length [1; 2; 3]) /\
  (1 < length [1; 2; 3])%nat /\ 2 <= nth 1 [1; 2; 3] 0 <= 3.
Proof. split; [reflexivity|]. split; [apply dok_some; reflexivity|]. split; [cbn; lia | cbn; lra]. Qed.

Example crop_lengths_nonvacuous :
  length [4; 5; 6] = length [1; 2; 3] /\ dok (Some [7; 8; 9]) (length [1; 2; 3]).
Proof. split; [reflexivity | apply dok_some; reflexivity]. Qed.

Example ft_outside_irrelevant_nonvacuous :
  apply_cropping [1; 2; 3] [4; 5; 6] 2 3 None = apply_cropping [0; 2; 3; 7] [-1; 5; 6; 8] 2 3 (Some [9; 0; 0; 9])
  /\ [1; 2; 3] <> [0; 2; 3; 7].
Proof.
  split; [|discriminate].
  unfold apply_cropping, crop_mask. cbn [map dflt_zeros zeros_like]. numR. decide_Rleb. reflexivity.
Qed.

Example crop_full_range_nonvacuous :
  [3; 1; 2] <> [] /\ length [4; 5; 6] = length [3; 1; 2] /\ dok None (length [3; 1; 2]) /\
  vmin [3; 1; 2] = 1 /\ vmax [3; 1; 2] = 3.
Proof.
  split; [discriminate|]. split; [reflexivity|]. split; [apply dok_none|].
  unfold vmin, vmax. cbn [minl maxl]. numR.
  rewrite (Rltb_true 1 3), (Rltb_false 2 1), (Rltb_false 3 1), (Rltb_false 3 2) by lra. split; reflexivity.
Qed.
