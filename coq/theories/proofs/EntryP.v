(* EntryP.v -- rejected entries between accepted ones (EntryM.v): the storage arrays of a history with
   rejected entries are those of the accepted entries alone. *)
From Coq Require Import List Reals.
From PyStoG Require Import Num NumR ConverterM StogM EntryM.
From PyStoG.proofs Require Import VecLib IngestP.
Import ListNotations.
Open Scope R_scope.

Section Generic.
  Context {A : Type} `{Num A}.

  Lemma reject_keeps_arrays (s : @state A) d :
    s_recip (reject_entry s d) = s_recip s /\ s_sq (reject_entry s d) = s_sq s.
  Proof. split; reflexivity. Qed.

  Lemma reject_keeps_masters (s : @state A) d :
    t_sq (reject_entry s d) = t_sq s /\ t_qsq (reject_entry s d) = t_qsq s /\ t_ft (reject_entry s d) = t_ft s /\
    t_sqft (reject_entry s d) = t_sqft s /\ t_fq (reject_entry s d) = t_fq s /\ t_gr (reject_entry s d) = t_gr s /\
    t_grft (reject_entry s d) = t_grft s /\ t_grl (reject_entry s d) = t_grl s /\ t_gk (reject_entry s d) = t_gk s.
  Proof. repeat split; reflexivity. Qed.

  (* add_dataset reads the arrays of the state only to append to them: the new arrays depend on the
     old arrays alone, not on xmin / xmax or the masters *)
  Lemma add_dataset_arrays_only (c : @config A) (s s' : @state A) d :
    s_recip s = s_recip s' -> s_sq s = s_sq s' ->
    s_recip (add_dataset c s d) = s_recip (add_dataset c s' d) /\ s_sq (add_dataset c s d) = s_sq (add_dataset c s' d).
  Proof. intros E1 E2. cbn [add_dataset s_recip s_sq]. rewrite E1, E2. split; reflexivity. Qed.

  (* the arrays after a history with rejected entries = the arrays after the accepted entries alone *)
  Theorem rejected_entries_leave_no_rows (c : @config A) (es : list (@dinfo A * bool)) :
    forall s s' : @state A, s_recip s = s_recip s' -> s_sq s = s_sq s' ->
    s_recip (fold_left (add_entry c) es s) = s_recip (fold_left (add_dataset c) (accepted es) s') /\
    s_sq (fold_left (add_entry c) es s) = s_sq (fold_left (add_dataset c) (accepted es) s').
  Proof.
    induction es as [|[d b] es IH]; intros s s' E1 E2; cbn [fold_left].
    - split; assumption.
    - unfold accepted. cbn [filter snd]. destruct b; cbn [map fst fold_left add_entry snd].
      + apply IH; apply (add_dataset_arrays_only c s s' d E1 E2).
      + apply IH; cbn [reject_entry s_recip s_sq]; assumption.
  Qed.

  Corollary rejected_entries_leave_no_rows_same (c : @config A) (es : list (@dinfo A * bool)) (s : @state A) :
    s_recip (fold_left (add_entry c) es s) = s_recip (fold_left (add_dataset c) (accepted es) s) /\
    s_sq (fold_left (add_entry c) es s) = s_sq (fold_left (add_dataset c) (accepted es) s).
  Proof. apply rejected_entries_leave_no_rows; reflexivity. Qed.

  Theorem rejected_entries_keep_masters (c : @config A) (es : list (@dinfo A * bool)) (s : @state A) :
    t_sq (fold_left (add_entry c) es s) = t_sq s /\ t_gr (fold_left (add_entry c) es s) = t_gr s.
  Proof.
    revert s. induction es as [|[d b] es IH]; intros s; cbn [fold_left]; [split; reflexivity|].
    destruct (IH (add_entry c s (d, b))) as [E1 E2]. rewrite E1, E2.
    destruct b; split; reflexivity.
  Qed.
End Generic.

(* over R: alignment of the two arrays survives any history with rejected entries *)
Theorem aligned_with_rejected_entries (c : @config R) (es : list (@dinfo R * bool)) :
  Forall d_ok (accepted es) ->
  let st := fold_left (add_entry c) es init_state in
  aligned (s_recip st) /\ aligned (s_sq st) /\ qcol (s_recip st) = qcol (s_sq st).
Proof.
  intros F st. subst st.
  destruct (rejected_entries_leave_no_rows_same c es init_state) as [E1 E2]. rewrite E1, E2.
  apply (arrays_aligned c (accepted es) F).
Qed.

(* non-vacuity: a rejected entry between two accepted ones *)
Example rejected_nonvacuous :
  let d := {| d_x := [1]; d_y := [2]; d_dy := None; d_qmin := None; d_qmax := None; d_Y := None; d_X := None; d_kind := rS |} in
  accepted [(d, true); (d, false); (d, true)] = [d; d] /\ Forall d_ok (accepted [(d, true); (d, false); (d, true)]).
Proof.
  cbn. split; [reflexivity|]. repeat constructor; cbn; try reflexivity; intros e Q; discriminate.
Qed.
