(* ConverterP.v -- lemmas about the converter model at the real numbers. *)
From Coq Require Import List Reals Lra Lia Bool ZArith.
From PyStoG Require Import Num NumR ConverterM.
From PyStoG.proofs Require Import VecLib.
Import ListNotations.
Open Scope R_scope.

(* ---------- the scalar content of each method ---------- *)
Definition sdiv (n d : R) : R := if Rltb 0 d then n / d else 0.

Section Scalar.
  Variable k : kw R.
  Let b := bcoh k. Let t := btot k. Let p := rho k.

  (* value channel, per method, as a function of (x, y) *)
  Definition vF_to_S q f := sdiv f q + 1.
  Definition vF_to_FK q f := b * sdiv f q.
  Definition vFK_to_DCS (q : R) f := f + t.
  Definition vS_to_F q s := q * (s - 1).
  Definition vFK_to_F q f := q * f / b.
  Definition vDCS_to_FK (q : R) d := d - t.
  Definition vG_to_GK r g := b / (4 * PI * p) * sdiv g r.
  Definition vG_to_g r g := sdiv g (4 * PI * p * r) + 1.
  Definition vGK_to_G r g := 4 * PI * p / b * r * g.
  Definition vg_to_G r g := 4 * PI * r * p * (g - 1).

  Definition rval (X Y : rfun) : R -> R -> R :=
    match X, Y with
    | rS, rS => fun _ v => v | rS, rF => vS_to_F
    | rS, rFK => fun q v => vF_to_FK q (vS_to_F q v)
    | rS, rDCS => fun q v => vFK_to_DCS q (vF_to_FK q (vS_to_F q v))
    | rF, rS => vF_to_S | rF, rF => fun _ v => v | rF, rFK => vF_to_FK
    | rF, rDCS => fun q v => vFK_to_DCS q (vF_to_FK q v)
    | rFK, rS => fun q v => vF_to_S q (vFK_to_F q v) | rFK, rF => vFK_to_F
    | rFK, rFK => fun _ v => v | rFK, rDCS => vFK_to_DCS
    | rDCS, rS => fun q v => vF_to_S q (vFK_to_F q (vDCS_to_FK q v))
    | rDCS, rF => fun q v => vFK_to_F q (vDCS_to_FK q v)
    | rDCS, rFK => vDCS_to_FK | rDCS, rDCS => fun _ v => v
    end.
  Definition gval (X Y : gfun) : R -> R -> R :=
    match X, Y with
    | gg, gg => fun _ v => v | gg, gG => vg_to_G | gg, gGK => fun r v => vG_to_GK r (vg_to_G r v)
    | gG, gg => vG_to_g | gG, gG => fun _ v => v | gG, gGK => vG_to_GK
    | gGK, gg => fun r v => vG_to_g r (vGK_to_G r v) | gGK, gG => vGK_to_G | gGK, gGK => fun _ v => v
    end.

  (* uncertainty channel: the value map with the additive constants removed *)
  Definition eF_to_S q d := sdiv d q.
  Definition eF_to_FK q d := b * sdiv d q.
  Definition eS_to_F (q d : R) := q * d.
  Definition eFK_to_F q d := q * d / b.
  Definition eG_to_GK r d := b / (4 * PI * p) * sdiv d r.
  Definition eG_to_g r d := sdiv d (4 * PI * p * r).
  Definition eGK_to_G r d := 4 * PI * p / b * r * d.
  Definition eg_to_G r d := 4 * PI * r * p * d.
  Definition rerr (X Y : rfun) : R -> R -> R :=
    match X, Y with
    | rS, rS => fun _ v => v | rS, rF => eS_to_F
    | rS, rFK => fun q v => eF_to_FK q (eS_to_F q v)
    | rS, rDCS => fun q v => eF_to_FK q (eS_to_F q v)
    | rF, rS => eF_to_S | rF, rF => fun _ v => v | rF, rFK => eF_to_FK
    | rF, rDCS => eF_to_FK
    | rFK, rS => fun q v => eF_to_S q (eFK_to_F q v) | rFK, rF => eFK_to_F
    | rFK, rFK => fun _ v => v | rFK, rDCS => fun _ v => v
    | rDCS, rS => fun q v => eF_to_S q (eFK_to_F q v)
    | rDCS, rF => eFK_to_F
    | rDCS, rFK => fun _ v => v | rDCS, rDCS => fun _ v => v
    end.
  Definition gerr (X Y : gfun) : R -> R -> R :=
    match X, Y with
    | gg, gg => fun _ v => v | gg, gG => eg_to_G | gg, gGK => fun r v => eG_to_GK r (eg_to_G r v)
    | gG, gg => eG_to_g | gG, gG => fun _ v => v | gG, gGK => eG_to_GK
    | gGK, gg => fun r v => eG_to_g r (eGK_to_G r v) | gGK, gG => eGK_to_G | gGK, gGK => fun _ v => v
    end.
End Scalar.

Lemma safe_divide_R n d : safe_divide n d = map2 (fun d n => sdiv n d) d n.
Proof. unfold safe_divide. revert d; induction n as [|x n IH]; intros [|y d]; cbn; auto. f_equal. apply IH. Qed.

Lemma map_as_map2 {X} (f : R -> R) (l : list X) (m : list R) :
  length m = length l -> map f m = map2 (fun _ y => f y) l m.
Proof. revert m; induction l as [|x l IH]; intros [|y m] L; cbn in *; try lia; auto. f_equal. apply IH. lia. Qed.

Lemma dflt_len (y : list R) d n : length y = n -> (forall d', d = Some d' -> length d' = n) ->
  length (dflt_zeros y d) = n.
Proof. intros Ly Ld. destruct d as [d'|]; cbn; [apply Ld; reflexivity|]. unfold zeros_like. rewrite map_length. exact Ly. Qed.

Lemma map2_id_snd {X} (l : list X) (m : list R) : length m = length l -> map2 (fun _ v => v) l m = m.
Proof. intros L. apply map2_snd. lia. Qed.

Ltac vec_norm :=
  repeat (rewrite ?map_map2, ?map2_map_r, ?map2_map_l, ?map2_map2_r, ?map_map).

Ltac conv_unfold :=
  repeat unfold idconv, S_to_DCS, S_to_FK, S_to_F, F_to_DCS, F_to_FK, F_to_S, FK_to_S, FK_to_F, FK_to_DCS,
         DCS_to_S, DCS_to_F, DCS_to_FK, g_to_GK, g_to_G, G_to_GK, G_to_g, GK_to_g, GK_to_G,
         vadd_s, vsub_s, vscale, vmul, fourpi;
  cbn [dflt_zeros]; rewrite ?safe_divide_R; numR.

(* Every method is the pointwise application of its scalar content.  The two
   channels are stated for vectors of the same length as the abscissa (numpy
   would raise otherwise). *)
Theorem rconv_pointwise X Y (k : kw R) q v d :
  length v = length q -> (forall d', d = Some d' -> length d' = length q) ->
  rconv X Y q v d k = (map2 (rval k X Y) q v, map2 (rerr k X Y) q (dflt_zeros v d)).
Proof.
  intros Lv Ld. pose proof (dflt_len v d _ Lv Ld) as Le.
  destruct X, Y; cbn [rconv rval rerr]; conv_unfold;
  rewrite ?(map_as_map2 _ q v Lv); vec_norm;
  rewrite ?map2_id_snd by assumption; reflexivity.
Qed.

Theorem gconv_pointwise X Y (k : kw R) r v d :
  length v = length r -> (forall d', d = Some d' -> length d' = length r) ->
  gconv X Y r v d k = (map2 (gval k X Y) r v, map2 (gerr k X Y) r (dflt_zeros v d)).
Proof.
  intros Lv Ld. pose proof (dflt_len v d _ Lv Ld) as Le.
  destruct X, Y; cbn [gconv gval gerr]; conv_unfold;
  rewrite ?(map_as_map2 _ r v Lv); vec_norm;
  rewrite ?map2_id_snd by assumption; reflexivity.
Qed.

(* ---------- defining formulas (C03 / C04) ---------- *)
Section Spec.
  Variable k : kw R.
  Let b := bcoh k. Let t := btot k. Let p := rho k.

  (* every reciprocal-space function in terms of S(Q), and back *)
  Definition toS (X : rfun) (q v : R) : R :=
    match X with rS => v | rF => v / q + 1 | rFK => v / b + 1 | rDCS => (v - t) / b + 1 end.
  Definition fromS (Y : rfun) (q s : R) : R :=
    match Y with rS => s | rF => q * (s - 1) | rFK => b * (s - 1) | rDCS => b * (s - 1) + t end.
  Definition rspec (X Y : rfun) (q v : R) : R := fromS Y q (toS X q v).

  Definition tog (X : gfun) (r v : R) : R :=
    match X with gg => v | gG => v / (4 * PI * p * r) + 1 | gGK => v / b + 1 end.
  Definition fromg (Y : gfun) (r g : R) : R :=
    match Y with gg => g | gG => 4 * PI * p * r * (g - 1) | gGK => b * (g - 1) end.
  Definition gspec (X Y : gfun) (r v : R) : R := fromg Y r (tog X r v).

  Lemma sdiv_pos n d : 0 < d -> sdiv n d = n / d.
  Proof. intros. unfold sdiv. rewrite Rltb_true; auto. Qed.
  Lemma sdiv_nonpos n d : d <= 0 -> sdiv n d = 0.
  Proof. intros. unfold sdiv. rewrite Rltb_false; auto; lra. Qed.

  Lemma toS_fromS X q s : 0 < q -> b <> 0 -> toS X q (fromS X q s) = s.
  Proof. intros Hq Hb. destruct X; cbn; try reflexivity; field; lra. Qed.
  Lemma fromS_toS X q v : 0 < q -> b <> 0 -> fromS X q (toS X q v) = v.
  Proof. intros Hq Hb. destruct X; cbn; try reflexivity; field; lra. Qed.

  Lemma rval_spec X Y q v : 0 < q -> b <> 0 -> rval k X Y q v = rspec X Y q v.
  Proof.
    intros Hq Hb. unfold rspec.
    destruct X, Y; cbn [rval toS fromS];
    unfold vF_to_S, vF_to_FK, vFK_to_DCS, vS_to_F, vFK_to_F, vDCS_to_FK;
    rewrite ?sdiv_pos by assumption; fold b t; try reflexivity; field; lra.
  Qed.

  Lemma rspec_roundtrip X Y q v : 0 < q -> b <> 0 -> rspec Y X q (rspec X Y q v) = v.
  Proof. intros. unfold rspec. rewrite toS_fromS by assumption. apply fromS_toS; assumption. Qed.
  Lemma rspec_path X Z Y q v : 0 < q -> b <> 0 -> rspec Z Y q (rspec X Z q v) = rspec X Y q v.
  Proof. intros. unfold rspec. rewrite toS_fromS by assumption. reflexivity. Qed.

  (* conventional values at Q = 0 (what the guarded divisions produce) *)
  Definition rat0 (X Y : rfun) (v : R) : R :=
    match Y with
    | rS => match X with rS => v | _ => 1 end
    | rF => match X with rF => v | _ => 0 end
    | rFK => match X with rFK => v | rDCS => v - t | _ => 0 end
    | rDCS => match X with rDCS => v | rFK => v + t | _ => t end
    end.
  Lemma rval_at0 X Y v : rval k X Y 0 v = rat0 X Y v.
  Proof.
    destruct X, Y; cbn [rval rat0];
    unfold vF_to_S, vF_to_FK, vFK_to_DCS, vS_to_F, vFK_to_F, vDCS_to_FK;
    rewrite ?sdiv_nonpos by lra; fold b t; try reflexivity; unfold Rdiv; ring.
  Qed.

  Lemma tog_fromg X r g : 0 < r -> 0 < p -> b <> 0 -> tog X r (fromg X r g) = g.
  Proof. intros Hr Hp Hb. pose proof PI_RGT_0. destruct X; cbn; try reflexivity; field; try lra; repeat split; lra. Qed.
  Lemma fromg_tog X r v : 0 < r -> 0 < p -> b <> 0 -> fromg X r (tog X r v) = v.
  Proof. intros Hr Hp Hb. pose proof PI_RGT_0. destruct X; cbn; try reflexivity; field; try lra; repeat split; lra. Qed.

  Lemma fourpirho_pos r : 0 < r -> 0 < p -> 0 < 4 * PI * p * r.
  Proof. intros Hr Hp. pose proof PI_RGT_0 as Hpi.
    apply Rmult_lt_0_compat; [|exact Hr]. apply Rmult_lt_0_compat; [|exact Hp]. lra. Qed.

  Lemma gval_spec X Y r v : 0 < r -> 0 < p -> b <> 0 -> gval k X Y r v = gspec X Y r v.
  Proof.
    intros Hr Hp Hb. pose proof PI_RGT_0 as Hpi. pose proof (fourpirho_pos r Hr Hp) as H4. unfold gspec.
    destruct X, Y; cbn [gval tog fromg];
    unfold vG_to_GK, vG_to_g, vGK_to_G, vg_to_G;
    rewrite ?sdiv_pos by (fold p; first [assumption | nra]); fold b t p; try reflexivity;
    try (field; repeat split; lra).
  Qed.
  Lemma gspec_roundtrip X Y r v : 0 < r -> 0 < p -> b <> 0 -> gspec Y X r (gspec X Y r v) = v.
  Proof. intros. unfold gspec. rewrite tog_fromg by assumption. apply fromg_tog; assumption. Qed.
  Lemma gspec_path X Z Y r v : 0 < r -> 0 < p -> b <> 0 -> gspec Z Y r (gspec X Z r v) = gspec X Y r v.
  Proof. intros. unfold gspec. rewrite tog_fromg by assumption. reflexivity. Qed.

  Definition gat0 (X Y : gfun) (v : R) : R :=
    match Y with
    | gg => match X with gg => v | _ => 1 end
    | gG => match X with gG => v | _ => 0 end
    | gGK => match X with gGK => v | _ => 0 end
    end.
  Lemma gval_at0 X Y v : gval k X Y 0 v = gat0 X Y v.
  Proof.
    destruct X, Y; cbn [gval gat0];
    unfold vG_to_GK, vG_to_g, vGK_to_G, vg_to_G;
    rewrite ?Rmult_0_r; rewrite ?sdiv_nonpos by lra; fold b t p; try reflexivity; try ring.
  Qed.
End Spec.

(* ---------- list-level statements ---------- *)
Definition allpos (l : list R) : Prop := Forall (fun x => 0 < x) l.
Definition dok (d : option (list R)) (n : nat) : Prop := forall d', d = Some d' -> length d' = n.

Lemma dok_some l n : length l = n -> dok (Some l) n.
Proof. intros L d' E. injection E as <-. exact L. Qed.
Lemma dok_none n : dok None n. Proof. intros d' E; discriminate. Qed.

Section ListLevel.
  Variable k : kw R.

  Theorem rconv_formula X Y q v d : allpos q -> bcoh k <> 0 -> length v = length q -> dok d (length q) ->
    fst (rconv X Y q v d k) = map2 (rspec k X Y) q v.
  Proof. intros Hq Hb Lv Ld. rewrite rconv_pointwise by assumption. cbn [fst].
    apply Forall_map2_ext with (P := fun x => 0 < x); [exact Hq|]. intros; apply rval_spec; assumption. Qed.

  Lemma map2_compose_id (f g : R -> R -> R) (P : R -> Prop) q v :
    Forall P q -> length v = length q -> (forall x y, P x -> f x (g x y) = y) ->
    map2 f q (map2 g q v) = v.
  Proof. intros F L E. rewrite map2_map2_r. rewrite (Forall_map2_ext P _ (fun _ y => y) q v F) by (intros; apply E; assumption).
    apply map2_snd. lia. Qed.

  Theorem rconv_roundtrip X Y q v d d' : allpos q -> bcoh k <> 0 -> length v = length q ->
    dok d (length q) -> dok d' (length q) ->
    fst (rconv Y X q (fst (rconv X Y q v d k)) d' k) = v.
  Proof. intros Hq Hb Lv Ld Ld'.
    rewrite (rconv_formula X Y) by assumption.
    rewrite rconv_formula; try assumption.
    2:{ rewrite map2_length, Lv. apply Nat.min_id. }
    apply map2_compose_id with (P := fun x => 0 < x); auto. intros; apply rspec_roundtrip; assumption. Qed.

  Theorem rconv_path X Z Y q v d d' d'' : allpos q -> bcoh k <> 0 -> length v = length q ->
    dok d (length q) -> dok d' (length q) -> dok d'' (length q) ->
    fst (rconv Z Y q (fst (rconv X Z q v d k)) d' k) = fst (rconv X Y q v d'' k).
  Proof. intros Hq Hb Lv Ld Ld' Ld''.
    rewrite (rconv_formula X Z), (rconv_formula X Y) by assumption.
    rewrite rconv_formula; try assumption.
    2:{ rewrite map2_length, Lv. apply Nat.min_id. }
    rewrite map2_map2_r. apply Forall_map2_ext with (P := fun x => 0 < x); auto.
    intros; apply rspec_path; assumption. Qed.

  (* At Q = 0 the result is the conventional finite value, whatever the
     function value there (and whatever the other entries are). *)
  Theorem rconv_at_zero X Y q v d i : length v = length q -> dok d (length q) ->
    (i < length q)%nat -> nth i q 0 = 0 ->
    nth i (fst (rconv X Y q v d k)) 0 = rat0 k X Y (nth i v 0).
  Proof. intros Lv Ld Hi Hq0. rewrite rconv_pointwise by assumption. cbn [fst].
    rewrite (nth_map2 _ _ _ _ 0 0) by lia. rewrite Hq0. apply rval_at0. Qed.

  Theorem gconv_formula X Y r v d : allpos r -> 0 < rho k -> bcoh k <> 0 -> length v = length r -> dok d (length r) ->
    fst (gconv X Y r v d k) = map2 (gspec k X Y) r v.
  Proof. intros Hr Hp Hb Lv Ld. rewrite gconv_pointwise by assumption. cbn [fst].
    apply Forall_map2_ext with (P := fun x => 0 < x); [exact Hr|]. intros; apply gval_spec; assumption. Qed.

  Theorem gconv_roundtrip X Y r v d d' : allpos r -> 0 < rho k -> bcoh k <> 0 -> length v = length r ->
    dok d (length r) -> dok d' (length r) ->
    fst (gconv Y X r (fst (gconv X Y r v d k)) d' k) = v.
  Proof. intros Hr Hp Hb Lv Ld Ld'.
    rewrite (gconv_formula X Y) by assumption.
    rewrite gconv_formula; try assumption.
    2:{ rewrite map2_length, Lv. apply Nat.min_id. }
    apply map2_compose_id with (P := fun x => 0 < x); auto. intros; apply gspec_roundtrip; assumption. Qed.

  Theorem gconv_path X Z Y r v d d' d'' : allpos r -> 0 < rho k -> bcoh k <> 0 -> length v = length r ->
    dok d (length r) -> dok d' (length r) -> dok d'' (length r) ->
    fst (gconv Z Y r (fst (gconv X Z r v d k)) d' k) = fst (gconv X Y r v d'' k).
  Proof. intros Hr Hp Hb Lv Ld Ld' Ld''.
    rewrite (gconv_formula X Z), (gconv_formula X Y) by assumption.
    rewrite gconv_formula; try assumption.
    2:{ rewrite map2_length, Lv. apply Nat.min_id. }
    rewrite map2_map2_r. apply Forall_map2_ext with (P := fun x => 0 < x); auto.
    intros; apply gspec_path; assumption. Qed.

  Theorem gconv_at_zero X Y r v d i : length v = length r -> dok d (length r) ->
    (i < length r)%nat -> nth i r 0 = 0 ->
    nth i (fst (gconv X Y r v d k)) 0 = gat0 X Y (nth i v 0).
  Proof. intros Lv Ld Hi Hr0. rewrite gconv_pointwise by assumption. cbn [fst].
    rewrite (nth_map2 _ _ _ _ 0 0) by lia. rewrite Hr0. apply gval_at0. Qed.
End ListLevel.

(* ---------- uncertainties (C06) ---------- *)
Section Unc.
  Variable k : kw R.
  Let b := bcoh k. Let t := btot k. Let p := rho k.

  Definition dtoS (X : rfun) (q : R) : R := match X with rS => 1 | rF => / q | rFK => / b | rDCS => / b end.
  Definition dfromS (Y : rfun) (q : R) : R := match Y with rS => 1 | rF => q | rFK => b | rDCS => b end.
  (* d (rspec X Y q v) / d v *)
  Definition rderiv (X Y : rfun) (q : R) : R := dfromS Y q * dtoS X q.
  Definition dtog (X : gfun) (r : R) : R := match X with gg => 1 | gG => / (4 * PI * p * r) | gGK => / b end.
  Definition dfromg (Y : gfun) (r : R) : R := match Y with gg => 1 | gG => 4 * PI * p * r | gGK => b end.
  Definition gderiv (X Y : gfun) (r : R) : R := dfromg Y r * dtog X r.

  (* the conversions are affine in the function value with slope rderiv: that
     is what "derivative" means in the statements below *)
  Lemma rspec_affine X Y q v h : 0 < q -> b <> 0 -> rspec k X Y q (v + h) - rspec k X Y q v = rderiv X Y q * h.
  Proof. intros Hq Hb. unfold rspec, rderiv. destruct X, Y; cbn; fold b t; field; lra. Qed.
  Lemma gspec_affine X Y r v h : 0 < r -> 0 < p -> b <> 0 -> gspec k X Y r (v + h) - gspec k X Y r v = gderiv X Y r * h.
  Proof. intros Hr Hp Hb. pose proof PI_RGT_0. unfold gspec, gderiv. destruct X, Y; cbn; fold b t p; field; repeat split; lra. Qed.

  Lemma rderiv_pos X Y q : 0 < q -> 0 < b -> 0 < rderiv X Y q.
  Proof. intros Hq Hb. unfold rderiv. apply Rmult_lt_0_compat; [destruct Y|destruct X]; cbn; try lra;
    apply Rinv_0_lt_compat; assumption. Qed.
  Lemma gderiv_pos X Y r : 0 < r -> 0 < p -> 0 < b -> 0 < gderiv X Y r.
  Proof. intros Hr Hp Hb. pose proof (fourpirho_pos k r Hr Hp) as H4. fold p in H4. unfold gderiv.
    apply Rmult_lt_0_compat; [destruct Y|destruct X]; cbn; try lra; apply Rinv_0_lt_compat; assumption. Qed.

  Lemma rerr_deriv X Y q e : 0 < q -> 0 < b -> rerr k X Y q e = Rabs (rderiv X Y q) * e.
  Proof. intros Hq Hb. rewrite Rabs_pos_eq by (left; apply rderiv_pos; assumption). unfold rderiv.
    destruct X, Y; cbn [rerr dtoS dfromS]; unfold eF_to_S, eF_to_FK, eS_to_F, eFK_to_F;
    rewrite ?sdiv_pos by assumption; fold b; try reflexivity; field; lra. Qed.
  Lemma gerr_deriv X Y r e : 0 < r -> 0 < p -> 0 < b -> gerr k X Y r e = Rabs (gderiv X Y r) * e.
  Proof. intros Hr Hp Hb. pose proof PI_RGT_0 as Hpi. pose proof (fourpirho_pos k r Hr Hp) as H4.
    rewrite Rabs_pos_eq by (left; apply gderiv_pos; assumption). unfold gderiv.
    destruct X, Y; cbn [gerr dtog dfromg]; unfold eG_to_GK, eG_to_g, eGK_to_G, eg_to_G;
    rewrite ?sdiv_pos by (fold p; first [assumption | nra]); fold b p; try reflexivity;
    field; repeat split; lra. Qed.

  (* no uncertainty in -> zero out, for every abscissa (also x <= 0) *)
  Lemma rerr_zero X Y q : rerr k X Y q 0 = 0.
  Proof. destruct X, Y; cbn [rerr]; unfold eF_to_S, eF_to_FK, eS_to_F, eFK_to_F, sdiv;
    repeat match goal with |- context [Rltb ?a ?c] => destruct (Rltb a c) end; fold b; unfold Rdiv; ring. Qed.
  Lemma gerr_zero X Y r : gerr k X Y r 0 = 0.
  Proof. destruct X, Y; cbn [gerr]; unfold eG_to_GK, eG_to_g, eGK_to_G, eg_to_G, sdiv;
    repeat match goal with |- context [Rltb ?a ?c] => destruct (Rltb a c) end; fold b p; unfold Rdiv; ring. Qed.

  Lemma rderiv_inv X Y q : 0 < q -> b <> 0 -> rderiv Y X q * rderiv X Y q = 1.
  Proof. intros. unfold rderiv. destruct X, Y; cbn; field; lra. Qed.
  Lemma gderiv_inv X Y r : 0 < r -> 0 < p -> b <> 0 -> gderiv Y X r * gderiv X Y r = 1.
  Proof. intros. pose proof PI_RGT_0. unfold gderiv. destruct X, Y; cbn; field; repeat split; lra. Qed.
End Unc.

Section UncList.
  Variable k : kw R.

  Theorem rconv_unc_first_order X Y q v e : allpos q -> 0 < bcoh k -> length v = length q -> length e = length q ->
    snd (rconv X Y q v (Some e) k) = map2 (fun q e => Rabs (rderiv k X Y q) * e) q e.
  Proof. intros Hq Hb Lv Le. rewrite rconv_pointwise by (first [assumption | apply dok_some; assumption]). cbn [snd dflt_zeros].
    apply Forall_map2_ext with (P := fun x => 0 < x); auto. intros; apply rerr_deriv; assumption. Qed.

  Theorem rconv_unc_value_independent X Y q v v' d : length v = length q -> length v' = length q -> dok d (length q) ->
    snd (rconv X Y q v d k) = snd (rconv X Y q v' d k).
  Proof. intros Lv Lv' Ld. rewrite !rconv_pointwise by assumption. cbn [snd].
    destruct d as [e|]; cbn [dflt_zeros]; [reflexivity|]. unfold zeros_like.
    rewrite !map2_map_r. clear Ld. revert v v' Lv Lv'. induction q as [|x q IH]; intros [|a v] [|a' v'] L L'; cbn in *; try lia; auto.
    f_equal. apply IH; lia. Qed.

  Theorem rconv_unc_none_zero X Y q v : length v = length q ->
    snd (rconv X Y q v None k) = map (fun _ => 0) q.
  Proof. intros Lv. rewrite rconv_pointwise by (first [assumption | apply dok_none]). cbn [snd dflt_zeros]. unfold zeros_like.
    rewrite map2_map_r. revert v Lv. induction q as [|x q IH]; intros [|a v] L; cbn in *; try lia; auto.
    f_equal; [apply rerr_zero | apply IH; lia]. Qed.

  Theorem rconv_unc_nonneg X Y q v e : allpos q -> 0 < bcoh k -> length v = length q -> length e = length q ->
    Forall (fun x => 0 <= x) e -> Forall (fun x => 0 <= x) (snd (rconv X Y q v (Some e) k)).
  Proof. intros Hq Hb Lv Le He. rewrite rconv_unc_first_order by assumption.
    clear Lv v. revert e Le He. induction Hq as [|x q Hx Hq IH]; intros [|a e] Le He; cbn in *; try lia; constructor.
    - inversion He; subst. apply Rmult_le_pos; [apply Rabs_pos | assumption].
    - inversion He; subst. apply IH; [lia | assumption]. Qed.

  Theorem rconv_unc_roundtrip X Y q v v' e : allpos q -> 0 < bcoh k -> length v = length q -> length v' = length q -> length e = length q ->
    snd (rconv Y X q v' (Some (snd (rconv X Y q v (Some e) k))) k) = e.
  Proof. intros Hq Hb Lv Lv' Le.
    rewrite (rconv_unc_first_order X Y) by assumption.
    rewrite rconv_unc_first_order; try assumption.
    2:{ rewrite map2_length, Le. apply Nat.min_id. }
    apply map2_compose_id with (P := fun x => 0 < x); auto.
    intros x y Hx. rewrite !Rabs_pos_eq by (left; apply rderiv_pos; assumption).
    rewrite <- Rmult_assoc, rderiv_inv by lra. ring. Qed.

  Theorem gconv_unc_first_order X Y r v e : allpos r -> 0 < rho k -> 0 < bcoh k -> length v = length r -> length e = length r ->
    snd (gconv X Y r v (Some e) k) = map2 (fun r e => Rabs (gderiv k X Y r) * e) r e.
  Proof. intros Hr Hp Hb Lv Le. rewrite gconv_pointwise by (first [assumption | apply dok_some; assumption]). cbn [snd dflt_zeros].
    apply Forall_map2_ext with (P := fun x => 0 < x); auto. intros; apply gerr_deriv; assumption. Qed.

  Theorem gconv_unc_value_independent X Y r v v' d : length v = length r -> length v' = length r -> dok d (length r) ->
    snd (gconv X Y r v d k) = snd (gconv X Y r v' d k).
  Proof. intros Lv Lv' Ld. rewrite !gconv_pointwise by assumption. cbn [snd].
    destruct d as [e|]; cbn [dflt_zeros]; [reflexivity|]. unfold zeros_like.
    rewrite !map2_map_r. clear Ld. revert v v' Lv Lv'. induction r as [|x r IH]; intros [|a v] [|a' v'] L L'; cbn in *; try lia; auto.
    f_equal. apply IH; lia. Qed.

  Theorem gconv_unc_none_zero X Y r v : length v = length r ->
    snd (gconv X Y r v None k) = map (fun _ => 0) r.
  Proof. intros Lv. rewrite gconv_pointwise by (first [assumption | apply dok_none]). cbn [snd dflt_zeros]. unfold zeros_like.
    rewrite map2_map_r. revert v Lv. induction r as [|x r IH]; intros [|a v] L; cbn in *; try lia; auto.
    f_equal; [apply gerr_zero | apply IH; lia]. Qed.

  Theorem gconv_unc_nonneg X Y r v e : allpos r -> 0 < rho k -> 0 < bcoh k -> length v = length r -> length e = length r ->
    Forall (fun x => 0 <= x) e -> Forall (fun x => 0 <= x) (snd (gconv X Y r v (Some e) k)).
  Proof. intros Hr Hp Hb Lv Le He. rewrite gconv_unc_first_order by assumption.
    clear Lv v. revert e Le He. induction Hr as [|x r Hx Hr IH]; intros [|a e] Le He; cbn in *; try lia; constructor.
    - inversion He; subst. apply Rmult_le_pos; [apply Rabs_pos | assumption].
    - inversion He; subst. apply IH; [lia | assumption]. Qed.

  Theorem gconv_unc_roundtrip X Y r v v' e : allpos r -> 0 < rho k -> 0 < bcoh k -> length v = length r -> length v' = length r -> length e = length r ->
    snd (gconv Y X r v' (Some (snd (gconv X Y r v (Some e) k))) k) = e.
  Proof. intros Hr Hp Hb Lv Lv' Le.
    rewrite (gconv_unc_first_order X Y) by assumption.
    rewrite gconv_unc_first_order; try assumption.
    2:{ rewrite map2_length, Le. apply Nat.min_id. }
    apply map2_compose_id with (P := fun x => 0 < x); auto.
    intros x y Hx. rewrite !Rabs_pos_eq by (left; apply gderiv_pos; assumption).
    rewrite <- Rmult_assoc, gderiv_inv by lra. ring. Qed.
End UncList.
