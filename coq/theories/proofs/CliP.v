(* CliP.v -- the command-line run after the merge is a run of the workflow
   state machine, and its Keen outputs are the conversions of the final curves. *)
From Coq Require Import List Reals Bool.
From PyStoG Require Import Num NumR ConverterM TransformerM FilterM StogM CliM.
Import ListNotations.

Section P.
  Variable c : @config R.

  Lemma cli_is_a_run filter_on lorch_on (s0 : @state R) :
    fst (cli_after_merge c filter_on lorch_on s0) = run c s0 (cli_ops c filter_on lorch_on s0).
  Proof.
    unfold cli_after_merge, cli_ops, run.
    set (s1 := fst (transform_merged c s0)).
    set (fl1 := flow_of_merged s1).
    destruct (cli_filter c filter_on s1 fl1) as [s2 fl2] eqn:EF.
    destruct (cli_lorch c lorch_on s2 fl2) as [s3 fl3] eqn:EL.
    cbn [fst].
    rewrite !fold_left_app. cbn [fold_left step]. fold s1.
    assert (H2 : fold_left (step c) (if filter_on then [OFilter] else []) s1 = s2).
    { unfold cli_filter in EF. destruct filter_on; cbn [fold_left step].
      - destruct (fourier_filter c s1) as [s' o]. injection EF as <- _. reflexivity.
      - injection EF as <- _. reflexivity. }
    rewrite H2.
    assert (H3 : fold_left (step c) (if lorch_on then [OLorch (f_q fl2) (f_sq fl2) (f_r fl2)] else []) s2 = s3).
    { unfold cli_lorch in EL. destruct lorch_on; cbn [fold_left step].
      - destruct (apply_lorch c s2 (f_q fl2) (f_sq fl2) (f_r fl2)) as [s' rg]. injection EL as <- _. reflexivity.
      - injection EL as <- _. reflexivity. }
    rewrite H3. reflexivity.
  Qed.

  (* the Keen outputs are the conversions of the final (q, sq) and (r, gr_out) *)
  Lemma cli_keen_outputs filter_on lorch_on (s0 : @state R) :
    let '(s, fl) := cli_after_merge c filter_on lorch_on s0 in
    t_fq s = Some (f_q fl, fst (S_to_FK (f_q fl) (f_sq fl) None (conv_kw c))) /\
    t_gk s = Some (f_r fl, fst (gconv (c_fn c) gGK (f_r fl) (f_gr fl) None (conv_kw c))).
  Proof.
    unfold cli_after_merge.
    destruct (cli_filter c filter_on _ _) as [s2 fl2].
    destruct (cli_lorch c lorch_on s2 fl2) as [s3 fl3].
    unfold add_keen_gr, add_keen_fq.
    destruct (S_to_FK (f_q fl3) (f_sq fl3) None (conv_kw c)) as [fq dfq] eqn:E1.
    destruct (gconv (c_fn c) gGK (f_r fl3) (f_gr fl3) None (conv_kw c)) as [gk dgk] eqn:E2.
    cbn. split; reflexivity.
  Qed.

  (* which curves are "final": the Lorch output if that step ran, else the
     filter output if that ran, else the merged transform; (q, sq) from the
     filter if it ran, else the merged S(Q) *)
  Lemma cli_final_flow filter_on lorch_on (s0 : @state R) :
    let s1 := fst (transform_merged c s0) in
    let fl1 := flow_of_merged s1 in
    let '(s2, fl2) := cli_filter c filter_on s1 fl1 in
    let fl := snd (cli_after_merge c filter_on lorch_on s0) in
    f_q fl = f_q fl2 /\ f_sq fl = f_sq fl2 /\
    (lorch_on = false -> f_r fl = f_r fl2 /\ f_gr fl = f_gr fl2) /\
    (filter_on = false -> fl2 = fl1).
  Proof.
    unfold cli_after_merge. cbn zeta.
    destruct (cli_filter c filter_on _ _) as [s2 fl2] eqn:EF.
    unfold cli_lorch. destruct lorch_on.
    - destruct (apply_lorch c s2 (f_q fl2) (f_sq fl2) (f_r fl2)) as [s' rg]. cbn.
      repeat split; try discriminate.
      intros ->. unfold cli_filter in EF. injection EF as _ <-. reflexivity.
    - cbn. repeat split; try reflexivity.
      intros ->. unfold cli_filter in EF. injection EF as _ <-. reflexivity.
  Qed.
End P.
