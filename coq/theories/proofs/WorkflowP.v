(* WorkflowP.v -- C12: the workflow steps of StoG (transform_merged, fourier_filter,
   apply_lorch, _add_keen_fq, _add_keen_gr; stog.py:1159-1381) are the library
   primitives applied to the merged data, and their results do not depend on the
   order or repetition of the steps.  At the real numbers. *)
From Coq Require Import List Reals Lra Lia Bool ZArith.
From PyStoG Require Import Num NumR ConverterM TransformerM FilterM StogM.
From PyStoG.proofs Require Import VecLib ConverterP NamedP.
Import ListNotations.
Open Scope R_scope.

Notation stateR := (@state R).
Notation configR := (@config R).
Notation curveR := (@curve R).
Notation opR := (@op R).

(* ---------- what the steps compute ---------- *)

(* the transform of the merged S(Q): S_to_<fn>(q, sq, dr, lorch=False, rho, <b_coh>^2) *)
Definition T (c : configR) (s : stateR) : curveR :=
  let '(q, sq) := curve_or_empty (t_sq s) in
  let '(r, g, _) := q2r rS (c_fn c) q sq (c_dr c) None (transform_kw c) in (r, g).

(* the Fourier filter applied to the merged S(Q) and a real-space curve (r, gr) *)
Definition filter_call (c : configR) (s : stateR) (rg : curveR) : fout R :=
  let '(q, sq) := curve_or_empty (t_sq s) in
  filter_variant (c_fn c) rS (fst rg) (snd rg) q sq (c_cutoff c) None None (filter_kw c).

(* what fourier_filter returns, and where it stores it *)
Definition filter_ret (o : fout R) : @filter_out R :=
  {| fo_q := map around2 (q_c o); fo_sq := y_c o; fo_r := r_o o; fo_gr := g_o o |}.
Definition with_filter (s : stateR) (o : fout R) : stateR :=
  {| s_xmin := s_xmin s; s_xmax := s_xmax s; s_recip := s_recip s; s_sq := s_sq s;
     t_sq := t_sq s; t_qsq := t_qsq s;
     t_ft := Some (map around2 (q_ft o), y_ft o);
     t_sqft := Some (map around2 (q_c o), y_c o);
     t_fq := t_fq s; t_gr := t_gr s;
     t_grft := Some (r_o o, g_o o);
     t_grl := t_grl s; t_gk := t_gk s |}.

(* the filter applied to the merged data and its transform *)
Definition Fout (c : configR) (s : stateR) : @filter_out R :=
  snd (fourier_filter c (set_gr s (Some (T c s)))).

(* single-slot updates *)
Definition with_grl (s : stateR) (v : option curveR) : stateR :=
  {| s_xmin := s_xmin s; s_xmax := s_xmax s; s_recip := s_recip s; s_sq := s_sq s;
     t_sq := t_sq s; t_qsq := t_qsq s; t_ft := t_ft s; t_sqft := t_sqft s; t_fq := t_fq s;
     t_gr := t_gr s; t_grft := t_grft s; t_grl := v; t_gk := t_gk s |}.
Definition with_fq (s : stateR) (v : option curveR) : stateR :=
  {| s_xmin := s_xmin s; s_xmax := s_xmax s; s_recip := s_recip s; s_sq := s_sq s;
     t_sq := t_sq s; t_qsq := t_qsq s; t_ft := t_ft s; t_sqft := t_sqft s; t_fq := v;
     t_gr := t_gr s; t_grft := t_grft s; t_grl := t_grl s; t_gk := t_gk s |}.
Definition with_gk (s : stateR) (v : option curveR) : stateR :=
  {| s_xmin := s_xmin s; s_xmax := s_xmax s; s_recip := s_recip s; s_sq := s_sq s;
     t_sq := t_sq s; t_qsq := t_qsq s; t_ft := t_ft s; t_sqft := t_sqft s; t_fq := t_fq s;
     t_gr := t_gr s; t_grft := t_grft s; t_grl := t_grl s; t_gk := v |}.

(* the Lorch-damped transform: S_to_<fn>(q, sq, r, lorch=True, ...) *)
Definition L (c : configR) (q sq r : list R) : curveR :=
  let '(r', g, _) := q2r rS (c_fn c) q sq r None (lorch_kw c) in (r', g).

(* ---------- the method tables ---------- *)
Lemma q2r_table :
  @q2r R NumR rS gg = S_to_g /\ @q2r R NumR rS gG = S_to_G /\ @q2r R NumR rS gGK = S_to_GK.
Proof. repeat split. Qed.
Lemma filter_variant_table :
  @filter_variant R NumR gg rS = g_using_S /\ @filter_variant R NumR gG rS = G_using_S /\
  @filter_variant R NumR gGK rS = GK_using_S.
Proof. repeat split. Qed.

(* ---------- C12.1 transform_merged ---------- *)
Theorem transform_is_library_call (c : configR) (s : stateR) :
  transform_merged c s = (set_gr s (Some (T c s)), T c s).
Proof. unfold transform_merged, T. destruct (curve_or_empty (t_sq s)) as [q sq].
  destruct (q2r rS (c_fn c) q sq (c_dr c) None (transform_kw c)) as [[r g] e]. reflexivity. Qed.

Lemma T_ext (c : configR) (s s' : stateR) : t_sq s = t_sq s' -> T c s = T c s'.
Proof. unfold T. intros ->. reflexivity. Qed.

(* set_gr touches t_gr only *)
Lemma set_gr_fields (s : stateR) v :
  t_gr (set_gr s v) = v /\
  s_xmin (set_gr s v) = s_xmin s /\ s_xmax (set_gr s v) = s_xmax s /\ s_recip (set_gr s v) = s_recip s /\
  s_sq (set_gr s v) = s_sq s /\ t_sq (set_gr s v) = t_sq s /\ t_qsq (set_gr s v) = t_qsq s /\
  t_ft (set_gr s v) = t_ft s /\ t_sqft (set_gr s v) = t_sqft s /\ t_fq (set_gr s v) = t_fq s /\
  t_grft (set_gr s v) = t_grft s /\ t_grl (set_gr s v) = t_grl s /\ t_gk (set_gr s v) = t_gk s.
Proof. repeat split. Qed.

(* ---------- C12.2 / C12.3 fourier_filter ---------- *)
Lemma map_noise16 (l : list R) : map noise16 l = l.
Proof. numR. apply map_id. Qed.

(* the state the filter works on: the transform is computed first when it is missing *)
Definition ensure_gr (c : configR) (s : stateR) : stateR :=
  match t_gr s with Some _ => s | None => set_gr s (Some (T c s)) end.

Lemma fourier_filter_eq (c : configR) (s : stateR) :
  fourier_filter c s =
    let s' := ensure_gr c s in
    let o := filter_call c s' (curve_or_empty (t_gr s')) in
    (with_filter s' o, filter_ret o).
Proof. unfold fourier_filter, ensure_gr. rewrite transform_is_library_call. cbn [fst].
  set (s' := match t_gr s with Some _ => s | None => set_gr s (Some (T c s)) end).
  cbn zeta. unfold filter_call.
  destruct (curve_or_empty (t_gr s')) as [r gr]. destruct (curve_or_empty (t_sq s')) as [q sq]. cbn [fst snd].
  rewrite !map_noise16. reflexivity. Qed.

Theorem filter_is_library_call (c : configR) (s : stateR) (r gr : list R) :
  t_gr s = Some (r, gr) ->
  fourier_filter c s =
    let o := filter_call c s (r, gr) in (with_filter s o, filter_ret o).
Proof. intros E. rewrite fourier_filter_eq. unfold ensure_gr. rewrite E. cbn zeta. rewrite E. reflexivity. Qed.

(* filter_call, spelled out *)
Lemma filter_call_unfold (c : configR) (s : stateR) (r gr q sq : list R) :
  t_sq s = Some (q, sq) ->
  filter_call c s (r, gr) = filter_variant (c_fn c) rS r gr q sq (c_cutoff c) None None (filter_kw c).
Proof. unfold filter_call. intros ->. reflexivity. Qed.

Lemma ensure_gr_none (c : configR) (s : stateR) : t_gr s = None -> ensure_gr c s = set_gr s (Some (T c s)).
Proof. unfold ensure_gr. intros ->. reflexivity. Qed.
Lemma ensure_gr_some (c : configR) (s : stateR) v : t_gr s = Some v -> ensure_gr c s = s.
Proof. unfold ensure_gr. intros ->. reflexivity. Qed.

Theorem filter_autotransforms (c : configR) (s : stateR) :
  t_gr s = None ->
  fourier_filter c s = fourier_filter c (fst (transform_merged c s)) /\
  t_gr (fst (fourier_filter c s)) = Some (T c s).
Proof. intros E. rewrite transform_is_library_call. cbn [fst].
  rewrite (fourier_filter_eq c s), (fourier_filter_eq c (set_gr s (Some (T c s)))).
  rewrite (ensure_gr_none c s E). rewrite (ensure_gr_some c (set_gr s (Some (T c s))) (T c s)) by reflexivity.
  split; reflexivity. Qed.

(* the filter result is a function of the merged S(Q) and of the transform it works on *)
Lemma filter_call_ext (c : configR) (s s' : stateR) rg : t_sq s = t_sq s' -> filter_call c s rg = filter_call c s' rg.
Proof. unfold filter_call. intros ->. reflexivity. Qed.

(* ---------- C12.4 invariants ---------- *)
Definition Inv (c : configR) (s0 s : stateR) : Prop :=
  t_sq s = t_sq s0 /\ t_qsq s = t_qsq s0 /\ (t_gr s = t_gr s0 \/ t_gr s = Some (T c s0)).

(* the stored transform is either absent or the transform of the merged data *)
Definition gr_ok (c : configR) (s0 s : stateR) : Prop := t_gr s = None \/ t_gr s = Some (T c s0).

Lemma step_t_sq (c : configR) (s : stateR) (o : opR) : t_sq (step c s o) = t_sq s /\ t_qsq (step c s o) = t_qsq s.
Proof. destruct o as [| |q sq r|q sq|r gr]; cbn [step].
  - rewrite transform_is_library_call. split; reflexivity.
  - rewrite fourier_filter_eq. cbn [fst with_filter t_sq t_qsq]. unfold ensure_gr. destruct (t_gr s); split; reflexivity.
  - unfold apply_lorch. destruct (q2r rS (c_fn c) q sq r None (lorch_kw c)) as [[r' g] e]. split; reflexivity.
  - unfold add_keen_fq. destruct (S_to_FK q sq None (conv_kw c)) as [fq e]. split; reflexivity.
  - unfold add_keen_gr. destruct (gconv (c_fn c) gGK r gr None (conv_kw c)) as [gk e]. split; reflexivity.
Qed.

(* t_gr after one step: unchanged, or the transform of the (unchanged) merged data *)
Lemma step_t_gr (c : configR) (s : stateR) (o : opR) :
  t_gr (step c s o) = t_gr s \/ t_gr (step c s o) = Some (T c s).
Proof. destruct o as [| |q sq r|q sq|r gr]; cbn [step].
  - right. rewrite transform_is_library_call. reflexivity.
  - rewrite fourier_filter_eq. cbn [fst with_filter t_gr]. unfold ensure_gr. destruct (t_gr s) eqn:E; [left; exact E | right; reflexivity].
  - left. unfold apply_lorch. destruct (q2r rS (c_fn c) q sq r None (lorch_kw c)) as [[r' g] e]. reflexivity.
  - left. unfold add_keen_fq. destruct (S_to_FK q sq None (conv_kw c)) as [fq e]. reflexivity.
  - left. unfold add_keen_gr. destruct (gconv (c_fn c) gGK r gr None (conv_kw c)) as [gk e]. reflexivity.
Qed.

Lemma inv_step (c : configR) (s0 s : stateR) (o : opR) : Inv c s0 s -> Inv c s0 (step c s o).
Proof. intros (H1 & H2 & H3). destruct (step_t_sq c s o) as [E1 E2]. split; [congruence|]. split; [congruence|].
  destruct (step_t_gr c s o) as [E|E]; rewrite E.
  - exact H3.
  - right. f_equal. apply T_ext. exact H1. Qed.

Lemma gr_ok_step (c : configR) (s0 s : stateR) (o : opR) : t_sq s = t_sq s0 -> gr_ok c s0 s -> gr_ok c s0 (step c s o).
Proof. intros H1 H3. unfold gr_ok. destruct (step_t_gr c s o) as [E|E]; rewrite E.
  - exact H3.
  - right. f_equal. apply T_ext. exact H1. Qed.

Lemma inv_refl (c : configR) (s0 : stateR) : Inv c s0 s0.
Proof. split; [reflexivity|]. split; [reflexivity|]. left; reflexivity. Qed.

Lemma inv_fold (c : configR) (s0 : stateR) (ops : list opR) : forall s, Inv c s0 s -> Inv c s0 (fold_left (step c) ops s).
Proof. induction ops as [|o ops IH]; intros s HI; cbn [fold_left]; [exact HI|]. apply IH. apply inv_step. exact HI. Qed.

Lemma gr_ok_fold (c : configR) (s0 : stateR) (ops : list opR) :
  forall s, t_sq s = t_sq s0 -> gr_ok c s0 s -> gr_ok c s0 (fold_left (step c) ops s).
Proof. induction ops as [|o ops IH]; intros s H1 HG; cbn [fold_left]; [exact HG|]. apply IH.
  - rewrite (proj1 (step_t_sq c s o)). exact H1.
  - apply gr_ok_step; assumption. Qed.

(* the invariant holds from any start state (the hypothesis on t_gr s0 is not needed for it) *)
Theorem inv_run_any (c : configR) (s0 : stateR) (ops : list opR) : Inv c s0 (run c s0 ops).
Proof. unfold run. apply inv_fold. apply inv_refl. Qed.

Theorem inv_run (c : configR) (s0 : stateR) (ops : list opR) :
  (t_gr s0 = None \/ t_gr s0 = Some (T c s0)) ->
  Inv c s0 (run c s0 ops) /\ (t_gr (run c s0 ops) = None \/ t_gr (run c s0 ops) = Some (T c s0)).
Proof. intros H0. split; [apply inv_run_any|]. unfold run. apply (gr_ok_fold c s0 ops s0); [reflexivity | exact H0]. Qed.

(* ---------- C12.5 history independence ---------- *)
Theorem transform_history_independent (c : configR) (s0 : stateR) (ops : list opR) :
  snd (transform_merged c (run c s0 ops)) = T c s0.
Proof. rewrite transform_is_library_call. cbn [snd]. apply T_ext. exact (proj1 (inv_run_any c s0 ops)). Qed.

(* everything fourier_filter produces, from a state whose merged S(Q) is that of s0 and whose
   stored transform is absent or is T c s0 *)
Lemma filter_from_ok (c : configR) (s0 s : stateR) :
  t_sq s = t_sq s0 -> gr_ok c s0 s ->
  fourier_filter c s =
    let o := filter_call c s0 (T c s0) in (with_filter (set_gr s (Some (T c s0))) o, filter_ret o).
Proof. intros H1 HG. rewrite fourier_filter_eq. cbn zeta.
  assert (ES : ensure_gr c s = set_gr s (Some (T c s0))).
  { destruct HG as [E|E].
    - rewrite (ensure_gr_none c s E). rewrite (T_ext c s s0 H1). reflexivity.
    - rewrite (ensure_gr_some c s _ E). destruct s; cbn in *. rewrite E. reflexivity. }
  rewrite ES. cbn [set_gr t_gr curve_or_empty opt_or].
  rewrite (filter_call_ext c (set_gr s (Some (T c s0))) s0 (T c s0)) by exact H1. reflexivity. Qed.

Lemma Fout_eq (c : configR) (s0 : stateR) : Fout c s0 = filter_ret (filter_call c s0 (T c s0)).
Proof. unfold Fout. rewrite (filter_from_ok c s0 (set_gr s0 (Some (T c s0)))); [reflexivity | reflexivity | right; reflexivity]. Qed.

Theorem filter_history_independent (c : configR) (s0 : stateR) (ops : list opR) :
  (t_gr s0 = None \/ t_gr s0 = Some (T c s0)) ->
  let res := fourier_filter c (run c s0 ops) in
  let ref := fourier_filter c (set_gr s0 (Some (T c s0))) in
  snd res = Fout c s0 /\
  t_ft (fst res) = t_ft (fst ref) /\ t_sqft (fst res) = t_sqft (fst ref) /\ t_grft (fst res) = t_grft (fst ref) /\
  t_gr (fst res) = Some (T c s0).
Proof. intros H0. destruct (inv_run c s0 ops H0) as [(H1 & _ & _) HG]. cbn zeta.
  rewrite Fout_eq.
  rewrite (filter_from_ok c s0 (run c s0 ops) H1 HG).
  rewrite (filter_from_ok c s0 (set_gr s0 (Some (T c s0)))); [| reflexivity | right; reflexivity].
  repeat split. Qed.

(* filter first, explicit transform first, or filter twice: the same returned record *)
Corollary filter_order_irrelevant (c : configR) (s0 : stateR) :
  t_gr s0 = None ->
  snd (fourier_filter c s0) = Fout c s0 /\
  snd (fourier_filter c (run c s0 [OTransform])) = Fout c s0 /\
  snd (fourier_filter c (run c s0 [OFilter; OTransform; OFilter])) = Fout c s0.
Proof. intros E. split; [|split].
  - exact (proj1 (filter_history_independent c s0 [] (or_introl E))).
  - exact (proj1 (filter_history_independent c s0 [OTransform] (or_introl E))).
  - exact (proj1 (filter_history_independent c s0 [OFilter; OTransform; OFilter] (or_introl E))). Qed.

(* ---------- C12.6 idempotence ---------- *)
Theorem step_idempotent (c : configR) (s : stateR) (o : opR) : step c (step c s o) o = step c s o.
Proof. destruct o as [| |q sq r|q sq|r gr]; cbn [step].
  - rewrite !transform_is_library_call. cbn [fst]. rewrite (T_ext c (set_gr s (Some (T c s))) s) by reflexivity. reflexivity.
  - rewrite (fourier_filter_eq c s). cbn [fst].
    set (s' := ensure_gr c s).
    assert (EG : exists v, t_gr s' = Some v).
    { unfold s', ensure_gr. destruct (t_gr s) eqn:E; [exists c0; exact E | eexists; reflexivity]. }
    destruct EG as [v EG].
    set (o := filter_call c s' (curve_or_empty (t_gr s'))).
    rewrite (fourier_filter_eq c (with_filter s' o)). cbn [fst].
    rewrite (ensure_gr_some c (with_filter s' o) v) by exact EG.
    cbn [with_filter t_gr]. rewrite (filter_call_ext c (with_filter s' o) s') by reflexivity. fold o. reflexivity.
  - unfold apply_lorch. destruct (q2r rS (c_fn c) q sq r None (lorch_kw c)) as [[r' g] e]. reflexivity.
  - unfold add_keen_fq. destruct (S_to_FK q sq None (conv_kw c)) as [fq e]. reflexivity.
  - unfold add_keen_gr. destruct (gconv (c_fn c) gGK r gr None (conv_kw c)) as [gk e]. reflexivity.
Qed.

(* ---------- C12.7 Lorch and Keen steps ---------- *)
Theorem lorch_is_library_call (c : configR) (s : stateR) (q sq r : list R) :
  apply_lorch c s q sq r = (with_grl s (Some (L c q sq r)), L c q sq r).
Proof. unfold apply_lorch, L. destruct (q2r rS (c_fn c) q sq r None (lorch_kw c)) as [[r' g] e]. reflexivity. Qed.

Theorem keen_fq_is_conversion (c : configR) (s : stateR) (q sq : list R) :
  add_keen_fq c s q sq = with_fq s (Some (q, fst (S_to_FK q sq None (conv_kw c)))) /\
  (allpos q -> c_bcoh c <> 0 -> length sq = length q ->
   fst (S_to_FK q sq None (conv_kw c)) = map (fun SQ => c_bcoh c * (SQ - 1)) sq).
Proof. split.
  - unfold add_keen_fq. destruct (S_to_FK q sq None (conv_kw c)) as [fq e]. reflexivity.
  - intros Hq Hb Ls. change (@S_to_FK R NumR) with (@rconv R NumR rS rFK).
    rewrite rconv_formula; [| exact Hq | exact Hb | exact Ls | apply dok_none].
    unfold rspec. cbn [toS fromS conv_kw bcoh]. rewrite <- (map_as_map2 _ q sq Ls). reflexivity. Qed.

Theorem keen_gr_is_conversion (c : configR) (s : stateR) (r gr : list R) :
  add_keen_gr c s r gr = with_gk s (Some (r, fst (gconv (c_fn c) gGK r gr None (conv_kw c)))) /\
  (allpos r -> 0 < c_rho c -> c_bcoh c <> 0 -> length gr = length r ->
   fst (gconv (c_fn c) gGK r gr None (conv_kw c)) = map2 (gspec (conv_kw c) (c_fn c) gGK) r gr) /\
  (c_fn c = gGK -> fst (gconv (c_fn c) gGK r gr None (conv_kw c)) = gr).
Proof. split; [|split].
  - unfold add_keen_gr. destruct (gconv (c_fn c) gGK r gr None (conv_kw c)) as [gk e]. reflexivity.
  - intros Hr Hp Hb Lg. apply gconv_formula; [exact Hr | exact Hp | exact Hb | exact Lg | apply dok_none].
  - intros ->. reflexivity. Qed.

(* the defining conversion to Keen's G(r), by kind of the stored real-space function *)
Lemma keen_gr_spec_table (c : configR) (r v : R) :
  gspec (conv_kw c) gg gGK r v = c_bcoh c * (v - 1) /\
  gspec (conv_kw c) gG gGK r v = c_bcoh c * (v / (4 * PI * c_rho c * r) + 1 - 1) /\
  gspec (conv_kw c) gGK gGK r v = c_bcoh c * (v / c_bcoh c + 1 - 1).
Proof. repeat split. Qed.

(* ---------- C12.8 one quotable statement ---------- *)
Definition InvFull (c : configR) (s0 s : stateR) : Prop :=
  let o := filter_call c s0 (T c s0) in
  t_sq s = t_sq s0 /\ t_qsq s = t_qsq s0 /\
  (t_gr s = t_gr s0 \/ t_gr s = Some (T c s0)) /\
  (t_ft s = t_ft s0 \/ t_ft s = Some (map around2 (q_ft o), y_ft o)) /\
  (t_sqft s = t_sqft s0 \/ t_sqft s = Some (map around2 (q_c o), y_c o)) /\
  (t_grft s = t_grft s0 \/ t_grft s = Some (r_o o, g_o o)).

Lemma step_filter_slots (c : configR) (s : stateR) (o : opR) : o <> OFilter ->
  t_ft (step c s o) = t_ft s /\ t_sqft (step c s o) = t_sqft s /\ t_grft (step c s o) = t_grft s.
Proof. destruct o as [| |q sq r|q sq|r gr]; cbn [step]; intros NF.
  - rewrite transform_is_library_call. repeat split.
  - contradiction NF; reflexivity.
  - unfold apply_lorch. destruct (q2r rS (c_fn c) q sq r None (lorch_kw c)) as [[r' g] e]. repeat split.
  - unfold add_keen_fq. destruct (S_to_FK q sq None (conv_kw c)) as [fq e]. repeat split.
  - unfold add_keen_gr. destruct (gconv (c_fn c) gGK r gr None (conv_kw c)) as [gk e]. repeat split.
Qed.

Lemma invfull_step (c : configR) (s0 s : stateR) (o : opR) :
  gr_ok c s0 s -> InvFull c s0 s -> InvFull c s0 (step c s o).
Proof. intros HG (H1 & H2 & H3 & H4 & H5 & H6).
  destruct (inv_step c s0 s o (conj H1 (conj H2 H3))) as (K1 & K2 & K3).
  unfold InvFull. cbn zeta. split; [exact K1|]. split; [exact K2|]. split; [exact K3|].
  assert (D : o = OFilter \/ o <> OFilter)
    by (destruct o; [right|left|right|right|right]; first [reflexivity | discriminate]).
  destruct D as [-> | NF].
  - cbn [step]. rewrite (filter_from_ok c s0 s H1 HG). cbn zeta. cbn [fst with_filter t_ft t_sqft t_grft].
    split; [right; reflexivity|]. split; right; reflexivity.
  - destruct (step_filter_slots c s o NF) as (E1 & E2 & E3). rewrite E1, E2, E3.
    split; [exact H4|]. split; [exact H5 | exact H6].
Qed.

Lemma invfull_fold (c : configR) (s0 : stateR) (ops : list opR) :
  forall s, t_sq s = t_sq s0 -> gr_ok c s0 s -> InvFull c s0 s -> InvFull c s0 (fold_left (step c) ops s).
Proof. induction ops as [|o ops IH]; intros s H1 HG HI; cbn [fold_left]; [exact HI|]. apply IH.
  - rewrite (proj1 (step_t_sq c s o)). exact H1.
  - apply gr_ok_step; assumption.
  - apply invfull_step; assumption. Qed.

Theorem stored_curves_are_functions_of_merged (c : configR) (s0 : stateR) (ops : list opR) :
  (t_gr s0 = None \/ t_gr s0 = Some (T c s0)) ->
  let s := run c s0 ops in
  let o := filter_call c s0 (T c s0) in
  t_sq s = t_sq s0 /\ t_qsq s = t_qsq s0 /\
  (t_gr s = t_gr s0 \/ t_gr s = Some (T c s0)) /\
  (t_ft s = t_ft s0 \/ t_ft s = Some (map around2 (q_ft o), y_ft o)) /\
  (t_sqft s = t_sqft s0 \/ t_sqft s = Some (map around2 (q_c o), y_c o)) /\
  (t_grft s = t_grft s0 \/ t_grft s = Some (r_o o, g_o o)).
Proof. intros H0. unfold run. apply (invfull_fold c s0 ops s0); [reflexivity | exact H0 |].
  unfold InvFull. cbn zeta. repeat split; left; reflexivity. Qed.

(* ---------- the statements with the library calls written out ---------- *)
Lemma T_unfold (c : configR) (s : stateR) (q sq : list R) :
  curve_or_empty (t_sq s) = (q, sq) ->
  T c s = (let lib := q2r rS (c_fn c) q sq (c_dr c) None (transform_kw c) in (tr_grid lib, tr_val lib)).
Proof. intros E. cbn zeta. unfold T. rewrite E.
  destruct (q2r rS (c_fn c) q sq (c_dr c) None (transform_kw c)) as [[r g] e]. reflexivity. Qed.

Theorem transform_is_library_call_explicit (c : configR) (s : stateR) (q sq : list R) :
  curve_or_empty (t_sq s) = (q, sq) ->
  let lib := q2r rS (c_fn c) q sq (c_dr c) None (transform_kw c) in
  T c s = (tr_grid lib, tr_val lib) /\
  transform_merged c s = (set_gr s (Some (T c s)), T c s).
Proof. intros E. cbn zeta. split; [exact (T_unfold c s q sq E) | apply transform_is_library_call]. Qed.

Theorem filter_is_library_call_explicit (c : configR) (s : stateR) (r gr q sq : list R) :
  t_gr s = Some (r, gr) -> curve_or_empty (t_sq s) = (q, sq) ->
  let o := filter_variant (c_fn c) rS r gr q sq (c_cutoff c) None None (filter_kw c) in
  fourier_filter c s = (with_filter s o, filter_ret o).
Proof. intros E Eq. cbn zeta. rewrite (filter_is_library_call c s r gr E). cbn zeta.
  unfold filter_call. rewrite Eq. reflexivity. Qed.

Theorem lorch_is_library_call_explicit (c : configR) (s : stateR) (q sq r : list R) :
  let lib := q2r rS (c_fn c) q sq r None (lorch_kw c) in
  apply_lorch c s q sq r = (with_grl s (Some (tr_grid lib, tr_val lib)), (tr_grid lib, tr_val lib)).
Proof. cbn zeta. rewrite lorch_is_library_call. unfold L.
  destruct (q2r rS (c_fn c) q sq r None (lorch_kw c)) as [[r' g] e]. reflexivity. Qed.

(* the fixed filter result: the library filter on the merged S(Q) and its transform *)
Lemma filter_call_T_unfold (c : configR) (s0 : stateR) (q sq : list R) :
  curve_or_empty (t_sq s0) = (q, sq) ->
  filter_call c s0 (T c s0) =
    filter_variant (c_fn c) rS (fst (T c s0)) (snd (T c s0)) q sq (c_cutoff c) None None (filter_kw c).
Proof. intros E. unfold filter_call. rewrite E. reflexivity. Qed.

(* apply_lorch passes fewer keywords than lorch_kw holds ({lorch, rho} for g(r), {lorch} for G(r));
   the methods called do not read the others, so the model's record is harmless: *)
Lemma lorch_unread_keys (c : configR) (q sq r : list R) (k : kw R) :
  lorch k = true -> omitted k = false ->
  S_to_G q sq r None k = S_to_G q sq r None (lorch_kw c) /\
  (rho k = c_rho c -> S_to_g q sq r None k = S_to_g q sq r None (lorch_kw c)) /\
  (rho k = c_rho c -> bcoh k = c_bcoh c -> S_to_GK q sq r None k = S_to_GK q sq r None (lorch_kw c)).
Proof. intros Hl Ho.
  assert (EG : forall f d, F_to_G q f r d k = F_to_G q f r d (lorch_kw c)).
  { intros f d. unfold F_to_G, fourier_transform. rewrite Hl, Ho. reflexivity. }
  split; [|split].
  - unfold S_to_G, S_to_F. apply EG.
  - intros Hr. unfold S_to_g, S_to_F, F_to_g. rewrite EG.
    destruct (F_to_G q _ r _ (lorch_kw c)) as [[r' g] dg]. unfold G_to_g. rewrite Hr. reflexivity.
  - intros Hr Hb. unfold S_to_GK, S_to_F, F_to_GK. rewrite EG.
    destruct (F_to_G q _ r _ (lorch_kw c)) as [[r' g] dg]. unfold G_to_GK. rewrite Hr, Hb. reflexivity.
Qed.

(* ---------- concrete instances (the hypotheses are satisfiable, the conclusions not trivial) ---------- *)
Definition wf_config : configR :=
  {| c_qmin := None; c_qmax := None; c_rho := 1; c_bcoh := 1; c_btot := 1; c_dr := [1; 2];
     c_lowq := true; c_lorch := false; c_cutoff := 1; c_fn := gG;
     c_merge := {| m_Y := None; m_F := None |} |}.
(* a freshly merged state: only the merged curves are present *)
Definition wf_state : stateR :=
  {| s_xmin := 1; s_xmax := 3; s_recip := ([], [], []); s_sq := ([], [], []);
     t_sq := Some ([1; 2; 3], [1; 2; 1]); t_qsq := Some ([1; 2; 3], [0; 2; 0]);
     t_ft := None; t_sqft := None; t_fq := None;
     t_gr := None; t_grft := None; t_grl := None; t_gk := None |}.

Lemma run_snoc (c : configR) (s : stateR) (ops : list opR) (o : opR) : run c s (ops ++ [o]) = step c (run c s ops) o.
Proof. unfold run. rewrite fold_left_app. reflexivity. Qed.

Example transform_is_library_call_nonvacuous :
  t_gr wf_state = None /\ t_gr (fst (transform_merged wf_config wf_state)) = Some (T wf_config wf_state) /\
  fst (T wf_config wf_state) = [1; 2].
Proof. split; [reflexivity|]. rewrite transform_is_library_call. split; [reflexivity|].
  unfold T, wf_state, wf_config. cbn [t_sq curve_or_empty opt_or c_fn c_dr q2r]. unfold S_to_G, S_to_F, F_to_G, fourier_transform.
  cbn [dflt_zeros]. destruct (apply_cropping _ _ _ _ _) as [[a b] e]. reflexivity. Qed.

Example filter_is_library_call_nonvacuous : exists r gr,
  t_gr (run wf_config wf_state [OTransform]) = Some (r, gr) /\ (r, gr) = T wf_config wf_state.
Proof. exists (fst (T wf_config wf_state)), (snd (T wf_config wf_state)).
  change (run wf_config wf_state [OTransform]) with (fst (transform_merged wf_config wf_state)).
  rewrite transform_is_library_call. cbn [fst set_gr t_gr]. rewrite <- surjective_pairing. split; reflexivity. Qed.

Example filter_autotransforms_nonvacuous : t_gr wf_state = None.
Proof. reflexivity. Qed.

(* a sequence in which the filter runs before and after the explicit transform *)
Example inv_run_nonvacuous :
  let s := run wf_config wf_state [OFilter; OTransform; OFilter] in
  (t_gr wf_state = None \/ t_gr wf_state = Some (T wf_config wf_state)) /\
  Inv wf_config wf_state s /\ t_gr s = Some (T wf_config wf_state) /\ t_gr s <> t_gr wf_state /\
  t_sq s = Some ([1; 2; 3], [1; 2; 1]).
Proof. cbn zeta. split; [left; reflexivity|]. split; [apply inv_run_any|].
  assert (E : t_gr (run wf_config wf_state [OFilter; OTransform; OFilter]) = Some (T wf_config wf_state)).
  { change [OFilter; OTransform; OFilter] with ([@OFilter R; OTransform] ++ [OFilter]). rewrite run_snoc. cbn [step].
    exact (proj2 (proj2 (proj2 (proj2 (filter_history_independent wf_config wf_state [OFilter; OTransform] (or_introl eq_refl)))))). }
  split; [exact E|]. split; [rewrite E; discriminate|].
  rewrite (proj1 (inv_run_any wf_config wf_state _)). reflexivity. Qed.

Example filter_history_independent_nonvacuous :
  (t_gr wf_state = None \/ t_gr wf_state = Some (T wf_config wf_state)) /\
  (let s1 := set_gr wf_state (Some (T wf_config wf_state)) in
   t_gr s1 = None \/ t_gr s1 = Some (T wf_config s1)) /\
  snd (fourier_filter wf_config (run wf_config wf_state [OFilter; OTransform; OFilter])) =
  snd (fourier_filter wf_config (run wf_config wf_state [OTransform; OLorch [1; 2] [1; 1] [1]; OKeenFQ [1] [2]])).
Proof. split; [left; reflexivity|]. split; [right; reflexivity|].
  rewrite (proj1 (filter_history_independent wf_config wf_state [OFilter; OTransform; OFilter] (or_introl eq_refl))).
  rewrite (proj1 (filter_history_independent wf_config wf_state [OTransform; OLorch [1; 2] [1; 1] [1]; OKeenFQ [1] [2]] (or_introl eq_refl))).
  reflexivity. Qed.

(* the filter slots really change: after one filter step they hold the fixed value, not the initial None *)
Example stored_curves_are_functions_of_merged_nonvacuous :
  let o := filter_call wf_config wf_state (T wf_config wf_state) in
  t_ft wf_state = None /\
  t_ft (run wf_config wf_state [OFilter]) = Some (map around2 (q_ft o), y_ft o) /\
  t_grft (run wf_config wf_state [OFilter; OTransform; OFilter]) = Some (r_o o, g_o o).
Proof. cbn zeta. split; [reflexivity|]. split.
  - change (run wf_config wf_state [OFilter]) with (fst (fourier_filter wf_config wf_state)).
    rewrite (filter_from_ok wf_config wf_state wf_state eq_refl (or_introl eq_refl)). reflexivity.
  - change [OFilter; OTransform; OFilter] with ([@OFilter R; OTransform] ++ [OFilter]). rewrite run_snoc. cbn [step].
    destruct (inv_run wf_config wf_state [OFilter; OTransform] (or_introl eq_refl)) as [(H1 & _ & _) HG].
    rewrite (filter_from_ok wf_config wf_state _ H1 HG). reflexivity. Qed.

Example step_idempotent_nonvacuous :
  step wf_config wf_state OFilter <> wf_state /\
  step wf_config (step wf_config wf_state OFilter) OFilter = step wf_config wf_state OFilter.
Proof. split; [|apply step_idempotent]. intros E. apply (f_equal t_gr) in E.
  cbn [step] in E. rewrite (proj2 (filter_autotransforms wf_config wf_state eq_refl)) in E. discriminate E. Qed.

Example keen_fq_is_conversion_nonvacuous :
  allpos [1; 2] /\ c_bcoh wf_config <> 0 /\ length [3; 4] = length [1; 2].
Proof. split; [repeat constructor; lra|]. split; [cbn; lra | reflexivity]. Qed.

Example keen_gr_is_conversion_nonvacuous :
  allpos [1; 2] /\ 0 < c_rho wf_config /\ c_bcoh wf_config <> 0 /\ length [3; 4] = length [1; 2] /\ c_fn wf_config <> gGK.
Proof. split; [repeat constructor; lra|]. split; [cbn; lra|]. split; [cbn; lra|]. split; [reflexivity | discriminate]. Qed.

Example lorch_is_library_call_nonvacuous :
  t_grl (fst (apply_lorch wf_config wf_state [1; 2; 3] [1; 2; 1] [1; 2])) = Some (L wf_config [1; 2; 3] [1; 2; 1] [1; 2]) /\
  t_grl wf_state = None.
Proof. rewrite lorch_is_library_call. split; reflexivity. Qed.
