(* PurityP.v -- the model of a library call is a function of its arguments (C16). *)
From Coq Require Import List Reals.
From PyStoG Require Import Num NumR ConverterM TransformerM.
Lemma model_is_a_function : forall (x y xo : list R) a b dy (k : kw R) x' y' xo' a' b' dy' k',
  x = x' -> y = y' -> xo = xo' -> a = a' -> b = b' -> dy = dy' -> k = k' ->
  fourier_transform x y xo a b dy k = fourier_transform x' y' xo' a' b' dy' k'.
Proof. intros; subst; reflexivity. Qed.
