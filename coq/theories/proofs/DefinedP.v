(* DefinedP.v -- the model run at the "defined reals" (NumE: a division by
   zero or the square root of a negative number is None) coincides with the
   run at the real numbers: under the stated guards no division by zero is
   ever evaluated. *)
From Coq Require Import List Reals Lra Lia Bool ZArith.
From PyStoG Require Import Num NumR NumE ConverterM TransformerM FilterM StogM.
From PyStoG.proofs Require Import VecLib.
Import ListNotations.
Open Scope R_scope.

(* ---------- lifting of records and results ---------- *)
Definition liftk (k : kw R) : kw ER :=
  {| rho := Some (rho k); bcoh := Some (bcoh k); btot := Some (btot k);
     lorch := lorch k; omitted := omitted k |}.
Definition lift2 (p : list R * list R) : list ER * list ER := (inj (fst p), inj (snd p)).
Definition lift3 (p : list R * list R * list R) : list ER * list ER * list ER :=
  (inj (fst (fst p)), inj (snd (fst p)), inj (snd p)).

(* ---------- scalar facts ---------- *)
Lemma Ediv_some a b : b <> 0 -> Ediv (Some a) (Some b) = Some (a / b).
Proof. intros Hb. cbn. destruct (Req_EM_T b 0); [contradiction|reflexivity]. Qed.
Lemma Ediv_zero a : Ediv (Some a) (Some 0) = None.
Proof. cbn. destruct (Req_EM_T 0 0); [reflexivity|contradiction]. Qed.
Lemma Esqrt_some a : 0 <= a -> Esqrt (Some a) = Some (R_sqrt.sqrt a).
Proof. intros Ha. cbn. destruct (Rlt_dec a 0); [lra|reflexivity]. Qed.
Lemma if_some (c : bool) (a b : R) : (if c then Some a else Some b) = Some (if c then a else b).
Proof. destruct c; reflexivity. Qed.

(* ---------- inj and the list helpers ---------- *)
Lemma inj_cons a l : inj (a :: l) = Some a :: inj l. Proof. reflexivity. Qed.
Lemma inj_length l : length (inj l) = length l. Proof. apply map_length. Qed.
Lemma inj_defined l : defined (inj l).
Proof. induction l; constructor; [discriminate|assumption]. Qed.
Lemma inj_app l m : inj (l ++ m) = inj l ++ inj m. Proof. apply map_app. Qed.

Lemma inj_map (f : ER -> ER) (g : R -> R) l :
  (forall a, f (Some a) = Some (g a)) -> map f (inj l) = inj (map g l).
Proof. intros E. unfold inj. rewrite !map_map. apply map_ext. intros; apply E. Qed.
Lemma inj_map2 (f : ER -> ER -> ER) (g : R -> R -> R) l m :
  (forall a b, f (Some a) (Some b) = Some (g a b)) -> map2 f (inj l) (inj m) = inj (map2 g l m).
Proof. intros E. revert m; induction l as [|x l IH]; intros [|y m]; cbn; auto. rewrite E. f_equal. apply IH. Qed.
Lemma inj_map2_in (f : ER -> ER -> ER) (g : R -> R -> R) l m :
  (forall a b, In (a, b) (combine l m) -> f (Some a) (Some b) = Some (g a b)) ->
  map2 f (inj l) (inj m) = inj (map2 g l m).
Proof. revert m; induction l as [|x l IH]; intros [|y m] E; cbn; auto. rewrite E by (left; reflexivity).
  f_equal. apply IH. intros; apply E; right; assumption. Qed.

Lemma inj_zeros_like {B} (l : list B) : @zeros_like ER _ B l = inj (zeros_like l).
Proof. unfold zeros_like, inj. rewrite map_map. reflexivity. Qed.
Lemma inj_ones_like {B} (l : list B) : @ones_like ER _ B l = inj (ones_like l).
Proof. unfold ones_like, inj. rewrite map_map. reflexivity. Qed.
Lemma inj_zeros_like' (l : list R) : zeros_like (inj l) = inj (zeros_like l).
Proof. unfold zeros_like, inj. rewrite !map_map. reflexivity. Qed.
Lemma inj_ones_like' (l : list R) : ones_like (inj l) = inj (ones_like l).
Proof. unfold ones_like, inj. rewrite !map_map. reflexivity. Qed.
Lemma inj_dflt v d : dflt_zeros (inj v) (option_map inj d) = inj (dflt_zeros v d).
Proof. destruct d; cbn [option_map dflt_zeros]; [reflexivity|apply inj_zeros_like']. Qed.

Lemma inj_vadd l m : vadd (inj l) (inj m) = inj (vadd l m).
Proof. apply inj_map2. reflexivity. Qed.
Lemma inj_vsub l m : vsub (inj l) (inj m) = inj (vsub l m).
Proof. apply inj_map2. reflexivity. Qed.
Lemma inj_vmul l m : vmul (inj l) (inj m) = inj (vmul l m).
Proof. apply inj_map2. reflexivity. Qed.
Lemma inj_vscale c l : vscale (Some c) (inj l) = inj (vscale c l).
Proof. apply inj_map. reflexivity. Qed.
Lemma inj_vscale_r c l : vscale_r (Some c) (inj l) = inj (vscale_r c l).
Proof. apply inj_map. reflexivity. Qed.
Lemma inj_vadd_s c l : vadd_s (Some c) (inj l) = inj (vadd_s c l).
Proof. apply inj_map. reflexivity. Qed.
Lemma inj_vsub_s c l : vsub_s (Some c) (inj l) = inj (vsub_s c l).
Proof. apply inj_map. reflexivity. Qed.

(* the guarded division: `ltb zero d` is true only when 0 < d, so the division
   is by a non-zero number *)
Lemma safe_divide_scalar (n d : R) :
  (if ltb zero (Some d) then (Some n / Some d)%num else zero) = Some (if Rltb 0 d then n / d else 0).
Proof. numE. destruct (Rltb_spec 0 d) as [Hd|Hd]; [|reflexivity].
  destruct (Req_EM_T d 0); [lra|reflexivity]. Qed.
Lemma inj_safe_divide n d : safe_divide (inj n) (inj d) = inj (safe_divide n d).
Proof. unfold safe_divide. apply inj_map2. intros a b. apply safe_divide_scalar. Qed.

(* ================= A. conversions ================= *)
Definition commutes (ME : conv ER) (MR : conv R) (k : kw R) : Prop :=
  forall q v d, ME (inj q) (inj v) (option_map inj d) (liftk k) = lift2 (MR q v d k).

Lemma commutes_compose ME1 MR1 ME2 MR2 k : commutes ME1 MR1 k -> commutes ME2 MR2 k ->
  commutes (fun q v d k => let '(a, b) := ME1 q v d k in ME2 q a (Some b) k)
           (fun q v d k => let '(a, b) := MR1 q v d k in MR2 q a (Some b) k) k.
Proof. intros H1 H2 q v d. cbv beta. rewrite H1. unfold lift2 at 1. destruct (MR1 q v d k) as [a b].
  cbn [fst snd]. apply (H2 q a (Some b)). Qed.

Section Conv.
  Variable k : kw R.
  Let b := bcoh k. Let t := btot k. Let p := rho k.

  Lemma c_idconv : commutes idconv idconv k.
  Proof. intros q v d. unfold idconv, lift2. cbn [fst snd]. rewrite inj_dflt. reflexivity. Qed.
  Lemma c_F_to_S : commutes F_to_S F_to_S k.
  Proof. intros q v d. unfold F_to_S, lift2. cbn [fst snd]. numE.
    rewrite inj_dflt, !inj_safe_divide, inj_vadd_s. reflexivity. Qed.
  Lemma c_F_to_FK : commutes F_to_FK F_to_FK k.
  Proof. intros q v d. unfold F_to_FK, lift2. cbn [fst snd liftk bcoh].
    rewrite inj_dflt, !inj_safe_divide, !inj_vscale. reflexivity. Qed.
  Lemma c_FK_to_DCS : commutes FK_to_DCS FK_to_DCS k.
  Proof. intros q v d. unfold FK_to_DCS, lift2. cbn [fst snd liftk btot].
    rewrite inj_dflt, inj_vadd_s. reflexivity. Qed.
  Lemma c_S_to_F : commutes S_to_F S_to_F k.
  Proof. intros q v d. unfold S_to_F, lift2. cbn [fst snd].
    rewrite inj_dflt, inj_vmul. f_equal. apply inj_map2. reflexivity. Qed.
  Lemma c_DCS_to_FK : commutes DCS_to_FK DCS_to_FK k.
  Proof. intros q v d. unfold DCS_to_FK, lift2. cbn [fst snd liftk btot].
    rewrite inj_dflt, inj_vsub_s. reflexivity. Qed.
  (* the one reciprocal-space division that is not guarded: by <b_coh>^2 *)
  Lemma c_FK_to_F : b <> 0 -> commutes FK_to_F FK_to_F k.
  Proof. intros Hb q v d. unfold FK_to_F, lift2. cbn [fst snd liftk bcoh].
    rewrite inj_dflt. f_equal; apply inj_map2; intros x y; numE; apply Ediv_some; exact Hb. Qed.

  Lemma c_S_to_FK : commutes S_to_FK S_to_FK k.
  Proof. exact (commutes_compose _ _ _ _ k c_S_to_F c_F_to_FK). Qed.
  Lemma c_S_to_DCS : commutes S_to_DCS S_to_DCS k.
  Proof. exact (commutes_compose _ _ _ _ k c_S_to_FK c_FK_to_DCS). Qed.
  Lemma c_F_to_DCS : commutes F_to_DCS F_to_DCS k.
  Proof. exact (commutes_compose _ _ _ _ k c_F_to_FK c_FK_to_DCS). Qed.
  Lemma c_FK_to_S : b <> 0 -> commutes FK_to_S FK_to_S k.
  Proof. intros Hb. exact (commutes_compose _ _ _ _ k (c_FK_to_F Hb) c_F_to_S). Qed.
  Lemma c_DCS_to_F : b <> 0 -> commutes DCS_to_F DCS_to_F k.
  Proof. intros Hb. exact (commutes_compose _ _ _ _ k c_DCS_to_FK (c_FK_to_F Hb)). Qed.
  Lemma c_DCS_to_S : b <> 0 -> commutes DCS_to_S DCS_to_S k.
  Proof. intros Hb. exact (commutes_compose _ _ _ _ k c_DCS_to_FK (c_FK_to_S Hb)). Qed.

  (* ---- real space ---- *)
  Lemma fourpirho_E : (fourpi * rho (liftk k))%num = Some (4 * PI * p).
  Proof. reflexivity. Qed.
  Lemma fourpirho_neq : p <> 0 -> 4 * PI * p <> 0.
  Proof. intros Hp. pose proof PI_RGT_0. apply Rmult_integral_contrapositive_currified; [lra|exact Hp]. Qed.

  (* G_to_GK divides by 4 pi rho *)
  Lemma c_G_to_GK : p <> 0 -> commutes G_to_GK G_to_GK k.
  Proof. intros Hp q v d. unfold G_to_GK, lift2. cbn [fst snd]. rewrite fourpirho_E.
    cbn [liftk bcoh]. change (@div ER NumE) with Ediv. rewrite (Ediv_some _ _ (fourpirho_neq Hp)).
    rewrite inj_dflt, !inj_safe_divide, !inj_vscale. reflexivity. Qed.
  (* G_to_g: the only division is the guarded one *)
  Lemma c_G_to_g : commutes G_to_g G_to_g k.
  Proof. intros q v d. unfold G_to_g, lift2. cbn [fst snd]. rewrite fourpirho_E.
    numE. rewrite inj_dflt, inj_vscale, !inj_safe_divide, inj_vadd_s. reflexivity. Qed.
  (* GK_to_G divides by <b_coh>^2 *)
  Lemma c_GK_to_G : b <> 0 -> commutes GK_to_G GK_to_G k.
  Proof. intros Hb q v d. unfold GK_to_G, lift2. cbn [fst snd]. rewrite fourpirho_E.
    cbn [liftk bcoh]. change (@div ER NumE) with Ediv. rewrite (Ediv_some _ _ Hb).
    rewrite inj_dflt. f_equal; apply inj_map2; reflexivity. Qed.
  Lemma c_g_to_G : commutes g_to_G g_to_G k.
  Proof. intros q v d. unfold g_to_G, lift2. cbn [fst snd]. rewrite inj_dflt.
    f_equal; apply inj_map2; reflexivity. Qed.
  Lemma c_GK_to_g : b <> 0 -> commutes GK_to_g GK_to_g k.
  Proof. intros Hb. exact (commutes_compose _ _ _ _ k (c_GK_to_G Hb) c_G_to_g). Qed.
  Lemma c_g_to_GK : p <> 0 -> commutes g_to_GK g_to_GK k.
  Proof. intros Hp. exact (commutes_compose _ _ _ _ k c_g_to_G (c_G_to_GK Hp)). Qed.

  (* All 16 reciprocal-space entries; EVERY abscissa value (0 and negative
     included), any lengths. *)
  Theorem rconv_defined X Y q v d : b <> 0 ->
    rconv X Y (inj q) (inj v) (option_map inj d) (liftk k) =
    (inj (fst (rconv X Y q v d k)), inj (snd (rconv X Y q v d k))).
  Proof. intros Hb. fold (lift2 (rconv X Y q v d k)).
    destruct X, Y; cbn [rconv];
    first [ exact (c_idconv q v d) | exact (c_S_to_F q v d) | exact (c_S_to_FK q v d) | exact (c_S_to_DCS q v d)
          | exact (c_F_to_S q v d) | exact (c_F_to_FK q v d) | exact (c_F_to_DCS q v d)
          | exact (c_FK_to_S Hb q v d) | exact (c_FK_to_F Hb q v d) | exact (c_FK_to_DCS q v d)
          | exact (c_DCS_to_S Hb q v d) | exact (c_DCS_to_F Hb q v d) | exact (c_DCS_to_FK q v d) ].
  Qed.

  (* All 9 real-space entries. *)
  Theorem gconv_defined X Y r v d : b <> 0 -> p <> 0 ->
    gconv X Y (inj r) (inj v) (option_map inj d) (liftk k) =
    (inj (fst (gconv X Y r v d k)), inj (snd (gconv X Y r v d k))).
  Proof. intros Hb Hp. fold (lift2 (gconv X Y r v d k)).
    destruct X, Y; cbn [gconv];
    first [ exact (c_idconv r v d) | exact (c_g_to_G r v d) | exact (c_g_to_GK Hp r v d)
          | exact (c_G_to_g r v d) | exact (c_G_to_GK Hp r v d)
          | exact (c_GK_to_g Hb r v d) | exact (c_GK_to_G Hb r v d) ].
  Qed.
End Conv.

(* which hypothesis each entry really needs (the table theorems above state
   the weakest common ones) *)
Definition rneeds_b (X Y : rfun) : bool :=
  match X, Y with (rFK | rDCS), (rS | rF) => true | _, _ => false end.
Definition gneeds_b (X Y : gfun) : bool := match X, Y with gGK, (gg | gG) => true | _, _ => false end.
Definition gneeds_rho (X Y : gfun) : bool := match X, Y with (gg | gG), gGK => true | _, _ => false end.

Theorem rconv_defined_sharp k X Y q v d : (rneeds_b X Y = true -> bcoh k <> 0) ->
  rconv X Y (inj q) (inj v) (option_map inj d) (liftk k) = lift2 (rconv X Y q v d k).
Proof. intros Hb.
  destruct X, Y; cbn [rconv rneeds_b] in *;
  first [ exact (c_idconv k q v d) | exact (c_S_to_F k q v d) | exact (c_S_to_FK k q v d) | exact (c_S_to_DCS k q v d)
        | exact (c_F_to_S k q v d) | exact (c_F_to_FK k q v d) | exact (c_F_to_DCS k q v d)
        | exact (c_FK_to_DCS k q v d) | exact (c_DCS_to_FK k q v d)
        | exact (c_FK_to_S k (Hb eq_refl) q v d) | exact (c_FK_to_F k (Hb eq_refl) q v d)
        | exact (c_DCS_to_S k (Hb eq_refl) q v d) | exact (c_DCS_to_F k (Hb eq_refl) q v d) ].
Qed.
Theorem gconv_defined_sharp k X Y r v d :
  (gneeds_b X Y = true -> bcoh k <> 0) -> (gneeds_rho X Y = true -> rho k <> 0) ->
  gconv X Y (inj r) (inj v) (option_map inj d) (liftk k) = lift2 (gconv X Y r v d k).
Proof. intros Hb Hp.
  destruct X, Y; cbn [gconv gneeds_b gneeds_rho] in *;
  first [ exact (c_idconv k r v d) | exact (c_g_to_G k r v d) | exact (c_g_to_GK k (Hp eq_refl) r v d)
        | exact (c_G_to_g k r v d) | exact (c_G_to_GK k (Hp eq_refl) r v d)
        | exact (c_GK_to_g k (Hb eq_refl) r v d) | exact (c_GK_to_G k (Hb eq_refl) r v d) ].
Qed.

(* the hypotheses are needed: with <b_coh>^2 = 0 the FK -> F conversion is
   undefined, with rho = 0 the G -> GK conversion is undefined *)
Definition k0 (p b : R) : kw R := {| rho := p; bcoh := b; btot := 1; lorch := false; omitted := false |}.
Lemma rconv_needs_b : fst (rconv rFK rF (inj [1]) (inj [1]) None (liftk (k0 1 0))) = [None].
Proof. cbn. destruct (Req_EM_T 0 0); [reflexivity|contradiction]. Qed.
Lemma gconv_needs_rho : fst (gconv gG gGK (inj [1]) (inj [1]) None (liftk (k0 0 1))) = [None].
Proof. cbn. rewrite Rmult_0_r. destruct (Req_EM_T 0 0); [reflexivity|contradiction]. Qed.

(* ---- sharpness of the guard ---- *)
Definition unguarded_divide (num den : list ER) : list ER :=
  map2 (fun n d => if leb zero d then (n / d)%num else zero) num den.     (* 0 <= d instead of 0 < d *)
Definition F_to_S_unguarded : conv ER := fun q fq dfq _ =>
  let dfq := dflt_zeros fq dfq in
  (vadd_s one (unguarded_divide fq q), unguarded_divide dfq q).

Lemma unguarded_division_undefined :
  (Some 1 / Some 0)%num = None /\
  (forall k, fst (F_to_S_unguarded (inj [0]) (inj [3]) None k) = [None]) /\
  (forall k, fst (F_to_S (inj [0]) (inj [3]) None k) = [Some 1]).
Proof. split; [apply Ediv_zero|]. split; intros k.
  - cbn. rewrite Rleb_true by lra. destruct (Req_EM_T 0 0); [reflexivity|contradiction].
  - cbn. rewrite Rltb_false by lra. cbn. f_equal. f_equal. lra.
Qed.

Example rconv_defined_nonvacuous :
  let k := k0 1 2 in
  bcoh k <> 0 /\
  rconv rF rS (inj [0; 2]) (inj [3; 4]) None (liftk k) = (inj [1; 3], inj [0; 0]).
Proof. cbn zeta. split; [cbn; lra|].
  etransitivity; [exact (rconv_defined (k0 1 2) rF rS [0;2] [3;4] None ltac:(cbn; lra))|].
  cbn. rewrite Rltb_false by lra. rewrite !Rltb_true by lra. unfold inj. cbn.
  repeat (f_equal; try lra). Qed.

Example gconv_defined_nonvacuous :
  let k := k0 1 2 in
  bcoh k <> 0 /\ rho k <> 0 /\
  gconv gG gGK (inj [0; 2]) (inj [3; 4]) None (liftk k) =
  (inj [0; 2 / (4 * PI * 1) * (4 / 2)], inj [0; 2 / (4 * PI * 1) * (0 / 2)]).
Proof. cbn zeta. split; [cbn; lra|]. split; [cbn; lra|].
  etransitivity; [exact (gconv_defined (k0 1 2) gG gGK [0;2] [3;4] None ltac:(cbn; lra) ltac:(cbn; lra))|].
  cbn. rewrite Rltb_false by lra. rewrite !Rltb_true by lra. unfold inj. cbn.
  rewrite !Rmult_0_r. reflexivity. Qed.

(* ================= B. Lorch weight ================= *)
Lemma lorch_weight_defined (a x : R) : lorch_weight (A:=ER) (Some a) (Some x) = Some (lorch_weight a x).
Proof. unfold lorch_weight, neqb. numE. numR. unfold Reqb.
  destruct (Req_EM_T (a * x) 0) as [E|E]; cbn [negb]; reflexivity. Qed.

Lemma pi_over_defined xmax : xmax <> 0 -> div (A:=ER) pi (Some xmax) = Some (PI / xmax).
Proof. intros Hx. apply Ediv_some. exact Hx. Qed.
Lemma pi_over_zero_undefined : div (A:=ER) pi (Some 0) = None.
Proof. apply Ediv_zero. Qed.

Lemma lorch_factor_defined xmax x : xmax <> 0 ->
  lorch_factor (A:=ER) (Some xmax) (inj x) = inj (lorch_factor xmax x).
Proof. intros Hx. unfold lorch_factor. rewrite (pi_over_defined _ Hx). apply inj_map.
  intros a. apply lorch_weight_defined. Qed.

(* with xmax = 0 every weight is undefined *)
Lemma lorch_factor_zero_undefined x : lorch_factor (A:=ER) (Some 0) (inj x) = map (fun _ => None) x.
Proof. unfold lorch_factor. rewrite pi_over_zero_undefined. unfold inj. rewrite map_map. reflexivity. Qed.

Example lorch_factor_defined_nonvacuous :
  lorch_factor (Some 2) (inj [0; 1; 2]) = inj (lorch_factor 2 [0; 1; 2]) /\
  nth 0 (lorch_factor 2 [0; 1; 2]) 0 = 1.
Proof. split; [apply lorch_factor_defined; lra|]. cbn. unfold lorch_weight, neqb. numR.
  rewrite Rmult_0_r. unfold Reqb. destruct (Req_EM_T 0 0); [reflexivity|contradiction]. Qed.

(* ================= C. the core transform ================= *)
Lemma inj_select m l : select m (inj l) = inj (select m l).
Proof. revert l; induction m as [|c m IH]; intros [|x l]; cbn; auto. destruct c; cbn; rewrite IH; reflexivity. Qed.
Lemma inj_crop_mask x lo hi : crop_mask (inj x) (Some lo) (Some hi) = crop_mask x lo hi.
Proof. unfold crop_mask, inj. rewrite map_map. reflexivity. Qed.

Lemma inj_minl d l : minl (Some d) (inj l) = Some (minl d l).
Proof. revert d; induction l as [|x l IH]; intros d; cbn [minl inj map]; [reflexivity|].
  fold (inj l). numE. numR. rewrite if_some. apply IH. Qed.
Lemma inj_maxl d l : maxl (Some d) (inj l) = Some (maxl d l).
Proof. revert d; induction l as [|x l IH]; intros d; cbn [maxl inj map]; [reflexivity|].
  fold (inj l). numE. numR. rewrite if_some. apply IH. Qed.
(* vmin [] = zero at both carriers *)
Lemma inj_vmin l : vmin (inj l) = Some (vmin l).
Proof. destruct l; [reflexivity|]. cbn [vmin inj map]. apply inj_minl. Qed.
Lemma inj_vmax l : vmax (inj l) = Some (vmax l).
Proof. destruct l; [reflexivity|]. cbn [vmax inj map]. apply inj_maxl. Qed.

Lemma inj_apply_cropping x y lo hi dy :
  apply_cropping (inj x) (inj y) (Some lo) (Some hi) (option_map inj dy) = lift3 (apply_cropping x y lo hi dy).
Proof. unfold apply_cropping, lift3. cbn [fst snd]. rewrite inj_dflt, inj_crop_mask, !inj_select. reflexivity. Qed.

Lemma two_neq_0 : 2 <> 0. Proof. lra. Qed.

Lemma trapz_cons2E (x0 x1 : ER) xs y0 y1 ys :
  trapz (x0 :: x1 :: xs) (y0 :: y1 :: ys) = ((x1 - x0) * (y1 + y0) / two + trapz (x1 :: xs) (y1 :: ys))%num.
Proof. reflexivity. Qed.
Lemma trapz_cons2R (x0 x1 : R) xs y0 y1 ys :
  trapz (x0 :: x1 :: xs) (y0 :: y1 :: ys) = (x1 - x0) * (y1 + y0) / 2 + trapz (x1 :: xs) (y1 :: ys).
Proof. reflexivity. Qed.
Lemma etrapz_cons2E (x0 x1 : ER) xs y0 y1 ys :
  etrapz (x0 :: x1 :: xs) (y0 :: y1 :: ys) =
  (((x1 - x0) * (x1 - x0)) * (y1 + y0) / two + etrapz (x1 :: xs) (y1 :: ys))%num.
Proof. reflexivity. Qed.
Lemma etrapz_cons2R (x0 x1 : R) xs y0 y1 ys :
  etrapz (x0 :: x1 :: xs) (y0 :: y1 :: ys) =
  ((x1 - x0) * (x1 - x0)) * (y1 + y0) / 2 + etrapz (x1 :: xs) (y1 :: ys).
Proof. reflexivity. Qed.

(* the only division in the quadrature is by two *)
Lemma inj_trapz xs ys : trapz (inj xs) (inj ys) = Some (trapz xs ys).
Proof. revert ys; induction xs as [|x0 xs IH]; intros ys; [destruct ys; reflexivity|].
  destruct xs as [|x1 xs]; [destruct ys; reflexivity|]. destruct ys as [|y0 [|y1 ys]]; try reflexivity.
  rewrite !inj_cons, trapz_cons2E, trapz_cons2R. rewrite <- !inj_cons, IH.
  numE. destruct (Req_EM_T 2 0); [lra|reflexivity]. Qed.
Lemma inj_etrapz xs ys : etrapz (inj xs) (inj ys) = Some (etrapz xs ys).
Proof. revert ys; induction xs as [|x0 xs IH]; intros ys; [destruct ys; reflexivity|].
  destruct xs as [|x1 xs]; [destruct ys; reflexivity|]. destruct ys as [|y0 [|y1 ys]]; try reflexivity.
  rewrite !inj_cons, etrapz_cons2E, etrapz_cons2R. rewrite <- !inj_cons, IH.
  numE. destruct (Req_EM_T 2 0); [lra|reflexivity]. Qed.

(* the argument of the square root is a sum of non-negative terms *)
Lemma etrapz_nonneg (xs es : list R) : Forall (fun e => 0 <= e) es -> 0 <= etrapz xs es.
Proof. revert es; induction xs as [|x0 xs IH]; intros es F; [destruct es; cbn; lra|].
  destruct xs as [|x1 xs]; [destruct es; cbn; lra|]. destruct es as [|e0 [|e1 es]]; try (cbn; lra).
  rewrite etrapz_cons2R. inversion F as [|? ? H0 F1]; subst. inversion F1 as [|? ? H1 F2]; subst.
  specialize (IH (e1 :: es) F1).
  assert (0 <= (x1 - x0) * (x1 - x0)) by (apply (Rle_0_sqr (x1 - x0))).
  assert (0 <= (x1 - x0) * (x1 - x0) * (e1 + e0)) by (apply Rmult_le_pos; lra). lra. Qed.
Lemma squares_nonneg (g : R -> R -> R) fe xin : Forall (fun e => 0 <= e) (map2 (fun f xi => g f xi * g f xi) fe xin).
Proof. revert xin; induction fe as [|f fe IH]; intros [|x xin]; cbn; constructor; [apply (Rle_0_sqr (g f x))|apply IH]. Qed.

Definition window_lo (x : list R) (a : option R) : R := match a with Some v => v | None => vmin x end.
Definition window_hi (x : list R) (b : option R) : R := match b with Some v => v | None => vmax x end.

Lemma ft_value_channel xin fy xo :
  map (fun x : ER => trapz (inj xin) (map2 (fun f xi => (f * sin (xi * x))%num) (inj fy) (inj xin))) (inj xo) =
  inj (map (fun x : R => trapz xin (map2 (fun f xi => (f * sin (xi * x))%num) fy xin)) xo).
Proof. apply inj_map. intros r.
  rewrite (inj_map2 _ (fun f xi => f * Rtrigo_def.sin (xi * r))) by reflexivity. apply inj_trapz. Qed.
Lemma ft_error_channel xin fe xo :
  map (fun x : ER => sqrt (etrapz (inj xin)
        (map2 (fun f xi => ((f * sin (xi * x)) * (f * sin (xi * x)))%num) (inj fe) (inj xin)))) (inj xo) =
  inj (map (fun x : R => sqrt (etrapz xin
        (map2 (fun f xi => ((f * sin (xi * x)) * (f * sin (xi * x)))%num) fe xin))) xo).
Proof. apply inj_map. intros r.
  rewrite (inj_map2 _ (fun f xi => (f * Rtrigo_def.sin (xi * r)) * (f * Rtrigo_def.sin (xi * r)))) by reflexivity.
  rewrite inj_etrapz. apply Esqrt_some. apply etrapz_nonneg.
  apply (squares_nonneg (fun f xi => f * Rtrigo_def.sin (xi * r))). Qed.

(* "finite for every finite input": all three outputs, Lorch on or off, any
   window, any lengths; the omitted-range correction is excluded (its
   divisions are not guarded, C15) *)
Theorem fourier_transform_defined (x y xo : list R) (a b : option R) (dy : option (list R)) (k : kw R) :
  omitted k = false ->
  (lorch k = true -> window_hi x b <> 0) ->
  fourier_transform (inj x) (inj y) (inj xo) (option_map Some a) (option_map Some b) (option_map inj dy) (liftk k)
  = lift3 (fourier_transform x y xo a b dy k).
Proof.
  intros HO HL. unfold fourier_transform. cbn [liftk lorch omitted]. rewrite HO.
  replace (match option_map Some b with Some v => v | None => vmax (inj x) end) with (Some (window_hi x b))
    by (destruct b; cbn [option_map window_hi]; [reflexivity|symmetry; apply inj_vmax]).
  replace (match option_map Some a with Some v => v | None => vmin (inj x) end) with (Some (window_lo x a))
    by (destruct a; cbn [option_map window_lo]; [reflexivity|symmetry; apply inj_vmin]).
  fold (window_hi x b). fold (window_lo x a).
  rewrite inj_apply_cropping. unfold lift3 at 1.
  destruct (apply_cropping x y (window_lo x a) (window_hi x b) dy) as [[xin yin] err]. cbn [fst snd].
  destruct (lorch k);
    [rewrite (lorch_factor_defined _ xin (HL eq_refl)) | rewrite inj_ones_like'];
    rewrite !inj_vmul, ft_value_channel, ft_error_channel; reflexivity.
Qed.

Example fourier_transform_defined_nonvacuous :
  let k := {| rho := 1; bcoh := 1; btot := 1; lorch := true; omitted := false |} in
  omitted k = false /\ (lorch k = true -> window_hi [1; 2; 3] None <> 0) /\
  fourier_transform (inj [1; 2; 3]) (inj [1; 1; 1]) (inj [1; 2]) None None None (liftk k) =
  lift3 (fourier_transform [1; 2; 3] [1; 1; 1] [1; 2] None None None k).
Proof. cbn zeta. split; [reflexivity|]. split.
  - intros _. cbn. rewrite (Rltb_true 1 2) by lra. rewrite (Rltb_true 2 3) by lra. lra.
  - apply (fourier_transform_defined [1;2;3] [1;1;1] [1;2] None None None); [reflexivity|].
    intros _. cbn. rewrite (Rltb_true 1 2) by lra. rewrite (Rltb_true 2 3) by lra. lra.
Qed.

(* "never NaN or infinity" as a statement about the outputs *)
Corollary rconv_total k X Y q v d : bcoh k <> 0 ->
  defined (fst (rconv X Y (inj q) (inj v) (option_map inj d) (liftk k))) /\
  defined (snd (rconv X Y (inj q) (inj v) (option_map inj d) (liftk k))).
Proof. intros Hb. rewrite (rconv_defined k X Y q v d Hb). split; apply inj_defined. Qed.
Corollary gconv_total k X Y r v d : bcoh k <> 0 -> rho k <> 0 ->
  defined (fst (gconv X Y (inj r) (inj v) (option_map inj d) (liftk k))) /\
  defined (snd (gconv X Y (inj r) (inj v) (option_map inj d) (liftk k))).
Proof. intros Hb Hp. rewrite (gconv_defined k X Y r v d Hb Hp). split; apply inj_defined. Qed.

(* ================= D. merge ================= *)
(* the two conversions merge_data calls do not read the keyword record *)
Lemma S_to_F_defined q v d (kE : kw ER) (kR : kw R) :
  S_to_F (inj q) (inj v) (option_map inj d) kE = lift2 (S_to_F q v d kR).
Proof. unfold S_to_F, lift2. cbn [fst snd]. rewrite inj_dflt, inj_vmul. f_equal. apply inj_map2. reflexivity. Qed.
Lemma F_to_S_defined q v d (kE : kw ER) (kR : kw R) :
  F_to_S (inj q) (inj v) (option_map inj d) kE = lift2 (F_to_S q v d kR).
Proof. unfold F_to_S, lift2. cbn [fst snd]. numE.
  rewrite inj_dflt, !inj_safe_divide, inj_vadd_s. reflexivity. Qed.
(* sq[np.isnan(sq)] = 0 is the identity on defined values *)
Lemma nan_to_zero_defined l :
  map (fun v : ER => if eqb v v then v else zero) (inj l) = inj (map (fun v : R => if eqb v v then v else zero) l).
Proof. apply inj_map. intros a. numE. numR. apply if_some. Qed.

Definition inji (it : @item R) : @item ER := (Some (ikey it), Some (ival it), Some (ierr it)).

Lemma zip3_inj (a : @arr3 R) : zip3 (lift3 a) = map inji (zip3 a).
Proof. destruct a as [[x y] e]. unfold lift3, zip3. cbn [fst snd].
  revert y e; induction x as [|x0 x IH]; intros [|y0 y] [|e0 e]; cbn; auto. fold (inj x) (inj y) (inj e). rewrite IH. reflexivity. Qed.
Lemma unzip3_inj (l : list (@item R)) : unzip3 (map inji l) = lift3 (unzip3 l).
Proof. unfold unzip3, lift3, inj. cbn [fst snd]. rewrite !map_map. reflexivity. Qed.

Lemma insert_inj it l : insert (inji it) (map inji l) = map inji (insert it l).
Proof. induction l as [|h t IH]; [reflexivity|]. cbn [insert map].
  change (leb (ikey (inji it)) (ikey (inji h))) with (Rleb (ikey it) (ikey h)).
  change (@leb R NumR (ikey it) (ikey h)) with (Rleb (ikey it) (ikey h)).
  destruct (Rleb (ikey it) (ikey h)); [reflexivity|]. cbn [map]. rewrite IH. reflexivity. Qed.
Lemma sort_items_inj l : sort_items (map inji l) = map inji (sort_items l).
Proof. unfold sort_items. induction l as [|h t IH]; [reflexivity|]. cbn [map fold_right]. rewrite IH. apply insert_inj. Qed.

(* emit divides by the run length nt and takes the root of a sum of squares *)
Lemma emit_inj prev nt ns ne : nt <> 0 -> 0 <= ne ->
  emit (A:=ER) (Some prev) (Some nt) (Some ns) (Some ne) = inji (emit prev nt ns ne).
Proof. intros Hn He. unfold emit, inji. cbn [ikey ival ierr fst snd].
  change (@sqrt ER NumE) with Esqrt. change (@div ER NumE) with Ediv.
  rewrite (Esqrt_some _ He), !(Ediv_some _ _ Hn). reflexivity. Qed.

Lemma go_inj l : forall prev nt ns ne, 0 < nt -> 0 <= ne ->
  go (A:=ER) (Some prev) (Some nt) (Some ns) (Some ne) (map inji l) = map inji (go prev nt ns ne l).
Proof. induction l as [|it l IH]; intros prev nt ns ne Hn He; cbn [go map].
  - rewrite emit_inj by lra. reflexivity.
  - change (eqb (ikey (inji it)) (Some prev)) with (Reqb (ikey it) prev).
    change (@eqb R NumR (ikey it) prev) with (Reqb (ikey it) prev).
    destruct (Reqb (ikey it) prev).
    + apply (IH (ikey it) (nt + 1) (ns + ival it) (ne + ierr it * ierr it)); [lra|].
      pose proof (Rle_0_sqr (ierr it)) as Hs. unfold Rsqr in Hs. lra.
    + cbn [map]. rewrite emit_inj by lra. f_equal.
      apply (IH (ikey it) 1 (ival it) (ierr it * ierr it)); [lra|]. apply (Rle_0_sqr (ierr it)).
Qed.
Lemma merge_sorted_inj l : merge_sorted (map inji l) = map inji (merge_sorted l).
Proof. destruct l as [|it l]; [reflexivity|]. cbn [merge_sorted map].
  apply (go_inj l (ikey it) 1 (ival it) (ierr it * ierr it)); [lra|]. apply (Rle_0_sqr (ierr it)). Qed.
Theorem merge_items_defined l : merge_items (map inji l) = map inji (merge_items l).
Proof. unfold merge_items. rewrite sort_items_inj. apply merge_sorted_inj. Qed.

(* ---- merge_data itself: what it stores ---- *)
Definition lifty (o : @yopts R) : @yopts ER :=
  {| o_scale := option_map Some (o_scale o); o_offset := option_map Some (o_offset o) |}.
Definition liftm (m : @mopts R) : @mopts ER :=
  {| m_Y := option_map lifty (m_Y m); m_F := option_map (option_map lifty) (m_F m) |}.

Lemma merged_yscale_inj m : merged_yscale (liftm m) = Some (merged_yscale m).
Proof. destruct m as [[[[s|] o]|] f]; reflexivity. Qed.
Lemma merged_yoffset_inj m : merged_yoffset (liftm m) = Some (merged_yoffset m).
Proof. destruct m as [[[s [o|]]|] f]; reflexivity. Qed.
Lemma f_opts_inj m : f_opts (liftm m) = lifty (f_opts m).
Proof. destruct m as [y [[o|]|]]; reflexivity. Qed.
Lemma apply_scales_inj x y dy ys yo xo :
  apply_scales_and_offset (inj x) (inj y) (inj dy) (Some ys) (Some yo) (Some xo) =
  lift3 (apply_scales_and_offset x y dy ys yo xo).
Proof. unfold apply_scales_and_offset, lift3. cbn [fst snd].
  rewrite !inj_vscale_r, !inj_vadd_s. reflexivity. Qed.

Lemma apply_scales_inj0 x y dy ys yo :
  apply_scales_and_offset (inj x) (inj y) (inj dy) (Some ys) (Some yo) zero =
  lift3 (apply_scales_and_offset x y dy ys yo zero).
Proof. apply (apply_scales_inj x y dy ys yo 0). Qed.
Lemma S_to_F_defined_some q v d (kE : kw ER) (kR : kw R) :
  S_to_F (inj q) (inj v) (Some (inj d)) kE = lift2 (S_to_F q v (Some d) kR).
Proof. exact (S_to_F_defined q v (Some d) kE kR). Qed.
Lemma F_to_S_defined_some q v d (kE : kw ER) (kR : kw R) :
  F_to_S (inj q) (inj v) (Some (inj d)) kE = lift2 (F_to_S q v (Some d) kR).
Proof. exact (F_to_S_defined q v (Some d) kE kR). Qed.

(* merge_data, with the destructuring lets written as projections (any carrier) *)
Section MergeProj.
  Context {A : Type} `{Num A}.
  Definition merge_q_sq_f (c : @config A) (s : @state A) : list A * list A * list A :=
    let m := unzip3 (merge_sorted (sort_items (zip3 (s_sq s)))) in
    let a := apply_scales_and_offset (fst (fst m)) (snd (fst m)) (snd m)
               (merged_yscale (c_merge c)) (merged_yoffset (c_merge c)) zero in
    let q := fst (fst a) in
    let F := S_to_F q (snd (fst a)) (Some (snd a)) (conv_kw c) in
    let f1 := match o_scale (f_opts (c_merge c)) with Some v => vscale_r v (fst F) | None => fst F end in
    let f2 := match o_offset (f_opts (c_merge c)) with Some v => vadd_s v f1 | None => f1 end in
    let S := F_to_S q f2 (Some (snd F)) (conv_kw c) in
    (q, map (fun v => if eqb v v then v else zero) (fst S), f2).
  Lemma merge_data_proj c s :
    s_sq (merge_data c s) = unzip3 (sort_items (zip3 (s_sq s))) /\
    t_sq (merge_data c s) = Some (fst (fst (merge_q_sq_f c s)), snd (fst (merge_q_sq_f c s))) /\
    t_qsq (merge_data c s) = Some (fst (fst (merge_q_sq_f c s)), snd (merge_q_sq_f c s)).
  Proof. unfold merge_data, merge_q_sq_f.
    destruct (unzip3 (merge_sorted (sort_items (zip3 (s_sq s))))) as [[q sq] dsq]. cbn [fst snd].
    destruct (apply_scales_and_offset q sq dsq (merged_yscale (c_merge c)) (merged_yoffset (c_merge c)) zero)
      as [[q' sq'] dsq']. cbn [fst snd].
    destruct (S_to_F q' sq' (Some dsq') (conv_kw c)) as [fofq dfofq]. cbn [fst snd].
    destruct (F_to_S q' _ (Some dfofq) (conv_kw c)) as [sq2 dsq2]. cbn [fst snd s_sq t_sq t_qsq].
    auto. Qed.
End MergeProj.

Lemma merge_q_sq_f_defined (cE : @config ER) (sE : @state ER) (cR : @config R) (sR : @state R) :
  c_merge cE = liftm (c_merge cR) -> s_sq sE = lift3 (s_sq sR) ->
  merge_q_sq_f cE sE = lift3 (merge_q_sq_f cR sR).
Proof.
  intros Hm Hs. unfold merge_q_sq_f. rewrite Hm, Hs.
  rewrite zip3_inj, sort_items_inj, merge_sorted_inj, !unzip3_inj.
  rewrite merged_yscale_inj, merged_yoffset_inj, f_opts_inj.
  destruct (unzip3 (merge_sorted (sort_items (zip3 (s_sq sR))))) as [[q sq] dsq].
  unfold lift3. cbn [fst snd]. rewrite !apply_scales_inj0.
  destruct (apply_scales_and_offset q sq dsq (merged_yscale (c_merge cR)) (merged_yoffset (c_merge cR)) zero)
    as [[q' sq'] dsq'].
  unfold lift3. cbn [fst snd].
  rewrite !(S_to_F_defined_some _ _ _ (conv_kw cE) (conv_kw cR)).
  destruct (S_to_F q' sq' (Some dsq') (conv_kw cR)) as [fofq dfofq].
  unfold lift2. cbn [fst snd lifty o_scale o_offset].
  destruct (o_scale (f_opts (c_merge cR))) as [sc|], (o_offset (f_opts (c_merge cR))) as [of|];
    cbn [option_map]; rewrite ?inj_vscale_r, ?inj_vadd_s;
    rewrite !(F_to_S_defined_some _ _ _ (conv_kw cE) (conv_kw cR)); unfold lift2; cbn [fst snd];
    rewrite nan_to_zero_defined; reflexivity.
Qed.

(* Only the merge options and the stored S(Q) rows are read.  No positivity
   of Q is needed: the final F_to_S call is guarded. *)
Theorem merge_data_defined (cE : @config ER) (sE : @state ER) (cR : @config R) (sR : @state R) :
  c_merge cE = liftm (c_merge cR) -> s_sq sE = lift3 (s_sq sR) ->
  s_sq (merge_data cE sE) = lift3 (s_sq (merge_data cR sR)) /\
  t_sq (merge_data cE sE) = option_map lift2 (t_sq (merge_data cR sR)) /\
  t_qsq (merge_data cE sE) = option_map lift2 (t_qsq (merge_data cR sR)).
Proof.
  intros Hm Hs.
  destruct (merge_data_proj cE sE) as (A1 & A2 & A3). destruct (merge_data_proj cR sR) as (B1 & B2 & B3).
  rewrite A1, A2, A3, B1, B2, B3. rewrite (merge_q_sq_f_defined cE sE cR sR Hm Hs). rewrite Hs.
  rewrite zip3_inj, sort_items_inj, unzip3_inj. split; [reflexivity|]. split; reflexivity.
Qed.

(* the pieces of merge_data, in one statement (b-independent, every Q) *)
Theorem merge_pieces_defined (q v : list R) (d : option (list R)) (kE : kw ER) (kR : kw R) (c : R) (l : list R) :
  S_to_F (inj q) (inj v) (option_map inj d) kE = lift2 (S_to_F q v d kR) /\
  F_to_S (inj q) (inj v) (option_map inj d) kE = lift2 (F_to_S q v d kR) /\
  vscale_r (A:=ER) (Some c) (inj l) = inj (vscale_r c l) /\
  vadd_s (A:=ER) (Some c) (inj l) = inj (vadd_s c l) /\
  map (fun v : ER => if eqb v v then v else zero) (inj l) = inj (map (fun v : R => if eqb v v then v else zero) l).
Proof. split; [apply S_to_F_defined|]. split; [apply F_to_S_defined|]. split; [apply inj_vscale_r|].
  split; [apply inj_vadd_s|apply nan_to_zero_defined]. Qed.

Example merge_items_defined_nonvacuous :
  merge_items (map inji [(1, 1, 1); (1, 3, 1)]) =
  [(Some 1, Some ((1 + 3) / (1 + 1)), Some (R_sqrt.sqrt (1 * 1 + 1 * 1) / (1 + 1)))].
Proof. rewrite merge_items_defined. unfold merge_items, sort_items.
  cbn [fold_right insert ikey fst snd]. numR. rewrite Rleb_true by lra.
  cbn [merge_sorted go ikey ival ierr fst snd]. numR. unfold Reqb.
  destruct (Req_EM_T 1 1); [|contradiction]. reflexivity. Qed.

(* the hypotheses of merge_data_defined hold for the lifted configuration / state *)
Definition liftcfg (c : @config R) : @config ER :=
  {| c_qmin := option_map Some (c_qmin c); c_qmax := option_map Some (c_qmax c);
     c_rho := Some (c_rho c); c_bcoh := Some (c_bcoh c); c_btot := Some (c_btot c);
     c_dr := inj (c_dr c); c_lowq := c_lowq c; c_lorch := c_lorch c;
     c_cutoff := Some (c_cutoff c); c_fn := c_fn c; c_merge := liftm (c_merge c) |}.
Definition liftst (s : @state R) : @state ER :=
  {| s_xmin := Some (s_xmin s); s_xmax := Some (s_xmax s);
     s_recip := lift3 (s_recip s); s_sq := lift3 (s_sq s);
     t_sq := option_map lift2 (t_sq s); t_qsq := option_map lift2 (t_qsq s);
     t_ft := option_map lift2 (t_ft s); t_sqft := option_map lift2 (t_sqft s);
     t_fq := option_map lift2 (t_fq s); t_gr := option_map lift2 (t_gr s);
     t_grft := option_map lift2 (t_grft s); t_grl := option_map lift2 (t_grl s);
     t_gk := option_map lift2 (t_gk s) |}.
(* merge_data touches nothing else, so the whole state commutes *)
Theorem merge_data_state_defined (c : @config R) (s : @state R) :
  merge_data (liftcfg c) (liftst s) = liftst (merge_data c s).
Proof.
  destruct (merge_data_defined (liftcfg c) (liftst s) c s eq_refl eq_refl) as (E1 & E2 & E3).
  assert (P : forall (A : Type) (H : Num A) (c : @config A) (s : @state A),
     merge_data c s = {| s_xmin := s_xmin s; s_xmax := s_xmax s; s_recip := s_recip s;
       s_sq := s_sq (merge_data c s); t_sq := t_sq (merge_data c s); t_qsq := t_qsq (merge_data c s);
       t_ft := t_ft s; t_sqft := t_sqft s; t_fq := t_fq s; t_gr := t_gr s; t_grft := t_grft s;
       t_grl := t_grl s; t_gk := t_gk s |}).
  { intros A H c0 s0. unfold merge_data.
    destruct (unzip3 _) as [[q sq] dsq]. destruct (apply_scales_and_offset _ _ _ _ _ _) as [[q' sq'] dsq'].
    destruct (S_to_F _ _ _ _) as [f df]. destruct (F_to_S _ _ _ _) as [s2 ds2]. reflexivity. }
  rewrite (P ER NumE). rewrite E1, E2, E3. rewrite (P R NumR c s) at 4. reflexivity.
Qed.

Example merge_data_defined_nonvacuous :
  let s := {| s_xmin := 1; s_xmax := 2; s_recip := ([], [], []); s_sq := ([2; 1; 2], [1; 3; 3], [1; 0; 1]);
              t_sq := None; t_qsq := None; t_ft := None; t_sqft := None; t_fq := None;
              t_gr := None; t_grft := None; t_grl := None; t_gk := None |} in
  forall c : @config R,
  c_merge (liftcfg c) = liftm (c_merge c) /\ s_sq (liftst s) = lift3 (s_sq s) /\
  exists q sq, t_sq (merge_data (liftcfg c) (liftst s)) = Some (inj q, inj sq).
Proof. cbn zeta. intros c. split; [reflexivity|]. split; [reflexivity|].
  rewrite merge_data_state_defined. cbn [liftst t_sq].
  destruct (merge_data_proj c {| s_xmin := 1; s_xmax := 2; s_recip := ([], [], []); s_sq := ([2; 1; 2], [1; 3; 3], [1; 0; 1]);
              t_sq := None; t_qsq := None; t_ft := None; t_sqft := None; t_fq := None;
              t_gr := None; t_grft := None; t_grl := None; t_gk := None |}) as (_ & E & _).
  rewrite E. cbn [option_map lift2 fst snd]. eexists; eexists; reflexivity. Qed.

(* the transform outputs are defined *)
Corollary fourier_transform_total x y xo a b dy k :
  omitted k = false -> (lorch k = true -> window_hi x b <> 0) ->
  let o := fourier_transform (inj x) (inj y) (inj xo) (option_map Some a) (option_map Some b)
             (option_map inj dy) (liftk k) in
  defined (fst (fst o)) /\ defined (snd (fst o)) /\ defined (snd o).
Proof. intros HO HL. cbn zeta. rewrite (fourier_transform_defined x y xo a b dy k HO HL).
  unfold lift3. cbn [fst snd]. split; [|split]; apply inj_defined. Qed.

(* the table theorems with the keyword records written out *)
Lemma rconv_defined_explicit (p b t : R) (l o : bool) X Y (q v : list R) (d : option (list R)) :
  b <> 0 ->
  let kE : kw ER := {| rho := Some p; bcoh := Some b; btot := Some t; lorch := l; omitted := o |} in
  let kR : kw R := {| rho := p; bcoh := b; btot := t; lorch := l; omitted := o |} in
  rconv X Y (inj q) (inj v) (option_map inj d) kE =
  (inj (fst (rconv X Y q v d kR)), inj (snd (rconv X Y q v d kR))).
Proof. intros Hb.
  exact (rconv_defined {| rho := p; bcoh := b; btot := t; lorch := l; omitted := o |} X Y q v d Hb). Qed.
Lemma gconv_defined_explicit (p b t : R) (l o : bool) X Y (r v : list R) (d : option (list R)) :
  b <> 0 -> p <> 0 ->
  let kE : kw ER := {| rho := Some p; bcoh := Some b; btot := Some t; lorch := l; omitted := o |} in
  let kR : kw R := {| rho := p; bcoh := b; btot := t; lorch := l; omitted := o |} in
  gconv X Y (inj r) (inj v) (option_map inj d) kE =
  (inj (fst (gconv X Y r v d kR)), inj (snd (gconv X Y r v d kR))).
Proof. intros Hb Hp.
  exact (gconv_defined {| rho := p; bcoh := b; btot := t; lorch := l; omitted := o |} X Y r v d Hb Hp). Qed.
