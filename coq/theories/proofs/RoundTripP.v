(* RoundTripP.v -- the model's fourier_transform (TransformerM.v, at the real
   numbers) without Lorch window and without low-x correction is the plain
   trapezoid sine sum; on matched uniform grids r_j = j dr, Q_k = k pi/(N dr)
   the two directions G_to_F / F_to_G invert each other exactly (discrete sine
   orthogonality), and so do the named methods g_to_S / S_to_g. *)
From PyStoG Require Import Num NumR ConverterM TransformerM.
From PyStoG.proofs Require Import VecLib ConverterP DstP.
(* Reals is imported last so that sin, cos, sqrt are the real functions here *)
From Coq Require Import List Reals Lra Lia.
Import ListNotations.
Open Scope R_scope.

(* ---------- vocabulary of the statements ---------- *)
(* a transform returns (abscissa, values, uncertainties) *)
Definition vals (t : list R * list R * list R) : list R := snd (fst t).
(* no Lorch window, no low-x correction: the defaults of the library *)
Definition plain (k : kw R) : Prop := lorch k = false /\ omitted k = false.
(* matched grids: r_j = j dr,  Q_k = k pi/(N dr),  j, k = 0..N *)
Definition rgrid (N : nat) (dr : R) : list R := map (fun j => INR j * dr) (seq 0 (S N)).
Definition qgrid (N : nat) (dr : R) : list R := map (fun j => INR j * (PI / (INR N * dr))) (seq 0 (S N)).

(* internal shorthands *)
Definition grid (N : nat) (h : R) : list R := map (fun j => INR j * h) (seq 0 (S N)).
Definition sine_sum (x y : list R) (x' : R) : R :=
  trapz x (map2 (fun yj xj => yj * sin (xj * x')) y x).
Definition ft (x y xo : list R) : list R := map (sine_sum x y) xo.

Lemma rgrid_grid N dr : rgrid N dr = grid N dr. Proof. reflexivity. Qed.
Lemma qgrid_grid N dr : qgrid N dr = grid N (PI / (INR N * dr)). Proof. reflexivity. Qed.

(* ---------- cropping to [min x, max x] keeps everything ---------- *)
Lemma minl_spec d l : minl d l <= d /\ Forall (fun e => minl d l <= e) l.
Proof.
  revert d; induction l as [|x l IH]; intros d; cbn [minl]; numR.
  - split; [lra|constructor].
  - destruct (IH x) as [A B]; destruct (IH d) as [C D].
    destruct (Rltb_spec x d) as [H|H].
    + split; [lra|constructor; [exact A|exact B]].
    + split; [exact C|constructor; [lra|exact D]].
Qed.
Lemma maxl_spec d l : d <= maxl d l /\ Forall (fun e => e <= maxl d l) l.
Proof.
  revert d; induction l as [|x l IH]; intros d; cbn [maxl]; numR.
  - split; [lra|constructor].
  - destruct (IH x) as [A B]; destruct (IH d) as [C D].
    destruct (Rltb_spec d x) as [H|H].
    + split; [lra|constructor; [exact A|exact B]].
    + split; [exact C|constructor; [lra|exact D]].
Qed.
Lemma vmin_vmax_bounds (x : list R) : Forall (fun e => vmin x <= e <= vmax x) x.
Proof.
  destruct x as [|a x]; [constructor|]. cbn [vmin vmax].
  destruct (minl_spec a x) as [A B], (maxl_spec a x) as [C D].
  constructor; [lra|]. rewrite Forall_forall in *. intros e He. split; auto.
Qed.
Lemma select_all_true {B} (m : list R) (l : list B) :
  length l = length m -> select (map (fun _ => true) m) l = l.
Proof.
  revert l; induction m as [|a m IH]; intros [|b l] L; cbn in *; try lia; auto.
  f_equal. apply IH. lia.
Qed.
Lemma crop_full {B} (x : list R) (l : list B) :
  length l = length x -> select (crop_mask x (vmin x) (vmax x)) l = l.
Proof.
  intros L. unfold crop_mask. rewrite (map_ext_in _ (fun _ => true)).
  - apply select_all_true; exact L.
  - intros e He. pose proof (vmin_vmax_bounds x) as F. rewrite Forall_forall in F.
    destruct (F e He). numR. rewrite !Rleb_true by assumption. reflexivity.
Qed.

(* ---------- fourier_transform with plain keywords is the bare sine sum ---------- *)
Lemma ones_mul (y : list R) : vmul (ones_like y) y = y.
Proof.
  unfold vmul, ones_like. rewrite map2_map_l.
  rewrite (map2_ext _ (fun _ b => b)) by (intros; numR; ring).
  apply map2_snd. lia.
Qed.

Theorem ft_plain_is_ft_spike (x y xo : list R) dy (k : kw R) :
  plain k -> length y = length x ->
  vals (fourier_transform x y xo None None dy k)
  = map (fun x' => trapz x (map2 (fun yj xj => yj * sin (xj * x')) y x)) xo.
Proof.
  intros [Hl Ho] L. unfold fourier_transform, apply_cropping, vals. rewrite Hl, Ho. cbn [fst snd].
  rewrite (crop_full x x) by reflexivity. rewrite (crop_full x y) by exact L.
  rewrite ones_mul. reflexivity.
Qed.

Lemma ft_abscissa (x y xo : list R) mn mx dy (k : kw R) :
  fst (fst (fourier_transform x y xo mn mx dy k)) = xo.
Proof. reflexivity. Qed.

(* ---------- the trapezoid rule on a uniform grid ---------- *)
Lemma trapz_cons2 (x0 x1 : R) xs (y0 y1 : R) ys :
  trapz (x0 :: x1 :: xs) (y0 :: y1 :: ys) = (x1 - x0) * (y1 + y0) / 2 + trapz (x1 :: xs) (y1 :: ys).
Proof. reflexivity. Qed.
Lemma trapz_nil_r (xs : list R) : trapz xs [] = 0.
Proof. destruct xs as [|a [|b xs]]; reflexivity. Qed.
Lemma trapz_single_r (xs : list R) (y : R) : trapz xs [y] = 0.
Proof. destruct xs as [|a [|b xs]]; reflexivity. Qed.
Lemma trapz_single_l (x : R) (ys : list R) : trapz [x] ys = 0.
Proof. destruct ys; reflexivity. Qed.

Lemma trapz_scal (c : R) xs ys : trapz xs (map (fun v => v * c) ys) = trapz xs ys * c.
Proof.
  revert ys; induction xs as [|x0 xs IH]; intros ys.
  - cbn. numR. lra.
  - destruct xs as [|x1 xs]; [rewrite !trapz_single_l; lra|].
    destruct ys as [|y0 ys]; [cbn; numR; lra|].
    destruct ys as [|y1 ys]; [cbn [map]; rewrite !trapz_single_r; lra|].
    cbn [map]. rewrite !trapz_cons2. specialize (IH (y1 :: ys)). cbn [map] in IH. rewrite IH. lra.
Qed.
Lemma trapz_zeros {X} xs (l : list X) : trapz xs (map (fun _ => 0) l) = 0.
Proof.
  revert l; induction xs as [|x0 xs IH]; intros l.
  - reflexivity.
  - destruct xs as [|x1 xs]; [apply trapz_single_l|].
    destruct l as [|a l]; [reflexivity|].
    destruct l as [|b l]; [reflexivity|].
    cbn [map]. rewrite trapz_cons2. specialize (IH (b :: l)). cbn [map] in IH. rewrite IH. lra.
Qed.

Lemma trapz_uniform_from (f : nat -> R) h s n :
  trapz (map (fun j => INR j * h) (seq s (S n))) (map f (seq s (S n)))
  = h * (sumf (fun k => f (s + k)%nat) (S n) - (f s + f (s + n)%nat) / 2).
Proof.
  revert s. induction n as [|n IH]; intros s.
  - cbn. numR. rewrite Nat.add_0_r. lra.
  - specialize (IH (S s)). cbn [seq map] in IH |- *. rewrite trapz_cons2, IH. rewrite S_INR.
    rewrite (sumf_shift1 f s (S n)).
    replace (S s + n)%nat with (s + S n)%nat by lia.
    cbn [sumf]. lra.
Qed.

Lemma nth_map_lt {X} (f : X -> R) (l : list X) k (dx : X) :
  (k < length l)%nat -> nth k (map f l) 0 = f (nth k l dx).
Proof. intros H. rewrite (nth_indep _ 0 (f dx)) by (rewrite map_length; exact H). apply map_nth. Qed.
Lemma grid_length N h : length (grid N h) = S N.
Proof. unfold grid. rewrite map_length, seq_length. reflexivity. Qed.
Lemma grid_nth N h k : (k <= N)%nat -> nth k (grid N h) 0 = INR k * h.
Proof.
  intros H. unfold grid. rewrite (nth_map_lt _ _ _ O) by (rewrite seq_length; lia).
  rewrite seq_nth by lia. reflexivity.
Qed.
Lemma list_as_map (l : list R) : l = map (fun k => nth k l 0) (seq 0 (length l)).
Proof.
  induction l as [|a l IH]; [reflexivity|]. cbn [length seq map nth]. f_equal.
  rewrite <- seq_shift, map_map. exact IH.
Qed.
Lemma kernel_as_map (f g : nat -> R) x' n s :
  map2 (fun yj xj => yj * sin (xj * x')) (map g (seq s n)) (map f (seq s n))
  = map (fun k => g k * sin (f k * x')) (seq s n).
Proof. revert s. induction n as [|n IH]; intros s; [reflexivity|]. cbn [seq map map2]. rewrite IH. reflexivity. Qed.

(* the sine sum on a uniform grid, as a finite sum *)
Lemma sine_sum_uniform (N : nat) h (ys : list R) x' : length ys = S N ->
  sine_sum (grid N h) ys x'
  = h * (sumf (fun k => nth k ys 0 * sin (INR k * h * x')) (S N)
         - (nth 0 ys 0 * sin (INR 0 * h * x') + nth N ys 0 * sin (INR N * h * x')) / 2).
Proof.
  intros L. unfold sine_sum, grid. rewrite (list_as_map ys) at 1. rewrite L.
  rewrite kernel_as_map.
  rewrite (trapz_uniform_from (fun k => nth k ys 0 * sin (INR k * h * x')) h 0 N).
  cbn [Nat.add]. reflexivity.
Qed.

Lemma ft_length x y xo : length (ft x y xo) = length xo.
Proof. unfold ft. apply map_length. Qed.
Lemma ft_nth x y xo i : (i < length xo)%nat -> nth i (ft x y xo) 0 = sine_sum x y (nth i xo 0).
Proof. intros H. unfold ft. apply nth_map_lt. exact H. Qed.

(* at abscissa 0 the sine sum vanishes *)
Lemma sine_sum_0 x y : sine_sum x y 0 = 0.
Proof.
  unfold sine_sum. rewrite (map2_ext _ (fun _ _ => 0)).
  2:{ intros a b. rewrite Rmult_0_r, sin_0. lra. }
  rewrite map2_as_map_combine. apply trapz_zeros.
Qed.
(* linearity in the data *)
Lemma sine_sum_scal c x y x' : sine_sum x (map (fun v => v * c) y) x' = sine_sum x y x' * c.
Proof.
  unfold sine_sum. rewrite map2_map_l.
  rewrite (map2_ext _ (fun a b => (a * sin (b * x')) * c)) by (intros; ring).
  rewrite <- (map_map2 (fun v => v * c)). apply trapz_scal.
Qed.
Lemma ft_scal c x y xo : ft x (map (fun v => v * c) y) xo = map (fun v => v * c) (ft x y xo).
Proof. unfold ft. rewrite map_map. apply map_ext. intros a. apply sine_sum_scal. Qed.

(* ---------- the core: two sine sums on matched uniform grids ---------- *)
(* grids h1 * {0..N} and h2 * {0..N} with h1 h2 N = pi; data vanishing at both ends *)
Theorem ft_ft_matched (N : nat) (h1 h2 : R) (Y : list R) :
  (0 < N)%nat -> h1 * h2 * INR N = PI ->
  length Y = S N -> nth 0 Y 0 = 0 -> nth N Y 0 = 0 ->
  ft (grid N h2) (ft (grid N h1) Y (grid N h2)) (grid N h1) = map (fun v => v * (PI / 2)) Y.
Proof.
  intros HN H L Y0 YN.
  assert (HNr : 0 < INR N) by (apply lt_0_INR; lia).
  apply nth_ext with (d := 0) (d' := 0).
  { rewrite ft_length, map_length, grid_length. lia. }
  intros m Hm. rewrite ft_length, grid_length in Hm.
  rewrite ft_nth by (rewrite grid_length; lia).
  rewrite (nth_map_lt _ _ _ 0) by lia.
  rewrite grid_nth by lia.
  rewrite sine_sum_uniform by (rewrite ft_length; apply grid_length).
  (* the inner transform at index k *)
  assert (Fk : forall k, (k <= N)%nat ->
    nth k (ft (grid N h1) Y (grid N h2)) 0 =
    h1 * sumf (fun j => nth j Y 0 * sin (INR j * (INR k * PI / INR N))) N).
  { intros k Hk. rewrite ft_nth by (rewrite grid_length; lia).
    rewrite grid_nth by lia. rewrite sine_sum_uniform by exact L.
    rewrite Y0, YN. cbn [sumf]. rewrite YN.
    f_equal. rewrite !Rmult_0_l, Rplus_0_r. replace ((0 + 0) / 2) with 0 by lra. rewrite Rminus_0_r.
    apply sumf_ext. intros j _. f_equal. f_equal. rewrite <- H. field. lra. }
  (* the end terms of the outer sum vanish *)
  assert (SN : sin (INR N * h2 * (INR m * h1)) = 0).
  { replace (INR N * h2 * (INR m * h1)) with (INR m * PI) by (rewrite <- H; ring). apply sin_nPI. }
  assert (S0 : sin (INR 0 * h2 * (INR m * h1)) = 0).
  { cbn [INR]. rewrite !Rmult_0_l. apply sin_0. }
  rewrite S0, SN. rewrite !Rmult_0_r, Rplus_0_r. replace (0 / 2) with 0 by lra. rewrite Rminus_0_r.
  cbn [sumf]. rewrite SN. rewrite Rmult_0_r, Rplus_0_r.
  rewrite (sumf_ext _ (fun k => h1 * sumf (fun j => nth j Y 0 *
     (sin (INR j * (INR k * PI / INR N)) * sin (INR m * (INR k * PI / INR N)))) N)).
  2:{ intros k Hk. rewrite Fk by lia.
      replace (INR k * h2 * (INR m * h1)) with (INR m * (INR k * PI / INR N)) by (rewrite <- H; field; lra).
      rewrite Rmult_assoc. f_equal. rewrite Rmult_comm, <- sumf_scal. apply sumf_ext. intros j _. lra. }
  rewrite sumf_scal, sumf_swap.
  rewrite (sumf_ext _ (fun j => nth j Y 0 *
     sumf (fun k => sin (INR j * (INR k * PI / INR N)) * sin (INR m * (INR k * PI / INR N))) N))
    by (intros; rewrite sumf_scal; reflexivity).
  destruct (Nat.eq_dec m 0) as [->|Hm0].
  { rewrite Y0. rewrite (sumf_ext _ (fun _ => 0)). rewrite sumf_zero; lra.
    intros j _. rewrite (sumf_ext _ (fun _ => 0)). rewrite sumf_zero; lra.
    intros k _. cbn [INR]. rewrite Rmult_0_l, sin_0. lra. }
  destruct (Nat.eq_dec m N) as [->|HmN].
  { rewrite YN. rewrite (sumf_ext _ (fun _ => 0)). rewrite sumf_zero; lra.
    intros j _. rewrite (sumf_ext _ (fun _ => 0)). rewrite sumf_zero; lra.
    intros k _. replace (INR N * (INR k * PI / INR N)) with (INR k * PI) by (field; lra).
    rewrite sin_nPI. lra. }
  rewrite (sumf_ext _ (fun j => if Nat.eqb j m then nth j Y 0 * (INR N / 2) else 0)).
  2:{ intros j Hj. destruct (Nat.eq_dec j 0) as [->|Hj0].
      - rewrite Y0. destruct (Nat.eqb_spec 0 m); lra.
      - rewrite dst_orthogonality by lia. destruct (Nat.eqb j m); lra. }
  rewrite (sumf_delta (fun j => nth j Y 0 * (INR N / 2))) by lia.
  rewrite <- H. field.
Qed.

(* ---------- each direction separately: the documented conventions ---------- *)
Lemma F_to_G_vals q f r df (k : kw R) :
  vals (F_to_G q f r df k) = map (fun v => v * (2 / PI)) (vals (fourier_transform q f r None None df k)).
Proof. reflexivity. Qed.
Lemma G_to_F_eq r g q dg (k : kw R) : G_to_F r g q dg k = fourier_transform r g q None None dg k.
Proof. reflexivity. Qed.

(* Q[S(Q)-1] = Int G(r) sin(Qr) dr : no prefactor *)
Theorem G_to_F_is_bare_sum (r g q : list R) dg (k : kw R) :
  plain k -> length g = length r ->
  vals (G_to_F r g q dg k) = map (fun Q => trapz r (map2 (fun gj rj => gj * sin (rj * Q)) g r)) q.
Proof. intros Hk L. rewrite G_to_F_eq. apply ft_plain_is_ft_spike; assumption. Qed.

(* G(r) = (2/pi) Int Q[S(Q)-1] sin(Qr) dQ *)
Theorem F_to_G_is_two_over_pi_sum (q f r : list R) df (k : kw R) :
  plain k -> length f = length q ->
  vals (F_to_G q f r df k)
  = map (fun r' => trapz q (map2 (fun fj qj => fj * sin (qj * r')) f q) * (2 / PI)) r.
Proof.
  intros Hk L. rewrite F_to_G_vals, ft_plain_is_ft_spike by assumption.
  rewrite map_map. reflexivity.
Qed.

Lemma G_to_F_ft r g q dg (k : kw R) : plain k -> length g = length r ->
  vals (G_to_F r g q dg k) = ft r g q.
Proof. apply G_to_F_is_bare_sum. Qed.
Lemma F_to_G_ft q f r df (k : kw R) : plain k -> length f = length q ->
  vals (F_to_G q f r df k) = map (fun v => v * (2 / PI)) (ft q f r).
Proof. intros Hk L. rewrite F_to_G_vals, ft_plain_is_ft_spike by assumption. reflexivity. Qed.

(* ---------- round trips of the bare transforms on matched grids ---------- *)
Lemma matched_steps N dr : (0 < N)%nat -> 0 < dr -> dr * (PI / (INR N * dr)) * INR N = PI.
Proof. intros HN Hdr. assert (0 < INR N) by (apply lt_0_INR; lia). field. split; lra. Qed.
Lemma map_scale_id (c d : R) (l : list R) : c * d = 1 -> map (fun v => v * d) (map (fun v => v * c) l) = l.
Proof.
  intros E. rewrite map_map. rewrite <- (map_id l) at 2. apply map_ext. intros a.
  rewrite Rmult_assoc, E. ring.
Qed.

(* the two round trips for the bare sine sums *)
Lemma rQr_ft (N : nat) (dr : R) (G : list R) :
  (0 < N)%nat -> 0 < dr -> length G = S N -> nth 0 G 0 = 0 -> nth N G 0 = 0 ->
  map (fun v => v * (2 / PI))
      (ft (grid N (PI / (INR N * dr))) (ft (grid N dr) G (grid N (PI / (INR N * dr)))) (grid N dr)) = G.
Proof.
  intros HN Hdr L G0 GN. pose proof PI_RGT_0 as Hpi.
  rewrite ft_ft_matched by (auto using matched_steps).
  apply map_scale_id. field. lra.
Qed.
Lemma QrQ_ft (N : nat) (dr : R) (F : list R) :
  (0 < N)%nat -> 0 < dr -> length F = S N -> nth 0 F 0 = 0 -> nth N F 0 = 0 ->
  ft (grid N dr) (map (fun v => v * (2 / PI)) (ft (grid N (PI / (INR N * dr))) F (grid N dr)))
     (grid N (PI / (INR N * dr))) = F.
Proof.
  intros HN Hdr L F0 FN. pose proof PI_RGT_0 as Hpi.
  rewrite ft_scal.
  rewrite ft_ft_matched; auto.
  2:{ assert (0 < INR N) by (apply lt_0_INR; lia). field. split; lra. }
  rewrite map_map. rewrite <- (map_id F) at 2. apply map_ext. intros a. field. lra.
Qed.

Theorem roundtrip_rQr (N : nat) (dr : R) (G : list R) d1 d2 (k : kw R) :
  (0 < N)%nat -> 0 < dr -> plain k ->
  length G = S N -> nth 0 G 0 = 0 -> nth N G 0 = 0 ->
  vals (F_to_G (qgrid N dr) (vals (G_to_F (rgrid N dr) G (qgrid N dr) d1 k)) (rgrid N dr) d2 k) = G.
Proof.
  intros HN Hdr Hk L G0 GN.
  rewrite rgrid_grid, qgrid_grid.
  rewrite (G_to_F_ft _ _ _ d1) by (rewrite ?grid_length; assumption).
  rewrite F_to_G_ft by (rewrite ?ft_length, ?grid_length; auto).
  apply rQr_ft; assumption.
Qed.

Theorem roundtrip_QrQ (N : nat) (dr : R) (F : list R) d1 d2 (k : kw R) :
  (0 < N)%nat -> 0 < dr -> plain k ->
  length F = S N -> nth 0 F 0 = 0 -> nth N F 0 = 0 ->
  vals (G_to_F (rgrid N dr) (vals (F_to_G (qgrid N dr) F (rgrid N dr) d1 k)) (qgrid N dr) d2 k) = F.
Proof.
  intros HN Hdr Hk L F0 FN.
  rewrite rgrid_grid, qgrid_grid.
  rewrite (F_to_G_ft _ _ _ d1) by (rewrite ?grid_length; assumption).
  rewrite G_to_F_ft by (rewrite ?map_length, ?ft_length, ?grid_length; auto).
  apply QrQ_ft; assumption.
Qed.

Definition plain_kw : kw R := {| rho := 1; bcoh := 1; btot := 1; lorch := false; omitted := false |}.
Example roundtrip_rQr_nonvacuous :
  (0 < 2)%nat /\ 0 < 1 /\ plain plain_kw /\
  length [0; 1; 0] = 3%nat /\ nth 0 [0; 1; 0] 0 = 0 /\ nth 2 [0; 1; 0] 0 = 0 /\
  vals (F_to_G (qgrid 2 1) (vals (G_to_F (rgrid 2 1) [0; 1; 0] (qgrid 2 1) None plain_kw)) (rgrid 2 1) None plain_kw)
  = [0; 1; 0].
Proof.
  assert (P : plain plain_kw) by (split; reflexivity).
  repeat (split; [first [lia | lra | reflexivity | exact P]|]).
  apply roundtrip_rQr; auto; try lra; reflexivity.
Qed.
Example roundtrip_QrQ_nonvacuous :
  (0 < 2)%nat /\ 0 < 1 /\ plain plain_kw /\
  length [0; 1; 0] = 3%nat /\ nth 0 [0; 1; 0] 0 = 0 /\ nth 2 [0; 1; 0] 0 = 0 /\
  vals (G_to_F (rgrid 2 1) (vals (F_to_G (qgrid 2 1) [0; 1; 0] (rgrid 2 1) None plain_kw)) (qgrid 2 1) None plain_kw)
  = [0; 1; 0].
Proof.
  assert (P : plain plain_kw) by (split; reflexivity).
  repeat (split; [first [lia | lra | reflexivity | exact P]|]).
  apply roundtrip_QrQ; auto; try lra; reflexivity.
Qed.
(* the conventions, on a 2-point grid: one trapezoid panel *)
Example G_to_F_is_bare_sum_nonvacuous :
  vals (G_to_F [0; 1] [0; 1] [1] None plain_kw) = [(1 - 0) * (1 * sin (1 * 1) + 0 * sin (0 * 1)) / 2 + 0].
Proof. rewrite G_to_F_is_bare_sum by (try split; reflexivity). reflexivity. Qed.
Example F_to_G_is_two_over_pi_sum_nonvacuous :
  vals (F_to_G [0; 1] [0; 1] [1] None plain_kw)
  = [((1 - 0) * (1 * sin (1 * 1) + 0 * sin (0 * 1)) / 2 + 0) * (2 / PI)].
Proof. rewrite F_to_G_is_two_over_pi_sum by (try split; reflexivity). reflexivity. Qed.

(* ---------- lift to the named methods g_to_S / S_to_g ---------- *)
(* how the named methods are composed (the abscissa returned by the transform
   is the requested output grid; values never depend on the uncertainty input) *)
Lemma g_to_S_vals r g q d (k : kw R) :
  vals (g_to_S r g q d k)
  = fst (F_to_S q (vals (G_to_F r (fst (g_to_G r g d k)) q (Some (snd (g_to_G r g d k))) k)) None k).
Proof. reflexivity. Qed.
Lemma S_to_g_vals q s r d (k : kw R) :
  vals (S_to_g q s r d k)
  = fst (G_to_g r (vals (F_to_G q (fst (S_to_F q s d k)) r (Some (snd (S_to_F q s d k))) k)) None k).
Proof. reflexivity. Qed.

Lemma g_to_G_fst r g d (k : kw R) : fst (g_to_G r g d k) = map2 (gval k gg gG) r g.
Proof. reflexivity. Qed.
Lemma S_to_F_fst q s d (k : kw R) : fst (S_to_F q s d k) = map2 (rval k rS rF) q s.
Proof. reflexivity. Qed.
Lemma G_to_g_fst r G d (k : kw R) : length G = length r -> fst (G_to_g r G d k) = map2 (gval k gG gg) r G.
Proof.
  intros L. change (fst (G_to_g r G d k)) with (fst (gconv gG gg r G None k)).
  rewrite gconv_pointwise by (first [assumption | apply dok_none]). reflexivity.
Qed.
Lemma F_to_S_fst q F d (k : kw R) : length F = length q -> fst (F_to_S q F d k) = map2 (rval k rF rS) q F.
Proof.
  intros L. change (fst (F_to_S q F d k)) with (fst (rconv rF rS q F None k)).
  rewrite rconv_pointwise by (first [assumption | apply dok_none]). reflexivity.
Qed.

(* the scalar conversions cancel where the abscissa is positive, and give the
   conventional value where it is zero *)
Lemma SF_cancel (k : kw R) x f : 0 < x -> rval k rS rF x (rval k rF rS x f) = f.
Proof. intros Hx. cbn [rval]. unfold vS_to_F, vF_to_S. rewrite sdiv_pos by assumption. field. lra. Qed.
Lemma SF_at0 (k : kw R) f : rval k rS rF 0 (rval k rF rS 0 f) = 0.
Proof. cbn [rval]. unfold vS_to_F. ring. Qed.
Lemma FS_cancel (k : kw R) x s : 0 < x -> rval k rF rS x (rval k rS rF x s) = s.
Proof. intros Hx. cbn [rval]. unfold vS_to_F, vF_to_S. rewrite sdiv_pos by assumption. field. lra. Qed.
Lemma FS_at0 (k : kw R) s : rval k rF rS 0 (rval k rS rF 0 s) = 1.
Proof. cbn [rval]. unfold vS_to_F, vF_to_S. rewrite sdiv_nonpos by lra. ring. Qed.
Lemma Gg_cancel (k : kw R) x G : 0 < rho k -> 0 < x -> gval k gg gG x (gval k gG gg x G) = G.
Proof.
  intros Hp Hx. pose proof PI_RGT_0 as Hpi. pose proof (fourpirho_pos k x Hx Hp) as H4.
  cbn [gval]. unfold vg_to_G, vG_to_g. rewrite sdiv_pos by assumption. field. repeat split; lra.
Qed.
Lemma Gg_at0 (k : kw R) G : gval k gg gG 0 (gval k gG gg 0 G) = 0.
Proof. cbn [gval]. unfold vg_to_G. ring. Qed.
Lemma gG_cancel (k : kw R) x g : 0 < rho k -> 0 < x -> gval k gG gg x (gval k gg gG x g) = g.
Proof.
  intros Hp Hx. pose proof PI_RGT_0 as Hpi. pose proof (fourpirho_pos k x Hx Hp) as H4.
  cbn [gval]. unfold vg_to_G, vG_to_g. rewrite sdiv_pos by assumption. field. repeat split; lra.
Qed.
Lemma gG_at0 (k : kw R) g : gval k gG gg 0 (gval k gg gG 0 g) = 1.
Proof. cbn [gval]. unfold vg_to_G, vG_to_g. rewrite sdiv_nonpos by lra. ring. Qed.

(* on a grid 0, h, 2h, ...: u o v is the identity on data that vanish at the origin *)
Lemma map2_cancel_grid (u v : R -> R -> R) N h (Y : list R) :
  0 < h -> length Y = S N -> nth 0 Y 0 = 0 ->
  (forall y, u 0 (v 0 y) = 0) -> (forall x y, 0 < x -> u x (v x y) = y) ->
  map2 u (grid N h) (map2 v (grid N h) Y) = Y.
Proof.
  intros Hh L Y0 E0 E. rewrite map2_map2_r.
  apply nth_ext with (d := 0) (d' := 0).
  { rewrite map2_length, grid_length, L. apply Nat.min_id. }
  intros i Hi. rewrite map2_length, grid_length, L, Nat.min_id in Hi.
  rewrite (nth_map2 _ _ _ _ 0 0) by (rewrite ?grid_length; lia).
  rewrite grid_nth by lia. destruct i as [|i].
  - cbn [INR]. rewrite Rmult_0_l, Y0. apply E0.
  - apply E. apply Rmult_lt_0_compat; [apply lt_0_INR; lia | exact Hh].
Qed.
(* ... and v o u returns the data away from the origin, the convention c there *)
Lemma map2_cancel_grid_nth (u v : R -> R -> R) (c : R) N h (Y : list R) j :
  0 < h -> length Y = S N -> (j <= N)%nat ->
  (forall y, v 0 (u 0 y) = c) -> (forall x y, 0 < x -> v x (u x y) = y) ->
  nth j (map2 v (grid N h) (map2 u (grid N h) Y)) 0 = if Nat.eqb j 0 then c else nth j Y 0.
Proof.
  intros Hh L Hj E0 E. rewrite map2_map2_r.
  rewrite (nth_map2 _ _ _ _ 0 0) by (rewrite ?grid_length; lia).
  rewrite grid_nth by lia. destruct j as [|j].
  - cbn [INR Nat.eqb]. rewrite Rmult_0_l. apply E0.
  - cbn [Nat.eqb]. apply E. apply Rmult_lt_0_compat; [apply lt_0_INR; lia | exact Hh].
Qed.

Lemma dq_pos N dr : (0 < N)%nat -> 0 < dr -> 0 < PI / (INR N * dr).
Proof.
  intros HN Hdr. assert (0 < INR N) by (apply lt_0_INR; lia). pose proof PI_RGT_0.
  apply Rdiv_lt_0_compat; [lra|]. apply Rmult_lt_0_compat; assumption.
Qed.
Lemma ft_grid_nth0 x y N h : nth 0 (ft x y (grid N h)) 0 = 0.
Proof.
  rewrite ft_nth by (rewrite grid_length; lia). rewrite grid_nth by lia.
  cbn [INR]. rewrite Rmult_0_l. apply sine_sum_0.
Qed.

(* the whole chain collapses to "convert to G and back" *)
Lemma g_S_g_vals (N : nat) (dr : R) (g : list R) d1 d2 (k : kw R) :
  (0 < N)%nat -> 0 < dr -> plain k ->
  length g = S N -> nth N g 0 = 1 ->
  vals (S_to_g (qgrid N dr) (vals (g_to_S (rgrid N dr) g (qgrid N dr) d1 k)) (rgrid N dr) d2 k)
  = map2 (gval k gG gg) (grid N dr) (map2 (gval k gg gG) (grid N dr) g).
Proof.
  intros HN Hdr Hk L gN.
  pose proof (dq_pos N dr HN Hdr) as Hdq.
  rewrite S_to_g_vals, g_to_S_vals, rgrid_grid, qgrid_grid.
  set (dq := PI / (INR N * dr)) in *.
  rewrite g_to_G_fst.
  set (G := map2 (gval k gg gG) (grid N dr) g).
  assert (LG : length G = S N) by (unfold G; rewrite map2_length, grid_length, L; apply Nat.min_id).
  assert (G0 : nth 0 G 0 = 0).
  { unfold G. rewrite (nth_map2 _ _ _ _ 0 0) by (rewrite ?grid_length; lia).
    rewrite grid_nth by lia. cbn [gval INR]. unfold vg_to_G. ring. }
  assert (GN : nth N G 0 = 0).
  { unfold G. rewrite (nth_map2 _ _ _ _ 0 0) by (rewrite ?grid_length; lia).
    rewrite gN. cbn [gval]. unfold vg_to_G. ring. }
  rewrite G_to_F_ft by (rewrite ?grid_length; assumption).
  rewrite F_to_S_fst by (rewrite ft_length; reflexivity).
  rewrite S_to_F_fst.
  rewrite (map2_cancel_grid (rval k rS rF) (rval k rF rS)); auto using SF_at0, SF_cancel, ft_grid_nth0.
  2:{ rewrite ft_length. apply grid_length. }
  rewrite F_to_G_ft by (rewrite ?ft_length; auto).
  unfold dq. rewrite rQr_ft by assumption.
  rewrite G_to_g_fst by (rewrite grid_length; exact LG).
  reflexivity.
Qed.

(* g(r) -> S(Q) -> g(r): only g = 1 at the LAST grid point is needed (so that
   G = 4 pi rho r (g-1) vanishes there; at r = 0 it vanishes by itself).  The
   result is g away from r = 0 and the conventional g = 1 at r = 0. *)
Theorem roundtrip_g_S_g (N : nat) (dr : R) (g : list R) d1 d2 (k : kw R) :
  (0 < N)%nat -> 0 < dr -> plain k -> 0 < rho k ->
  length g = S N -> nth N g 0 = 1 ->
  let g' := vals (S_to_g (qgrid N dr) (vals (g_to_S (rgrid N dr) g (qgrid N dr) d1 k)) (rgrid N dr) d2 k) in
  length g' = S N /\ nth 0 g' 0 = 1 /\ forall j, (0 < j <= N)%nat -> nth j g' 0 = nth j g 0.
Proof.
  intros HN Hdr Hk Hp L gN g'. unfold g'. rewrite g_S_g_vals by assumption.
  split; [|split].
  - rewrite !map2_length, grid_length, L, !Nat.min_id. reflexivity.
  - rewrite (map2_cancel_grid_nth _ _ 1 N dr g 0); auto using gG_at0, gG_cancel. lia.
  - intros j Hj. rewrite (map2_cancel_grid_nth _ _ 1 N dr g j); auto using gG_at0, gG_cancel; [|lia].
    destruct j; [lia|reflexivity].
Qed.

Lemma S_g_S_vals (N : nat) (dr : R) (s : list R) d1 d2 (k : kw R) :
  (0 < N)%nat -> 0 < dr -> plain k -> 0 < rho k ->
  length s = S N -> nth N s 0 = 1 ->
  vals (g_to_S (rgrid N dr) (vals (S_to_g (qgrid N dr) s (rgrid N dr) d1 k)) (qgrid N dr) d2 k)
  = map2 (rval k rF rS) (grid N (PI / (INR N * dr))) (map2 (rval k rS rF) (grid N (PI / (INR N * dr))) s).
Proof.
  intros HN Hdr Hk Hp L sN.
  pose proof (dq_pos N dr HN Hdr) as Hdq.
  rewrite g_to_S_vals, S_to_g_vals, rgrid_grid, qgrid_grid.
  set (dq := PI / (INR N * dr)) in *.
  rewrite S_to_F_fst.
  set (F := map2 (rval k rS rF) (grid N dq) s).
  assert (LF : length F = S N) by (unfold F; rewrite map2_length, grid_length, L; apply Nat.min_id).
  assert (F0 : nth 0 F 0 = 0).
  { unfold F. rewrite (nth_map2 _ _ _ _ 0 0) by (rewrite ?grid_length; lia).
    rewrite grid_nth by lia. cbn [rval INR]. unfold vS_to_F. ring. }
  assert (FN : nth N F 0 = 0).
  { unfold F. rewrite (nth_map2 _ _ _ _ 0 0) by (rewrite ?grid_length; lia).
    rewrite sN. cbn [rval]. unfold vS_to_F. ring. }
  rewrite F_to_G_ft by (rewrite ?grid_length; assumption).
  rewrite G_to_g_fst by (rewrite map_length, ft_length; reflexivity).
  rewrite g_to_G_fst.
  rewrite (map2_cancel_grid (gval k gg gG) (gval k gG gg)); auto using Gg_at0, Gg_cancel.
  2:{ rewrite map_length, ft_length. apply grid_length. }
  2:{ rewrite (nth_map_lt _ _ _ 0) by (rewrite ft_length, grid_length; lia). rewrite ft_grid_nth0. ring. }
  rewrite G_to_F_ft by (rewrite ?map_length, ?ft_length; auto).
  unfold dq. rewrite QrQ_ft by assumption. fold dq.
  rewrite F_to_S_fst by (rewrite grid_length; exact LF).
  reflexivity.
Qed.

(* S(Q) -> g(r) -> S(Q): only S = 1 at the LAST grid point is needed.  The
   result is S away from Q = 0 and the conventional S = 1 at Q = 0. *)
Theorem roundtrip_S_g_S (N : nat) (dr : R) (s : list R) d1 d2 (k : kw R) :
  (0 < N)%nat -> 0 < dr -> plain k -> 0 < rho k ->
  length s = S N -> nth N s 0 = 1 ->
  let s' := vals (g_to_S (rgrid N dr) (vals (S_to_g (qgrid N dr) s (rgrid N dr) d1 k)) (qgrid N dr) d2 k) in
  length s' = S N /\ nth 0 s' 0 = 1 /\ forall j, (0 < j <= N)%nat -> nth j s' 0 = nth j s 0.
Proof.
  intros HN Hdr Hk Hp L sN s'. unfold s'. rewrite S_g_S_vals by assumption.
  pose proof (dq_pos N dr HN Hdr) as Hdq.
  split; [|split].
  - rewrite !map2_length, grid_length, L, !Nat.min_id. reflexivity.
  - rewrite (map2_cancel_grid_nth _ _ 1 N _ s 0); auto using FS_at0, FS_cancel. lia.
  - intros j Hj. rewrite (map2_cancel_grid_nth _ _ 1 N _ s j); auto using FS_at0, FS_cancel; [|lia].
    destruct j; [lia|reflexivity].
Qed.


Example roundtrip_g_S_g_nonvacuous :
  (0 < 2)%nat /\ 0 < 1 /\ plain plain_kw /\ 0 < rho plain_kw /\
  length [5; 3; 1] = 3%nat /\ nth 2 [5; 3; 1] 0 = 1 /\
  nth 1 (vals (S_to_g (qgrid 2 1) (vals (g_to_S (rgrid 2 1) [5; 3; 1] (qgrid 2 1) None plain_kw))
                      (rgrid 2 1) None plain_kw)) 0 = 3.
Proof.
  assert (P : plain plain_kw) by (split; reflexivity).
  assert (Hr : 0 < rho plain_kw) by (cbn; lra).
  repeat (split; [first [lia | lra | reflexivity | exact P | exact Hr]|]).
  apply (roundtrip_g_S_g 2 1 [5; 3; 1] None None plain_kw); auto; first [lra | lia | reflexivity].
Qed.
Example roundtrip_S_g_S_nonvacuous :
  (0 < 2)%nat /\ 0 < 1 /\ plain plain_kw /\ 0 < rho plain_kw /\
  length [5; 3; 1] = 3%nat /\ nth 2 [5; 3; 1] 0 = 1 /\
  nth 1 (vals (g_to_S (rgrid 2 1) (vals (S_to_g (qgrid 2 1) [5; 3; 1] (rgrid 2 1) None plain_kw))
                      (qgrid 2 1) None plain_kw)) 0 = 3.
Proof.
  assert (P : plain plain_kw) by (split; reflexivity).
  assert (Hr : 0 < rho plain_kw) by (cbn; lra).
  repeat (split; [first [lia | lra | reflexivity | exact P | exact Hr]|]).
  apply (roundtrip_S_g_S 2 1 [5; 3; 1] None None plain_kw); auto; first [lra | lia | reflexivity].
Qed.
