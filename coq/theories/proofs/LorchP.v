(* LorchP.v -- C14: the Lorch damping window of fourier_transform, at the reals. *)
From Coq Require Import List Reals Lra Lia Bool ZArith.
From PyStoG Require Import Num NumR ConverterM TransformerM.
From PyStoG.proofs Require Import VecLib ConverterP.
Import ListNotations.
Open Scope R_scope.

(* ---------- small vocabulary used to state the theorems ---------- *)

(* the keyword record with the lorch flag replaced *)
Definition set_lorch (k : kw R) (b : bool) : kw R :=
  {| rho := rho k; bcoh := bcoh k; btot := btot k; lorch := b; omitted := omitted k |}.

(* the crop window actually used by fourier_transform: an explicit bound, or
   the extreme of the input grid *)
Definition window_lo (x : list R) (a : option R) : R := match a with Some v => v | None => vmin x end.
Definition window_hi (x : list R) (b : option R) : R := match b with Some v => v | None => vmax x end.
(* the abscissae that enter the transform *)
Definition cropped_grid (x : list R) (a b : option R) : list R :=
  select (crop_mask x (window_lo x a) (window_hi x b)) x.

(* ---------- 1, 2: the weight ---------- *)

Lemma neqb_R_true (u : R) : u <> 0 -> negb (Reqb u 0) = true.
Proof. intros Hu. destruct (Reqb_spec u 0); [contradiction|reflexivity]. Qed.
Lemma neqb_R_false (u : R) : u = 0 -> negb (Reqb u 0) = false.
Proof. intros Hu. destruct (Reqb_spec u 0); [reflexivity|contradiction]. Qed.

Lemma lorch_weight_at_0 (a : R) : lorch_weight a 0 = 1.
Proof. unfold lorch_weight, neqb; numR. rewrite neqb_R_false by ring. reflexivity. Qed.

Lemma lorch_weight_zero_a (x : R) : lorch_weight 0 x = 1.
Proof. unfold lorch_weight, neqb; numR. rewrite neqb_R_false by ring. reflexivity. Qed.

Lemma lorch_weight_formula (a x : R) : a * x <> 0 ->
  lorch_weight a x = Rtrigo_def.sin (a * x) / (a * x).
Proof. intros H. unfold lorch_weight, neqb; numR. rewrite neqb_R_true by exact H. reflexivity. Qed.

Lemma lorch_weight_degenerate (a x : R) : a * x = 0 -> lorch_weight a x = 1.
Proof. intros H. unfold lorch_weight, neqb; numR. rewrite neqb_R_false by exact H. reflexivity. Qed.

(* the Fortran window SIN(xin*A)/xin/A *)
Lemma lorch_weight_fortran (a x : R) : x <> 0 -> a <> 0 ->
  Rtrigo_def.sin (x * a) / x / a = lorch_weight a x.
Proof.
  intros Hx Ha. rewrite lorch_weight_formula by (apply Rmult_integral_contrapositive_currified; assumption).
  replace (x * a) with (a * x) by ring. field. split; assumption.
Qed.

(* 5: |sin t| <= |t|, hence the weight is bounded by 1 *)
Lemma sin_ge_neg_x (t : R) : 0 < t -> - t < Rtrigo_def.sin t.
Proof.
  intros Ht. destruct (Rlt_dec t 1) as [H1|H1].
  - pose proof PI_RGT_0. pose proof PI2_1. assert (t <= PI) by lra.
    pose proof (sin_ge_0 t (Rlt_le _ _ Ht) H2). lra.
  - pose proof (SIN_bound t) as [Hl _]. destruct (Req_dec t 1) as [E|E].
    + subst t. pose proof PI_RGT_0. pose proof PI2_1. assert (1 <= PI) by lra.
      pose proof (sin_ge_0 1 ltac:(lra) H2). lra.
    + lra.
Qed.

Lemma Rabs_sin_le (t : R) : Rabs (Rtrigo_def.sin t) <= Rabs t.
Proof.
  destruct (Rtotal_order t 0) as [Hn|[Hz|Hp]].
  - assert (Hp : 0 < - t) by lra.
    pose proof (sin_lt_x _ Hp) as H1. pose proof (sin_ge_neg_x _ Hp) as H2.
    rewrite sin_neg in H1, H2. rewrite (Rabs_left t Hn).
    unfold Rabs. destruct (Rcase_abs (Rtrigo_def.sin t)); lra.
  - subst t. rewrite sin_0. lra.
  - pose proof (sin_lt_x _ Hp) as H1. pose proof (sin_ge_neg_x _ Hp) as H2.
    rewrite (Rabs_right t) by lra.
    unfold Rabs. destruct (Rcase_abs (Rtrigo_def.sin t)); lra.
Qed.

Lemma lorch_weight_bounded (a x : R) : Rabs (lorch_weight a x) <= 1.
Proof.
  destruct (Req_dec (a * x) 0) as [E|E].
  - rewrite lorch_weight_degenerate by exact E. rewrite Rabs_R1. lra.
  - rewrite lorch_weight_formula by exact E.
    unfold Rdiv. rewrite Rabs_mult, Rabs_Rinv by exact E.
    pose proof (Rabs_pos_lt _ E) as Hpos.
    apply Rmult_le_reg_r with (r := Rabs (a * x)); [exact Hpos|].
    rewrite Rmult_assoc, Rinv_l by lra. rewrite Rmult_1_r, Rmult_1_l. apply Rabs_sin_le.
Qed.

(* ---------- cropping commutes with pointwise operations ---------- *)

Lemma select_nil_r {B} (m : list bool) : select m (@nil B) = [].
Proof. destruct m; reflexivity. Qed.
Lemma map2_nil_r {X Y Z} (f : X -> Y -> Z) (l : list X) : map2 f l [] = [].
Proof. destruct l; reflexivity. Qed.

Lemma select_map2 {X Y Z} (f : X -> Y -> Z) (m : list bool) (u : list X) (v : list Y) :
  select m (map2 f u v) = map2 f (select m u) (select m v).
Proof.
  revert u v. induction m as [|b m IH]; intros u v; [reflexivity|].
  destruct u as [|a u]; [rewrite !select_nil_r; reflexivity|].
  destruct v as [|c v]; [cbn [map2]; rewrite !select_nil_r, map2_nil_r; reflexivity|].
  cbn [map2 select]. destruct b; cbn [map2]; rewrite IH; reflexivity.
Qed.

Lemma select_map {X Y} (f : X -> Y) (m : list bool) (u : list X) :
  select m (map f u) = map f (select m u).
Proof.
  revert u. induction m as [|b m IH]; intros [|a u]; try reflexivity.
  cbn [map select]. destruct b; cbn [map]; rewrite IH; reflexivity.
Qed.

Lemma select_length_eq {X Y} (m : list bool) (u : list X) (v : list Y) :
  length u = length v -> length (select m u) = length (select m v).
Proof.
  revert u v. induction m as [|b m IH]; intros [|a u] [|c v] L; cbn in L; try lia; try reflexivity.
  cbn [select]. destruct b; cbn [length]; rewrite (IH u v) by lia; reflexivity.
Qed.

Lemma vmul_ones_l (l m : list R) : (length m <= length l)%nat ->
  vmul (ones_like l) m = m.
Proof.
  unfold vmul, ones_like; numR. revert m. induction l as [|a l IH]; intros [|c m] L; cbn in *; try lia; try reflexivity.
  f_equal; [ring | apply IH; lia].
Qed.

Lemma lorch_factor_select (X : R) (m : list bool) (x : list R) :
  lorch_factor X (select m x) = select m (lorch_factor X x).
Proof. unfold lorch_factor. symmetry. apply select_map. Qed.

(* ---------- 3: Lorch = pre-multiplication of data and uncertainties ---------- *)

Theorem lorch_is_premultiplication (x y xo : list R) (a b : option R) (dy : option (list R)) (k : kw R) :
  length y = length x -> dok dy (length x) -> lorch k = true -> omitted k = false ->
  let w := lorch_factor (window_hi x b) x in
  fourier_transform x y xo a b dy k =
  fourier_transform x (vmul w y) xo a b (Some (vmul w (dflt_zeros y dy))) (set_lorch k false).
Proof.
  intros Ly Ld HL HO w.
  assert (Le : length (dflt_zeros y dy) = length x) by (apply dflt_len; assumption).
  unfold fourier_transform, apply_cropping, window_hi in *.
  cbn [lorch omitted set_lorch dflt_zeros]. rewrite HL, HO.
  set (hi := match b with Some v => v | None => vmax x end) in *.
  set (lo := match a with Some v => v | None => vmin x end).
  set (m := crop_mask x lo hi).
  assert (Hy : vmul (ones_like (select m (vmul w y))) (select m (vmul w y))
               = vmul (lorch_factor hi (select m x)) (select m y)).
  { rewrite vmul_ones_l by lia. unfold vmul. rewrite select_map2. rewrite lorch_factor_select. reflexivity. }
  assert (He : vmul (ones_like (select m (vmul w y))) (select m (vmul w (dflt_zeros y dy)))
               = vmul (lorch_factor hi (select m x)) (select m (dflt_zeros y dy))).
  { rewrite vmul_ones_l.
    - unfold vmul. rewrite select_map2. rewrite lorch_factor_select. reflexivity.
    - apply Nat.eq_le_incl. apply select_length_eq. unfold vmul. rewrite !map2_length. lia. }
  rewrite Hy, He. reflexivity.
Qed.

Example lorch_is_premultiplication_nonvacuous :
  let x := [1; 2; 3] in let y := [1; 1; 1] in
  let k := {| rho := 1; bcoh := 1; btot := 1; lorch := true; omitted := false |} in
  length y = length x /\ dok (Some [1; 1; 1]) (length x) /\ lorch k = true /\ omitted k = false.
Proof. cbn. split; [reflexivity|]. split; [apply dok_some; reflexivity|]. split; reflexivity. Qed.

(* ---------- 4: the constant is pi / (largest abscissa entering the transform) ---------- *)

Lemma maxl_ge_d (l : list R) (d : R) : d <= maxl d l.
Proof.
  revert d. induction l as [|a l IH]; intros d; cbn [maxl]; numR; [lra|].
  destruct (Rltb_spec d a) as [H|H]; [pose proof (IH a); lra | apply IH].
Qed.
Lemma maxl_ge_in (l : list R) (d y : R) : In y l -> y <= maxl d l.
Proof.
  revert d. induction l as [|a l IH]; intros d Hin; [destruct Hin|]. cbn [maxl]; numR.
  destruct Hin as [->|Hin]; [|apply IH; exact Hin].
  destruct (Rltb_spec d y) as [H|H]; [apply maxl_ge_d|].
  pose proof (maxl_ge_d l d). lra.
Qed.
Lemma maxl_in (l : list R) (d : R) : maxl d l = d \/ In (maxl d l) l.
Proof.
  revert d. induction l as [|a l IH]; intros d; cbn [maxl]; numR; [left; reflexivity|].
  destruct (Rltb_spec d a) as [H|H].
  - destruct (IH a) as [E|E]; right; [left; symmetry; exact E | right; exact E].
  - destruct (IH d) as [E|E]; [left; exact E | right; right; exact E].
Qed.
Lemma minl_le_d (l : list R) (d : R) : minl d l <= d.
Proof.
  revert d. induction l as [|a l IH]; intros d; cbn [minl]; numR; [lra|].
  destruct (Rltb_spec a d) as [H|H]; [pose proof (IH a); lra | apply IH].
Qed.

Lemma vmax_in (l : list R) : l <> [] -> In (vmax l) l.
Proof.
  destruct l as [|a l]; [intros H; contradiction H; reflexivity|]. intros _. cbn [vmax].
  destruct (maxl_in l a) as [E|E]; [left; symmetry; exact E | right; exact E].
Qed.
Lemma vmax_ge (l : list R) (y : R) : In y l -> y <= vmax l.
Proof.
  destruct l as [|a l]; [intros []|]. cbn [vmax]. intros [->|Hin]; [apply maxl_ge_d | apply maxl_ge_in; exact Hin].
Qed.
Lemma vmin_le_vmax (l : list R) : vmin l <= vmax l.
Proof.
  destruct l as [|a l]; cbn [vmin vmax]; numR; [lra|].
  pose proof (minl_le_d l a). pose proof (maxl_ge_d l a). lra.
Qed.

(* membership in the crop: grid points inside the closed window *)
Lemma In_crop (x : list R) (lo hi t : R) :
  In t (select (crop_mask x lo hi) x) <-> In t x /\ lo <= t <= hi.
Proof.
  unfold crop_mask. induction x as [|a x IH]; cbn [map select In]; numR; [tauto|].
  destruct (Rleb_spec lo a) as [H1|H1]; destruct (Rleb_spec a hi) as [H2|H2]; cbn [andb In]; rewrite IH;
    split; intros; intuition (try subst; try lra; auto).
Qed.

(* every point of the crop is <= the upper bound, and if the upper bound is a
   grid point inside the window it is the largest point of the crop *)
Lemma crop_le_hi (x : list R) (lo hi t : R) : In t (select (crop_mask x lo hi) x) -> t <= hi.
Proof. intros H. apply In_crop in H. lra. Qed.

Lemma vmax_crop_grid_point (x : list R) (lo hi : R) :
  In hi x -> lo <= hi -> vmax (select (crop_mask x lo hi) x) = hi.
Proof.
  intros Hin Hle. set (c := select (crop_mask x lo hi) x).
  assert (Hc : In hi c) by (apply In_crop; split; [exact Hin | lra]).
  assert (Hne : c <> []) by (intros E; rewrite E in Hc; destruct Hc).
  pose proof (vmax_in c Hne) as Hm. apply crop_le_hi in Hm.
  pose proof (vmax_ge c hi Hc). lra.
Qed.

(* The constant of the window is pi / window_hi (by definition of
   fourier_transform), and window_hi is the largest abscissa entering the
   transform as soon as it is a grid point (always so when xmax is not given)
   and the window is not empty. *)
Theorem lorch_constant_is_pi_over_xmax (x : list R) (a b : option R) :
  x <> [] ->
  (b = None \/ exists v, b = Some v /\ In v x) ->
  (match a with Some u => u <= window_hi x b | None => True end) ->
  window_hi x b = vmax (cropped_grid x a b).
Proof.
  intros Hne Hb Ha. unfold cropped_grid. symmetry. apply vmax_crop_grid_point.
  - destruct Hb as [->|[v [-> Hv]]]; cbn [window_hi]; [apply vmax_in; exact Hne | exact Hv].
  - destruct a as [u|]; cbn [window_lo]; [exact Ha|].
    assert (Hhi : In (window_hi x b) x).
    { destruct Hb as [->|[v [-> Hv]]]; cbn [window_hi]; [apply vmax_in; exact Hne | exact Hv]. }
    pose proof (vmin_le_vmax x). pose proof (vmax_ge x _ Hhi).
    destruct Hb as [->|[v [-> Hv]]]; cbn [window_hi] in *; [lra|].
    (* vmin x <= v for a grid point v *)
    clear -Hv. destruct x as [|c x]; [destruct Hv|]. cbn [vmin].
    revert c Hv. induction x as [|d x IH]; intros c Hv.
    + destruct Hv as [->|[]]. cbn. lra.
    + cbn [minl]; numR. destruct (Rltb_spec d c) as [H|H].
      * destruct Hv as [->|[->|Hv]].
        -- pose proof (minl_le_d x d). lra.
        -- apply minl_le_d.
        -- apply IH. right. exact Hv.
      * destruct Hv as [->|[->|Hv]].
        -- apply minl_le_d.
        -- pose proof (minl_le_d x c). lra.
        -- apply IH. right. exact Hv.
Qed.

(* the combined statement: with Lorch on, the transform is the plain
   transform of the data and uncertainties multiplied by
   sin(pi t / X)/(pi t / X), X the largest abscissa entering the transform *)
Theorem lorch_window_uses_largest_abscissa (x y xo : list R) (a b : option R) (dy : option (list R)) (k : kw R) :
  length y = length x -> dok dy (length x) -> lorch k = true -> omitted k = false ->
  x <> [] ->
  (b = None \/ exists v, b = Some v /\ In v x) ->
  (match a with Some u => u <= window_hi x b | None => True end) ->
  let w := map (lorch_weight (PI / vmax (cropped_grid x a b))) x in
  fourier_transform x y xo a b dy k =
  fourier_transform x (vmul w y) xo a b (Some (vmul w (dflt_zeros y dy))) (set_lorch k false).
Proof.
  intros Ly Ld HL HO Hne Hb Ha w. subst w.
  rewrite <- (lorch_constant_is_pi_over_xmax x a b Hne Hb Ha).
  apply lorch_is_premultiplication; assumption.
Qed.

Example lorch_constant_nonvacuous :
  let x := [1; 2; 3] in
  x <> [] /\ (Some 2 = None \/ exists v, Some 2 = Some v /\ In v x) /\
  (match Some 1 with Some u => u <= window_hi x (Some 2) | None => True end).
Proof.
  cbn. split; [discriminate|]. split; [right; exists 2; split; [reflexivity | right; left; reflexivity]|]. lra.
Qed.

(* without the non-emptiness condition on the window the statement fails:
   the crop is empty and vmax [] = 0 *)
Example lorch_constant_empty_window :
  window_hi [1; 2] None = 2 /\ vmax (cropped_grid [1; 2] (Some 3) None) = 0.
Proof.
  unfold cropped_grid, crop_mask, window_hi, window_lo. cbn [vmax maxl map]; numR.
  rewrite (Rltb_true 1 2) by lra. split; [reflexivity|].
  rewrite (Rleb_false 3 1), (Rleb_false 3 2) by lra. reflexivity.
Qed.

Example lorch_window_uses_largest_abscissa_nonvacuous :
  let x := [1; 2; 3] in let y := [1; 1; 1] in
  let k := {| rho := 1; bcoh := 1; btot := 1; lorch := true; omitted := false |} in
  length y = length x /\ dok None (length x) /\ lorch k = true /\ omitted k = false /\ x <> [] /\
  (@None R = None \/ exists v, None = Some v /\ In v x) /\
  (match Some 2 with Some u => u <= window_hi x None | None => True end) /\
  vmax (cropped_grid x (Some 2) None) = 3.
Proof.
  cbn [length lorch omitted]. split; [reflexivity|]. split; [apply dok_none|]. split; [reflexivity|].
  split; [reflexivity|]. split; [discriminate|]. split; [left; reflexivity|].
  assert (H : window_hi [1; 2; 3] None = 3).
  { unfold window_hi. cbn [vmax maxl]; numR. rewrite (Rltb_true 1 2), (Rltb_true 2 3) by lra. reflexivity. }
  split; [rewrite H; lra|].
  rewrite <- (lorch_constant_is_pi_over_xmax [1; 2; 3] (Some 2) None); [exact H | discriminate | left; reflexivity | rewrite H; lra].
Qed.

Example lorch_weight_formula_nonvacuous : 1 * 1 <> 0 /\ (1 <> 0).
Proof. split; lra. Qed.
