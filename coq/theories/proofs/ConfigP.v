(* ConfigP.v -- proofs for property C19 (configuration path, ConfigM.v):
   omitted optional keys behave like their defaults, given keys land in the settings,
   invalid choices are rejected, the r grid produced by create_domain, and the command line
   entry point (argument mapping, step plan, comparison with the library defaults).
   Parts 1-3 and 5 hold for every carrier `Num A`; part 4 (the r grid) is at R. *)
From Coq Require Import List Reals ZArith Bool Lia Lra.
From PyStoG Require Import Num NumR ConverterM StogM ConfigM.
Import ListNotations.

(* ------------------------------------------------------------------ *)
(* Definitions needed to state the C19 theorems                       *)
(* ------------------------------------------------------------------ *)

(* the rows a reader gets when it skips `skip` leading lines of a file *)
Definition rows_read (skip : nat) {X : Type} (lines : list X) : list X := skipn skip lines.

Section Generic.
  Context {A : Type} `{Num A}.
  Local Open Scope num_scope.

  (* the same steps as cli_plan, but reading the input with the library default skiprows *)
  Definition library_plan (s : @settings A) : list action :=
    [AReadAll lib_skiprows; AMerge; AWriteSQ; ATransform; AWriteGR]
      ++ (match st_cutoff s with Some _ => [AFilter] | None => [] end)
      ++ (if st_lorch s then [ALorch] else [])
      ++ [AKeenFQ; AKeenGR].

  (* a configuration file that gives no optional key at all *)
  Definition empty_json : @json A :=
    {| j_fn := None; j_rmin := None; j_rmax := None; j_rdelta := None; j_rpoints := None;
       j_rho := None; j_lowq := None; j_lorch := None; j_ff := None; j_bcoh := None; j_btot := None;
       j_merge := None; j_qmin := None; j_qmax := None |}.

  (* ---------------------------------------------------------------- *)
  (* 1. an omitted key behaves like its default                        *)
  (* ---------------------------------------------------------------- *)

  Lemma omitted_is_default : forall j : @json A, kwargs2attr (fill_defaults j) = kwargs2attr j.
  Proof.
    intros [fn rmin rmax rdelta rpoints rho lowq lorch ff bcoh btot merge qmin qmax].
    unfold kwargs2attr, fill_defaults; cbn.
    destruct fn as [[g|]|]; cbn; try reflexivity;
    destruct lowq as [[b|]|]; cbn; try reflexivity;
    destruct lorch as [[b'|]|]; cbn; try reflexivity;
    destruct rdelta, rpoints, ff as [[c|]|], merge; reflexivity.
  Qed.

  Lemma omitted_is_default_cli : forall j : @json A, cli_plan (fill_defaults j) = cli_plan j.
  Proof. intros j. unfold cli_plan. rewrite omitted_is_default. reflexivity. Qed.

  (* fill_defaults j is the fully explicit configuration: every optional key is present
     (for the step either Rdelta or Rpoints; Qmin/Qmax are sub-keys of Merging and have no default) *)
  Lemma fill_defaults_total : forall j : @json A,
    j_fn (fill_defaults j) <> None /\ j_rmin (fill_defaults j) <> None /\ j_rmax (fill_defaults j) <> None /\
    j_rho (fill_defaults j) <> None /\ j_lowq (fill_defaults j) <> None /\ j_lorch (fill_defaults j) <> None /\
    (exists c, j_ff (fill_defaults j) = Some (Some c)) /\
    j_bcoh (fill_defaults j) <> None /\ j_btot (fill_defaults j) <> None /\ j_merge (fill_defaults j) <> None /\
    (j_rdelta (fill_defaults j) <> None \/ j_rpoints (fill_defaults j) <> None).
  Proof.
    intros j. unfold fill_defaults; cbn.
    repeat (split; [discriminate|]).
    split; [eexists; reflexivity|].
    repeat (split; [discriminate|]).
    destruct (j_rdelta j), (j_rpoints j); (left; discriminate) || (right; discriminate).
  Qed.

  (* ---------------------------------------------------------------- *)
  (* inversion of kwargs2attr                                          *)
  (* ---------------------------------------------------------------- *)

  Lemma kwargs2attr_ok_inv : forall (j : @json A) s, kwargs2attr j = Ok s ->
    exists fn lowq lor,
      fn_of (j_fn j) gg = Ok fn /\ flag_of (j_lowq j) false = Ok lowq /\ flag_of (j_lorch j) false = Ok lor /\
      s = {| st_fn := fn;
             st_rmin := opt_or (j_rmin j) zero;
             st_rmax := opt_or (j_rmax j) (of_Z 50);
             st_rdelta := match j_rdelta j, j_rpoints j with
                          | Some d, _ => d
                          | None, Some n => opt_or (j_rmax j) (of_Z 50) / n
                          | None, None => rdelta_default
                          end;
             st_rho := opt_or (j_rho j) one;
             st_bcoh := opt_or (j_bcoh j) one;
             st_btot := opt_or (j_btot j) one;
             st_lowq := lowq; st_lorch := lor;
             st_cutoff := match j_ff j with Some (Some c) => c | _ => None end;
             st_merge := opt_or (j_merge j) default_merge;
             st_qmin := match j_merge j with Some _ => j_qmin j | None => None end;
             st_qmax := match j_merge j with Some _ => j_qmax j | None => None end |}.
  Proof.
    intros j s E. unfold kwargs2attr in E. cbn [defaults st_fn st_rmin st_rmax st_rdelta st_rho st_bcoh st_btot
      st_lowq st_lorch] in E.
    destruct (fn_of (j_fn j) gg) as [fn|e]; [|discriminate].
    destruct (flag_of (j_lowq j) false) as [lowq|e]; [|discriminate].
    destruct (flag_of (j_lorch j) false) as [lor|e]; [|discriminate].
    exists fn, lowq, lor. injection E as E. subst s. repeat split; reflexivity.
  Qed.

  (* ---------------------------------------------------------------- *)
  (* 2. every given key is the corresponding setting                   *)
  (* ---------------------------------------------------------------- *)

  Lemma given_keys_land : forall (j : @json A) s, kwargs2attr j = Ok s ->
    (forall v, j_rmin j = Some v -> st_rmin s = v) /\
    (forall v, j_rmax j = Some v -> st_rmax s = v) /\
    (forall v, j_rho j = Some v -> st_rho s = v) /\
    (forall v, j_bcoh j = Some v -> st_bcoh s = v) /\
    (forall v, j_btot j = Some v -> st_btot s = v) /\
    (forall d, j_rdelta j = Some d -> st_rdelta s = d) /\
    (forall n, j_rdelta j = None -> j_rpoints j = Some n -> st_rdelta s = st_rmax s / n) /\
    (forall g, j_fn j = Some (FnName g) -> st_fn s = g) /\
    (forall b, j_lowq j = Some (FlagBool b) -> st_lowq s = b) /\
    (forall b, j_lorch j = Some (FlagBool b) -> st_lorch s = b) /\
    (forall c, j_ff j = Some (Some c) -> st_cutoff s = c) /\
    (forall m, j_merge j = Some m -> st_merge s = m /\ st_qmin s = j_qmin j /\ st_qmax s = j_qmax j).
  Proof.
    intros j s E.
    destruct (kwargs2attr_ok_inv j s E) as (fn & lowq & lor & Efn & Elq & Elo & ->).
    cbn [st_fn st_rmin st_rmax st_rdelta st_rho st_bcoh st_btot st_lowq st_lorch st_cutoff st_merge st_qmin st_qmax].
    split; [intros v ->; reflexivity|].
    split; [intros v ->; reflexivity|].
    split; [intros v ->; reflexivity|].
    split; [intros v ->; reflexivity|].
    split; [intros v ->; reflexivity|].
    split; [intros v ->; reflexivity|].
    split; [intros n -> ->; reflexivity|].
    split; [intros g Eg; rewrite Eg in Efn; cbn in Efn; congruence|].
    split; [intros b Eb; rewrite Eb in Elq; cbn in Elq; congruence|].
    split; [intros b Eb; rewrite Eb in Elo; cbn in Elo; congruence|].
    split; [intros c ->; reflexivity|].
    intros m ->. cbn. repeat split; reflexivity.
  Qed.

  (* absent keys: the documented defaults *)
  Lemma absent_keys_default : forall (j : @json A) s, kwargs2attr j = Ok s ->
    (j_rmin j = None -> st_rmin s = zero) /\
    (j_rmax j = None -> st_rmax s = of_Z 50) /\
    (j_rho j = None -> st_rho s = one) /\
    (j_bcoh j = None -> st_bcoh s = one) /\
    (j_btot j = None -> st_btot s = one) /\
    (j_rdelta j = None -> j_rpoints j = None -> st_rdelta s = of_Z 1 / of_Z 100) /\
    (j_fn j = None -> st_fn s = gg) /\
    (j_lowq j = None -> st_lowq s = false) /\
    (j_lorch j = None -> st_lorch s = false) /\
    (j_ff j = None \/ j_ff j = Some None -> st_cutoff s = None) /\
    (j_merge j = None -> st_merge s = default_merge /\ st_qmin s = None /\ st_qmax s = None).
  Proof.
    intros j s E.
    destruct (kwargs2attr_ok_inv j s E) as (fn & lowq & lor & Efn & Elq & Elo & ->).
    cbn [st_fn st_rmin st_rmax st_rdelta st_rho st_bcoh st_btot st_lowq st_lorch st_cutoff st_merge st_qmin st_qmax].
    split; [intros ->; reflexivity|].
    split; [intros ->; reflexivity|].
    split; [intros ->; reflexivity|].
    split; [intros ->; reflexivity|].
    split; [intros ->; reflexivity|].
    split; [intros -> ->; reflexivity|].
    split; [intros Eg; rewrite Eg in Efn; cbn in Efn; congruence|].
    split; [intros Eb; rewrite Eb in Elq; cbn in Elq; congruence|].
    split; [intros Eb; rewrite Eb in Elo; cbn in Elo; congruence|].
    split; [intros [-> | ->]; reflexivity|].
    intros ->. cbn. repeat split; reflexivity.
  Qed.

  (* ---------------------------------------------------------------- *)
  (* 3. invalid choices are rejected, valid ones accepted              *)
  (* ---------------------------------------------------------------- *)

  Lemma invalid_choice_rejected : forall j : @json A,
    (j_fn j = Some FnBad -> kwargs2attr j = Err ValueError) /\
    (j_fn j <> Some FnBad -> j_lowq j = Some FlagOther -> kwargs2attr j = Err TypeError) /\
    (j_fn j <> Some FnBad -> j_lowq j <> Some FlagOther -> j_lorch j = Some FlagOther ->
       kwargs2attr j = Err TypeError) /\
    kind_of (Some KindBad) = Err ValueError.
  Proof.
    intros j. unfold kwargs2attr.
    split; [intros ->; reflexivity|].
    split; [intros Hfn ->; destruct (j_fn j) as [[g|]|]; try reflexivity; congruence|].
    split; [|reflexivity].
    intros Hfn Hlq ->.
    destruct (j_fn j) as [[g|]|]; try congruence;
      destruct (j_lowq j) as [[b|]|]; try congruence; reflexivity.
  Qed.

  Lemma valid_accepted : forall j : @json A,
    j_fn j <> Some FnBad -> j_lowq j <> Some FlagOther -> j_lorch j <> Some FlagOther ->
    exists s, kwargs2attr j = Ok s.
  Proof.
    intros j Hfn Hlq Hlo. unfold kwargs2attr.
    destruct (j_fn j) as [[g|]|]; try congruence;
      destruct (j_lowq j) as [[b|]|]; try congruence;
      destruct (j_lorch j) as [[b'|]|]; try congruence; cbn; eexists; reflexivity.
  Qed.

  (* the three error cases are the only ones *)
  Lemma rejected_only_if_invalid : forall (j : @json A) e, kwargs2attr j = Err e ->
    (j_fn j = Some FnBad /\ e = ValueError) \/
    ((j_lowq j = Some FlagOther \/ j_lorch j = Some FlagOther) /\ e = TypeError).
  Proof.
    intros j e. unfold kwargs2attr.
    destruct (j_fn j) as [[g|]|]; cbn;
      destruct (j_lowq j) as [[b|]|]; cbn;
      destruct (j_lorch j) as [[b'|]|]; cbn; intros E; try discriminate; injection E as <-; auto.
  Qed.

  (* ---------------------------------------------------------------- *)
  (* 5. the command line                                               *)
  (* ---------------------------------------------------------------- *)

  Lemma cli_args_land : forall (a : @args A) g s,
    a_fn a = FnName g -> kwargs2attr (parse_cli_args a) = Ok s ->
    st_rho s = a_density a /\ st_rmax s = a_rmax a /\ st_rmin s = zero /\
    st_rdelta s = (match a_rdelta a with Some d => d | None => a_rmax a / a_rpoints a end) /\
    st_fn s = g /\ st_lorch s = a_lorch a /\ st_lowq s = a_lowq a /\ st_cutoff s = a_cutoff a /\
    st_bcoh s = a_bcoh a /\ st_btot s = a_btot a /\
    merged_yscale (st_merge s) = a_merge_scale a /\ merged_yoffset (st_merge s) = a_merge_offset a /\
    st_qmin s = None /\ st_qmax s = None.
  Proof.
    intros a g s Hfn E. unfold kwargs2attr, parse_cli_args in E. cbn in E. rewrite Hfn in E. cbn in E.
    injection E as <-. cbn.
    destruct (a_rdelta a); repeat split; reflexivity.
  Qed.

  (* an unknown --real-space-function is the only way the command line is rejected *)
  Lemma cli_args_rejected_iff : forall a : @args A,
    (a_fn a = FnBad -> kwargs2attr (parse_cli_args a) = Err ValueError) /\
    (forall g, a_fn a = FnName g -> exists s, kwargs2attr (parse_cli_args a) = Ok s).
  Proof.
    intros a. unfold kwargs2attr, parse_cli_args; cbn. split.
    - intros ->. reflexivity.
    - intros g ->. cbn. eexists; reflexivity.
  Qed.

  Lemma cli_plan_spec : forall j : @json A,
    (forall s, kwargs2attr j = Ok s ->
       cli_plan j = Ok ([AReadAll cli_skiprows; AMerge; AWriteSQ; ATransform; AWriteGR]
                          ++ (match st_cutoff s with Some _ => [AFilter] | None => [] end)
                          ++ (if st_lorch s then [ALorch] else [])
                          ++ [AKeenFQ; AKeenGR])) /\
    (forall e, kwargs2attr j = Err e -> cli_plan j = Err e).
  Proof.
    intros j. unfold cli_plan. split; intros x ->; reflexivity.
  Qed.

  Lemma cli_filter_iff_cutoff : forall (j : @json A) p s,
    cli_plan j = Ok p -> kwargs2attr j = Ok s -> (In AFilter p <-> st_cutoff s <> None).
  Proof.
    intros j p s Ep Es. unfold cli_plan in Ep. rewrite Es in Ep. injection Ep as <-.
    destruct (st_cutoff s) as [c|], (st_lorch s); cbn; split; intros Hx;
      try discriminate; try congruence; intuition discriminate.
  Qed.

  Lemma cli_lorch_iff_flag : forall (j : @json A) p s,
    cli_plan j = Ok p -> kwargs2attr j = Ok s -> (In ALorch p <-> st_lorch s = true).
  Proof.
    intros j p s Ep Es. unfold cli_plan in Ep. rewrite Es in Ep. injection Ep as <-.
    destruct (st_cutoff s) as [c|], (st_lorch s); cbn; split; intros Hx;
      try discriminate; try congruence; intuition discriminate.
  Qed.

  (* everything after the read step coincides with the library-default plan ... *)
  Lemma cli_equals_library_partial : forall (j : @json A) p s,
    cli_plan j = Ok p -> kwargs2attr j = Ok s -> tl p = tl (library_plan s).
  Proof.
    intros j p s Ep Es. unfold cli_plan in Ep. rewrite Es in Ep. injection Ep as <-. reflexivity.
  Qed.

  (* ... but the read step itself differs: the full equality `p = library_plan s` is false *)
  Lemma cli_reads_differently_refuted :
    exists (j : @json A) p s, cli_plan j = Ok p /\ kwargs2attr j = Ok s /\ p <> library_plan s.
  Proof.
    exists empty_json. eexists. eexists.
    split; [reflexivity|]. split; [reflexivity|].
    cbn. unfold cli_skiprows, lib_skiprows. discriminate.
  Qed.

  (* in fact it is false for every accepted configuration *)
  Lemma cli_reads_differently_always : forall (j : @json A) p s,
    cli_plan j = Ok p -> kwargs2attr j = Ok s ->
    hd AMerge p = AReadAll 3 /\ hd AMerge (library_plan s) = AReadAll 2 /\ p <> library_plan s.
  Proof.
    intros j p s Ep Es. unfold cli_plan in Ep. rewrite Es in Ep. injection Ep as <-.
    split; [reflexivity|]. split; [reflexivity|].
    unfold library_plan, cli_skiprows, lib_skiprows. cbn. discriminate.
  Qed.
End Generic.

(* with two header lines the entry point (skiprows = 3) loses the first data row; the library default keeps it *)
Lemma cli_drops_first_data_row : forall (X : Type) (h1 h2 row : X) (rest : list X),
  rows_read cli_skiprows (h1 :: h2 :: row :: rest) = rest /\
  rows_read lib_skiprows (h1 :: h2 :: row :: rest) = row :: rest.
Proof. intros. split; reflexivity. Qed.

(* ------------------------------------------------------------------ *)
(* 4. the r grid (at R)                                                *)
(* ------------------------------------------------------------------ *)
Open Scope R_scope.

Lemma Rceil_spec : forall x, IZR (Rceil x) - 1 < x <= IZR (Rceil x).
Proof.
  intros x. unfold Rceil, Rfloor.
  destruct (archimed (- x)) as [Hu Hl].
  rewrite opp_IZR, minus_IZR. lra.
Qed.

Lemma Rceil_unique : forall n x, IZR n - 1 < x <= IZR n -> Rceil x = n.
Proof.
  intros n x [Hn1 Hn2]. destruct (Rceil_spec x) as [Hk1 Hk2].
  assert (L1 : IZR (n - 1) < IZR (Rceil x)) by (rewrite minus_IZR; lra).
  assert (L2 : IZR (Rceil x - 1) < IZR n) by (rewrite minus_IZR; lra).
  apply lt_IZR in L1. apply lt_IZR in L2. lia.
Qed.

Lemma Rceil_IZR : forall n, Rceil (IZR n) = n.
Proof. intros n. apply Rceil_unique. lra. Qed.

Lemma nth_map_seq : forall (B : Type) (f : nat -> B) n i d, (i < n)%nat -> nth i (map f (seq 0 n)) d = f i.
Proof.
  intros B f n i d Hi.
  rewrite (nth_indep _ d (f 0%nat)) by (rewrite map_length, seq_length; exact Hi).
  rewrite map_nth. rewrite seq_nth by exact Hi. reflexivity.
Qed.

(* np.arange(start, stop, step) at R: ceil((stop-start)/step) points start + i*step *)
Lemma arange_spec : forall start stop step : R, 0 < step ->
  let g := arange start stop step in
  length g = Z.to_nat (Rceil ((stop - start) / step)) /\
  (forall i, (i < length g)%nat -> nth i g 0 = start + INR i * step).
Proof.
  intros start stop step Hs g. subst g. unfold arange. numR.
  rewrite map_length, seq_length. split; [reflexivity|].
  intros i Hi. rewrite nth_map_seq by exact Hi. rewrite <- INR_IZR_INZ. ring.
Qed.

Lemma rgrid_spec : forall s : @settings R, 0 < st_rdelta s -> st_rmin s <= st_rmax s ->
  let g := rgrid s in let n := length g in
  (1 <= n)%nat /\
  nth 0 g 0 = st_rmin s /\
  (forall i, (i < n)%nat -> nth i g 0 = st_rmin s + INR i * st_rdelta s) /\
  st_rmax s <= nth (n - 1) g 0 < st_rmax s + st_rdelta s.
Proof.
  intros s Hd Hle g n. subst n g. unfold rgrid. numR.
  set (a := st_rmin s) in *. set (b := st_rmax s) in *. set (d := st_rdelta s) in *.
  destruct (arange_spec a (b + d) d Hd) as [Hlen Hnth].
  set (k := Rceil ((b + d - a) / d)) in *.
  assert (Hx : (b + d - a) / d = (b - a) / d + 1) by (field; lra).
  destruct (Rceil_spec ((b + d - a) / d)) as [Hk1 Hk2]. fold k in Hk1, Hk2. rewrite Hx in Hk1, Hk2.
  assert (Hq : 0 <= (b - a) / d) by (apply Rmult_le_pos; [lra | left; apply Rinv_0_lt_compat; exact Hd]).
  assert (Hk : (1 <= k)%Z).
  { assert (L : IZR 0 < IZR k) by lra. apply lt_IZR in L. lia. }
  assert (Hn : (1 <= length (arange a (b + d)%R d))%nat) by (rewrite Hlen; lia).
  split; [exact Hn|].
  split; [rewrite Hnth by lia; cbn [INR]; ring|].
  split; [exact Hnth|].
  rewrite Hnth by lia.
  assert (HI : INR (length (arange a (b + d)%R d) - 1) = IZR k - 1).
  { rewrite Hlen. rewrite minus_INR by lia. rewrite INR_IZR_INZ. rewrite Z2Nat.id by lia. cbn [INR]. ring. }
  rewrite HI.
  (* IZR k - 2 < (b-a)/d <= IZR k - 1, multiply by d *)
  assert (Hba : b - a = (b - a) / d * d) by (field; lra).
  split.
  - assert (L : (b - a) / d * d <= (IZR k - 1) * d) by (apply Rmult_le_compat_r; lra). lra.
  - assert (L : (IZR k - 2) * d < (b - a) / d * d) by (apply Rmult_lt_compat_r; lra). lra.
Qed.

(* with given_keys_land: the r grid of an accepted configuration starts at the given Rmin, advances by the given
   Rdelta (or Rmax/Rpoints when only Rpoints is given) and covers the given Rmax *)
Lemma rgrid_from_keys : forall (j : @json R) s rmin rmax, kwargs2attr j = Ok s ->
  j_rmin j = Some rmin -> j_rmax j = Some rmax -> rmin <= rmax ->
  (forall d, j_rdelta j = Some d -> 0 < d ->
     nth 0 (rgrid s) 0 = rmin /\
     (forall i, (i < length (rgrid s))%nat -> nth i (rgrid s) 0 = rmin + INR i * d) /\
     rmax <= nth (length (rgrid s) - 1) (rgrid s) 0 < rmax + d) /\
  (forall n, j_rdelta j = None -> j_rpoints j = Some n -> 0 < rmax / n ->
     nth 0 (rgrid s) 0 = rmin /\
     (forall i, (i < length (rgrid s))%nat -> nth i (rgrid s) 0 = rmin + INR i * (rmax / n)) /\
     rmax <= nth (length (rgrid s) - 1) (rgrid s) 0 < rmax + rmax / n).
Proof.
  intros j s rmin rmax E Hmin Hmax Hle.
  destruct (given_keys_land j s E) as (K1 & K2 & _ & _ & _ & K6 & K7 & _).
  pose proof (K1 _ Hmin) as E1. pose proof (K2 _ Hmax) as E2.
  split.
  - intros d Hd Hpos. pose proof (K6 _ Hd) as E3.
    assert (P : 0 < st_rdelta s) by (rewrite E3; exact Hpos).
    assert (Q : st_rmin s <= st_rmax s) by (rewrite E1, E2; exact Hle).
    destruct (rgrid_spec s P Q) as (_ & G0 & Gi & Gl). rewrite E1, E2, E3 in *. auto.
  - intros n Hd Hn Hpos. pose proof (K7 _ Hd Hn) as E3. numR. rewrite E2 in E3.
    assert (P : 0 < st_rdelta s) by (rewrite E3; exact Hpos).
    assert (Q : st_rmin s <= st_rmax s) by (rewrite E1, E2; exact Hle).
    destruct (rgrid_spec s P Q) as (_ & G0 & Gi & Gl). rewrite E1, E2, E3 in *. auto.
Qed.

(* ------------------------------------------------------------------ *)
(* non-vacuity: concrete instances                                     *)
(* ------------------------------------------------------------------ *)

(* {"Rmax": 10, "Rpoints": 100, "RealSpaceFunction": "G(r)", "LorchFlag": true} *)
Definition ex_json : @json R :=
  {| j_fn := Some (FnName gG); j_rmin := None; j_rmax := Some 10; j_rdelta := None; j_rpoints := Some 100;
     j_rho := None; j_lowq := None; j_lorch := Some (FlagBool true); j_ff := None; j_bcoh := None; j_btot := None;
     j_merge := None; j_qmin := None; j_qmax := None |}.
Definition ex_settings : @settings R :=
  {| st_fn := gG; st_rmin := 0; st_rmax := 10; st_rdelta := 10 / 100; st_rho := 1; st_bcoh := 1; st_btot := 1;
     st_lowq := false; st_lorch := true; st_cutoff := None; st_merge := default_merge;
     st_qmin := None; st_qmax := None |}.

Example omitted_is_default_nonvacuous :
  kwargs2attr ex_json = Ok ex_settings /\ kwargs2attr (fill_defaults ex_json) = Ok ex_settings /\
  fill_defaults ex_json <> ex_json.
Proof.
  split; [reflexivity|]. split; [reflexivity|]. unfold fill_defaults, ex_json; cbn. discriminate.
Qed.

Example given_keys_land_nonvacuous :
  exists s, kwargs2attr ex_json = Ok s /\ st_rmax s = 10 /\ st_rdelta s = 10 / 100 /\ st_fn s = gG /\ st_lorch s = true.
Proof. exists ex_settings. repeat split; reflexivity. Qed.

Example invalid_choice_rejected_nonvacuous :
  kwargs2attr (A:=R) {| j_fn := Some FnBad; j_rmin := None; j_rmax := None; j_rdelta := None; j_rpoints := None;
     j_rho := None; j_lowq := Some FlagOther; j_lorch := None; j_ff := None; j_bcoh := None; j_btot := None;
     j_merge := None; j_qmin := None; j_qmax := None |} = Err ValueError /\
  kwargs2attr (A:=R) {| j_fn := None; j_rmin := None; j_rmax := None; j_rdelta := None; j_rpoints := None;
     j_rho := None; j_lowq := Some FlagOther; j_lorch := None; j_ff := None; j_bcoh := None; j_btot := None;
     j_merge := None; j_qmin := None; j_qmax := None |} = Err TypeError /\
  kwargs2attr (A:=R) {| j_fn := Some (FnName gGK); j_rmin := None; j_rmax := None; j_rdelta := None; j_rpoints := None;
     j_rho := None; j_lowq := Some (FlagBool true); j_lorch := Some FlagOther; j_ff := None; j_bcoh := None;
     j_btot := None; j_merge := None; j_qmin := None; j_qmax := None |} = Err TypeError.
Proof. repeat split; reflexivity. Qed.

Example valid_accepted_nonvacuous :
  j_fn ex_json <> Some FnBad /\ j_lowq ex_json <> Some FlagOther /\ j_lorch ex_json <> Some FlagOther.
Proof. cbn. repeat split; discriminate. Qed.

(* Rmin 0, Rmax 1, Rdelta 0.25: five points 0, 0.25, 0.5, 0.75, 1 *)
Definition ex_grid_settings : @settings R :=
  {| st_fn := gg; st_rmin := 0; st_rmax := 1; st_rdelta := 1 / 4; st_rho := 1; st_bcoh := 1; st_btot := 1;
     st_lowq := false; st_lorch := false; st_cutoff := None; st_merge := default_merge;
     st_qmin := None; st_qmax := None |}.

Example rgrid_spec_nonvacuous :
  0 < st_rdelta ex_grid_settings /\ st_rmin ex_grid_settings <= st_rmax ex_grid_settings /\
  length (rgrid ex_grid_settings) = 5%nat /\
  Forall2 eq (rgrid ex_grid_settings) [0; 1 / 4; 2 / 4; 3 / 4; 1].
Proof.
  cbn [ex_grid_settings st_rdelta st_rmin st_rmax].
  split; [lra|]. split; [lra|].
  assert (E : rgrid ex_grid_settings =
              map (fun i => 0 + IZR (Z.of_nat i) * (0 + 1 / 4 - 0)) (seq 0 5)).
  { unfold rgrid, arange, ex_grid_settings; cbn [st_rdelta st_rmin st_rmax]. numR.
    replace (Rceil ((1 + 1 / 4 - 0) / (1 / 4))) with 5%Z; [reflexivity|].
    symmetry. apply Rceil_unique. lra. }
  rewrite E. cbn [seq map length Z.of_nat Pos.of_succ_nat Pos.succ].
  split; [reflexivity|].
  repeat constructor; lra.
Qed.

(* pystog_cli --density 0.05 --Rmax 20 --Rpoints 200 --cutoff 1.5 --lorch-flag ... *)
Definition ex_args : @args R :=
  {| a_density := 5 / 100; a_fn := FnName gg; a_rmax := 20; a_rpoints := 200; a_rdelta := None;
     a_cutoff := Some (3 / 2); a_lorch := true; a_bcoh := 1; a_btot := 1;
     a_merge_offset := 0; a_merge_scale := 2; a_lowq := false |}.

Example cli_args_land_nonvacuous :
  exists s, a_fn ex_args = FnName gg /\ kwargs2attr (parse_cli_args ex_args) = Ok s /\
            st_rdelta s = 20 / 200 /\ st_cutoff s = Some (3 / 2) /\ merged_yscale (st_merge s) = 2.
Proof. eexists. split; [reflexivity|]. split; [reflexivity|]. repeat split; reflexivity. Qed.

Example cli_plan_spec_nonvacuous :
  cli_plan (parse_cli_args ex_args) =
    Ok [AReadAll 3; AMerge; AWriteSQ; ATransform; AWriteGR; AFilter; ALorch; AKeenFQ; AKeenGR] /\
  cli_plan (A:=R) empty_json = Ok [AReadAll 3; AMerge; AWriteSQ; ATransform; AWriteGR; AKeenFQ; AKeenGR] /\
  exists j : @json R, cli_plan j = Err ValueError.
Proof.
  split; [reflexivity|]. split; [reflexivity|].
  exists {| j_fn := Some FnBad; j_rmin := None; j_rmax := None; j_rdelta := None; j_rpoints := None;
     j_rho := None; j_lowq := None; j_lorch := None; j_ff := None; j_bcoh := None; j_btot := None;
     j_merge := None; j_qmin := None; j_qmax := None |}. reflexivity.
Qed.

Example cli_equals_library_partial_nonvacuous :
  exists p s, cli_plan (parse_cli_args ex_args) = Ok p /\ kwargs2attr (parse_cli_args ex_args) = Ok s /\
              tl p = [AMerge; AWriteSQ; ATransform; AWriteGR; AFilter; ALorch; AKeenFQ; AKeenGR] /\
              library_plan s = AReadAll 2 :: tl p.
Proof. eexists. eexists. repeat split; reflexivity. Qed.

Example cli_drops_first_data_row_nonvacuous :
  (* lines: two header lines (coded 100, 101) then data rows 1, 2, 3 *)
  rows_read cli_skiprows [100; 101; 1; 2; 3]%nat = [2; 3]%nat /\
  rows_read lib_skiprows [100; 101; 1; 2; 3]%nat = [1; 2; 3]%nat.
Proof. split; reflexivity. Qed.
