(* GenericCropP.v -- carrier-independent versions of the C13 statements.

   Everything here is proved for an ARBITRARY instance of the class Num: no
   law of the operations (not even reflexivity of leb) is assumed.  The
   statements therefore hold verbatim at the IEEE binary64 instance NumF that is
   executed and compared with the Python implementation (including NaN, the
   infinities, signed zeros, ...), and at NumR.

   This file does not import the real numbers. *)
From Coq Require Import List Lia Bool ZArith.
From PyStoG Require Import Num ConverterM TransformerM.
Import ListNotations.

(* ---------- boolean-mask selection (carrier-free) ---------- *)
Lemma gselect_nil_r {B} m : @select B m [] = [].
Proof. destruct m; reflexivity. Qed.

Lemma gcombine_nil_r {X Y} (l : list X) : combine l (@nil Y) = [].
Proof. destruct l; reflexivity. Qed.

Lemma gselect_combine {X Y} m (a : list X) (b : list Y) :
  select m (combine a b) = combine (select m a) (select m b).
Proof.
  revert a b; induction m as [|c m IH]; intros [|x a] [|y b]; cbn [select combine]; auto.
  - destruct c; [reflexivity | symmetry; apply gcombine_nil_r].
  - destruct c; cbn [combine]; rewrite IH; reflexivity.
Qed.

Lemma gselect_map_filter_combine {X Y} (p : X -> bool) (l : list X) (r : list Y) :
  select (map p l) (combine l r) = filter (fun t => p (fst t)) (combine l r).
Proof.
  revert r; induction l as [|x l IH]; intros [|y r]; cbn [map combine select filter fst]; auto.
  rewrite IH. reflexivity.
Qed.

Lemma gselect_map_filter {X} (p : X -> bool) (l : list X) : select (map p l) l = filter p l.
Proof. induction l as [|x l IH]; cbn [map select filter]; auto. rewrite IH; reflexivity. Qed.

Lemma gselect_length {X Y} m (l1 : list X) (l2 : list Y) :
  length l1 = length l2 -> length (select m l1) = length (select m l2).
Proof.
  revert l1 l2; induction m as [|c m IH]; intros [|x l1] [|y l2] L; cbn [select length] in *; try lia.
  destruct c; cbn [length]; rewrite (IH l1 l2) by lia; reflexivity.
Qed.

Lemma gselect_length_le {X Y} m (l : list X) (l' : list Y) :
  (length m <= length l')%nat -> (length (select m l) <= length (select m l'))%nat.
Proof.
  revert l l'; induction m as [|c m IH]; intros [|x l] [|y l'] L; cbn [select length] in *; try lia.
  assert (L' : (length m <= length l')%nat) by lia.
  specialize (IH l l' L'). destruct c; cbn [length]; lia.
Qed.

Lemma gselect_all_true {X} m (l : list X) :
  Forall (fun b => b = true) m -> (length l <= length m)%nat -> select m l = l.
Proof.
  intros F; revert l; induction F as [|c m Hc F IH]; intros [|x l] L; cbn [select length] in *; try lia; auto.
  subst c. rewrite IH by lia. reflexivity.
Qed.

(* a predicate evaluated twice gives the same answer twice: this is all the
   idempotence of the crop needs (leb is a function, nothing more) *)
Lemma gfilter_mask_true {X} (p : X -> bool) (l : list X) :
  Forall (fun c => c = true) (map p (filter p l)).
Proof.
  apply Forall_forall. intros c Hc. apply in_map_iff in Hc.
  destruct Hc as [t [<- Ht]]. apply filter_In in Ht. tauto.
Qed.

Section GenericCrop.
  Context {A : Type} `{Num A}.

  (* the closed-interval test of the crop, as a predicate on one abscissa *)
  Definition inwin_g (xmin xmax t : A) : bool := leb xmin t && leb t xmax.

  Lemma crop_mask_g (x : list A) a b : crop_mask x a b = map (inwin_g a b) x.
  Proof. reflexivity. Qed.

  (* the three outputs of a transform: (grid, values, uncertainties) *)
  Definition tr_grid_g (t : list A * list A * list A) : list A := fst (fst t).
  Definition tr_val_g (t : list A * list A * list A) : list A := snd (fst t).
  Definition tr_err_g (t : list A * list A * list A) : list A := snd t.
  Lemma triple_eta_g (t : list A * list A * list A) : t = (tr_grid_g t, tr_val_g t, tr_err_g t).
  Proof. destruct t as [[a b] c]. reflexivity. Qed.

  (* "the uncertainty column has the length of the data, when it is given" *)
  Definition dok_g (d : option (list A)) (n : nat) : Prop := forall e, d = Some e -> length e = n.

  Lemma dflt_zeros_length_g (y : list A) dy n :
    length y = n -> dok_g dy n -> length (dflt_zeros y dy) = n.
  Proof.
    intros Ly D. destruct dy as [d|]; cbn [dflt_zeros].
    - apply D; reflexivity.
    - unfold zeros_like. rewrite map_length. exact Ly.
  Qed.

  (* ---------- C13.1 the crop is a filter of the zipped triples (no hypothesis) ---------- *)
  Theorem crop_is_filter_gen (x y : list A) xmin xmax dy :
    let '(x', y', e') := apply_cropping x y xmin xmax dy in
    combine x' (combine y' e') =
    filter (fun t => leb xmin (fst t) && leb (fst t) xmax) (combine x (combine y (dflt_zeros y dy))).
  Proof.
    unfold apply_cropping. cbv zeta. rewrite <- !gselect_combine.
    rewrite crop_mask_g. apply (gselect_map_filter_combine (inwin_g xmin xmax)).
  Qed.

  (* the abscissa column alone *)
  Lemma crop_x_is_filter_gen (x y : list A) xmin xmax dy :
    fst (fst (apply_cropping x y xmin xmax dy)) = filter (inwin_g xmin xmax) x.
  Proof. unfold apply_cropping. cbv zeta. cbn [fst]. rewrite crop_mask_g. apply gselect_map_filter. Qed.

  (* ---------- C13.4 lengths ---------- *)
  Theorem crop_lengths_gen (x y : list A) xmin xmax dy :
    length y = length x -> dok_g dy (length x) ->
    let '(x', y', e') := apply_cropping x y xmin xmax dy in
    length y' = length x' /\ length e' = length x'.
  Proof.
    intros Ly D. unfold apply_cropping. cbv zeta. split; apply gselect_length.
    - exact Ly.
    - apply dflt_zeros_length_g; assumption.
  Qed.

  (* ---------- C13.5 idempotence (no hypothesis, no law of leb) ---------- *)
  Lemma crop_idem_eq_gen (x y : list A) a b dy x' y' e' :
    apply_cropping x y a b dy = (x', y', e') ->
    apply_cropping x' y' a b (Some e') = (x', y', e').
  Proof.
    unfold apply_cropping. cbv zeta. cbn [dflt_zeros]. rewrite !crop_mask_g. intros E.
    injection E as Ex Ey Ee.
    assert (T : Forall (fun c => c = true) (map (inwin_g a b) x')).
    { subst x'. rewrite gselect_map_filter. apply gfilter_mask_true. }
    assert (Lx : length (map (inwin_g a b) x') = length x') by apply map_length.
    assert (Lm : (length (map (inwin_g a b) x) <= length x)%nat) by (rewrite map_length; lia).
    f_equal; [f_equal|]; apply gselect_all_true; auto; rewrite Lx.
    - lia.
    - subst x' y'. apply gselect_length_le. exact Lm.
    - subst x' e'. apply gselect_length_le. exact Lm.
  Qed.

  Theorem crop_idem_gen (x y : list A) a b dy :
    let '(x', y', e') := apply_cropping x y a b dy in
    apply_cropping x' y' a b (Some e') = (x', y', e').
  Proof.
    destruct (apply_cropping x y a b dy) as [[x' y'] e'] eqn:E.
    eapply crop_idem_eq_gen; eassumption.
  Qed.

  (* ---------- C13.6 - C13.9 the window of fourier_transform ---------- *)
  Theorem ft_window_is_precrop_gen (x y xo : list A) a b dy (k : kw A) :
    let '(x', y', e') := apply_cropping x y a b dy in
    fourier_transform x y xo (Some a) (Some b) dy k =
    fourier_transform x' y' xo (Some a) (Some b) (Some e') k.
  Proof.
    destruct (apply_cropping x y a b dy) as [[x' y'] e'] eqn:E.
    unfold fourier_transform. rewrite E, (crop_idem_eq_gen _ _ _ _ _ _ _ _ E). reflexivity.
  Qed.

  Theorem ft_outside_irrelevant_gen (x1 y1 x2 y2 xo : list A) a b d1 d2 (k : kw A) :
    apply_cropping x1 y1 a b d1 = apply_cropping x2 y2 a b d2 ->
    fourier_transform x1 y1 xo (Some a) (Some b) d1 k =
    fourier_transform x2 y2 xo (Some a) (Some b) d2 k.
  Proof. intros E. unfold fourier_transform. rewrite E. reflexivity. Qed.

  Theorem ft_no_window_is_full_range_gen (x y xo : list A) dy (k : kw A) :
    fourier_transform x y xo None None dy k =
    fourier_transform x y xo (Some (vmin x)) (Some (vmax x)) dy k.
  Proof. reflexivity. Qed.

  (* ---------- the window [min x, max x] under an explicit data hypothesis ----------
     "crop to the full range removes nothing" is NOT a structural fact: at the
     reals it uses that <= is a total order; at binary64 it fails as soon as the
     abscissa holds a NaN (leb NaN NaN = false).  The hypothesis needed is exactly
     that every point passes the test, and it is decidable by evaluation: *)
  Definition full_range_ok (x : list A) : Prop :=
    Forall (fun t => inwin_g (vmin x) (vmax x) t = true) x.

  Lemma full_mask_select_gen {X} (x : list A) (l : list X) :
    full_range_ok x -> (length l <= length x)%nat -> select (crop_mask x (vmin x) (vmax x)) l = l.
  Proof.
    intros F L. apply gselect_all_true.
    - rewrite crop_mask_g. apply Forall_forall. intros c Hc. apply in_map_iff in Hc.
      destruct Hc as [t [<- Ht]]. unfold full_range_ok in F. rewrite Forall_forall in F. apply F, Ht.
    - unfold crop_mask. rewrite map_length. exact L.
  Qed.

  Theorem crop_full_range_gen (x y : list A) dy :
    full_range_ok x -> length y = length x -> dok_g dy (length x) ->
    apply_cropping x y (vmin x) (vmax x) dy = (x, y, dflt_zeros y dy).
  Proof.
    intros F Ly D. unfold apply_cropping. cbv zeta.
    rewrite !full_mask_select_gen; auto; try lia.
    rewrite (dflt_zeros_length_g y dy (length x)); auto.
  Qed.

  (* full_range_ok follows from four order laws of the carrier (all true at R, all
     four false at binary64 in the presence of NaN) *)
  Section OrderLaws.
    Hypothesis leb_refl : forall a : A, leb a a = true.
    Hypothesis leb_trans : forall a b c : A, leb a b = true -> leb b c = true -> leb a c = true.
    Hypothesis ltb_leb : forall a b : A, ltb a b = true -> leb a b = true.
    Hypothesis nltb_leb : forall a b : A, ltb a b = false -> leb b a = true.

    Lemma minl_le_d_g (d : A) l : leb (minl d l) d = true.
    Proof.
      revert d; induction l as [|x l IH]; intros d; cbn [minl]; [apply leb_refl|].
      eapply leb_trans; [apply IH|]. destruct (ltb x d) eqn:E; [apply ltb_leb, E | apply leb_refl].
    Qed.
    Lemma minl_le_in_g (d : A) l t : In t l -> leb (minl d l) t = true.
    Proof.
      revert d; induction l as [|x l IH]; intros d HI; [destruct HI|]. destruct HI as [E|I]; cbn [minl].
      - subst t. eapply leb_trans; [apply minl_le_d_g|].
        destruct (ltb x d) eqn:E; [apply leb_refl | apply nltb_leb, E].
      - apply IH; exact I.
    Qed.
    Lemma maxl_ge_d_g (d : A) l : leb d (maxl d l) = true.
    Proof.
      revert d; induction l as [|x l IH]; intros d; cbn [maxl]; [apply leb_refl|].
      eapply leb_trans; [|apply IH]. destruct (ltb d x) eqn:E; [apply ltb_leb, E | apply leb_refl].
    Qed.
    Lemma maxl_ge_in_g (d : A) l t : In t l -> leb t (maxl d l) = true.
    Proof.
      revert d; induction l as [|x l IH]; intros d HI; [destruct HI|]. destruct HI as [E|I]; cbn [maxl].
      - subst t. eapply leb_trans; [|apply maxl_ge_d_g].
        destruct (ltb d x) eqn:E; [apply leb_refl | apply nltb_leb, E].
      - apply IH; exact I.
    Qed.

    Lemma full_range_ok_of_order (x : list A) : full_range_ok x.
    Proof.
      unfold full_range_ok. apply Forall_forall. intros t Ht. unfold inwin_g. apply andb_true_iff.
      destruct x as [|a l]; [destruct Ht|]. cbn [vmin vmax]. split.
      - destruct Ht as [<-|I]; [apply minl_le_d_g | apply minl_le_in_g, I].
      - destruct Ht as [<-|I]; [apply maxl_ge_d_g | apply maxl_ge_in_g, I].
    Qed.
  End OrderLaws.
End GenericCrop.

(* ---------- non-vacuity (abstract carrier: the statements have no hypotheses, or
   hypotheses about lengths only) ---------- *)
Example crop_lengths_gen_nonvacuous {A} `{Num A} (a b c d e f : A) :
  length [d; e; f] = length [a; b; c] /\ dok_g (Some [a; a; a]) (length [a; b; c]) /\ dok_g (@None (list A)) 3.
Proof. split; [reflexivity|]. split; intros l E; [injection E as <-; reflexivity | discriminate E]. Qed.

(* the crop really removes points, whatever the carrier, as soon as leb says so *)
Example crop_is_filter_gen_nonvacuous {A} `{Num A} (lo hi a b : A) (u v : A) :
  leb lo a = true -> leb a hi = true -> leb lo b = false ->
  apply_cropping [a; b] [u; v] lo hi None = ([a], [u], [zero]).
Proof.
  intros H1 H2 H3. unfold apply_cropping, crop_mask. cbn [map dflt_zeros zeros_like select].
  rewrite H1, H2, H3. reflexivity.
Qed.
