(* DstP.v -- finite sums over nat, Lagrange's trigonometric identity and the
   discrete sine orthogonality relation.  Pure real analysis: nothing from the
   PyStoG model is used here (ported from notes/spikes/c01_dst_roundtrip.v). *)
From Coq Require Import List Reals Lra Lia.
Import ListNotations.
Open Scope R_scope.

(* ---------- finite sums:  sumf f n = f 0 + ... + f (n-1) ---------- *)
Fixpoint sumf (f : nat -> R) (n : nat) : R :=
  match n with O => 0 | S k => sumf f k + f k end.

Lemma sumf_ext f g n : (forall k, (k < n)%nat -> f k = g k) -> sumf f n = sumf g n.
Proof.
  induction n as [|n IH]; intros E; cbn; [reflexivity|].
  rewrite IH, E by (intros; try apply E; lia). reflexivity.
Qed.
Lemma sumf_scal c f n : sumf (fun k => c * f k) n = c * sumf f n.
Proof. induction n as [|n IH]; cbn; [lra|rewrite IH; lra]. Qed.
Lemma sumf_plus f g n : sumf (fun k => f k + g k) n = sumf f n + sumf g n.
Proof. induction n as [|n IH]; cbn; [lra|rewrite IH; lra]. Qed.
Lemma sumf_minus f g n : sumf (fun k => f k - g k) n = sumf f n - sumf g n.
Proof. induction n as [|n IH]; cbn; [lra|rewrite IH; lra]. Qed.
Lemma sumf_zero n : sumf (fun _ => 0) n = 0.
Proof. induction n; cbn; lra. Qed.
Lemma sumf_const_one n : sumf (fun _ => 1) n = INR n.
Proof. induction n as [|n IH]; [reflexivity|]. cbn [sumf]. rewrite IH, S_INR. lra. Qed.
Lemma sumf_swap (f : nat -> nat -> R) n m :
  sumf (fun i => sumf (fun j => f i j) m) n = sumf (fun j => sumf (fun i => f i j) n) m.
Proof.
  induction n as [|n IH]; cbn.
  - induction m as [|m IHm]; cbn; [reflexivity|rewrite <- IHm; lra].
  - rewrite IH, <- sumf_plus. reflexivity.
Qed.
Lemma sumf_delta (g : nat -> R) m n : (m < n)%nat ->
  sumf (fun j => if Nat.eqb j m then g j else 0) n = g m.
Proof.
  induction n as [|n IH]; intros Hm; [lia|]. cbn. destruct (Nat.eqb_spec n m) as [->|Hne].
  - rewrite (sumf_ext _ (fun _ => 0)).
    2:{ intros k Hk. destruct (Nat.eqb_spec k m); [lia|reflexivity]. }
    rewrite sumf_zero. lra.
  - rewrite IH by lia. lra.
Qed.
Lemma sumf_shift1 (f : nat -> R) s q :
  sumf (fun k => f (s + k)%nat) (S q) = f s + sumf (fun k => f (S s + k)%nat) q.
Proof.
  induction q as [|q IHq].
  - cbn. rewrite Nat.add_0_r. lra.
  - cbn [sumf] in *. rewrite IHq. replace (S s + q)%nat with (s + S q)%nat by lia. lra.
Qed.

(* ---------- trigonometry ---------- *)
(* Lagrange:  2 sin(p/2) (cos 0 + cos p + ... + cos (n-1)p) = sin((n-1/2)p) + sin(p/2) *)
Lemma lagrange p n :
  2 * sin (p / 2) * sumf (fun k => cos (INR k * p)) n = sin ((INR n - 1 / 2) * p) + sin (p / 2).
Proof.
  induction n as [|n IH].
  - simpl. replace ((0 - 1 / 2) * p) with (- (p / 2)) by lra. rewrite sin_neg. lra.
  - cbn [sumf]. rewrite Rmult_plus_distr_l, IH. rewrite S_INR.
    replace ((INR n + 1 - 1 / 2) * p) with (INR n * p + p / 2) by lra.
    replace ((INR n - 1 / 2) * p) with (INR n * p - p / 2) by lra.
    rewrite sin_plus, sin_minus. lra.
Qed.
Lemma cos_nPI (n : nat) : cos (INR n * PI) = (-1) ^ n.
Proof.
  induction n as [|n IH]. simpl. rewrite Rmult_0_l. apply cos_0.
  rewrite S_INR. replace ((INR n + 1) * PI) with (INR n * PI + PI) by lra.
  rewrite neg_cos, IH. simpl. lra.
Qed.
Lemma sin_nPI (n : nat) : sin (INR n * PI) = 0.
Proof.
  induction n as [|n IH]. simpl. rewrite Rmult_0_l. apply sin_0.
  rewrite S_INR. replace ((INR n + 1) * PI) with (INR n * PI + PI) by lra.
  rewrite neg_sin, IH. lra.
Qed.
(* sum_{k<N} cos(k p pi/N) = (1 - (-1)^p)/2   for 0 < p < 2N *)
Lemma cos_sum (N p : nat) : (0 < p < 2 * N)%nat ->
  sumf (fun k => cos (INR k * (INR p * PI / INR N))) N = (1 - (-1) ^ p) / 2.
Proof.
  intros Hp. set (phi := INR p * PI / INR N).
  assert (HN : 0 < INR N) by (apply lt_0_INR; lia).
  assert (Hs : 0 < sin (phi / 2)).
  { apply sin_gt_0; unfold phi.
    - assert (0 < INR p) by (apply lt_0_INR; lia). assert (0 < PI) by apply PI_RGT_0.
      apply Rdiv_lt_0_compat; [|lra]. apply Rdiv_lt_0_compat; [|lra]. nra.
    - assert (INR p < 2 * INR N).
      { replace 2 with (INR 2) by reflexivity. rewrite <- mult_INR. apply lt_INR. lia. }
      assert (0 < PI) by apply PI_RGT_0.
      apply Rmult_lt_reg_r with (INR N); [lra|]. field_simplify; [|lra]. nra. }
  pose proof (lagrange phi N) as L.
  replace ((INR N - 1 / 2) * phi) with (INR p * PI - phi / 2) in L by (unfold phi; field; lra).
  rewrite sin_minus, sin_nPI, cos_nPI in L. nra.
Qed.
Lemma pow_m1_even_shift a b : (b <= a)%nat -> (-1) ^ (a + b) = (-1) ^ (a - b).
Proof.
  intros H. replace (a + b)%nat with ((a - b) + 2 * b)%nat by lia.
  rewrite pow_add, pow_mult. simpl. replace (-1 * (-1 * 1)) with 1 by lra. rewrite pow1. lra.
Qed.

(* discrete sine orthogonality:
   sum_{k<N} sin(j k pi/N) sin(m k pi/N) = N/2 [j = m]   for 0 < j, m < N *)
Theorem dst_orthogonality (N j m : nat) : (0 < j < N)%nat -> (0 < m < N)%nat ->
  sumf (fun k => sin (INR j * (INR k * PI / INR N)) * sin (INR m * (INR k * PI / INR N))) N
  = if Nat.eqb j m then INR N / 2 else 0.
Proof.
  intros Hj Hm.
  assert (HN : 0 < INR N) by (apply lt_0_INR; lia).
  assert (P : forall a b, sin a * sin b = (cos (a - b) - cos (a + b)) / 2).
  { intros a b. rewrite cos_minus, cos_plus. lra. }
  rewrite (sumf_ext _ (fun k => (cos (INR k * (INR (if Nat.leb m j then j - m else m - j) * PI / INR N))
                                - cos (INR k * (INR (j + m) * PI / INR N))) / 2)).
  2:{ intros k _. rewrite P. f_equal. f_equal.
      - destruct (Nat.leb_spec m j).
        + rewrite minus_INR by lia. f_equal. field. lra.
        + rewrite minus_INR by lia. rewrite <- (cos_neg (INR j * _ - _)). f_equal. field. lra.
      - rewrite plus_INR. f_equal. field. lra. }
  rewrite (sumf_ext _ (fun k => / 2 * (cos (INR k * (INR (if Nat.leb m j then j - m else m - j) * PI / INR N))
                                - cos (INR k * (INR (j + m) * PI / INR N))))) by (intros; lra).
  rewrite sumf_scal, sumf_minus.
  rewrite (cos_sum N (j + m)) by lia.
  destruct (Nat.eqb_spec j m) as [->|Hne].
  - rewrite Nat.leb_refl, Nat.sub_diag. cbn [INR].
    rewrite (sumf_ext _ (fun _ => 1)).
    2:{ intros. replace (INR k * (0 * PI / INR N)) with 0 by (field; lra). apply cos_0. }
    rewrite sumf_const_one. replace (m + m)%nat with (2 * m)%nat by lia.
    rewrite pow_mult. simpl. replace (-1 * (-1 * 1)) with 1 by lra. rewrite pow1. lra.
  - destruct (Nat.leb_spec m j).
    + rewrite (cos_sum N (j - m)) by lia. rewrite (pow_m1_even_shift j m) by lia. lra.
    + rewrite (cos_sum N (m - j)) by lia. replace (j + m)%nat with (m + j)%nat by lia.
      rewrite (pow_m1_even_shift m j) by lia. lra.
Qed.

(* the hypotheses are satisfiable and both branches occur: N = 3, j, m in {1,2} *)
Example dst_orthogonality_nonvacuous :
  ((0 < 1 < 3)%nat /\ (0 < 2 < 3)%nat) /\
  sumf (fun k => sin (INR 1 * (INR k * PI / INR 3)) * sin (INR 1 * (INR k * PI / INR 3))) 3 = INR 3 / 2 /\
  sumf (fun k => sin (INR 1 * (INR k * PI / INR 3)) * sin (INR 2 * (INR k * PI / INR 3))) 3 = 0.
Proof.
  split; [lia|]. split.
  - rewrite (dst_orthogonality 3 1 1) by lia. reflexivity.
  - rewrite (dst_orthogonality 3 1 2) by lia. reflexivity.
Qed.
