(* GenericFilterP.v -- carrier-independent versions of structural C08 / C09
   statements about the Fourier filter (FilterM.v): for ANY instance of Num, no
   law of the operations assumed.  They hold verbatim at the binary64 instance.

   One C08 statement is NOT structural: "the removed component IS the transform
   of the low-r data" needs that cropping the transform to [min q, max q] removes
   nothing, i.e. that every q passes  leb (vmin q) q && leb q (vmax q).  That is a
   fact about the order of the carrier (false for a NaN abscissa at binary64).
   It is proved here (a) unconditionally in the form the code really has -- the
   removed component is the CROP to [min q, max q] of that transform -- and
   (b) in the requested form under the explicit, decidable hypothesis
   [full_range_ok q] (GenericCropP.v). *)
From Coq Require Import List Lia Bool ZArith.
From PyStoG Require Import Num ConverterM TransformerM FilterM.
From PyStoG.proofs Require Import VecLib GenericCropP.
Import ListNotations.

Section GenericFilter.
  Context {A : Type} `{Num A}.
  Local Open Scope num_scope.

  (* ---------- small helpers ---------- *)
  Lemma fout_eta_g (o : fout A) :
    mkfout (q_ft o) (y_ft o) (q_c o) (y_c o) (r_o o) (g_o o) (dy_ft o) (dy_c o) (dg_o o) = o.
  Proof. destruct o; reflexivity. Qed.

  Lemma ft_val_length_g (x y xo : list A) a b dy (k : kw A) :
    length (tr_val_g (fourier_transform x y xo a b dy k)) = length xo.
  Proof.
    unfold fourier_transform, apply_cropping, tr_val_g. cbn [fst snd].
    destruct (omitted k).
    - unfold low_x_correction. rewrite map2_length, map_length. apply Nat.min_id.
    - apply map_length.
  Qed.
  Lemma ft_err_length_g (x y xo : list A) a b dy (k : kw A) :
    length (tr_err_g (fourier_transform x y xo a b dy k)) = length xo.
  Proof. unfold fourier_transform, apply_cropping, tr_err_g. cbn [fst snd]. apply map_length. Qed.

  Lemma g_to_F_as_ft_g (r g q : list A) d (k : kw A) :
    g_to_F r g q d k =
    fourier_transform r (fst (g_to_G r g d k)) q None None (Some (snd (g_to_G r g d k))) k.
  Proof. reflexivity. Qed.

  (* quadrature sum of two uncertainties, as the code writes it *)
  Definition hyp_g (a b : A) : A := sqrt (a * a + b * b).

  (* ---------- the core, written with projections (definitional) ---------- *)
  Lemma g_using_F_raw_gen (r gr q fq : list A) cutoff dgr dfq (k : kw A) :
    g_using_F r gr q fq cutoff dgr dfq k =
    let c0 := apply_cropping r gr zero cutoff dgr in
    let T := g_to_F (fst (fst c0)) (map (fun v => v + one) (snd (fst c0))) q (Some (snd c0)) k in
    let c1 := apply_cropping (tr_grid_g T) (tr_val_g T) (vmin q) (vmax q) (Some (tr_err_g T)) in
    let c2 := apply_cropping q fq (vmin q) (vmax q) dfq in
    let yc := map2 sub (snd (fst c2)) (snd (fst c1)) in
    let dyc := map2 hyp_g (snd c2) (snd c1) in
    let B := F_to_g (fst (fst c2)) yc r (Some dyc) k in
    mkfout (fst (fst c1)) (snd (fst c1)) (fst (fst c2)) yc (tr_grid_g B) (tr_val_g B) (snd c1) dyc (tr_err_g B).
  Proof. reflexivity. Qed.

  (* ---------- C08.4 the removed component ---------- *)
  (* (a) unconditional: the removed component is the transform of the data on
     [0, cutoff] alone, cropped to [min q, max q] as the code does *)
  Theorem removed_is_cropped_lowr_transform_gen (r gr q fq : list A) cutoff dgr dfq (k : kw A) :
    let '(r', g', d') := apply_cropping r gr zero cutoff dgr in
    let o := g_using_F r gr q fq cutoff dgr dfq k in
    (q_ft o, y_ft o, dy_ft o) =
    let '(q1, f, d) := g_to_F r' (map (fun v => v + one) g') q (Some d') k in
    apply_cropping q1 f (vmin q) (vmax q) (Some d).
  Proof. reflexivity. Qed.

  (* (b) the requested form; the hypothesis is about the ORDER of the carrier on the
     data q:  every q_i satisfies  leb (vmin q) q_i && leb q_i (vmax q) = true.
     True for every q at the reals; at binary64 true for every NaN-free q (not proved
     here) and false as soon as q holds a NaN. *)
  Theorem removed_is_lowr_transform_gen (r gr q fq : list A) cutoff dgr dfq (k : kw A) :
    full_range_ok q ->
    let '(r', g', d') := apply_cropping r gr zero cutoff dgr in
    let o := g_using_F r gr q fq cutoff dgr dfq k in
    (q_ft o, y_ft o, dy_ft o) = g_to_F r' (map (fun v => v + one) g') q (Some d') k.
  Proof.
    intros F.
    pose proof (g_using_F_raw_gen r gr q fq cutoff dgr dfq k) as E. cbv zeta in E. revert E.
    destruct (apply_cropping r gr zero cutoff dgr) as [[r' g'] d']. cbn [fst snd]. intros E.
    cbv zeta. rewrite E. cbn [q_ft y_ft dy_ft]. clear E.
    set (T := g_to_F r' (map (fun v => v + one) g') q (Some d') k).
    assert (G : tr_grid_g T = q) by reflexivity.
    assert (LV : length (tr_val_g T) = length q) by (unfold T; rewrite g_to_F_as_ft_g; apply ft_val_length_g).
    assert (LE : length (tr_err_g T) = length q) by (unfold T; rewrite g_to_F_as_ft_g; apply ft_err_length_g).
    rewrite G. rewrite (crop_full_range_gen q (tr_val_g T) (Some (tr_err_g T)) F LV).
    - cbn [fst snd dflt_zeros]. rewrite <- G at 1. symmetry. apply triple_eta_g.
    - intros e Ee. injection Ee as <-. exact LE.
  Qed.

  (* ---------- C08.5 nothing beyond the cutoff matters ---------- *)
  Theorem beyond_cutoff_irrelevant_gen (r g1 g2 q fq : list A) cutoff d1 d2 dfq (k : kw A) :
    apply_cropping r g1 zero cutoff d1 = apply_cropping r g2 zero cutoff d2 ->
    g_using_F r g1 q fq cutoff d1 dfq k = g_using_F r g2 q fq cutoff d2 dfq k.
  Proof. intros E. rewrite !g_using_F_raw_gen. rewrite E. reflexivity. Qed.

  (* ---------- C08.7 the returned real-space function ---------- *)
  Theorem returned_is_transform_of_corrected_gen (r gr q fq : list A) cutoff dgr dfq (k : kw A) :
    let o := g_using_F r gr q fq cutoff dgr dfq k in
    (r_o o, g_o o, dg_o o) = F_to_g (q_c o) (y_c o) r (Some (dy_c o)) k.
  Proof.
    cbv zeta. rewrite g_using_F_raw_gen. cbv zeta. cbn [r_o g_o dg_o q_c y_c dy_c].
    symmetry. apply triple_eta_g.
  Qed.

  (* the corrected function and its uncertainty, as the code computes them (no
     crop is resolved: the two arrays are the crops to [min q, max q]) *)
  Lemma corrected_is_difference_gen (r gr q fq : list A) cutoff dgr dfq (k : kw A) :
    let o := g_using_F r gr q fq cutoff dgr dfq k in
    let c2 := apply_cropping q fq (vmin q) (vmax q) dfq in
    q_c o = fst (fst c2) /\
    y_c o = map2 sub (snd (fst c2)) (y_ft o) /\
    dy_c o = map2 (fun a b => sqrt (a * a + b * b)) (snd c2) (dy_ft o).
  Proof. repeat split. Qed.

  (* ---------- C09: every variant is convert in, core, convert out ---------- *)
  Definition core_of_g (G : gfun) (Q : rfun) (r gr q y : list A) (cutoff : A) dgr dy (k : kw A) : fout A :=
    g_using_F r (fst (gconv G gg r gr dgr k)) q (fst (rconv Q rF q y dy k)) cutoff
              (Some (snd (gconv G gg r gr dgr k))) (Some (snd (rconv Q rF q y dy k))) k.

  Definition convert_out_g (G : gfun) (Q : rfun) (k : kw A) (o : fout A) : fout A :=
    mkfout (q_ft o) (fst (rconv rF Q (q_ft o) (y_ft o) (Some (dy_ft o)) k))
           (q_c o) (fst (rconv rF Q (q_c o) (y_c o) (Some (dy_c o)) k))
           (r_o o) (fst (gconv gg G (r_o o) (g_o o) (Some (dg_o o)) k))
           (snd (rconv rF Q (q_ft o) (y_ft o) (Some (dy_ft o)) k))
           (snd (rconv rF Q (q_c o) (y_c o) (Some (dy_c o)) k))
           (snd (gconv gg G (r_o o) (g_o o) (Some (dg_o o)) k)).

  Lemma wrap_real_form_g (X : gfun) r gr q fq cutoff dgr dfq (k : kw A) :
    wrap_real X r gr q fq cutoff dgr dfq k =
    let o := g_using_F r (fst (gconv X gg r gr dgr k)) q fq cutoff (Some (snd (gconv X gg r gr dgr k))) dfq k in
    mkfout (q_ft o) (y_ft o) (q_c o) (y_c o) (r_o o) (fst (gconv gg X (r_o o) (g_o o) (Some (dg_o o)) k))
           (dy_ft o) (dy_c o) (snd (gconv gg X (r_o o) (g_o o) (Some (dg_o o)) k)).
  Proof.
    unfold wrap_real. destruct (gconv X gg r gr dgr k) as [g dg]. cbn [fst snd]. cbv zeta.
    destruct (gconv gg X _ _ _ k) as [g' dg']. reflexivity.
  Qed.

  Lemma wrap_recip_form_g (core : filt A) (X : rfun) r gr q y cutoff dgr dy (k : kw A) :
    wrap_recip core X r gr q y cutoff dgr dy k =
    let o := core r gr q (fst (rconv X rF q y dy k)) cutoff dgr (Some (snd (rconv X rF q y dy k))) k in
    mkfout (q_ft o) (fst (rconv rF X (q_ft o) (y_ft o) (Some (dy_ft o)) k))
           (q_c o) (fst (rconv rF X (q_c o) (y_c o) (Some (dy_c o)) k))
           (r_o o) (g_o o)
           (snd (rconv rF X (q_ft o) (y_ft o) (Some (dy_ft o)) k))
           (snd (rconv rF X (q_c o) (y_c o) (Some (dy_c o)) k)) (dg_o o).
  Proof.
    unfold wrap_recip. destruct (rconv X rF q y dy k) as [f df]. cbn [fst snd]. cbv zeta.
    destruct (rconv rF X (q_ft _) _ _ k) as [a da]. destruct (rconv rF X (q_c _) _ _ k) as [b db]. reflexivity.
  Qed.

  Lemma wrap_both_form_g (G : gfun) (Q : rfun) r gr q y cutoff dgr dy (k : kw A) :
    wrap_recip (wrap_real G) Q r gr q y cutoff dgr dy k =
    convert_out_g G Q k (core_of_g G Q r gr q y cutoff dgr dy k).
  Proof.
    rewrite wrap_recip_form_g. cbv zeta. rewrite wrap_real_form_g. cbv zeta.
    cbn [q_ft y_ft q_c y_c r_o g_o dy_ft dy_c dg_o]. reflexivity.
  Qed.

  (* the two abscissa outputs of the core are the same array (same mask, same input) *)
  Lemma g_using_F_q_ft_q_c_g (r gr q fq : list A) cutoff dgr dfq (k : kw A) :
    q_ft (g_using_F r gr q fq cutoff dgr dfq k) = q_c (g_using_F r gr q fq cutoff dgr dfq k).
  Proof. reflexivity. Qed.

  Lemma wrap_real_gg_g r gr q fq cutoff dgr dfq (k : kw A) :
    wrap_real gg r gr q fq cutoff dgr dfq k = g_using_F r gr q fq cutoff dgr dfq k.
  Proof. reflexivity. Qed.

  Lemma wrap_recip_rF_g (core : filt A) r gr q y cutoff dgr dy (k : kw A) :
    wrap_recip core rF r gr q y cutoff dgr dy k = core r gr q y cutoff dgr (Some (dflt_zeros y dy)) k.
  Proof.
    rewrite wrap_recip_form_g. cbv zeta. cbn [rconv idconv fst snd dflt_zeros]. apply fout_eta_g.
  Qed.

  Lemma wrap_real_dflt_g X r gr q fq cutoff dgr dfq (k : kw A) :
    wrap_real X r gr q fq cutoff dgr (Some (dflt_zeros fq dfq)) k = wrap_real X r gr q fq cutoff dgr dfq k.
  Proof. reflexivity. Qed.

  Lemma wrap_recip_ext_g (c1 c2 : filt A) X :
    (forall r gr q y cutoff dgr dy k, c1 r gr q y cutoff dgr dy k = c2 r gr q y cutoff dgr dy k) ->
    forall r gr q y cutoff dgr dy k,
      wrap_recip c1 X r gr q y cutoff dgr dy k = wrap_recip c2 X r gr q y cutoff dgr dy k.
  Proof. intros E r gr q y cutoff dgr dy k. rewrite !wrap_recip_form_g. cbv zeta. rewrite E. reflexivity. Qed.

  (* g_using_DCS is written out in the code (and passes q_ft where the others pass q) *)
  Lemma g_using_DCS_as_wrap_g r gr q y cutoff dgr dy (k : kw A) :
    g_using_DCS r gr q y cutoff dgr dy k = wrap_recip g_using_F rDCS r gr q y cutoff dgr dy k.
  Proof.
    unfold g_using_DCS, wrap_recip. cbn [rconv].
    destruct (DCS_to_F q y dy k) as [f df]. cbv zeta.
    rewrite (g_using_F_q_ft_q_c_g r gr q f cutoff dgr (Some df) k). reflexivity.
  Qed.

  (* The method table: all 12 variants, no side condition, any carrier. *)
  Theorem variant_normal_form_gen (G : gfun) (Q : rfun) r gr q y cutoff dgr dy (k : kw A) :
    filter_variant G Q r gr q y cutoff dgr dy k =
    convert_out_g G Q k (core_of_g G Q r gr q y cutoff dgr dy k).
  Proof.
    rewrite <- wrap_both_form_g.
    destruct G, Q; cbn [filter_variant];
      unfold g_using_S, g_using_FK, G_using_F, G_using_S, G_using_FK, G_using_DCS,
             GK_using_F, GK_using_S, GK_using_FK, GK_using_DCS;
      rewrite ?g_using_DCS_as_wrap_g;
      rewrite ?wrap_recip_rF_g, ?wrap_real_dflt_g; rewrite ?wrap_real_gg_g;
      try reflexivity;
      symmetry; apply wrap_recip_ext_g; intros; apply wrap_real_gg_g.
  Qed.

  (* all 12 variants: only the crop of the converted real-space input matters *)
  Theorem beyond_cutoff_irrelevant_variants_gen (G : gfun) (Q : rfun) (r g1 g2 q y : list A) cutoff d1 d2 dy (k : kw A) :
    apply_cropping r (fst (gconv G gg r g1 d1 k)) zero cutoff (Some (snd (gconv G gg r g1 d1 k)))
    = apply_cropping r (fst (gconv G gg r g2 d2 k)) zero cutoff (Some (snd (gconv G gg r g2 d2 k))) ->
    filter_variant G Q r g1 q y cutoff d1 dy k = filter_variant G Q r g2 q y cutoff d2 dy k.
  Proof.
    intros E. rewrite !variant_normal_form_gen. f_equal. unfold core_of_g.
    apply beyond_cutoff_irrelevant_gen. exact E.
  Qed.
End GenericFilter.

(* ---------- non-vacuity ---------- *)
(* beyond_cutoff_irrelevant_gen: two different inputs with the same crop, for any
   carrier in which leb answers as shown (e.g. r = [1; 3], cutoff = 2) *)
Example beyond_cutoff_irrelevant_gen_nonvacuous {A} `{Num A} (r1 r2 c u v w : A) :
  leb zero r1 = true -> leb r1 c = true -> leb r2 c = false ->
  apply_cropping [r1; r2] [u; v] zero c None = apply_cropping [r1; r2] [u; w] zero c (Some [zero; one]).
Proof.
  intros H1 H2 H3. unfold apply_cropping, crop_mask. cbn [map dflt_zeros zeros_like select].
  rewrite H1, H2, H3. rewrite !andb_false_r. reflexivity.
Qed.

(* removed_is_lowr_transform_gen: the hypothesis holds for the empty and for any
   one-point grid whose point compares <= to itself *)
Example removed_is_lowr_transform_gen_nonvacuous {A} `{Num A} (a : A) :
  leb a a = true -> full_range_ok [a].
Proof.
  intros R. unfold full_range_ok, inwin_g. cbn [vmin vmax minl maxl].
  constructor; [rewrite R; reflexivity | constructor].
Qed.
