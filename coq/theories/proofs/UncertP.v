(* UncertP.v -- the uncertainty channel of fourier_transform (property C07).
   All statements are about the model at the reals (NumR).

   Reading guide
     wlo / whi / cropw   the window bounds and the cropping the model applies
     ffac                the Lorch factor on the cropped grid (all ones when off)
     nbr g l xs          one value per grid point: g (interval on the left)
                         (interval on the right), with l left of the first
                         point and 0 right of the last one
     eweights            E_j = (a_{j-1}^2 + a_j^2)/2    (what the code uses)
     tw                  W_j = (a_{j-1}   + a_j  )/2    (trapezoid weights)
     sigma_tw            sqrt (sum_j (W_j f_j e_j sin(x_j x'))^2), the exact
                         propagation of uncorrelated uncertainties through
                         the trapezoid rule *)
From Coq Require Import List Reals Lra Lia Bool Sorted Psatz.
From PyStoG Require Import Num NumR ConverterM TransformerM.
From PyStoG.proofs Require Import VecLib.
Import ListNotations.
Open Scope R_scope.

Local Notation rsin := Rtrigo_def.sin.
Local Notation rsqrt := R_sqrt.sqrt.
Local Notation rsum := (fold_right Rplus 0).

(* ------------------------------------------------------------------ *)
(* Definitions used to state the theorems                              *)
(* ------------------------------------------------------------------ *)

(* the window the model uses: the given bound, else the grid minimum / maximum *)
Definition wlo (x : list R) (a : option R) : R := match a with Some v => v | None => vmin x end.
Definition whi (x : list R) (b : option R) : R := match b with Some v => v | None => vmax x end.
(* what apply_cropping does to any array l that is parallel to the grid x *)
Definition cropw {B} (x : list R) (a b : option R) (l : list B) : list B :=
  select (crop_mask x (wlo x a) (whi x b)) l.
(* the Lorch factor on the cropped grid; all ones when lorch = false *)
Definition ffac (x : list R) (a b : option R) (k : kw R) : list R :=
  if lorch k then lorch_factor (whi x b) (cropw x a b x) else map (fun _ => 1) (cropw x a b x).
(* missing input uncertainty = zeros *)
Definition derr (x : list R) (dy : option (list R)) : list R :=
  match dy with Some d => d | None => map (fun _ => 0) x end.

(* one value per grid point from the two neighbouring intervals *)
Fixpoint nbr (g : R -> R -> R) (l : R) (xs : list R) : list R :=
  match xs with
  | [] => []
  | x0 :: xs' =>
      match xs' with
      | [] => [g l 0]
      | x1 :: _ => g l (x1 - x0) :: nbr g (x1 - x0) xs'
      end
  end.
Definition gE (l r : R) : R := (l ^ 2 + r ^ 2) / 2.
Definition gW (l r : R) : R := (l + r) / 2.
Definition eweights (xs : list R) : list R := nbr gE 0 xs.
Definition tw (xs : list R) : list R := nbr gW 0 xs.

(* exact uncorrelated propagation through the trapezoid weights; fe = f * e *)
Definition sigma_tw (xc fe : list R) (x' : R) : R :=
  rsqrt (rsum (map2 (fun w t => (w * t) ^ 2) (tw xc) (map2 (fun f xj => f * rsin (xj * x')) fe xc))).

(* the uncertainty channel as the model computes it, on the cropped data *)
Definition eout_core (xc fe xo : list R) : list R :=
  map (fun x' => rsqrt (etrapz xc
         (map2 (fun f xi => (f * rsin (xi * x')) * (f * rsin (xi * x'))) fe xc))) xo.

(* ------------------------------------------------------------------ *)
(* List helpers                                                        *)
(* ------------------------------------------------------------------ *)

Lemma U_nth_map_lt {X} (f : X -> R) (l : list X) i (dx : X) :
  (i < length l)%nat -> nth i (map f l) 0 = f (nth i l dx).
Proof. intros Hi. rewrite (nth_indep _ 0 (f dx)) by (rewrite map_length; exact Hi). apply map_nth. Qed.

Lemma U_map_const_len {X Y Z} (c : Z) (l : list X) (l' : list Y) :
  length l = length l' -> map (fun _ => c) l = map (fun _ => c) l'.
Proof. revert l'; induction l as [|a l IH]; intros [|a' l'] L; cbn in *; try discriminate; auto.
  f_equal. apply IH. congruence. Qed.

Lemma U_select_length_eq {X Y} m (l : list X) (l' : list Y) :
  length l = length l' -> length (select m l) = length (select m l').
Proof. revert l l'; induction m as [|c m IH]; intros [|a l] [|a' l'] L; cbn in *; try discriminate; auto.
  destruct c; cbn; auto. Qed.

Lemma U_select_map {X Y} (f : X -> Y) m l : select m (map f l) = map f (select m l).
Proof. revert l; induction m as [|c m IH]; intros [|a l]; cbn; auto. destruct c; cbn; f_equal; auto. Qed.

Lemma U_select_Forall {X} (P : X -> Prop) m l : Forall P l -> Forall P (select m l).
Proof. intros F; revert m; induction F as [|a l Pa F IH]; intros [|c m]; cbn; auto. destruct c; auto. Qed.

Lemma U_select_Forall2 {X Y} (P : X -> Y -> Prop) m l l' :
  Forall2 P l l' -> Forall2 P (select m l) (select m l').
Proof. intros F; revert m; induction F as [|a a' l l' Pa F IH]; intros [|c m]; cbn; auto. destruct c; auto. Qed.

Lemma U_select_sorted {X} (Rel : X -> X -> Prop) m l :
  StronglySorted Rel l -> StronglySorted Rel (select m l).
Proof. intros S; revert m; induction S as [|a l S IH F]; intros [|c m]; cbn; try constructor.
  destruct c; [constructor; [apply IH | apply U_select_Forall; exact F] | apply IH]. Qed.

Lemma U_Forall_map2_l {X Y Z} (P : X -> Prop) (Q : Z -> Prop) (f : X -> Y -> Z) l m :
  (forall a b, P a -> Q (f a b)) -> Forall P l -> Forall Q (map2 f l m).
Proof. intros E F; revert m; induction F as [|a l Pa F IH]; intros [|b m]; cbn; auto. Qed.
Lemma U_Forall_map2_r {X Y Z} (P : Y -> Prop) (Q : Z -> Prop) (f : X -> Y -> Z) l m :
  (forall a b, P b -> Q (f a b)) -> Forall P m -> Forall Q (map2 f l m).
Proof. intros E F; revert l; induction F as [|b m Pb F IH]; intros [|a l]; cbn; auto. Qed.

Lemma U_Forall2_map2_r {X Y Z} (P : Y -> Y -> Prop) (Q : Z -> Z -> Prop) (f : X -> Y -> Z) l m m' :
  (forall a b b', P b b' -> Q (f a b) (f a b')) -> Forall2 P m m' -> Forall2 Q (map2 f l m) (map2 f l m').
Proof. intros E F; revert l; induction F as [|b b' m m' Pb F IH]; intros [|a l]; cbn; auto. Qed.
Lemma U_Forall2_map2_l {X Y Z} (P : X -> X -> Prop) (Q : Z -> Z -> Prop) (f : X -> Y -> Z) l l' m :
  (forall a a' b, P a a' -> Q (f a b) (f a' b)) -> Forall2 P l l' -> Forall2 Q (map2 f l m) (map2 f l' m).
Proof. intros E F; revert m; induction F as [|a a' l l' Pa F IH]; intros [|b m]; cbn; auto. Qed.
Lemma U_Forall2_map {X} (Q : R -> R -> Prop) (f g : X -> R) l :
  (forall a, Q (f a) (g a)) -> Forall2 Q (map f l) (map g l).
Proof. intros E; induction l; cbn; auto. Qed.

Lemma U_map2_sq {X Y} (g : X -> Y -> R) ws l m :
  map2 Rmult ws (map2 (fun a b => (g a b) ^ 2) l m) = map2 (fun E t => E * t ^ 2) ws (map2 g l m).
Proof.
  change (map2 (fun a b => (g a b) ^ 2) l m) with (map2 (fun a b => (fun t => t ^ 2) (g a b)) l m).
  rewrite <- (map_map2 (fun t => t ^ 2) g). apply map2_map_r.
Qed.

Lemma U_rsum_nonneg {X Y} (f : X -> Y -> R) l m : (forall a b, 0 <= f a b) -> 0 <= rsum (map2 f l m).
Proof. intros P; revert m; induction l as [|a l IH]; intros [|b m]; cbn; try lra.
  specialize (IH m). specialize (P a b). lra. Qed.

(* ------------------------------------------------------------------ *)
(* etrapz                                                              *)
(* ------------------------------------------------------------------ *)

Lemma etrapz_cons2 (x0 x1 : R) xs e0 e1 es :
  etrapz (x0 :: x1 :: xs) (e0 :: e1 :: es)
  = (x1 - x0) * (x1 - x0) * (e1 + e0) / 2 + etrapz (x1 :: xs) (e1 :: es).
Proof. reflexivity. Qed.
Lemma etrapz_nil_r (xs : list R) : etrapz xs [] = 0.
Proof. destruct xs as [|x0 [|x1 xs]]; reflexivity. Qed.
Lemma etrapz_one_l (x0 : R) es : etrapz [x0] es = 0.
Proof. destruct es as [|e0 [|e1 es]]; reflexivity. Qed.
Lemma etrapz_one_r (xs : list R) e0 : etrapz xs [e0] = 0.
Proof. destruct xs as [|x0 [|x1 xs]]; reflexivity. Qed.

Lemma etrapz_allzero (xs es : list R) : Forall (fun v => v = 0) es -> etrapz xs es = 0.
Proof.
  intros F; revert xs; induction F as [|e0 es H0 F IH]; intros xs; [apply etrapz_nil_r|].
  destruct xs as [|x0 [|x1 xs]]; try reflexivity.
  destruct F as [|e1 es H1 F]; [reflexivity|].
  rewrite etrapz_cons2, IH. subst. lra.
Qed.

Lemma etrapz_scal c (xs es : list R) : etrapz xs (map (Rmult c) es) = c * etrapz xs es.
Proof.
  revert es; induction xs as [|x0 xs IH]; intros es.
  - cbn. lra.
  - destruct xs as [|x1 xs]; [rewrite !etrapz_one_l; lra|].
    destruct es as [|e0 [|e1 es]]; cbn [map]; rewrite ?etrapz_nil_r, ?etrapz_one_r; try lra.
    rewrite !etrapz_cons2. specialize (IH (e1 :: es)). cbn [map] in IH. rewrite IH. lra.
Qed.

Lemma etrapz_mono (xs es es' : list R) : Forall2 Rle es es' -> etrapz xs es <= etrapz xs es'.
Proof.
  intros F; revert xs; induction F as [|e0 e0' es es' H0 F IH]; intros xs.
  - lra.
  - destruct xs as [|x0 [|x1 xs]].
    + cbn. lra.
    + rewrite !etrapz_one_l. lra.
    + destruct F as [|e1 e1' es1 es1' H1 F1].
      * rewrite !etrapz_one_r. lra.
      * rewrite !etrapz_cons2. specialize (IH (x1 :: xs)).
        assert (HA : 0 <= (x1 - x0) * (x1 - x0)) by exact (Rle_0_sqr (x1 - x0)).
        assert (HB : (x1 - x0) * (x1 - x0) * (e1 + e0) <= (x1 - x0) * (x1 - x0) * (e1' + e0'))
          by (apply Rmult_le_compat_l; lra).
        lra.
Qed.

(* ------------------------------------------------------------------ *)
(* nbr, eweights, tw                                                   *)
(* ------------------------------------------------------------------ *)

Lemma nbr_one g l x0 : nbr g l [x0] = [g l 0].
Proof. reflexivity. Qed.
Lemma nbr_cons2 g l x0 x1 xs : nbr g l (x0 :: x1 :: xs) = g l (x1 - x0) :: nbr g (x1 - x0) (x1 :: xs).
Proof. reflexivity. Qed.
Lemma nbr_length g l xs : length (nbr g l xs) = length xs.
Proof. revert l; induction xs as [|x0 xs IH]; intros l; [reflexivity|].
  destruct xs as [|x1 xs]; [reflexivity|]. rewrite nbr_cons2. cbn [length]. f_equal. apply IH. Qed.

Lemma nbr_nth g l xs j : (j < length xs)%nat ->
  nth j (nbr g l xs) 0
  = g (match j with O => l | S p => nth j xs 0 - nth p xs 0 end)
      (if Nat.eqb (S j) (length xs) then 0 else nth (S j) xs 0 - nth j xs 0).
Proof.
  revert l j; induction xs as [|x0 xs IH]; intros l j Hj; [cbn in Hj; lia|].
  destruct xs as [|x1 xs].
  - cbn in Hj. assert (j = 0)%nat by lia. subst. reflexivity.
  - rewrite nbr_cons2. destruct j as [|j].
    + reflexivity.
    + cbn [nth]. rewrite IH by (cbn in *; lia). f_equal.
      destruct j; reflexivity.
Qed.

(* E_0 = a_0^2/2, E_j = (a_{j-1}^2 + a_j^2)/2, E_n = a_{n-1}^2/2,  a_j = x_{j+1} - x_j *)
Lemma eweights_nth xs n : length xs = S n -> (1 <= n)%nat ->
  nth 0 (eweights xs) 0 = (nth 1 xs 0 - nth 0 xs 0) ^ 2 / 2 /\
  (forall j, (0 < j < n)%nat ->
     nth j (eweights xs) 0
     = ((nth j xs 0 - nth (j - 1) xs 0) ^ 2 + (nth (S j) xs 0 - nth j xs 0) ^ 2) / 2) /\
  nth n (eweights xs) 0 = (nth n xs 0 - nth (n - 1) xs 0) ^ 2 / 2.
Proof.
  intros L Hn. unfold eweights. split; [|split].
  - rewrite nbr_nth by lia. rewrite L. destruct n as [|n]; [lia|]. cbn [Nat.eqb]. unfold gE. field.
  - intros j Hj. rewrite nbr_nth by lia. rewrite L.
    destruct j as [|j]; [lia|]. replace (S j - 1)%nat with j by lia.
    destruct (Nat.eqb_spec (S (S j)) (S n)); [lia|]. reflexivity.
  - rewrite nbr_nth by lia. rewrite L. rewrite Nat.eqb_refl.
    destruct n as [|n]; [lia|]. replace (S n - 1)%nat with n by lia. unfold gE. field.
Qed.

(* W_0 = a_0/2, W_j = (a_{j-1} + a_j)/2 = (x_{j+1} - x_{j-1})/2, W_n = a_{n-1}/2 *)
Lemma tw_nth xs n : length xs = S n -> (1 <= n)%nat ->
  nth 0 (tw xs) 0 = (nth 1 xs 0 - nth 0 xs 0) / 2 /\
  (forall j, (0 < j < n)%nat -> nth j (tw xs) 0 = (nth (S j) xs 0 - nth (j - 1) xs 0) / 2) /\
  nth n (tw xs) 0 = (nth n xs 0 - nth (n - 1) xs 0) / 2.
Proof.
  intros L Hn. unfold tw. split; [|split].
  - rewrite nbr_nth by lia. rewrite L. destruct n as [|n]; [lia|]. cbn [Nat.eqb]. unfold gW. field.
  - intros j Hj. rewrite nbr_nth by lia. rewrite L.
    destruct j as [|j]; [lia|]. replace (S j - 1)%nat with j by lia.
    destruct (Nat.eqb_spec (S (S j)) (S n)); [lia|]. unfold gW. field.
  - rewrite nbr_nth by lia. rewrite L. rewrite Nat.eqb_refl.
    destruct n as [|n]; [lia|]. replace (S n - 1)%nat with n by lia. unfold gW. field.
Qed.

(* etrapz is the weighted sum with the weights eweights *)
Lemma etrapz_nbr xs : forall l es, length es = length xs -> xs <> [] ->
  rsum (map2 Rmult (nbr gE l xs) es) = l ^ 2 / 2 * hd 0 es + etrapz xs es.
Proof.
  induction xs as [|x0 xs IH]; intros l es L NE; [congruence|].
  destruct es as [|e0 es]; [discriminate|].
  destruct xs as [|x1 xs].
  - rewrite nbr_one, etrapz_one_l. destruct es; [|discriminate]. cbn [map2 fold_right hd]. unfold gE. field.
  - destruct es as [|e1 es]; [discriminate|].
    rewrite nbr_cons2, etrapz_cons2. cbn [map2 fold_right hd].
    rewrite (IH (x1 - x0) (e1 :: es)) by (cbn in *; congruence). cbn [hd]. unfold gE. field.
Qed.

Lemma etrapz_weights xs es : length es = length xs ->
  etrapz xs es = rsum (map2 Rmult (eweights xs) es).
Proof.
  intros L. destruct xs as [|x0 xs].
  - destruct es; [reflexivity|discriminate].
  - unfold eweights. rewrite etrapz_nbr by (auto; discriminate). lra.
Qed.

(* pointwise comparison of the two weightings *)
Lemma pw_lower l r t : (gW l r * t) ^ 2 <= gE l r * t ^ 2.
Proof.
  assert (E : gE l r * t ^ 2 - (gW l r * t) ^ 2 = (t * (l - r) / 2) ^ 2) by (unfold gE, gW; field).
  pose proof (pow2_ge_0 (t * (l - r) / 2)). lra.
Qed.
Lemma pw_upper l r t : 0 <= l * r -> gE l r * t ^ 2 <= 2 * (gW l r * t) ^ 2.
Proof.
  intros P.
  assert (E : 2 * (gW l r * t) ^ 2 - gE l r * t ^ 2 = t ^ 2 * (l * r)) by (unfold gE, gW; field).
  pose proof (pow2_ge_0 t). pose proof (Rmult_le_pos _ _ H P). lra.
Qed.

Lemma rsumE_nonneg xs : forall l ts, 0 <= rsum (map2 (fun E t => E * t ^ 2) (nbr gE l xs) ts).
Proof.
  assert (P : forall l r t, 0 <= gE l r * t ^ 2).
  { intros l r t. unfold gE. pose proof (pow2_ge_0 l). pose proof (pow2_ge_0 r). pose proof (pow2_ge_0 t).
    apply Rmult_le_pos; lra. }
  induction xs as [|x0 xs IH]; intros l ts; [cbn; lra|].
  destruct xs as [|x1 xs].
  - rewrite nbr_one. destruct ts as [|t ts]; cbn [map2 fold_right]; [lra|]. pose proof (P l 0 t). lra.
  - rewrite nbr_cons2. destruct ts as [|t ts]; cbn [map2 fold_right]; [lra|].
    pose proof (P l (x1 - x0) t). specialize (IH (x1 - x0) ts). lra.
Qed.

Lemma lower_core xs : forall l ts,
  rsum (map2 (fun w t => (w * t) ^ 2) (nbr gW l xs) ts) <= rsum (map2 (fun E t => E * t ^ 2) (nbr gE l xs) ts).
Proof.
  induction xs as [|x0 xs IH]; intros l ts; [cbn; lra|].
  destruct xs as [|x1 xs].
  - rewrite !nbr_one. destruct ts as [|t ts]; cbn [map2 fold_right]; [lra|].
    pose proof (pw_lower l 0 t). lra.
  - rewrite !nbr_cons2. destruct ts as [|t ts]; cbn [map2 fold_right]; [lra|].
    specialize (IH (x1 - x0) ts). pose proof (pw_lower l (x1 - x0) t). lra.
Qed.

Lemma upper_core xs : forall l ts, 0 <= l -> StronglySorted Rle xs ->
  rsum (map2 (fun E t => E * t ^ 2) (nbr gE l xs) ts) <= 2 * rsum (map2 (fun w t => (w * t) ^ 2) (nbr gW l xs) ts).
Proof.
  induction xs as [|x0 xs IH]; intros l ts Hl S; [cbn; lra|].
  destruct xs as [|x1 xs].
  - rewrite !nbr_one. destruct ts as [|t ts]; cbn [map2 fold_right]; [lra|].
    assert (P : 0 <= l * 0) by lra. pose proof (pw_upper l 0 t P). lra.
  - rewrite !nbr_cons2. destruct ts as [|t ts]; cbn [map2 fold_right]; [lra|].
    apply StronglySorted_inv in S. destruct S as [S F]. apply Forall_inv in F.
    assert (Hr : 0 <= x1 - x0) by lra.
    specialize (IH (x1 - x0) ts Hr S).
    pose proof (pw_upper l (x1 - x0) t (Rmult_le_pos _ _ Hl Hr)). lra.
Qed.

(* uniform grids *)
Fixpoint unif (h : R) (xs : list R) : Prop :=
  match xs with
  | [] => True
  | x0 :: xs' => match xs' with [] => True | x1 :: _ => x1 - x0 = h /\ unif h xs' end
  end.

Lemma unif_of_nth h xs :
  (forall j, (S j < length xs)%nat -> nth (S j) xs 0 - nth j xs 0 = h) -> unif h xs.
Proof.
  induction xs as [|x0 xs IH]; intros U; [exact I|].
  destruct xs as [|x1 xs]; [exact I|]. split.
  - apply (U 0%nat). cbn. lia.
  - apply IH. intros j Hj. apply (U (S j)). cbn in *. lia.
Qed.

Lemma uniform_core h xs : forall n ts, length xs = S n -> length ts = S n -> unif h xs ->
  rsum (map2 (fun E t => E * t ^ 2) (nbr gE h xs) ts) - rsum (map2 (fun w t => (w * t) ^ 2) (nbr gW h xs) ts)
  = (h / 2) ^ 2 * (nth n ts 0) ^ 2.
Proof.
  induction xs as [|x0 xs IH]; intros n ts L Lt U; [discriminate|].
  destruct ts as [|t ts]; [discriminate|].
  destruct xs as [|x1 xs].
  - rewrite !nbr_one. cbn in L. assert (n = 0)%nat by lia. subst n.
    destruct ts; [|discriminate]. cbn [map2 fold_right nth]. unfold gE, gW. field.
  - destruct n as [|n]; [discriminate|]. destruct U as [U0 U].
    rewrite !nbr_cons2. cbn [map2 fold_right nth]. rewrite U0.
    specialize (IH n ts). rewrite <- IH by (cbn in *; auto; congruence).
    unfold gE, gW. field.
Qed.

Lemma uniform_top h xs n ts : length xs = S n -> length ts = S n -> (1 <= n)%nat -> unif h xs ->
  rsum (map2 (fun E t => E * t ^ 2) (eweights xs) ts) - rsum (map2 (fun w t => (w * t) ^ 2) (tw xs) ts)
  = (h / 2) ^ 2 * ((nth 0 ts 0) ^ 2 + (nth n ts 0) ^ 2).
Proof.
  intros L Lt Hn U. unfold eweights, tw.
  destruct xs as [|x0 [|x1 xs]]; try (cbn in L; lia).
  destruct ts as [|t ts]; [discriminate|]. destruct n as [|n]; [lia|].
  destruct U as [U0 U]. rewrite !nbr_cons2. cbn [map2 fold_right nth]. rewrite U0.
  pose proof (uniform_core h (x1 :: xs) n ts) as C. rewrite Rmult_plus_distr_l, <- C by (cbn in *; auto; congruence).
  unfold gE, gW. field.
Qed.

(* eweights versus tw on a uniform grid: equal to the square in the interior, twice the square at the ends *)
Lemma eweights_tw_uniform h xs n : length xs = S n -> (1 <= n)%nat ->
  (forall j, (j < n)%nat -> nth (S j) xs 0 - nth j xs 0 = h) ->
  nth 0 (eweights xs) 0 = 2 * (nth 0 (tw xs) 0) ^ 2 /\
  (forall j, (0 < j < n)%nat -> nth j (eweights xs) 0 = (nth j (tw xs) 0) ^ 2) /\
  nth n (eweights xs) 0 = 2 * (nth n (tw xs) 0) ^ 2.
Proof.
  intros L Hn U.
  destruct (eweights_nth xs n L Hn) as [E0 [Ej En]].
  destruct (tw_nth xs n L Hn) as [W0 [Wj Wn]].
  split; [|split].
  - rewrite E0, W0. replace (1%nat) with (S 0) by reflexivity. rewrite (U 0%nat) by lia. field.
  - intros j Hj. rewrite Ej, Wj by exact Hj.
    destruct j as [|j]; [lia|]. replace (S j - 1)%nat with j by lia.
    pose proof (U j ltac:(lia)) as A. pose proof (U (S j) ltac:(lia)) as B.
    replace (nth (S (S j)) xs 0 - nth j xs 0) with (h + h) by lra. rewrite A, B. field.
  - rewrite En, Wn. destruct n as [|n]; [lia|]. replace (S n - 1)%nat with n by lia.
    rewrite (U n) by lia. field.
Qed.

(* ------------------------------------------------------------------ *)
(* The model's uncertainty channel                                     *)
(* ------------------------------------------------------------------ *)

(* apply_cropping is cropw on each array *)
Lemma apply_cropping_cropw (x y : list R) a b dy :
  apply_cropping x y (wlo x a) (whi x b) dy = (cropw x a b x, cropw x a b y, cropw x a b (dflt_zeros y dy)).
Proof. reflexivity. Qed.

Lemma FT_unc (x y xo : list R) a b dy (k : kw R) :
  snd (fourier_transform x y xo a b dy k)
  = eout_core (cropw x a b x)
      (vmul (if lorch k then lorch_factor (whi x b) (cropw x a b x) else ones_like (cropw x a b y))
            (cropw x a b (dflt_zeros y dy))) xo.
Proof. reflexivity. Qed.

Lemma FT_unc_spec (x y xo : list R) a b dy (k : kw R) : length y = length x ->
  snd (fourier_transform x y xo a b dy k)
  = eout_core (cropw x a b x) (vmul (ffac x a b k) (cropw x a b (derr x dy))) xo.
Proof.
  intros L. rewrite FT_unc. unfold ffac.
  assert (E1 : ones_like (cropw x a b y) = map (fun _ => 1) (cropw x a b x)).
  { unfold ones_like. numR. apply U_map_const_len. apply U_select_length_eq. exact L. }
  assert (E2 : dflt_zeros y dy = derr x dy).
  { destruct dy; [reflexivity|]. unfold dflt_zeros, zeros_like, derr. numR. apply U_map_const_len; exact L. }
  rewrite E1, E2. reflexivity.
Qed.

Lemma ffac_length x a b k : length (ffac x a b k) = length (cropw x a b x).
Proof. unfold ffac, lorch_factor. destruct (lorch k); apply map_length. Qed.

(* 1. independent of the data values *)
Theorem eout_value_independent (x y y' xo : list R) a b dy (k : kw R) :
  length y = length x -> length y' = length x ->
  snd (fourier_transform x y xo a b dy k) = snd (fourier_transform x y' xo a b dy k).
Proof. intros L L'. rewrite !FT_unc_spec by assumption. reflexivity. Qed.

(* 2. no input uncertainty -> zeros (no length hypothesis needed) *)
Theorem eout_none_zero (x y xo : list R) a b (k : kw R) :
  snd (fourier_transform x y xo a b None k) = map (fun _ => 0) xo.
Proof.
  rewrite FT_unc. unfold eout_core. apply map_ext. intros x'.
  rewrite etrapz_allzero; [apply sqrt_0|].
  apply U_Forall_map2_l with (P := fun v => v = 0); [intros f xj ->; lra|].
  unfold vmul. apply U_Forall_map2_r with (P := fun v => v = 0); [intros f e ->; numR; lra|].
  unfold cropw. apply U_select_Forall. unfold dflt_zeros, zeros_like. numR.
  apply Forall_forall. intros v Hv. apply in_map_iff in Hv. destruct Hv as [? [? _]]. congruence.
Qed.

(* 3. closed formula with the weights eweights *)
Lemma eout_core_formula xc fe xo i : length fe = length xc -> (i < length xo)%nat ->
  nth i (eout_core xc fe xo) 0
  = rsqrt (rsum (map2 Rmult (eweights xc)
                   (map2 (fun f xj => (f * rsin (xj * nth i xo 0)) ^ 2) fe xc))).
Proof.
  intros L Hi. unfold eout_core. rewrite (U_nth_map_lt _ _ _ 0) by exact Hi.
  rewrite etrapz_weights by (rewrite map2_length, L; apply Nat.min_id).
  f_equal. f_equal. f_equal. apply map2_ext. intros; ring.
Qed.

Lemma fe_length x a b (e : list R) k : length e = length x ->
  length (vmul (ffac x a b k) (cropw x a b e)) = length (cropw x a b x).
Proof.
  intros L. unfold vmul. rewrite map2_length, ffac_length.
  unfold cropw. rewrite (U_select_length_eq _ e x L). apply Nat.min_id.
Qed.

Theorem eout_formula (x y xo e : list R) a b (k : kw R) i :
  length y = length x -> length e = length x -> (i < length xo)%nat ->
  nth i (snd (fourier_transform x y xo a b (Some e) k)) 0
  = rsqrt (rsum (map2 Rmult (eweights (cropw x a b x))
       (map2 (fun fe xj => (fe * rsin (xj * nth i xo 0)) ^ 2)
             (vmul (ffac x a b k) (cropw x a b e)) (cropw x a b x)))).
Proof.
  intros Ly Le Hi. rewrite FT_unc_spec by exact Ly. cbn [derr].
  apply eout_core_formula; [apply fe_length; exact Le | exact Hi].
Qed.

(* 4. homogeneous of degree one in the input uncertainty *)
Theorem eout_homogeneous (x y xo e : list R) a b (k : kw R) c : 0 <= c ->
  snd (fourier_transform x y xo a b (Some (map (Rmult c) e)) k)
  = map (Rmult c) (snd (fourier_transform x y xo a b (Some e) k)).
Proof.
  intros Hc. rewrite !FT_unc. cbn [dflt_zeros]. unfold eout_core. rewrite map_map.
  apply map_ext. intros x'.
  replace (cropw x a b (map (Rmult c) e)) with (map (Rmult c) (cropw x a b e))
    by (unfold cropw; symmetry; apply U_select_map).
  set (fac := if lorch k then _ else _). set (ce := cropw x a b e). set (xc := cropw x a b x).
  unfold vmul. rewrite map2_map_r.
  replace (map2 (fun f xi => f * rsin (xi * x') * (f * rsin (xi * x'))) (map2 (fun f v => mul f (c * v)) fac ce) xc)
    with (map (Rmult (c * c)) (map2 (fun f xi => f * rsin (xi * x') * (f * rsin (xi * x'))) (map2 mul fac ce) xc)).
  2:{ rewrite map_map2. clearbody fac ce xc. revert ce xc.
      induction fac as [|f fac IH]; intros [|v ce] [|xj xc]; cbn [map2]; try reflexivity.
      f_equal; [numR; ring | apply IH]. }
  rewrite etrapz_scal. rewrite sqrt_mult_alt by (apply Rmult_le_pos; exact Hc). rewrite sqrt_square by exact Hc. reflexivity.
Qed.

(* 5. monotone in the input uncertainty *)
Theorem eout_monotone (x y xo e e' : list R) a b (k : kw R) :
  Forall2 (fun u v => 0 <= u <= v) e e' ->
  Forall2 Rle (snd (fourier_transform x y xo a b (Some e) k))
              (snd (fourier_transform x y xo a b (Some e') k)).
Proof.
  intros F. rewrite !FT_unc. cbn [dflt_zeros]. unfold eout_core.
  apply U_Forall2_map. intros x'. apply sqrt_le_1_alt. apply etrapz_mono.
  apply U_Forall2_map2_l with (P := fun u v => Rabs u <= Rabs v).
  { intros u v xj A. apply Rsqr_le_abs_1 in A. unfold Rsqr in A.
    pose proof (Rle_0_sqr (rsin (xj * x'))) as S. unfold Rsqr in S. nra. }
  unfold vmul. apply U_Forall2_map2_r with (P := fun u v => 0 <= u <= v).
  { intros f u v A. numR. rewrite !Rabs_mult. rewrite (Rabs_pos_eq u), (Rabs_pos_eq v) by lra.
    apply Rmult_le_compat_l; [apply Rabs_pos | lra]. }
  unfold cropw. apply U_select_Forall2. exact F.
Qed.

(* 6. sandwich between the exact trapezoid propagation and sqrt 2 times it *)
Lemma eout_as_E (x y xo e : list R) a b (k : kw R) i :
  length y = length x -> length e = length x -> (i < length xo)%nat ->
  nth i (snd (fourier_transform x y xo a b (Some e) k)) 0
  = rsqrt (rsum (map2 (fun E t => E * t ^ 2) (eweights (cropw x a b x))
       (map2 (fun fe xj => fe * rsin (xj * nth i xo 0))
             (vmul (ffac x a b k) (cropw x a b e)) (cropw x a b x)))).
Proof. intros Ly Le Hi. rewrite eout_formula by assumption. rewrite U_map2_sq. reflexivity. Qed.

Theorem eout_lower (x y xo e : list R) a b (k : kw R) i :
  length y = length x -> length e = length x -> (i < length xo)%nat ->
  sigma_tw (cropw x a b x) (vmul (ffac x a b k) (cropw x a b e)) (nth i xo 0)
  <= nth i (snd (fourier_transform x y xo a b (Some e) k)) 0.
Proof.
  intros Ly Le Hi. rewrite eout_as_E by assumption. unfold sigma_tw.
  apply sqrt_le_1_alt. unfold tw, eweights. apply lower_core.
Qed.

Theorem eout_upper (x y xo e : list R) a b (k : kw R) i :
  StronglySorted Rle x ->
  length y = length x -> length e = length x -> (i < length xo)%nat ->
  nth i (snd (fourier_transform x y xo a b (Some e) k)) 0
  <= rsqrt 2 * sigma_tw (cropw x a b x) (vmul (ffac x a b k) (cropw x a b e)) (nth i xo 0).
Proof.
  intros S Ly Le Hi. rewrite eout_as_E by assumption. unfold sigma_tw.
  rewrite <- sqrt_mult_alt by lra. apply sqrt_le_1_alt. unfold tw, eweights.
  apply upper_core; [lra|]. unfold cropw. apply U_select_sorted. exact S.
Qed.

Lemma sorted_lt_le (x : list R) : StronglySorted Rlt x -> StronglySorted Rle x.
Proof.
  induction 1 as [|a l S IH F]; constructor; [exact IH|].
  eapply Forall_impl; [|exact F]. intros; lra.
Qed.

Corollary eout_upper_strict (x y xo e : list R) a b (k : kw R) i :
  StronglySorted Rlt x ->
  length y = length x -> length e = length x -> (i < length xo)%nat ->
  nth i (snd (fourier_transform x y xo a b (Some e) k)) 0
  <= rsqrt 2 * sigma_tw (cropw x a b x) (vmul (ffac x a b k) (cropw x a b e)) (nth i xo 0).
Proof. intros S. apply eout_upper. apply sorted_lt_le. exact S. Qed.

(* 7. uniform (cropped) grid: only the two end points differ *)
Theorem eout_uniform (x y xo e : list R) a b (k : kw R) i h n :
  length y = length x -> length e = length x -> (i < length xo)%nat ->
  length (cropw x a b x) = S n -> (1 <= n)%nat ->
  (forall j, (j < n)%nat -> nth (S j) (cropw x a b x) 0 - nth j (cropw x a b x) 0 = h) ->
  (nth i (snd (fourier_transform x y xo a b (Some e) k)) 0) ^ 2
  - (sigma_tw (cropw x a b x) (vmul (ffac x a b k) (cropw x a b e)) (nth i xo 0)) ^ 2
  = (h / 2) ^ 2 *
    ((nth 0 (vmul (ffac x a b k) (cropw x a b e)) 0 * rsin (nth 0 (cropw x a b x) 0 * nth i xo 0)) ^ 2 +
     (nth n (vmul (ffac x a b k) (cropw x a b e)) 0 * rsin (nth n (cropw x a b x) 0 * nth i xo 0)) ^ 2).
Proof.
  intros Ly Le Hi Ln Hn U. rewrite eout_as_E by assumption. unfold sigma_tw.
  pose proof (fe_length x a b e k Le) as Lfe.
  set (xc := cropw x a b x) in *. set (fe := vmul (ffac x a b k) (cropw x a b e)) in *.
  set (x' := nth i xo 0).
  set (ts := map2 (fun f xj => f * rsin (xj * x')) fe xc).
  assert (Lts : length ts = S n) by (unfold ts; rewrite map2_length, Lfe, Ln; apply Nat.min_id).
  rewrite pow2_sqrt by (unfold eweights; apply rsumE_nonneg).
  rewrite pow2_sqrt by (apply U_rsum_nonneg; intros; apply pow2_ge_0).
  rewrite (uniform_top h xc n ts Ln Lts Hn).
  2:{ apply unif_of_nth. intros j Hj. apply U. lia. }
  unfold ts. rewrite !(nth_map2 _ _ _ _ 0 0 0) by lia. reflexivity.
Qed.

(* 8. F_to_G rescales the uncertainty by 2/pi *)
Theorem F_to_G_unc_scaling (q f r : list R) df (k : kw R) :
  snd (F_to_G q f r df k) = map (fun v => v * (2 / PI)) (snd (fourier_transform q f r None None df k)).
Proof.
  unfold F_to_G. destruct (fourier_transform q f r None None df k) as [[r' g] dg]. reflexivity.
Qed.

Theorem F_to_G_unc_value_independent (q f f' r : list R) df (k : kw R) :
  length f = length q -> length f' = length q ->
  snd (F_to_G q f r df k) = snd (F_to_G q f' r df k).
Proof. intros L L'. rewrite !F_to_G_unc_scaling. f_equal. apply eout_value_independent; assumption. Qed.

Theorem F_to_G_unc_none_zero (q f r : list R) (k : kw R) :
  snd (F_to_G q f r None k) = map (fun _ => 0) r.
Proof. rewrite F_to_G_unc_scaling, eout_none_zero, map_map. apply map_ext. intros; lra. Qed.

Theorem F_to_G_unc_homogeneous (q f r e : list R) (k : kw R) c : 0 <= c ->
  snd (F_to_G q f r (Some (map (Rmult c) e)) k) = map (Rmult c) (snd (F_to_G q f r (Some e) k)).
Proof.
  intros Hc. rewrite !F_to_G_unc_scaling, eout_homogeneous by exact Hc. rewrite !map_map.
  apply map_ext. intros; lra.
Qed.

Theorem F_to_G_unc_monotone (q f r e e' : list R) (k : kw R) :
  Forall2 (fun u v => 0 <= u <= v) e e' ->
  Forall2 Rle (snd (F_to_G q f r (Some e) k)) (snd (F_to_G q f r (Some e') k)).
Proof.
  intros F. rewrite !F_to_G_unc_scaling.
  pose proof (eout_monotone q f r e e' None None k F) as M.
  induction M as [|u v l l' Huv M IH]; cbn [map]; constructor; [|exact IH].
  assert (0 < 2 / PI) by (apply Rdiv_lt_0_compat; [lra | apply PI_RGT_0]). nra.
Qed.

(* ------------------------------------------------------------------ *)
(* Non-vacuity: concrete instances on which the hypotheses hold        *)
(* ------------------------------------------------------------------ *)

Ltac rcmp := repeat (match goal with
  | |- context [Rltb ?a ?b] => first [rewrite (Rltb_true a b) by lra | rewrite (Rltb_false a b) by lra]
  | |- context [Rleb ?a ?b] => first [rewrite (Rleb_true a b) by lra | rewrite (Rleb_false a b) by lra]
  end; cbv beta iota).

Definition k_off : kw R := {| rho := 1; bcoh := 1; btot := 1; lorch := false; omitted := false |}.
Definition k_on : kw R := {| rho := 1; bcoh := 1; btot := 1; lorch := true; omitted := true |}.

(* no window: the whole grid 1,2,3 is kept *)
Example mask_123 : crop_mask [1;2;3] (wlo [1;2;3] None) (whi [1;2;3] None) = [true; true; true].
Proof. unfold wlo, whi, vmin, vmax, crop_mask. cbn [minl maxl map]. numR. rcmp. reflexivity. Qed.
Example cropw_123 {B} (l : list B) : cropw [1;2;3] None None l = select [true; true; true] l.
Proof. unfold cropw. rewrite mask_123. reflexivity. Qed.
(* window [1,3] on the grid 0,1,2,3,7 keeps 1,2,3 *)
Example mask_win : crop_mask [0;1;2;3;7] (wlo [0;1;2;3;7] (Some 1)) (whi [0;1;2;3;7] (Some 3))
                   = [false; true; true; true; false].
Proof. unfold wlo, whi, crop_mask. cbn [map]. numR. rcmp. reflexivity. Qed.
Example cropw_win {B} (l : list B) :
  cropw [0;1;2;3;7] (Some 1) (Some 3) l = select [false; true; true; true; false] l.
Proof. unfold cropw. rewrite mask_win. reflexivity. Qed.

(* a fully evaluated instance of the uncertainty channel: grid 1,2,3, unit
   uncertainties, one output point x' = 1, no Lorch:
   E = (1/2, 1, 1/2), so eout = sqrt (sin^2 1 / 2 + sin^2 2 + sin^2 3 / 2) *)
Example eout_concrete :
  snd (fourier_transform [1;2;3] [0;0;0] [1] None None (Some [1;1;1]) k_off)
  = [rsqrt ((rsin 1) ^ 2 / 2 + (rsin 2) ^ 2 + (rsin 3) ^ 2 / 2)].
Proof.
  rewrite FT_unc. rewrite !cropw_123.
  cbn [select lorch k_off ones_like map vmul map2 eout_core dflt_zeros].
  rewrite !etrapz_cons2, etrapz_one_l. numR. f_equal. f_equal. rewrite !Rmult_1_r. field.
Qed.
(* the exact trapezoid propagation on the same instance: W = (1/2, 1, 1/2) *)
Example sigma_concrete :
  sigma_tw [1;2;3] [1;1;1] 1 = rsqrt ((rsin 1) ^ 2 / 4 + (rsin 2) ^ 2 + (rsin 3) ^ 2 / 4).
Proof. unfold sigma_tw, tw. rewrite !nbr_cons2, nbr_one. cbn [map2 fold_right]. unfold gW. f_equal. rewrite !Rmult_1_r. field. Qed.

Example eout_value_independent_nonvacuous :
  let x := [1;2;3] in let y := [0;0;0] in let y' := [5;6;7] in
  length y = length x /\ length y' = length x /\ y <> y' /\
  snd (fourier_transform x y [1] None None (Some [1;1;1]) k_on)
  = snd (fourier_transform x y' [1] None None (Some [1;1;1]) k_on).
Proof.
  cbv zeta. split; [reflexivity|]. split; [reflexivity|]. split.
  - intros E. injection E. intros. lra.
  - apply eout_value_independent; reflexivity.
Qed.

Example eout_none_zero_nonvacuous :
  snd (fourier_transform [1;2;3] [5;6;7] [1;2] None None None k_on) = [0; 0].
Proof. apply eout_none_zero. Qed.

Example etrapz_weights_nonvacuous :
  eweights [1;2;4] = [1/2; 5/2; 2] /\ tw [1;2;4] = [1/2; 3/2; 1] /\
  etrapz [1;2;4] [3;5;7] = 1/2 * 3 + 5/2 * 5 + 2 * 7.
Proof.
  split; [|split].
  - unfold eweights. rewrite !nbr_cons2, nbr_one. unfold gE. repeat f_equal; field.
  - unfold tw. rewrite !nbr_cons2, nbr_one. unfold gW. repeat f_equal; field.
  - rewrite !etrapz_cons2, etrapz_one_l. field.
Qed.

Example eout_formula_nonvacuous :
  let x := [0;1;2;3;7] in let e := [1;1;1;1;1] in
  length e = length x /\ cropw x (Some 1) (Some 3) x = [1;2;3] /\ cropw x (Some 1) (Some 3) e = [1;1;1] /\
  length (ffac x (Some 1) (Some 3) k_on) = 3%nat.
Proof.
  cbv zeta. split; [reflexivity|]. split; [|split].
  - rewrite cropw_win. reflexivity.
  - rewrite cropw_win. reflexivity.
  - rewrite ffac_length, cropw_win. reflexivity.
Qed.

Example eout_homogeneous_nonvacuous : 0 <= 3 /\ map (Rmult 3) [1;2;1] = [3 * 1; 3 * 2; 3 * 1].
Proof. split; [lra|reflexivity]. Qed.

Example eout_monotone_nonvacuous :
  Forall2 (fun u v => 0 <= u <= v) [0;1;2] [1;1;3] /\ [0;1;2] <> [1;1;3].
Proof.
  split.
  - repeat constructor; lra.
  - intros E. injection E. intros. lra.
Qed.

Example eout_lower_nonvacuous :
  (* a non-monotone grid is allowed in the lower bound *)
  let x := [1;3;2] in length [0;0;0] = length x /\ length [1;1;1] = length x /\ (0 < length [1])%nat /\
  ~ StronglySorted Rle x.
Proof.
  cbv zeta. split; [reflexivity|]. split; [reflexivity|]. split; [cbn; lia|].
  intros S. apply StronglySorted_inv in S. destruct S as [S _].
  apply StronglySorted_inv in S. destruct S as [_ F]. apply Forall_inv in F. lra.
Qed.

Example eout_upper_nonvacuous :
  let x := [0;1;2;3;7] in
  StronglySorted Rle x /\ StronglySorted Rlt x /\ length [0;0;0;0;0] = length x /\
  length [1;1;1;1;1] = length x /\ cropw x (Some 1) (Some 3) x = [1;2;3].
Proof.
  cbv zeta. split; [|split; [|split; [reflexivity|split; [reflexivity|]]]].
  - repeat (constructor; [|repeat (constructor; try lra)]). constructor.
  - repeat (constructor; [|repeat (constructor; try lra)]). constructor.
  - rewrite cropw_win. reflexivity.
Qed.

(* the upper bound really needs a monotone grid: on the grid 0,1,0 the middle
   trapezoid weight vanishes while the code's weight does not *)
Example upper_needs_monotone :
  tw [0;1;0] = [1/2; 0; -1/2] /\ eweights [0;1;0] = [1/2; 1; 1/2].
Proof.
  split.
  - unfold tw. rewrite !nbr_cons2, nbr_one. unfold gW. repeat f_equal; field.
  - unfold eweights. rewrite !nbr_cons2, nbr_one. unfold gE. repeat f_equal; field.
Qed.

Example eout_uniform_nonvacuous :
  let x := [0;1;2;3;7] in let xc := cropw x (Some 1) (Some 3) x in
  length xc = 3%nat /\ (forall j, (j < 2)%nat -> nth (S j) xc 0 - nth j xc 0 = 1).
Proof.
  cbv zeta. rewrite cropw_win. cbn [select]. split; [reflexivity|].
  intros j Hj. destruct j as [|[|j]]; cbn [nth]; try lra. lia.
Qed.

Example F_to_G_unc_nonvacuous :
  snd (F_to_G [1;2;3] [0;0;0] [1] (Some [1;1;1]) k_off)
  = [rsqrt ((rsin 1) ^ 2 / 2 + (rsin 2) ^ 2 + (rsin 3) ^ 2 / 2) * (2 / PI)].
Proof. rewrite F_to_G_unc_scaling, eout_concrete. reflexivity. Qed.
