(* LowQP.v -- C15: the omitted low-Q correction term of the model
   (TransformerM.low_x_term, at the real carrier) is the integral it is
   documented to be, with and without the Lorch window, and how it enters
   F_to_G.  Port of notes/spikes/c15_lowq_integrals.v to the model function. *)
From PyStoG Require Import Num NumR ConverterM TransformerM.
From PyStoG.proofs Require Import VecLib.
(* Reals / Coquelicot are imported AFTER the model so that sin, cos, sqrt,
   zero, one, opp ... denote the real-analysis objects in this file. *)
From Coq Require Import List Bool Reals Lra.
From Coquelicot Require Import Coquelicot.
Import ListNotations.
Open Scope R_scope.

(* ------------------------------------------------------------------ *)
(* 1. Closed-form integrals (pure real analysis, from the spike)       *)
(* ------------------------------------------------------------------ *)

Ltac ftc F :=
  match goal with |- is_RInt ?f ?a ?b ?v =>
    replace v with (minus (F b) (F a));
    [ apply (is_RInt_derive F f);
      [ intros x _; auto_derive; [auto | try field; auto]
      | intros x _; apply (@ex_derive_continuous R_AbsRing R_NormedModule); auto_derive; auto ]
    | unfold minus, plus, opp; simpl ]
  end.
Ltac eqR := match goal with |- ?x = ?y => change (@eq R x y) end.

(* F2 = int_0^Qm Q sin(Q r) dQ *)
Lemma F2_is_integral (r qm:R) : r <> 0 ->
  is_RInt (fun q => q * sin (q*r)) 0 qm ((sin (qm*r) - qm*r*cos (qm*r)) / (r*r)).
Proof.
 intros Hr. ftc (fun q => (sin (q*r) - q*r*cos (q*r)) / (r*r)).
 rewrite !Rmult_0_l, sin_0. field. exact Hr.
Qed.

(* F1 = int_0^Qm Q^2 sin(Q r) dQ = (2 v sin v - (v^2-2) cos v - 2)/r^3, v = Qm r *)
Lemma F1_is_integral (r qm:R) : r <> 0 ->
  is_RInt (fun q => q * q * sin (q*r)) 0 qm
    ((2*(qm*r)*sin (qm*r) - ((qm*r)*(qm*r) - 2)*cos (qm*r) - 2) / (r*r*r)).
Proof.
 intros Hr. ftc (fun q => (2*(q*r)*sin (q*r) - ((q*r)*(q*r) - 2)*cos (q*r)) / (r*r*r)).
 rewrite !Rmult_0_l, sin_0, cos_0. field. exact Hr.
Qed.

Lemma prod_to_sum x y : sin x * sin y = (cos (y - x) - cos (y + x)) / 2.
Proof. rewrite cos_minus, cos_plus. lra. Qed.

(* F2 with Lorch: int_0^Qm sin(aQ) sin(Qr)/a dQ *)
Lemma F2L_is_integral (r a qm:R) : a <> 0 -> r - a <> 0 -> r + a <> 0 ->
  is_RInt (fun q => sin (a*q) * sin (q*r) / a) 0 qm
    ((sin (qm*(r-a)) / (r-a) - sin (qm*(r+a)) / (r+a)) / (2*a)).
Proof.
 intros Ha Hm Hp.
 apply (is_RInt_ext (fun q => (cos (q*(r-a)) - cos (q*(r+a))) / (2*a))).
 { intros q _. rewrite prod_to_sum. replace (q*(r-a)) with (q*r - a*q) by lra.
   replace (q*(r+a)) with (q*r + a*q) by lra. eqR. field. exact Ha. }
 ftc (fun q => (sin (q*(r-a)) / (r-a) - sin (q*(r+a)) / (r+a)) / (2*a)).
 rewrite !Rmult_0_l, sin_0. field. auto.
Qed.

(* F1 with Lorch: int_0^Qm Q sin(aQ) sin(Qr)/a dQ *)
Lemma F1L_is_integral (r a qm:R) : a <> 0 -> r - a <> 0 -> r + a <> 0 ->
  is_RInt (fun q => q * sin (a*q) * sin (q*r) / a) 0 qm
    (((qm*(r-a) * sin (qm*(r-a)) + cos (qm*(r-a)) - 1) / ((r-a)*(r-a))
      - (qm*(r+a) * sin (qm*(r+a)) + cos (qm*(r+a)) - 1) / ((r+a)*(r+a))) / (2*a)).
Proof.
 intros Ha Hm Hp.
 apply (is_RInt_ext (fun q => q * (cos (q*(r-a)) - cos (q*(r+a))) / (2*a))).
 { intros q _. replace (q * sin (a*q) * sin (q*r)) with (q * (sin (a*q) * sin (q*r))) by lra.
   rewrite prod_to_sum. replace (q*(r-a)) with (q*r - a*q) by lra.
   replace (q*(r+a)) with (q*r + a*q) by lra. eqR. field. exact Ha. }
 ftc (fun q => ((q*(r-a) * sin (q*(r-a)) + cos (q*(r-a))) / ((r-a)*(r-a))
              - (q*(r+a) * sin (q*(r+a)) + cos (q*(r+a))) / ((r+a)*(r+a))) / (2*a)).
 rewrite !Rmult_0_l, ?sin_0, ?cos_0. field. auto.
Qed.

(* whole term, no window:  int_0^Qm Q (S0 Q/Qm - 1) sin(Q r) dQ = F1 S0/Qm - F2 *)
Lemma plain_term_is_integral (r qm s0:R) : r <> 0 -> qm <> 0 ->
  is_RInt (fun q => q * (s0 * q / qm - 1) * sin (q*r)) 0 qm
    ((2*(qm*r)*sin (qm*r) - ((qm*r)*(qm*r) - 2)*cos (qm*r) - 2) / (r*r*r) * s0 / qm
     - (sin (qm*r) - qm*r*cos (qm*r)) / (r*r)).
Proof.
 intros Hr Hq.
 apply (is_RInt_ext (fun q => plus (scal (s0/qm) (q*q*sin (q*r))) (opp (q * sin (q*r))))).
 { intros q _. unfold plus, scal, opp; simpl. unfold mult; simpl. eqR. field. exact Hq. }
 match goal with |- is_RInt _ _ _ (?F1 * s0 / qm - ?F2) =>
   replace (F1 * s0 / qm - F2) with (plus (scal (s0/qm) F1) (opp F2))
     by (unfold plus, scal, opp; simpl; unfold mult; simpl; unfold Rdiv, Rminus; ring) end.
 apply (is_RInt_plus (V:=R_NormedModule)).
 - apply (is_RInt_scal (V:=R_NormedModule)). apply F1_is_integral; exact Hr.
 - apply (is_RInt_opp (V:=R_NormedModule)). apply F2_is_integral; exact Hr.
Qed.

(* whole term, Lorch window, in the simplified form Q * sin(aQ)/(aQ) = sin(aQ)/a *)
Lemma lorch_term_is_integral (r a qm s0:R) : a <> 0 -> r - a <> 0 -> r + a <> 0 -> qm <> 0 ->
  is_RInt (fun q => (s0 * q / qm - 1) * (sin (a*q) / a) * sin (q*r)) 0 qm
    (((qm*(r-a) * sin (qm*(r-a)) + cos (qm*(r-a)) - 1) / ((r-a)*(r-a))
      - (qm*(r+a) * sin (qm*(r+a)) + cos (qm*(r+a)) - 1) / ((r+a)*(r+a))) / (2*a) * s0 / qm
     - (sin (qm*(r-a)) / (r-a) - sin (qm*(r+a)) / (r+a)) / (2*a)).
Proof.
 intros Ha Hm Hp Hq.
 apply (is_RInt_ext (fun q => plus (scal (s0/qm) (q * sin (a*q) * sin (q*r) / a))
                                   (opp (sin (a*q) * sin (q*r) / a)))).
 { intros q _. unfold plus, scal, opp; simpl. unfold mult; simpl. eqR. field. auto. }
 match goal with |- is_RInt _ _ _ (?F1 * s0 / qm - ?F2) =>
   replace (F1 * s0 / qm - F2) with (plus (scal (s0/qm) F1) (opp F2))
     by (unfold plus, scal, opp; simpl; unfold mult; simpl; unfold Rdiv, Rminus; ring) end.
 apply (is_RInt_plus (V:=R_NormedModule)).
 - apply (is_RInt_scal (V:=R_NormedModule)). apply F1L_is_integral; assumption.
 - apply (is_RInt_opp (V:=R_NormedModule)). apply F2L_is_integral; assumption.
Qed.

(* the removable singularity: Q * W(Q) = sin(aQ)/a.  For Q <> 0 this is algebra;
   at Q = 0 both sides are 0 (in Coq, x/0 is a real number and 0 * _ = 0). *)
Lemma lorch_pointwise (a Q c s:R) : a <> 0 -> Q <> 0 ->
  Q * c * (sin (a*Q) / (a*Q)) * s = c * (sin (a*Q) / a) * s.
Proof. intros Ha HQ. field. auto. Qed.
Lemma lorch_pointwise_all (a Q c s:R) : a <> 0 ->
  Q * c * (sin (a*Q) / (a*Q)) * s = c * (sin (a*Q) / a) * s.
Proof.
 intros Ha. destruct (Req_dec Q 0) as [->|HQ]; [|apply lorch_pointwise; assumption].
 rewrite Rmult_0_r, sin_0. unfold Rdiv. ring.
Qed.

(* the integral of the zero function *)
Lemma is_RInt_zero_fun (f : R -> R) (b:R) : (forall x, f x = 0) -> is_RInt f 0 b 0.
Proof.
 intros E. apply (is_RInt_ext (fun _ => 0)). { intros x _. symmetry. apply E. }
 pose proof (is_RInt_const (V:=R_NormedModule) 0 b 0) as H.
 match type of H with is_RInt _ _ _ ?v =>
   replace v with (0:R) in H by (unfold scal; simpl; unfold mult; simpl; eqR; ring) end.
 exact H.
Qed.

(* ------------------------------------------------------------------ *)
(* 2. The model term low_x_term at R                                    *)
(* ------------------------------------------------------------------ *)

(* what the model computes, spelled out *)
Lemma low_x_term_plain_value (xmin xmax yin0 r:R) : xmin <> 0 -> r <> 0 ->
  low_x_term false xmin xmax yin0 r =
  (2*(xmin*r)*sin (xmin*r) - ((xmin*r)*(xmin*r) - 2)*cos (xmin*r) - 2) / (r*r*r) * (yin0/xmin + 1) / xmin
  - (sin (xmin*r) - xmin*r*cos (xmin*r)) / (r*r).
Proof.
 intros Hq Hr. unfold low_x_term, neqb; numR.
 destruct (Reqb_spec xmin 0) as [E|_]; [contradiction|].
 destruct (Reqb_spec r 0) as [E|_]; [contradiction|].
 cbn [negb]. reflexivity.
Qed.

Lemma low_x_term_lorch_value (xmin xmax yin0 r:R) : xmin <> 0 ->
  let a := PI / xmax in
  low_x_term true xmin xmax yin0 r =
  ((xmin*(r-a) * sin (xmin*(r-a)) + cos (xmin*(r-a)) - 1) / ((r-a)*(r-a))
    - (xmin*(r+a) * sin (xmin*(r+a)) + cos (xmin*(r+a)) - 1) / ((r+a)*(r+a))) / (2*a) * (yin0/xmin + 1) / xmin
  - (sin (xmin*(r-a)) / (r-a) - sin (xmin*(r+a)) / (r+a)) / (2*a).
Proof.
 intros Hq a. unfold low_x_term, neqb; numR.
 destruct (Reqb_spec xmin 0) as [E|_]; [contradiction|].
 cbn [negb]. reflexivity.
Qed.

(* 4. the term is zero when Qmin = 0 *)
Lemma low_x_term_zero_qmin0 (l:bool) (xmax yin0 r:R) : low_x_term l 0 xmax yin0 r = 0.
Proof.
 unfold low_x_term, neqb; numR.
 destruct (Reqb_spec 0 0) as [_|N]; [|contradiction N; reflexivity]. cbn [negb].
 destruct l.
 - rewrite !Rmult_0_l, sin_0. unfold Rdiv. ring.
 - destruct (Reqb_spec r 0); cbn [negb]; rewrite ?Rmult_0_l, ?sin_0; unfold Rdiv; ring.
Qed.

(* 5. the term vanishes at r = 0 *)
Lemma low_x_term_zero_r0 (xmin xmax yin0:R) : low_x_term false xmin xmax yin0 0 = 0.
Proof.
 unfold low_x_term, neqb; numR.
 destruct (Reqb_spec 0 0) as [_|N]; [|contradiction N; reflexivity]. cbn [negb].
 destruct (Reqb_spec xmin 0); cbn [negb]; unfold Rdiv; ring.
Qed.

(* with the window the two half-terms cancel by evenness (vm = -vp at r = 0) *)
Lemma low_x_term_zero_r0_lorch (xmin xmax yin0:R) : low_x_term true xmin xmax yin0 0 = 0.
Proof.
 unfold low_x_term, neqb; numR. set (a := PI / xmax).
 replace (0 - a) with (- a) by ring. replace (0 + a) with a by ring.
 replace (xmin * - a) with (- (xmin * a)) by ring.
 rewrite sin_neg, cos_neg. unfold Rdiv. rewrite Rinv_opp.
 replace (- a * - a) with (a * a) by ring.
 destruct (Reqb_spec xmin 0); cbn [negb]; ring.
Qed.

(* 1. no window: the term is int_0^Qmin Q [S_model(Q) - 1] sin(Q r) dQ with
   S_model(Q) = S0 Q / Qmin, S0 = yin0/Qmin + 1.  Holds for every xmin and r
   (for xmin = 0 or r = 0 both sides are 0). *)
Lemma low_x_term_plain_is_integral_all (xmin xmax yin0 r:R) :
  is_RInt (fun Q => Q * ((yin0/xmin + 1) * Q / xmin - 1) * sin (Q * r)) 0 xmin
          (low_x_term false xmin xmax yin0 r).
Proof.
 destruct (Req_dec xmin 0) as [->|Hq].
 { rewrite low_x_term_zero_qmin0. apply (is_RInt_point (V:=R_NormedModule)). }
 destruct (Req_dec r 0) as [->|Hr].
 { rewrite low_x_term_zero_r0. apply is_RInt_zero_fun. intros x. rewrite Rmult_0_r, sin_0. ring. }
 rewrite low_x_term_plain_value by assumption.
 apply plain_term_is_integral; assumption.
Qed.

Lemma low_x_term_plain_is_integral (xmin xmax yin0 r:R) : 0 < xmin ->
  is_RInt (fun Q => Q * ((yin0/xmin + 1) * Q / xmin - 1) * sin (Q * r)) 0 xmin
          (low_x_term false xmin xmax yin0 r).
Proof. intros _. apply low_x_term_plain_is_integral_all. Qed.

(* 2. Lorch window W(Q) = sin(aQ)/(aQ), a = pi/Qmax.  Needed: a <> 0 (xmax <> 0)
   and r <> +-a (the closed form divides by r-a and r+a). *)
Lemma low_x_term_lorch_is_integral_simpl_all (xmin xmax yin0 r:R) :
  xmax <> 0 -> r <> PI / xmax -> r <> - (PI / xmax) ->
  is_RInt (fun Q => ((yin0/xmin + 1) * Q / xmin - 1) * (sin (PI / xmax * Q) / (PI / xmax)) * sin (Q * r))
          0 xmin (low_x_term true xmin xmax yin0 r).
Proof.
 intros Hx Hm Hp.
 assert (Ha : PI / xmax <> 0).
 { unfold Rdiv. apply Rmult_integral_contrapositive_currified; [apply PI_neq0 | apply Rinv_neq_0_compat; exact Hx]. }
 destruct (Req_dec xmin 0) as [->|Hq].
 { rewrite low_x_term_zero_qmin0. apply (is_RInt_point (V:=R_NormedModule)). }
 rewrite low_x_term_lorch_value by assumption. cbv zeta.
 apply lorch_term_is_integral; try assumption; lra.
Qed.

Lemma low_x_term_lorch_is_integral_all (xmin xmax yin0 r:R) :
  xmax <> 0 -> r <> PI / xmax -> r <> - (PI / xmax) ->
  is_RInt (fun Q => Q * ((yin0/xmin + 1) * Q / xmin - 1)
                    * (sin (PI / xmax * Q) / (PI / xmax * Q)) * sin (Q * r))
          0 xmin (low_x_term true xmin xmax yin0 r).
Proof.
 intros Hx Hm Hp.
 assert (Ha : PI / xmax <> 0).
 { unfold Rdiv. apply Rmult_integral_contrapositive_currified; [apply PI_neq0 | apply Rinv_neq_0_compat; exact Hx]. }
 eapply is_RInt_ext; [|apply low_x_term_lorch_is_integral_simpl_all; eassumption].
 intros Q _. cbv beta. symmetry. eqR. apply lorch_pointwise_all. exact Ha.
Qed.

Lemma low_x_term_lorch_is_integral (xmin xmax yin0 r:R) :
  0 < xmin -> 0 < xmax -> r <> PI / xmax -> r <> - (PI / xmax) ->
  is_RInt (fun Q => Q * ((yin0/xmin + 1) * Q / xmin - 1)
                    * (sin (PI / xmax * Q) / (PI / xmax * Q)) * sin (Q * r))
          0 xmin (low_x_term true xmin xmax yin0 r).
Proof. intros _ Hx. apply low_x_term_lorch_is_integral_all. lra. Qed.

(* the same with the model's own window function lorch_weight (which is 1 at aQ = 0) *)
Lemma low_x_term_lorch_is_integral_window (xmin xmax yin0 r:R) :
  0 < xmin -> 0 < xmax -> r <> PI / xmax -> r <> - (PI / xmax) ->
  is_RInt (fun Q => Q * ((yin0/xmin + 1) * Q / xmin - 1) * lorch_weight (PI / xmax) Q * sin (Q * r))
          0 xmin (low_x_term true xmin xmax yin0 r).
Proof.
 intros Hq Hx Hm Hp.
 eapply is_RInt_ext; [|apply low_x_term_lorch_is_integral; eassumption].
 intros Q [HQ _]. rewrite Rmin_left in HQ by lra. cbv beta.
 unfold lorch_weight, neqb; numR.
 assert (Ha : PI / xmax <> 0).
 { unfold Rdiv. apply Rmult_integral_contrapositive_currified; [apply PI_neq0 | apply Rinv_neq_0_compat; lra]. }
 destruct (Reqb_spec (PI / xmax * Q) 0) as [E|_]; cbn [negb]; [|reflexivity].
 apply Rmult_integral in E. destruct E; [contradiction | lra].
Qed.

(* ------------------------------------------------------------------ *)
(* 3. The term inside fourier_transform / F_to_G                        *)
(* ------------------------------------------------------------------ *)

(* running min / max bound every element *)
Lemma minl_le_d (l : list R) : forall d, minl d l <= d.
Proof.
 induction l as [|x l IH]; intros d; cbn [minl]; numR; [lra|].
 destruct (Rltb_spec x d) as [L|L]; [eapply Rle_trans; [apply IH|lra] | apply IH].
Qed.
Lemma minl_le_in (l : list R) : forall d y, In y l -> minl d l <= y.
Proof.
 induction l as [|x l IH]; intros d y []; cbn [minl]; numR.
 - subst y. eapply Rle_trans; [apply minl_le_d|]. destruct (Rltb_spec x d); lra.
 - apply IH; assumption.
Qed.
Lemma maxl_ge_d (l : list R) : forall d, d <= maxl d l.
Proof.
 induction l as [|x l IH]; intros d; cbn [maxl]; numR; [lra|].
 destruct (Rltb_spec d x) as [L|L]; [eapply Rle_trans; [|apply IH]; lra | apply IH].
Qed.
Lemma maxl_ge_in (l : list R) : forall d y, In y l -> y <= maxl d l.
Proof.
 induction l as [|x l IH]; intros d y []; cbn [maxl]; numR.
 - subst y. eapply Rle_trans; [|apply maxl_ge_d]. destruct (Rltb_spec d x); lra.
 - apply IH; assumption.
Qed.
Lemma vmin_le_in (x : list R) y : In y x -> vmin x <= y.
Proof. destruct x as [|x0 x]; intros []; cbn [vmin]; [subst; apply minl_le_d | apply minl_le_in; assumption]. Qed.
Lemma vmax_ge_in (x : list R) y : In y x -> y <= vmax x.
Proof. destruct x as [|x0 x]; intros []; cbn [vmax]; [subst; apply maxl_ge_d | apply maxl_ge_in; assumption]. Qed.

(* the default window [min x, max x] keeps every point *)
Lemma crop_mask_full (x : list R) : crop_mask x (vmin x) (vmax x) = map (fun _ => true) x.
Proof.
 unfold crop_mask. apply map_ext_in. intros y Hy. numR.
 rewrite Rleb_true by (apply vmin_le_in; exact Hy).
 rewrite Rleb_true by (apply vmax_ge_in; exact Hy). reflexivity.
Qed.
Lemma select_all_true {B} (x : list R) (l : list B) :
  length l = length x -> select (map (fun _ => true) x) l = l.
Proof.
 revert l; induction x as [|x0 x IH]; intros [|b l] E; cbn in *; try discriminate; auto.
 f_equal. apply IH. congruence.
Qed.
Lemma crop_full (x y : list R) dy : length y = length x -> length (dflt_zeros y dy) = length x ->
  apply_cropping x y (vmin x) (vmax x) dy = (x, y, dflt_zeros y dy).
Proof.
 intros Ly Ld. unfold apply_cropping. rewrite crop_mask_full.
 rewrite !select_all_true by auto. reflexivity.
Qed.

Lemma map2_self_map {X Y Z} (f : X -> Y -> Z) (g : X -> Y) l :
  map2 f l (map g l) = map (fun x => f x (g x)) l.
Proof. induction l; cbn; f_equal; auto. Qed.
Lemma map2_map_self {X Y Z} (f : Y -> X -> Z) (g : X -> Y) l :
  map2 f (map g l) l = map (fun x => f (g x) x) l.
Proof. induction l; cbn; f_equal; auto. Qed.

(* the middle component of a transform result *)
Definition tvalues (t : list R * list R * list R) : list R := snd (fst t).
(* the same keywords with the omitted-range correction switched off *)
Definition without_omitted (k : kw R) : kw R :=
  {| rho := rho k; bcoh := bcoh k; btot := btot k; lorch := lorch k; omitted := false |}.

(* the values of fourier_transform with the default window do not look at the uncertainties *)
Lemma fourier_transform_values (q f r : list R) df (k : kw R) : length f = length q ->
  tvalues (fourier_transform q f r None None df k) =
  let factor := if lorch k then lorch_factor (vmax q) q else ones_like f in
  let yout := map (fun x => trapz q (map2 (fun fy xi => fy * Rtrigo_def.sin (xi * x)) (vmul factor f) q)) r in
  if omitted k then low_x_correction (lorch k) q f r yout else yout.
Proof.
 intros Lf. unfold tvalues, fourier_transform, apply_cropping.
 rewrite crop_mask_full, !select_all_true by auto. cbv zeta. numR.
 destruct (omitted k); reflexivity.
Qed.

(* 3. with the correction on, G(r) = G_uncorrected(r) + (2/pi) * term(r) *)
Lemma low_x_added_term_F_to_G (q f r : list R) df (k : kw R) :
  length f = length q -> omitted k = true ->
  tvalues (F_to_G q f r df k) =
  map2 (fun v r' => v + low_x_term (lorch k) (vmin q) (vmax q) (hd 0 f) r' * (2 / PI))
       (tvalues (F_to_G q f r df (without_omitted k))) r.
Proof.
 intros Lf Om.
 assert (E : forall k', tvalues (F_to_G q f r df k')
              = vscale_r two_over_pi (tvalues (fourier_transform q f r None None df k'))).
 { intros k'. unfold F_to_G, tvalues.
   destruct (fourier_transform q f r None None df k') as [[a b] c]. reflexivity. }
 rewrite !E, !fourier_transform_values by assumption.
 rewrite Om. cbn [omitted lorch without_omitted]. cbv zeta.
 unfold low_x_correction, vscale_r, two_over_pi. numR.
 rewrite map2_self_map, !map_map, map2_map_self.
 apply map_ext. intros x. ring.
Qed.

(* 6. the correction reads the input only through min(q), max(q) and the first data value *)
Lemma low_x_depends_only_on (l : bool) (q q' f f' r y : list R) :
  vmin q = vmin q' -> vmax q = vmax q' -> hd 0 f = hd 0 f' ->
  low_x_correction l q f r y = low_x_correction l q' f' r y.
Proof. intros E1 E2 E3. unfold low_x_correction. numR. rewrite E1, E2, E3. reflexivity. Qed.

(* ------------------------------------------------------------------ *)
(* 4. Non-vacuity: the hypotheses hold on concrete instances            *)
(* ------------------------------------------------------------------ *)

Example low_x_term_plain_is_integral_nonvacuous :
  is_RInt (fun Q => Q * ((3/1 + 1) * Q / 1 - 1) * sin (Q * 2)) 0 1 (low_x_term false 1 5 3 2).
Proof. apply low_x_term_plain_is_integral. lra. Qed.

(* Qmin = 1, Qmax = pi (so a = 1), r = 2 *)
Example low_x_term_lorch_is_integral_nonvacuous :
  is_RInt (fun Q => Q * ((3/1 + 1) * Q / 1 - 1) * (sin (PI / PI * Q) / (PI / PI * Q)) * sin (Q * 2))
          0 1 (low_x_term true 1 PI 3 2).
Proof.
 assert (P := PI_RGT_0). assert (E : PI / PI = 1) by (field; lra).
 apply low_x_term_lorch_is_integral; rewrite ?E; lra.
Qed.

(* 3-point grid, correction and Lorch on *)
Example low_x_added_term_F_to_G_nonvacuous :
  let k := {| rho := 1; bcoh := 1; btot := 1; lorch := true; omitted := true |} in
  let q := [1; 2; 3] in let f := [3; 1; 2] in let r := [0; 1; 2] in
  tvalues (F_to_G q f r None k) =
  map2 (fun v r' => v + low_x_term true 1 3 3 r' * (2 / PI))
       (tvalues (F_to_G q f r None (without_omitted k))) r.
Proof.
 intros k q f r.
 assert (Emin : vmin q = 1).
 { unfold q. cbn [vmin minl]. numR. rewrite (Rltb_false 2 1) by lra. rewrite (Rltb_false 3 1) by lra. reflexivity. }
 assert (Emax : vmax q = 3).
 { unfold q. cbn [vmax maxl]. numR. rewrite (Rltb_true 1 2) by lra. rewrite (Rltb_true 2 3) by lra. reflexivity. }
 pose proof (low_x_added_term_F_to_G q f r None k eq_refl eq_refl) as H.
 rewrite Emin, Emax in H. exact H.
Qed.

(* two different data sets sharing Qmin, Qmax and the first value *)
Example low_x_depends_only_on_nonvacuous (l : bool) (r y : list R) :
  low_x_correction l [1; 2; 3] [3; 1; 2] r y = low_x_correction l [1; 3] [3; 7] r y.
Proof.
 apply low_x_depends_only_on; [| |reflexivity].
 - cbn [vmin minl]. numR. rewrite (Rltb_false 2 1) by lra. rewrite !(Rltb_false 3 1) by lra. reflexivity.
 - cbn [vmax maxl]. numR. rewrite (Rltb_true 1 2) by lra. rewrite (Rltb_true 2 3), (Rltb_true 1 3) by lra. reflexivity.
Qed.
