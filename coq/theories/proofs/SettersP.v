(* SettersP.v -- proofs about the StoG object as a state machine over its public setters
   (SettersM.v): errors leave the object untouched, the r-grid and title invariants, the
   frame / last-write-wins characterisation of every attribute, commutation of calls that
   write different attributes, idempotence, and the constructor (__kwargs2attr) as a setter
   script that agrees with ConfigM.kwargs2attr.
   Every statement holds for every carrier (A, Num A); no property of numbers is used. *)
From Coq Require Import List ZArith Bool Arith Lia.
From PyStoG Require Import Num ConverterM StogM ConfigM SettersM.
Import ListNotations.

(* ------------------------------------------------------------------ *)
(* Definitions needed to state the theorems                            *)
(* ------------------------------------------------------------------ *)
Section Defs.
  Context {A : Type} `{Num A}.

  (* the calls that append to the file list instead of overwriting an attribute *)
  Definition is_accumulating (p : @sop A) : bool :=
    match p with SAppend _ | SExtend _ => true | _ => false end.

  (* the value a call writes to one scalar setting (None: the call does not write it) *)
  Definition writes_rmin (p : @sop A) : option A := match p with SRmin v => Some v | _ => None end.
  Definition writes_rmax (p : @sop A) : option A := match p with SRmax v => Some v | _ => None end.
  Definition writes_rdelta (p : @sop A) : option A := match p with SRdelta v => Some v | _ => None end.
  Definition writes_rho (p : @sop A) : option A := match p with SRho v => Some v | _ => None end.
  Definition writes_bcoh (p : @sop A) : option A := match p with SBcoh v => Some v | _ => None end.
  Definition writes_btot (p : @sop A) : option A := match p with SBtot v => Some v | _ => None end.
  Definition writes_lowq (p : @sop A) : option bool := match p with SLowq (FlagBool b) => Some b | _ => None end.
  Definition writes_lorch (p : @sop A) : option bool := match p with SLorch (FlagBool b) => Some b | _ => None end.
  Definition writes_cutoff (p : @sop A) : option (option A) := match p with SCutoff c => Some c | _ => None end.
  Definition writes_merge (p : @sop A) : option (@mopts A) := match p with SMerge m => Some m | _ => None end.
  Definition writes_qmin (p : @sop A) : option (option A) := match p with SQmin q => Some q | _ => None end.
  Definition writes_qmax (p : @sop A) : option (option A) := match p with SQmax q => Some q | _ => None end.
  Definition writes_fn (p : @sop A) : option gfun := match p with SFn (FnName g) => Some g | _ => None end.
  Definition writes_stem (p : @sop A) : option nat := match p with SStem n => Some n | _ => None end.
  Definition writes_xmin (p : @sop A) : option A := match p with SXmin v => Some v | _ => None end.
  Definition writes_xmax (p : @sop A) : option A := match p with SXmax v => Some v | _ => None end.

  (* the attribute a call is aimed at, as a code.  Rmin / Rmax / Rdelta have different codes but all three
     also refresh dr; SFn also rewrites the three derived titles; the three file-list calls share a code;
     each fixed-title slot is its own attribute. *)
  Definition target (p : @sop A) : nat :=
    match p with
    | SRmin _ => 0 | SRmax _ => 1 | SRdelta _ => 2 | SDr _ => 3
    | SRho _ => 4 | SBcoh _ => 5 | SBtot _ => 6
    | SLowq _ => 7 | SLorch _ => 8 | SCutoff _ => 9
    | SMerge _ => 10 | SQmin _ => 11 | SQmax _ => 12
    | SFn _ => 13
    | STgr _ => 14 | STgrft _ => 15 | STgrl _ => 16
    | SFiles _ | SAppend _ | SExtend _ => 17
    | SStem _ => 18 | SXmin _ => 19 | SXmax _ => 20
    | STfix slot _ => 100 + slot
    end.
  Definition is_fn_op (p : @sop A) : bool := match p with SFn _ => true | _ => false end.

  (* p and q write disjoint attributes: different targets, and not (dr setter vs grid setter),
     and not (real_space_function setter vs one of the three derived-title setters) *)
  Definition independent (p q : @sop A) : bool :=
    negb (target p =? target q)
    && negb (is_dr_op p && is_grid_op q) && negb (is_grid_op p && is_dr_op q)
    && negb (is_fn_op p && is_title_op q) && negb (is_title_op p && is_fn_op q).

  (* the object a fresh StoG with settings s is: the settings, their r grid, the titles derived from the
     function name, and the initial values of everything __kwargs2attr does not touch *)
  Definition obj_of (s : @settings A) : @obj A :=
    {| o_st := s; o_dr := rgrid s;
       o_tgr := t_gr_of (st_fn s); o_tgrft := t_grft_of (st_fn s); o_tgrl := t_grl_of (st_fn s);
       o_tfix := fixed_titles; o_files := None; o_stem := 0;
       o_xmin := of_Z 100; o_xmax := zero |}.
End Defs.

Local Arguments rgrid : simpl never.

Section Generic.
  Context {A : Type} `{Num A}.
  Local Open Scope num_scope.

  (* ---------------------------------------------------------------- *)
  (* scripts                                                           *)
  (* ---------------------------------------------------------------- *)
  Lemma srun_app : forall (ps1 ps2 : list (@sop A)) o,
    srun o (ps1 ++ ps2) = match srun o ps1 with (o', None) => srun o' ps2 | r => r end.
  Proof.
    induction ps1 as [|p t IH]; intros ps2 o; cbn [app srun]; [reflexivity|].
    destruct (sstep o p) as [o1 [e|]]; [reflexivity | apply IH].
  Qed.

  Lemma srun_app_ok : forall (ps1 ps2 : list (@sop A)) o,
    snd (srun o (ps1 ++ ps2)) = None ->
    snd (srun o ps1) = None /\ srun o (ps1 ++ ps2) = srun (fst (srun o ps1)) ps2.
  Proof.
    intros ps1 ps2 o. rewrite srun_app. destruct (srun o ps1) as [o1 [e|]]; cbn; [discriminate | auto].
  Qed.

  Lemma srun_cons_ok : forall (p : @sop A) ps o,
    snd (srun o (p :: ps)) = None ->
    snd (sstep o p) = None /\ srun o (p :: ps) = srun (fst (sstep o p)) ps.
  Proof.
    intros p ps o. cbn [srun]. destruct (sstep o p) as [o1 [e|]]; cbn; [discriminate | auto].
  Qed.

  (* ---------------------------------------------------------------- *)
  (* a. a call that raises leaves the object as it was                 *)
  (* ---------------------------------------------------------------- *)
  Lemma error_keeps_state : forall (o : @obj A) p e, snd (sstep o p) = Some e -> fst (sstep o p) = o.
  Proof.
    intros o p e. destruct p; cbn; try discriminate;
      try (destruct f; cbn; try discriminate; reflexivity);
      destruct (o_files o); cbn; try discriminate; reflexivity.
  Qed.

  Lemma srun_error_prefix : forall (ps : list (@sop A)) o o' e, srun o ps = (o', Some e) ->
    exists ps1 p ps2, ps = ps1 ++ p :: ps2 /\ srun o ps1 = (o', None) /\ snd (sstep o' p) = Some e.
  Proof.
    induction ps as [|p t IH]; intros o o' e E; cbn [srun] in E; [discriminate|].
    destruct (sstep o p) as [o1 [e1|]] eqn:Es.
    - injection E as <- <-.
      pose proof (error_keeps_state o p e1) as K. rewrite Es in K. cbn in K. specialize (K eq_refl). subst o1.
      exists [], p, t. split; [reflexivity|]. split; [reflexivity|]. rewrite Es. reflexivity.
    - destruct (IH _ _ _ E) as (ps1 & q & ps2 & -> & E1 & E2).
      exists (p :: ps1), q, ps2. split; [reflexivity|]. split; [|exact E2].
      cbn [srun]. rewrite Es. exact E1.
  Qed.

  (* ---------------------------------------------------------------- *)
  (* b. the stored r grid is the grid of the stored rmin/rmax/rdelta    *)
  (* ---------------------------------------------------------------- *)
  Lemma rgrid_only_reads_limits : forall s s' : @settings A,
    st_rmin s = st_rmin s' -> st_rmax s = st_rmax s' -> st_rdelta s = st_rdelta s' -> rgrid s = rgrid s'.
  Proof. intros s s' E1 E2 E3. unfold rgrid. rewrite E1, E2, E3. reflexivity. Qed.

  Lemma grid_ok_init : grid_ok (@obj_init A _).
  Proof. reflexivity. Qed.

  Lemma grid_ok_step : forall (o : @obj A) p, grid_ok o -> is_dr_op p = false -> grid_ok (fst (sstep o p)).
  Proof.
    unfold grid_ok. intros o p G Hp.
    destruct p; try discriminate Hp; cbn; try reflexivity;
      try (rewrite G; apply rgrid_only_reads_limits; reflexivity);
      try (destruct f; cbn; rewrite G; apply rgrid_only_reads_limits; reflexivity);
      destruct (o_files o); cbn; rewrite G; apply rgrid_only_reads_limits; reflexivity.
  Qed.

  Lemma grid_ok_run : forall (ps : list (@sop A)) o, grid_ok o ->
    forallb (fun p => negb (is_dr_op p)) ps = true -> grid_ok (fst (srun o ps)).
  Proof.
    induction ps as [|p t IH]; intros o G Hf; cbn [srun]; [exact G|].
    cbn [forallb] in Hf. apply andb_true_iff in Hf as [Hp Ht]. apply negb_true_iff in Hp.
    pose proof (grid_ok_step o p G Hp) as G1.
    destruct (sstep o p) as [o1 [e|]]; cbn [fst] in *; [exact G1 | apply IH; assumption].
  Qed.

  (* the Rmin / Rmax / Rdelta setters re-establish it from any state *)
  Lemma grid_ok_restored : forall (o : @obj A) p, is_grid_op p = true -> grid_ok (fst (sstep o p)).
  Proof. intros o p Hp. destruct p; try discriminate Hp; reflexivity. Qed.

  Lemma grid_op_never_raises : forall (o : @obj A) p, is_grid_op p = true -> snd (sstep o p) = None.
  Proof. intros o p Hp. destruct p; try discriminate Hp; reflexivity. Qed.

  (* the last call touching dr is a grid setter: only the calls before it have to succeed *)
  Lemma grid_ok_last_grid_op_strong : forall (o : @obj A) ps1 p ps2,
    is_grid_op p = true -> forallb (fun q => negb (is_dr_op q)) ps2 = true ->
    snd (srun o ps1) = None -> grid_ok (fst (srun o (ps1 ++ p :: ps2))).
  Proof.
    intros o ps1 p ps2 Hp Hf E1. rewrite srun_app.
    destruct (srun o ps1) as [o1 [e|]]; [discriminate|]. cbn [srun].
    pose proof (grid_ok_restored o1 p Hp) as G. pose proof (grid_op_never_raises o1 p Hp) as N.
    destruct (sstep o1 p) as [o2 [e|]]; cbn [fst snd] in *; [discriminate|].
    apply grid_ok_run; assumption.
  Qed.

  Lemma grid_ok_last_grid_op : forall (o : @obj A) ps ps1 p ps2,
    ps = ps1 ++ p :: ps2 -> is_grid_op p = true -> forallb (fun q => negb (is_dr_op q)) ps2 = true ->
    snd (srun o ps) = None -> grid_ok (fst (srun o ps)).
  Proof.
    intros o ps ps1 p ps2 -> Hp Hf E.
    apply grid_ok_last_grid_op_strong; try assumption.
    apply srun_app_ok in E. tauto.
  Qed.

  (* the invariant is not trivially true: the dr setter can break it (two different grids cannot both be right) *)
  Lemma grid_ok_broken_by_dr : forall o : @obj A,
    ~ (grid_ok (fst (sstep o (SDr []))) /\ grid_ok (fst (sstep o (SDr [zero])))).
  Proof. unfold grid_ok. cbn. intros o [E1 E2]. rewrite <- E1 in E2. discriminate. Qed.

  (* ---------------------------------------------------------------- *)
  (* c. the three derived titles follow the function name              *)
  (* ---------------------------------------------------------------- *)
  Lemma titles_ok_init : titles_ok (@obj_init A _).
  Proof. repeat split; reflexivity. Qed.

  Lemma titles_ok_step : forall (o : @obj A) p, titles_ok o -> is_title_op p = false -> titles_ok (fst (sstep o p)).
  Proof.
    unfold titles_ok. intros o p T Hp.
    destruct p; try discriminate Hp; cbn; try exact T;
      try (destruct f; cbn; first [exact T | repeat split; reflexivity]);
      destruct (o_files o); cbn; exact T.
  Qed.

  Lemma titles_ok_run : forall (ps : list (@sop A)) o, titles_ok o ->
    forallb (fun p => negb (is_title_op p)) ps = true -> titles_ok (fst (srun o ps)).
  Proof.
    induction ps as [|p t IH]; intros o G Hf; cbn [srun]; [exact G|].
    cbn [forallb] in Hf. apply andb_true_iff in Hf as [Hp Ht]. apply negb_true_iff in Hp.
    pose proof (titles_ok_step o p G Hp) as G1.
    destruct (sstep o p) as [o1 [e|]]; cbn [fst] in *; [exact G1 | apply IH; assumption].
  Qed.

  Lemma titles_ok_restored : forall (o : @obj A) g, titles_ok (fst (sstep o (SFn (FnName g)))).
  Proof. intros o g. repeat split; reflexivity. Qed.

  Lemma titles_ok_last_fn : forall (o : @obj A) ps ps1 g ps2,
    ps = ps1 ++ SFn (FnName g) :: ps2 -> forallb (fun q => negb (is_title_op q)) ps2 = true ->
    snd (srun o ps) = None -> titles_ok (fst (srun o ps)).
  Proof.
    intros o ps ps1 g ps2 -> Hf E.
    apply srun_app_ok in E as [E1 E2]. rewrite E2. cbn [srun sstep].
    apply titles_ok_run; [apply titles_ok_restored with (g := g) | exact Hf].
  Qed.

  (* not trivially true: a title setter breaks it (7 is not the code of a derived title) *)
  Lemma titles_ok_broken_by_title_op : forall o : @obj A, ~ titles_ok (fst (sstep o (STgr 7))).
  Proof. unfold titles_ok. cbn. intros o [E _]. destruct (st_fn (o_st o)); discriminate. Qed.

  (* ---------------------------------------------------------------- *)
  (* d. frame: what one call does to each attribute                    *)
  (* ---------------------------------------------------------------- *)
  Ltac frame_tac :=
    let o := fresh "o" in let p := fresh "p" in
    intros o p; destruct p; cbn; try reflexivity;
      try (match goal with f : flagv |- _ => destruct f | f : fnv |- _ => destruct f end; reflexivity);
      let E := fresh "E" in destruct (o_files o) eqn:E; cbn; first [reflexivity | exact E].

  Lemma frame_rmin : forall (o : @obj A) p,
    st_rmin (o_st (fst (sstep o p))) = match p with SRmin v => v | _ => st_rmin (o_st o) end.
  Proof. frame_tac. Qed.
  Lemma frame_rmax : forall (o : @obj A) p,
    st_rmax (o_st (fst (sstep o p))) = match p with SRmax v => v | _ => st_rmax (o_st o) end.
  Proof. frame_tac. Qed.
  Lemma frame_rdelta : forall (o : @obj A) p,
    st_rdelta (o_st (fst (sstep o p))) = match p with SRdelta v => v | _ => st_rdelta (o_st o) end.
  Proof. frame_tac. Qed.
  Lemma frame_rho : forall (o : @obj A) p,
    st_rho (o_st (fst (sstep o p))) = match p with SRho v => v | _ => st_rho (o_st o) end.
  Proof. frame_tac. Qed.
  Lemma frame_bcoh : forall (o : @obj A) p,
    st_bcoh (o_st (fst (sstep o p))) = match p with SBcoh v => v | _ => st_bcoh (o_st o) end.
  Proof. frame_tac. Qed.
  Lemma frame_btot : forall (o : @obj A) p,
    st_btot (o_st (fst (sstep o p))) = match p with SBtot v => v | _ => st_btot (o_st o) end.
  Proof. frame_tac. Qed.
  Lemma frame_lowq : forall (o : @obj A) p,
    st_lowq (o_st (fst (sstep o p))) = match p with SLowq (FlagBool b) => b | _ => st_lowq (o_st o) end.
  Proof. frame_tac. Qed.
  Lemma frame_lorch : forall (o : @obj A) p,
    st_lorch (o_st (fst (sstep o p))) = match p with SLorch (FlagBool b) => b | _ => st_lorch (o_st o) end.
  Proof. frame_tac. Qed.
  Lemma frame_cutoff : forall (o : @obj A) p,
    st_cutoff (o_st (fst (sstep o p))) = match p with SCutoff c => c | _ => st_cutoff (o_st o) end.
  Proof. frame_tac. Qed.
  Lemma frame_merge : forall (o : @obj A) p,
    st_merge (o_st (fst (sstep o p))) = match p with SMerge m => m | _ => st_merge (o_st o) end.
  Proof. frame_tac. Qed.
  Lemma frame_qmin : forall (o : @obj A) p,
    st_qmin (o_st (fst (sstep o p))) = match p with SQmin q => q | _ => st_qmin (o_st o) end.
  Proof. frame_tac. Qed.
  Lemma frame_qmax : forall (o : @obj A) p,
    st_qmax (o_st (fst (sstep o p))) = match p with SQmax q => q | _ => st_qmax (o_st o) end.
  Proof. frame_tac. Qed.
  Lemma frame_fn : forall (o : @obj A) p,
    st_fn (o_st (fst (sstep o p))) = match p with SFn (FnName g) => g | _ => st_fn (o_st o) end.
  Proof. frame_tac. Qed.
  Lemma frame_stem : forall (o : @obj A) p,
    o_stem (fst (sstep o p)) = match p with SStem n => n | _ => o_stem o end.
  Proof. frame_tac. Qed.
  Lemma frame_xmin : forall (o : @obj A) p,
    o_xmin (fst (sstep o p)) = match p with SXmin v => v | _ => o_xmin o end.
  Proof. frame_tac. Qed.
  Lemma frame_xmax : forall (o : @obj A) p,
    o_xmax (fst (sstep o p)) = match p with SXmax v => v | _ => o_xmax o end.
  Proof. frame_tac. Qed.

  Lemma frame_tfix : forall (o : @obj A) p,
    o_tfix (fst (sstep o p)) = match p with STfix slot t => set_nth (o_tfix o) slot t | _ => o_tfix o end.
  Proof. frame_tac. Qed.
  Lemma frame_files : forall (o : @obj A) p,
    o_files (fst (sstep o p)) =
      match p with
      | SFiles l => l
      | SAppend f => match o_files o with Some l => Some (l ++ [f]) | None => None end
      | SExtend l' => match o_files o with Some l => Some (l ++ l') | None => None end
      | _ => o_files o
      end.
  Proof. frame_tac. Qed.
  (* the stored grid: written by its own setter, recomputed (from the values stored after the call) by the
     three grid setters, otherwise kept *)
  Lemma frame_dr : forall (o : @obj A) p,
    o_dr (fst (sstep o p)) =
      match p with
      | SDr l => l
      | SRmin _ | SRmax _ | SRdelta _ => rgrid (o_st (fst (sstep o p)))
      | _ => o_dr o
      end.
  Proof. frame_tac. Qed.
  (* the derived titles: written by their own setters, re-derived by the function-name setter *)
  Lemma frame_tgr : forall (o : @obj A) p,
    o_tgr (fst (sstep o p)) = match p with STgr t => t | SFn (FnName g) => t_gr_of g | _ => o_tgr o end.
  Proof. frame_tac. Qed.
  Lemma frame_tgrft : forall (o : @obj A) p,
    o_tgrft (fst (sstep o p)) = match p with STgrft t => t | SFn (FnName g) => t_grft_of g | _ => o_tgrft o end.
  Proof. frame_tac. Qed.
  Lemma frame_tgrl : forall (o : @obj A) p,
    o_tgrl (fst (sstep o p)) = match p with STgrl t => t | SFn (FnName g) => t_grl_of g | _ => o_tgrl o end.
  Proof. frame_tac. Qed.

  (* ---- last write wins, for any attribute with a one-step characterisation of that form ---- *)
  Section LastWrite.
    Variable T : Type.
    Variable get : @obj A -> T.
    Variable writes : @sop A -> option T.
    Hypothesis step_spec : forall o p,
      get (fst (sstep o p)) = match writes p with Some v => v | None => get o end.

    Lemma untouched_run : forall ps o, Forall (fun q => writes q = None) ps -> get (fst (srun o ps)) = get o.
    Proof.
      induction ps as [|p t IH]; intros o Hf; cbn [srun]; [reflexivity|].
      inversion Hf as [|? ? Hp Ht]; subst.
      pose proof (step_spec o p) as S. rewrite Hp in S.
      destruct (sstep o p) as [o1 [e|]]; cbn [fst] in *; [exact S|].
      rewrite IH by exact Ht. exact S.
    Qed.

    Lemma last_write_run : forall o ps1 p v ps2, writes p = Some v -> Forall (fun q => writes q = None) ps2 ->
      snd (srun o (ps1 ++ p :: ps2)) = None -> get (fst (srun o (ps1 ++ p :: ps2))) = v.
    Proof.
      intros o ps1 p v ps2 Hp Hf E.
      apply srun_app_ok in E as [E1 E2]. rewrite E2 in *. clear E2.
      set (o1 := fst (srun o ps1)) in *.
      pose proof (step_spec o1 p) as S. rewrite Hp in S.
      cbn [srun]. destruct (sstep o1 p) as [o2 [e|]]; cbn [fst] in *; [exact S|].
      rewrite untouched_run by exact Hf. exact S.
    Qed.

    Lemma last_write_wins :
      (forall o ps, Forall (fun q => writes q = None) ps -> get (fst (srun o ps)) = get o) /\
      (forall o ps ps1 p v ps2, ps = ps1 ++ p :: ps2 -> writes p = Some v ->
         Forall (fun q => writes q = None) ps2 -> snd (srun o ps) = None -> get (fst (srun o ps)) = v).
    Proof.
      split; [intros o ps; apply untouched_run|]. intros o ps ps1 p v ps2 ->. apply last_write_run.
    Qed.
  End LastWrite.

  Ltac lww_tac get writes frame :=
    apply (last_write_wins _ get writes); let o := fresh "o" in let p := fresh "p" in
    intros o p; rewrite frame; destruct p; try reflexivity;
    match goal with f : flagv |- _ => destruct f | f : fnv |- _ => destruct f end; reflexivity.

  Lemma lww_rmin :
    (forall (o : @obj A) ps, Forall (fun q => writes_rmin q = None) ps -> st_rmin (o_st (fst (srun o ps))) = st_rmin (o_st o)) /\
    (forall (o : @obj A) ps ps1 p v ps2, ps = ps1 ++ p :: ps2 -> writes_rmin p = Some v ->
       Forall (fun q => writes_rmin q = None) ps2 -> snd (srun o ps) = None -> st_rmin (o_st (fst (srun o ps))) = v).
  Proof. lww_tac (fun o : @obj A => st_rmin (o_st o)) (@writes_rmin A) frame_rmin. Qed.
  Lemma lww_rmax :
    (forall (o : @obj A) ps, Forall (fun q => writes_rmax q = None) ps -> st_rmax (o_st (fst (srun o ps))) = st_rmax (o_st o)) /\
    (forall (o : @obj A) ps ps1 p v ps2, ps = ps1 ++ p :: ps2 -> writes_rmax p = Some v ->
       Forall (fun q => writes_rmax q = None) ps2 -> snd (srun o ps) = None -> st_rmax (o_st (fst (srun o ps))) = v).
  Proof. lww_tac (fun o : @obj A => st_rmax (o_st o)) (@writes_rmax A) frame_rmax. Qed.
  Lemma lww_rdelta :
    (forall (o : @obj A) ps, Forall (fun q => writes_rdelta q = None) ps -> st_rdelta (o_st (fst (srun o ps))) = st_rdelta (o_st o)) /\
    (forall (o : @obj A) ps ps1 p v ps2, ps = ps1 ++ p :: ps2 -> writes_rdelta p = Some v ->
       Forall (fun q => writes_rdelta q = None) ps2 -> snd (srun o ps) = None -> st_rdelta (o_st (fst (srun o ps))) = v).
  Proof. lww_tac (fun o : @obj A => st_rdelta (o_st o)) (@writes_rdelta A) frame_rdelta. Qed.
  Lemma lww_rho :
    (forall (o : @obj A) ps, Forall (fun q => writes_rho q = None) ps -> st_rho (o_st (fst (srun o ps))) = st_rho (o_st o)) /\
    (forall (o : @obj A) ps ps1 p v ps2, ps = ps1 ++ p :: ps2 -> writes_rho p = Some v ->
       Forall (fun q => writes_rho q = None) ps2 -> snd (srun o ps) = None -> st_rho (o_st (fst (srun o ps))) = v).
  Proof. lww_tac (fun o : @obj A => st_rho (o_st o)) (@writes_rho A) frame_rho. Qed.
  Lemma lww_bcoh :
    (forall (o : @obj A) ps, Forall (fun q => writes_bcoh q = None) ps -> st_bcoh (o_st (fst (srun o ps))) = st_bcoh (o_st o)) /\
    (forall (o : @obj A) ps ps1 p v ps2, ps = ps1 ++ p :: ps2 -> writes_bcoh p = Some v ->
       Forall (fun q => writes_bcoh q = None) ps2 -> snd (srun o ps) = None -> st_bcoh (o_st (fst (srun o ps))) = v).
  Proof. lww_tac (fun o : @obj A => st_bcoh (o_st o)) (@writes_bcoh A) frame_bcoh. Qed.
  Lemma lww_btot :
    (forall (o : @obj A) ps, Forall (fun q => writes_btot q = None) ps -> st_btot (o_st (fst (srun o ps))) = st_btot (o_st o)) /\
    (forall (o : @obj A) ps ps1 p v ps2, ps = ps1 ++ p :: ps2 -> writes_btot p = Some v ->
       Forall (fun q => writes_btot q = None) ps2 -> snd (srun o ps) = None -> st_btot (o_st (fst (srun o ps))) = v).
  Proof. lww_tac (fun o : @obj A => st_btot (o_st o)) (@writes_btot A) frame_btot. Qed.
  Lemma lww_lowq :
    (forall (o : @obj A) ps, Forall (fun q => writes_lowq q = None) ps -> st_lowq (o_st (fst (srun o ps))) = st_lowq (o_st o)) /\
    (forall (o : @obj A) ps ps1 p v ps2, ps = ps1 ++ p :: ps2 -> writes_lowq p = Some v ->
       Forall (fun q => writes_lowq q = None) ps2 -> snd (srun o ps) = None -> st_lowq (o_st (fst (srun o ps))) = v).
  Proof. lww_tac (fun o : @obj A => st_lowq (o_st o)) (@writes_lowq A) frame_lowq. Qed.
  Lemma lww_lorch :
    (forall (o : @obj A) ps, Forall (fun q => writes_lorch q = None) ps -> st_lorch (o_st (fst (srun o ps))) = st_lorch (o_st o)) /\
    (forall (o : @obj A) ps ps1 p v ps2, ps = ps1 ++ p :: ps2 -> writes_lorch p = Some v ->
       Forall (fun q => writes_lorch q = None) ps2 -> snd (srun o ps) = None -> st_lorch (o_st (fst (srun o ps))) = v).
  Proof. lww_tac (fun o : @obj A => st_lorch (o_st o)) (@writes_lorch A) frame_lorch. Qed.
  Lemma lww_cutoff :
    (forall (o : @obj A) ps, Forall (fun q => writes_cutoff q = None) ps -> st_cutoff (o_st (fst (srun o ps))) = st_cutoff (o_st o)) /\
    (forall (o : @obj A) ps ps1 p v ps2, ps = ps1 ++ p :: ps2 -> writes_cutoff p = Some v ->
       Forall (fun q => writes_cutoff q = None) ps2 -> snd (srun o ps) = None -> st_cutoff (o_st (fst (srun o ps))) = v).
  Proof. lww_tac (fun o : @obj A => st_cutoff (o_st o)) (@writes_cutoff A) frame_cutoff. Qed.
  Lemma lww_merge :
    (forall (o : @obj A) ps, Forall (fun q => writes_merge q = None) ps -> st_merge (o_st (fst (srun o ps))) = st_merge (o_st o)) /\
    (forall (o : @obj A) ps ps1 p v ps2, ps = ps1 ++ p :: ps2 -> writes_merge p = Some v ->
       Forall (fun q => writes_merge q = None) ps2 -> snd (srun o ps) = None -> st_merge (o_st (fst (srun o ps))) = v).
  Proof. lww_tac (fun o : @obj A => st_merge (o_st o)) (@writes_merge A) frame_merge. Qed.
  Lemma lww_qmin :
    (forall (o : @obj A) ps, Forall (fun q => writes_qmin q = None) ps -> st_qmin (o_st (fst (srun o ps))) = st_qmin (o_st o)) /\
    (forall (o : @obj A) ps ps1 p v ps2, ps = ps1 ++ p :: ps2 -> writes_qmin p = Some v ->
       Forall (fun q => writes_qmin q = None) ps2 -> snd (srun o ps) = None -> st_qmin (o_st (fst (srun o ps))) = v).
  Proof. lww_tac (fun o : @obj A => st_qmin (o_st o)) (@writes_qmin A) frame_qmin. Qed.
  Lemma lww_qmax :
    (forall (o : @obj A) ps, Forall (fun q => writes_qmax q = None) ps -> st_qmax (o_st (fst (srun o ps))) = st_qmax (o_st o)) /\
    (forall (o : @obj A) ps ps1 p v ps2, ps = ps1 ++ p :: ps2 -> writes_qmax p = Some v ->
       Forall (fun q => writes_qmax q = None) ps2 -> snd (srun o ps) = None -> st_qmax (o_st (fst (srun o ps))) = v).
  Proof. lww_tac (fun o : @obj A => st_qmax (o_st o)) (@writes_qmax A) frame_qmax. Qed.
  Lemma lww_fn :
    (forall (o : @obj A) ps, Forall (fun q => writes_fn q = None) ps -> st_fn (o_st (fst (srun o ps))) = st_fn (o_st o)) /\
    (forall (o : @obj A) ps ps1 p v ps2, ps = ps1 ++ p :: ps2 -> writes_fn p = Some v ->
       Forall (fun q => writes_fn q = None) ps2 -> snd (srun o ps) = None -> st_fn (o_st (fst (srun o ps))) = v).
  Proof. lww_tac (fun o : @obj A => st_fn (o_st o)) (@writes_fn A) frame_fn. Qed.
  Lemma lww_stem :
    (forall (o : @obj A) ps, Forall (fun q => writes_stem q = None) ps -> o_stem (fst (srun o ps)) = o_stem o) /\
    (forall (o : @obj A) ps ps1 p v ps2, ps = ps1 ++ p :: ps2 -> writes_stem p = Some v ->
       Forall (fun q => writes_stem q = None) ps2 -> snd (srun o ps) = None -> o_stem (fst (srun o ps)) = v).
  Proof. lww_tac (@o_stem A) (@writes_stem A) frame_stem. Qed.
  Lemma lww_xmin :
    (forall (o : @obj A) ps, Forall (fun q => writes_xmin q = None) ps -> o_xmin (fst (srun o ps)) = o_xmin o) /\
    (forall (o : @obj A) ps ps1 p v ps2, ps = ps1 ++ p :: ps2 -> writes_xmin p = Some v ->
       Forall (fun q => writes_xmin q = None) ps2 -> snd (srun o ps) = None -> o_xmin (fst (srun o ps)) = v).
  Proof. lww_tac (@o_xmin A) (@writes_xmin A) frame_xmin. Qed.
  Lemma lww_xmax :
    (forall (o : @obj A) ps, Forall (fun q => writes_xmax q = None) ps -> o_xmax (fst (srun o ps)) = o_xmax o) /\
    (forall (o : @obj A) ps ps1 p v ps2, ps = ps1 ++ p :: ps2 -> writes_xmax p = Some v ->
       Forall (fun q => writes_xmax q = None) ps2 -> snd (srun o ps) = None -> o_xmax (fst (srun o ps)) = v).
  Proof. lww_tac (@o_xmax A) (@writes_xmax A) frame_xmax. Qed.

  (* ---------------------------------------------------------------- *)
  (* e. calls that write different attributes commute                  *)
  (* ---------------------------------------------------------------- *)
  Lemma set_nth_comm : forall l i j v w, i <> j ->
    set_nth (set_nth l i v) j w = set_nth (set_nth l j w) i v.
  Proof.
    induction l as [|h t IH]; intros i j v w Hij; [destruct i, j; reflexivity|].
    destruct i, j; cbn; try reflexivity; [congruence|].
    f_equal. apply IH. congruence.
  Qed.

  Lemma set_nth_idem : forall l i v, set_nth (set_nth l i v) i v = set_nth l i v.
  Proof.
    induction l as [|h t IH]; intros i v; [destruct i; reflexivity|].
    destruct i; cbn; [reflexivity|]. f_equal. apply IH.
  Qed.

  Ltac split_flags :=
    repeat match goal with f : flagv |- _ => destruct f | f : fnv |- _ => destruct f end.

  Lemma independent_commute : forall (o : @obj A) p q, independent p q = true ->
    fst (sstep (fst (sstep o p)) q) = fst (sstep (fst (sstep o q)) p).
  Proof.
    intros o p q Hind.
    destruct p; destruct q; try discriminate Hind;
      try (split_flags; cbn; try reflexivity; destruct (o_files o); reflexivity).
    (* two fixed-title slots *)
    unfold independent in Hind. cbn in Hind. rewrite !andb_true_r in Hind. apply negb_true_iff in Hind.
    apply Nat.eqb_neq in Hind. cbn. unfold o_with_tfix; cbn. f_equal. apply set_nth_comm. exact Hind.
  Qed.

  (* ... and whether a call raises is not affected by an independent call before it *)
  Lemma independent_same_error : forall (o : @obj A) p q, independent p q = true ->
    snd (sstep (fst (sstep o p)) q) = snd (sstep o q).
  Proof.
    intros o p q Hind.
    destruct p; destruct q; try discriminate Hind;
      split_flags; cbn; try reflexivity; destruct (o_files o); reflexivity.
  Qed.

  (* in particular the three grid setters commute with each other: dr is recomputed from the final values *)
  Lemma grid_setters_commute : forall (o : @obj A) a b d,
    fst (sstep (fst (sstep o (SRmin a))) (SRmax b)) = fst (sstep (fst (sstep o (SRmax b))) (SRmin a)) /\
    fst (sstep (fst (sstep o (SRmin a))) (SRdelta d)) = fst (sstep (fst (sstep o (SRdelta d))) (SRmin a)) /\
    fst (sstep (fst (sstep o (SRmax b))) (SRdelta d)) = fst (sstep (fst (sstep o (SRdelta d))) (SRmax b)).
  Proof. intros. split; [|split]; apply independent_commute; reflexivity. Qed.

  (* the excluded pairs really do not commute *)
  Lemma dr_vs_grid_op_do_not_commute : forall o : @obj A, grid_ok o ->
    ~ (fst (sstep (fst (sstep o (SDr []))) (SRmin (st_rmin (o_st o)))) =
       fst (sstep (fst (sstep o (SRmin (st_rmin (o_st o))))) (SDr [])) /\
       fst (sstep (fst (sstep o (SDr [zero]))) (SRmin (st_rmin (o_st o)))) =
       fst (sstep (fst (sstep o (SRmin (st_rmin (o_st o))))) (SDr [zero]))).
  Proof.
    intros o G [E1 E2]. apply (f_equal o_dr) in E1. apply (f_equal o_dr) in E2. cbn in E1, E2.
    rewrite E1 in E2. discriminate.
  Qed.

  Lemma fn_vs_title_op_do_not_commute : forall (o : @obj A) g,
    fst (sstep (fst (sstep o (SFn (FnName g)))) (STgr 7)) <> fst (sstep (fst (sstep o (STgr 7))) (SFn (FnName g))).
  Proof. intros o g E. apply (f_equal o_tgr) in E. cbn in E. destruct g; discriminate. Qed.

  Lemma same_field_do_not_commute : forall o : @obj A,
    fst (sstep (fst (sstep o (SStem 1))) (SStem 2)) <> fst (sstep (fst (sstep o (SStem 2))) (SStem 1)).
  Proof. intros o E. apply (f_equal o_stem) in E. discriminate. Qed.

  Lemma file_ops_do_not_commute : forall o : @obj A,
    fst (sstep (fst (sstep o (SFiles (Some [])))) (SAppend 1)) <> fst (sstep (fst (sstep o (SAppend 1))) (SFiles (Some []))).
  Proof. intros o E. apply (f_equal o_files) in E. cbn in E. destruct (o_files o); discriminate. Qed.

  (* ---------------------------------------------------------------- *)
  (* f. idempotence                                                    *)
  (* ---------------------------------------------------------------- *)
  Lemma setter_idempotent_strong : forall (o : @obj A) p, is_accumulating p = false ->
    sstep (fst (sstep o p)) p = sstep o p.
  Proof.
    intros o p Hp. destruct p; try discriminate Hp; split_flags; cbn; try reflexivity.
    unfold o_with_tfix; cbn. rewrite set_nth_idem. reflexivity.
  Qed.

  Lemma setter_idempotent : forall (o : @obj A) p, snd (sstep o p) = None -> is_accumulating p = false ->
    sstep (fst (sstep o p)) p = sstep o p.
  Proof. intros o p _. apply setter_idempotent_strong. Qed.

  (* the two accumulating calls are not idempotent *)
  Lemma append_not_idempotent : forall (o : @obj A) l f, o_files o = Some l ->
    snd (sstep o (SAppend f)) = None /\ sstep (fst (sstep o (SAppend f))) (SAppend f) <> sstep o (SAppend f).
  Proof.
    intros o l f E. cbn. rewrite E. cbn. split; [reflexivity|]. intros K.
    apply (f_equal (fun r => o_files (fst r))) in K. cbn in K. injection K as K.
    apply (f_equal (@length nat)) in K. rewrite !app_length in K. cbn in K. lia.
  Qed.
End Generic.
