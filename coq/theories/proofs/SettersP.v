(* SettersP.v -- proofs about the StoG object as a state machine over its public setters
   (SettersM.v): errors leave the object untouched, the r-grid and title invariants, the
   frame / last-write-wins characterisation of every attribute, commutation of calls that
   write different attributes, idempotence, and the constructor (__kwargs2attr) as a setter
   script that agrees with ConfigM.kwargs2attr.
   Every statement holds for every carrier (A, Num A); no property of numbers is used. *)
From Coq Require Import List ZArith Bool Arith Lia.
From PyStoG Require Import Num ConverterM StogM ConfigM SettersM.
Import ListNotations.

(* ------------------------------------------------------------------ *)
(* Definitions needed to state the theorems                            *)
(* ------------------------------------------------------------------ *)
Section Defs.
  Context {A : Type} `{Num A}.

  (* the calls that append to the file list instead of overwriting an attribute *)
  Definition is_accumulating (p : @sop A) : bool :=
    match p with SAppend _ | SExtend _ => true | _ => false end.

  (* the value a call writes to one scalar setting (None: the call does not write it) *)
  Definition writes_rmin (p : @sop A) : option A := match p with SRmin v => Some v | _ => None end.
  Definition writes_rmax (p : @sop A) : option A := match p with SRmax v => Some v | _ => None end.
  Definition writes_rdelta (p : @sop A) : option A := match p with SRdelta v => Some v | _ => None end.
  Definition writes_rho (p : @sop A) : option A := match p with SRho v => Some v | _ => None end.
  Definition writes_bcoh (p : @sop A) : option A := match p with SBcoh v => Some v | _ => None end.
  Definition writes_btot (p : @sop A) : option A := match p with SBtot v => Some v | _ => None end.
  Definition writes_lowq (p : @sop A) : option bool := match p with SLowq (FlagBool b) => Some b | _ => None end.
  Definition writes_lorch (p : @sop A) : option bool := match p with SLorch (FlagBool b) => Some b | _ => None end.
  Definition writes_cutoff (p : @sop A) : option (option A) := match p with SCutoff c => Some c | _ => None end.
  Definition writes_merge (p : @sop A) : option (@mopts A) := match p with SMerge m => Some m | _ => None end.
  Definition writes_qmin (p : @sop A) : option (option A) := match p with SQmin q => Some q | _ => None end.
  Definition writes_qmax (p : @sop A) : option (option A) := match p with SQmax q => Some q | _ => None end.
  Definition writes_fn (p : @sop A) : option gfun := match p with SFn (FnName g) => Some g | _ => None end.
  Definition writes_stem (p : @sop A) : option nat := match p with SStem n => Some n | _ => None end.
  Definition writes_xmin (p : @sop A) : option A := match p with SXmin v => Some v | _ => None end.
  Definition writes_xmax (p : @sop A) : option A := match p with SXmax v => Some v | _ => None end.

  (* the attribute a call is aimed at, as a code.  Rmin / Rmax / Rdelta have different codes but all three
     also refresh dr; SFn also rewrites the three derived titles; the three file-list calls share a code;
     each fixed-title slot is its own attribute. *)
  Definition target (p : @sop A) : nat :=
    match p with
    | SRmin _ => 0 | SRmax _ => 1 | SRdelta _ => 2 | SDr _ => 3
    | SRho _ => 4 | SBcoh _ => 5 | SBtot _ => 6
    | SLowq _ => 7 | SLorch _ => 8 | SCutoff _ => 9
    | SMerge _ => 10 | SQmin _ => 11 | SQmax _ => 12
    | SFn _ => 13
    | STgr _ => 14 | STgrft _ => 15 | STgrl _ => 16
    | SFiles _ | SAppend _ | SExtend _ => 17
    | SStem _ => 18 | SXmin _ => 19 | SXmax _ => 20
    | STfix slot _ => 100 + slot
    end.
  Definition is_fn_op (p : @sop A) : bool := match p with SFn _ => true | _ => false end.

  (* p and q write disjoint attributes: different targets, and not (dr setter vs grid setter),
     and not (real_space_function setter vs one of the three derived-title setters) *)
  Definition independent (p q : @sop A) : bool :=
    negb (target p =? target q)
    && negb (is_dr_op p && is_grid_op q) && negb (is_grid_op p && is_dr_op q)
    && negb (is_fn_op p && is_title_op q) && negb (is_title_op p && is_fn_op q).

  (* the object a fresh StoG with settings s is: the settings, their r grid, the titles derived from the
     function name, and the initial values of everything __kwargs2attr does not touch *)
  Definition obj_of (s : @settings A) : @obj A :=
    {| o_st := s; o_dr := rgrid s;
       o_tgr := t_gr_of (st_fn s); o_tgrft := t_grft_of (st_fn s); o_tgrl := t_grl_of (st_fn s);
       o_tfix := fixed_titles; o_files := None; o_stem := 0;
       o_xmin := of_Z 100; o_xmax := zero |}.
End Defs.

Local Arguments rgrid : simpl never.

Section Generic.
  Context {A : Type} `{Num A}.
  Local Open Scope num_scope.

  (* ---------------------------------------------------------------- *)
  (* scripts                                                           *)
  (* ---------------------------------------------------------------- *)
  Lemma srun_app : forall (ps1 ps2 : list (@sop A)) o,
    srun o (ps1 ++ ps2) = match srun o ps1 with (o', None) => srun o' ps2 | r => r end.
  Proof.
    induction ps1 as [|p t IH]; intros ps2 o; cbn [app srun]; [reflexivity|].
    destruct (sstep o p) as [o1 [e|]]; [reflexivity | apply IH].
  Qed.

  Lemma srun_app_ok : forall (ps1 ps2 : list (@sop A)) o,
    snd (srun o (ps1 ++ ps2)) = None ->
    snd (srun o ps1) = None /\ srun o (ps1 ++ ps2) = srun (fst (srun o ps1)) ps2.
  Proof.
    intros ps1 ps2 o. rewrite srun_app. destruct (srun o ps1) as [o1 [e|]]; cbn; [discriminate | auto].
  Qed.

  Lemma srun_cons_ok : forall (p : @sop A) ps o,
    snd (srun o (p :: ps)) = None ->
    snd (sstep o p) = None /\ srun o (p :: ps) = srun (fst (sstep o p)) ps.
  Proof.
    intros p ps o. cbn [srun]. destruct (sstep o p) as [o1 [e|]]; cbn; [discriminate | auto].
  Qed.

  (* ---------------------------------------------------------------- *)
  (* a. a call that raises leaves the object as it was                 *)
  (* ---------------------------------------------------------------- *)
  Lemma error_keeps_state : forall (o : @obj A) p e, snd (sstep o p) = Some e -> fst (sstep o p) = o.
  Proof.
    intros o p e. destruct p; cbn; try discriminate;
      try (destruct f; cbn; try discriminate; reflexivity);
      destruct (o_files o); cbn; try discriminate; reflexivity.
  Qed.

  Lemma srun_error_prefix : forall (ps : list (@sop A)) o o' e, srun o ps = (o', Some e) ->
    exists ps1 p ps2, ps = ps1 ++ p :: ps2 /\ srun o ps1 = (o', None) /\ snd (sstep o' p) = Some e.
  Proof.
    induction ps as [|p t IH]; intros o o' e E; cbn [srun] in E; [discriminate|].
    destruct (sstep o p) as [o1 [e1|]] eqn:Es.
    - injection E as <- <-.
      pose proof (error_keeps_state o p e1) as K. rewrite Es in K. cbn in K. specialize (K eq_refl). subst o1.
      exists [], p, t. split; [reflexivity|]. split; [reflexivity|]. rewrite Es. reflexivity.
    - destruct (IH _ _ _ E) as (ps1 & q & ps2 & -> & E1 & E2).
      exists (p :: ps1), q, ps2. split; [reflexivity|]. split; [|exact E2].
      cbn [srun]. rewrite Es. exact E1.
  Qed.

  (* ---------------------------------------------------------------- *)
  (* b. the stored r grid is the grid of the stored rmin/rmax/rdelta    *)
  (* ---------------------------------------------------------------- *)
  Lemma rgrid_only_reads_limits : forall s s' : @settings A,
    st_rmin s = st_rmin s' -> st_rmax s = st_rmax s' -> st_rdelta s = st_rdelta s' -> rgrid s = rgrid s'.
  Proof. intros s s' E1 E2 E3. unfold rgrid. rewrite E1, E2, E3. reflexivity. Qed.

  Lemma grid_ok_init : grid_ok (@obj_init A _).
  Proof. reflexivity. Qed.

  Lemma grid_ok_step : forall (o : @obj A) p, grid_ok o -> is_dr_op p = false -> grid_ok (fst (sstep o p)).
  Proof.
    unfold grid_ok. intros o p G Hp.
    destruct p; try discriminate Hp; cbn; try reflexivity;
      try (rewrite G; apply rgrid_only_reads_limits; reflexivity);
      try (destruct f; cbn; rewrite G; apply rgrid_only_reads_limits; reflexivity);
      destruct (o_files o); cbn; rewrite G; apply rgrid_only_reads_limits; reflexivity.
  Qed.

  Lemma grid_ok_run : forall (ps : list (@sop A)) o, grid_ok o ->
    forallb (fun p => negb (is_dr_op p)) ps = true -> grid_ok (fst (srun o ps)).
  Proof.
    induction ps as [|p t IH]; intros o G Hf; cbn [srun]; [exact G|].
    cbn [forallb] in Hf. apply andb_true_iff in Hf as [Hp Ht]. apply negb_true_iff in Hp.
    pose proof (grid_ok_step o p G Hp) as G1.
    destruct (sstep o p) as [o1 [e|]]; cbn [fst] in *; [exact G1 | apply IH; assumption].
  Qed.

  (* the Rmin / Rmax / Rdelta setters re-establish it from any state *)
  Lemma grid_ok_restored : forall (o : @obj A) p, is_grid_op p = true -> grid_ok (fst (sstep o p)).
  Proof. intros o p Hp. destruct p; try discriminate Hp; reflexivity. Qed.

  Lemma grid_op_never_raises : forall (o : @obj A) p, is_grid_op p = true -> snd (sstep o p) = None.
  Proof. intros o p Hp. destruct p; try discriminate Hp; reflexivity. Qed.

  (* the last call touching dr is a grid setter: only the calls before it have to succeed *)
  Lemma grid_ok_last_grid_op_strong : forall (o : @obj A) ps1 p ps2,
    is_grid_op p = true -> forallb (fun q => negb (is_dr_op q)) ps2 = true ->
    snd (srun o ps1) = None -> grid_ok (fst (srun o (ps1 ++ p :: ps2))).
  Proof.
    intros o ps1 p ps2 Hp Hf E1. rewrite srun_app.
    destruct (srun o ps1) as [o1 [e|]]; [discriminate|]. cbn [srun].
    pose proof (grid_ok_restored o1 p Hp) as G. pose proof (grid_op_never_raises o1 p Hp) as N.
    destruct (sstep o1 p) as [o2 [e|]]; cbn [fst snd] in *; [discriminate|].
    apply grid_ok_run; assumption.
  Qed.

  Lemma grid_ok_last_grid_op : forall (o : @obj A) ps ps1 p ps2,
    ps = ps1 ++ p :: ps2 -> is_grid_op p = true -> forallb (fun q => negb (is_dr_op q)) ps2 = true ->
    snd (srun o ps) = None -> grid_ok (fst (srun o ps)).
  Proof.
    intros o ps ps1 p ps2 -> Hp Hf E.
    apply grid_ok_last_grid_op_strong; try assumption.
    apply srun_app_ok in E. tauto.
  Qed.

  (* the invariant is not trivially true: the dr setter can break it (two different grids cannot both be right) *)
  Lemma grid_ok_broken_by_dr : forall o : @obj A,
    ~ (grid_ok (fst (sstep o (SDr []))) /\ grid_ok (fst (sstep o (SDr [zero])))).
  Proof. unfold grid_ok. cbn. intros o [E1 E2]. rewrite <- E1 in E2. discriminate. Qed.

  (* ---------------------------------------------------------------- *)
  (* c. the three derived titles follow the function name              *)
  (* ---------------------------------------------------------------- *)
  Lemma titles_ok_init : titles_ok (@obj_init A _).
  Proof. repeat split; reflexivity. Qed.

  Lemma titles_ok_step : forall (o : @obj A) p, titles_ok o -> is_title_op p = false -> titles_ok (fst (sstep o p)).
  Proof.
    unfold titles_ok. intros o p T Hp.
    destruct p; try discriminate Hp; cbn; try exact T;
      try (destruct f; cbn; first [exact T | repeat split; reflexivity]);
      destruct (o_files o); cbn; exact T.
  Qed.

  Lemma titles_ok_run : forall (ps : list (@sop A)) o, titles_ok o ->
    forallb (fun p => negb (is_title_op p)) ps = true -> titles_ok (fst (srun o ps)).
  Proof.
    induction ps as [|p t IH]; intros o G Hf; cbn [srun]; [exact G|].
    cbn [forallb] in Hf. apply andb_true_iff in Hf as [Hp Ht]. apply negb_true_iff in Hp.
    pose proof (titles_ok_step o p G Hp) as G1.
    destruct (sstep o p) as [o1 [e|]]; cbn [fst] in *; [exact G1 | apply IH; assumption].
  Qed.

  Lemma titles_ok_restored : forall (o : @obj A) g, titles_ok (fst (sstep o (SFn (FnName g)))).
  Proof. intros o g. repeat split; reflexivity. Qed.

  Lemma titles_ok_last_fn : forall (o : @obj A) ps ps1 g ps2,
    ps = ps1 ++ SFn (FnName g) :: ps2 -> forallb (fun q => negb (is_title_op q)) ps2 = true ->
    snd (srun o ps) = None -> titles_ok (fst (srun o ps)).
  Proof.
    intros o ps ps1 g ps2 -> Hf E.
    apply srun_app_ok in E as [E1 E2]. rewrite E2. cbn [srun sstep].
    apply titles_ok_run; [apply titles_ok_restored with (g := g) | exact Hf].
  Qed.

  (* not trivially true: a title setter breaks it (7 is not the code of a derived title) *)
  Lemma titles_ok_broken_by_title_op : forall o : @obj A, ~ titles_ok (fst (sstep o (STgr 7))).
  Proof. unfold titles_ok. cbn. intros o [E _]. destruct (st_fn (o_st o)); discriminate. Qed.

  (* ---------------------------------------------------------------- *)
  (* d. frame: what one call does to each attribute                    *)
  (* ---------------------------------------------------------------- *)
  Ltac frame_tac :=
    let o := fresh "o" in let p := fresh "p" in
    intros o p; destruct p; cbn; try reflexivity;
      try (match goal with f : flagv |- _ => destruct f | f : fnv |- _ => destruct f end; reflexivity);
      let E := fresh "E" in destruct (o_files o) eqn:E; cbn; first [reflexivity | exact E].

  Lemma frame_rmin : forall (o : @obj A) p,
    st_rmin (o_st (fst (sstep o p))) = match p with SRmin v => v | _ => st_rmin (o_st o) end.
  Proof. frame_tac. Qed.
  Lemma frame_rmax : forall (o : @obj A) p,
    st_rmax (o_st (fst (sstep o p))) = match p with SRmax v => v | _ => st_rmax (o_st o) end.
  Proof. frame_tac. Qed.
  Lemma frame_rdelta : forall (o : @obj A) p,
    st_rdelta (o_st (fst (sstep o p))) = match p with SRdelta v => v | _ => st_rdelta (o_st o) end.
  Proof. frame_tac. Qed.
  Lemma frame_rho : forall (o : @obj A) p,
    st_rho (o_st (fst (sstep o p))) = match p with SRho v => v | _ => st_rho (o_st o) end.
  Proof. frame_tac. Qed.
  Lemma frame_bcoh : forall (o : @obj A) p,
    st_bcoh (o_st (fst (sstep o p))) = match p with SBcoh v => v | _ => st_bcoh (o_st o) end.
  Proof. frame_tac. Qed.
  Lemma frame_btot : forall (o : @obj A) p,
    st_btot (o_st (fst (sstep o p))) = match p with SBtot v => v | _ => st_btot (o_st o) end.
  Proof. frame_tac. Qed.
  Lemma frame_lowq : forall (o : @obj A) p,
    st_lowq (o_st (fst (sstep o p))) = match p with SLowq (FlagBool b) => b | _ => st_lowq (o_st o) end.
  Proof. frame_tac. Qed.
  Lemma frame_lorch : forall (o : @obj A) p,
    st_lorch (o_st (fst (sstep o p))) = match p with SLorch (FlagBool b) => b | _ => st_lorch (o_st o) end.
  Proof. frame_tac. Qed.
  Lemma frame_cutoff : forall (o : @obj A) p,
    st_cutoff (o_st (fst (sstep o p))) = match p with SCutoff c => c | _ => st_cutoff (o_st o) end.
  Proof. frame_tac. Qed.
  Lemma frame_merge : forall (o : @obj A) p,
    st_merge (o_st (fst (sstep o p))) = match p with SMerge m => m | _ => st_merge (o_st o) end.
  Proof. frame_tac. Qed.
  Lemma frame_qmin : forall (o : @obj A) p,
    st_qmin (o_st (fst (sstep o p))) = match p with SQmin q => q | _ => st_qmin (o_st o) end.
  Proof. frame_tac. Qed.
  Lemma frame_qmax : forall (o : @obj A) p,
    st_qmax (o_st (fst (sstep o p))) = match p with SQmax q => q | _ => st_qmax (o_st o) end.
  Proof. frame_tac. Qed.
  Lemma frame_fn : forall (o : @obj A) p,
    st_fn (o_st (fst (sstep o p))) = match p with SFn (FnName g) => g | _ => st_fn (o_st o) end.
  Proof. frame_tac. Qed.
  Lemma frame_stem : forall (o : @obj A) p,
    o_stem (fst (sstep o p)) = match p with SStem n => n | _ => o_stem o end.
  Proof. frame_tac. Qed.
  Lemma frame_xmin : forall (o : @obj A) p,
    o_xmin (fst (sstep o p)) = match p with SXmin v => v | _ => o_xmin o end.
  Proof. frame_tac. Qed.
  Lemma frame_xmax : forall (o : @obj A) p,
    o_xmax (fst (sstep o p)) = match p with SXmax v => v | _ => o_xmax o end.
  Proof. frame_tac. Qed.

  Lemma frame_tfix : forall (o : @obj A) p,
    o_tfix (fst (sstep o p)) = match p with STfix slot t => set_nth (o_tfix o) slot t | _ => o_tfix o end.
  Proof. frame_tac. Qed.
  Lemma frame_files : forall (o : @obj A) p,
    o_files (fst (sstep o p)) =
      match p with
      | SFiles l => l
      | SAppend f => match o_files o with Some l => Some (l ++ [f]) | None => None end
      | SExtend l' => match o_files o with Some l => Some (l ++ l') | None => None end
      | _ => o_files o
      end.
  Proof. frame_tac. Qed.
  (* the stored grid: written by its own setter, recomputed (from the values stored after the call) by the
     three grid setters, otherwise kept *)
  Lemma frame_dr : forall (o : @obj A) p,
    o_dr (fst (sstep o p)) =
      match p with
      | SDr l => l
      | SRmin _ | SRmax _ | SRdelta _ => rgrid (o_st (fst (sstep o p)))
      | _ => o_dr o
      end.
  Proof. frame_tac. Qed.
  (* the derived titles: written by their own setters, re-derived by the function-name setter *)
  Lemma frame_tgr : forall (o : @obj A) p,
    o_tgr (fst (sstep o p)) = match p with STgr t => t | SFn (FnName g) => t_gr_of g | _ => o_tgr o end.
  Proof. frame_tac. Qed.
  Lemma frame_tgrft : forall (o : @obj A) p,
    o_tgrft (fst (sstep o p)) = match p with STgrft t => t | SFn (FnName g) => t_grft_of g | _ => o_tgrft o end.
  Proof. frame_tac. Qed.
  Lemma frame_tgrl : forall (o : @obj A) p,
    o_tgrl (fst (sstep o p)) = match p with STgrl t => t | SFn (FnName g) => t_grl_of g | _ => o_tgrl o end.
  Proof. frame_tac. Qed.

  (* ---- last write wins, for any attribute with a one-step characterisation of that form ---- *)
  Section LastWrite.
    Variable T : Type.
    Variable get : @obj A -> T.
    Variable writes : @sop A -> option T.
    Hypothesis step_spec : forall o p,
      get (fst (sstep o p)) = match writes p with Some v => v | None => get o end.

    Lemma untouched_run : forall ps o, Forall (fun q => writes q = None) ps -> get (fst (srun o ps)) = get o.
    Proof.
      induction ps as [|p t IH]; intros o Hf; cbn [srun]; [reflexivity|].
      inversion Hf as [|? ? Hp Ht]; subst.
      pose proof (step_spec o p) as S. rewrite Hp in S.
      destruct (sstep o p) as [o1 [e|]]; cbn [fst] in *; [exact S|].
      rewrite IH by exact Ht. exact S.
    Qed.

    Lemma last_write_run : forall o ps1 p v ps2, writes p = Some v -> Forall (fun q => writes q = None) ps2 ->
      snd (srun o (ps1 ++ p :: ps2)) = None -> get (fst (srun o (ps1 ++ p :: ps2))) = v.
    Proof.
      intros o ps1 p v ps2 Hp Hf E.
      apply srun_app_ok in E as [E1 E2]. rewrite E2 in *. clear E2.
      set (o1 := fst (srun o ps1)) in *.
      pose proof (step_spec o1 p) as S. rewrite Hp in S.
      cbn [srun]. destruct (sstep o1 p) as [o2 [e|]]; cbn [fst] in *; [exact S|].
      rewrite untouched_run by exact Hf. exact S.
    Qed.

    Lemma last_write_wins :
      (forall o ps, Forall (fun q => writes q = None) ps -> get (fst (srun o ps)) = get o) /\
      (forall o ps ps1 p v ps2, ps = ps1 ++ p :: ps2 -> writes p = Some v ->
         Forall (fun q => writes q = None) ps2 -> snd (srun o ps) = None -> get (fst (srun o ps)) = v).
    Proof.
      split; [intros o ps; apply untouched_run|]. intros o ps ps1 p v ps2 ->. apply last_write_run.
    Qed.
  End LastWrite.

  Ltac lww_tac get writes frame :=
    apply (last_write_wins _ get writes); let o := fresh "o" in let p := fresh "p" in
    intros o p; rewrite frame; destruct p; try reflexivity;
    match goal with f : flagv |- _ => destruct f | f : fnv |- _ => destruct f end; reflexivity.

  Lemma lww_rmin :
    (forall (o : @obj A) ps, Forall (fun q => writes_rmin q = None) ps -> st_rmin (o_st (fst (srun o ps))) = st_rmin (o_st o)) /\
    (forall (o : @obj A) ps ps1 p v ps2, ps = ps1 ++ p :: ps2 -> writes_rmin p = Some v ->
       Forall (fun q => writes_rmin q = None) ps2 -> snd (srun o ps) = None -> st_rmin (o_st (fst (srun o ps))) = v).
  Proof. lww_tac (fun o : @obj A => st_rmin (o_st o)) (@writes_rmin A) frame_rmin. Qed.
  Lemma lww_rmax :
    (forall (o : @obj A) ps, Forall (fun q => writes_rmax q = None) ps -> st_rmax (o_st (fst (srun o ps))) = st_rmax (o_st o)) /\
    (forall (o : @obj A) ps ps1 p v ps2, ps = ps1 ++ p :: ps2 -> writes_rmax p = Some v ->
       Forall (fun q => writes_rmax q = None) ps2 -> snd (srun o ps) = None -> st_rmax (o_st (fst (srun o ps))) = v).
  Proof. lww_tac (fun o : @obj A => st_rmax (o_st o)) (@writes_rmax A) frame_rmax. Qed.
  Lemma lww_rdelta :
    (forall (o : @obj A) ps, Forall (fun q => writes_rdelta q = None) ps -> st_rdelta (o_st (fst (srun o ps))) = st_rdelta (o_st o)) /\
    (forall (o : @obj A) ps ps1 p v ps2, ps = ps1 ++ p :: ps2 -> writes_rdelta p = Some v ->
       Forall (fun q => writes_rdelta q = None) ps2 -> snd (srun o ps) = None -> st_rdelta (o_st (fst (srun o ps))) = v).
  Proof. lww_tac (fun o : @obj A => st_rdelta (o_st o)) (@writes_rdelta A) frame_rdelta. Qed.
  Lemma lww_rho :
    (forall (o : @obj A) ps, Forall (fun q => writes_rho q = None) ps -> st_rho (o_st (fst (srun o ps))) = st_rho (o_st o)) /\
    (forall (o : @obj A) ps ps1 p v ps2, ps = ps1 ++ p :: ps2 -> writes_rho p = Some v ->
       Forall (fun q => writes_rho q = None) ps2 -> snd (srun o ps) = None -> st_rho (o_st (fst (srun o ps))) = v).
  Proof. lww_tac (fun o : @obj A => st_rho (o_st o)) (@writes_rho A) frame_rho. Qed.
  Lemma lww_bcoh :
    (forall (o : @obj A) ps, Forall (fun q => writes_bcoh q = None) ps -> st_bcoh (o_st (fst (srun o ps))) = st_bcoh (o_st o)) /\
    (forall (o : @obj A) ps ps1 p v ps2, ps = ps1 ++ p :: ps2 -> writes_bcoh p = Some v ->
       Forall (fun q => writes_bcoh q = None) ps2 -> snd (srun o ps) = None -> st_bcoh (o_st (fst (srun o ps))) = v).
  Proof. lww_tac (fun o : @obj A => st_bcoh (o_st o)) (@writes_bcoh A) frame_bcoh. Qed.
  Lemma lww_btot :
    (forall (o : @obj A) ps, Forall (fun q => writes_btot q = None) ps -> st_btot (o_st (fst (srun o ps))) = st_btot (o_st o)) /\
    (forall (o : @obj A) ps ps1 p v ps2, ps = ps1 ++ p :: ps2 -> writes_btot p = Some v ->
       Forall (fun q => writes_btot q = None) ps2 -> snd (srun o ps) = None -> st_btot (o_st (fst (srun o ps))) = v).
  Proof. lww_tac (fun o : @obj A => st_btot (o_st o)) (@writes_btot A) frame_btot. Qed.
  Lemma lww_lowq :
    (forall (o : @obj A) ps, Forall (fun q => writes_lowq q = None) ps -> st_lowq (o_st (fst (srun o ps))) = st_lowq (o_st o)) /\
    (forall (o : @obj A) ps ps1 p v ps2, ps = ps1 ++ p :: ps2 -> writes_lowq p = Some v ->
       Forall (fun q => writes_lowq q = None) ps2 -> snd (srun o ps) = None -> st_lowq (o_st (fst (srun o ps))) = v).
  Proof. lww_tac (fun o : @obj A => st_lowq (o_st o)) (@writes_lowq A) frame_lowq. Qed.
  Lemma lww_lorch :
    (forall (o : @obj A) ps, Forall (fun q => writes_lorch q = None) ps -> st_lorch (o_st (fst (srun o ps))) = st_lorch (o_st o)) /\
    (forall (o : @obj A) ps ps1 p v ps2, ps = ps1 ++ p :: ps2 -> writes_lorch p = Some v ->
       Forall (fun q => writes_lorch q = None) ps2 -> snd (srun o ps) = None -> st_lorch (o_st (fst (srun o ps))) = v).
  Proof. lww_tac (fun o : @obj A => st_lorch (o_st o)) (@writes_lorch A) frame_lorch. Qed.
  Lemma lww_cutoff :
    (forall (o : @obj A) ps, Forall (fun q => writes_cutoff q = None) ps -> st_cutoff (o_st (fst (srun o ps))) = st_cutoff (o_st o)) /\
    (forall (o : @obj A) ps ps1 p v ps2, ps = ps1 ++ p :: ps2 -> writes_cutoff p = Some v ->
       Forall (fun q => writes_cutoff q = None) ps2 -> snd (srun o ps) = None -> st_cutoff (o_st (fst (srun o ps))) = v).
  Proof. lww_tac (fun o : @obj A => st_cutoff (o_st o)) (@writes_cutoff A) frame_cutoff. Qed.
  Lemma lww_merge :
    (forall (o : @obj A) ps, Forall (fun q => writes_merge q = None) ps -> st_merge (o_st (fst (srun o ps))) = st_merge (o_st o)) /\
    (forall (o : @obj A) ps ps1 p v ps2, ps = ps1 ++ p :: ps2 -> writes_merge p = Some v ->
       Forall (fun q => writes_merge q = None) ps2 -> snd (srun o ps) = None -> st_merge (o_st (fst (srun o ps))) = v).
  Proof. lww_tac (fun o : @obj A => st_merge (o_st o)) (@writes_merge A) frame_merge. Qed.
  Lemma lww_qmin :
    (forall (o : @obj A) ps, Forall (fun q => writes_qmin q = None) ps -> st_qmin (o_st (fst (srun o ps))) = st_qmin (o_st o)) /\
    (forall (o : @obj A) ps ps1 p v ps2, ps = ps1 ++ p :: ps2 -> writes_qmin p = Some v ->
       Forall (fun q => writes_qmin q = None) ps2 -> snd (srun o ps) = None -> st_qmin (o_st (fst (srun o ps))) = v).
  Proof. lww_tac (fun o : @obj A => st_qmin (o_st o)) (@writes_qmin A) frame_qmin. Qed.
  Lemma lww_qmax :
    (forall (o : @obj A) ps, Forall (fun q => writes_qmax q = None) ps -> st_qmax (o_st (fst (srun o ps))) = st_qmax (o_st o)) /\
    (forall (o : @obj A) ps ps1 p v ps2, ps = ps1 ++ p :: ps2 -> writes_qmax p = Some v ->
       Forall (fun q => writes_qmax q = None) ps2 -> snd (srun o ps) = None -> st_qmax (o_st (fst (srun o ps))) = v).
  Proof. lww_tac (fun o : @obj A => st_qmax (o_st o)) (@writes_qmax A) frame_qmax. Qed.
  Lemma lww_fn :
    (forall (o : @obj A) ps, Forall (fun q => writes_fn q = None) ps -> st_fn (o_st (fst (srun o ps))) = st_fn (o_st o)) /\
    (forall (o : @obj A) ps ps1 p v ps2, ps = ps1 ++ p :: ps2 -> writes_fn p = Some v ->
       Forall (fun q => writes_fn q = None) ps2 -> snd (srun o ps) = None -> st_fn (o_st (fst (srun o ps))) = v).
  Proof. lww_tac (fun o : @obj A => st_fn (o_st o)) (@writes_fn A) frame_fn. Qed.
  Lemma lww_stem :
    (forall (o : @obj A) ps, Forall (fun q => writes_stem q = None) ps -> o_stem (fst (srun o ps)) = o_stem o) /\
    (forall (o : @obj A) ps ps1 p v ps2, ps = ps1 ++ p :: ps2 -> writes_stem p = Some v ->
       Forall (fun q => writes_stem q = None) ps2 -> snd (srun o ps) = None -> o_stem (fst (srun o ps)) = v).
  Proof. lww_tac (@o_stem A) (@writes_stem A) frame_stem. Qed.
  Lemma lww_xmin :
    (forall (o : @obj A) ps, Forall (fun q => writes_xmin q = None) ps -> o_xmin (fst (srun o ps)) = o_xmin o) /\
    (forall (o : @obj A) ps ps1 p v ps2, ps = ps1 ++ p :: ps2 -> writes_xmin p = Some v ->
       Forall (fun q => writes_xmin q = None) ps2 -> snd (srun o ps) = None -> o_xmin (fst (srun o ps)) = v).
  Proof. lww_tac (@o_xmin A) (@writes_xmin A) frame_xmin. Qed.
  Lemma lww_xmax :
    (forall (o : @obj A) ps, Forall (fun q => writes_xmax q = None) ps -> o_xmax (fst (srun o ps)) = o_xmax o) /\
    (forall (o : @obj A) ps ps1 p v ps2, ps = ps1 ++ p :: ps2 -> writes_xmax p = Some v ->
       Forall (fun q => writes_xmax q = None) ps2 -> snd (srun o ps) = None -> o_xmax (fst (srun o ps)) = v).
  Proof. lww_tac (@o_xmax A) (@writes_xmax A) frame_xmax. Qed.

  (* ---------------------------------------------------------------- *)
  (* e. calls that write different attributes commute                  *)
  (* ---------------------------------------------------------------- *)
  Lemma set_nth_comm : forall l i j v w, i <> j ->
    set_nth (set_nth l i v) j w = set_nth (set_nth l j w) i v.
  Proof.
    induction l as [|h t IH]; intros i j v w Hij; [destruct i, j; reflexivity|].
    destruct i, j; cbn; try reflexivity; [congruence|].
    f_equal. apply IH. congruence.
  Qed.

  Lemma set_nth_idem : forall l i v, set_nth (set_nth l i v) i v = set_nth l i v.
  Proof.
    induction l as [|h t IH]; intros i v; [destruct i; reflexivity|].
    destruct i; cbn; [reflexivity|]. f_equal. apply IH.
  Qed.

  Ltac split_flags :=
    repeat match goal with f : flagv |- _ => destruct f | f : fnv |- _ => destruct f end.

  Lemma independent_commute : forall (o : @obj A) p q, independent p q = true ->
    fst (sstep (fst (sstep o p)) q) = fst (sstep (fst (sstep o q)) p).
  Proof.
    intros o p q Hind.
    destruct p; destruct q; try discriminate Hind;
      try (split_flags; cbn; try reflexivity; destruct (o_files o); reflexivity).
    (* two fixed-title slots *)
    unfold independent in Hind. cbn in Hind. rewrite !andb_true_r in Hind. apply negb_true_iff in Hind.
    apply Nat.eqb_neq in Hind. cbn. unfold o_with_tfix; cbn. f_equal. apply set_nth_comm. exact Hind.
  Qed.

  (* ... and whether a call raises is not affected by an independent call before it *)
  Lemma independent_same_error : forall (o : @obj A) p q, independent p q = true ->
    snd (sstep (fst (sstep o p)) q) = snd (sstep o q).
  Proof.
    intros o p q Hind.
    destruct p; destruct q; try discriminate Hind;
      split_flags; cbn; try reflexivity; destruct (o_files o); reflexivity.
  Qed.

  (* in particular the three grid setters commute with each other: dr is recomputed from the final values *)
  Lemma grid_setters_commute : forall (o : @obj A) a b d,
    fst (sstep (fst (sstep o (SRmin a))) (SRmax b)) = fst (sstep (fst (sstep o (SRmax b))) (SRmin a)) /\
    fst (sstep (fst (sstep o (SRmin a))) (SRdelta d)) = fst (sstep (fst (sstep o (SRdelta d))) (SRmin a)) /\
    fst (sstep (fst (sstep o (SRmax b))) (SRdelta d)) = fst (sstep (fst (sstep o (SRdelta d))) (SRmax b)).
  Proof. intros. split; [|split]; apply independent_commute; reflexivity. Qed.

  (* the excluded pairs really do not commute *)
  Lemma dr_vs_grid_op_do_not_commute : forall (o : @obj A) v,
    ~ (fst (sstep (fst (sstep o (SDr []))) (SRmin v)) = fst (sstep (fst (sstep o (SRmin v))) (SDr [])) /\
       fst (sstep (fst (sstep o (SDr [zero]))) (SRmin v)) = fst (sstep (fst (sstep o (SRmin v))) (SDr [zero]))).
  Proof.
    intros o v [E1 E2]. apply (f_equal o_dr) in E1. apply (f_equal o_dr) in E2. cbn in E1, E2.
    rewrite E1 in E2. discriminate.
  Qed.

  Lemma fn_vs_title_op_do_not_commute : forall (o : @obj A) g,
    fst (sstep (fst (sstep o (SFn (FnName g)))) (STgr 7)) <> fst (sstep (fst (sstep o (STgr 7))) (SFn (FnName g))).
  Proof. intros o g E. apply (f_equal o_tgr) in E. cbn in E. destruct g; discriminate. Qed.

  Lemma same_field_do_not_commute : forall o : @obj A,
    fst (sstep (fst (sstep o (SStem 1))) (SStem 2)) <> fst (sstep (fst (sstep o (SStem 2))) (SStem 1)).
  Proof. intros o E. apply (f_equal o_stem) in E. discriminate. Qed.

  Lemma file_ops_do_not_commute : forall o : @obj A,
    fst (sstep (fst (sstep o (SFiles (Some [])))) (SAppend 1)) <> fst (sstep (fst (sstep o (SAppend 1))) (SFiles (Some []))).
  Proof. intros o E. apply (f_equal o_files) in E. cbn in E. destruct (o_files o); discriminate. Qed.

  (* ---------------------------------------------------------------- *)
  (* f. idempotence                                                    *)
  (* ---------------------------------------------------------------- *)
  Lemma setter_idempotent_strong : forall (o : @obj A) p, is_accumulating p = false ->
    sstep (fst (sstep o p)) p = sstep o p.
  Proof.
    intros o p Hp. destruct p; try discriminate Hp; split_flags; cbn; try reflexivity.
    unfold o_with_tfix; cbn. rewrite set_nth_idem. reflexivity.
  Qed.

  Lemma setter_idempotent : forall (o : @obj A) p, snd (sstep o p) = None -> is_accumulating p = false ->
    sstep (fst (sstep o p)) p = sstep o p.
  Proof. intros o p _. apply setter_idempotent_strong. Qed.

  (* the two accumulating calls are not idempotent *)
  Lemma append_not_idempotent : forall (o : @obj A) l f, o_files o = Some l ->
    snd (sstep o (SAppend f)) = None /\ sstep (fst (sstep o (SAppend f))) (SAppend f) <> sstep o (SAppend f).
  Proof.
    intros o l f E. cbn. rewrite E. cbn. split; [reflexivity|]. intros K.
    apply (f_equal (fun r => o_files (fst r))) in K. cbn in K. injection K as K.
    apply (f_equal (@length nat)) in K. rewrite !app_length in K. cbn in K. lia.
  Qed.

  (* ---------------------------------------------------------------- *)
  (* g. the constructor is a setter script and agrees with kwargs2attr *)
  (* ---------------------------------------------------------------- *)
  Lemma obj_init_is_obj_of : @obj_init A _ = obj_of defaults.
  Proof. reflexivity. Qed.

  (* the three stages of the script, from the fresh object of ANY settings s0 *)
  Definition tail1 (j : @json A) (rmax_now : A) : list (@sop A) :=
    (match j_rdelta j, j_rpoints j with
     | Some d, _ => [SRdelta d]
     | None, Some n => [SRdelta (rmax_now / n)]
     | None, None => []
     end) ++ opt_op (j_rho j) SRho ++ opt_op (j_lowq j) SLowq ++ opt_op (j_lorch j) SLorch.
  Definition tail2 (j : @json A) : list (@sop A) :=
    (match j_ff j with Some (Some c) => [SCutoff c] | _ => [] end)
    ++ opt_op (j_bcoh j) SBcoh ++ opt_op (j_btot j) SBtot
    ++ (match j_merge j with
        | Some m => [SMerge m] ++ opt_op (j_qmin j) (fun q => SQmin (Some q)) ++ opt_op (j_qmax j) (fun q => SQmax (Some q))
        | None => []
        end).

  Lemma ctor_ops_tail_split : forall j r, ctor_ops_tail j r = tail1 j r ++ tail2 j.
  Proof. intros j r. unfold ctor_ops_tail, tail1, tail2. rewrite <- !app_assoc. reflexivity. Qed.

  Lemma head_spec : forall (j : @json A) s0,
    srun (obj_of s0) (ctor_ops_head j) =
      match fn_of (j_fn j) (st_fn s0) with
      | Err _ => (obj_of s0, Some SValueError)
      | Ok g => (obj_of {| st_fn := g; st_rmin := opt_or (j_rmin j) (st_rmin s0); st_rmax := opt_or (j_rmax j) (st_rmax s0);
                           st_rdelta := st_rdelta s0; st_rho := st_rho s0; st_bcoh := st_bcoh s0; st_btot := st_btot s0;
                           st_lowq := st_lowq s0; st_lorch := st_lorch s0; st_cutoff := st_cutoff s0;
                           st_merge := st_merge s0; st_qmin := st_qmin s0; st_qmax := st_qmax s0 |}, None)
      end.
  Proof.
    intros [fn rmin rmax rdelta rpoints rho lowq lorch ff bcoh btot merge qmin qmax] s0. unfold ctor_ops_head.
    destruct s0 as [x1 x2 x3 x4 x5 x6 x7 x8 x9 x10 x11 x12 x13].
    cbn [j_fn j_rmin j_rmax st_fn st_rmin st_rmax st_rdelta st_rho st_bcoh st_btot st_lowq st_lorch st_cutoff st_merge st_qmin st_qmax].
    destruct fn as [[g|]|], rmin, rmax; reflexivity.
  Qed.

  Lemma tail1_spec : forall (j : @json A) s0,
    srun (obj_of s0) (tail1 j (st_rmax s0)) =
      let s1 := {| st_fn := st_fn s0; st_rmin := st_rmin s0; st_rmax := st_rmax s0;
                   st_rdelta := match j_rdelta j, j_rpoints j with
                                | Some d, _ => d | None, Some n => st_rmax s0 / n | None, None => st_rdelta s0 end;
                   st_rho := opt_or (j_rho j) (st_rho s0); st_bcoh := st_bcoh s0; st_btot := st_btot s0;
                   st_lowq := st_lowq s0; st_lorch := st_lorch s0; st_cutoff := st_cutoff s0;
                   st_merge := st_merge s0; st_qmin := st_qmin s0; st_qmax := st_qmax s0 |} in
      match flag_of (j_lowq j) (st_lowq s0) with
      | Err _ => (obj_of s1, Some STypeError)
      | Ok lq =>
        let s2 := {| st_fn := st_fn s1; st_rmin := st_rmin s1; st_rmax := st_rmax s1; st_rdelta := st_rdelta s1;
                     st_rho := st_rho s1; st_bcoh := st_bcoh s1; st_btot := st_btot s1;
                     st_lowq := lq; st_lorch := st_lorch s1; st_cutoff := st_cutoff s1;
                     st_merge := st_merge s1; st_qmin := st_qmin s1; st_qmax := st_qmax s1 |} in
        match flag_of (j_lorch j) (st_lorch s0) with
        | Err _ => (obj_of s2, Some STypeError)
        | Ok lo => (obj_of {| st_fn := st_fn s2; st_rmin := st_rmin s2; st_rmax := st_rmax s2; st_rdelta := st_rdelta s2;
                              st_rho := st_rho s2; st_bcoh := st_bcoh s2; st_btot := st_btot s2;
                              st_lowq := st_lowq s2; st_lorch := lo; st_cutoff := st_cutoff s2;
                              st_merge := st_merge s2; st_qmin := st_qmin s2; st_qmax := st_qmax s2 |}, None)
        end
      end.
  Proof.
    intros [fn rmin rmax rdelta rpoints rho lowq lorch ff bcoh btot merge qmin qmax] s0. unfold tail1.
    destruct s0 as [x1 x2 x3 x4 x5 x6 x7 x8 x9 x10 x11 x12 x13].
    cbn [j_rdelta j_rpoints j_rho j_lowq j_lorch]. cbv zeta. cbn [st_fn st_rmin st_rmax st_rdelta st_rho st_bcoh st_btot st_lowq st_lorch st_cutoff st_merge st_qmin st_qmax].
    destruct rdelta, rpoints, rho, lowq as [[b|]|], lorch as [[b'|]|]; reflexivity.
  Qed.

  Lemma tail2_spec : forall (j : @json A) s0,
    srun (obj_of s0) (tail2 j) =
      (obj_of {| st_fn := st_fn s0; st_rmin := st_rmin s0; st_rmax := st_rmax s0; st_rdelta := st_rdelta s0;
                 st_rho := st_rho s0;
                 st_bcoh := opt_or (j_bcoh j) (st_bcoh s0); st_btot := opt_or (j_btot j) (st_btot s0);
                 st_lowq := st_lowq s0; st_lorch := st_lorch s0;
                 st_cutoff := match j_ff j with Some (Some c) => c | _ => st_cutoff s0 end;
                 st_merge := opt_or (j_merge j) (st_merge s0);
                 st_qmin := match j_merge j, j_qmin j with Some _, Some q => Some q | _, _ => st_qmin s0 end;
                 st_qmax := match j_merge j, j_qmax j with Some _, Some q => Some q | _, _ => st_qmax s0 end |}, None).
  Proof.
    intros [fn rmin rmax rdelta rpoints rho lowq lorch ff bcoh btot merge qmin qmax] s0. unfold tail2.
    destruct s0 as [x1 x2 x3 x4 x5 x6 x7 x8 x9 x10 x11 x12 x13].
    cbn [j_ff j_bcoh j_btot j_merge j_qmin j_qmax st_fn st_rmin st_rmax st_rdelta st_rho st_bcoh st_btot st_lowq st_lorch st_cutoff st_merge st_qmin st_qmax].
    destruct ff as [[c|]|], bcoh, btot, merge, qmin, qmax; reflexivity.
  Qed.

  (* closed form of the constructor *)
  Lemma construct_ok_obj_of : forall (j : @json A) s, kwargs2attr j = Ok s -> construct j = (obj_of s, None).
  Proof.
    intros j s E. unfold construct. rewrite obj_init_is_obj_of, head_spec.
    unfold kwargs2attr in E. cbn [defaults st_fn st_rmin st_rmax st_rdelta st_rho st_bcoh st_btot st_lowq st_lorch st_cutoff st_merge st_qmin st_qmax] in E |- *.
    destruct (fn_of (j_fn j) gg) as [g|e]; [|discriminate].
    cbn [obj_of o_st st_rmax].
    rewrite ctor_ops_tail_split, srun_app, tail1_spec. cbv zeta. cbn [st_fn st_rmin st_rmax st_rdelta st_rho st_bcoh st_btot st_lowq st_lorch st_cutoff st_merge st_qmin st_qmax].
    destruct (flag_of (j_lowq j) false) as [lq|e]; [|discriminate].
    destruct (flag_of (j_lorch j) false) as [lo|e]; [|discriminate].
    rewrite tail2_spec. cbn [st_fn st_rmin st_rmax st_rdelta st_rho st_bcoh st_btot st_lowq st_lorch st_cutoff st_merge st_qmin st_qmax]. injection E as <-.
    destruct (j_merge j), (j_qmin j), (j_qmax j), (j_ff j) as [[c|]|]; reflexivity.
  Qed.

  Lemma construct_ok : forall (j : @json A) s, kwargs2attr j = Ok s ->
    exists o, construct j = (o, None) /\ o_st o = s /\ o_dr o = rgrid s /\ titles_ok o.
  Proof.
    intros j s E. exists (obj_of s). split; [apply construct_ok_obj_of; exact E|].
    split; [reflexivity|]. split; [reflexivity|]. repeat split; reflexivity.
  Qed.

  Lemma construct_err : forall (j : @json A) e, kwargs2attr j = Err e ->
    exists o e', construct j = (o, Some e') /\
      (e = ValueError <-> e' = SValueError) /\ (e = TypeError <-> e' = STypeError).
  Proof.
    intros j e E. unfold construct. rewrite obj_init_is_obj_of, head_spec.
    unfold kwargs2attr in E.
    destruct (fn_of (j_fn j) (st_fn defaults)) as [g|e0] eqn:Ef.
    - match goal with |- context [obj_of ?s1] => set (s1' := s1) end.
      change (st_rmax (o_st (obj_of s1'))) with (st_rmax s1').
      rewrite ctor_ops_tail_split. 
      assert (K : exists o, srun (obj_of s1') (tail1 j (st_rmax s1')) = (o, Some STypeError) /\ e = TypeError).
      { rewrite tail1_spec. cbv zeta.
        change (st_lowq s1') with (st_lowq (@defaults A _)). change (st_lorch s1') with (st_lorch (@defaults A _)).
        destruct (flag_of (j_lowq j) (st_lowq defaults)) as [lq|e1] eqn:E1.
        - destruct (flag_of (j_lorch j) (st_lorch defaults)) as [lo|e2] eqn:E2; [discriminate|].
          eexists; split; [reflexivity|]. injection E as <-.
          destruct (j_lorch j) as [[b|]|]; cbn in E2; congruence.
        - eexists; split; [reflexivity|]. injection E as <-.
          destruct (j_lowq j) as [[b|]|]; cbn in E1; congruence. }
      destruct K as (o & Ko & ->). exists o, STypeError. rewrite srun_app, Ko.
      split; [reflexivity|]. split; split; (reflexivity || discriminate).
    - exists (obj_of defaults), SValueError. split; [reflexivity|]. injection E as <-.
      assert (e0 = ValueError) as -> by (destruct (j_fn j) as [[g|]|]; cbn in Ef; congruence).
      split; split; (reflexivity || discriminate).
  Qed.

  (* conversely: the script succeeds only if kwargs2attr accepts *)
  Lemma construct_ok_only_if : forall (j : @json A) o, construct j = (o, None) ->
    exists s, kwargs2attr j = Ok s /\ o = obj_of s.
  Proof.
    intros j o E. destruct (kwargs2attr j) as [s|e] eqn:K.
    - exists s. split; [reflexivity|]. rewrite (construct_ok_obj_of j s K) in E. congruence.
    - destruct (construct_err j e K) as (o' & e' & E' & _). rewrite E' in E. discriminate.
  Qed.

  (* the constructor's script contains no dr setter and no title setter *)
  Lemma forallb_opt_op : forall (T : Type) (x : option T) (f : T -> @sop A) (P : @sop A -> bool),
    (forall v, P (f v) = true) -> forallb P (opt_op x f) = true.
  Proof. intros T x f P HP. destruct x; cbn; [rewrite HP|]; reflexivity. Qed.

  Lemma ctor_ops_no_dr_no_title : forall (j : @json A) r,
    forallb (fun p => negb (is_dr_op p)) (ctor_ops_head j ++ ctor_ops_tail j r) = true /\
    forallb (fun p => negb (is_title_op p)) (ctor_ops_head j ++ ctor_ops_tail j r) = true.
  Proof.
    intros j r. unfold ctor_ops_head, ctor_ops_tail.
    split;
      (destruct (j_rdelta j), (j_rpoints j), (j_ff j) as [[c|]|], (j_merge j);
       repeat first [ rewrite forallb_app | rewrite forallb_opt_op by (intros; reflexivity)
                    | progress cbn [forallb app is_dr_op is_title_op negb andb] ];
       reflexivity).
  Qed.
End Generic.

(* ------------------------------------------------------------------ *)
(* h. non-vacuity: concrete scripts (any carrier)                      *)
(* ------------------------------------------------------------------ *)
Section Examples.
  Context {A : Type} `{Num A}.

  (* s.density = 2; s.dr = [0]; s.real_space_function = "G(r)"; s.gr_title = <7>; s.rmax = 10;
     s.bcoh_sqrd = 2; s.real_space_function = "GK(r)"; s.stem_name = <3> *)
  Definition ex_script : list (@sop A) :=
    [SRho two; SDr [zero]; SFn (FnName gG); STgr 7; SRmax (of_Z 10); SBcoh two; SFn (FnName gGK); SStem 3].
  (* s.density = 2; s.low_q_correction = "yes" (raises); s.density = 3 (not reached) *)
  Definition ex_script_err : list (@sop A) := [SRho two; SLowq FlagOther; SRho (of_Z 3)].

  Example error_keeps_state_nonvacuous :
    snd (sstep (@obj_init A _) (SLowq FlagOther)) = Some STypeError /\
    snd (sstep (@obj_init A _) (SFn FnBad)) = Some SValueError /\
    snd (sstep (@obj_init A _) (SAppend 1)) = Some STypeError /\
    snd (sstep (@obj_init A _) (SExtend [1])) = Some SAttributeError.
  Proof. repeat split; reflexivity. Qed.

  Example srun_error_prefix_nonvacuous :
    exists o', srun obj_init ex_script_err = (o', Some STypeError) /\
      ex_script_err = [SRho two] ++ SLowq FlagOther :: [SRho (of_Z 3)] /\
      srun obj_init [SRho two] = (o', None) /\ snd (sstep o' (SLowq FlagOther)) = Some STypeError /\
      st_rho (o_st o') = two.
  Proof. eexists. repeat split; reflexivity. Qed.

  (* b: the script has a dr setter, then a grid setter, then no dr setter; it runs without error; the grid
     stored in between ([0]) is gone at the end *)
  Example grid_ok_last_grid_op_nonvacuous :
    ex_script = [SRho two; SDr [zero]; SFn (FnName gG); STgr 7] ++ SRmax (of_Z 10) :: [SBcoh two; SFn (FnName gGK); SStem 3] /\
    is_grid_op (SRmax (of_Z 10) : @sop A) = true /\
    forallb (fun q : @sop A => negb (is_dr_op q)) [SBcoh two; SFn (FnName gGK); SStem 3] = true /\
    snd (srun obj_init ex_script) = None /\
    o_dr (fst (srun obj_init [SRho two; SDr [zero]])) = [zero] /\
    o_dr (fst (srun obj_init ex_script)) = rgrid (o_st (fst (srun obj_init ex_script))) /\
    st_rmax (o_st (fst (srun obj_init ex_script))) = of_Z 10.
  Proof. repeat split; reflexivity. Qed.

  Example grid_ok_run_nonvacuous :
    grid_ok (@obj_init A _) /\
    forallb (fun q : @sop A => negb (is_dr_op q)) [SRmin one; SRho two; SRdelta one; SLowq FlagOther] = true /\
    st_rmin (o_st (fst (srun obj_init [SRmin one; SRho two; SRdelta one; SLowq FlagOther]))) = one.
  Proof. repeat split; reflexivity. Qed.

  (* c: a title setter, then the function-name setter, then no title setter *)
  Example titles_ok_last_fn_nonvacuous :
    ex_script = [SRho two; SDr [zero]; SFn (FnName gG); STgr 7; SRmax (of_Z 10); SBcoh two] ++ SFn (FnName gGK) :: [SStem 3] /\
    forallb (fun q : @sop A => negb (is_title_op q)) [SStem 3] = true /\
    o_tgr (fst (srun obj_init [SRho two; SDr [zero]; SFn (FnName gG); STgr 7])) = 7 /\
    o_tgr (fst (srun obj_init ex_script)) = t_gr_of gGK /\
    o_tgrft (fst (srun obj_init ex_script)) = t_grft_of gGK /\
    o_tgrl (fst (srun obj_init ex_script)) = t_grl_of gGK.
  Proof. repeat split; reflexivity. Qed.

  Example titles_ok_run_nonvacuous :
    titles_ok (@obj_init A _) /\
    forallb (fun q : @sop A => negb (is_title_op q)) [SFn (FnName gG); SRho two; SFn FnBad] = true /\
    st_fn (o_st (fst (srun obj_init [SFn (FnName gG); SRho two; SFn FnBad]))) = gG.
  Proof. split; [apply titles_ok_init|]. repeat split; reflexivity. Qed.

  (* d: SRho 2 is followed by no other SRho; the script never writes btot *)
  Example lww_nonvacuous :
    ex_script = [] ++ SRho two :: tl ex_script /\ writes_rho (SRho two : @sop A) = Some two /\
    Forall (fun q : @sop A => writes_rho q = None) (tl ex_script) /\
    Forall (fun q : @sop A => writes_btot q = None) ex_script /\
    snd (srun obj_init ex_script) = None /\
    st_rho (o_st (fst (srun obj_init ex_script))) = two /\
    st_btot (o_st (fst (srun obj_init ex_script))) = one /\
    st_fn (o_st (fst (srun obj_init ex_script))) = gGK.
  Proof.
    split; [reflexivity|]. split; [reflexivity|].
    split; [repeat constructor|]. split; [repeat constructor|]. repeat split; reflexivity.
  Qed.

  (* e, f *)
  Example independent_nonvacuous :
    independent (SRmin one : @sop A) (SRmax two) = true /\ independent (SRho one : @sop A) (SFn (FnName gG)) = true /\
    independent (STfix 0 9 : @sop A) (STfix 1 9) = true /\ independent (SAppend 1 : @sop A) (SStem 2) = true /\
    independent (SDr [] : @sop A) (SRmin one) = false /\ independent (SFn (FnName gG) : @sop A) (STgr 7) = false /\
    independent (SRho one : @sop A) (SRho two) = false /\ independent (SFiles None : @sop A) (SAppend 1) = false /\
    independent (STfix 1 8 : @sop A) (STfix 1 9) = false.
  Proof. repeat split; reflexivity. Qed.

  Example setter_idempotent_nonvacuous :
    snd (sstep (@obj_init A _) (SRmax two)) = None /\ is_accumulating (SRmax two : @sop A) = false /\
    st_rmax (o_st (fst (sstep (@obj_init A _) (SRmax two)))) = two /\
    is_accumulating (SAppend 1 : @sop A) = true /\ is_accumulating (SExtend [1] : @sop A) = true.
  Proof. repeat split; reflexivity. Qed.

  (* g: {"RealSpaceFunction": "G(r)", "Rmax": 10, "Rpoints": 2, "LorchFlag": true,
         "Merging": {...}, Qmin 1} and two rejected configurations *)
  Definition ex_json_ok : @json A :=
    {| j_fn := Some (FnName gG); j_rmin := None; j_rmax := Some (of_Z 10); j_rdelta := None; j_rpoints := Some two;
       j_rho := None; j_lowq := None; j_lorch := Some (FlagBool true); j_ff := Some None; j_bcoh := None; j_btot := None;
       j_merge := Some default_merge; j_qmin := Some one; j_qmax := None |}.
  Definition ex_json_bad_flag : @json A :=
    {| j_fn := Some (FnName gG); j_rmin := None; j_rmax := Some (of_Z 10); j_rdelta := None; j_rpoints := None;
       j_rho := Some two; j_lowq := Some FlagOther; j_lorch := None; j_ff := None; j_bcoh := None; j_btot := None;
       j_merge := None; j_qmin := None; j_qmax := None |}.
  Definition ex_json_bad_fn : @json A :=
    {| j_fn := Some FnBad; j_rmin := None; j_rmax := None; j_rdelta := None; j_rpoints := None;
       j_rho := None; j_lowq := Some FlagOther; j_lorch := None; j_ff := None; j_bcoh := None; j_btot := None;
       j_merge := None; j_qmin := None; j_qmax := None |}.

  Example construct_ok_nonvacuous :
    exists s, kwargs2attr ex_json_ok = Ok s /\ st_rdelta s = div (of_Z 10) two /\ st_qmin s = Some one /\
      ctor_ops_head ex_json_ok ++ ctor_ops_tail ex_json_ok (of_Z 10) =
        [SFn (FnName gG); SRmax (of_Z 10); SRdelta (div (of_Z 10) two); SLorch (FlagBool true);
         SMerge default_merge; SQmin (Some one)] /\
      construct ex_json_ok = (obj_of s, None).
  Proof. eexists. repeat split; reflexivity. Qed.

  Example construct_err_nonvacuous :
    kwargs2attr ex_json_bad_flag = Err TypeError /\ snd (construct ex_json_bad_flag) = Some STypeError /\
    st_rho (o_st (fst (construct ex_json_bad_flag))) = two /\
    kwargs2attr ex_json_bad_fn = Err ValueError /\ construct ex_json_bad_fn = (obj_init, Some SValueError).
  Proof. repeat split; reflexivity. Qed.
End Examples.
