(* LowRGenP.v -- which entries the low-r mean square reads, for EVERY number carrier (no law assumed). *)
From Coq Require Import List Bool PrimFloat.
From PyStoG Require Import Num NumF LowRM.
Import ListNotations.

Section Gen.
  Context {A : Type} {H : Num A}.

  (* g and g' have the shape of r and agree wherever the mask r <= limit is true *)
  Inductive agree_masked (lim : A) : list A -> list A -> list A -> Prop :=
  | am_nil : agree_masked lim [] [] []
  | am_cons : forall x r y y' g g', (leb x lim = true -> y = y') -> agree_masked lim r g g' ->
                                    agree_masked lim (x :: r) (y :: g) (y' :: g').

  Lemma mask_le_agree_gen : forall lim r g g', agree_masked lim r g g' -> mask_le lim r g = mask_le lim r g'.
  Proof.
    intros lim r g g' Hag. induction Hag as [|x r y y' g g' Hy _ IH]; [reflexivity|].
    cbn [mask_le]. destruct (leb x lim) eqn:E; [rewrite (Hy eq_refl), IH; reflexivity|exact IH].
  Qed.

  Lemma lowr_ignores_unmasked_gen : forall lim r g g', agree_masked lim r g g' ->
    lowr_mean_square r g lim = lowr_mean_square r g' lim.
  Proof. intros lim r g g' Hag. unfold lowr_mean_square. rewrite (mask_le_agree_gen _ _ _ _ Hag). reflexivity. Qed.

  (* the selected entries keep their order and are a sub-list of the curve *)
  Lemma mask_le_length_gen : forall lim r g, length (mask_le lim r g) <= length g.
  Proof.
    intros lim. induction r as [|x r IH]; intros [|y g]; cbn [mask_le length]; try apply le_n; try apply le_0_n.
    destruct (leb x lim); cbn [length]; [apply le_n_S, IH|apply le_S, IH].
  Qed.

  Lemma get_lowr_reads_stored_curve_gen : forall dr g : list A,
    get_lowr_mean_square dr g = lowr_mean_square dr g lowr_default_limit.
  Proof. reflexivity. Qed.
End Gen.

Lemma lowr_ignores_unmasked_float : forall (lim : float) r g g', agree_masked lim r g g' ->
  lowr_mean_square r g lim = lowr_mean_square r g' lim.
Proof. exact (@lowr_ignores_unmasked_gen float _). Qed.
