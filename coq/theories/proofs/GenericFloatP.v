(* GenericFloatP.v -- the carrier-independent theorems instantiated at the IEEE
   binary64 carrier NumF (Coq's primitive floats), i.e. at the very model terms
   that Exec.v evaluates and the harness compares with the Python implementation.
   These are plain instantiations: no rounding analysis is involved because the
   statements are structural.  They hold for all binary64 inputs, NaN and
   infinities included. *)
From Coq Require Import List Bool ZArith PrimFloat.
From PyStoG Require Import Num NumF ConverterM TransformerM FilterM StogM CliM.
From PyStoG.proofs Require Import GenericCropP GenericNamedP GenericFilterP GenericStogP.
Import ListNotations.

(* ---------- C13 ---------- *)
(* the comparisons are the kernel's IEEE  <=  (PrimFloat.leb) *)
Corollary crop_is_filter_float (x y : list float) (xmin xmax : float) (dy : option (list float)) :
  let '(x', y', e') := apply_cropping x y xmin xmax dy in
  combine x' (combine y' e') =
  filter (fun t => PrimFloat.leb xmin (fst t) && PrimFloat.leb (fst t) xmax)
         (combine x (combine y (dflt_zeros y dy))).
Proof. exact (@crop_is_filter_gen float NumF x y xmin xmax dy). Qed.

Corollary crop_idem_float (x y : list float) (a b : float) (dy : option (list float)) :
  let '(x', y', e') := apply_cropping x y a b dy in
  apply_cropping x' y' a b (Some e') = (x', y', e').
Proof. exact (@crop_idem_gen float NumF x y a b dy). Qed.

Corollary ft_window_is_precrop_float (x y xo : list float) (a b : float) dy (k : kw float) :
  let '(x', y', e') := apply_cropping x y a b dy in
  fourier_transform x y xo (Some a) (Some b) dy k =
  fourier_transform x' y' xo (Some a) (Some b) (Some e') k.
Proof. exact (@ft_window_is_precrop_gen float NumF x y xo a b dy k). Qed.

(* ---------- C05 ---------- *)
Corollary q2r_decomposition_float X Y (q v r : list float) (dy : option (list float)) (k : kw float) :
  q2r X Y q v r dy k =
    let '(f, df) := rconv X rF q v dy k in
    let '(r', T, E) := fourier_transform q f r None None (Some df) k in
    let '(g, dg) := gconv gG Y r' (map (fun t => PrimFloat.mul t two_over_pi) T)
                                  (Some (map (fun t => PrimFloat.mul t two_over_pi) E)) k in
    (r', g, dg).
Proof. exact (@q2r_decomposition_gen float NumF X Y q v r dy k). Qed.

(* the scaling constant of the executed model: the binary64 quotient 2 / pi *)
Lemma two_over_pi_float : @two_over_pi float NumF = PrimFloat.div 2%float piF.
Proof. reflexivity. Qed.

(* ---------- C08 / C09 ---------- *)
Corollary variant_normal_form_float (G : gfun) (Q : rfun) (r gr q y : list float) cutoff dgr dy (k : kw float) :
  filter_variant G Q r gr q y cutoff dgr dy k =
  convert_out_g G Q k (core_of_g G Q r gr q y cutoff dgr dy k).
Proof. exact (@variant_normal_form_gen float NumF G Q r gr q y cutoff dgr dy k). Qed.

Corollary beyond_cutoff_irrelevant_float (r g1 g2 q fq : list float) cutoff d1 d2 dfq (k : kw float) :
  apply_cropping r g1 0%float cutoff d1 = apply_cropping r g2 0%float cutoff d2 ->
  g_using_F r g1 q fq cutoff d1 dfq k = g_using_F r g2 q fq cutoff d2 dfq k.
Proof. exact (@beyond_cutoff_irrelevant_gen float NumF r g1 g2 q fq cutoff d1 d2 dfq k). Qed.

(* ---------- C11 ---------- *)
Corollary ingest_history_independent_float (c : @config float) (ds : list (@dinfo float)) (s0 : @state float) :
  s_recip (fold_left (add_dataset c) ds s0) =
    fold_left cat3 (map (ingest_rows c) ds) (s_recip s0) /\
  s_sq (fold_left (add_dataset c) ds s0) =
    fold_left cat3 (map (fun d => to_sq c d (ingest_rows c d)) ds) (s_sq s0).
Proof. exact (@ingest_history_independent_gen float NumF c ds s0). Qed.

(* ---------- C12 ---------- *)
Corollary filter_history_independent_float (c : @config float) (s0 : @state float) (ops : list (@op float)) :
  (t_gr s0 = None \/ t_gr s0 = Some (T_g c s0)) ->
  let res := fourier_filter c (run c s0 ops) in
  let ref := fourier_filter c (set_gr s0 (Some (T_g c s0))) in
  snd res = snd ref /\
  t_ft (fst res) = t_ft (fst ref) /\ t_sqft (fst res) = t_sqft (fst ref) /\
  t_grft (fst res) = t_grft (fst ref) /\
  t_gr (fst res) = Some (T_g c s0).
Proof. exact (@filter_history_independent_gen float NumF c s0 ops). Qed.

Corollary cli_is_a_run_float (c : @config float) filter_on lorch_on (s0 : @state float) :
  fst (cli_after_merge c filter_on lorch_on s0) = run c s0 (cli_ops c filter_on lorch_on s0).
Proof. exact (@cli_is_a_run_gen float NumF c filter_on lorch_on s0). Qed.

(* ---------- why the order hypothesis of removed_is_lowr_transform_gen cannot be dropped ----------
   At binary64 a NaN abscissa fails the closed-interval test against itself, so the
   crop to [min q, max q] is NOT the identity: the order laws used at the reals
   (reflexivity, totality) are false for this carrier. *)
Example leb_not_reflexive_float : PrimFloat.leb nan nan = false.
Proof. reflexivity. Qed.

Example full_range_ok_fails_for_nan : ~ @full_range_ok float NumF [nan].
Proof.
  unfold full_range_ok. intros F. inversion F as [|t l Ht Hl]. subst. vm_compute in Ht. discriminate Ht.
Qed.

Example crop_full_range_fails_for_nan :
  @apply_cropping float NumF [nan] [1%float] (vmin [nan]) (vmax [nan]) None = ([], [], []).
Proof. vm_compute. reflexivity. Qed.

(* ... while it holds on an ordinary grid (checked by evaluation) *)
Example full_range_ok_float_example : @full_range_ok float NumF [0.5%float; 0.25%float; 2%float].
Proof. unfold full_range_ok. repeat constructor. Qed.
