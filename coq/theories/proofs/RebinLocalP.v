(* RebinLocalP.v -- C20: the rebinned values see the input only through the samples inside [xmin, xmax] *)
From PyStoG Require Import Num NumR RebinM.
From PyStoG.proofs Require Import VecLib RebinP.
From Coq Require Import List Reals ZArith Bool Lia Lra.
Import ListNotations.
Open Scope R_scope.

Definition in_window (xmin xmax : R) (p : R * R) : bool := inrangeb xmin xmax (fst p).

Lemma guarded_sum_filter (P : R * R -> bool) (f : R * R -> R) (l : list (R * R)) :
  fold_right Rplus 0 (map (fun p => if P p then f p else 0) l) = fold_right Rplus 0 (map f (filter P l)).
Proof.
  induction l as [|p l IH]; [reflexivity|]. cbn [map fold_right filter].
  destruct (P p); cbn [map fold_right]; rewrite IH; lra.
Qed.

Lemma rebin_local (x y x' y' : list R) (xmin xdiv xmax : R) : 0 < xdiv ->
  filter (in_window xmin xmax) (combine x y) = filter (in_window xmin xmax) (combine x' y') ->
  rebin x y xmin xdiv xmax = rebin x' y' xmin xdiv xmax.
Proof.
  intros Hd E.
  assert (G : fst (rebin x y xmin xdiv xmax) = fst (rebin x' y' xmin xdiv xmax)) by (rewrite !rebin_fst; reflexivity).
  assert (V : snd (rebin x y xmin xdiv xmax) = snd (rebin x' y' xmin xdiv xmax)).
  { rewrite !rebin_is_hat_average by exact Hd. apply map_ext. intros k. unfold in_window in E. unfold ysum, nsum.
    rewrite (guarded_sum_filter (fun p => inrangeb xmin xmax (fst p)) (fun p => hat (gridpt xmin xdiv k) xdiv (fst p) * snd p) (combine x y)).
    rewrite (guarded_sum_filter (fun p => inrangeb xmin xmax (fst p)) (fun p => hat (gridpt xmin xdiv k) xdiv (fst p)) (combine x y)).
    rewrite (guarded_sum_filter (fun p => inrangeb xmin xmax (fst p)) (fun p => hat (gridpt xmin xdiv k) xdiv (fst p) * snd p) (combine x' y')).
    rewrite (guarded_sum_filter (fun p => inrangeb xmin xmax (fst p)) (fun p => hat (gridpt xmin xdiv k) xdiv (fst p)) (combine x' y')).
    rewrite E. reflexivity. }
  destruct (rebin x y xmin xdiv xmax), (rebin x' y' xmin xdiv xmax). cbn in G, V. subst. reflexivity.
Qed.

(* in particular: changing the ordinates of samples outside the window, or appending samples outside it, changes nothing *)
Lemma combine_app' {X Y} (a a' : list X) (b b' : list Y) : length a = length b ->
  combine (a ++ a') (b ++ b') = combine a b ++ combine a' b'.
Proof.
  revert b; induction a as [|u a IH]; intros [|v b] L; cbn in *; try discriminate; [reflexivity|].
  f_equal. apply IH. congruence.
Qed.

Lemma rebin_outside_appended (x y xe ye : list R) (xmin xdiv xmax : R) : 0 < xdiv ->
  length x = length y ->
  (forall p, In p (combine xe ye) -> in_window xmin xmax p = false) ->
  rebin (x ++ xe) (y ++ ye) xmin xdiv xmax = rebin x y xmin xdiv xmax.
Proof.
  intros Hd L Out. apply rebin_local; [exact Hd|].
  rewrite combine_app' by exact L. rewrite filter_app.
  assert (filter (in_window xmin xmax) (combine xe ye) = []) as ->.
  { induction (combine xe ye) as [|p l IH]; [reflexivity|]. cbn [filter].
    rewrite (Out p (or_introl eq_refl)). apply IH. intros q Hq. apply Out. right. exact Hq. }
  apply app_nil_r.
Qed.
