(* ReadP.v -- proofs about ReadM *)
From Coq Require Import List Bool Reals Lia.
From PyStoG Require Import Num NumR ConverterM TransformerM StogM CallKwM ReadM.
From PyStoG.proofs Require Import CallKwP.
Import ListNotations.
Open Scope nat_scope.

Section Generic.
  Context {A : Type} `{Num A}.

  Lemma read_three_columns (x y e : list A) : read_columns [x; y; e] 0 1 2 = Some (x, y, e).
  Proof. reflexivity. Qed.
  Lemma read_two_columns (x y : list A) : read_columns [x; y] 0 1 2 = Some (x, y, zeros_like y).
  Proof. reflexivity. Qed.
  (* extra columns are ignored; the three roles may sit anywhere *)
  Lemma read_named_columns (t : list (list A)) (xcol ycol dycol : nat) :
    xcol < length t -> ycol < length t -> dycol < length t ->
    read_columns t xcol ycol dycol = Some (nth xcol t [], nth ycol t [], nth dycol t []).
  Proof.
    intros Hx Hy Hd. unfold read_columns.
    destruct (Nat.leb_spec (length t) xcol); [lia|].
    destruct (Nat.leb_spec (length t) ycol); [lia|].
    destruct (Nat.leb_spec (length t) dycol); [lia|]. reflexivity.
  Qed.
  Lemma read_without_dy_column (t : list (list A)) (xcol ycol dycol : nat) :
    xcol < length t -> ycol < length t -> length t <= dycol ->
    read_columns t xcol ycol dycol = Some (nth xcol t [], nth ycol t [], zeros_like (nth ycol t [])).
  Proof.
    intros Hx Hy Hd. unfold read_columns.
    destruct (Nat.leb_spec (length t) xcol); [lia|].
    destruct (Nat.leb_spec (length t) ycol); [lia|].
    destruct (Nat.leb_spec (length t) dycol); [|lia]. reflexivity.
  Qed.
  Lemma read_too_few_columns (t : list (list A)) (xcol ycol dycol : nat) :
    length t <= xcol \/ length t <= ycol -> read_columns t xcol ycol dycol = None.
  Proof.
    intros Hc. unfold read_columns.
    destruct (Nat.leb_spec (length t) xcol); [reflexivity|].
    destruct (Nat.leb_spec (length t) ycol); [reflexivity|]. lia.
  Qed.
  (* the two table layouts the correspondence check writes besides the default one *)
  Lemma read_layout_dy_junk_x_y (x y e junk : list A) : read_columns [e; junk; x; y] 2 3 0 = Some (x, y, e).
  Proof. reflexivity. Qed.
  Lemma read_layout_junk_y_x (x y junk : list A) : read_columns [junk; y; x] 2 1 5 = Some (x, y, zeros_like y).
  Proof. reflexivity. Qed.

  (* a failed read stores nothing; a successful one is add_dataset on the entry with the columns filled in *)
  Lemma read_dataset_spec (c : @config A) (s : @state A) (d : @dinfo A) (t : list (list A)) (xcol ycol dycol : nat) :
    match read_columns t xcol ycol dycol with
    | Some xyz => read_dataset c s d t xcol ycol dycol = Some (add_dataset c s (with_data d xyz))
    | None => read_dataset c s d t xcol ycol dycol = None
    end.
  Proof. unfold read_dataset. destruct (read_columns t xcol ycol dycol); reflexivity. Qed.

  (* keywords forwarded by read_dataset act as in add_dataset: the effective description *)
  Lemma read_rows_effective (c : @config A) (k : @callkw A) (d : @dinfo A) (t : list (list A)) (xcol ycol dycol : nat) xyz :
    read_columns t xcol ycol dycol = Some xyz ->
    read_rows c k d t xcol ycol dycol = Some (ingest_rows c (effective k (with_data d xyz))).
  Proof. intros E. unfold read_rows. rewrite E, ingest_rows_kw_effective. reflexivity. Qed.
End Generic.

(* over R: a file without uncertainty column stores what add_dataset stores for data given without uncertainties *)
Lemma read_two_columns_is_no_dy (c : @config R) (d : @dinfo R) (x y : list R) :
  ingest_rows c (with_data d (x, y, zeros_like y)) =
  ingest_rows c {| d_x := x; d_y := y; d_dy := None; d_qmin := d_qmin d; d_qmax := d_qmax d;
                   d_Y := d_Y d; d_X := d_X d; d_kind := d_kind d |}.
Proof.
  unfold ingest_rows, with_data. cbn [d_x d_y d_dy d_qmin d_qmax d_Y d_X d_kind].
  replace (map noise16 (zeros_like y)) with (zeros_like (map noise16 y)); [reflexivity|].
  unfold zeros_like. rewrite !map_map. reflexivity.
Qed.
