(* CodecP.v -- proofs about the text codec model (CodecM.v): exact integer
   arithmetic throughout.

   Reading the scaled inequalities.  A dyadic d denotes |d| = d_m d * 2^(d_e d).
   To compare such values without leaving Z we multiply by 2^K for any K large
   enough to make every exponent non-negative ("common scale"):
       |d| * 2^K = d_m d * 2^(d_e d + K)        (an integer when d_e d + K >= 0).
   A decimal (s, N, k) denotes N / 10^k; N/10^k/2^e = num N e / den k e. *)
From Coq Require Import ZArith List String Ascii Bool Lia.
From PyStoG Require Import CodecM.
Import ListNotations.
Local Open Scope Z_scope.

(* ================================================================== *)
(* 1. round-half-even                                                  *)
(* ================================================================== *)

Lemma rhe_cases a b : 0 < b ->
  let q := a / b in let r := a mod b in
  a = b * q + r /\ 0 <= r < b /\
  ((2 * r < b /\ rhe a b = q) \/ (b < 2 * r /\ rhe a b = q + 1) \/
   (2 * r = b /\ Z.even q = true /\ rhe a b = q) \/
   (2 * r = b /\ Z.even q = false /\ rhe a b = q + 1)).
Proof.
  intros Hb q r. split; [apply Z.div_mod; lia|]. split; [apply Z.mod_pos_bound; lia|].
  unfold rhe. fold q r.
  destruct (2 * r <? b) eqn:E1; [apply Z.ltb_lt in E1; auto|apply Z.ltb_ge in E1].
  destruct (b <? 2 * r) eqn:E2; [apply Z.ltb_lt in E2; auto|apply Z.ltb_ge in E2].
  destruct (Z.even q) eqn:E3; right; right; [left|right]; repeat split; auto; lia.
Qed.

(* |rhe a b - a/b| <= 1/2 *)
Lemma rhe_bound a b : 0 < b -> 2 * Z.abs (rhe a b * b - a) <= b.
Proof.
  intros Hb. destruct (rhe_cases a b Hb) as (Ha & Hr & Hc).
  set (q := a / b) in *. set (r := a mod b) in *.
  destruct Hc as [(H1 & ->)|[(H1 & ->)|[(H1 & _ & ->)|(H1 & _ & ->)]]]; lia.
Qed.

(* at a tie the result is even *)
Lemma rhe_tie_even a b : 0 < b -> 2 * Z.abs (rhe a b * b - a) = b -> Z.even (rhe a b) = true.
Proof.
  intros Hb. destruct (rhe_cases a b Hb) as (Ha & Hr & Hc).
  set (q := a / b) in *. set (r := a mod b) in *.
  destruct Hc as [(H1 & ->)|[(H1 & ->)|[(H1 & He & ->)|(H1 & He & ->)]]]; intros; try lia; auto.
  replace (q + 1) with (Z.succ q) by lia. rewrite Z.even_succ, <- Z.negb_even, He. reflexivity.
Qed.

Lemma rhe_nonneg a b : 0 <= a -> 0 < b -> 0 <= rhe a b.
Proof.
  intros Ha Hb. destruct (rhe_cases a b Hb) as (_ & _ & Hc).
  assert (0 <= a / b) by (apply Z.div_pos; lia).
  destruct Hc as [(_ & ->)|[(_ & ->)|[(_ & _ & ->)|(_ & _ & ->)]]]; lia.
Qed.

(* the rounding is the only integer within 1/2 (even at ties) *)
Lemma rhe_unique a b m : 0 < b ->
  2 * Z.abs (m * b - a) <= b ->
  (2 * Z.abs (m * b - a) = b -> Z.even m = true) ->
  rhe a b = m.
Proof.
  intros Hb Hm He. destruct (rhe_cases a b Hb) as (Ha & Hr & Hc).
  set (q := a / b) in *. set (r := a mod b) in *. clearbody q r.
  assert (Hd : m = q \/ m = q + 1).
  { assert (~ (m <= q - 1)) by (intro; assert (m * b <= (q - 1) * b) by (apply Z.mul_le_mono_nonneg_r; lia); lia).
    assert (~ (q + 2 <= m)) by (intro; assert ((q + 2) * b <= m * b) by (apply Z.mul_le_mono_nonneg_r; lia); lia).
    lia. }
  destruct Hd as [-> | ->].
  - destruct Hc as [(H1 & ->)|[(H1 & ->)|[(H1 & E & ->)|(H1 & E & ->)]]]; try lia.
    assert (Z.even q = true) by (apply He; lia). congruence.
  - destruct Hc as [(H1 & ->)|[(H1 & ->)|[(H1 & E & ->)|(H1 & E & ->)]]]; try lia.
    assert (E' : Z.even (q + 1) = true) by (apply He; lia).
    replace (q + 1) with (Z.succ q) in E' by lia. rewrite Z.even_succ, <- Z.negb_even, E in E'. discriminate.
Qed.

Lemma rhe_exact a b q : 0 < b -> a = q * b -> rhe a b = q.
Proof. intros Hb ->. apply rhe_unique; auto; intros; lia. Qed.

(* ================================================================== *)
(* 2. the printed decimal                                              *)
(* ================================================================== *)

Definition wf (d : dyadic) : Prop := 0 <= d_m d.
(* binary64-like: at most 53 mantissa bits *)
Definition b64 (d : dyadic) : Prop := 0 <= d_m d < 2 ^ 53.
(* normalised 53-bit mantissa *)
Definition norm53 (d : dyadic) : Prop := 2 ^ 52 <= d_m d < 2 ^ 53.

Lemma pow2_pos n : 0 < 2 ^ n \/ n < 0.
Proof. destruct (Z_lt_le_dec n 0); [right; lia|left; apply Z.pow_pos_nonneg; lia]. Qed.

Lemma to12_nonneg d : wf d -> 0 <= to12 d.
Proof.
  unfold wf, to12. intros H. destruct (0 <=? d_e d) eqn:E.
  - apply Z.leb_le in E. assert (0 < 2 ^ d_e d) by (apply Z.pow_pos_nonneg; lia). nia.
  - apply Z.leb_gt in E. apply rhe_nonneg; [lia|apply Z.pow_pos_nonneg; lia].
Qed.

(* fmt12_error:  | to12 d / 10^12  -  m * 2^e |  <=  1/2 * 10^-12.
   For e < 0 multiply by 2 * 10^12 * 2^(-e):
        2 * | to12 d * 2^(-e) - m * 10^12 | <= 2^(-e);
   for e >= 0 the value is an integer and the decimal is exact. *)
Theorem fmt12_error d :
  (d_e d < 0 -> 2 * Z.abs (to12 d * 2 ^ (- d_e d) - d_m d * 10 ^ 12) <= 2 ^ (- d_e d)) /\
  (0 <= d_e d -> to12 d = d_m d * 2 ^ d_e d * 10 ^ 12).
Proof.
  unfold to12. split; intros H.
  - destruct (0 <=? d_e d) eqn:E; [apply Z.leb_le in E; lia|].
    apply rhe_bound. apply Z.pow_pos_nonneg; lia.
  - destruct (0 <=? d_e d) eqn:E; [reflexivity|apply Z.leb_gt in E; lia].
Qed.

(* the same at a common scale 2^K:
     2 * 10^12 * 2^K * | to12 d / 10^12 - m 2^e |  <=  2^K *)
Lemma to12_scaled d K : 0 <= K -> 0 <= d_e d + K ->
  2 * Z.abs (to12 d * 2 ^ K - d_m d * 2 ^ (d_e d + K) * 10 ^ 12) <= 2 ^ K.
Proof.
  intros HK HeK. destruct (fmt12_error d) as [Hn Hp].
  assert (0 < 2 ^ K) by (apply Z.pow_pos_nonneg; lia).
  destruct (Z_lt_le_dec (d_e d) 0) as [Hlt|Hge].
  - specialize (Hn Hlt). set (b := 2 ^ (- d_e d)) in *.
    assert (Hj : 2 ^ K = b * 2 ^ (d_e d + K)).
    { unfold b. rewrite <- Z.pow_add_r by lia. f_equal. lia. }
    assert (0 < 2 ^ (d_e d + K)) by (apply Z.pow_pos_nonneg; lia).
    set (j := 2 ^ (d_e d + K)) in *. rewrite Hj.
    replace (to12 d * (b * j) - d_m d * j * 10 ^ 12) with ((to12 d * b - d_m d * 10 ^ 12) * j) by ring.
    rewrite Z.abs_mul, (Z.abs_eq j) by lia. nia.
  - rewrite (Hp Hge). rewrite Z.pow_add_r by lia.
    replace (_ - _) with 0 by ring. simpl Z.abs. lia.
Qed.

(* ================================================================== *)
(* 3. decimal -> nearest 53-bit value                                  *)
(* ================================================================== *)

Lemma den_pos k e : 0 < den k e.
Proof.
  unfold den. apply Z.mul_pos_pos; apply Z.pow_pos_nonneg; lia.
Qed.

Lemma num_pos N e : 0 < N -> 0 < num N e.
Proof. intros. unfold num. apply Z.mul_pos_pos; [lia|apply Z.pow_pos_nonneg; lia]. Qed.

(* going from exponent e to e+1 halves the quotient num/den *)
Lemma numden_step N k e :
  (num N e = num N (e + 1) /\ den k (e + 1) = 2 * den k e) \/
  (num N e = 2 * num N (e + 1) /\ den k (e + 1) = den k e).
Proof.
  unfold num, den. destruct (Z_lt_le_dec e 0) as [H|H].
  - right. rewrite (Z.max_l 0 (e + 1)), (Z.max_l 0 e) by lia.
    rewrite (Z.max_r 0 (- e)) by lia. split; [|reflexivity].
    replace (- e) with (Z.max 0 (- (e + 1)) + 1) by lia.
    rewrite Z.pow_add_r by lia. ring.
  - left. rewrite (Z.max_l 0 (- e)), (Z.max_l 0 (- (e + 1))) by lia. split; [reflexivity|].
    rewrite (Z.max_r 0 (e + 1)), (Z.max_r 0 e) by lia. rewrite Z.pow_add_r by lia. ring.
Qed.

(* common scale: multiplying num and den by c = 2^(K + min(0,e)) > 0 gives
   N * 2^K  and  10^k * 2^(e+K) *)
Lemma numden_scaled N k e K : 0 <= K -> 0 <= e + K ->
  exists c, 0 < c /\ num N e * c = N * 2 ^ K /\ den k e * c = 10 ^ Z.of_nat k * 2 ^ (e + K).
Proof.
  intros HK HeK. unfold num, den. destruct (Z_lt_le_dec e 0) as [H|H].
  - exists (2 ^ (e + K)). split; [apply Z.pow_pos_nonneg; lia|].
    rewrite (Z.max_r 0 (- e)), (Z.max_l 0 e) by lia. split.
    + rewrite <- Z.mul_assoc, <- Z.pow_add_r by lia. do 2 f_equal. lia.
    + rewrite Z.pow_0_r. ring.
  - exists (2 ^ K). split; [apply Z.pow_pos_nonneg; lia|].
    rewrite (Z.max_l 0 (- e)), (Z.max_r 0 e) by lia. split.
    + rewrite Z.pow_0_r. ring.
    + rewrite <- Z.mul_assoc, <- Z.pow_add_r by lia. reflexivity.
Qed.

(* the exponent nearest53 works at *)
Definition work_exp (N : Z) (k : nat) : Z :=
  let e0 := Z.log2 N - Z.log2 (10 ^ Z.of_nat k) - 53 in
  if num N e0 / den k e0 <? 2 ^ 53 then e0 else e0 + 1.

Lemma nearest53_unfold s N k : 0 < N ->
  nearest53 (s, N, k) =
    let e := work_exp N k in
    let m := rhe (num N e) (den k e) in
    if m =? 2 ^ 53 then mkd s (2 ^ 52) (e + 1) else mkd s m e.
Proof.
  intros H. unfold nearest53, work_exp. destruct (N <=? 0) eqn:E; [apply Z.leb_le in E; lia|reflexivity].
Qed.

(* first guess: 2^52 < N/10^k/2^e0 < 2^54 *)
Lemma guess_binade N k : 0 < N ->
  let e0 := Z.log2 N - Z.log2 (10 ^ Z.of_nat k) - 53 in
  2 ^ 52 * den k e0 < num N e0 /\ num N e0 < 2 ^ 54 * den k e0.
Proof.
  intros HN e0. set (T := 10 ^ Z.of_nat k).
  assert (HT : 0 < T) by (apply Z.pow_pos_nonneg; lia).
  destruct (Z.log2_spec N HN) as [Ha1 Ha2]. destruct (Z.log2_spec T HT) as [Hb1 Hb2].
  pose proof (Z.log2_nonneg N) as Ha0. pose proof (Z.log2_nonneg T) as Hb0.
  set (a := Z.log2 N) in *. set (b := Z.log2 T) in *.
  replace (Z.succ a) with (a + 1) in Ha2 by lia. replace (Z.succ b) with (b + 1) in Hb2 by lia.
  assert (He0 : e0 = a - b - 53) by reflexivity. clearbody e0 a b.
  unfold num, den. fold T. destruct (Z_lt_le_dec e0 0) as [H|H].
  - rewrite (Z.max_r 0 (- e0)), (Z.max_l 0 e0), Z.pow_0_r by lia.
    assert (E1 : 2 ^ a * 2 ^ (- e0) = 2 ^ 53 * 2 ^ b).
    { rewrite <- !Z.pow_add_r by lia. f_equal. lia. }
    assert (E2 : 2 ^ (a + 1) * 2 ^ (- e0) = 2 ^ 54 * 2 ^ b).
    { rewrite <- !Z.pow_add_r by lia. f_equal. lia. }
    assert (E3 : 2 ^ (b + 1) = 2 * 2 ^ b) by (rewrite Z.pow_add_r by lia; ring).
    assert (0 < 2 ^ (- e0)) by (apply Z.pow_pos_nonneg; lia).
    assert (0 < 2 ^ b) by (apply Z.pow_pos_nonneg; lia).
    set (P := 2 ^ (- e0)) in *. split.
    + assert (2 ^ a * P <= N * P) by (apply Z.mul_le_mono_nonneg_r; lia). lia.
    + assert (N * P < 2 ^ (a + 1) * P) by (apply Z.mul_lt_mono_pos_r; lia). lia.
  - rewrite (Z.max_l 0 (- e0)), (Z.max_r 0 e0), Z.pow_0_r by lia.
    assert (E1 : 2 ^ 53 * 2 ^ b * 2 ^ e0 = 2 ^ a).
    { rewrite <- !Z.pow_add_r by lia. f_equal. lia. }
    assert (E3 : 2 ^ (b + 1) = 2 * 2 ^ b) by (rewrite Z.pow_add_r by lia; ring).
    assert (E4 : 2 ^ (a + 1) = 2 * 2 ^ a) by (rewrite Z.pow_add_r by lia; ring).
    assert (0 < 2 ^ e0) by (apply Z.pow_pos_nonneg; lia).
    assert (0 < 2 ^ b) by (apply Z.pow_pos_nonneg; lia).
    set (P := 2 ^ e0) in *. split.
    + assert (T * P < 2 ^ (b + 1) * P) by (apply Z.mul_lt_mono_pos_r; lia). lia.
    + assert (2 ^ b * P <= T * P) by (apply Z.mul_le_mono_nonneg_r; lia). lia.
Qed.

(* at the working exponent: 2^52 <= N/10^k/2^e < 2^53 *)
Lemma work_binade N k : 0 < N ->
  let e := work_exp N k in
  2 ^ 52 * den k e <= num N e /\ num N e < 2 ^ 53 * den k e.
Proof.
  intros HN. unfold work_exp. destruct (guess_binade N k HN) as [G1 G2].
  set (e0 := Z.log2 N - Z.log2 (10 ^ Z.of_nat k) - 53) in *.
  pose proof (den_pos k e0) as Hd.
  destruct (num N e0 / den k e0 <? 2 ^ 53) eqn:E; cbv zeta.
  - apply Z.ltb_lt in E.
    assert (~ (den k e0 * 2 ^ 53 <= num N e0)) by (intro X; apply Z.div_le_lower_bound in X; lia). lia.
  - apply Z.ltb_ge in E.
    assert (~ (num N e0 < den k e0 * 2 ^ 53)) by (intro X; apply Z.div_lt_upper_bound in X; lia).
    destruct (numden_step N k e0) as [(A & B)|(A & B)]; lia.
Qed.

(* The specification of float(text) for N/10^k > 0 (unbounded exponent):
   (m, e) is a normalised 53-bit value with
     - | m 2^e - N/10^k | <= 2^e / 2          (within half an ulp; scaled by 2*den/2^e)
     - at exactly half an ulp, m is even       (ties to even)
     - at the bottom of a binade (m = 2^52) a decimal BELOW m 2^e must be within a
       quarter ulp, because the doubles just below are spaced 2^(e-1). *)
Definition is_nearest53 (N : Z) (k : nat) (m e : Z) : Prop :=
  2 ^ 52 <= m < 2 ^ 53 /\
  2 * Z.abs (m * den k e - num N e) <= den k e /\
  (2 * Z.abs (m * den k e - num N e) = den k e -> Z.even m = true) /\
  (m = 2 ^ 52 -> num N e < m * den k e -> 4 * (m * den k e - num N e) <= den k e).

Theorem nearest53_correct s N k : 0 < N ->
  d_neg (nearest53 (s, N, k)) = s /\
  is_nearest53 N k (d_m (nearest53 (s, N, k))) (d_e (nearest53 (s, N, k))).
Proof.
  intros HN. rewrite (nearest53_unfold s N k HN). cbv zeta.
  destruct (work_binade N k HN) as [B1 B2]. set (e := work_exp N k) in *.
  pose proof (den_pos k e) as Hd.
  pose proof (rhe_bound (num N e) (den k e) Hd) as Hb.
  pose proof (rhe_tie_even (num N e) (den k e) Hd) as Ht.
  set (m := rhe (num N e) (den k e)) in *.
  assert (Hm1 : 2 ^ 52 <= m).
  { assert (~ (m <= 2 ^ 52 - 1)); [|lia]. intro.
    assert (m * den k e <= (2 ^ 52 - 1) * den k e) by (apply Z.mul_le_mono_nonneg_r; lia). lia. }
  assert (Hm2 : m <= 2 ^ 53).
  { assert (~ (2 ^ 53 + 1 <= m)); [|lia]. intro.
    assert ((2 ^ 53 + 1) * den k e <= m * den k e) by (apply Z.mul_le_mono_nonneg_r; lia). lia. }
  destruct (m =? 2 ^ 53) eqn:E; cbn [d_neg d_m d_e]; (split; [reflexivity|]).
  - apply Z.eqb_eq in E. rewrite E in Hb. unfold is_nearest53.
    destruct (numden_step N k e) as [(A & B)|(A & B)]; rewrite B; rewrite A in *;
      (split; [lia|split; [lia|split; intros; lia]]).
  - apply Z.eqb_neq in E. unfold is_nearest53. split; [lia|]. split; [exact Hb|]. split; [exact Ht|].
    intros -> Hlt. lia.
Qed.

(* uniqueness: the specification determines the result *)
Theorem nearest53_unique s N k m e : 0 < N ->
  is_nearest53 N k m e -> nearest53 (s, N, k) = mkd s m e.
Proof.
  intros HN (Hm & Hb & Ht & Hq). rewrite (nearest53_unfold s N k HN). cbv zeta.
  destruct (work_binade N k HN) as [B1 B2]. set (w := work_exp N k) in *.
  pose proof (den_pos k w) as Hdw. pose proof (den_pos k e) as Hde.
  (* e = w or e = w + 1, by comparing at a common scale *)
  assert (Hew : e = w \/ e = w + 1).
  { set (K := Z.abs e + Z.abs w).
    destruct (numden_scaled N k e K) as (c & Hc & Hn & Hd); [lia|lia|].
    destruct (numden_scaled N k w K) as (c' & Hc' & Hn' & Hd'); [lia|lia|].
    set (T := 10 ^ Z.of_nat k) in *. set (W := N * 2 ^ K) in *.
    assert (HT : 0 < T) by (apply Z.pow_pos_nonneg; lia).
    assert (S1 : 2 ^ 52 * (den k w * c') <= num N w * c') by nia.
    assert (S2 : num N w * c' < 2 ^ 53 * (den k w * c')) by nia.
    assert (S3 : (2 ^ 53 - 1) * (den k e * c) <= 2 * (num N e * c)).
    { assert (2 ^ 52 * den k e <= m * den k e) by (apply Z.mul_le_mono_nonneg_r; lia).
      assert ((2 ^ 53 - 1) * den k e <= 2 * num N e) by lia. nia. }
    assert (S4 : 2 * (num N e * c) <= (2 ^ 54 - 1) * (den k e * c)).
    { assert (m * den k e <= (2 ^ 53 - 1) * den k e) by (apply Z.mul_le_mono_nonneg_r; lia).
      assert (2 * num N e <= (2 ^ 54 - 1) * den k e) by lia. nia. }
    rewrite Hn, Hd in S3, S4. rewrite Hn', Hd' in S1, S2.
    assert (~ (w + 2 <= e)).
    { intro. assert (4 * 2 ^ (w + K) <= 2 ^ (e + K)).
      { replace (4 * 2 ^ (w + K)) with (2 ^ (w + 2 + K)) by (rewrite !Z.pow_add_r by lia; ring).
        apply Z.pow_le_mono_r; lia. }
      assert (T * (4 * 2 ^ (w + K)) <= T * 2 ^ (e + K)) by (apply Z.mul_le_mono_nonneg_l; lia).
      assert (0 < T * 2 ^ (w + K)) by (apply Z.mul_pos_pos; [lia|apply Z.pow_pos_nonneg; lia]). lia. }
    assert (~ (e <= w - 1)).
    { intro. assert (2 * 2 ^ (e + K) <= 2 ^ (w + K)).
      { replace (2 * 2 ^ (e + K)) with (2 ^ (e + 1 + K)) by (rewrite !Z.pow_add_r by lia; ring).
        apply Z.pow_le_mono_r; lia. }
      assert (T * (2 * 2 ^ (e + K)) <= T * 2 ^ (w + K)) by (apply Z.mul_le_mono_nonneg_l; lia).
      assert (0 < T * 2 ^ (e + K)) by (apply Z.mul_pos_pos; [lia|apply Z.pow_pos_nonneg; lia]). lia. }
    lia. }
  destruct Hew as [-> | ->].
  - rewrite (rhe_unique (num N w) (den k w) m Hdw Hb Ht).
    destruct (m =? 2 ^ 53) eqn:E; [apply Z.eqb_eq in E; lia|reflexivity].
  - (* m = 2^52 and the decimal lies in [2^52 - 1/4, 2^52) ulps of e = w+1 *)
    assert (Hm52 : m = 2 ^ 52).
    { destruct (numden_step N k w) as [(A & B)|(A & B)]; rewrite B in *; rewrite A in *.
      - assert (~ (2 ^ 52 + 1 <= m)); [|lia]. intro.
        assert ((2 ^ 52 + 1) * (2 * den k w) <= m * (2 * den k w)) by (apply Z.mul_le_mono_nonneg_r; lia). lia.
      - assert (~ (2 ^ 52 + 1 <= m)); [|lia]. intro.
        assert ((2 ^ 52 + 1) * den k w <= m * den k w) by (apply Z.mul_le_mono_nonneg_r; lia). lia. }
    subst m.
    assert (R : rhe (num N w) (den k w) = 2 ^ 53).
    { apply rhe_unique; auto.
      - destruct (numden_step N k w) as [(A & B)|(A & B)]; rewrite B in *; rewrite A in *; lia.
      - intros _. reflexivity. }
    rewrite R. rewrite Z.eqb_refl. reflexivity.
Qed.

Lemma nearest53_zero s N k : N <= 0 -> nearest53 (s, N, k) = mkd s 0 0.
Proof. intros H. unfold nearest53. destruct (N <=? 0) eqn:E; [reflexivity|apply Z.leb_gt in E; lia]. Qed.

(* the half-ulp bound at a common scale 2^K:
     2 * 10^k * 2^K * | m' 2^e' - N/10^k |  <=  10^k * 2^K * 2^e' *)
Lemma is_nearest53_scaled N k m e K : 0 <= K -> 0 <= e + K ->
  is_nearest53 N k m e ->
  2 * Z.abs (m * 2 ^ (e + K) * 10 ^ Z.of_nat k - N * 2 ^ K) <= 2 ^ (e + K) * 10 ^ Z.of_nat k.
Proof.
  intros HK HeK (_ & Hb & _). destruct (numden_scaled N k e K HK HeK) as (c & Hc & Hn & Hd).
  replace (m * 2 ^ (e + K) * 10 ^ Z.of_nat k) with (m * (10 ^ Z.of_nat k * 2 ^ (e + K))) by ring.
  replace (2 ^ (e + K) * 10 ^ Z.of_nat k) with (10 ^ Z.of_nat k * 2 ^ (e + K)) by ring.
  rewrite <- Hn, <- Hd.
  replace (m * (den k e * c) - num N e * c) with ((m * den k e - num N e) * c) by ring.
  rewrite Z.abs_mul, (Z.abs_eq c) by lia. nia.
Qed.

(* the result is a binary64 normal number in the range of the 12-decimal
   files: 10^-12 <= N/10^12 < 2^1000 *)
Lemma nearest53_exponent_range s N : 0 < N -> N < 2 ^ 1000 ->
  - 1074 <= d_e (nearest53 (s, N, 12%nat)) <= 971.
Proof.
  intros HN Hlt. rewrite (nearest53_unfold s N 12%nat HN). cbv zeta.
  assert (L : 0 <= Z.log2 N < 1000).
  { split; [apply Z.log2_nonneg|]. apply Z.log2_lt_pow2; lia. }
  assert (E : work_exp N 12 = Z.log2 N - 92 \/ work_exp N 12 = Z.log2 N - 91).
  { unfold work_exp. change (Z.log2 (10 ^ Z.of_nat 12)) with 39.
    destruct (_ <? _); [left|right]; lia. }
  destruct (_ =? _); cbn [d_e]; lia.
Qed.
