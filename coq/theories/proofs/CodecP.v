(* CodecP.v -- proofs about the text codec model (CodecM.v): exact integer
   arithmetic throughout.

   Reading the scaled inequalities.  A dyadic d denotes |d| = d_m d * 2^(d_e d).
   To compare such values without leaving Z we multiply by 2^K for any K large
   enough to make every exponent non-negative ("common scale"):
       |d| * 2^K = d_m d * 2^(d_e d + K)        (an integer when d_e d + K >= 0).
   A decimal (s, N, k) denotes N / 10^k; N/10^k/2^e = num N e / den k e. *)
From Coq Require Import ZArith List String Ascii Bool Lia.
From PyStoG Require Import CodecM.
Import ListNotations.
Local Open Scope Z_scope.

(* ================================================================== *)
(* 1. round-half-even                                                  *)
(* ================================================================== *)

Lemma rhe_cases a b : 0 < b ->
  let q := a / b in let r := a mod b in
  a = b * q + r /\ 0 <= r < b /\
  ((2 * r < b /\ rhe a b = q) \/ (b < 2 * r /\ rhe a b = q + 1) \/
   (2 * r = b /\ Z.even q = true /\ rhe a b = q) \/
   (2 * r = b /\ Z.even q = false /\ rhe a b = q + 1)).
Proof.
  intros Hb q r. split; [apply Z.div_mod; lia|]. split; [apply Z.mod_pos_bound; lia|].
  unfold rhe. fold q r.
  destruct (2 * r <? b) eqn:E1; [apply Z.ltb_lt in E1; auto|apply Z.ltb_ge in E1].
  destruct (b <? 2 * r) eqn:E2; [apply Z.ltb_lt in E2; auto|apply Z.ltb_ge in E2].
  destruct (Z.even q) eqn:E3; right; right; [left|right]; repeat split; auto; lia.
Qed.

(* |rhe a b - a/b| <= 1/2 *)
Lemma rhe_bound a b : 0 < b -> 2 * Z.abs (rhe a b * b - a) <= b.
Proof.
  intros Hb. destruct (rhe_cases a b Hb) as (Ha & Hr & Hc).
  set (q := a / b) in *. set (r := a mod b) in *.
  destruct Hc as [(H1 & ->)|[(H1 & ->)|[(H1 & _ & ->)|(H1 & _ & ->)]]]; lia.
Qed.

(* at a tie the result is even *)
Lemma rhe_tie_even a b : 0 < b -> 2 * Z.abs (rhe a b * b - a) = b -> Z.even (rhe a b) = true.
Proof.
  intros Hb. destruct (rhe_cases a b Hb) as (Ha & Hr & Hc).
  set (q := a / b) in *. set (r := a mod b) in *.
  destruct Hc as [(H1 & ->)|[(H1 & ->)|[(H1 & He & ->)|(H1 & He & ->)]]]; intros; try lia; auto.
  replace (q + 1) with (Z.succ q) by lia. rewrite Z.even_succ, <- Z.negb_even, He. reflexivity.
Qed.

Lemma rhe_nonneg a b : 0 <= a -> 0 < b -> 0 <= rhe a b.
Proof.
  intros Ha Hb. destruct (rhe_cases a b Hb) as (_ & _ & Hc).
  assert (0 <= a / b) by (apply Z.div_pos; lia).
  destruct Hc as [(_ & ->)|[(_ & ->)|[(_ & _ & ->)|(_ & _ & ->)]]]; lia.
Qed.

(* the rounding is the only integer within 1/2 (even at ties) *)
Lemma rhe_unique a b m : 0 < b ->
  2 * Z.abs (m * b - a) <= b ->
  (2 * Z.abs (m * b - a) = b -> Z.even m = true) ->
  rhe a b = m.
Proof.
  intros Hb Hm He. destruct (rhe_cases a b Hb) as (Ha & Hr & Hc).
  set (q := a / b) in *. set (r := a mod b) in *. clearbody q r.
  assert (Hd : m = q \/ m = q + 1).
  { assert (~ (m <= q - 1)) by (intro; assert (m * b <= (q - 1) * b) by (apply Z.mul_le_mono_nonneg_r; lia); lia).
    assert (~ (q + 2 <= m)) by (intro; assert ((q + 2) * b <= m * b) by (apply Z.mul_le_mono_nonneg_r; lia); lia).
    lia. }
  destruct Hd as [-> | ->].
  - destruct Hc as [(H1 & ->)|[(H1 & ->)|[(H1 & E & ->)|(H1 & E & ->)]]]; try lia.
    assert (Z.even q = true) by (apply He; lia). congruence.
  - destruct Hc as [(H1 & ->)|[(H1 & ->)|[(H1 & E & ->)|(H1 & E & ->)]]]; try lia.
    assert (E' : Z.even (q + 1) = true) by (apply He; lia).
    replace (q + 1) with (Z.succ q) in E' by lia. rewrite Z.even_succ, <- Z.negb_even, E in E'. discriminate.
Qed.

Lemma rhe_exact a b q : 0 < b -> a = q * b -> rhe a b = q.
Proof. intros Hb ->. apply rhe_unique; auto; intros; lia. Qed.

(* ================================================================== *)
(* 2. the printed decimal                                              *)
(* ================================================================== *)

Definition wf (d : dyadic) : Prop := 0 <= d_m d.
(* binary64-like: at most 53 mantissa bits *)
Definition b64 (d : dyadic) : Prop := 0 <= d_m d < 2 ^ 53.
(* normalised 53-bit mantissa *)
Definition norm53 (d : dyadic) : Prop := 2 ^ 52 <= d_m d < 2 ^ 53.

Lemma pow2_pos n : 0 < 2 ^ n \/ n < 0.
Proof. destruct (Z_lt_le_dec n 0); [right; lia|left; apply Z.pow_pos_nonneg; lia]. Qed.

Lemma to12_nonneg d : wf d -> 0 <= to12 d.
Proof.
  unfold wf, to12. intros H. destruct (0 <=? d_e d) eqn:E.
  - apply Z.leb_le in E. assert (0 < 2 ^ d_e d) by (apply Z.pow_pos_nonneg; lia). nia.
  - apply Z.leb_gt in E. apply rhe_nonneg; [lia|apply Z.pow_pos_nonneg; lia].
Qed.

(* fmt12_error:  | to12 d / 10^12  -  m * 2^e |  <=  1/2 * 10^-12.
   For e < 0 multiply by 2 * 10^12 * 2^(-e):
        2 * | to12 d * 2^(-e) - m * 10^12 | <= 2^(-e);
   for e >= 0 the value is an integer and the decimal is exact. *)
Theorem fmt12_error d :
  (d_e d < 0 -> 2 * Z.abs (to12 d * 2 ^ (- d_e d) - d_m d * 10 ^ 12) <= 2 ^ (- d_e d)) /\
  (0 <= d_e d -> to12 d = d_m d * 2 ^ d_e d * 10 ^ 12).
Proof.
  unfold to12. split; intros H.
  - destruct (0 <=? d_e d) eqn:E; [apply Z.leb_le in E; lia|].
    apply rhe_bound. apply Z.pow_pos_nonneg; lia.
  - destruct (0 <=? d_e d) eqn:E; [reflexivity|apply Z.leb_gt in E; lia].
Qed.

(* the same at a common scale 2^K:
     2 * 10^12 * 2^K * | to12 d / 10^12 - m 2^e |  <=  2^K *)
Lemma to12_scaled d K : 0 <= K -> 0 <= d_e d + K ->
  2 * Z.abs (to12 d * 2 ^ K - d_m d * 2 ^ (d_e d + K) * 10 ^ 12) <= 2 ^ K.
Proof.
  intros HK HeK. destruct (fmt12_error d) as [Hn Hp].
  assert (0 < 2 ^ K) by (apply Z.pow_pos_nonneg; lia).
  destruct (Z_lt_le_dec (d_e d) 0) as [Hlt|Hge].
  - specialize (Hn Hlt). set (b := 2 ^ (- d_e d)) in *.
    assert (Hj : 2 ^ K = b * 2 ^ (d_e d + K)).
    { unfold b. rewrite <- Z.pow_add_r by lia. f_equal. lia. }
    assert (0 < 2 ^ (d_e d + K)) by (apply Z.pow_pos_nonneg; lia).
    set (j := 2 ^ (d_e d + K)) in *. rewrite Hj.
    replace (to12 d * (b * j) - d_m d * j * 10 ^ 12) with ((to12 d * b - d_m d * 10 ^ 12) * j) by ring.
    rewrite Z.abs_mul, (Z.abs_eq j) by lia.
    rewrite Z.mul_assoc. apply Z.mul_le_mono_nonneg_r; lia.
  - rewrite (Hp Hge). rewrite Z.pow_add_r by lia.
    replace (_ - _) with 0 by ring. simpl Z.abs. lia.
Qed.

(* ================================================================== *)
(* 3. decimal -> nearest 53-bit value                                  *)
(* ================================================================== *)

Lemma pow2_plus1 x : 0 <= x -> 2 ^ (x + 1) = 2 * 2 ^ x.
Proof. intros. rewrite Z.pow_add_r by lia. change (2 ^ 1) with 2. ring. Qed.
Lemma pow2_plus2 x : 0 <= x -> 2 ^ (x + 2) = 4 * 2 ^ x.
Proof. intros. rewrite Z.pow_add_r by lia. change (2 ^ 2) with 4. ring. Qed.

Lemma den_pos k e : 0 < den k e.
Proof.
  unfold den. apply Z.mul_pos_pos; apply Z.pow_pos_nonneg; lia.
Qed.

Lemma num_pos N e : 0 < N -> 0 < num N e.
Proof. intros. unfold num. apply Z.mul_pos_pos; [lia|apply Z.pow_pos_nonneg; lia]. Qed.

(* going from exponent e to e+1 halves the quotient num/den *)
Lemma numden_step N k e :
  (num N e = num N (e + 1) /\ den k (e + 1) = 2 * den k e) \/
  (num N e = 2 * num N (e + 1) /\ den k (e + 1) = den k e).
Proof.
  unfold num, den. destruct (Z_lt_le_dec e 0) as [H|H].
  - right. rewrite (Z.max_l 0 (e + 1)), (Z.max_l 0 e) by lia.
    rewrite (Z.max_r 0 (- e)) by lia. split; [|reflexivity].
    replace (- e) with (Z.max 0 (- (e + 1)) + 1) by lia.
    rewrite Z.pow_add_r by lia. ring.
  - left. rewrite (Z.max_l 0 (- e)), (Z.max_l 0 (- (e + 1))) by lia. split; [reflexivity|].
    rewrite (Z.max_r 0 (e + 1)), (Z.max_r 0 e) by lia. rewrite Z.pow_add_r by lia. ring.
Qed.

(* common scale: multiplying num and den by c = 2^(K + min(0,e)) > 0 gives
   N * 2^K  and  10^k * 2^(e+K) *)
Lemma numden_scaled N k e K : 0 <= K -> 0 <= e + K ->
  exists c, 0 < c /\ num N e * c = N * 2 ^ K /\ den k e * c = 10 ^ Z.of_nat k * 2 ^ (e + K).
Proof.
  intros HK HeK. unfold num, den. destruct (Z_lt_le_dec e 0) as [H|H].
  - exists (2 ^ (e + K)). split; [apply Z.pow_pos_nonneg; lia|].
    rewrite (Z.max_r 0 (- e)), (Z.max_l 0 e) by lia. split.
    + rewrite <- Z.mul_assoc, <- Z.pow_add_r by lia. do 2 f_equal. lia.
    + rewrite Z.pow_0_r. ring.
  - exists (2 ^ K). split; [apply Z.pow_pos_nonneg; lia|].
    rewrite (Z.max_l 0 (- e)), (Z.max_r 0 e) by lia. split.
    + rewrite Z.pow_0_r. ring.
    + rewrite <- Z.mul_assoc, <- Z.pow_add_r by lia. reflexivity.
Qed.

(* the exponent nearest53 works at *)
Definition work_exp (N : Z) (k : nat) : Z :=
  let e0 := Z.log2 N - Z.log2 (10 ^ Z.of_nat k) - 53 in
  if num N e0 / den k e0 <? 2 ^ 53 then e0 else e0 + 1.

Lemma nearest53_unfold s N k : 0 < N ->
  nearest53 (s, N, k) =
    let e := work_exp N k in
    let m := rhe (num N e) (den k e) in
    if m =? 2 ^ 53 then mkd s (2 ^ 52) (e + 1) else mkd s m e.
Proof.
  intros H. unfold nearest53, work_exp. destruct (N <=? 0) eqn:E; [apply Z.leb_le in E; lia|reflexivity].
Qed.

(* first guess: 2^52 < N/10^k/2^e0 < 2^54 *)
Lemma guess_binade N k : 0 < N ->
  let e0 := Z.log2 N - Z.log2 (10 ^ Z.of_nat k) - 53 in
  2 ^ 52 * den k e0 < num N e0 /\ num N e0 < 2 ^ 54 * den k e0.
Proof.
  intros HN e0. set (T := 10 ^ Z.of_nat k).
  assert (HT : 0 < T) by (apply Z.pow_pos_nonneg; lia).
  destruct (Z.log2_spec N HN) as [Ha1 Ha2]. destruct (Z.log2_spec T HT) as [Hb1 Hb2].
  pose proof (Z.log2_nonneg N) as Ha0. pose proof (Z.log2_nonneg T) as Hb0.
  set (a := Z.log2 N) in *. set (b := Z.log2 T) in *.
  replace (Z.succ a) with (a + 1) in Ha2 by lia. replace (Z.succ b) with (b + 1) in Hb2 by lia.
  assert (He0 : e0 = a - b - 53) by reflexivity. clearbody e0 a b.
  unfold num, den. fold T. destruct (Z_lt_le_dec e0 0) as [H|H].
  - rewrite (Z.max_r 0 (- e0)), (Z.max_l 0 e0), Z.pow_0_r by lia.
    assert (E1 : 2 ^ a * 2 ^ (- e0) = 2 ^ 53 * 2 ^ b).
    { rewrite <- !Z.pow_add_r by lia. f_equal. lia. }
    assert (E2 : 2 ^ (a + 1) * 2 ^ (- e0) = 2 ^ 54 * 2 ^ b).
    { rewrite <- !Z.pow_add_r by lia. f_equal. lia. }
    assert (E3 : 2 ^ (b + 1) = 2 * 2 ^ b) by (rewrite Z.pow_add_r by lia; ring).
    assert (0 < 2 ^ (- e0)) by (apply Z.pow_pos_nonneg; lia).
    assert (0 < 2 ^ b) by (apply Z.pow_pos_nonneg; lia).
    set (P := 2 ^ (- e0)) in *. split.
    + assert (2 ^ a * P <= N * P) by (apply Z.mul_le_mono_nonneg_r; lia). lia.
    + assert (N * P < 2 ^ (a + 1) * P) by (apply Z.mul_lt_mono_pos_r; lia). lia.
  - rewrite (Z.max_l 0 (- e0)), (Z.max_r 0 e0), Z.pow_0_r by lia.
    assert (E1 : 2 ^ 53 * 2 ^ b * 2 ^ e0 = 2 ^ a).
    { rewrite <- !Z.pow_add_r by lia. f_equal. lia. }
    assert (E3 : 2 ^ (b + 1) = 2 * 2 ^ b) by (rewrite Z.pow_add_r by lia; ring).
    assert (E4 : 2 ^ (a + 1) = 2 * 2 ^ a) by (rewrite Z.pow_add_r by lia; ring).
    assert (0 < 2 ^ e0) by (apply Z.pow_pos_nonneg; lia).
    assert (0 < 2 ^ b) by (apply Z.pow_pos_nonneg; lia).
    set (P := 2 ^ e0) in *. split.
    + assert (T * P < 2 ^ (b + 1) * P) by (apply Z.mul_lt_mono_pos_r; lia). lia.
    + assert (2 ^ b * P <= T * P) by (apply Z.mul_le_mono_nonneg_r; lia). lia.
Qed.

(* at the working exponent: 2^52 <= N/10^k/2^e < 2^53 *)
Lemma work_binade N k : 0 < N ->
  let e := work_exp N k in
  2 ^ 52 * den k e <= num N e /\ num N e < 2 ^ 53 * den k e.
Proof.
  intros HN. unfold work_exp. destruct (guess_binade N k HN) as [G1 G2].
  set (e0 := Z.log2 N - Z.log2 (10 ^ Z.of_nat k) - 53) in *.
  pose proof (den_pos k e0) as Hd.
  destruct (num N e0 / den k e0 <? 2 ^ 53) eqn:E; cbv zeta.
  - apply Z.ltb_lt in E.
    assert (~ (den k e0 * 2 ^ 53 <= num N e0)) by (intro X; apply Z.div_le_lower_bound in X; lia). lia.
  - apply Z.ltb_ge in E.
    assert (~ (num N e0 < den k e0 * 2 ^ 53)) by (intro X; apply Z.div_lt_upper_bound in X; lia).
    destruct (numden_step N k e0) as [(A & B)|(A & B)]; lia.
Qed.

(* The specification of float(text) for N/10^k > 0 (unbounded exponent):
   (m, e) is a normalised 53-bit value with
     - | m 2^e - N/10^k | <= 2^e / 2          (within half an ulp; scaled by 2*den/2^e)
     - at exactly half an ulp, m is even       (ties to even)
     - at the bottom of a binade (m = 2^52) a decimal BELOW m 2^e must be within a
       quarter ulp, because the doubles just below are spaced 2^(e-1). *)
Definition is_nearest53 (N : Z) (k : nat) (m e : Z) : Prop :=
  2 ^ 52 <= m < 2 ^ 53 /\
  2 * Z.abs (m * den k e - num N e) <= den k e /\
  (2 * Z.abs (m * den k e - num N e) = den k e -> Z.even m = true) /\
  (m = 2 ^ 52 -> num N e < m * den k e -> 4 * (m * den k e - num N e) <= den k e).

Theorem nearest53_correct s N k : 0 < N ->
  d_neg (nearest53 (s, N, k)) = s /\
  is_nearest53 N k (d_m (nearest53 (s, N, k))) (d_e (nearest53 (s, N, k))).
Proof.
  intros HN. rewrite (nearest53_unfold s N k HN). cbv zeta.
  destruct (work_binade N k HN) as [B1 B2]. set (e := work_exp N k) in *.
  pose proof (den_pos k e) as Hd.
  pose proof (rhe_bound (num N e) (den k e) Hd) as Hb.
  pose proof (rhe_tie_even (num N e) (den k e) Hd) as Ht.
  set (m := rhe (num N e) (den k e)) in *.
  assert (Hm1 : 2 ^ 52 <= m).
  { assert (~ (m <= 2 ^ 52 - 1)); [|lia]. intro.
    assert (m * den k e <= (2 ^ 52 - 1) * den k e) by (apply Z.mul_le_mono_nonneg_r; lia). lia. }
  assert (Hm2 : m <= 2 ^ 53).
  { assert (~ (2 ^ 53 + 1 <= m)); [|lia]. intro.
    assert ((2 ^ 53 + 1) * den k e <= m * den k e) by (apply Z.mul_le_mono_nonneg_r; lia). lia. }
  destruct (m =? 2 ^ 53) eqn:E; cbn [d_neg d_m d_e]; (split; [reflexivity|]).
  - apply Z.eqb_eq in E. rewrite E in Hb. unfold is_nearest53.
    destruct (numden_step N k e) as [(A & B)|(A & B)]; rewrite B; rewrite A in *;
      (split; [lia|split; [lia|split; intros; lia]]).
  - apply Z.eqb_neq in E. unfold is_nearest53. split; [lia|]. split; [exact Hb|]. split; [exact Ht|].
    intros -> Hlt. lia.
Qed.

(* uniqueness: the specification determines the result *)
Theorem nearest53_unique s N k m e : 0 < N ->
  is_nearest53 N k m e -> nearest53 (s, N, k) = mkd s m e.
Proof.
  intros HN (Hm & Hb & Ht & Hq). rewrite (nearest53_unfold s N k HN). cbv zeta.
  destruct (work_binade N k HN) as [B1 B2]. set (w := work_exp N k) in *.
  pose proof (den_pos k w) as Hdw. pose proof (den_pos k e) as Hde.
  (* e = w or e = w + 1, by comparing at a common scale *)
  assert (Hew : e = w \/ e = w + 1).
  { set (K := Z.abs e + Z.abs w).
    destruct (numden_scaled N k e K) as (c & Hc & Hn & Hd); [lia|lia|].
    destruct (numden_scaled N k w K) as (c' & Hc' & Hn' & Hd'); [lia|lia|].
    set (T := 10 ^ Z.of_nat k) in *. set (W := N * 2 ^ K) in *.
    assert (HT : 0 < T) by (apply Z.pow_pos_nonneg; lia).
    assert (S1 : 2 ^ 52 * (den k w * c') <= num N w * c')
      by (rewrite Z.mul_assoc; apply Z.mul_le_mono_nonneg_r; lia).
    assert (S2 : num N w * c' < 2 ^ 53 * (den k w * c'))
      by (rewrite Z.mul_assoc; apply Z.mul_lt_mono_pos_r; lia).
    assert (S3 : (2 ^ 53 - 1) * (den k e * c) <= 2 * (num N e * c)).
    { assert (2 ^ 52 * den k e <= m * den k e) by (apply Z.mul_le_mono_nonneg_r; lia).
      assert ((2 ^ 53 - 1) * den k e <= 2 * num N e) by lia.
      rewrite !Z.mul_assoc; apply Z.mul_le_mono_nonneg_r; lia. }
    assert (S4 : 2 * (num N e * c) <= (2 ^ 54 - 1) * (den k e * c)).
    { assert (m * den k e <= (2 ^ 53 - 1) * den k e) by (apply Z.mul_le_mono_nonneg_r; lia).
      assert (2 * num N e <= (2 ^ 54 - 1) * den k e) by lia.
      rewrite !Z.mul_assoc; apply Z.mul_le_mono_nonneg_r; lia. }
    rewrite Hn, Hd in S3, S4. rewrite Hn', Hd' in S1, S2.
    assert (~ (w + 2 <= e)).
    { intro. assert (4 * 2 ^ (w + K) <= 2 ^ (e + K)).
      { rewrite <- pow2_plus2 by lia. apply Z.pow_le_mono_r; lia. }
      assert (T * (4 * 2 ^ (w + K)) <= T * 2 ^ (e + K)) by (apply Z.mul_le_mono_nonneg_l; lia).
      assert (0 < T * 2 ^ (w + K)) by (apply Z.mul_pos_pos; [lia|apply Z.pow_pos_nonneg; lia]). lia. }
    assert (~ (e <= w - 1)).
    { intro. assert (2 * 2 ^ (e + K) <= 2 ^ (w + K)).
      { rewrite <- pow2_plus1 by lia. apply Z.pow_le_mono_r; lia. }
      assert (T * (2 * 2 ^ (e + K)) <= T * 2 ^ (w + K)) by (apply Z.mul_le_mono_nonneg_l; lia).
      assert (0 < T * 2 ^ (e + K)) by (apply Z.mul_pos_pos; [lia|apply Z.pow_pos_nonneg; lia]). lia. }
    lia. }
  destruct Hew as [-> | ->].
  - rewrite (rhe_unique (num N w) (den k w) m Hdw Hb Ht).
    destruct (m =? 2 ^ 53) eqn:E; [apply Z.eqb_eq in E; lia|reflexivity].
  - (* m = 2^52 and the decimal lies in [2^52 - 1/4, 2^52) ulps of e = w+1 *)
    assert (Hm52 : m = 2 ^ 52).
    { destruct (numden_step N k w) as [(A & B)|(A & B)]; rewrite B in *; rewrite A in *.
      - assert (~ (2 ^ 52 + 1 <= m)); [|lia]. intro.
        assert ((2 ^ 52 + 1) * (2 * den k w) <= m * (2 * den k w)) by (apply Z.mul_le_mono_nonneg_r; lia). lia.
      - assert (~ (2 ^ 52 + 1 <= m)); [|lia]. intro.
        assert ((2 ^ 52 + 1) * den k w <= m * den k w) by (apply Z.mul_le_mono_nonneg_r; lia). lia. }
    subst m.
    assert (R : rhe (num N w) (den k w) = 2 ^ 53).
    { apply rhe_unique; [exact Hdw| |intros _; reflexivity].
      destruct (numden_step N k w) as [(A & B)|(A & B)]; rewrite B in *; rewrite A in *; lia. }
    rewrite R. rewrite Z.eqb_refl. reflexivity.
Qed.

Lemma nearest53_zero s N k : N <= 0 -> nearest53 (s, N, k) = mkd s 0 0.
Proof. intros H. unfold nearest53. destruct (N <=? 0) eqn:E; [reflexivity|apply Z.leb_gt in E; lia]. Qed.

(* the half-ulp bound at a common scale 2^K:
     2 * 10^k * 2^K * | m' 2^e' - N/10^k |  <=  10^k * 2^K * 2^e' *)
Lemma is_nearest53_scaled N k m e K : 0 <= K -> 0 <= e + K ->
  is_nearest53 N k m e ->
  2 * Z.abs (m * 2 ^ (e + K) * 10 ^ Z.of_nat k - N * 2 ^ K) <= 2 ^ (e + K) * 10 ^ Z.of_nat k.
Proof.
  intros HK HeK (_ & Hb & _). destruct (numden_scaled N k e K HK HeK) as (c & Hc & Hn & Hd).
  replace (m * 2 ^ (e + K) * 10 ^ Z.of_nat k) with (m * (10 ^ Z.of_nat k * 2 ^ (e + K))) by ring.
  replace (2 ^ (e + K) * 10 ^ Z.of_nat k) with (10 ^ Z.of_nat k * 2 ^ (e + K)) by ring.
  rewrite <- Hn, <- Hd.
  replace (m * (den k e * c) - num N e * c) with ((m * den k e - num N e) * c) by ring.
  rewrite Z.abs_mul, (Z.abs_eq c) by lia.
  rewrite Z.mul_assoc. apply Z.mul_le_mono_nonneg_r; lia.
Qed.

(* the result is a binary64 normal number in the range of the 12-decimal
   files: 10^-12 <= N/10^12 < 2^1000 *)
Lemma nearest53_exponent_range s N : 0 < N -> N < 2 ^ 1000 ->
  - 1074 <= d_e (nearest53 (s, N, 12%nat)) <= 971.
Proof.
  intros HN Hlt. rewrite (nearest53_unfold s N 12%nat HN). cbv zeta.
  assert (L : 0 <= Z.log2 N < 1000).
  { split; [apply Z.log2_nonneg|]. apply Z.log2_lt_pow2; lia. }
  assert (E : work_exp N 12 = Z.log2 N - 92 \/ work_exp N 12 = Z.log2 N - 91).
  { unfold work_exp. change (Z.log2 (10 ^ Z.of_nat 12)) with 39.
    destruct (_ <? _); [left|right]; lia. }
  destruct (_ =? _); cbn [d_e]; lia.
Qed.

(* ================================================================== *)
(* 4. write then read one value                                        *)
(* ================================================================== *)

(* what comes back when the value x is written with 12 decimals and parsed *)
Definition reread (x : dyadic) : dyadic := nearest53 (d_neg x, to12 x, 12%nat).

(* |d| * 2^K, an integer when d_e d + K >= 0 *)
Definition mag (K : Z) (d : dyadic) : Z := d_m d * 2 ^ (d_e d + K).

(* K is a common scale for x and y *)
Definition scale_ok (K : Z) (x y : dyadic) : Prop := 0 <= K /\ 0 <= d_e x + K /\ 0 <= d_e y + K.

Lemma reread_correct x : wf x ->
  d_neg (reread x) = d_neg x /\
  ((to12 x = 0 /\ reread x = mkd (d_neg x) 0 0) \/
   (0 < to12 x /\ is_nearest53 (to12 x) 12 (d_m (reread x)) (d_e (reread x)))).
Proof.
  intros H. pose proof (to12_nonneg x H) as H0. unfold reread.
  destruct (Z.eq_dec (to12 x) 0) as [E|E].
  - rewrite nearest53_zero by lia. cbn. auto.
  - destruct (nearest53_correct (d_neg x) (to12 x) 12) as [A B]; [lia|]. split; [exact A|]. right. split; [lia|exact B].
Qed.

(* roundtrip_bound:   | read(write x) - x |  <=  5*10^-13 + ulp(read value)/2
   multiplied by 2 * 10^12 * 2^K (K any common scale), with r = reread x:
      2 * 10^12 * | |r| 2^K - |x| 2^K |  <=  2^K  +  10^12 * 2^(d_e r + K);
   the sign is preserved, so the same holds for the signed values. *)
Theorem roundtrip_bound x K : wf x -> scale_ok K x (reread x) ->
  d_neg (reread x) = d_neg x /\
  2 * 10 ^ 12 * Z.abs (mag K (reread x) - mag K x) <= 2 ^ K + 10 ^ 12 * 2 ^ (d_e (reread x) + K).
Proof.
  intros H (HK & HxK & HrK). destruct (reread_correct x H) as [Hs Hc]. split; [exact Hs|].
  pose proof (to12_scaled x K HK HxK) as Hp. unfold mag.
  assert (0 < 2 ^ K) by (apply Z.pow_pos_nonneg; lia).
  destruct Hc as [(E0 & Er)|(Hpos & Hn)].
  - rewrite Er in *. cbn [d_m d_e] in *. rewrite E0 in Hp.
    assert (0 < 2 ^ (0 + K)) by (apply Z.pow_pos_nonneg; lia). lia.
  - pose proof (is_nearest53_scaled _ _ _ _ K HK HrK Hn) as Hq.
    change (Z.of_nat 12) with 12 in Hq. lia.
Qed.

(* the excess over 5*10^-13 is at most half an ulp of the value read back:
      2 * 10^12 * 2^K * ( |r - x| - 5*10^-13 )  <=  10^12 * 2^K * 2^(d_e r) *)
Theorem excess_at_most_half_ulp x K : wf x -> scale_ok K x (reread x) ->
  2 * 10 ^ 12 * Z.abs (mag K (reread x) - mag K x) - 2 ^ K <= 10 ^ 12 * 2 ^ (d_e (reread x) + K).
Proof. intros H HK. destruct (roundtrip_bound x K H HK) as [_ B]. lia. Qed.

(* the value read back is a binary64 normal number or zero *)
Lemma reread_is_binary64 x : wf x -> to12 x < 2 ^ 1000 ->
  (d_m (reread x) = 0 \/ (norm53 (reread x) /\ - 1074 <= d_e (reread x) <= 971)).
Proof.
  intros H Hlt. destruct (reread_correct x H) as [_ [(E0 & Er)|(Hpos & Hn)]].
  - left. rewrite Er. reflexivity.
  - right. split; [exact (proj1 Hn)|]. unfold reread. apply nearest53_exponent_range; auto.
Qed.

(* roundtrip_exact_when_coarse: if the spacing 2^e of the doubles around x
   exceeds 10^-12 (e >= -39, i.e. |x| >= 2^13 = 8192: 2^-39 = 1.8e-12), the
   printed decimal is closer to x than to any other double and parsing
   returns x itself. *)
Theorem roundtrip_exact_when_coarse x : norm53 x -> - 39 <= d_e x -> reread x = x.
Proof.
  destruct x as [s m e]. unfold norm53, reread. cbn [d_neg d_m d_e]. intros Hm He.
  pose proof (fmt12_error (mkd s m e)) as [Hn Hp]. cbn [d_m d_e] in Hn, Hp. set (x := mkd s m e) in *.
  assert (Hwf : wf x) by (unfold wf; cbn; lia).
  destruct (Z_lt_le_dec e 0) as [Hlt|Hge].
  - specialize (Hn Hlt). set (b := 2 ^ (- e)) in *.
    assert (Hb1 : 0 < b) by (apply Z.pow_pos_nonneg; lia).
    assert (Hb2 : b <= 2 ^ 39) by (apply Z.pow_le_mono_r; lia).
    assert (HN : 0 < to12 x).
    { pose proof (to12_nonneg x Hwf). assert (~ (to12 x = 0)); [|lia]. intro E. rewrite E in Hn. lia. }
    apply nearest53_unique; auto. unfold is_nearest53, num, den.
    rewrite (Z.max_r 0 (- e)), (Z.max_l 0 e), Z.pow_0_r by lia. fold b.
    change (Z.of_nat 12) with 12.
    split; [lia|]. split; [lia|]. split; [intros; lia|].
    intros -> Hlow. exfalso.
    assert (Hx : to12 x = 2 ^ (52 + e) * 10 ^ 12).
    { unfold to12, x. cbn [d_m d_e]. destruct (0 <=? e) eqn:E; [apply Z.leb_le in E; lia|].
      apply rhe_exact; [apply Z.pow_pos_nonneg; lia|].
      replace (2 ^ 52) with (2 ^ (52 + e) * 2 ^ (- e)) by (rewrite <- Z.pow_add_r by lia; f_equal; lia). ring. }
    rewrite Hx in Hlow.
    replace (2 ^ (52 + e) * 10 ^ 12 * b) with (2 ^ 52 * 10 ^ 12) in Hlow; [lia|].
    unfold b. replace (2 ^ 52) with (2 ^ (52 + e) * 2 ^ (- e)) by (rewrite <- Z.pow_add_r by lia; f_equal; lia). ring.
  - specialize (Hp Hge). assert (0 < 2 ^ e) by (apply Z.pow_pos_nonneg; lia).
    assert (HN : 0 < to12 x) by (rewrite Hp; nia).
    apply nearest53_unique; auto. unfold is_nearest53, num, den.
    rewrite (Z.max_l 0 (- e)), (Z.max_r 0 e), Z.pow_0_r by lia.
    change (Z.of_nat 12) with 12. rewrite Hp.
    replace (m * (10 ^ 12 * 2 ^ e) - m * 2 ^ e * 10 ^ 12 * 1) with 0 by ring.
    replace (m * 2 ^ e * 10 ^ 12 * 1) with (m * (10 ^ 12 * 2 ^ e)) by ring.
    cbn [Z.abs]. split; [lia|]. split; [lia|]. split; intros; lia.
Qed.

(* is_nearest53 does not depend on how the decimal is written:
   N/10^k = (N*10^j)/10^(k+j) *)
Lemma is_nearest53_rescale N m e : is_nearest53 N 2 m e -> is_nearest53 (N * 10 ^ 10) 12 m e.
Proof.
  unfold is_nearest53. intros (A & B & C & D).
  assert (E1 : num (N * 10 ^ 10) e = 10 ^ 10 * num N e) by (unfold num; ring).
  assert (E2 : den 12 e = 10 ^ 10 * den 2 e).
  { unfold den. change (10 ^ Z.of_nat 12) with (10 ^ 10 * 10 ^ Z.of_nat 2). ring. }
  rewrite E1, E2. set (Dn := den 2 e) in *. set (Nn := num N e) in *.
  replace (m * (10 ^ 10 * Dn) - 10 ^ 10 * Nn) with (10 ^ 10 * (m * Dn - Nn)) by ring.
  rewrite Z.abs_mul. change (Z.abs (10 ^ 10)) with (10 ^ 10).
  split; [exact A|]. split; [lia|]. split; [intros; apply C; lia|]. intros; lia.
Qed.

(* reingest_grid_exact: the binary64 nearest to n/100 (a point of the 0.01 grid
   of the merged S(Q)) survives write + read unchanged, for EVERY n >= 0 (so in
   particular for 0 <= n <= 10^8) and either sign.
   Two cases: spacing > 10^-12 (coarse, above), or spacing <= 2^-40 < 10^-12:
   then |x - n/100| <= 2^-41 < 5*10^-13, the 12-digit rendering of x is exactly
   n/100 ("dd.dd0000000000") and parsing that gives nearest53(n/100) = x. *)
Theorem reingest_grid_exact s n : 0 <= n ->
  reread (nearest53 (s, n, 2%nat)) = nearest53 (s, n, 2%nat).
Proof.
  intros Hn. destruct (Z.eq_dec n 0) as [->|Hn0]; [reflexivity|].
  destruct (nearest53_correct s n 2) as [Hs Hnear]; [lia|].
  destruct (nearest53 (s, n, 2%nat)) as [s' m e] eqn:Ed. cbn [d_neg d_m d_e] in *. subst s'.
  destruct (Z_lt_le_dec e (- 39)) as [Hfine|Hcoarse].
  - unfold reread. cbn [d_neg].
    assert (Ht : to12 (mkd s m e) = n * 10 ^ 10).
    { unfold to12. cbn [d_m d_e]. destruct (0 <=? e) eqn:E; [apply Z.leb_le in E; lia|].
      destruct Hnear as (Hm & Hb & _). unfold num, den in Hb.
      rewrite (Z.max_r 0 (- e)), (Z.max_l 0 e), Z.pow_0_r in Hb by lia.
      change (10 ^ Z.of_nat 2) with 100 in Hb.
      assert (Hbig : 2 ^ 40 <= 2 ^ (- e)) by (apply Z.pow_le_mono_r; lia).
      set (b := 2 ^ (- e)) in *.
      apply rhe_unique; [lia| |]; lia. }
    rewrite Ht. apply nearest53_unique; [lia|]. apply is_nearest53_rescale. exact Hnear.
  - apply roundtrip_exact_when_coarse; [exact (proj1 Hnear)|cbn; lia].
Qed.

(* literal_5e13_refuted: "within 5e-13" is FALSE for the value read back.
   Witness 1: x = 0x1.9f93b119869a8p+0 = 7310906511354280 * 2^-52 (1.6233...);
   it is printed as 1.623347347958 (4.99999987e-13 below a print tie) and the
   double nearest to that text is 0x1.9f93b11987274p+0, 5.00044e-13 from x.
   Common scale K = 52:   2 * 10^12 * | r 2^52 - x 2^52 |  >  2^52. *)
Definition witness1 : dyadic := mkd false 7310906511354280 (-52).
Definition witness1_back : dyadic := mkd false 7310906511356532 (-52).

Theorem literal_5e13_refuted :
  exists d, b64 d /\ d_m d <= 10 ^ 6 * 2 ^ (- d_e d) (* |d| <= 10^6 *) /\
    read_values (write_file [d] [d]) = Some ([reread d], [reread d]) /\
    scale_ok 52 d (reread d) /\
    2 * 10 ^ 12 * Z.abs (mag 52 (reread d) - mag 52 d) > 2 ^ 52.
Proof.
  exists witness1. unfold b64, scale_ok.
  assert (E : reread witness1 = witness1_back) by (vm_compute; reflexivity).
  rewrite E. split; [|split; [|split; [|split]]].
  - vm_compute. split; congruence.
  - vm_compute. congruence.
  - vm_compute. reflexivity.
  - vm_compute. repeat split; congruence.
  - vm_compute. reflexivity.
Qed.

(* Witness 2 (worst case, a full ulp): x = 0x1.b0ffa3bab6c39p+12 =
   7617391788518457 * 2^-40 (6927.977...), where the spacing 2^-40 = 9.09e-13
   is below 10^-12; the text 6927.977472986146 parses to the NEXT double below,
   so the error is one ulp = 9.09e-13 = 1.82 * 5e-13. *)
Definition witness2 : dyadic := mkd false 7617391788518457 (-40).

Theorem literal_5e13_refuted_by_one_ulp :
  b64 witness2 /\ reread witness2 = mkd false 7617391788518456 (-40) /\
  2 * 10 ^ 12 * Z.abs (mag 40 (reread witness2) - mag 40 witness2) > 2 ^ 40.
Proof.
  split; [vm_compute; split; congruence|]. split; vm_compute; reflexivity.
Qed.

(* ================================================================== *)
(* 5. the text: rendering and parsing                                  *)
(* ================================================================== *)

Lemma app_assoc_s (a b c : string) : ((a ++ b) ++ c = a ++ (b ++ c))%string.
Proof. induction a; cbn; congruence. Qed.

Fixpoint str_all (p : ascii -> bool) (s : string) : bool :=
  match s with
  | EmptyString => true
  | String c r => p c && str_all p r
  end.

Lemma str_all_app p a b : str_all p (a ++ b)%string = str_all p a && str_all p b.
Proof. induction a; cbn; [reflexivity|]. rewrite IHa. apply andb_assoc. Qed.

Lemma str_all_impl (p q : ascii -> bool) s :
  (forall c, p c = true -> q c = true) -> str_all p s = true -> str_all q s = true.
Proof.
  intros H. induction s; cbn; [auto|]. intros E. apply andb_true_iff in E as [E1 E2].
  rewrite (H _ E1), (IHs E2). reflexivity.
Qed.

Definition is_dig (c : ascii) : bool := match digit_of c with Some _ => true | None => false end.
(* characters of a rendered number *)
Definition numc (c : ascii) : bool := (is_dig c || (c =? "-") || (c =? "."))%char.
(* characters of a data row (without its newline) *)
Definition linec (c : ascii) : bool := (numc c || (c =? " "))%char.
Definition nonl (c : ascii) : bool := negb (c =? nl)%char.
Definition nohash (c : ascii) : bool := negb (c =? "#")%char.
Definition nosp (c : ascii) : bool := negb (is_space c).

Lemma numc_props c : numc c = true -> nosp c = true /\ nohash c = true /\ nonl c = true.
Proof.
  destruct c as [[] [] [] [] [] [] [] []]; vm_compute; intros H; try discriminate H; repeat split; reflexivity.
Qed.

Lemma linec_props c : linec c = true -> nohash c = true /\ nonl c = true.
Proof.
  destruct c as [[] [] [] [] [] [] [] []]; vm_compute; intros H; try discriminate H; repeat split; reflexivity.
Qed.

Lemma digit_char_spec d : 0 <= d <= 9 ->
  digit_of (digit_char d) = Some d /\ (digit_char d =? ".")%char = false /\
  (digit_char d =? "-")%char = false /\ numc (digit_char d) = true.
Proof.
  intros H.
  assert (C : d = 0 \/ d = 1 \/ d = 2 \/ d = 3 \/ d = 4 \/ d = 5 \/ d = 6 \/ d = 7 \/ d = 8 \/ d = 9) by lia.
  repeat (destruct C as [->|C]; [vm_compute; repeat split; reflexivity|]). subst. vm_compute; repeat split; reflexivity.
Qed.

Lemma dig_range n w : 0 <= (n / 10 ^ Z.of_nat w) mod 10 <= 9.
Proof. pose proof (Z.mod_pos_bound (n / 10 ^ Z.of_nat w) 10). lia. Qed.

Lemma pow10_S w : 10 ^ Z.of_nat (S w) = 10 ^ Z.of_nat w * 10.
Proof. rewrite Nat2Z.inj_succ, Z.pow_succ_r by lia. ring. Qed.

Lemma pow10_pos w : 0 < 10 ^ Z.of_nat w.
Proof. apply Z.pow_pos_nonneg; lia. Qed.

Lemma horner_step n w :
  n mod 10 ^ Z.of_nat (S w) = (n / 10 ^ Z.of_nat w) mod 10 * 10 ^ Z.of_nat w + n mod 10 ^ Z.of_nat w.
Proof.
  rewrite pow10_S. pose proof (pow10_pos w). rewrite Z.rem_mul_r by lia. ring.
Qed.

Lemma digits_w_numc w n : str_all numc (digits_w w n) = true.
Proof.
  induction w; cbn [digits_w str_all]; [reflexivity|].
  destruct (digit_char_spec _ (dig_range n w)) as (_ & _ & _ & ->). exact IHw.
Qed.

(* the w digits, read back after a "." *)
Lemma parse_frac_digits w : forall n acc k,
  parse_frac (digits_w w n) acc k true = Some (acc * 10 ^ Z.of_nat w + n mod 10 ^ Z.of_nat w, (k + w)%nat).
Proof.
  induction w; intros n acc k.
  - cbn [digits_w parse_frac]. change (10 ^ Z.of_nat 0) with 1. rewrite Z.mod_1_r. f_equal. f_equal; [ring|lia].
  - cbn [digits_w parse_frac]. destruct (digit_char_spec _ (dig_range n w)) as (-> & _).
    rewrite IHw, horner_step, pow10_S. f_equal. f_equal; [ring|lia].
Qed.

(* the w digits, read back before the "." *)
Lemma parse_int_digits w : forall n acc seen r,
  parse_int (digits_w w n ++ r) acc seen =
  parse_int r (acc * 10 ^ Z.of_nat w + n mod 10 ^ Z.of_nat w) (seen || negb (w =? 0)%nat).
Proof.
  induction w; intros n acc seen r.
  - cbn [digits_w append Nat.eqb negb]. change (10 ^ Z.of_nat 0) with 1. rewrite Z.mod_1_r, orb_false_r.
    f_equal. ring.
  - cbn [digits_w append parse_int Nat.eqb negb]. destruct (digit_char_spec _ (dig_range n w)) as (-> & -> & _).
    rewrite IHw, horner_step, pow10_S, orb_true_r. cbn [orb]. f_equal. ring.
Qed.

Lemma ndigits_aux_bound fuel : forall n, 0 <= n < 2 ^ Z.of_nat fuel -> n < 10 ^ Z.of_nat (ndigits_aux fuel n).
Proof.
  induction fuel; intros n Hn.
  - change (2 ^ Z.of_nat 0) with 1 in Hn. cbn [ndigits_aux]. change (10 ^ Z.of_nat 1) with 10. lia.
  - cbn [ndigits_aux]. destruct (n <? 10) eqn:E.
    + apply Z.ltb_lt in E. change (10 ^ Z.of_nat 1) with 10. lia.
    + apply Z.ltb_ge in E. rewrite Nat2Z.inj_succ, Z.pow_succ_r in Hn by lia.
      assert (0 < 2 ^ Z.of_nat fuel) by (apply Z.pow_pos_nonneg; lia).
      assert (H1 : 0 <= n / 10 < 2 ^ Z.of_nat fuel).
      { split; [apply Z.div_pos; lia|apply Z.div_lt_upper_bound; lia]. }
      specialize (IHfuel _ H1). rewrite pow10_S.
      pose proof (Z.div_mod n 10). pose proof (Z.mod_pos_bound n 10). lia.
Qed.

Lemma ndigits_bound n : 0 <= n -> n < 10 ^ Z.of_nat (ndigits n).
Proof.
  intros Hn. unfold ndigits. apply ndigits_aux_bound. split; [lia|].
  rewrite Nat2Z.inj_succ, Z2Nat.id by apply Z.log2_nonneg.
  destruct (Z.eq_dec n 0) as [->|]; [reflexivity|]. apply Z.log2_spec. lia.
Qed.

Lemma ndigits_S n : exists k, ndigits n = S k.
Proof. unfold ndigits. cbn [ndigits_aux]. destruct (n <? 10); eauto. Qed.

(* "%d" read back: the digits of dec n denote n *)
Lemma dec_parse n acc seen r : 0 <= n ->
  parse_int (dec n ++ r) acc seen = parse_int r (acc * 10 ^ Z.of_nat (ndigits n) + n) true.
Proof.
  intros Hn. unfold dec. rewrite parse_int_digits.
  rewrite Z.mod_small by (split; [lia|apply ndigits_bound; lia]).
  destruct (ndigits_S n) as [k ->]. cbn [Nat.eqb negb]. rewrite orb_true_r. reflexivity.
Qed.

Lemma dec_head n : exists c r, dec n = String c r /\ (c =? "-")%char = false.
Proof.
  unfold dec. destruct (ndigits_S n) as [k ->]. cbn [digits_w]. eexists _, _. split; [reflexivity|].
  apply (digit_char_spec _ (dig_range n k)).
Qed.

Lemma dec_numc n : str_all numc (dec n) = true.
Proof. apply digits_w_numc. Qed.

(* the count line denotes its count *)
Lemma dec_value n : 0 <= n -> parse_field (dec n) = Some (false, n, 0%nat).
Proof.
  intros Hn. destruct (dec_head n) as (c & r & E & Hc).
  assert (P : parse_int (dec n) 0 false = Some (n, 0%nat)).
  { replace (dec n) with (dec n ++ "")%string by (clear; induction (dec n); cbn; congruence).
    rewrite dec_parse by lia. cbn [parse_int]. rewrite Z.mul_0_l, Z.add_0_l. reflexivity. }
  unfold parse_field. rewrite E, Hc, <- E, P. reflexivity.
Qed.

Lemma render12_numc s N : str_all numc (render12 s N) = true.
Proof.
  unfold render12. rewrite !str_all_app, dec_numc, digits_w_numc. destruct s; reflexivity.
Qed.

Lemma render12_nonempty s N : nonempty (render12 s N) = true.
Proof.
  unfold render12. destruct s; [reflexivity|]. cbn [append].
  destruct (dec_head (N / 10 ^ 12)) as (c & r & -> & _). reflexivity.
Qed.

(* string-level round trip of one number: the reader recovers exactly the
   sign and the integer the writer printed, with 12 fractional digits *)
Theorem parse_field_render12 s N : 0 <= N -> parse_field (render12 s N) = Some (s, N, 12%nat).
Proof.
  intros HN. unfold render12.
  assert (HI : 0 <= N / 10 ^ 12) by (apply Z.div_pos; lia).
  assert (P : parse_int (dec (N / 10 ^ 12) ++ String "." (digits_w 12 (N mod 10 ^ 12))) 0 false = Some (N, 12%nat)).
  { rewrite dec_parse by lia. cbn [parse_int]. change ("." =? ".")%char with true. cbv iota.
    rewrite parse_frac_digits. change (10 ^ Z.of_nat 12) with (10 ^ 12).
    rewrite Z.mod_mod by lia. f_equal. f_equal. pose proof (Z.div_mod N (10 ^ 12)). lia. }
  destruct s.
  - cbn [append parse_field]. change ("-" =? "-")%char with true. cbv iota. rewrite P. reflexivity.
  - cbn [append]. destruct (dec_head (N / 10 ^ 12)) as (c & r & E & Hc).
    unfold parse_field. rewrite E in *. cbn [append] in *. rewrite Hc, P. reflexivity.
Qed.

(* ------------------------------------------------------------------ *)
(* lines                                                               *)
(* ------------------------------------------------------------------ *)

Lemma split_lines_line l rest : str_all nonl l = true ->
  split_lines (l ++ String nl rest) = l :: split_lines rest.
Proof.
  induction l; cbn [append split_lines str_all]; intros H.
  - rewrite Ascii.eqb_refl. reflexivity.
  - apply andb_true_iff in H as [H1 H2]. unfold nonl in H1. apply negb_true_iff in H1.
    rewrite H1, (IHl H2). reflexivity.
Qed.

(* the text of one data row, without its newline *)
Definition rowtext (p : dyadic * dyadic) : string := (fmt12 (fst p) ++ " " ++ fmt12 (snd p))%string.

Lemma row_rowtext p : row p = (rowtext p ++ String nl "")%string.
Proof. unfold row, rowtext. rewrite !app_assoc_s. reflexivity. Qed.

Lemma rowtext_linec p : str_all linec (rowtext p) = true.
Proof.
  unfold rowtext, fmt12. rewrite !str_all_app.
  assert (L : forall s N, str_all linec (render12 s N) = true).
  { intros. apply (str_all_impl numc); [|apply render12_numc]. intros c H. unfold linec. rewrite H. reflexivity. }
  rewrite !L. reflexivity.
Qed.

Lemma split_lines_rows ps : split_lines (cat_all (map row ps)) = map rowtext ps.
Proof.
  induction ps as [|p ps IH]; [reflexivity|]. cbn [map cat_all].
  rewrite row_rowtext, app_assoc_s. cbn [append]. rewrite split_lines_line, IH; [reflexivity|].
  apply (str_all_impl linec); [|apply rowtext_linec]. intros c H. apply (linec_props c H).
Qed.

(* The lines of a written file: the count of x values followed by a space, the
   comment line, then one line per zipped pair, and nothing else. *)
Theorem file_lines xs ys :
  split_lines (write_file xs ys) =
    (dec (Z.of_nat (List.length xs)) ++ " ")%string :: "# Comment line"%string :: map rowtext (combine xs ys).
Proof.
  unfold write_file. rewrite <- app_assoc_s. rewrite split_lines_line.
  - f_equal. rewrite split_lines_line; [|reflexivity]. f_equal. apply split_lines_rows.
  - rewrite str_all_app. rewrite (str_all_impl numc nonl); [reflexivity| |apply dec_numc].
    intros c H. apply (numc_props c H).
Qed.

(* header_count_eq_rows.  PyStoG writes len(x) in the header and zip(x, y)
   rows; they agree when x is not longer than y (the write_out_* callers pass a master grid and
   a curve computed on it).  The first line then is the decimal of min(|xs|,|ys|) and a
   space, the second the comment, then exactly that many rows. *)
Theorem header_count_eq_rows xs ys : (List.length xs <= List.length ys)%nat ->
  let n := Nat.min (List.length xs) (List.length ys) in
  exists rows,
    split_lines (write_file xs ys) = (dec (Z.of_nat n) ++ " ")%string :: "# Comment line"%string :: rows /\
    List.length rows = n /\
    rows = map rowtext (combine xs ys) /\
    parse_field (dec (Z.of_nat n)) = Some (false, Z.of_nat n, 0%nat).
Proof.
  intros Hle n. exists (map rowtext (combine xs ys)).
  assert (En : n = List.length xs) by (unfold n; lia).
  split; [rewrite En; apply file_lines|]. split; [rewrite map_length, combine_length; reflexivity|].
  split; [reflexivity|]. apply dec_value. lia.
Qed.

(* when x is longer than y the header count is NOT the number of rows *)
Example header_count_mismatch :
  let x := mkd false 1 0 in
  split_lines (write_file [x; x] [x]) = ["2 "; "# Comment line"; "1.000000000000 1.000000000000"]%string.
Proof. vm_compute. reflexivity. Qed.

(* ------------------------------------------------------------------ *)
(* fields and rows                                                     *)
(* ------------------------------------------------------------------ *)

Lemma strip_comment_id s : str_all nohash s = true -> strip_comment s = s.
Proof.
  induction s; cbn [strip_comment str_all]; [reflexivity|]. intros H.
  apply andb_true_iff in H as [H1 H2]. unfold nohash in H1. apply negb_true_iff in H1.
  rewrite H1, (IHs H2). reflexivity.
Qed.

Lemma split_sp_word w : str_all nosp w = true -> split_sp w = [w].
Proof.
  induction w; cbn [split_sp str_all]; [reflexivity|]. intros H.
  apply andb_true_iff in H as [H1 H2]. unfold nosp in H1. apply negb_true_iff in H1.
  rewrite H1, (IHw H2). reflexivity.
Qed.

Lemma split_sp_cons w rest : str_all nosp w = true ->
  split_sp (w ++ String " " rest) = w :: split_sp rest.
Proof.
  induction w; cbn [append split_sp str_all]; intros H.
  - reflexivity.
  - apply andb_true_iff in H as [H1 H2]. unfold nosp in H1. apply negb_true_iff in H1.
    rewrite H1, (IHw H2). reflexivity.
Qed.

Definition toks (p : dyadic * dyadic) : list string := [fmt12 (fst p); fmt12 (snd p)].

Lemma fields_row p : fields (strip_comment (rowtext p)) = toks p.
Proof.
  rewrite strip_comment_id.
  2:{ apply (str_all_impl linec); [|apply rowtext_linec]. intros c H. apply (linec_props c H). }
  unfold rowtext, fields, fmt12. cbn [append].
  assert (S : forall s N, str_all nosp (render12 s N) = true).
  { intros. apply (str_all_impl numc); [|apply render12_numc]. intros c H. apply (numc_props c H). }
  rewrite split_sp_cons, split_sp_word by apply S.
  cbn [filter]. rewrite !render12_nonempty. reflexivity.
Qed.

Lemma token_rows_written xs ys : token_rows (write_file xs ys) = map toks (combine xs ys).
Proof.
  unfold token_rows. rewrite file_lines. cbn [skipn]. rewrite map_map.
  induction (combine xs ys) as [|p ps IH]; [reflexivity|].
  cbn [map filter]. rewrite fields_row. cbn [toks is_nil negb]. f_equal. exact IH.
Qed.

(* what the reader gets for one value: sign, printed integer, 12 digits *)
Definition enc (d : dyadic) : decnum := (d_neg d, to12 d, 12%nat).
Definition wf2 (p : dyadic * dyadic) : Prop := wf (fst p) /\ wf (snd p).

Lemma parse_toks p : wf2 p ->
  all_some (map parse_field (toks p)) = Some [enc (fst p); enc (snd p)].
Proof.
  intros [H1 H2]. unfold toks, fmt12. cbn [map all_some].
  rewrite !parse_field_render12 by (apply to12_nonneg; assumption). reflexivity.
Qed.

Lemma parse_rows_written xs ys : Forall wf2 (combine xs ys) ->
  parse_rows (write_file xs ys) = Some (map (fun p => [enc (fst p); enc (snd p)]) (combine xs ys)).
Proof.
  unfold parse_rows. rewrite token_rows_written. rewrite map_map.
  induction (combine xs ys) as [|p ps IH]; intros H; [reflexivity|].
  inversion H as [|? ? H1 H3]; subst.
  change (map (fun x => all_some (map parse_field (toks x))) (p :: ps))
    with (all_some (map parse_field (toks p)) :: map (fun x => all_some (map parse_field (toks x))) ps).
  rewrite (parse_toks p H1). cbn [all_some]. rewrite (IH H3). reflexivity.
Qed.

Lemma wf2_combine xs ys : Forall wf xs -> Forall wf ys -> Forall wf2 (combine xs ys).
Proof.
  intros Hx Hy. apply Forall_forall. intros [a b] Hin. split; cbn.
  - eapply Forall_forall; [exact Hx|]. eapply in_combine_l; eauto.
  - eapply Forall_forall; [exact Hy|]. eapply in_combine_r; eauto.
Qed.

(* read_write_shape: reading a written file yields two columns with one entry
   per written row, and each entry is exactly (sign, printed integer, 12). *)
Theorem read_write_shape xs ys : Forall wf xs -> Forall wf ys -> combine xs ys <> [] ->
  read_file (write_file xs ys) =
    Some (map (fun p => enc (fst p)) (combine xs ys), map (fun p => enc (snd p)) (combine xs ys)).
Proof.
  intros Hx Hy Hne. unfold read_file. rewrite parse_rows_written by (apply wf2_combine; assumption).
  destruct (combine xs ys) as [|p ps]; [congruence|]. cbn [map List.length Nat.leb].
  assert (F : forallb (fun r : list decnum => (List.length r =? 2)%nat)
                      (map (fun p => [enc (fst p); enc (snd p)]) ps) = true).
  { clear. induction ps; cbn; auto. }
  rewrite F. cbn [andb nth]. rewrite !map_map. reflexivity.
Qed.

Corollary read_write_lengths xs ys cx cy :
  read_file (write_file xs ys) = Some (cx, cy) -> Forall wf xs -> Forall wf ys -> combine xs ys <> [] ->
  List.length cx = Nat.min (List.length xs) (List.length ys) /\
  List.length cy = Nat.min (List.length xs) (List.length ys).
Proof.
  intros E Hx Hy Hne. rewrite (read_write_shape xs ys Hx Hy Hne) in E. inversion E; subst.
  rewrite !map_length, combine_length. auto.
Qed.

(* an empty curve is written as a header only; the reader (like read_dataset,
   which raises RuntimeError on loadtxt's empty array) rejects it *)
Lemma read_empty ys : read_file (write_file [] ys) = None.
Proof. reflexivity. Qed.

(* the values: every written pair comes back as (reread x, reread y) *)
Theorem read_values_written xs ys : Forall wf xs -> Forall wf ys -> combine xs ys <> [] ->
  read_values (write_file xs ys) =
    Some (map (fun p => reread (fst p)) (combine xs ys), map (fun p => reread (snd p)) (combine xs ys)).
Proof.
  intros Hx Hy Hne. unfold read_values. rewrite (read_write_shape xs ys Hx Hy Hne).
  cbn [option_map fst snd]. rewrite !map_map. reflexivity.
Qed.

Lemma combine_fst {A B} (xs : list A) (ys : list B) : List.length xs = List.length ys ->
  map fst (combine xs ys) = xs /\ map snd (combine xs ys) = ys.
Proof.
  revert ys. induction xs as [|x xs IH]; destruct ys as [|y ys]; cbn; intros H; try discriminate; auto.
  destruct (IH ys) as [-> ->]; [lia|]. auto.
Qed.

Corollary read_values_same_length xs ys : Forall wf xs -> Forall wf ys ->
  List.length xs = List.length ys -> xs <> [] ->
  read_values (write_file xs ys) = Some (map reread xs, map reread ys).
Proof.
  intros Hx Hy Hl Hne. rewrite read_values_written; auto.
  - destruct (combine_fst xs ys Hl) as [E1 E2].
    rewrite <- (map_map fst reread), <- (map_map snd reread), E1, E2. reflexivity.
  - destruct xs, ys; cbn in *; congruence.
Qed.

(* ================================================================== *)
(* 6. is_nearest53 really means "nearest double"                       *)
(* ================================================================== *)

(* No 53-bit value m2 * 2^e2 (any exponent) is closer to N/10^k than the
   result m * 2^e.  Scaled by 10^k * 2^K for a common scale K:
      | m 2^(e+K) 10^k - N 2^K |  <=  | m2 2^(e2+K) 10^k - N 2^K |. *)
Theorem is_nearest53_optimal N k m e m2 e2 K :
  is_nearest53 N k m e -> 0 <= m2 < 2 ^ 53 -> 0 <= K -> 0 <= e + K -> 0 <= e2 + K ->
  Z.abs (m * 2 ^ (e + K) * 10 ^ Z.of_nat k - N * 2 ^ K) <=
  Z.abs (m2 * 2 ^ (e2 + K) * 10 ^ Z.of_nat k - N * 2 ^ K).
Proof.
  intros (Hm & Hb & _ & Hq) Hm2 HK HeK He2K.
  destruct (numden_scaled N k e K HK HeK) as (c & Hc & Hn & Hd).
  set (T := 10 ^ Z.of_nat k) in *. set (W := N * 2 ^ K) in *.
  assert (HT : 0 < T) by (apply Z.pow_pos_nonneg; lia).
  assert (HA : 0 < 2 ^ (e + K)) by (apply Z.pow_pos_nonneg; lia).
  assert (HA2 : 0 < 2 ^ (e2 + K)) by (apply Z.pow_pos_nonneg; lia).
  set (A := 2 ^ (e + K)) in *. set (A2 := 2 ^ (e2 + K)) in *.
  assert (HX : 0 < T * A) by (apply Z.mul_pos_pos; lia).
  pose proof (den_pos k e) as Hde.
  assert (Hb' : 2 * Z.abs (m * (T * A) - W) <= T * A).
  { rewrite <- Hn, <- Hd. replace (m * (den k e * c) - num N e * c) with ((m * den k e - num N e) * c) by ring.
    rewrite Z.abs_mul, (Z.abs_eq c) by lia. rewrite Z.mul_assoc. apply Z.mul_le_mono_nonneg_r; lia. }
  assert (Hq' : m = 2 ^ 52 -> W < m * (T * A) -> 4 * (m * (T * A) - W) <= T * A).
  { intros E L. rewrite <- Hn, <- Hd in *.
    assert (L' : num N e < m * den k e).
    { apply (Z.mul_lt_mono_pos_r c); [lia|]. rewrite <- Z.mul_assoc. exact L. }
    specialize (Hq E L').
    replace (4 * (m * (den k e * c) - num N e * c)) with (4 * (m * den k e - num N e) * c) by ring.
    apply Z.mul_le_mono_nonneg_r; lia. }
  replace (m * A * T) with (m * (T * A)) by ring.
  assert (Hlow : 2 ^ 52 * (T * A) <= m * (T * A)) by (apply Z.mul_le_mono_nonneg_r; lia).
  destruct (Z_le_gt_dec e e2) as [Hle|Hgt].
  - (* the candidate is a multiple n of the result's ulp *)
    assert (EA : A2 = 2 ^ (e2 - e) * A).
    { unfold A, A2. rewrite <- Z.pow_add_r by lia. f_equal. lia. }
    replace (m2 * A2 * T) with (m2 * 2 ^ (e2 - e) * (T * A)) by (rewrite EA; ring).
    set (n := m2 * 2 ^ (e2 - e)).
    destruct (Z.eq_dec n m) as [->|Hne]; [lia|].
    assert (C : n <= m - 1 \/ m + 1 <= n) by lia. destruct C as [C|C].
    + assert (n * (T * A) <= (m - 1) * (T * A)) by (apply Z.mul_le_mono_nonneg_r; lia). lia.
    + assert ((m + 1) * (T * A) <= n * (T * A)) by (apply Z.mul_le_mono_nonneg_r; lia). lia.
  - (* the candidate lies in a lower binade: it is at most (2^53 - 1)/2 ulps *)
    assert (EA : 2 * A2 <= A).
    { unfold A, A2. rewrite <- pow2_plus1 by lia. apply Z.pow_le_mono_r; lia. }
    assert (H1 : m2 * (T * A2) <= (2 ^ 53 - 1) * (T * A2)).
    { apply Z.mul_le_mono_nonneg_r; [|lia]. apply Z.mul_nonneg_nonneg; lia. }
    assert (H2 : T * (2 * A2) <= T * A) by (apply Z.mul_le_mono_nonneg_l; lia).
    replace (m2 * A2 * T) with (m2 * (T * A2)) by ring.
    destruct (Z_le_gt_dec (m * (T * A)) W) as [Hup|Hdown]; [lia|].
    destruct (Z.eq_dec m (2 ^ 52)) as [E|E].
    + specialize (Hq' E ltac:(lia)). lia.
    + assert ((2 ^ 52 + 1) * (T * A) <= m * (T * A)) by (apply Z.mul_le_mono_nonneg_r; lia). lia.
Qed.

(* ================================================================== *)
(* 7. the statements are not vacuous                                   *)
(* ================================================================== *)

(* 0.1 = 0x1.999999999999ap-4 *)
Definition d_tenth : dyadic := mkd false 7205759403792794 (-56).
(* 123456.789 = 0x1.e240c9fbe76c9p+16 *)
Definition d_big : dyadic := mkd true 8483885939586761 (-36).

Example fmt12_error_nonvacuous :
  d_e d_tenth < 0 /\ to12 d_tenth = 100000000000 /\ fmt12 d_tenth = "0.100000000000"%string /\
  fmt12 d_big = "-123456.789000000004"%string /\ fmt12 (mkd true 1 (-80)) = "-0.000000000000"%string.
Proof. vm_compute. repeat split; congruence. Qed.

Example nearest53_correct_nonvacuous :
  nearest53 (false, 1, 1%nat) = d_tenth /\ is_nearest53 1 1 (d_m d_tenth) (d_e d_tenth).
Proof.
  split; [vm_compute; reflexivity|].
  replace (d_m d_tenth) with (d_m (nearest53 (false, 1, 1%nat))) by (vm_compute; reflexivity).
  replace (d_e d_tenth) with (d_e (nearest53 (false, 1, 1%nat))) by (vm_compute; reflexivity).
  apply nearest53_correct. lia.
Qed.

(* ties go to the even mantissa: 2^53 + 1 -> 2^53, 2^53 + 3 -> 2^53 + 4 *)
Example nearest53_ties_even :
  nearest53 (false, 9007199254740993, 0%nat) = mkd false 4503599627370496 1 /\
  nearest53 (false, 9007199254740995, 0%nat) = mkd false 4503599627370498 1.
Proof. vm_compute. split; reflexivity. Qed.

Example roundtrip_bound_nonvacuous :
  wf d_tenth /\ scale_ok 56 d_tenth (reread d_tenth) /\ reread d_tenth = d_tenth.
Proof. vm_compute. repeat split; congruence. Qed.

Example roundtrip_exact_when_coarse_nonvacuous : norm53 d_big /\ - 39 <= d_e d_big.
Proof. vm_compute. repeat split; congruence. Qed.

(* 123.45 = 0x1.edccccccccccdp+6, a fine-spacing grid value *)
Example reingest_grid_exact_nonvacuous :
  nearest53 (false, 12345, 2%nat) = mkd false 8687021468732621 (-46) /\
  to12 (mkd false 8687021468732621 (-46)) = 12345 * 10 ^ 10.
Proof. vm_compute. split; reflexivity. Qed.

Example read_write_shape_nonvacuous :
  Forall wf [d_tenth; d_big] /\ Forall wf [d_big; witness1] /\ combine [d_tenth; d_big] [d_big; witness1] <> [] /\
  write_file [d_tenth; d_big] [d_big; witness1] =
    String.concat (String nl "")
      ["2 "; "# Comment line"; "0.100000000000 -123456.789000000004";
       "-123456.789000000004 1.623347347958"; ""]%string.
Proof.
  split; [|split; [|split]].
  - repeat constructor; vm_compute; congruence.
  - repeat constructor; vm_compute; congruence.
  - discriminate.
  - vm_compute. reflexivity.
Qed.

Example header_count_eq_rows_nonvacuous :
  (List.length [d_tenth; d_big] <= List.length [d_big; witness1; d_tenth])%nat.
Proof. cbn. lia. Qed.

(* ================================================================== *)
(* 8. packaged statements for props/C18.v                              *)
(* ================================================================== *)

(* float(text): sign kept, normalised 53-bit mantissa, within half an ulp,
   ties to even, and no other 53-bit value (any exponent) is closer *)
Theorem parse_is_nearest_double s N k : 0 < N ->
  let r := nearest53 (s, N, k) in
  d_neg r = s /\ 2 ^ 52 <= d_m r < 2 ^ 53 /\
  2 * Z.abs (d_m r * den k (d_e r) - num N (d_e r)) <= den k (d_e r) /\
  (2 * Z.abs (d_m r * den k (d_e r) - num N (d_e r)) = den k (d_e r) -> Z.even (d_m r) = true) /\
  (forall m2 e2 K, 0 <= m2 < 2 ^ 53 -> 0 <= K -> 0 <= d_e r + K -> 0 <= e2 + K ->
     Z.abs (d_m r * 2 ^ (d_e r + K) * 10 ^ Z.of_nat k - N * 2 ^ K) <=
     Z.abs (m2 * 2 ^ (e2 + K) * 10 ^ Z.of_nat k - N * 2 ^ K)).
Proof.
  intros HN r. destruct (nearest53_correct s N k HN) as [Hs Hn]. fold r in Hs, Hn.
  split; [exact Hs|]. destruct Hn as (A & B & C & D).
  split; [exact A|]. split; [exact B|]. split; [exact C|].
  intros m2 e2 K H1 H2 H3 H4. apply is_nearest53_optimal; auto. unfold is_nearest53; auto.
Qed.

(* |x| <= 10^6 (at a common scale) bounds the printed integer *)
Lemma to12_le_of_mag x K : 0 <= K -> 0 <= d_e x + K -> mag K x <= 10 ^ 6 * 2 ^ K -> to12 x <= 10 ^ 18.
Proof.
  intros HK HeK Hmag. pose proof (to12_scaled x K HK HeK) as Hp. unfold mag in Hmag.
  assert (H2 : 0 < 2 ^ K) by (apply Z.pow_pos_nonneg; lia).
  assert (~ (10 ^ 18 + 1 <= to12 x)); [|lia]. intro H.
  assert ((10 ^ 18 + 1) * 2 ^ K <= to12 x * 2 ^ K) by (apply Z.mul_le_mono_nonneg_r; lia). lia.
Qed.

Theorem roundtrip_bound_b64 x K : wf x -> scale_ok K x (reread x) -> mag K x <= 10 ^ 6 * 2 ^ K ->
  d_neg (reread x) = d_neg x /\
  2 * 10 ^ 12 * Z.abs (mag K (reread x) - mag K x) <= 2 ^ K + 10 ^ 12 * 2 ^ (d_e (reread x) + K) /\
  (d_m (reread x) = 0 \/ (norm53 (reread x) /\ - 1074 <= d_e (reread x) <= 971)).
Proof.
  intros H HK Hmag. destruct (roundtrip_bound x K H HK) as [A B]. split; [exact A|]. split; [exact B|].
  apply reread_is_binary64; [exact H|]. destruct HK as (K0 & K1 & _).
  pose proof (to12_le_of_mag x K K0 K1 Hmag).
  assert (10 ^ 18 < 2 ^ 1000) by (vm_compute; reflexivity). lia.
Qed.
