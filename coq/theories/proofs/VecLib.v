(* VecLib.v -- list lemmas used by all proof files. *)
From Coq Require Import List Lia.
From PyStoG Require Import Num.
Import ListNotations.

Section V.
  Context {X Y Z W V : Type}.
  Lemma map2_length (f : X -> Y -> Z) l m : length (map2 f l m) = Nat.min (length l) (length m).
  Proof. revert m; induction l as [|x l IH]; intros [|y m]; cbn; auto. Qed.
  Lemma map_map2 (f : Z -> W) (g : X -> Y -> Z) l m :
    map f (map2 g l m) = map2 (fun x y => f (g x y)) l m.
  Proof. revert m; induction l as [|x l IH]; intros [|y m]; cbn; f_equal; auto. Qed.
  Lemma map2_map_r (f : X -> Z -> W) (g : Y -> Z) l m :
    map2 f l (map g m) = map2 (fun x y => f x (g y)) l m.
  Proof. revert m; induction l as [|x l IH]; intros [|y m]; cbn; f_equal; auto. Qed.
  Lemma map2_map_l (f : Z -> Y -> W) (g : X -> Z) l m :
    map2 f (map g l) m = map2 (fun x y => f (g x) y) l m.
  Proof. revert m; induction l as [|x l IH]; intros [|y m]; cbn; f_equal; auto. Qed.
  Lemma map2_map2_r (f : X -> Z -> W) (g : X -> Y -> Z) l m :
    map2 f l (map2 g l m) = map2 (fun x y => f x (g x y)) l m.
  Proof. revert m; induction l as [|x l IH]; intros [|y m]; cbn; f_equal; auto. Qed.
  Lemma map2_ext_in (f g : X -> Y -> Z) l m :
    (forall x y, In (x, y) (combine l m) -> f x y = g x y) -> map2 f l m = map2 g l m.
  Proof. revert m; induction l as [|x l IH]; intros [|y m] E; cbn; auto.
    f_equal; [apply E; left; reflexivity | apply IH; intros; apply E; right; assumption]. Qed.
  Lemma map2_ext (f g : X -> Y -> Z) l m : (forall x y, f x y = g x y) -> map2 f l m = map2 g l m.
  Proof. intros E. apply map2_ext_in. intros; apply E. Qed.
  Lemma map2_snd (l : list X) (m : list Y) : length m <= length l -> map2 (fun _ y => y) l m = m.
  Proof. revert m; induction l as [|x l IH]; intros [|y m] L; cbn in *; auto; try lia. f_equal. apply IH. lia. Qed.
  Lemma map2_fst (l : list X) (m : list Y) : length l <= length m -> map2 (fun x _ => x) l m = l.
  Proof. revert m; induction l as [|x l IH]; intros [|y m] L; cbn in *; auto; try lia. f_equal. apply IH. lia. Qed.
  Lemma map2_Forall_l (P : X -> Prop) (f g : X -> Y -> Z) l m :
    Forall P l -> (forall x y, P x -> f x y = g x y) -> map2 f l m = map2 g l m.
  Proof. intros F E. revert m; induction F as [|x l Px F IH]; intros [|y m]; cbn; auto. f_equal; auto. Qed.
  Lemma map2_as_map_combine (f : X -> Y -> Z) l m : map2 f l m = map (fun p => f (fst p) (snd p)) (combine l m).
  Proof. revert m; induction l as [|x l IH]; intros [|y m]; cbn; f_equal; auto. Qed.
End V.

Lemma map2_const_r {X Y Z W} (f : X -> Z -> W) (c : Z) (l : list X) (m : list Y) :
  map2 f l (map (fun _ => c) m) = map2 (fun x _ => f x c) l m.
Proof. apply map2_map_r. Qed.

Lemma nth_map2 {X Y Z} (f : X -> Y -> Z) l m i dx dy dz :
  i < length l -> i < length m -> nth i (map2 f l m) dz = f (nth i l dx) (nth i m dy).
Proof. revert m i; induction l as [|x l IH]; intros [|y m] [|i] Hl Hm; cbn in *; try lia; auto.
  apply IH; lia. Qed.
Lemma Forall_map2_ext {X Y Z} (P : X -> Prop) (f g : X -> Y -> Z) l m :
  Forall P l -> (forall x y, P x -> f x y = g x y) -> map2 f l m = map2 g l m.
Proof. apply map2_Forall_l. Qed.
