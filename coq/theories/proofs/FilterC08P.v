(* FilterC08P.v -- C08: what the Fourier filter removes, what it returns. *)
From Coq Require Import List Reals Lra Lia Bool ZArith.
From PyStoG Require Import Num NumR ConverterM TransformerM FilterM.
From PyStoG.proofs Require Import VecLib ConverterP CropP NamedP TransformerP FilterP.
Import ListNotations.
Open Scope R_scope.

(* ---------- list helpers ---------- *)
Lemma map2_plus_minus (a b : list R) : length a = length b -> map2 Rplus a (map2 Rminus b a) = b.
Proof.
  revert b; induction a as [|x a IH]; intros [|y b] L; cbn [map2 length] in *; try lia; auto.
  f_equal; [lra | apply IH; lia].
Qed.

Lemma map2_minus_zeros {X} (a : list R) (l : list X) : length a = length l ->
  map2 Rminus a (map (fun _ => 0) l) = a.
Proof.
  revert l; induction a as [|x a IH]; intros [|y l] L; cbn [map2 map length] in *; try lia; auto.
  f_equal; [lra | apply IH; lia].
Qed.

Lemma Forall_map2_l_gen {X Y Z} (P : X -> Prop) (Q : Z -> Prop) (f : X -> Y -> Z) l m :
  (forall a b, P a -> Q (f a b)) -> Forall P l -> Forall Q (map2 f l m).
Proof. intros E F; revert m; induction F as [|a l Pa F IH]; intros [|b m]; cbn; auto. Qed.
Lemma Forall_map2_r_gen {X Y Z} (P : Y -> Prop) (Q : Z -> Prop) (f : X -> Y -> Z) l m :
  (forall a b, P b -> Q (f a b)) -> Forall P m -> Forall Q (map2 f l m).
Proof. intros E F; revert l; induction F as [|b m Pb F IH]; intros [|a l]; cbn; auto. Qed.
Lemma Forall_select {X} (P : X -> Prop) m l : Forall P l -> Forall P (select m l).
Proof. intros F; revert m; induction F as [|a l Pa F IH]; intros [|c m]; cbn; auto. destruct c; auto. Qed.
Lemma Forall_map_gen {X Y} (P : X -> Prop) (Q : Y -> Prop) (f : X -> Y) l :
  (forall a, P a -> Q (f a)) -> Forall P l -> Forall Q (map f l).
Proof. intros E F; induction F; cbn; auto. Qed.

Lemma trapz_allzero (xs ys : list R) : Forall (fun v => v = 0) ys -> trapz xs ys = 0.
Proof.
  intros F; revert xs; induction F as [|y0 ys H0 F IH]; intros xs; [apply trapz_nil_r|].
  destruct xs as [|x0 [|x1 xs]]; try reflexivity.
  destruct F as [|y1 ys H1 F]; [reflexivity|].
  rewrite trapz_cons2, IH. subst. lra.
Qed.

(* two arrays that agree wherever the abscissa is inside the window have the same crop *)
Lemma select_agree (x l1 l2 : list R) a b :
  length l1 = length x -> length l2 = length x ->
  (forall i, (i < length x)%nat -> a <= nth i x 0 <= b -> nth i l1 0 = nth i l2 0) ->
  select (crop_mask x a b) l1 = select (crop_mask x a b) l2.
Proof.
  rewrite crop_mask_R. revert l1 l2.
  induction x as [|t x IH]; intros [|u l1] [|v l2] L1 L2 H; cbn [map select length] in *; try lia; auto.
  assert (IH' : select (map (inwin a b) x) l1 = select (map (inwin a b) x) l2).
  { apply IH; try lia. intros i Hi Hw. apply (H (S i)); [lia | exact Hw]. }
  destruct (inwin a b t) eqn:W; [|exact IH'].
  f_equal; [|exact IH'].
  assert (H0 : nth 0 (u :: l1) 0 = nth 0 (v :: l2) 0).
  { apply H; [lia|]. cbn [nth]. apply inwin_spec. exact W. }
  exact H0.
Qed.

(* ---------- the core of every variant with the crops resolved ---------- *)
Lemma core_of_simpl (G : gfun) (Q : rfun) r gr q y cutoff dgr dy (k : kw R) :
  length y = length q -> dok dy (length q) ->
  core_of G Q r gr q y cutoff dgr dy k =
  let g := fst (gconv G gg r gr dgr k) in
  let dg := snd (gconv G gg r gr dgr k) in
  let f := fst (rconv Q rF q y dy k) in
  let df := snd (rconv Q rF q y dy k) in
  let T := lowr_T r g q cutoff (Some dg) k in
  let yc := map2 Rminus f (tr_val T) in
  let dyc := map2 hyp df (tr_err T) in
  let B := F_to_g q yc r (Some dyc) k in
  mkfout q (tr_val T) q yc r (tr_val B) (tr_err T) dyc (tr_err B).
Proof.
  intros Ly Ld. unfold core_of. rewrite g_using_F_simpl.
  - reflexivity.
  - apply rconv_fst_length; assumption.
  - apply dok_some. apply rconv_snd_length; assumption.
Qed.

Lemma hyp_length (a b : list R) n : length a = n -> length b = n -> length (map2 hyp a b) = n.
Proof. intros La Lb. rewrite map2_length, La, Lb. apply Nat.min_id. Qed.
Lemma minus_length (a b : list R) n : length a = n -> length b = n -> length (map2 Rminus a b) = n.
Proof. intros La Lb. rewrite map2_length, La, Lb. apply Nat.min_id. Qed.

(* ================= 1. removed + corrected = input ================= *)
Theorem split_core (r gr q fq : list R) cutoff dgr dfq (k : kw R) :
  length fq = length q -> dok dfq (length q) ->
  let o := g_using_F r gr q fq cutoff dgr dfq k in
  map2 Rplus (y_ft o) (y_c o) = fq /\ q_ft o = q /\ q_c o = q.
Proof.
  intros Lf Ld. cbv zeta. rewrite g_using_F_simpl by assumption. cbv zeta.
  cbn [y_ft y_c q_ft q_c]. split; [|split; reflexivity].
  apply map2_plus_minus. rewrite lowr_T_val_length. symmetry; exact Lf.
Qed.

(* the additive constant of each reciprocal-space function: the split is additive in
   S-1, Q[S-1], F_K and DCS - <b_tot^2> *)
Definition addc (k : kw R) (Q : rfun) : R :=
  match Q with rS => 1 | rF => 0 | rFK => 0 | rDCS => btot k end.

Lemma split_pt (k : kw R) Q x a v : 0 < x -> bcoh k <> 0 ->
  (rval k rF Q x a - addc k Q) + (rval k rF Q x (rval k Q rF x v - a) - addc k Q) = v - addc k Q.
Proof.
  intros Hx Hb. destruct Q; cbn [rval addc];
  unfold vF_to_S, vF_to_FK, vFK_to_DCS, vS_to_F, vFK_to_F, vDCS_to_FK;
  rewrite ?sdiv_pos by assumption; field; lra.
Qed.

Lemma split_list (k : kw R) Q (q A y : list R) : allpos q -> bcoh k <> 0 ->
  length A = length q -> length y = length q ->
  map2 (fun a b => (a - addc k Q) + (b - addc k Q))
       (map2 (rval k rF Q) q A) (map2 (rval k rF Q) q (map2 Rminus (map2 (rval k Q rF) q y) A))
  = map (fun v => v - addc k Q) y.
Proof.
  intros Hq Hb. revert A y.
  induction Hq as [|x q Hx Hq IH]; intros [|a A] [|v y] LA Ly; cbn [map2 map length] in *; try lia; auto.
  f_equal; [apply split_pt; assumption | apply IH; lia].
Qed.

Theorem split_variants (G : gfun) (Q : rfun) (r gr q y : list R) cutoff dgr dy (k : kw R) :
  allpos q -> bcoh k <> 0 -> length y = length q -> dok dy (length q) ->
  let o := filter_variant G Q r gr q y cutoff dgr dy k in
  map2 (fun a b => (a - addc k Q) + (b - addc k Q)) (y_ft o) (y_c o) = map (fun v => v - addc k Q) y.
Proof.
  intros Hq Hb Ly Ld. cbv zeta. rewrite variant_normal_form.
  rewrite core_of_simpl by assumption. cbv zeta. unfold convert_out.
  cbn [y_ft y_c q_ft q_c dy_ft dy_c].
  set (T := lowr_T _ _ _ _ _ _).
  assert (LT : length (tr_val T) = length q) by apply lowr_T_val_length.
  assert (LE : length (tr_err T) = length q) by apply lowr_T_err_length.
  assert (Lf : length (fst (rconv Q rF q y dy k)) = length q) by (apply rconv_fst_length; assumption).
  assert (Ls : length (snd (rconv Q rF q y dy k)) = length q) by (apply rconv_snd_length; assumption).
  rewrite !(rconv_pointwise rF Q);
    try (apply dok_some); try assumption;
    try (apply hyp_length; assumption); try (apply minus_length; assumption).
  cbn [fst snd].
  rewrite (rconv_pointwise Q rF) by assumption. cbn [fst].
  apply split_list; assumption.
Qed.

(* ================= 3. uncertainties add in quadrature ================= *)
Theorem unc_quadrature_core (r gr q fq : list R) cutoff dgr dfq (k : kw R) :
  length fq = length q -> dok dfq (length q) ->
  let o := g_using_F r gr q fq cutoff dgr dfq k in
  dy_c o = map2 (fun a b => R_sqrt.sqrt (a * a + b * b)) (dflt_zeros fq dfq) (dy_ft o).
Proof.
  intros Lf Ld. cbv zeta. rewrite g_using_F_simpl by assumption. reflexivity.
Qed.

Lemma sqrt_scale (c x : R) : 0 <= c -> 0 <= x -> c * R_sqrt.sqrt x = R_sqrt.sqrt (c * c * x).
Proof.
  intros Hc Hx. rewrite sqrt_mult_alt by (apply Rmult_le_pos; assumption).
  rewrite sqrt_square by assumption. reflexivity.
Qed.

Lemma hyp_pt (k : kw R) Q x d e : 0 < x -> 0 < bcoh k ->
  rerr k rF Q x (hyp (rerr k Q rF x d) e) = hyp d (rerr k rF Q x e).
Proof.
  intros Hx Hb. rewrite !rerr_deriv by assumption.
  pose proof (rderiv_pos k rF Q x Hx Hb) as Hc. pose proof (rderiv_pos k Q rF x Hx Hb) as Hc'.
  rewrite !Rabs_pos_eq by lra.
  assert (Hb' : bcoh k <> 0) by lra.
  pose proof (rderiv_inv k Q rF x Hx Hb') as Hi.
  set (c := rderiv k rF Q x) in *. set (c' := rderiv k Q rF x) in *.
  unfold hyp. rewrite sqrt_scale.
  - f_equal.
    replace (c * c * (c' * d * (c' * d) + e * e)) with ((c * c') * (c * c') * (d * d) + c * e * (c * e)) by ring.
    rewrite Hi. ring.
  - lra.
  - apply Rplus_le_le_0_compat; apply Rle_0_sqr.
Qed.

Lemma hyp_list (k : kw R) Q (q d E : list R) : allpos q -> 0 < bcoh k ->
  length d = length q -> length E = length q ->
  map2 (rerr k rF Q) q (map2 hyp (map2 (rerr k Q rF) q d) E) = map2 hyp d (map2 (rerr k rF Q) q E).
Proof.
  intros Hq Hb. revert d E.
  induction Hq as [|x q Hx Hq IH]; intros [|a d] [|e E] Ld LE; cbn [map2 length] in *; try lia; auto.
  f_equal; [apply hyp_pt; assumption | apply IH; lia].
Qed.

Theorem unc_quadrature_variants (G : gfun) (Q : rfun) (r gr q y d : list R) cutoff dgr (k : kw R) :
  allpos q -> 0 < bcoh k -> length y = length q -> length d = length q ->
  let o := filter_variant G Q r gr q y cutoff dgr (Some d) k in
  dy_c o = map2 (fun a b => R_sqrt.sqrt (a * a + b * b)) d (dy_ft o).
Proof.
  intros Hq Hb Ly Ld. cbv zeta. rewrite variant_normal_form.
  assert (Dd : dok (Some d) (length q)) by (apply dok_some; exact Ld).
  rewrite core_of_simpl by assumption. cbv zeta. unfold convert_out.
  cbn [y_ft y_c q_ft q_c dy_ft dy_c].
  set (T := lowr_T _ _ _ _ _ _).
  assert (LT : length (tr_val T) = length q) by apply lowr_T_val_length.
  assert (LE : length (tr_err T) = length q) by apply lowr_T_err_length.
  assert (Lf : length (fst (rconv Q rF q y (Some d) k)) = length q) by (apply rconv_fst_length; assumption).
  assert (Ls : length (snd (rconv Q rF q y (Some d) k)) = length q) by (apply rconv_snd_length; assumption).
  rewrite !(rconv_pointwise rF Q);
    try (apply dok_some); try assumption;
    try (apply hyp_length; assumption); try (apply minus_length; assumption).
  cbn [fst snd dflt_zeros].
  rewrite (rconv_pointwise Q rF) by assumption. cbn [snd dflt_zeros].
  apply (hyp_list k Q q d (tr_err T)); assumption.
Qed.

(* ================= 4. the removed component ================= *)
(* As written the code transforms g_to_F of (g' + 1): the sine transform of
   G(r) = 4 pi rho r g'(r) on [0, cutoff] -- the real-space input is used as a
   deviation from 1, although the argument is documented as g(r). *)
Theorem removed_is_lowr_transform (r gr q fq : list R) cutoff dgr dfq (k : kw R) :
  let '(r', g', d') := apply_cropping r gr 0 cutoff dgr in
  let o := g_using_F r gr q fq cutoff dgr dfq k in
  (q_ft o, y_ft o, dy_ft o) = g_to_F r' (map (fun v => v + 1) g') q (Some d') k.
Proof.
  pose proof (g_using_F_ft r gr q fq cutoff dgr dfq k) as H. cbv zeta in H.
  unfold lowr_T, lowr in H. cbv zeta in H. revert H.
  destruct (apply_cropping r gr 0 cutoff dgr) as [[r' g'] d']. cbn [fst snd].
  intros [H1 [H2 H3]]. cbv zeta. rewrite H1, H2, H3.
  symmetry. apply (triple_eta (g_to_F r' (map (fun v => v + 1) g') q (Some d') k)).
Qed.

(* ================= 5. nothing beyond the cutoff matters ================= *)
Theorem beyond_cutoff_irrelevant (r g1 g2 q fq : list R) cutoff d1 d2 dfq (k : kw R) :
  apply_cropping r g1 0 cutoff d1 = apply_cropping r g2 0 cutoff d2 ->
  g_using_F r g1 q fq cutoff d1 dfq k = g_using_F r g2 q fq cutoff d2 dfq k.
Proof.
  intros E. rewrite !g_using_F_raw. unfold lowr_T, lowr. rewrite E. reflexivity.
Qed.

(* all 12 variants: only the crop of the *converted* real-space input matters *)
Theorem beyond_cutoff_irrelevant_variants (G : gfun) (Q : rfun) (r g1 g2 q y : list R) cutoff d1 d2 dy (k : kw R) :
  apply_cropping r (fst (gconv G gg r g1 d1 k)) 0 cutoff (Some (snd (gconv G gg r g1 d1 k)))
  = apply_cropping r (fst (gconv G gg r g2 d2 k)) 0 cutoff (Some (snd (gconv G gg r g2 d2 k))) ->
  filter_variant G Q r g1 q y cutoff d1 dy k = filter_variant G Q r g2 q y cutoff d2 dy k.
Proof.
  intros E. rewrite !variant_normal_form. f_equal. unfold core_of.
  apply beyond_cutoff_irrelevant. exact E.
Qed.

(* agreement of two arrays at every index whose r lies in [0, cutoff] *)
Definition agree_below (r : list R) (cutoff : R) (l1 l2 : list R) : Prop :=
  forall i, (i < length r)%nat -> 0 <= nth i r 0 <= cutoff -> nth i l1 0 = nth i l2 0.

(* all 12 variants, on the raw inputs: conversions are pointwise in r *)
Theorem beyond_cutoff_irrelevant_raw (G : gfun) (Q : rfun) (r g1 g2 q y : list R) cutoff d1 d2 dy (k : kw R) :
  length g1 = length r -> length g2 = length r -> dok d1 (length r) -> dok d2 (length r) ->
  agree_below r cutoff g1 g2 -> agree_below r cutoff (dflt_zeros g1 d1) (dflt_zeros g2 d2) ->
  filter_variant G Q r g1 q y cutoff d1 dy k = filter_variant G Q r g2 q y cutoff d2 dy k.
Proof.
  intros L1 L2 D1 D2 Ag Ad. apply beyond_cutoff_irrelevant_variants.
  rewrite !gconv_pointwise by assumption. cbn [fst snd].
  unfold apply_cropping. cbv zeta. cbn [dflt_zeros]. rewrite !select_map2.
  assert (E1 : select (crop_mask r 0 cutoff) g1 = select (crop_mask r 0 cutoff) g2)
    by (apply select_agree; assumption).
  assert (E2 : select (crop_mask r 0 cutoff) (dflt_zeros g1 d1) = select (crop_mask r 0 cutoff) (dflt_zeros g2 d2)).
  { apply select_agree; try assumption; apply dflt_zeros_length; assumption. }
  rewrite E1, E2. reflexivity.
Qed.

Lemma variant_rF_is_wrap_real (X : gfun) r gr q fq cutoff dgr dfq (k : kw R) :
  filter_variant X rF r gr q fq cutoff dgr dfq k = wrap_real X r gr q fq cutoff dgr dfq k.
Proof. destruct X; reflexivity. Qed.

Corollary beyond_cutoff_irrelevant_wrap_real (X : gfun) (r g1 g2 q fq : list R) cutoff d1 d2 dfq (k : kw R) :
  length g1 = length r -> length g2 = length r -> dok d1 (length r) -> dok d2 (length r) ->
  agree_below r cutoff g1 g2 -> agree_below r cutoff (dflt_zeros g1 d1) (dflt_zeros g2 d2) ->
  wrap_real X r g1 q fq cutoff d1 dfq k = wrap_real X r g2 q fq cutoff d2 dfq k.
Proof. intros. rewrite <- !variant_rF_is_wrap_real. apply beyond_cutoff_irrelevant_raw; assumption. Qed.

(* ================= 6. nothing at low r -> nothing removed ================= *)
Lemma lowr_T_zero (r gr q : list R) cutoff dgr (k : kw R) :
  omitted k = false ->
  Forall (fun v => v = 0) (snd (fst (apply_cropping r gr 0 cutoff dgr))) ->
  tr_val (lowr_T r gr q cutoff dgr k) = map (fun _ => 0) q.
Proof.
  intros Ho Z. unfold lowr_T, lowr. cbv zeta.
  destruct (apply_cropping r gr 0 cutoff dgr) as [[r' g'] d']. cbn [fst snd] in *.
  rewrite g_to_F_as_ft. unfold tr_val. rewrite ft_values by exact Ho. cbv zeta.
  apply map_ext. intros x'. unfold ft_core. apply trapz_allzero.
  apply Forall_map2_l_gen with (P := fun v => v = 0); [intros f xi ->; unfold kern; lra|].
  unfold vmul. apply Forall_map2_r_gen with (P := fun v => v = 0); [intros f e ->; numR; lra|].
  apply Forall_select. unfold g_to_G. cbn [fst dflt_zeros].
  apply Forall_map2_r_gen with (P := fun v => v = 1); [intros a b ->; numR; lra|].
  apply Forall_map_gen with (P := fun v => v = 0); [intros a ->; lra | exact Z].
Qed.

Theorem zero_lowr_untouched (r gr q fq : list R) cutoff dgr dfq (k : kw R) :
  omitted k = false -> length fq = length q -> dok dfq (length q) ->
  Forall (fun v => v = 0) (snd (fst (apply_cropping r gr 0 cutoff dgr))) ->
  let o := g_using_F r gr q fq cutoff dgr dfq k in
  y_ft o = map (fun _ => 0) q /\ y_c o = fq.
Proof.
  intros Ho Lf Ld Z. cbv zeta. rewrite g_using_F_simpl by assumption. cbv zeta.
  cbn [y_ft y_c]. rewrite (lowr_T_zero r gr q cutoff dgr k Ho Z). split; [reflexivity|].
  apply map2_minus_zeros. exact Lf.
Qed.

(* ================= 7. the returned real-space function ================= *)
Theorem returned_is_transform_of_corrected (r gr q fq : list R) cutoff dgr dfq (k : kw R) :
  let o := g_using_F r gr q fq cutoff dgr dfq k in
  (r_o o, g_o o, dg_o o) = F_to_g (q_c o) (y_c o) r (Some (dy_c o)) k.
Proof.
  cbv zeta. rewrite g_using_F_raw. cbv zeta. cbn [r_o g_o dg_o q_c y_c dy_c].
  symmetry. apply triple_eta.
Qed.

(* S <-> F round trip on values and uncertainties, Q > 0 only *)
Lemma S_F_roundtrip (k : kw R) (q a e : list R) : allpos q -> length a = length q -> length e = length q ->
  S_to_F q (fst (F_to_S q a (Some e) k)) (Some (snd (F_to_S q a (Some e) k))) k = (a, e).
Proof.
  intros Hq La Le.
  change (F_to_S q a (Some e) k) with (rconv rF rS q a (Some e) k).
  change S_to_F with (rconv rS rF).
  assert (De : dok (Some e) (length q)) by (apply dok_some; exact Le).
  rewrite (rconv_pointwise rS rF).
  2:{ apply rconv_fst_length; assumption. }
  2:{ apply dok_some. apply rconv_snd_length; assumption. }
  rewrite (rconv_pointwise rF rS) by assumption. cbn [fst snd dflt_zeros].
  f_equal.
  - apply ConverterP.map2_compose_id with (P := fun x => 0 < x); auto.
    intros x y Hx. cbn [rval]. unfold vS_to_F, vF_to_S. rewrite sdiv_pos by assumption. field; lra.
  - apply ConverterP.map2_compose_id with (P := fun x => 0 < x); auto.
    intros x y Hx. cbn [rerr]. unfold eS_to_F, eF_to_S. rewrite sdiv_pos by assumption. field; lra.
Qed.

Theorem returned_is_transform_of_corrected_S (r gr q y : list R) cutoff dgr dy (k : kw R) :
  allpos q -> length y = length q -> dok dy (length q) ->
  let o := g_using_S r gr q y cutoff dgr dy k in
  (r_o o, g_o o, dg_o o) = S_to_g (q_c o) (y_c o) r (Some (dy_c o)) k.
Proof.
  intros Hq Ly Ld. cbv zeta.
  change (g_using_S r gr q y cutoff dgr dy k) with (filter_variant gg rS r gr q y cutoff dgr dy k).
  rewrite variant_normal_form. rewrite core_of_simpl by assumption. cbv zeta. unfold convert_out.
  cbn [r_o g_o dg_o q_c y_c dy_c gconv idconv fst snd dflt_zeros].
  set (T := lowr_T _ _ _ _ _ _).
  set (yc := map2 Rminus _ _). set (dyc := map2 hyp _ _).
  assert (LT : length (tr_val T) = length q) by apply lowr_T_val_length.
  assert (LE : length (tr_err T) = length q) by apply lowr_T_err_length.
  assert (Lyc : length yc = length q).
  { apply minus_length; [|assumption]. apply (rconv_fst_length rS rF k); assumption. }
  assert (Ldyc : length dyc = length q).
  { apply hyp_length; [|assumption]. apply (rconv_snd_length rS rF k); assumption. }
  cbn [rconv]. unfold S_to_g. rewrite (S_F_roundtrip k q yc dyc Hq Lyc Ldyc).
  symmetry. apply triple_eta.
Qed.

(* all 12 variants: the returned real-space function is the variant's own named
   transform q2r Q G of its own corrected reciprocal-space function *)
Theorem returned_is_transform_of_corrected_all (G : gfun) (Q : rfun) (r gr q y : list R) cutoff dgr dy (k : kw R) :
  allpos q -> allpos r -> 0 < rho k -> 0 < bcoh k -> length y = length q -> dok dy (length q) ->
  let o := filter_variant G Q r gr q y cutoff dgr dy k in
  (r_o o, g_o o, dg_o o) = q2r Q G (q_c o) (y_c o) r (Some (dy_c o)) k.
Proof.
  intros Hq Hr Hp Hb Ly Ld. cbv zeta.
  rewrite variant_normal_form. rewrite core_of_simpl by assumption. cbv zeta. unfold convert_out.
  cbn [r_o g_o dg_o q_c y_c dy_c].
  set (T := lowr_T _ _ _ _ _ _).
  set (yc := map2 Rminus _ _). set (dyc := map2 hyp _ _).
  assert (LT : length (tr_val T) = length q) by apply lowr_T_val_length.
  assert (LE : length (tr_err T) = length q) by apply lowr_T_err_length.
  assert (Lyc : length yc = length q).
  { apply minus_length; [|assumption]. apply rconv_fst_length; assumption. }
  assert (Ldyc : length dyc = length q).
  { apply hyp_length; [|assumption]. apply rconv_snd_length; assumption. }
  rewrite (transforms_agree_q2r_full k rF Q gg G q yc r (Some dyc))
    by (first [assumption | apply dok_some; assumption]).
  cbv zeta. cbn [q2r]. reflexivity.
Qed.

(* ================= non-vacuity ================= *)
Definition k_ex : kw R := {| rho := 1; bcoh := 1; btot := 2; lorch := true; omitted := false |}.

Ltac allpos_tac := repeat constructor; lra.

Example split_core_nonvacuous :
  length [5; 6] = length [1; 2] /\ dok (Some [1; 1]) (length [1; 2]).
Proof. split; [reflexivity | apply dok_some; reflexivity]. Qed.

Example split_variants_nonvacuous :
  allpos [1; 2] /\ bcoh k_ex <> 0 /\ length [5; 6] = length [1; 2] /\ dok None (length [1; 2]).
Proof. split; [allpos_tac|]. split; [cbn; lra|]. split; [reflexivity | apply dok_none]. Qed.

Example unc_quadrature_variants_nonvacuous :
  allpos [1; 2] /\ 0 < bcoh k_ex /\ length [5; 6] = length [1; 2] /\ length [1; 1] = length [1; 2].
Proof. split; [allpos_tac|]. split; [cbn; lra|]. split; reflexivity. Qed.

Ltac decide_cmp :=
  repeat match goal with
  | |- context [Rleb ?a ?b] =>
      first [ rewrite (Rleb_true a b) by lra | rewrite (Rleb_false a b) by lra ]
  end.

(* two different inputs with the same crop to [0, 2] *)
Example beyond_cutoff_irrelevant_nonvacuous :
  apply_cropping [1; 2; 3] [4; 5; 6] 0 2 None = apply_cropping [1; 2; 3] [4; 5; 7] 0 2 (Some [0; 0; 9])
  /\ [4; 5; 6] <> [4; 5; 7].
Proof.
  split.
  - unfold apply_cropping, crop_mask. cbn [map dflt_zeros zeros_like]. numR. decide_cmp. reflexivity.
  - intros E. injection E as E. lra.
Qed.

Example beyond_cutoff_irrelevant_raw_nonvacuous :
  let r := [1; 2; 3] in let g1 := [4; 5; 6] in let g2 := [4; 5; 7] in
  length g1 = length r /\ length g2 = length r /\ dok None (length r) /\ dok (Some [0; 0; 9]) (length r) /\
  agree_below r 2 g1 g2 /\ agree_below r 2 (dflt_zeros g1 None) (dflt_zeros g2 (Some [0; 0; 9])) /\ g1 <> g2.
Proof.
  cbv zeta. split; [reflexivity|]. split; [reflexivity|]. split; [apply dok_none|].
  split; [apply dok_some; reflexivity|].
  split; [|split].
  - intros i Hi Hw. destruct i as [|[|[|i]]]; cbn in *; try reflexivity; try lra; lia.
  - intros i Hi Hw. destruct i as [|[|[|i]]]; cbn in *; try reflexivity; try lra; lia.
  - intros E. injection E as E. lra.
Qed.

(* a non-empty low-r window that carries no signal *)
Example zero_lowr_untouched_nonvacuous :
  omitted k_ex = false /\ length [5; 6] = length [1; 2] /\ dok None (length [1; 2]) /\
  apply_cropping [1; 2; 3] [0; 0; 7] 0 2 None = ([1; 2], [0; 0], [0; 0]).
Proof.
  split; [reflexivity|]. split; [reflexivity|]. split; [apply dok_none|].
  unfold apply_cropping, crop_mask. cbn [map dflt_zeros zeros_like]. numR. decide_cmp. reflexivity.
Qed.

Example returned_is_transform_of_corrected_all_nonvacuous :
  allpos [1; 2] /\ allpos [1; 2; 3] /\ 0 < rho k_ex /\ 0 < bcoh k_ex /\
  length [5; 6] = length [1; 2] /\ dok (Some [1; 1]) (length [1; 2]).
Proof.
  split; [allpos_tac|]. split; [allpos_tac|]. split; [cbn; lra|]. split; [cbn; lra|].
  split; [reflexivity | apply dok_some; reflexivity].
Qed.

Example unc_quadrature_core_nonvacuous :
  length [5; 6] = length [1; 2] /\ dok (Some [1; 1]) (length [1; 2]).
Proof. exact split_core_nonvacuous. Qed.

Example returned_is_transform_of_corrected_S_nonvacuous :
  allpos [1; 2] /\ length [5; 6] = length [1; 2] /\ dok None (length [1; 2]).
Proof. split; [allpos_tac|]. split; [reflexivity | apply dok_none]. Qed.

(* removed_is_lowr_transform, beyond_cutoff_irrelevant_variants and
   returned_is_transform_of_corrected have no hypotheses (the first and the last) or only the
   crop equation illustrated above. *)
