(* WindowP.v -- C05 / C13 for the 24 named transforms called WITH the window keywords
   xmin / xmax (model: WindowM.v, tables q2r_w / r2q_w).

   Part 1 (every carrier, no law of the operations assumed):
     - no window keywords = the un-windowed named transform (q2r / r2q);
     - decomposition: conversion ; core transform with the caller's window ; conversion;
     - every conversion of the two tables rconv / gconv commutes with boolean-mask selection,
       hence with the crop;
     - the window is a pre-crop of the input triple, for every named transform;
     - points outside the window cannot influence a named transform called with a window.
   Part 2 (the reals):
     - the index-wise form of "outside is irrelevant" with  lo <= q_i <= hi ;
     - sibling transforms agree after conversion, with the same window on both sides.
   Part 3: non-vacuity examples. *)
From Coq Require Import List Reals Lra Lia Bool ZArith.
From PyStoG Require Import Num NumR ConverterM TransformerM WindowM.
From PyStoG.proofs Require Import VecLib ConverterP NamedP CropP GenericCropP.
Import ListNotations.

(* ---------- boolean-mask selection commutes with map / map2 (carrier-free) ---------- *)
Lemma wselect_map {B C} (f : B -> C) m (l : list B) : select m (map f l) = map f (select m l).
Proof.
  revert l; induction m as [|c m IH]; intros [|x l]; cbn [select map]; auto.
  destruct c; cbn [map]; rewrite IH; reflexivity.
Qed.

Lemma wselect_map2 {X Y Z} (f : X -> Y -> Z) m l1 l2 :
  select m (map2 f l1 l2) = map2 f (select m l1) (select m l2).
Proof.
  revert l1 l2; induction m as [|c m IH]; intros [|x l1] [|y l2]; cbn [select map2]; auto.
  - destruct c; [reflexivity|]. destruct (select m l1); reflexivity.
  - destruct c; cbn [map2]; rewrite IH; reflexivity.
Qed.

(* two columns that agree wherever the mask  map p x  is true have the same selection *)
Lemma wselect_agree {B C} (p : B -> bool) (x : list B) (d0 : B) (c0 : C) (y1 y2 : list C) :
  length y1 = length y2 ->
  (forall i, (i < length x)%nat -> p (nth i x d0) = true -> nth i y1 c0 = nth i y2 c0) ->
  select (map p x) y1 = select (map p x) y2.
Proof.
  revert y1 y2; induction x as [|a x IH]; intros [|b1 y1] [|b2 y2] L Hag;
    cbn [map select length] in *; try reflexivity; try discriminate L.
  assert (IHx : select (map p x) y1 = select (map p x) y2).
  { apply IH; [lia|]. intros i Hi Hp. apply (Hag (S i)); [lia | exact Hp]. }
  destruct (p a) eqn:Pa.
  - assert (E0 : b1 = b2) by (apply (Hag 0%nat); [lia | exact Pa]).
    rewrite E0, IHx. reflexivity.
  - exact IHx.
Qed.

(* ====================================================================== *)
(*  Part 1 : every carrier                                                *)
(* ====================================================================== *)
Section GenericWindow.
  Context {A : Type} `{Num A}.

  (* ---------- a. no window keywords = the un-windowed named transform ---------- *)
  Theorem q2r_w_none X Y (q v r : list A) (dy : option (list A)) (k : kw A) :
    q2r_w None None X Y q v r dy k = q2r X Y q v r dy k.
  Proof. destruct X, Y; reflexivity. Qed.

  Theorem r2q_w_none X Y (r v q : list A) (dy : option (list A)) (k : kw A) :
    r2q_w None None X Y r v q dy k = r2q X Y r v q dy k.
  Proof. destruct X, Y; reflexivity. Qed.

  Theorem F_to_G_w_none (q v r : list A) dy (k : kw A) :
    F_to_G_w None None q v r dy k = F_to_G q v r dy k.
  Proof. reflexivity. Qed.
  Theorem G_to_F_w_none (r v q : list A) dy (k : kw A) :
    G_to_F_w None None r v q dy k = G_to_F r v q dy k.
  Proof. reflexivity. Qed.

  (* a missing window keyword means the corresponding extreme of the INPUT abscissa
     (of the un-cropped, un-converted grid the caller passed) *)
  Definition win_lo (lo : option A) (x : list A) : A := match lo with Some a => a | None => vmin x end.
  Definition win_hi (hi : option A) (x : list A) : A := match hi with Some b => b | None => vmax x end.

  Theorem q2r_w_window_defaults lo hi X Y (q v r : list A) dy (k : kw A) :
    q2r_w lo hi X Y q v r dy k = q2r_w (Some (win_lo lo q)) (Some (win_hi hi q)) X Y q v r dy k.
  Proof. destruct lo, hi, X, Y; reflexivity. Qed.

  Theorem r2q_w_window_defaults lo hi X Y (r v q : list A) dy (k : kw A) :
    r2q_w lo hi X Y r v q dy k = r2q_w (Some (win_lo lo r)) (Some (win_hi hi r)) X Y r v q dy k.
  Proof. destruct lo, hi, X, Y; reflexivity. Qed.

  (* ---------- b. decomposition with the window ---------- *)
  Theorem q2r_w_decomposition lo hi X Y (q v r : list A) (dy : option (list A)) (k : kw A) :
    q2r_w lo hi X Y q v r dy k =
      let '(f, df) := rconv X rF q v dy k in
      let '(r', T, E) := fourier_transform q f r lo hi (Some df) k in
      let '(g, dg) := gconv gG Y r' (vscale_r two_over_pi T) (Some (vscale_r two_over_pi E)) k in
      (r', g, dg).
  Proof. destruct X, Y; reflexivity. Qed.

  Theorem r2q_w_decomposition lo hi X Y (r v q : list A) (dy : option (list A)) (k : kw A) :
    r2q_w lo hi X Y r v q dy k =
      let '(G, dG) := gconv X gG r v dy k in
      let '(q', T, E) := fourier_transform r G q lo hi (Some dG) k in
      let '(f, df) := rconv rF Y q' T (Some E) k in (q', f, df).
  Proof. destruct X, Y; reflexivity. Qed.

  Lemma q2r_w_grid_gen lo hi X Y (q v r : list A) dy (k : kw A) : fst (fst (q2r_w lo hi X Y q v r dy k)) = r.
  Proof. destruct X, Y; reflexivity. Qed.
  Lemma r2q_w_grid_gen lo hi X Y (r v q : list A) dy (k : kw A) : fst (fst (r2q_w lo hi X Y r v q dy k)) = q.
  Proof. destruct X, Y; reflexivity. Qed.

  (* ---------- conversions commute with selection ---------- *)
  (* every conversion reads its uncertainty argument through dflt_zeros *)
  Lemma rconv_dflt X Y (x y : list A) d (k : kw A) :
    rconv X Y x y d k = rconv X Y x y (Some (dflt_zeros y d)) k.
  Proof. destruct X, Y; reflexivity. Qed.
  Lemma gconv_dflt X Y (x y : list A) d (k : kw A) :
    gconv X Y x y d k = gconv X Y x y (Some (dflt_zeros y d)) k.
  Proof. destruct X, Y; reflexivity. Qed.

  Ltac conv_unfold_g :=
    repeat unfold idconv, S_to_DCS, S_to_FK, S_to_F, F_to_DCS, F_to_FK, F_to_S, FK_to_S, FK_to_F, FK_to_DCS,
           DCS_to_S, DCS_to_F, DCS_to_FK, g_to_GK, g_to_G, G_to_GK, G_to_g, GK_to_g, GK_to_G,
           vadd_s, vsub_s, vscale, vmul, safe_divide;
    cbn [dflt_zeros fst snd].

  (* all 16 conversions of the reciprocal-space table, any mask, any carrier, no length hypothesis *)
  Lemma rconv_select X Y (m : list bool) (x y e : list A) (k : kw A) :
    rconv X Y (select m x) (select m y) (Some (select m e)) k =
    (select m (fst (rconv X Y x y (Some e) k)), select m (snd (rconv X Y x y (Some e) k))).
  Proof.
    destruct X, Y; cbn [rconv]; conv_unfold_g;
      repeat (rewrite wselect_map || rewrite wselect_map2); reflexivity.
  Qed.

  (* all 9 conversions of the real-space table *)
  Lemma gconv_select X Y (m : list bool) (x y e : list A) (k : kw A) :
    gconv X Y (select m x) (select m y) (Some (select m e)) k =
    (select m (fst (gconv X Y x y (Some e) k)), select m (snd (gconv X Y x y (Some e) k))).
  Proof.
    destruct X, Y; cbn [gconv]; conv_unfold_g;
      repeat (rewrite wselect_map || rewrite wselect_map2); reflexivity.
  Qed.

  (* conversion of the cropped data = crop of the converted data *)
  Theorem rconv_commutes_with_crop X Y (q v : list A) dy lo hi (k : kw A) :
    let '(q', v', e') := apply_cropping q v lo hi dy in
    rconv X Y q' v' (Some e') k =
    let '(f, df) := rconv X Y q v dy k in
    let '(_, f', df') := apply_cropping q f lo hi (Some df) in (f', df').
  Proof.
    unfold apply_cropping. cbv zeta. cbn [dflt_zeros].
    rewrite rconv_select, <- rconv_dflt.
    destruct (rconv X Y q v dy k) as [f df]. reflexivity.
  Qed.

  Theorem gconv_commutes_with_crop X Y (r v : list A) dy lo hi (k : kw A) :
    let '(r', v', e') := apply_cropping r v lo hi dy in
    gconv X Y r' v' (Some e') k =
    let '(g, dg) := gconv X Y r v dy k in
    let '(_, g', dg') := apply_cropping r g lo hi (Some dg) in (g', dg').
  Proof.
    unfold apply_cropping. cbv zeta. cbn [dflt_zeros].
    rewrite gconv_select, <- gconv_dflt.
    destruct (gconv X Y r v dy k) as [g dg]. reflexivity.
  Qed.

  (* ---------- c. the window is a pre-crop, for every named transform ---------- *)
  Theorem q2r_w_window_is_precrop lo hi X Y (q v r : list A) dy (k : kw A) :
    q2r_w (Some lo) (Some hi) X Y q v r dy k =
    let '(q', v', e') := apply_cropping q v lo hi dy in
    q2r_w (Some lo) (Some hi) X Y q' v' r (Some e') k.
  Proof.
    pose proof (rconv_commutes_with_crop X rF q v dy lo hi k) as Hc.
    destruct (apply_cropping q v lo hi dy) as [[q' v'] e'] eqn:Ecrop.
    rewrite !q2r_w_decomposition. rewrite Hc.
    destruct (rconv X rF q v dy k) as [f df].
    pose proof (ft_window_is_precrop_gen q f r lo hi (Some df) k) as Hft.
    assert (Eq : fst (fst (apply_cropping q f lo hi (Some df))) = q').
    { unfold apply_cropping in Ecrop |- *. cbv zeta in Ecrop |- *. cbn [fst].
      injection Ecrop as Eq' _ _. exact Eq'. }
    destruct (apply_cropping q f lo hi (Some df)) as [[q'' f'] df'].
    cbn [fst] in Eq. subst q''. rewrite Hft. reflexivity.
  Qed.

  Theorem r2q_w_window_is_precrop lo hi X Y (r v q : list A) dy (k : kw A) :
    r2q_w (Some lo) (Some hi) X Y r v q dy k =
    let '(r', v', e') := apply_cropping r v lo hi dy in
    r2q_w (Some lo) (Some hi) X Y r' v' q (Some e') k.
  Proof.
    pose proof (gconv_commutes_with_crop X gG r v dy lo hi k) as Hc.
    destruct (apply_cropping r v lo hi dy) as [[r' v'] e'] eqn:Ecrop.
    rewrite !r2q_w_decomposition. rewrite Hc.
    destruct (gconv X gG r v dy k) as [g dg].
    pose proof (ft_window_is_precrop_gen r g q lo hi (Some dg) k) as Hft.
    assert (Eq : fst (fst (apply_cropping r g lo hi (Some dg))) = r').
    { unfold apply_cropping in Ecrop |- *. cbv zeta in Ecrop |- *. cbn [fst].
      injection Ecrop as Eq' _ _. exact Eq'. }
    destruct (apply_cropping r g lo hi (Some dg)) as [[r'' g'] dg'].
    cbn [fst] in Eq. subst r''. rewrite Hft. reflexivity.
  Qed.

  (* with any combination of present / absent window keywords *)
  Corollary q2r_w_any_window_is_precrop lo hi X Y (q v r : list A) dy (k : kw A) :
    q2r_w lo hi X Y q v r dy k =
    let '(q', v', e') := apply_cropping q v (win_lo lo q) (win_hi hi q) dy in
    q2r_w (Some (win_lo lo q)) (Some (win_hi hi q)) X Y q' v' r (Some e') k.
  Proof. rewrite q2r_w_window_defaults. apply q2r_w_window_is_precrop. Qed.

  Corollary r2q_w_any_window_is_precrop lo hi X Y (r v q : list A) dy (k : kw A) :
    r2q_w lo hi X Y r v q dy k =
    let '(r', v', e') := apply_cropping r v (win_lo lo r) (win_hi hi r) dy in
    r2q_w (Some (win_lo lo r)) (Some (win_hi hi r)) X Y r' v' q (Some e') k.
  Proof. rewrite r2q_w_window_defaults. apply r2q_w_window_is_precrop. Qed.

  (* ---------- d. points outside the window are irrelevant ---------- *)
  (* crop form: two inputs (possibly on different grids) with the same cropped triple *)
  Theorem q2r_w_outside_irrelevant lo hi X Y (q1 v1 q2 v2 r : list A) d1 d2 (k : kw A) :
    apply_cropping q1 v1 lo hi d1 = apply_cropping q2 v2 lo hi d2 ->
    q2r_w (Some lo) (Some hi) X Y q1 v1 r d1 k = q2r_w (Some lo) (Some hi) X Y q2 v2 r d2 k.
  Proof.
    intros E. rewrite (q2r_w_window_is_precrop lo hi X Y q1), (q2r_w_window_is_precrop lo hi X Y q2).
    rewrite E. reflexivity.
  Qed.

  Theorem r2q_w_outside_irrelevant lo hi X Y (r1 v1 r2 v2 q : list A) d1 d2 (k : kw A) :
    apply_cropping r1 v1 lo hi d1 = apply_cropping r2 v2 lo hi d2 ->
    r2q_w (Some lo) (Some hi) X Y r1 v1 q d1 k = r2q_w (Some lo) (Some hi) X Y r2 v2 q d2 k.
  Proof.
    intros E. rewrite (r2q_w_window_is_precrop lo hi X Y r1), (r2q_w_window_is_precrop lo hi X Y r2).
    rewrite E. reflexivity.
  Qed.

  (* index form: same abscissae; data and uncertainties (None read as zeros) agree at every
     index whose abscissa passes the closed-interval test of the crop *)
  Definition agree_in_window (lo hi : A) (x v1 v2 : list A) (d1 d2 : option (list A)) : Prop :=
    forall i, (i < length x)%nat -> inwin_g lo hi (nth i x zero) = true ->
      nth i v1 zero = nth i v2 zero /\
      nth i (dflt_zeros v1 d1) zero = nth i (dflt_zeros v2 d2) zero.

  Lemma agree_in_window_crop lo hi (x v1 v2 : list A) d1 d2 :
    length v1 = length v2 -> length (dflt_zeros v1 d1) = length (dflt_zeros v2 d2) ->
    agree_in_window lo hi x v1 v2 d1 d2 ->
    apply_cropping x v1 lo hi d1 = apply_cropping x v2 lo hi d2.
  Proof.
    intros Lv Le Hag. unfold apply_cropping. cbv zeta. rewrite crop_mask_g.
    rewrite (wselect_agree (inwin_g lo hi) x zero zero v1 v2 Lv)
      by (intros i Hi Hp; apply (Hag i Hi Hp)).
    rewrite (wselect_agree (inwin_g lo hi) x zero zero (dflt_zeros v1 d1) (dflt_zeros v2 d2) Le)
      by (intros i Hi Hp; apply (Hag i Hi Hp)).
    reflexivity.
  Qed.

  Theorem q2r_w_outside_irrelevant_idx lo hi X Y (q v1 v2 r : list A) d1 d2 (k : kw A) :
    length v1 = length v2 -> length (dflt_zeros v1 d1) = length (dflt_zeros v2 d2) ->
    agree_in_window lo hi q v1 v2 d1 d2 ->
    q2r_w (Some lo) (Some hi) X Y q v1 r d1 k = q2r_w (Some lo) (Some hi) X Y q v2 r d2 k.
  Proof. intros Lv Le Hag. apply q2r_w_outside_irrelevant, agree_in_window_crop; assumption. Qed.

  Theorem r2q_w_outside_irrelevant_idx lo hi X Y (r v1 v2 q : list A) d1 d2 (k : kw A) :
    length v1 = length v2 -> length (dflt_zeros v1 d1) = length (dflt_zeros v2 d2) ->
    agree_in_window lo hi r v1 v2 d1 d2 ->
    r2q_w (Some lo) (Some hi) X Y r v1 q d1 k = r2q_w (Some lo) (Some hi) X Y r v2 q d2 k.
  Proof. intros Lv Le Hag. apply r2q_w_outside_irrelevant, agree_in_window_crop; assumption. Qed.
End GenericWindow.

(* ====================================================================== *)
(*  Part 2 : the reals                                                    *)
(* ====================================================================== *)
Open Scope R_scope.

(* ---------- d over R: the index form with  lo <= q_i <= hi ---------- *)
Lemma agree_in_window_R (lo hi : R) (x v1 v2 : list R) d1 d2 :
  (forall i, (i < length x)%nat -> lo <= nth i x 0 <= hi ->
     nth i v1 0 = nth i v2 0 /\ nth i (dflt_zeros v1 d1) 0 = nth i (dflt_zeros v2 d2) 0) ->
  agree_in_window lo hi x v1 v2 d1 d2.
Proof.
  intros Hag i Hi Hp. apply (Hag i Hi).
  apply (proj1 (inwin_spec lo hi (nth i x 0))). exact Hp.
Qed.

Theorem q2r_w_outside_irrelevant_R (lo hi : R) X Y (q v1 v2 r : list R) d1 d2 (k : kw R) :
  length v1 = length q -> length v2 = length q -> dok d1 (length q) -> dok d2 (length q) ->
  (forall i, (i < length q)%nat -> lo <= nth i q 0 <= hi ->
     nth i v1 0 = nth i v2 0 /\ nth i (dflt_zeros v1 d1) 0 = nth i (dflt_zeros v2 d2) 0) ->
  q2r_w (Some lo) (Some hi) X Y q v1 r d1 k = q2r_w (Some lo) (Some hi) X Y q v2 r d2 k.
Proof.
  intros L1 L2 D1 D2 Hag. apply q2r_w_outside_irrelevant_idx.
  - congruence.
  - rewrite (dflt_zeros_length v1 d1 (length q)), (dflt_zeros_length v2 d2 (length q)) by assumption.
    reflexivity.
  - apply agree_in_window_R. exact Hag.
Qed.

Theorem r2q_w_outside_irrelevant_R (lo hi : R) X Y (r v1 v2 q : list R) d1 d2 (k : kw R) :
  length v1 = length r -> length v2 = length r -> dok d1 (length r) -> dok d2 (length r) ->
  (forall i, (i < length r)%nat -> lo <= nth i r 0 <= hi ->
     nth i v1 0 = nth i v2 0 /\ nth i (dflt_zeros v1 d1) 0 = nth i (dflt_zeros v2 d2) 0) ->
  r2q_w (Some lo) (Some hi) X Y r v1 q d1 k = r2q_w (Some lo) (Some hi) X Y r v2 q d2 k.
Proof.
  intros L1 L2 D1 D2 Hag. apply r2q_w_outside_irrelevant_idx.
  - congruence.
  - rewrite (dflt_zeros_length v1 d1 (length r)), (dflt_zeros_length v2 d2 (length r)) by assumption.
    reflexivity.
  - apply agree_in_window_R. exact Hag.
Qed.

(* ---------- e. sibling transforms agree, with the same window on both sides ---------- *)
(* the core transform of a windowed named transform *)
Definition core_q2r_w lo hi X (q v r : list R) dy (k : kw R) :=
  fourier_transform q (fst (rconv X rF q v dy k)) r lo hi (Some (snd (rconv X rF q v dy k))) k.
Definition core_r2q_w lo hi X (r v q : list R) dy (k : kw R) :=
  fourier_transform r (fst (gconv X gG r v dy k)) q lo hi (Some (snd (gconv X gG r v dy k))) k.

Lemma q2r_w_grid lo hi X Y q v r dy k : tr_grid (q2r_w lo hi X Y q v r dy k) = r.
Proof. destruct X, Y; reflexivity. Qed.
Lemma q2r_w_val lo hi X Y q v r dy k :
  tr_val (q2r_w lo hi X Y q v r dy k) =
  fst (gconv gG Y r (scale_2_pi (tr_val (core_q2r_w lo hi X q v r dy k)))
                    (Some (scale_2_pi (tr_err (core_q2r_w lo hi X q v r dy k)))) k).
Proof. destruct X, Y; reflexivity. Qed.
Lemma q2r_w_err lo hi X Y q v r dy k :
  tr_err (q2r_w lo hi X Y q v r dy k) =
  snd (gconv gG Y r (scale_2_pi (tr_val (core_q2r_w lo hi X q v r dy k)))
                    (Some (scale_2_pi (tr_err (core_q2r_w lo hi X q v r dy k)))) k).
Proof. destruct X, Y; reflexivity. Qed.

Lemma r2q_w_grid lo hi X Y r v q dy k : tr_grid (r2q_w lo hi X Y r v q dy k) = q.
Proof. destruct X, Y; reflexivity. Qed.
Lemma r2q_w_val lo hi X Y r v q dy k :
  tr_val (r2q_w lo hi X Y r v q dy k) =
  fst (rconv rF Y q (tr_val (core_r2q_w lo hi X r v q dy k)) (Some (tr_err (core_r2q_w lo hi X r v q dy k))) k).
Proof. destruct X, Y; reflexivity. Qed.
Lemma r2q_w_err lo hi X Y r v q dy k :
  tr_err (r2q_w lo hi X Y r v q dy k) =
  snd (rconv rF Y q (tr_val (core_r2q_w lo hi X r v q dy k)) (Some (tr_err (core_r2q_w lo hi X r v q dy k))) k).
Proof. destruct X, Y; reflexivity. Qed.

(* converting the input X -> X' (values and uncertainties) leaves the windowed core unchanged *)
Lemma core_q2r_w_convert lo hi (k : kw R) X X' q v r dy :
  allpos q -> 0 < bcoh k -> length v = length q -> dok dy (length q) ->
  core_q2r_w lo hi X' q (fst (rconv X X' q v dy k)) r (Some (snd (rconv X X' q v dy k))) k
  = core_q2r_w lo hi X q v r dy k.
Proof.
  intros Hq Hb Lv Ld. unfold core_q2r_w.
  pose proof (rconv_fst_length X X' k q v dy Lv Ld) as Lf.
  pose proof (rconv_snd_length X X' k q v dy Lv Ld) as Ls.
  rewrite (rconv_path k X X' rF q v dy (Some (snd (rconv X X' q v dy k))) dy)
    by (first [assumption | lra | apply dok_some; assumption]).
  rewrite (rconv_unc_path k X X' rF q v _ dy) by assumption.
  reflexivity.
Qed.

Lemma core_r2q_w_convert lo hi (k : kw R) X X' r v q dy :
  allpos r -> 0 < rho k -> 0 < bcoh k -> length v = length r -> dok dy (length r) ->
  core_r2q_w lo hi X' r (fst (gconv X X' r v dy k)) q (Some (snd (gconv X X' r v dy k))) k
  = core_r2q_w lo hi X r v q dy k.
Proof.
  intros Hr Hp Hb Lv Ld. unfold core_r2q_w.
  pose proof (gconv_fst_length X X' k r v dy Lv Ld) as Lf.
  pose proof (gconv_snd_length X X' k r v dy Lv Ld) as Ls.
  rewrite (gconv_path k X X' gG r v dy (Some (snd (gconv X X' r v dy k))) dy)
    by (first [assumption | lra | apply dok_some; assumption]).
  rewrite (gconv_unc_path k X X' gG r v _ dy) by assumption.
  reflexivity.
Qed.

Theorem transforms_agree_q2r_w lo hi (k : kw R) X X' Y Y' q v r dy :
  allpos q -> allpos r -> 0 < rho k -> 0 < bcoh k -> length v = length q -> dok dy (length q) ->
  tr_val (q2r_w lo hi X' Y' q (fst (rconv X X' q v dy k)) r (Some (snd (rconv X X' q v dy k))) k)
  = fst (gconv Y Y' r (tr_val (q2r_w lo hi X Y q v r dy k)) None k).
Proof.
  intros Hq Hr Hp Hb Lv Ld. rewrite !q2r_w_val. rewrite core_q2r_w_convert by assumption.
  set (C := core_q2r_w lo hi X q v r dy k).
  assert (LV : length (scale_2_pi (tr_val C)) = length r) by (rewrite scale_length; apply ft_val_length).
  assert (LE : length (scale_2_pi (tr_err C)) = length r) by (rewrite scale_length; apply ft_err_length).
  symmetry. apply gconv_path; first [assumption | lra | apply dok_none | apply dok_some; assumption].
Qed.

Theorem transforms_agree_q2r_w_unc lo hi (k : kw R) X X' Y Y' q v r dy :
  allpos q -> allpos r -> 0 < rho k -> 0 < bcoh k -> length v = length q -> dok dy (length q) ->
  tr_err (q2r_w lo hi X' Y' q (fst (rconv X X' q v dy k)) r (Some (snd (rconv X X' q v dy k))) k)
  = snd (gconv Y Y' r (tr_val (q2r_w lo hi X Y q v r dy k)) (Some (tr_err (q2r_w lo hi X Y q v r dy k))) k).
Proof.
  intros Hq Hr Hp Hb Lv Ld. rewrite q2r_w_err, q2r_w_val, (q2r_w_err lo hi X Y).
  rewrite core_q2r_w_convert by assumption.
  set (C := core_q2r_w lo hi X q v r dy k).
  assert (LV : length (scale_2_pi (tr_val C)) = length r) by (rewrite scale_length; apply ft_val_length).
  assert (LE : length (scale_2_pi (tr_err C)) = length r) by (rewrite scale_length; apply ft_err_length).
  symmetry. apply gconv_unc_path; try assumption.
  - apply gconv_fst_length; [assumption | apply dok_some; assumption].
  - apply dok_some; assumption.
Qed.

Theorem transforms_agree_r2q_w lo hi (k : kw R) X X' Y Y' r v q dy :
  allpos r -> allpos q -> 0 < rho k -> 0 < bcoh k -> length v = length r -> dok dy (length r) ->
  tr_val (r2q_w lo hi X' Y' r (fst (gconv X X' r v dy k)) q (Some (snd (gconv X X' r v dy k))) k)
  = fst (rconv Y Y' q (tr_val (r2q_w lo hi X Y r v q dy k)) None k).
Proof.
  intros Hr Hq Hp Hb Lv Ld. rewrite !r2q_w_val. rewrite core_r2q_w_convert by assumption.
  set (C := core_r2q_w lo hi X r v q dy k).
  assert (LV : length (tr_val C) = length q) by apply ft_val_length.
  assert (LE : length (tr_err C) = length q) by apply ft_err_length.
  symmetry. apply rconv_path; first [assumption | lra | apply dok_none | apply dok_some; assumption].
Qed.

Theorem transforms_agree_r2q_w_unc lo hi (k : kw R) X X' Y Y' r v q dy :
  allpos r -> allpos q -> 0 < rho k -> 0 < bcoh k -> length v = length r -> dok dy (length r) ->
  tr_err (r2q_w lo hi X' Y' r (fst (gconv X X' r v dy k)) q (Some (snd (gconv X X' r v dy k))) k)
  = snd (rconv Y Y' q (tr_val (r2q_w lo hi X Y r v q dy k)) (Some (tr_err (r2q_w lo hi X Y r v q dy k))) k).
Proof.
  intros Hr Hq Hp Hb Lv Ld. rewrite r2q_w_err, r2q_w_val, (r2q_w_err lo hi X Y).
  rewrite core_r2q_w_convert by assumption.
  set (C := core_r2q_w lo hi X r v q dy k).
  assert (LV : length (tr_val C) = length q) by apply ft_val_length.
  assert (LE : length (tr_err C) = length q) by apply ft_err_length.
  symmetry. apply rconv_unc_path; try assumption.
  - apply rconv_fst_length; [assumption | apply dok_some; assumption].
  - apply dok_some; assumption.
Qed.

(* grid, values and uncertainties at once *)
Theorem transforms_agree_q2r_w_full lo hi (k : kw R) X X' Y Y' q v r dy :
  allpos q -> allpos r -> 0 < rho k -> 0 < bcoh k -> length v = length q -> dok dy (length q) ->
  q2r_w lo hi X' Y' q (fst (rconv X X' q v dy k)) r (Some (snd (rconv X X' q v dy k))) k
  = let t := q2r_w lo hi X Y q v r dy k in
    let c := gconv Y Y' r (tr_val t) (Some (tr_err t)) k in (r, fst c, snd c).
Proof.
  intros Hq Hr Hp Hb Lv Ld. cbv zeta.
  rewrite (triple_eta (q2r_w lo hi X' Y' _ _ _ _ _)). rewrite q2r_w_grid.
  rewrite (transforms_agree_q2r_w lo hi k X X' Y Y'), (transforms_agree_q2r_w_unc lo hi k X X' Y Y') by assumption.
  f_equal. f_equal.
  assert (LV : length (tr_val (q2r_w lo hi X Y q v r dy k)) = length r).
  { rewrite q2r_w_val. apply gconv_fst_length.
    - rewrite scale_length; apply ft_val_length.
    - apply dok_some. rewrite scale_length; apply ft_err_length. }
  assert (LE : length (tr_err (q2r_w lo hi X Y q v r dy k)) = length r).
  { rewrite q2r_w_err. apply gconv_snd_length.
    - rewrite scale_length; apply ft_val_length.
    - apply dok_some. rewrite scale_length; apply ft_err_length. }
  rewrite !gconv_pointwise by (first [assumption | apply dok_none | apply dok_some; assumption]).
  reflexivity.
Qed.

Theorem transforms_agree_r2q_w_full lo hi (k : kw R) X X' Y Y' r v q dy :
  allpos r -> allpos q -> 0 < rho k -> 0 < bcoh k -> length v = length r -> dok dy (length r) ->
  r2q_w lo hi X' Y' r (fst (gconv X X' r v dy k)) q (Some (snd (gconv X X' r v dy k))) k
  = let t := r2q_w lo hi X Y r v q dy k in
    let c := rconv Y Y' q (tr_val t) (Some (tr_err t)) k in (q, fst c, snd c).
Proof.
  intros Hr Hq Hp Hb Lv Ld. cbv zeta.
  rewrite (triple_eta (r2q_w lo hi X' Y' _ _ _ _ _)). rewrite r2q_w_grid.
  rewrite (transforms_agree_r2q_w lo hi k X X' Y Y'), (transforms_agree_r2q_w_unc lo hi k X X' Y Y') by assumption.
  f_equal. f_equal.
  assert (LV : length (tr_val (r2q_w lo hi X Y r v q dy k)) = length q).
  { rewrite r2q_w_val. apply rconv_fst_length.
    - apply ft_val_length.
    - apply dok_some. apply ft_err_length. }
  assert (LE : length (tr_err (r2q_w lo hi X Y r v q dy k)) = length q).
  { rewrite r2q_w_err. apply rconv_snd_length.
    - apply ft_val_length.
    - apply dok_some. apply ft_err_length. }
  rewrite !rconv_pointwise by (first [assumption | apply dok_none | apply dok_some; assumption]).
  reflexivity.
Qed.

(* ====================================================================== *)
(*  Part 3 : non-vacuity                                                  *)
(* ====================================================================== *)

(* c: the window [1, 2] really removes the point at abscissa 3 of the grid [1; 2; 3], so the
   pre-cropped call of q2r_w_window_is_precrop is a call on strictly less data; and the
   conversion S -> F of the cropped data is the crop of the converted data *)
Example window_is_precrop_nonvacuous :
  apply_cropping [1; 2; 3] [4; 5; 6] 1 2 None = ([1; 2], [4; 5], [0; 0]) /\
  forall X Y r (k : kw R),
    q2r_w (Some 1) (Some 2) X Y [1; 2; 3] [4; 5; 6] r None k =
    q2r_w (Some 1) (Some 2) X Y [1; 2] [4; 5] r (Some [0; 0]) k.
Proof.
  assert (E : apply_cropping [1; 2; 3] [4; 5; 6] 1 2 None = ([1; 2], [4; 5], [0; 0])).
  { unfold apply_cropping, crop_mask. cbn [map dflt_zeros zeros_like]. numR. decide_Rleb. reflexivity. }
  split; [exact E|]. intros X Y r k.
  rewrite (q2r_w_window_is_precrop 1 2 X Y [1; 2; 3] [4; 5; 6] r None k). rewrite E. reflexivity.
Qed.

Example rconv_commutes_with_crop_nonvacuous (k : kw R) :
  rconv rS rF [1; 2] [4; 5] (Some [0; 0]) k =
  let '(f, df) := rconv rS rF [1; 2; 3] [4; 5; 6] None k in
  let '(_, f', df') := apply_cropping [1; 2; 3] f 1 2 (Some df) in (f', df').
Proof.
  pose proof (rconv_commutes_with_crop rS rF [1; 2; 3] [4; 5; 6] None 1 2 k) as Hc.
  assert (E : apply_cropping [1; 2; 3] [4; 5; 6] 1 2 None = ([1; 2], [4; 5], [0; 0])).
  { unfold apply_cropping, crop_mask. cbn [map dflt_zeros zeros_like]. numR. decide_Rleb. reflexivity. }
  rewrite E in Hc. exact Hc.
Qed.

(* d: two different data / uncertainty columns (6 vs 7 at abscissa 3; no uncertainties vs an
   uncertainty 9 at abscissa 3) satisfy the hypotheses of q2r_w_outside_irrelevant_R for the
   window [1, 2] *)
Example outside_irrelevant_nonvacuous :
  let q := [1; 2; 3] in let v1 := [4; 5; 6] in let v2 := [4; 5; 7] in
  let d1 : option (list R) := None in let d2 := Some [0; 0; 9] in
  length v1 = length q /\ length v2 = length q /\ dok d1 (length q) /\ dok d2 (length q) /\
  (forall i, (i < length q)%nat -> 1 <= nth i q 0 <= 2 ->
     nth i v1 0 = nth i v2 0 /\ nth i (dflt_zeros v1 d1) 0 = nth i (dflt_zeros v2 d2) 0) /\
  v1 <> v2 /\ dflt_zeros v1 d1 <> dflt_zeros v2 d2 /\
  apply_cropping q v1 1 2 d1 = apply_cropping q v2 1 2 d2.
Proof.
  cbv zeta.
  split; [reflexivity|]. split; [reflexivity|]. split; [apply dok_none|].
  split; [apply dok_some; reflexivity|].
  split.
  { intros i Hi Hw. destruct i as [|[|[|i]]]; cbn [nth dflt_zeros zeros_like map length] in *; numR.
    - split; reflexivity.
    - split; reflexivity.
    - lra.
    - lia. }
  split; [intros E; injection E as E; lra|].
  split; [cbn [dflt_zeros zeros_like map]; numR; intros E; injection E as E; lra|].
  unfold apply_cropping, crop_mask. cbn [map dflt_zeros zeros_like]. numR. decide_Rleb. reflexivity.
Qed.

(* e: the hypotheses of transforms_agree_q2r_w_full hold on a 3-point grid with a window that
   removes the last point *)
Example transforms_agree_w_nonvacuous :
  let q := [1; 2; 3] in let r := [1; 2] in let v := [1; 1; 1] in
  let k := {| rho := 1; bcoh := 1; btot := 1; lorch := true; omitted := true |} in
  allpos q /\ allpos r /\ 0 < rho k /\ 0 < bcoh k /\ length v = length q /\ dok (Some [1; 1; 1]) (length q) /\
  crop_mask q 1 2 = [true; true; false].
Proof.
  cbv zeta. split; [repeat constructor; lra|]. split; [repeat constructor; lra|].
  cbn [rho bcoh]. split; [lra|]. split; [lra|]. split; [reflexivity|].
  split; [apply dok_some; reflexivity|].
  unfold crop_mask. cbn [map]. numR. decide_Rleb. reflexivity.
Qed.

(* the window is not a no-op at the level of the named transforms: on the grid [0; 1; 2] with the
   data [0; 1; 0], output abscissa pi/2, G_to_F gives 1 without window and 1/2 with the window [0, 1] *)
Ltac decide_Rltb :=
  repeat match goal with
  | |- context [Rltb ?a ?b] =>
      first [ rewrite (Rltb_true a b) by lra | rewrite (Rltb_false a b) by lra ]
  end.

Example window_changes_result :
  let k := {| rho := 1; bcoh := 1; btot := 1; lorch := false; omitted := false |} in
  tr_val (r2q_w (Some 0) (Some 1) gG rF [0; 1; 2] [0; 1; 0] [PI / 2] None k) = [1 / 2] /\
  tr_val (r2q gG rF [0; 1; 2] [0; 1; 0] [PI / 2] None k) = [1].
Proof.
  assert (S0 : Rtrigo_def.sin (0 * (PI / 2)) = 0) by (rewrite Rmult_0_l; apply sin_0).
  assert (S1 : Rtrigo_def.sin (1 * (PI / 2)) = 1) by (rewrite Rmult_1_l; apply sin_PI2).
  assert (S2 : Rtrigo_def.sin (2 * (PI / 2)) = 0) by (replace (2 * (PI / 2)) with PI by lra; apply sin_PI).
  cbv zeta. split.
  - unfold r2q_w, G_to_F_w, fourier_transform, apply_cropping, crop_mask, tr_val.
    cbn [map dflt_zeros zeros_like lorch omitted]. numR. decide_Rleb.
    cbn [andb select ones_like vmul map2 map trapz fst snd]. numR.
    rewrite S0, S1. f_equal. lra.
  - unfold r2q, G_to_F, fourier_transform, apply_cropping, crop_mask, tr_val, vmin, vmax.
    cbn [minl maxl map dflt_zeros zeros_like lorch omitted]. numR. decide_Rltb. decide_Rleb.
    cbn [andb select ones_like vmul map2 map trapz fst snd]. numR.
    rewrite S0, S1, S2. f_equal. lra.
Qed.
