(* AnchorsP.v -- closed-form anchors for the documented continuous transform
   pair (independent of the list model): for the family
     G(r) = A r exp(-a r^2)   <->   Q[S(Q)-1] = A sqrt(pi) Q / (4 a^(3/2)) exp(-Q^2/(4a))
   one member (A = 1, a = 1) is checked numerically, with verified interval
   arithmetic (coq-interval), in both directions:
     Q[S(Q)-1] = Int_0^inf G(r) sin(Qr) dr              at Q = 2
     G(r) = (2/pi) Int_0^inf Q[S(Q)-1] sin(Qr) dQ       at r = 1
   The statements are about the integrals over [0,8] and [0,16]; the neglected tails
   (bounded by Int_8^inf r exp(-r^2) dr = exp(-64)/2 and sqrt(pi)/2 exp(-64), about 1e-28)
   are NOT part of the formal statement. *)
From Coq Require Import Reals.
From Coquelicot Require Import Coquelicot.
From Interval Require Import Tactic.
Open Scope R_scope.

(* Int_0^8 r exp(-r^2) sin(2r) dr  =  sqrt(pi) * 2/4 * exp(-2^2/4)   to 1e-9 *)
Lemma anchor_r_to_Q :
  Rabs (RInt (fun r => r * exp (- r * r) * sin (2 * r)) 0 8 - sqrt PI * 2 / 4 * exp (-1)) <= 1e-9.
Proof. integral with (i_fuel 400, i_degree 20, i_prec 80). Qed.

(* (2/pi) Int_0^16 [sqrt(pi) Q/4 exp(-Q^2/4)] sin(Q*1) dQ  =  1 * exp(-1^2)   to 1e-9 *)
Lemma anchor_Q_to_r :
  Rabs (2 / PI * RInt (fun Q => sqrt PI * Q / 4 * exp (- Q * Q / 4) * sin (Q * 1)) 0 16 - 1 * exp (-1)) <= 1e-9.
Proof. integral with (i_fuel 400, i_degree 20, i_prec 80). Qed.
