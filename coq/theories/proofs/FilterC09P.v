(* FilterC09P.v -- C09: the 12 Fourier-filter variants are one filter seen through
   the function conversions; none of them drops an uncertainty. *)
From Coq Require Import List Reals Lra Lia Bool ZArith.
From PyStoG Require Import Num NumR ConverterM TransformerM FilterM.
From PyStoG.proofs Require Import VecLib ConverterP CropP NamedP FilterP.
Import ListNotations.
Open Scope R_scope.

(* the outputs of the core, their lengths *)
Lemma F_to_g_val_length (q f r : list R) d (k : kw R) : length (tr_val (F_to_g q f r d k)) = length r.
Proof.
  change (F_to_g q f r d k) with (q2r rF gg q f r d k). rewrite q2r_val. apply gconv_fst_length.
  - rewrite scale_length; apply ft_val_length.
  - apply dok_some. rewrite scale_length; apply ft_err_length.
Qed.
Lemma F_to_g_err_length (q f r : list R) d (k : kw R) : length (tr_err (F_to_g q f r d k)) = length r.
Proof.
  change (F_to_g q f r d k) with (q2r rF gg q f r d k). rewrite q2r_err. apply gconv_snd_length.
  - rewrite scale_length; apply ft_val_length.
  - apply dok_some. rewrite scale_length; apply ft_err_length.
Qed.

Lemma core_lengths (r gr q fq : list R) cutoff dgr dfq (k : kw R) :
  length fq = length q -> dok dfq (length q) ->
  let o := g_using_F r gr q fq cutoff dgr dfq k in
  q_ft o = q /\ q_c o = q /\ r_o o = r /\
  length (y_ft o) = length q /\ length (dy_ft o) = length q /\
  length (y_c o) = length q /\ length (dy_c o) = length q /\
  length (g_o o) = length r /\ length (dg_o o) = length r.
Proof.
  intros Lf Ld. cbv zeta. rewrite g_using_F_simpl by assumption. cbv zeta.
  cbn [q_ft q_c r_o y_ft dy_ft y_c dy_c g_o dg_o].
  pose proof (lowr_T_val_length r gr q cutoff dgr k) as LT.
  pose proof (lowr_T_err_length r gr q cutoff dgr k) as LE.
  pose proof (dflt_zeros_length fq dfq (length q) Lf Ld) as LD.
  split; [reflexivity|]. split; [reflexivity|]. split; [reflexivity|].
  split; [exact LT|]. split; [exact LE|].
  split; [rewrite map2_length, Lf, LT; apply Nat.min_id|].
  split; [rewrite map2_length, LD, LE; apply Nat.min_id|].
  split; [apply F_to_g_val_length | apply F_to_g_err_length].
Qed.

(* ---------- the key step: converting the common data to the variant's functions and
   letting the variant convert back gives the core of the common data ---------- *)
Lemma core_of_converted (G : gfun) (Q : rfun) (r g dg q f df : list R) cutoff (k : kw R) :
  allpos r -> allpos q -> 0 < rho k -> 0 < bcoh k ->
  length g = length r -> length dg = length r -> length f = length q -> length df = length q ->
  core_of G Q r (fst (gconv gg G r g (Some dg) k)) q (fst (rconv rF Q q f (Some df) k)) cutoff
          (Some (snd (gconv gg G r g (Some dg) k))) (Some (snd (rconv rF Q q f (Some df) k))) k
  = g_using_F r g q f cutoff (Some dg) (Some df) k.
Proof.
  intros Hr Hq Hp Hb Lg Ldg Lf Ldf. unfold core_of.
  assert (Hb' : bcoh k <> 0) by lra.
  assert (Dg : dok (Some dg) (length r)) by (apply dok_some; exact Ldg).
  assert (Df : dok (Some df) (length q)) by (apply dok_some; exact Ldf).
  assert (L1 : length (fst (gconv gg G r g (Some dg) k)) = length r) by (apply gconv_fst_length; assumption).
  assert (L2 : length (snd (gconv gg G r g (Some dg) k)) = length r) by (apply gconv_snd_length; assumption).
  assert (L3 : length (fst (rconv rF Q q f (Some df) k)) = length q) by (apply rconv_fst_length; assumption).
  assert (L4 : length (snd (rconv rF Q q f (Some df) k)) = length q) by (apply rconv_snd_length; assumption).
  rewrite (gconv_roundtrip k gg G r g (Some dg)) by (first [assumption | apply dok_some; assumption]).
  rewrite (gconv_unc_roundtrip k gg G r g) by assumption.
  rewrite (rconv_roundtrip k rF Q q f (Some df)) by (first [assumption | apply dok_some; assumption]).
  rewrite (rconv_unc_roundtrip k rF Q q f) by assumption.
  reflexivity.
Qed.

Theorem variant_of_converted (G : gfun) (Q : rfun) (r g dg q f df : list R) cutoff (k : kw R) :
  allpos r -> allpos q -> 0 < rho k -> 0 < bcoh k ->
  length g = length r -> length dg = length r -> length f = length q -> length df = length q ->
  filter_variant G Q r (fst (gconv gg G r g (Some dg) k)) q (fst (rconv rF Q q f (Some df) k)) cutoff
          (Some (snd (gconv gg G r g (Some dg) k))) (Some (snd (rconv rF Q q f (Some df) k))) k
  = convert_out G Q k (g_using_F r g q f cutoff (Some dg) (Some df) k).
Proof. intros. rewrite variant_normal_form, core_of_converted by assumption. reflexivity. Qed.

(* ================= 1. every variant = conversions of the core ================= *)
Theorem variant_is_conversion_of_core (G : gfun) (Q : rfun) (r g dg q f df : list R) cutoff (k : kw R) :
  allpos r -> allpos q -> 0 < rho k -> 0 < bcoh k ->
  length g = length r -> length dg = length r -> length f = length q -> length df = length q ->
  let gin := fst (gconv gg G r g (Some dg) k) in
  let dgin := snd (gconv gg G r g (Some dg) k) in
  let yin := fst (rconv rF Q q f (Some df) k) in
  let dyin := snd (rconv rF Q q f (Some df) k) in
  let o := filter_variant G Q r gin q yin cutoff (Some dgin) (Some dyin) k in
  let o0 := g_using_F r g q f cutoff (Some dg) (Some df) k in
  q_ft o = q_ft o0 /\ q_c o = q_c o0 /\ r_o o = r_o o0 /\
  (y_ft o, dy_ft o) = rconv rF Q (q_ft o0) (y_ft o0) (Some (dy_ft o0)) k /\
  (y_c o, dy_c o) = rconv rF Q (q_c o0) (y_c o0) (Some (dy_c o0)) k /\
  (g_o o, dg_o o) = gconv gg G (r_o o0) (g_o o0) (Some (dg_o o0)) k.
Proof.
  intros Hr Hq Hp Hb Lg Ldg Lf Ldf. cbv zeta.
  rewrite variant_of_converted by assumption. unfold convert_out.
  cbn [q_ft q_c r_o y_ft dy_ft y_c dy_c g_o dg_o].
  split; [reflexivity|]. split; [reflexivity|]. split; [reflexivity|].
  split; [apply pair_eta|]. split; apply pair_eta.
Qed.

(* ================= 3. no variant drops an uncertainty ================= *)
Theorem no_variant_drops_uncertainty (G : gfun) (Q : rfun) (r g dg q f df : list R) cutoff (k : kw R) :
  allpos r -> allpos q -> 0 < rho k -> 0 < bcoh k ->
  length g = length r -> length dg = length r -> length f = length q -> length df = length q ->
  let gin := fst (gconv gg G r g (Some dg) k) in
  let dgin := snd (gconv gg G r g (Some dg) k) in
  let yin := fst (rconv rF Q q f (Some df) k) in
  let dyin := snd (rconv rF Q q f (Some df) k) in
  let o := filter_variant G Q r gin q yin cutoff (Some dgin) (Some dyin) k in
  let o0 := g_using_F r g q f cutoff (Some dg) (Some df) k in
  dy_ft o = snd (rconv rF Q (q_ft o0) (y_ft o0) (Some (dy_ft o0)) k) /\
  dy_c o = snd (rconv rF Q (q_c o0) (y_c o0) (Some (dy_c o0)) k) /\
  dg_o o = snd (gconv gg G (r_o o0) (g_o o0) (Some (dg_o o0)) k).
Proof.
  intros Hr Hq Hp Hb Lg Ldg Lf Ldf. cbv zeta.
  rewrite variant_of_converted by assumption. unfold convert_out.
  cbn [dy_ft dy_c dg_o]. split; [reflexivity|]. split; reflexivity.
Qed.

(* the same with the factors written out: each uncertainty output of a variant is the
   core's, point by point, times the (positive) slope of the function conversion *)
Theorem no_variant_drops_uncertainty_factors (G : gfun) (Q : rfun) (r g dg q f df : list R) cutoff (k : kw R) :
  allpos r -> allpos q -> 0 < rho k -> 0 < bcoh k ->
  length g = length r -> length dg = length r -> length f = length q -> length df = length q ->
  let gin := fst (gconv gg G r g (Some dg) k) in
  let dgin := snd (gconv gg G r g (Some dg) k) in
  let yin := fst (rconv rF Q q f (Some df) k) in
  let dyin := snd (rconv rF Q q f (Some df) k) in
  let o := filter_variant G Q r gin q yin cutoff (Some dgin) (Some dyin) k in
  let o0 := g_using_F r g q f cutoff (Some dg) (Some df) k in
  dy_ft o = map2 (fun x e => rderiv k rF Q x * e) q (dy_ft o0) /\
  dy_c o = map2 (fun x e => rderiv k rF Q x * e) q (dy_c o0) /\
  dg_o o = map2 (fun x e => gderiv k gg G x * e) r (dg_o o0) /\
  (forall x, 0 < x -> 0 < rderiv k rF Q x) /\ (forall x, 0 < x -> 0 < gderiv k gg G x).
Proof.
  intros Hr Hq Hp Hb Lg Ldg Lf Ldf. cbv zeta.
  rewrite variant_of_converted by assumption. unfold convert_out.
  cbn [dy_ft dy_c dg_o].
  assert (Df : dok (Some df) (length q)) by (apply dok_some; exact Ldf).
  pose proof (core_lengths r g q f cutoff (Some dg) (Some df) k Lf Df) as CL. cbv zeta in CL.
  destruct CL as [E1 [E2 [E3 [L1 [L2 [L3 [L4 [L5 L6]]]]]]]].
  set (o0 := g_using_F r g q f cutoff (Some dg) (Some df) k) in *.
  rewrite E1, E2, E3.
  rewrite !rconv_unc_first_order by assumption.
  rewrite gconv_unc_first_order by assumption.
  split; [|split; [|split; [|split]]].
  - apply Forall_map2_ext with (P := fun x => 0 < x); [exact Hq|].
    intros x e Hx. rewrite Rabs_pos_eq; [reflexivity|]. left. apply rderiv_pos; assumption.
  - apply Forall_map2_ext with (P := fun x => 0 < x); [exact Hq|].
    intros x e Hx. rewrite Rabs_pos_eq; [reflexivity|]. left. apply rderiv_pos; assumption.
  - apply Forall_map2_ext with (P := fun x => 0 < x); [exact Hr|].
    intros x e Hx. rewrite Rabs_pos_eq; [reflexivity|]. left. apply gderiv_pos; assumption.
  - intros x Hx. apply rderiv_pos; assumption.
  - intros x Hx. apply gderiv_pos; assumption.
Qed.

(* ================= 2. any two variants agree ================= *)
Lemma rconv_pair_path (k : kw R) Q Q' (q A E : list R) :
  allpos q -> 0 < bcoh k -> length A = length q -> length E = length q ->
  (fst (rconv rF Q' q A (Some E) k), snd (rconv rF Q' q A (Some E) k))
  = rconv Q Q' q (fst (rconv rF Q q A (Some E) k)) (Some (snd (rconv rF Q q A (Some E) k))) k.
Proof.
  intros Hq Hb LA LE.
  assert (DE : dok (Some E) (length q)) by (apply dok_some; exact LE).
  assert (L1 : length (fst (rconv rF Q q A (Some E) k)) = length q) by (apply rconv_fst_length; assumption).
  assert (L2 : length (snd (rconv rF Q q A (Some E) k)) = length q) by (apply rconv_snd_length; assumption).
  rewrite <- (pair_eta (rconv Q Q' q _ _ k)). f_equal.
  - symmetry. apply rconv_path; first [assumption | lra | apply dok_some; assumption].
  - symmetry. apply rconv_unc_path; assumption.
Qed.

Lemma gconv_pair_path (k : kw R) G G' (r A E : list R) :
  allpos r -> 0 < rho k -> 0 < bcoh k -> length A = length r -> length E = length r ->
  (fst (gconv gg G' r A (Some E) k), snd (gconv gg G' r A (Some E) k))
  = gconv G G' r (fst (gconv gg G r A (Some E) k)) (Some (snd (gconv gg G r A (Some E) k))) k.
Proof.
  intros Hr Hp Hb LA LE.
  assert (DE : dok (Some E) (length r)) by (apply dok_some; exact LE).
  assert (L1 : length (fst (gconv gg G r A (Some E) k)) = length r) by (apply gconv_fst_length; assumption).
  assert (L2 : length (snd (gconv gg G r A (Some E) k)) = length r) by (apply gconv_snd_length; assumption).
  rewrite <- (pair_eta (gconv G G' r _ _ k)). f_equal.
  - symmetry. apply gconv_path; first [assumption | lra | apply dok_some; assumption].
  - symmetry. apply gconv_unc_path; assumption.
Qed.

Theorem variants_agree (G G' : gfun) (Q Q' : rfun) (r g dg q f df : list R) cutoff (k : kw R) :
  allpos r -> allpos q -> 0 < rho k -> 0 < bcoh k ->
  length g = length r -> length dg = length r -> length f = length q -> length df = length q ->
  let o := filter_variant G Q r (fst (gconv gg G r g (Some dg) k)) q (fst (rconv rF Q q f (Some df) k)) cutoff
             (Some (snd (gconv gg G r g (Some dg) k))) (Some (snd (rconv rF Q q f (Some df) k))) k in
  let o' := filter_variant G' Q' r (fst (gconv gg G' r g (Some dg) k)) q (fst (rconv rF Q' q f (Some df) k)) cutoff
             (Some (snd (gconv gg G' r g (Some dg) k))) (Some (snd (rconv rF Q' q f (Some df) k))) k in
  q_ft o' = q_ft o /\ q_c o' = q_c o /\ r_o o' = r_o o /\
  (y_ft o', dy_ft o') = rconv Q Q' (q_ft o) (y_ft o) (Some (dy_ft o)) k /\
  (y_c o', dy_c o') = rconv Q Q' (q_c o) (y_c o) (Some (dy_c o)) k /\
  (g_o o', dg_o o') = gconv G G' (r_o o) (g_o o) (Some (dg_o o)) k.
Proof.
  intros Hr Hq Hp Hb Lg Ldg Lf Ldf. cbv zeta.
  rewrite !variant_of_converted by assumption. unfold convert_out.
  cbn [q_ft q_c r_o y_ft dy_ft y_c dy_c g_o dg_o].
  assert (Df : dok (Some df) (length q)) by (apply dok_some; exact Ldf).
  pose proof (core_lengths r g q f cutoff (Some dg) (Some df) k Lf Df) as CL. cbv zeta in CL.
  destruct CL as [E1 [E2 [E3 [L1 [L2 [L3 [L4 [L5 L6]]]]]]]].
  set (o0 := g_using_F r g q f cutoff (Some dg) (Some df) k) in *.
  rewrite E1, E2, E3.
  split; [reflexivity|]. split; [reflexivity|]. split; [reflexivity|].
  split; [apply rconv_pair_path; assumption|].
  split; [apply rconv_pair_path; assumption|].
  apply gconv_pair_path; assumption.
Qed.

(* ================= non-vacuity ================= *)
Example variant_is_conversion_of_core_nonvacuous :
  let k := {| rho := 1; bcoh := 2; btot := 3; lorch := true; omitted := true |} in
  let r := [1; 2; 3] in let g := [0; 1; 2] in let dg := [1; 1; 1] in
  let q := [1; 2] in let f := [5; 6] in let df := [1; 2] in
  allpos r /\ allpos q /\ 0 < rho k /\ 0 < bcoh k /\
  length g = length r /\ length dg = length r /\ length f = length q /\ length df = length q.
Proof.
  cbn. split; [repeat constructor; lra|]. split; [repeat constructor; lra|].
  split; [lra|]. split; [lra|]. repeat split; reflexivity.
Qed.

(* ================= 1', 3': the same for a real-space grid that contains r = 0 =================
   The conversions g -> G -> g do not give back g(0) (G(0) = 0 whatever g(0) is), but the
   filter multiplies the cropped real-space input by r again before transforming it, so the
   value at r = 0 is irrelevant and statements 1 and 3 hold for r >= 0.  (Statement 2 does not:
   converting the *output* G(r) to g(r) at r = 0 gives 1, not the core's g(0).) *)
Definition allnonneg (l : list R) : Prop := Forall (fun x => 0 <= x) l.

Lemma select_map_c {X Y} (f : X -> Y) m l : select m (map f l) = map f (select m l).
Proof. revert l; induction m as [|c m IH]; intros [|a l]; cbn; auto. destruct c; cbn; f_equal; auto. Qed.

Lemma gval_cancel (k : kw R) X Y x v : 0 < x -> 0 < rho k -> bcoh k <> 0 ->
  gval k Y X x (gval k X Y x v) = v.
Proof. intros. rewrite !gval_spec by assumption. apply gspec_roundtrip; assumption. Qed.
Lemma gerr_cancel (k : kw R) X Y x e : 0 < x -> 0 < rho k -> 0 < bcoh k ->
  gerr k Y X x (gerr k X Y x e) = e.
Proof.
  intros Hx Hp Hb. rewrite !gerr_deriv by assumption.
  rewrite !Rabs_pos_eq by (left; apply gderiv_pos; assumption).
  rewrite <- Rmult_assoc, gderiv_inv by lra. ring.
Qed.

Lemma g_to_G_crop_eq (m : list bool) (r g1 d1 g2 d2 : list R) (k : kw R) :
  map2 (fun x v => 4 * PI * x * rho k * (v + 1 - 1)) r g1 = map2 (fun x v => 4 * PI * x * rho k * (v + 1 - 1)) r g2 ->
  map2 (fun x d => 4 * PI * x * rho k * d) r d1 = map2 (fun x d => 4 * PI * x * rho k * d) r d2 ->
  g_to_G (select m r) (map (fun v => v + 1) (select m g1)) (Some (select m d1)) k
  = g_to_G (select m r) (map (fun v => v + 1) (select m g2)) (Some (select m d2)) k.
Proof.
  intros H1 H2. unfold g_to_G, fourpi. cbn [dflt_zeros]. numR.
  rewrite !map2_map_r. cbv beta. rewrite <- !select_map2. rewrite H1, H2. reflexivity.
Qed.

Lemma lowr_T_roundtrip (G : gfun) (r g dg q : list R) cutoff (k : kw R) :
  allnonneg r -> 0 < rho k -> 0 < bcoh k -> length g = length r -> length dg = length r ->
  let gin := fst (gconv gg G r g (Some dg) k) in
  let dgin := snd (gconv gg G r g (Some dg) k) in
  lowr_T r (fst (gconv G gg r gin (Some dgin) k)) q cutoff (Some (snd (gconv G gg r gin (Some dgin) k))) k
  = lowr_T r g q cutoff (Some dg) k.
Proof.
  intros Hr Hp Hb Lg Ldg. cbv zeta.
  assert (Hb' : bcoh k <> 0) by lra.
  assert (Dg : dok (Some dg) (length r)) by (apply dok_some; exact Ldg).
  assert (L1 : length (fst (gconv gg G r g (Some dg) k)) = length r) by (apply gconv_fst_length; assumption).
  assert (L2 : length (snd (gconv gg G r g (Some dg) k)) = length r) by (apply gconv_snd_length; assumption).
  rewrite (gconv_pointwise G gg) by (first [assumption | apply dok_some; assumption]).
  rewrite (gconv_pointwise gg G) by assumption. cbn [fst snd dflt_zeros].
  unfold lowr_T, lowr, apply_cropping. cbv zeta. cbn [fst snd dflt_zeros].
  rewrite !g_to_F_as_ft.
  rewrite (g_to_G_crop_eq (crop_mask r 0 cutoff) r _ _ g dg k); [reflexivity| |].
  - rewrite !map2_map2_r. apply Forall_map2_ext with (P := fun x => 0 <= x); [exact Hr|].
    intros x v [Hx|Hx].
    + rewrite gval_cancel by assumption. reflexivity.
    + subst x. ring.
  - rewrite !map2_map2_r. apply Forall_map2_ext with (P := fun x => 0 <= x); [exact Hr|].
    intros x e [Hx|Hx].
    + rewrite gerr_cancel by assumption. reflexivity.
    + subst x. ring.
Qed.

Lemma core_of_converted_nonneg_r (G : gfun) (Q : rfun) (r g dg q f df : list R) cutoff (k : kw R) :
  allnonneg r -> allpos q -> 0 < rho k -> 0 < bcoh k ->
  length g = length r -> length dg = length r -> length f = length q -> length df = length q ->
  core_of G Q r (fst (gconv gg G r g (Some dg) k)) q (fst (rconv rF Q q f (Some df) k)) cutoff
          (Some (snd (gconv gg G r g (Some dg) k))) (Some (snd (rconv rF Q q f (Some df) k))) k
  = g_using_F r g q f cutoff (Some dg) (Some df) k.
Proof.
  intros Hr Hq Hp Hb Lg Ldg Lf Ldf. unfold core_of.
  assert (Hb' : bcoh k <> 0) by lra.
  assert (Df : dok (Some df) (length q)) by (apply dok_some; exact Ldf).
  assert (L3 : length (fst (rconv rF Q q f (Some df) k)) = length q) by (apply rconv_fst_length; assumption).
  assert (L4 : length (snd (rconv rF Q q f (Some df) k)) = length q) by (apply rconv_snd_length; assumption).
  rewrite (rconv_roundtrip k rF Q q f (Some df)) by (first [assumption | apply dok_some; assumption]).
  rewrite (rconv_unc_roundtrip k rF Q q f) by assumption.
  rewrite !g_using_F_raw.
  pose proof (lowr_T_roundtrip G r g dg q cutoff k Hr Hp Hb Lg Ldg) as E. cbv zeta in E.
  rewrite E. reflexivity.
Qed.

Theorem variant_is_conversion_of_core_nonneg_r (G : gfun) (Q : rfun) (r g dg q f df : list R) cutoff (k : kw R) :
  allnonneg r -> allpos q -> 0 < rho k -> 0 < bcoh k ->
  length g = length r -> length dg = length r -> length f = length q -> length df = length q ->
  let gin := fst (gconv gg G r g (Some dg) k) in
  let dgin := snd (gconv gg G r g (Some dg) k) in
  let yin := fst (rconv rF Q q f (Some df) k) in
  let dyin := snd (rconv rF Q q f (Some df) k) in
  let o := filter_variant G Q r gin q yin cutoff (Some dgin) (Some dyin) k in
  let o0 := g_using_F r g q f cutoff (Some dg) (Some df) k in
  q_ft o = q_ft o0 /\ q_c o = q_c o0 /\ r_o o = r_o o0 /\
  (y_ft o, dy_ft o) = rconv rF Q (q_ft o0) (y_ft o0) (Some (dy_ft o0)) k /\
  (y_c o, dy_c o) = rconv rF Q (q_c o0) (y_c o0) (Some (dy_c o0)) k /\
  (g_o o, dg_o o) = gconv gg G (r_o o0) (g_o o0) (Some (dg_o o0)) k.
Proof.
  intros Hr Hq Hp Hb Lg Ldg Lf Ldf. cbv zeta.
  rewrite variant_normal_form, core_of_converted_nonneg_r by assumption. unfold convert_out.
  cbn [q_ft q_c r_o y_ft dy_ft y_c dy_c g_o dg_o].
  split; [reflexivity|]. split; [reflexivity|]. split; [reflexivity|].
  split; [apply pair_eta|]. split; apply pair_eta.
Qed.

Example variant_is_conversion_of_core_nonneg_r_nonvacuous :
  allnonneg [0; 1; 2] /\ ~ allpos [0; 1; 2].
Proof.
  split; [repeat constructor; lra|]. intros H. inversion H; subst. lra.
Qed.

Theorem no_variant_drops_uncertainty_nonneg_r (G : gfun) (Q : rfun) (r g dg q f df : list R) cutoff (k : kw R) :
  allnonneg r -> allpos q -> 0 < rho k -> 0 < bcoh k ->
  length g = length r -> length dg = length r -> length f = length q -> length df = length q ->
  let gin := fst (gconv gg G r g (Some dg) k) in
  let dgin := snd (gconv gg G r g (Some dg) k) in
  let yin := fst (rconv rF Q q f (Some df) k) in
  let dyin := snd (rconv rF Q q f (Some df) k) in
  let o := filter_variant G Q r gin q yin cutoff (Some dgin) (Some dyin) k in
  let o0 := g_using_F r g q f cutoff (Some dg) (Some df) k in
  dy_ft o = snd (rconv rF Q (q_ft o0) (y_ft o0) (Some (dy_ft o0)) k) /\
  dy_c o = snd (rconv rF Q (q_c o0) (y_c o0) (Some (dy_c o0)) k) /\
  dg_o o = snd (gconv gg G (r_o o0) (g_o o0) (Some (dg_o o0)) k).
Proof.
  intros Hr Hq Hp Hb Lg Ldg Lf Ldf. cbv zeta.
  rewrite variant_normal_form, core_of_converted_nonneg_r by assumption. unfold convert_out.
  cbn [dy_ft dy_c dg_o]. split; [reflexivity|]. split; reflexivity.
Qed.

(* the hypotheses of 2 and 3 are those of 1 *)
Example variants_agree_nonvacuous :
  let k := {| rho := 1; bcoh := 2; btot := 3; lorch := false; omitted := false |} in
  let r := [1; 2; 3] in let g := [0; 1; 2] in let dg := [1; 1; 1] in
  let q := [1; 2] in let f := [5; 6] in let df := [1; 2] in
  allpos r /\ allpos q /\ 0 < rho k /\ 0 < bcoh k /\
  length g = length r /\ length dg = length r /\ length f = length q /\ length df = length q.
Proof.
  cbn. split; [repeat constructor; lra|]. split; [repeat constructor; lra|].
  split; [lra|]. split; [lra|]. repeat split; reflexivity.
Qed.
Example no_variant_drops_uncertainty_nonvacuous :
  let k := {| rho := 1; bcoh := 2; btot := 3; lorch := true; omitted := true |} in
  let r := [1; 2; 3] in let g := [0; 1; 2] in let dg := [1; 1; 1] in
  let q := [1; 2] in let f := [5; 6] in let df := [1; 2] in
  allpos r /\ allpos q /\ 0 < rho k /\ 0 < bcoh k /\
  length g = length r /\ length dg = length r /\ length f = length q /\ length df = length q.
Proof. exact variant_is_conversion_of_core_nonvacuous. Qed.
