(* MergeIncrP.v -- C10: merging, adding a further dataset and merging again gives the curves of merging once
   after everything was added (merge_data writes the stored rows back sorted: a permutation of them). *)
From Coq Require Import List Reals Lra Lia Bool ZArith Permutation Sorted.
From PyStoG Require Import Num NumR ConverterM TransformerM FilterM StogM.
From PyStoG.proofs Require Import VecLib ConverterP CropP MergeP.
Import ListNotations.
Open Scope R_scope.

Lemma aligned_unzip3' (l : list (@item R)) : aligned (unzip3 l).
Proof.
  unfold aligned. induction l as [|[[q v] e] l IH]; [split; reflexivity|].
  unfold unzip3 in *. cbn [map fst snd length ikey ival ierr] in *. destruct IH as [IH1 IH2]. split; congruence.
Qed.

Lemma add_dataset_s_sq (c : @config R) (s : @state R) (d : @dinfo R) :
  s_sq (add_dataset c s d) = cat3 (s_sq s) (to_sq c d (ingest_rows c d)).
Proof. reflexivity. Qed.

Lemma merge_add_rows_perm (c : @config R) (s : @state R) (d : @dinfo R) : aligned (s_sq s) ->
  Permutation (zip3 (s_sq (add_dataset c (merge_data c s) d))) (zip3 (s_sq (add_dataset c s d))).
Proof.
  intros Al. rewrite !add_dataset_s_sq, merge_data_s_sq.
  rewrite zip3_cat3 by apply aligned_unzip3'. rewrite zip3_cat3 by exact Al.
  rewrite zip3_unzip3. apply Permutation_app_tail. apply sort_items_perm.
Qed.

Lemma merge_add_merge (c : @config R) (s : @state R) (d : @dinfo R) : aligned (s_sq s) ->
  t_sq (merge_data c (add_dataset c (merge_data c s) d)) = t_sq (merge_data c (add_dataset c s d)) /\
  t_qsq (merge_data c (add_dataset c (merge_data c s) d)) = t_qsq (merge_data c (add_dataset c s d)).
Proof. intros Al. apply merge_order_independent_state_partial. apply merge_add_rows_perm. exact Al. Qed.
