(* FilterP.v -- structure of the Fourier filter (FilterM.v) at the real numbers:
   the core g_using_F in projection form, and every one of the 12 variants as
   "convert in, run the core, convert out".  Used by FilterC08P.v / FilterC09P.v. *)
From Coq Require Import List Reals Lra Lia Bool ZArith.
From PyStoG Require Import Num NumR ConverterM TransformerM FilterM.
From PyStoG.proofs Require Import VecLib ConverterP CropP NamedP.
Import ListNotations.
Open Scope R_scope.

(* ---------- small helpers ---------- *)
Lemma pair_eta {X Y} (p : X * Y) : (fst p, snd p) = p.
Proof. destruct p; reflexivity. Qed.

Lemma fout_eta (o : fout R) :
  mkfout (q_ft o) (y_ft o) (q_c o) (y_c o) (r_o o) (g_o o) (dy_ft o) (dy_c o) (dg_o o) = o.
Proof. destruct o; reflexivity. Qed.

(* the crop to the full range of the abscissa is the identity (no non-emptiness needed) *)
Lemma crop_full (x y : list R) dy :
  length y = length x -> dok dy (length x) ->
  apply_cropping x y (vmin x) (vmax x) dy = (x, y, dflt_zeros y dy).
Proof.
  intros Ly D. unfold apply_cropping. cbv zeta.
  rewrite !full_mask_select; auto; try lia.
  rewrite (dflt_zeros_length y dy (length x)); auto.
Qed.

(* ---------- the removed (low-r) component ---------- *)
(* the real-space data on [0, cutoff] *)
Definition lowr (r gr : list R) (cutoff : R) (dgr : option (list R)) : list R * list R * list R :=
  apply_cropping r gr 0 cutoff dgr.

(* its transform to Q[S(Q)-1] on the grid q, as the code computes it:
   g_to_F of (g' + 1).  NOTE: g_to_F subtracts the 1 again, so what is
   transformed is G(r) = 4 pi rho r g'(r), i.e. the input is treated as
   g(r) - 1 (a deviation from 1), not as g(r). *)
Definition lowr_T (r gr q : list R) (cutoff : R) (dgr : option (list R)) (k : kw R) : list R * list R * list R :=
  let c := lowr r gr cutoff dgr in
  g_to_F (fst (fst c)) (map (fun v => v + 1) (snd (fst c))) q (Some (snd c)) k.

Lemma g_to_F_as_ft (r g q : list R) d (k : kw R) :
  g_to_F r g q d k =
  fourier_transform r (fst (g_to_G r g d k)) q None None (Some (snd (g_to_G r g d k))) k.
Proof. reflexivity. Qed.

Lemma lowr_T_grid r gr q cutoff dgr k : tr_grid (lowr_T r gr q cutoff dgr k) = q.
Proof. reflexivity. Qed.
Lemma lowr_T_val_length r gr q cutoff dgr k : length (tr_val (lowr_T r gr q cutoff dgr k)) = length q.
Proof. unfold lowr_T. cbv zeta. rewrite g_to_F_as_ft. apply ft_val_length. Qed.
Lemma lowr_T_err_length r gr q cutoff dgr k : length (tr_err (lowr_T r gr q cutoff dgr k)) = length q.
Proof. unfold lowr_T. cbv zeta. rewrite g_to_F_as_ft. apply ft_err_length. Qed.

Lemma F_to_g_grid (q f r : list R) d (k : kw R) : tr_grid (F_to_g q f r d k) = r.
Proof. reflexivity. Qed.

(* ---------- the core, written with projections ---------- *)
Definition hyp (a b : R) : R := R_sqrt.sqrt (a * a + b * b).

(* as written: the two crops to [min q, max q] still in place *)
Lemma g_using_F_raw (r gr q fq : list R) cutoff dgr dfq (k : kw R) :
  g_using_F r gr q fq cutoff dgr dfq k =
  let T := lowr_T r gr q cutoff dgr k in
  let c1 := apply_cropping (tr_grid T) (tr_val T) (vmin q) (vmax q) (Some (tr_err T)) in
  let c2 := apply_cropping q fq (vmin q) (vmax q) dfq in
  let yc := map2 Rminus (snd (fst c2)) (snd (fst c1)) in
  let dyc := map2 hyp (snd c2) (snd c1) in
  let B := F_to_g (fst (fst c2)) yc r (Some dyc) k in
  mkfout (fst (fst c1)) (snd (fst c1)) (fst (fst c2)) yc (tr_grid B) (tr_val B) (snd c1) dyc (tr_err B).
Proof. reflexivity. Qed.

(* the removed component never sees the reciprocal-space input *)
Lemma g_using_F_ft (r gr q fq : list R) cutoff dgr dfq (k : kw R) :
  let o := g_using_F r gr q fq cutoff dgr dfq k in
  let T := lowr_T r gr q cutoff dgr k in
  q_ft o = q /\ y_ft o = tr_val T /\ dy_ft o = tr_err T.
Proof.
  cbv zeta. rewrite g_using_F_raw. cbv zeta. cbn [q_ft y_ft dy_ft].
  rewrite crop_full.
  - cbn [fst snd dflt_zeros]. auto.
  - rewrite ?lowr_T_grid. apply lowr_T_val_length.
  - rewrite ?lowr_T_grid. apply dok_some. apply lowr_T_err_length.
Qed.

(* with the crops resolved *)
Lemma g_using_F_simpl (r gr q fq : list R) cutoff dgr dfq (k : kw R) :
  length fq = length q -> dok dfq (length q) ->
  g_using_F r gr q fq cutoff dgr dfq k =
  let T := lowr_T r gr q cutoff dgr k in
  let yc := map2 Rminus fq (tr_val T) in
  let dyc := map2 hyp (dflt_zeros fq dfq) (tr_err T) in
  let B := F_to_g q yc r (Some dyc) k in
  mkfout q (tr_val T) q yc r (tr_val B) (tr_err T) dyc (tr_err B).
Proof.
  intros Lf Ld. rewrite g_using_F_raw. cbv zeta.
  rewrite (crop_full q fq dfq Lf Ld).
  rewrite (crop_full (tr_grid (lowr_T r gr q cutoff dgr k))).
  - cbn [fst snd dflt_zeros]. rewrite ?lowr_T_grid. reflexivity.
  - rewrite ?lowr_T_grid. apply lowr_T_val_length.
  - rewrite ?lowr_T_grid. apply dok_some. apply lowr_T_err_length.
Qed.

(* the uncertainty argument only enters through its default *)
Lemma g_using_F_dflt (r gr q fq : list R) cutoff dgr dfq (k : kw R) :
  g_using_F r gr q fq cutoff (Some (dflt_zeros gr dgr)) (Some (dflt_zeros fq dfq)) k
  = g_using_F r gr q fq cutoff dgr dfq k.
Proof. reflexivity. Qed.

(* ---------- every variant is: convert in, core, convert out ---------- *)
Definition core_of (G : gfun) (Q : rfun) (r gr q y : list R) (cutoff : R) dgr dy (k : kw R) : fout R :=
  g_using_F r (fst (gconv G gg r gr dgr k)) q (fst (rconv Q rF q y dy k)) cutoff
            (Some (snd (gconv G gg r gr dgr k))) (Some (snd (rconv Q rF q y dy k))) k.

Definition convert_out (G : gfun) (Q : rfun) (k : kw R) (o : fout R) : fout R :=
  mkfout (q_ft o) (fst (rconv rF Q (q_ft o) (y_ft o) (Some (dy_ft o)) k))
         (q_c o) (fst (rconv rF Q (q_c o) (y_c o) (Some (dy_c o)) k))
         (r_o o) (fst (gconv gg G (r_o o) (g_o o) (Some (dg_o o)) k))
         (snd (rconv rF Q (q_ft o) (y_ft o) (Some (dy_ft o)) k))
         (snd (rconv rF Q (q_c o) (y_c o) (Some (dy_c o)) k))
         (snd (gconv gg G (r_o o) (g_o o) (Some (dg_o o)) k)).

Lemma wrap_real_form (X : gfun) r gr q fq cutoff dgr dfq (k : kw R) :
  wrap_real X r gr q fq cutoff dgr dfq k =
  let o := g_using_F r (fst (gconv X gg r gr dgr k)) q fq cutoff (Some (snd (gconv X gg r gr dgr k))) dfq k in
  mkfout (q_ft o) (y_ft o) (q_c o) (y_c o) (r_o o) (fst (gconv gg X (r_o o) (g_o o) (Some (dg_o o)) k))
         (dy_ft o) (dy_c o) (snd (gconv gg X (r_o o) (g_o o) (Some (dg_o o)) k)).
Proof.
  unfold wrap_real. destruct (gconv X gg r gr dgr k) as [g dg]. cbn [fst snd]. cbv zeta.
  destruct (gconv gg X _ _ _ k) as [g' dg']. reflexivity.
Qed.

Lemma wrap_recip_form (core : filt R) (X : rfun) r gr q y cutoff dgr dy (k : kw R) :
  wrap_recip core X r gr q y cutoff dgr dy k =
  let o := core r gr q (fst (rconv X rF q y dy k)) cutoff dgr (Some (snd (rconv X rF q y dy k))) k in
  mkfout (q_ft o) (fst (rconv rF X (q_ft o) (y_ft o) (Some (dy_ft o)) k))
         (q_c o) (fst (rconv rF X (q_c o) (y_c o) (Some (dy_c o)) k))
         (r_o o) (g_o o)
         (snd (rconv rF X (q_ft o) (y_ft o) (Some (dy_ft o)) k))
         (snd (rconv rF X (q_c o) (y_c o) (Some (dy_c o)) k)) (dg_o o).
Proof.
  unfold wrap_recip. destruct (rconv X rF q y dy k) as [f df]. cbn [fst snd]. cbv zeta.
  destruct (rconv rF X (q_ft _) _ _ k) as [a da]. destruct (rconv rF X (q_c _) _ _ k) as [b db]. reflexivity.
Qed.

Lemma wrap_both_form (G : gfun) (Q : rfun) r gr q y cutoff dgr dy (k : kw R) :
  wrap_recip (wrap_real G) Q r gr q y cutoff dgr dy k = convert_out G Q k (core_of G Q r gr q y cutoff dgr dy k).
Proof.
  rewrite wrap_recip_form. cbv zeta. rewrite wrap_real_form. cbv zeta.
  cbn [q_ft y_ft q_c y_c r_o g_o dy_ft dy_c dg_o]. reflexivity.
Qed.

(* the two abscissa outputs of the core are literally the same array *)
Lemma g_using_F_q_ft_q_c (r gr q fq : list R) cutoff dgr dfq (k : kw R) :
  q_ft (g_using_F r gr q fq cutoff dgr dfq k) = q_c (g_using_F r gr q fq cutoff dgr dfq k).
Proof. reflexivity. Qed.

Lemma wrap_real_gg r gr q fq cutoff dgr dfq (k : kw R) :
  wrap_real gg r gr q fq cutoff dgr dfq k = g_using_F r gr q fq cutoff dgr dfq k.
Proof.
  reflexivity.
Qed.

Lemma wrap_recip_rF (core : filt R) r gr q y cutoff dgr dy (k : kw R) :
  wrap_recip core rF r gr q y cutoff dgr dy k = core r gr q y cutoff dgr (Some (dflt_zeros y dy)) k.
Proof.
  rewrite wrap_recip_form. cbv zeta. cbn [rconv idconv fst snd dflt_zeros]. apply fout_eta.
Qed.

Lemma wrap_real_dflt X r gr q fq cutoff dgr dfq (k : kw R) :
  wrap_real X r gr q fq cutoff dgr (Some (dflt_zeros fq dfq)) k = wrap_real X r gr q fq cutoff dgr dfq k.
Proof. reflexivity. Qed.

Lemma wrap_recip_ext (c1 c2 : filt R) X :
  (forall r gr q y cutoff dgr dy k, c1 r gr q y cutoff dgr dy k = c2 r gr q y cutoff dgr dy k) ->
  forall r gr q y cutoff dgr dy k, wrap_recip c1 X r gr q y cutoff dgr dy k = wrap_recip c2 X r gr q y cutoff dgr dy k.
Proof. intros E r gr q y cutoff dgr dy k. rewrite !wrap_recip_form. cbv zeta. rewrite E. reflexivity. Qed.

(* g_using_DCS is written out in the code (and passes q_ft where the others pass q) *)
Lemma g_using_DCS_as_wrap r gr q y cutoff dgr dy (k : kw R) :
  g_using_DCS r gr q y cutoff dgr dy k = wrap_recip g_using_F rDCS r gr q y cutoff dgr dy k.
Proof.
  unfold g_using_DCS, wrap_recip. cbn [rconv].
  destruct (DCS_to_F q y dy k) as [f df]. cbv zeta.
  rewrite (g_using_F_q_ft_q_c r gr q f cutoff dgr (Some df) k). reflexivity.
Qed.

(* The method table: all 12 variants, no side condition. *)
Theorem variant_normal_form (G : gfun) (Q : rfun) r gr q y cutoff dgr dy (k : kw R) :
  filter_variant G Q r gr q y cutoff dgr dy k = convert_out G Q k (core_of G Q r gr q y cutoff dgr dy k).
Proof.
  rewrite <- wrap_both_form.
  destruct G, Q; cbn [filter_variant];
    unfold g_using_S, g_using_FK, G_using_F, G_using_S, G_using_FK, G_using_DCS,
           GK_using_F, GK_using_S, GK_using_FK, GK_using_DCS;
    rewrite ?g_using_DCS_as_wrap;
    rewrite ?wrap_recip_rF, ?wrap_real_dflt; rewrite ?wrap_real_gg;
    try reflexivity;
    symmetry; apply wrap_recip_ext; intros; apply wrap_real_gg.
Qed.
