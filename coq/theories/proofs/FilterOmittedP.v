(* FilterOmittedP.v -- C08 / C15: how the omitted-range option enters the r -> Q transform of the
   low-r part that the Fourier filter removes (fourier_filter.py:66-76 calls g_to_F with the caller's
   keywords; transformer.py adds _low_x_correction to the quadrature, without the 2/pi of F_to_G). *)
From PyStoG Require Import Num NumR ConverterM TransformerM.
From PyStoG.proofs Require Import VecLib LowQP.
From Coq Require Import List Bool Reals Lra Lia.
Import ListNotations.
Open Scope R_scope.

Lemma low_x_added_term_G_to_F (r g q : list R) dg (k : kw R) :
  length g = length r -> omitted k = true ->
  tvalues (G_to_F r g q dg k) =
  map2 (fun v q' => v + low_x_term (lorch k) (vmin r) (vmax r) (hd 0 g) q')
       (tvalues (G_to_F r g q dg (without_omitted k))) q.
Proof.
 intros Lg Om. unfold G_to_F.
 rewrite !fourier_transform_values by assumption.
 rewrite Om. cbn [omitted lorch without_omitted]. cbv zeta.
 unfold low_x_correction. numR.
 rewrite map2_self_map, map2_map_self.
 apply map_ext. intros x. reflexivity.
Qed.

Lemma g_to_G_without_omitted (r g : list R) dg (k : kw R) :
  g_to_G r g dg (without_omitted k) = g_to_G r g dg k.
Proof. reflexivity. Qed.

Lemma low_x_added_term_g_to_F (r g q : list R) dg (k : kw R) :
  length g = length r -> omitted k = true ->
  tvalues (g_to_F r g q dg k) =
  map2 (fun v q' => v + low_x_term (lorch k) (vmin r) (vmax r) (hd 0 (fst (g_to_G r g dg k))) q')
       (tvalues (g_to_F r g q dg (without_omitted k))) q.
Proof.
 intros Lg Om. unfold g_to_F. rewrite g_to_G_without_omitted.
 destruct (g_to_G r g dg k) as [g1 d1] eqn:E. cbn [fst].
 apply low_x_added_term_G_to_F; [|exact Om].
 assert (g1 = fst (g_to_G r g dg k)) as -> by (rewrite E; reflexivity).
 unfold g_to_G. cbn [fst]. rewrite map2_length, Lg. apply Nat.min_id.
Qed.

(* the first value of the G(r) that is transformed: 4 pi rho r0 (g0 - 1) *)
Lemma g_to_G_head (r0 g0 : R) (r g : list R) dg (k : kw R) :
  hd 0 (fst (g_to_G (r0 :: r) (g0 :: g) dg k)) = 4 * PI * r0 * rho k * (g0 - 1).
Proof. unfold g_to_G. cbn [fst map2 hd]. numR. unfold fourpi. numR. reflexivity. Qed.

(* ---- the removed component of the Fourier filter ---- *)
From PyStoG Require Import FilterM.
From PyStoG.proofs Require Import FilterP FilterC08P.

Lemma removed_omitted_term (r gr q fq : list R) cutoff dgr dfq (k : kw R) :
  let '(r', g', d') := apply_cropping r gr 0 cutoff dgr in
  length g' = length r' -> omitted k = true ->
  y_ft (g_using_F r gr q fq cutoff dgr dfq k) =
  map2 (fun v q' => v + low_x_term (lorch k) (vmin r') (vmax r')
                          (hd 0 (fst (g_to_G r' (map (fun v => v + 1) g') (Some d') k))) q')
       (y_ft (g_using_F r gr q fq cutoff dgr dfq (without_omitted k))) q.
Proof.
 pose proof (removed_is_lowr_transform r gr q fq cutoff dgr dfq k) as H1.
 pose proof (removed_is_lowr_transform r gr q fq cutoff dgr dfq (without_omitted k)) as H2.
 destruct (apply_cropping r gr 0 cutoff dgr) as [[r' g'] d'].
 intros L Om. cbv zeta in H1, H2.
 assert (Y1 : y_ft (g_using_F r gr q fq cutoff dgr dfq k)
              = tvalues (g_to_F r' (map (fun v => v + 1) g') q (Some d') k))
   by (rewrite <- H1; reflexivity).
 assert (Y2 : y_ft (g_using_F r gr q fq cutoff dgr dfq (without_omitted k))
              = tvalues (g_to_F r' (map (fun v => v + 1) g') q (Some d') (without_omitted k)))
   by (rewrite <- H2; reflexivity).
 rewrite Y1, Y2. apply low_x_added_term_g_to_F; [rewrite map_length; exact L | exact Om].
Qed.
