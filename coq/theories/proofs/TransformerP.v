(* TransformerP.v -- fourier_transform is the trapezoid sine quadrature (C02),
   and agrees with the Fortran reference loop (FortranM.v) on uniform grids. *)
From Coq Require Import List Reals Lra Lia Bool ZArith.
From PyStoG Require Import Num NumR ConverterM TransformerM FortranM.
From PyStoG.proofs Require Import VecLib ConverterP CropP.
Import ListNotations.
Open Scope R_scope.

(* ---------- small list helpers ---------- *)
Lemma nth_map_lt {X} (f : X -> R) (l : list X) k (dx : X) :
  (k < length l)%nat -> nth k (map f l) 0 = f (nth k l dx).
Proof. intros H. rewrite (nth_indep _ 0 (f dx)) by (rewrite map_length; exact H). apply map_nth. Qed.

Lemma list_as_map (l : list R) : l = map (fun k => nth k l 0) (seq 0 (length l)).
Proof.
  induction l as [|a l IH]; [reflexivity|]. cbn [length seq map nth]. f_equal.
  rewrite <- seq_shift, map_map. exact IH.
Qed.

Lemma map2_map_same {X Y Z W} (f : Y -> Z -> W) (g : X -> Y) (h : X -> Z) l :
  map2 f (map g l) (map h l) = map (fun j => f (g j) (h j)) l.
Proof. induction l as [|a l IH]; cbn [map map2]; [reflexivity | rewrite IH; reflexivity]. Qed.

Lemma map3_map_same {X Y Z W V} (f : Y -> Z -> W -> V) (g : X -> Y) (h : X -> Z) (i : X -> W) l :
  map3 f (map g l) (map h l) (map i l) = map (fun j => f (g j) (h j) (i j)) l.
Proof. induction l as [|a l IH]; cbn [map map3]; [reflexivity | rewrite IH; reflexivity]. Qed.

Lemma fold_left_Rplus l a : fold_left Rplus l a = a + fold_right Rplus 0 l.
Proof. revert a; induction l as [|x l IH]; intros a; cbn [fold_left fold_right]; [lra | rewrite IH; lra]. Qed.

(* ---------- trapz at R ---------- *)
Lemma trapz_cons2 (x0 x1 : R) xs y0 y1 ys :
  trapz (x0 :: x1 :: xs) (y0 :: y1 :: ys) = (x1 - x0) * (y1 + y0) / 2 + trapz (x1 :: xs) (y1 :: ys).
Proof. reflexivity. Qed.
Lemma trapz_nil_l (ys : list R) : trapz [] ys = 0. Proof. reflexivity. Qed.
Lemma trapz_one_l (x : R) ys : trapz [x] ys = 0. Proof. reflexivity. Qed.
Lemma trapz_nil_r (xs : list R) : trapz xs [] = 0. Proof. destruct xs as [|? [|? ?]]; reflexivity. Qed.
Lemma trapz_one_r (xs : list R) y : trapz xs [y] = 0. Proof. destruct xs as [|? [|? ?]]; reflexivity. Qed.

Lemma trapz_scal c (xs ys : list R) : trapz xs (map (fun v => c * v) ys) = c * trapz xs ys.
Proof.
  revert ys; induction xs as [|x0 xs IH]; intros ys; [rewrite !trapz_nil_l; lra|].
  destruct xs as [|x1 xs]; [rewrite !trapz_one_l; lra|].
  destruct ys as [|y0 [|y1 ys]]; cbn [map].
  - rewrite !trapz_nil_r; lra.
  - rewrite !trapz_one_r; lra.
  - rewrite !trapz_cons2. change (c * y1 :: map (fun v => c * v) ys) with (map (fun v => c * v) (y1 :: ys)).
    rewrite IH. lra.
Qed.

Definition lin (a b u v : R) : R := a * u + b * v.

Lemma trapz_lin a b (xs ys1 ys2 : list R) : length ys1 = length ys2 ->
  trapz xs (map2 (lin a b) ys1 ys2) = a * trapz xs ys1 + b * trapz xs ys2.
Proof.
  revert ys1 ys2; induction xs as [|x0 xs IH]; intros ys1 ys2 L; [rewrite !trapz_nil_l; lra|].
  destruct xs as [|x1 xs]; [rewrite !trapz_one_l; lra|].
  destruct ys1 as [|u0 [|u1 ys1]]; destruct ys2 as [|v0 [|v1 ys2]]; cbn [length] in L; try lia; cbn [map2].
  - rewrite !trapz_nil_r; lra.
  - rewrite !trapz_one_r; lra.
  - rewrite !trapz_cons2.
    change (lin a b u1 v1 :: map2 (lin a b) ys1 ys2) with (map2 (lin a b) (u1 :: ys1) (v1 :: ys2)).
    rewrite IH by (cbn [length]; lia). unfold lin. lra.
Qed.

(* ---------- trapezoid rule as a weighted sum ---------- *)
(* weights of the nodes of xs that have a left neighbour `prev` *)
Fixpoint tw_from (prev : R) (xs : list R) : list R :=
  match xs with
  | [] => []
  | xk :: tl =>
      match tl with
      | [] => [(xk - prev) / 2]                          (* last node  *)
      | xk1 :: _ => (xk1 - prev) / 2 :: tw_from xk tl     (* interior   *)
      end
  end.
Definition tweights (xs : list R) : list R :=
  match xs with
  | [] => []
  | [_] => [0]
  | x0 :: ((x1 :: _) as tl) => (x1 - x0) / 2 :: tw_from x0 tl   (* first node *)
  end.

Lemma tw_from_length p xs : length (tw_from p xs) = length xs.
Proof. revert p; induction xs as [|x [|x1 xs] IH]; intros p; cbn [tw_from length] in *; auto. Qed.
Lemma tweights_length xs : length (tweights xs) = length xs.
Proof. destruct xs as [|x0 [|x1 xs]]; cbn [tweights length]; auto. rewrite tw_from_length. reflexivity. Qed.
Lemma tweights_nil : tweights [] = []. Proof. reflexivity. Qed.
Lemma tweights_one x : tweights [x] = [0]. Proof. reflexivity. Qed.

Lemma tw_from_nth p xs k : (k < length xs)%nat ->
  nth k (tw_from p xs) 0 =
  (nth (if Nat.eqb (S k) (length xs) then k else S k) xs 0 - nth k (p :: xs) 0) / 2.
Proof.
  revert p k; induction xs as [|x xs IH]; intros p k Hk; cbn [length] in *; [lia|].
  destruct xs as [|x1 xs].
  - assert (k = 0)%nat by (cbn [length] in Hk; lia). subst k. reflexivity.
  - destruct k as [|k].
    + reflexivity.
    + change (tw_from p (x :: x1 :: xs)) with ((x1 - p) / 2 :: tw_from x (x1 :: xs)).
      cbn [nth]. rewrite IH by (cbn [length] in *; lia).
      change (Nat.eqb (S (S k)) (S (length (x1 :: xs)))) with (Nat.eqb (S k) (length (x1 :: xs))).
      destruct (Nat.eqb (S k) (length (x1 :: xs))); reflexivity.
Qed.

(* W_0 = (x_1 - x_0)/2 *)
Lemma tweights_first xs : (2 <= length xs)%nat ->
  nth 0 (tweights xs) 0 = (nth 1 xs 0 - nth 0 xs 0) / 2.
Proof. destruct xs as [|x0 [|x1 xs]]; cbn [length]; intros; try lia. reflexivity. Qed.
(* W_k = (x_{k+1} - x_{k-1})/2 for 0 < k < n *)
Lemma tweights_interior xs k : (0 < k)%nat -> (S k < length xs)%nat ->
  nth k (tweights xs) 0 = (nth (S k) xs 0 - nth (k - 1) xs 0) / 2.
Proof.
  destruct xs as [|x0 [|x1 xs]]; cbn [length]; intros H0 Hk; try lia.
  destruct k as [|k]; [lia|]. cbn [tweights nth].
  rewrite tw_from_nth by (cbn [length]; lia).
  destruct (Nat.eqb_spec (S k) (length (x1 :: xs))) as [E|_]; [cbn [length] in E; lia|].
  replace (S k - 1)%nat with k by lia. reflexivity.
Qed.
(* W_n = (x_n - x_{n-1})/2 *)
Lemma tweights_last xs : (2 <= length xs)%nat ->
  nth (length xs - 1) (tweights xs) 0 = (nth (length xs - 1) xs 0 - nth (length xs - 2) xs 0) / 2.
Proof.
  destruct xs as [|x0 [|x1 xs]]; cbn [length]; intros; try lia.
  replace (S (S (length xs)) - 1)%nat with (S (length xs)) by lia.
  replace (S (S (length xs)) - 2)%nat with (length xs) by lia.
  cbn [tweights nth]. rewrite tw_from_nth by (cbn [length]; lia).
  cbn [length]. rewrite Nat.eqb_refl. reflexivity.
Qed.

Lemma trapz_tw_from prev x1 xs y1 ys : length ys = length xs ->
  trapz (x1 :: xs) (y1 :: ys) + (x1 - prev) / 2 * y1 =
  fold_right Rplus 0 (map2 Rmult (tw_from prev (x1 :: xs)) (y1 :: ys)).
Proof.
  revert prev x1 y1 ys; induction xs as [|x2 xs IH]; intros prev x1 y1 [|y2 ys] L; cbn [length] in L; try lia.
  - rewrite trapz_one_l. cbn [tw_from map2 fold_right]. lra.
  - rewrite trapz_cons2.
    change (tw_from prev (x1 :: x2 :: xs)) with ((x2 - prev) / 2 :: tw_from x1 (x2 :: xs)).
    cbn [map2 fold_right]. rewrite <- IH by lia. lra.
Qed.

Theorem trapz_weights (xs ys : list R) : length ys = length xs ->
  trapz xs ys = fold_right Rplus 0 (map2 Rmult (tweights xs) ys).
Proof.
  destruct xs as [|x0 [|x1 xs]]; destruct ys as [|y0 [|y1 ys]]; cbn [length]; intros L; try lia.
  - reflexivity.
  - rewrite trapz_one_l. cbn [tweights map2 fold_right]. lra.
  - rewrite trapz_cons2. cbn [tweights map2 fold_right]. rewrite <- trapz_tw_from by lia. lra.
Qed.

Example trapz_weights_nonvacuous :
  tweights [1; 2; 4] = [(2 - 1) / 2; (4 - 1) / 2; (4 - 2) / 2] /\ length [5; 6; 7] = length [1; 2; 4].
Proof. split; reflexivity. Qed.

(* ---------- the value channel of fourier_transform ---------- *)
Definition wlo (wa : option R) (x : list R) : R := match wa with Some v => v | None => vmin x end.
Definition whi (wb : option R) (x : list R) : R := match wb with Some v => v | None => vmax x end.
Definition kern (x' f xi : R) : R := f * Rtrigo_def.sin (xi * x').
Definition ft_core (lor : bool) (b : R) (X Y : list R) (x' : R) : R :=
  trapz X (map2 (kern x') (vmul (if lor then lorch_factor b X else ones_like Y) Y) X).

Lemma ft_values (x y xo : list R) wa wb dy (k : kw R) : omitted k = false ->
  snd (fst (fourier_transform x y xo wa wb dy k)) =
  let m := crop_mask x (wlo wa x) (whi wb x) in
  map (ft_core (lorch k) (whi wb x) (select m x) (select m y)) xo.
Proof. intros Ho. unfold fourier_transform, apply_cropping. cbv zeta. rewrite Ho. reflexivity. Qed.

Lemma ft_fst (x y xo : list R) wa wb dy (k : kw R) :
  fst (fst (fourier_transform x y xo wa wb dy k)) = xo.
Proof. reflexivity. Qed.

Lemma ft_values_dy (x y xo : list R) wa wb d1 d2 (k : kw R) :
  snd (fst (fourier_transform x y xo wa wb d1 k)) = snd (fst (fourier_transform x y xo wa wb d2 k)).
Proof. reflexivity. Qed.

Lemma vmul_ones (Y : list R) : vmul (ones_like Y) Y = Y.
Proof.
  unfold vmul, ones_like. induction Y as [|a Y IH]; cbn [map map2]; [reflexivity|].
  rewrite IH. f_equal. numR. lra.
Qed.

(* 1. plain transform, no window = trapezoid rule on  y_j sin(x_j x') *)
Theorem ft_is_trapz (x y xo : list R) dy (k : kw R) :
  omitted k = false -> lorch k = false -> x <> [] -> length y = length x ->
  fst (fst (fourier_transform x y xo None None dy k)) = xo /\
  snd (fst (fourier_transform x y xo None None dy k)) =
  map (fun x' => trapz x (map2 (fun yj xj => yj * Rtrigo_def.sin (xj * x')) y x)) xo.
Proof.
  intros Ho Hl _ Ly. split; [reflexivity|].
  rewrite ft_values by exact Ho. cbv zeta. unfold wlo, whi. rewrite Hl.
  rewrite !full_mask_select by lia. apply map_ext. intros x'.
  unfold ft_core. rewrite vmul_ones. reflexivity.
Qed.

Definition kplain : kw R := Build_kw 1 1 1 false false.
Definition klorch : kw R := Build_kw 1 1 1 true false.

Example ft_is_trapz_nonvacuous :
  omitted kplain = false /\ lorch kplain = false /\ [1; 2; 3] <> [] /\ length [4; 5; 6] = length [1; 2; 3].
Proof. repeat split; discriminate. Qed.

(* 3. the transform vanishes where the output abscissa is 0 *)
Lemma kern_zero f xi : kern 0 f xi = 0 * kern 1 f xi.
Proof. unfold kern. rewrite Rmult_0_r, sin_0. lra. Qed.

Lemma ft_core_zero lor b X Y : ft_core lor b X Y 0 = 0.
Proof.
  unfold ft_core. rewrite (map2_ext (kern 0) (fun f xi => 0 * kern 1 f xi)) by (intros; apply kern_zero).
  rewrite <- (map_map2 (fun v => 0 * v) (kern 1)). rewrite trapz_scal. lra.
Qed.

Theorem ft_zero_at_0 (x y xo : list R) wa wb dy (k : kw R) i :
  omitted k = false -> (i < length xo)%nat -> nth i xo 0 = 0 ->
  nth i (snd (fst (fourier_transform x y xo wa wb dy k))) 0 = 0.
Proof.
  intros Ho Hi H0. rewrite ft_values by exact Ho. cbv zeta.
  rewrite (nth_map_lt _ _ _ 0) by exact Hi. rewrite H0. apply ft_core_zero.
Qed.

Example ft_zero_at_0_nonvacuous :
  omitted klorch = false /\ (1 < length [1; 0; 2])%nat /\ nth 1 [1; 0; 2] 0 = 0.
Proof. split; [reflexivity|]. split; [cbn; lia | reflexivity]. Qed.

(* 4. odd in the output abscissa *)
Lemma kern_opp x' f xi : kern (- x') f xi = -1 * kern x' f xi.
Proof. unfold kern. replace (xi * - x') with (- (xi * x')) by lra. rewrite sin_neg. lra. Qed.

Lemma ft_core_opp lor b X Y x' : ft_core lor b X Y (- x') = - ft_core lor b X Y x'.
Proof.
  unfold ft_core. rewrite (map2_ext (kern (- x')) (fun f xi => -1 * kern x' f xi)) by (intros; apply kern_opp).
  rewrite <- (map_map2 (fun v => -1 * v) (kern x')). rewrite trapz_scal. lra.
Qed.

Theorem ft_odd (x y xo : list R) wa wb dy (k : kw R) :
  omitted k = false ->
  snd (fst (fourier_transform x y (map Ropp xo) wa wb dy k)) =
  map Ropp (snd (fst (fourier_transform x y xo wa wb dy k))).
Proof.
  intros Ho. rewrite !ft_values by exact Ho. cbv zeta. rewrite !map_map.
  apply map_ext. intros x'. apply ft_core_opp.
Qed.

Example ft_odd_nonvacuous : omitted klorch = false /\ omitted kplain = false /\ map Ropp [1; 2] = [-1; -2].
Proof. repeat split. Qed.

(* 5. linear in the data *)
Lemma vmul_lin a b (L Y1 Y2 : list R) :
  vmul L (map2 (lin a b) Y1 Y2) = map2 (lin a b) (vmul L Y1) (vmul L Y2).
Proof.
  unfold vmul. revert Y1 Y2; induction L as [|l L IH]; intros [|u Y1] [|v Y2]; cbn [map2]; auto.
  rewrite IH. f_equal. unfold lin. numR. lra.
Qed.

Lemma kern_lin x' a b (P1 P2 X : list R) :
  map2 (kern x') (map2 (lin a b) P1 P2) X = map2 (lin a b) (map2 (kern x') P1 X) (map2 (kern x') P2 X).
Proof.
  revert P1 P2; induction X as [|xi X IH]; intros [|u P1] [|v P2]; cbn [map2]; auto.
  rewrite IH. f_equal. unfold lin, kern. lra.
Qed.

Lemma ft_core_lin lor b0 X Y1 Y2 a b x' : length Y1 = length Y2 ->
  ft_core lor b0 X (map2 (lin a b) Y1 Y2) x' = lin a b (ft_core lor b0 X Y1 x') (ft_core lor b0 X Y2 x').
Proof.
  intros L. unfold ft_core.
  assert (E : vmul (if lor then lorch_factor b0 X else ones_like (map2 (lin a b) Y1 Y2)) (map2 (lin a b) Y1 Y2)
            = map2 (lin a b) (vmul (if lor then lorch_factor b0 X else ones_like Y1) Y1)
                             (vmul (if lor then lorch_factor b0 X else ones_like Y2) Y2)).
  { destruct lor; [apply vmul_lin | rewrite !vmul_ones; reflexivity]. }
  rewrite E, kern_lin, trapz_lin; [reflexivity|].
  unfold vmul. rewrite !map2_length. destruct lor; unfold ones_like; rewrite ?map_length; lia.
Qed.

Lemma ft_linear_gen (x y1 y2 xo : list R) a b wa wb dy (k : kw R) :
  omitted k = false -> length y1 = length y2 ->
  snd (fst (fourier_transform x (map2 (fun u v => a * u + b * v) y1 y2) xo wa wb dy k)) =
  map2 (fun u v => a * u + b * v)
       (snd (fst (fourier_transform x y1 xo wa wb dy k)))
       (snd (fst (fourier_transform x y2 xo wa wb dy k))).
Proof.
  intros Ho L. rewrite !ft_values by exact Ho. cbv zeta.
  change (fun u v : R => a * u + b * v) with (lin a b).
  rewrite map2_map_same, select_map2. apply map_ext. intros x'.
  apply ft_core_lin. apply select_length. exact L.
Qed.

Theorem ft_linear (x y1 y2 xo : list R) a b wa wb dy (k : kw R) :
  omitted k = false -> length y1 = length x -> length y2 = length x ->
  snd (fst (fourier_transform x (map2 (fun u v => a * u + b * v) y1 y2) xo wa wb dy k)) =
  map2 (fun u v => a * u + b * v)
       (snd (fst (fourier_transform x y1 xo wa wb dy k)))
       (snd (fst (fourier_transform x y2 xo wa wb dy k))).
Proof. intros Ho L1 L2. apply ft_linear_gen; [exact Ho | lia]. Qed.

Example ft_linear_nonvacuous :
  omitted klorch = false /\ length [4; 5; 6] = length [1; 2; 3] /\ length [7; 8; 9] = length [1; 2; 3].
Proof. repeat split. Qed.

(* ---------- 6. the Fortran reference loop ---------- *)
Definition ugrid (x0 h : R) (n : nat) : list R := map (fun j => x0 + INR j * h) (seq 0 n).
Definition rgrid (delr : R) (lptout : nat) : list R := map (fun i => delr * INR (S i)) (seq 0 lptout).

Lemma fb_terms_cons2 (r x0 x1 : R) xs y0 y1 ys :
  fb_terms r (x0 :: x1 :: xs) (y0 :: y1 :: ys) =
  (Rtrigo_def.sin (x1 * r) * y1 + Rtrigo_def.sin (x0 * r) * y0) / 2 :: fb_terms r (x1 :: xs) (y1 :: ys).
Proof. reflexivity. Qed.

(* trapezoid rule on equally spaced nodes = h * (sum of the Fortran summands) *)
Lemma trapz_uniform_terms (fx fK fY : nat -> R) h r n s :
  (forall j, fx (S j) - fx j = h) ->
  (forall j, fK j = Rtrigo_def.sin (fx j * r) * fY j) ->
  trapz (map fx (seq s n)) (map fK (seq s n)) =
  h * fold_right Rplus 0 (fb_terms r (map fx (seq s n)) (map fY (seq s n))).
Proof.
  intros Hx HK. revert s; induction n as [|n IH]; intros s; [cbn; lra|].
  destruct n as [|n]; [cbn; lra|].
  specialize (IH (S s)). cbn [seq map] in IH |- *.
  rewrite trapz_cons2, fb_terms_cons2. cbn [fold_right]. rewrite IH, (Hx s), !HK. lra.
Qed.

Lemma fb_xout_rgrid delr lptout : fb_xout delr lptout = rgrid delr lptout.
Proof.
  unfold fb_xout, rgrid. rewrite <- seq_shift, map_map. apply map_ext. intros i. numR.
  rewrite <- INR_IZR_INZ. reflexivity.
Qed.

Lemma last_map_seq (f : nat -> R) m d : last (map f (seq 0 (S m))) d = f m.
Proof. rewrite seq_S, map_app. cbn [map Nat.add]. apply last_last. Qed.

Lemma ugrid_length x0 h n : length (ugrid x0 h n) = n.
Proof. unfold ugrid. rewrite map_length, seq_length. reflexivity. Qed.

Lemma fb_delq_ugrid x0 h n : (2 <= n)%nat -> fb_delq (ugrid x0 h n) = h.
Proof.
  intros Hn. destruct n as [|m]; [lia|]. unfold fb_delq. rewrite ugrid_length. unfold ugrid at 1.
  rewrite last_map_seq. numR.
  replace (Z.of_nat (S m) - 1)%Z with (Z.of_nat m) by lia. rewrite <- INR_IZR_INZ.
  cbn [ugrid seq map hd INR].
  assert (0 < INR m) by (apply lt_0_INR; lia). field. lra.
Qed.

(* the transform of the model, on the uniform grid, written index-wise *)
Lemma ft_core_ugrid_terms (lor : bool) (b x0 h : R) n (fw fs : nat -> R) r :
  (if lor then lorch_factor b (ugrid x0 h n) else ones_like (map fs (seq 0 n))) = map fw (seq 0 n) ->
  ft_core lor b (ugrid x0 h n)
    (map2 (fun q s => q * (s - 1)) (ugrid x0 h n) (map fs (seq 0 n))) r =
  h * fold_right Rplus 0
        (fb_terms r (ugrid x0 h n)
           (map3 (fun w yn xn => w * (yn - 1) * xn) (map fw (seq 0 n)) (map fs (seq 0 n)) (ugrid x0 h n))).
Proof.
  intros EW. unfold ft_core.
  assert (EW' : (if lor then lorch_factor b (ugrid x0 h n)
                 else ones_like (map2 (fun q s => q * (s - 1)) (ugrid x0 h n) (map fs (seq 0 n))))
                = map fw (seq 0 n)).
  { rewrite <- EW. destruct lor; [reflexivity|]. unfold ones_like, ugrid.
    rewrite map2_map_same, !map_map. reflexivity. }
  rewrite EW'. unfold vmul, ugrid.
  rewrite !map2_map_same, map3_map_same.
  apply trapz_uniform_terms.
  - intros j. rewrite S_INR. lra.
  - intros j. unfold kern. numR. lra.
Qed.

Lemma fortran_core_gen (lmod : bool) x0 h n (s : list R) delr lptout (k : kw R) (fw : nat -> R) :
  (2 <= n)%nat -> length s = n -> omitted k = false -> lorch k = lmod ->
  fb_yw lmod (ugrid x0 h n) = map fw (seq 0 n) ->
  (if lmod then lorch_factor (vmax (ugrid x0 h n)) (ugrid x0 h n) else ones_like s) = map fw (seq 0 n) ->
  stog_bit_core (ugrid x0 h n) s delr lmod lptout =
  snd (fst (F_to_G (ugrid x0 h n) (fst (S_to_F (ugrid x0 h n) s None k)) (rgrid delr lptout) None k)).
Proof.
  intros Hn Ls Ho Hl EF EP.
  pose (fs := fun j => nth j s 0).
  assert (Es : s = map fs (seq 0 n)) by (rewrite <- Ls; apply list_as_map).
  clearbody fs. subst s.
  unfold F_to_G.
  assert (V := ft_values (ugrid x0 h n) (fst (S_to_F (ugrid x0 h n) (map fs (seq 0 n)) None k))
                 (rgrid delr lptout) None None None k Ho).
  destruct (fourier_transform _ _ _ None None None k) as [[r' gr] dgr].
  cbn [fst snd] in V |- *. subst gr. cbv zeta. unfold wlo, whi.
  assert (Lf : length (fst (S_to_F (ugrid x0 h n) (map fs (seq 0 n)) None k)) = length (ugrid x0 h n)).
  { unfold S_to_F. cbn [fst]. rewrite map2_length, ugrid_length, map_length, seq_length. lia. }
  rewrite !full_mask_select by lia.
  unfold stog_bit_core. cbv zeta. rewrite fb_xout_rgrid, fb_delq_ugrid by exact Hn.
  unfold vscale_r. rewrite map_map. apply map_ext. intros r.
  unfold S_to_F. cbn [fst]. numR. rewrite Hl.
  rewrite (ft_core_ugrid_terms lmod _ x0 h n fw fs r).
  2:{ rewrite <- EP. destruct lmod; [reflexivity|]. unfold ones_like. rewrite !map_map. reflexivity. }
  unfold fb_fs, fb_ynew. rewrite EF. numR. rewrite fold_left_Rplus. unfold two_over_pi. numR.
  assert (PI <> 0) by (pose proof PI_RGT_0; lra). field. assumption.
Qed.

Theorem fortran_eq_pystog x0 h n (s : list R) delr lptout (k : kw R) :
  (2 <= n)%nat -> h <> 0 -> length s = n -> lorch k = false -> omitted k = false ->
  stog_bit_core (ugrid x0 h n) s delr false lptout =
  snd (fst (F_to_G (ugrid x0 h n) (fst (S_to_F (ugrid x0 h n) s None k)) (rgrid delr lptout) None k)).
Proof.
  intros Hn _ Ls Hl Ho. apply (fortran_core_gen false x0 h n s delr lptout k (fun _ => 1)); auto.
  - unfold fb_yw, ugrid. rewrite map_map. reflexivity.
  - unfold ones_like. rewrite <- Ls. clear. numR.
    induction s as [|a s IH] using rev_ind; [reflexivity|].
    rewrite app_length, Nat.add_comm. cbn [length Nat.add]. rewrite seq_S, !map_app, IH. reflexivity.
Qed.

Example fortran_eq_pystog_nonvacuous :
  (2 <= 3)%nat /\ 1 <> 0 /\ length [1; 2; 3] = 3%nat /\ lorch kplain = false /\ omitted kplain = false /\
  ugrid 1 1 3 = [1 + 0 * 1; 1 + 1 * 1; 1 + (1 + 1) * 1].
Proof. repeat split; try lia; try lra. Qed.

(* ----- Lorch window: needs an increasing grid of non-zero abscissae ----- *)
Lemma ugrid_in x0 h n t : In t (ugrid x0 h n) <-> exists j, (j < n)%nat /\ t = x0 + INR j * h.
Proof.
  unfold ugrid. rewrite in_map_iff. split.
  - intros [j [E I]]. apply in_seq in I. exists j. split; [lia | auto].
  - intros [j [I E]]. exists j. split; [auto | apply in_seq; lia].
Qed.

Lemma ugrid_last x0 h m : last (ugrid x0 h (S m)) 0 = x0 + INR m * h.
Proof. unfold ugrid. apply last_map_seq. Qed.

Lemma ugrid_vmax x0 h m : 0 < h -> vmax (ugrid x0 h (S m)) = x0 + INR m * h.
Proof.
  intros Hh. apply Rle_antisym.
  - assert (I : In (vmax (ugrid x0 h (S m))) (ugrid x0 h (S m))).
    { apply vmax_in. unfold ugrid. cbn [seq map]. discriminate. }
    apply ugrid_in in I. destruct I as [j [Hj ->]].
    assert (INR j <= INR m) by (apply le_INR; lia). nra.
  - apply vmax_ge. apply ugrid_in. exists m. split; [lia | reflexivity].
Qed.

Theorem fortran_eq_pystog_lorch x0 h n (s : list R) delr lptout (k : kw R) :
  (2 <= n)%nat -> 0 < x0 -> 0 < h -> length s = n -> lorch k = true -> omitted k = false ->
  stog_bit_core (ugrid x0 h n) s delr true lptout =
  snd (fst (F_to_G (ugrid x0 h n) (fst (S_to_F (ugrid x0 h n) s None k)) (rgrid delr lptout) None k)).
Proof.
  intros Hn Hx0 Hh Ls Hl Ho. destruct n as [|m]; [lia|].
  set (xm := x0 + INR m * h).
  assert (Hxm : 0 < xm) by (unfold xm; pose proof (pos_INR m); nra).
  apply (fortran_core_gen true x0 h (S m) s delr lptout k
           (fun j => Rtrigo_def.sin ((x0 + INR j * h) * (PI / xm)) / (x0 + INR j * h) / (PI / xm))); auto.
  - unfold fb_yw. rewrite ugrid_last. fold xm. unfold ugrid. rewrite map_map. numR. reflexivity.
  - rewrite ugrid_vmax by exact Hh. fold xm. unfold lorch_factor, ugrid. rewrite map_map.
    apply map_ext_in. intros j Hj. unfold lorch_weight, neqb. numR.
    pose proof PI_RGT_0 as Hpi. pose proof (pos_INR j) as Hj0.
    assert (Hxj : 0 < x0 + INR j * h) by nra.
    assert (Hne : PI / xm * (x0 + INR j * h) <> 0).
    { apply Rmult_integral_contrapositive_currified; [|lra].
      unfold Rdiv. apply Rmult_integral_contrapositive_currified; [lra|]. apply Rinv_neq_0_compat. lra. }
    destruct (Reqb_spec (PI / xm * (x0 + INR j * h)) 0) as [E|_]; [contradiction|]. cbn [negb].
    replace ((x0 + INR j * h) * (PI / xm)) with (PI / xm * (x0 + INR j * h)) by lra.
    field. repeat split; lra.
Qed.

Example fortran_eq_pystog_lorch_nonvacuous :
  (2 <= 3)%nat /\ 0 < 1 /\ 0 < 1 /\ length [1; 2; 3] = 3%nat /\ lorch klorch = true /\ omitted klorch = false.
Proof. repeat split; try lia; try lra. Qed.

(* ----- g(r) ----- *)
Lemma F_to_G_eq (q f r : list R) d (k : kw R) :
  F_to_G q f r d k =
  (r, vscale_r two_over_pi (snd (fst (fourier_transform q f r None None d k))),
      vscale_r two_over_pi (snd (fourier_transform q f r None None d k))).
Proof. reflexivity. Qed.

Lemma rgrid_pos delr lptout t : 0 < delr -> In t (rgrid delr lptout) -> 0 < t.
Proof.
  intros Hd I. unfold rgrid in I. apply in_map_iff in I. destruct I as [i [<- _]].
  assert (0 < INR (S i)) by (apply lt_0_INR; lia). nra.
Qed.

Lemma fortran_g_from_core (lmod : bool) xin (s : list R) delr lptout (k : kw R) :
  0 < rho k -> 0 < delr ->
  stog_bit_core xin s delr lmod lptout =
    snd (fst (F_to_G xin (fst (S_to_F xin s None k)) (rgrid delr lptout) None k)) ->
  stog_bit_g xin s delr (rho k) lmod lptout = snd (fst (S_to_g xin s (rgrid delr lptout) None k)).
Proof.
  intros Hrho Hd Hc. unfold stog_bit_g. cbv zeta. rewrite Hc, fb_xout_rgrid.
  unfold S_to_g, S_to_F, F_to_g. rewrite !F_to_G_eq. cbn [fst snd]. unfold G_to_g. cbn [fst snd dflt_zeros].
  rewrite (ft_values_dy _ _ _ None None (Some _) None).
  unfold vadd_s, safe_divide, vscale, fourpi. rewrite map_map2, map2_map_r. numR.
  apply map2_ext_in. intros v t I. apply in_combine_r in I. apply (rgrid_pos delr lptout t Hd) in I.
  pose proof PI_RGT_0 as Hpi.
  assert (0 < 4 * PI * rho k * t) by (apply Rmult_lt_0_compat; [apply Rmult_lt_0_compat|]; lra).
  rewrite Rltb_true by assumption. field. repeat split; lra.
Qed.

Theorem fortran_g_eq_pystog x0 h n (s : list R) delr lptout (k : kw R) :
  (2 <= n)%nat -> h <> 0 -> length s = n -> lorch k = false -> omitted k = false ->
  0 < rho k -> 0 < delr ->
  stog_bit_g (ugrid x0 h n) s delr (rho k) false lptout =
  snd (fst (S_to_g (ugrid x0 h n) s (rgrid delr lptout) None k)).
Proof. intros. apply fortran_g_from_core; auto. apply fortran_eq_pystog; auto. Qed.

Theorem fortran_g_eq_pystog_lorch x0 h n (s : list R) delr lptout (k : kw R) :
  (2 <= n)%nat -> 0 < x0 -> 0 < h -> length s = n -> lorch k = true -> omitted k = false ->
  0 < rho k -> 0 < delr ->
  stog_bit_g (ugrid x0 h n) s delr (rho k) true lptout =
  snd (fst (S_to_g (ugrid x0 h n) s (rgrid delr lptout) None k)).
Proof. intros. apply fortran_g_from_core; auto. apply fortran_eq_pystog_lorch; auto. Qed.

Example fortran_g_eq_pystog_nonvacuous :
  (2 <= 3)%nat /\ 1 <> 0 /\ length [1; 2; 3] = 3%nat /\ lorch kplain = false /\ omitted kplain = false /\
  0 < rho kplain /\ 0 < 1.
Proof. repeat split; try lia; cbn; lra. Qed.

Example fortran_g_eq_pystog_lorch_nonvacuous :
  (2 <= 3)%nat /\ 0 < 1 /\ 0 < 1 /\ length [1; 2; 3] = 3%nat /\ lorch klorch = true /\ omitted klorch = false /\
  0 < rho klorch /\ 0 < 1.
Proof. repeat split; try lia; cbn; lra. Qed.
