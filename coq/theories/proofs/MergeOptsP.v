(* MergeOptsP.v -- C17: the post-merge scale/offset options of StoG.merge_data
   (stog.py:1047-1154), at the real numbers. *)
From Coq Require Import List Reals Lra Lia Bool ZArith.
From PyStoG Require Import Num NumR ConverterM TransformerM FilterM StogM.
From PyStoG.proofs Require Import VecLib ConverterP.
Import ListNotations.
Open Scope R_scope.

(* ---------- small helpers ---------- *)

(* record update of the "Merging" options *)
Definition set_merge (c : @config R) (m : @mopts R) : @config R :=
  {| c_qmin := c_qmin c; c_qmax := c_qmax c; c_rho := c_rho c; c_bcoh := c_bcoh c; c_btot := c_btot c;
     c_dr := c_dr c; c_lowq := c_lowq c; c_lorch := c_lorch c; c_cutoff := c_cutoff c; c_fn := c_fn c;
     c_merge := m |}.

(* Merging["Q[S(Q)-1]"]["Y"]["Scale"] or 1, ...["Offset"] or 0 *)
Definition cF (m : @mopts R) : R := opt_or (o_scale (f_opts m)) 1.
Definition dF (m : @mopts R) : R := opt_or (o_offset (f_opts m)) 0.

(* every key present, holding the value the code would default to *)
Definition normalize (m : @mopts R) : @mopts R :=
  {| m_Y := Some {| o_scale := Some (merged_yscale m); o_offset := Some (merged_yoffset m) |};
     m_F := Some (Some {| o_scale := Some (cF m); o_offset := Some (dF m) |}) |}.

(* the merged means (Q, mean, error of mean) before any option is applied *)
Definition merged (s : @state R) : @arr3 R := unzip3 (merge_sorted (sort_items (zip3 (s_sq s)))).

(* sq[np.isnan(sq)] = 0 *)
Definition nan_scrub (l : list R) : list R := map (fun v => if eqb v v then v else zero) l.

Lemma Reqb_refl v : Reqb v v = true.
Proof. destruct (Reqb_spec v v); [reflexivity | contradiction]. Qed.

Lemma nan_scrub_id (l : list R) : nan_scrub l = l.
Proof. unfold nan_scrub. numR. induction l as [|x l IH]; cbn; [reflexivity|]. rewrite Reqb_refl, IH. reflexivity. Qed.

Lemma vadd_s_0 (l : list R) : vadd_s 0 l = l.
Proof. unfold vadd_s. numR. induction l as [|x l IH]; cbn; [reflexivity|]. rewrite IH. f_equal. lra. Qed.
Lemma vscale_r_1 (l : list R) : vscale_r 1 l = l.
Proof. unfold vscale_r. numR. induction l as [|x l IH]; cbn; [reflexivity|]. rewrite IH. f_equal. lra. Qed.
Lemma map_plus0 (l : list R) : map (fun x => x + 0) l = l.
Proof. exact (vadd_s_0 l). Qed.

Lemma allpos_ltb (q : list R) : allpos q -> Forall (fun d => Rltb 0 d = true) q.
Proof. intros Hq. induction Hq as [|x q Hx Hq IH]; constructor; [apply Rltb_true; exact Hx | exact IH]. Qed.

Lemma safe_divide_first_branch (n d : list R) :
  Forall (fun d => Rltb 0 d = true) d -> safe_divide n d = map2 Rdiv n d.
Proof. unfold safe_divide. numR. intros F. revert n. induction F as [|x d Hx F IH]; intros [|y n]; cbn; auto.
  rewrite Hx, IH. reflexivity. Qed.

Lemma map2_swap {X Y Z} (f : X -> Y -> Z) l m : map2 f l m = map2 (fun y x => f x y) m l.
Proof. revert m; induction l as [|x l IH]; intros [|y m]; cbn; auto. f_equal. apply IH. Qed.

(* ---------- the merge result, in closed form ---------- *)

(* optional scale / optional offset, exactly as the two "if key in dict" branches *)
Definition opt_scale (o : option R) (l : list R) : list R := match o with Some v => vscale_r v l | None => l end.
Definition opt_offset (o : option R) (l : list R) : list R := match o with Some v => vadd_s v l | None => l end.

Lemma opt_scale_or o l : opt_scale o l = map (fun x => x * opt_or o 1) l.
Proof. destruct o as [v|]; cbn [opt_scale opt_or]; [reflexivity|]. symmetry. exact (vscale_r_1 l). Qed.
Lemma opt_offset_or o l : opt_offset o l = map (fun x => x + opt_or o 0) l.
Proof. destruct o as [v|]; cbn [opt_offset opt_or]; [reflexivity|]. symmetry. exact (vadd_s_0 l). Qed.

(* merge_data as a function of the four numbers (aS, bS, cF, dF) only *)
Definition merge_spec (aS bS cf df : R) (s : @state R) : @state R :=
  let q := fst (fst (merged s)) in
  let m := snd (fst (merged s)) in
  let q' := map (fun x => x + 0) q in
  let F := map2 (fun q m => (q + 0) * ((m * aS + bS) - 1) * cf + df) q m in
  let S := map (fun x => x + 1) (safe_divide F q') in
  {| s_xmin := s_xmin s; s_xmax := s_xmax s; s_recip := s_recip s;
     s_sq := unzip3 (sort_items (zip3 (s_sq s)));
     t_sq := Some (q', S); t_qsq := Some (q', F);
     t_ft := t_ft s; t_sqft := t_sqft s; t_fq := t_fq s;
     t_gr := t_gr s; t_grft := t_grft s; t_grl := t_grl s; t_gk := t_gk s |}.

Theorem merge_data_spec (c : @config R) (s : @state R) :
  merge_data c s = merge_spec (merged_yscale (c_merge c)) (merged_yoffset (c_merge c))
                              (cF (c_merge c)) (dF (c_merge c)) s.
Proof.
  unfold merge_data, merge_spec, merged, cF, dF.
  unfold unzip3. cbn [fst snd].
  set (srt := sort_items (zip3 (s_sq s))).
  unfold apply_scales_and_offset, S_to_F, F_to_S. cbn [dflt_zeros].
  change (match o_scale (f_opts (c_merge c)) with Some v => vscale_r v ?l | None => ?l end)
    with (opt_scale (o_scale (f_opts (c_merge c))) l).
  change (match o_offset (f_opts (c_merge c)) with Some v => vadd_s v ?l | None => ?l end)
    with (opt_offset (o_offset (f_opts (c_merge c))) l).
  rewrite opt_scale_or, opt_offset_or.
  change (map (fun v : R => if eqb v v then v else zero) ?l) with (nan_scrub l).
  rewrite nan_scrub_id.
  unfold vadd_s, vscale_r. numR.
  rewrite !map_map, !map_map2, !map2_map_l, !map2_map_r.
  reflexivity.
Qed.

(* merge_data reads the configuration only through these four numbers *)
Corollary merge_data_depends_only (c c' : @config R) (s : @state R) :
  merged_yscale (c_merge c) = merged_yscale (c_merge c') ->
  merged_yoffset (c_merge c) = merged_yoffset (c_merge c') ->
  cF (c_merge c) = cF (c_merge c') -> dF (c_merge c) = dF (c_merge c') ->
  merge_data c s = merge_data c' s.
Proof. intros E1 E2 E3 E4. rewrite !merge_data_spec, E1, E2, E3, E4. reflexivity. Qed.

(* ---------- C17.1 : the stored Q[S(Q)-1] ---------- *)
Theorem stored_F_formula (c : @config R) (s : @state R) (q m dm : list R) :
  unzip3 (merge_sorted (sort_items (zip3 (s_sq s)))) = (q, m, dm) ->
  t_qsq (merge_data c s) =
    Some (map (fun q => q + 0) q,
          map2 (fun q m => (q + 0) * ((m * merged_yscale (c_merge c) + merged_yoffset (c_merge c)) - 1)
                           * cF (c_merge c) + dF (c_merge c)) q m).
Proof. intros E. rewrite merge_data_spec. unfold merge_spec, merged. rewrite E. reflexivity. Qed.

Theorem stored_F_readable (c : @config R) (s : @state R) (q m dm : list R) :
  unzip3 (merge_sorted (sort_items (zip3 (s_sq s)))) = (q, m, dm) ->
  t_qsq (merge_data c s) =
    Some (q, map2 (fun Q mean => cF (c_merge c) * (Q * (merged_yscale (c_merge c) * mean + merged_yoffset (c_merge c) - 1))
                                 + dF (c_merge c)) q m).
Proof. intros E. rewrite (stored_F_formula c s q m dm E), map_plus0. do 2 f_equal.
  apply map2_ext. intros; ring. Qed.

(* ---------- C17.2 : the stored S(Q) ---------- *)
Lemma stored_S_general (c : @config R) (s : @state R) (q' F : list R) :
  t_qsq (merge_data c s) = Some (q', F) ->
  t_sq (merge_data c s) = Some (q', map2 (fun q f => sdiv f q + 1) q' F).
Proof. rewrite merge_data_spec. unfold merge_spec. cbn [t_qsq t_sq]. intros E. injection E as <- <-.
  rewrite safe_divide_R, map_map2. reflexivity. Qed.

Lemma stored_grid (c : @config R) (s : @state R) (q m dm q' F : list R) :
  unzip3 (merge_sorted (sort_items (zip3 (s_sq s)))) = (q, m, dm) ->
  t_qsq (merge_data c s) = Some (q', F) -> q' = q.
Proof. intros E. rewrite (stored_F_readable c s q m dm E). intros E'. injection E' as <- _. reflexivity. Qed.

Theorem stored_S_formula (c : @config R) (s : @state R) (q m dm q' F : list R) :
  unzip3 (merge_sorted (sort_items (zip3 (s_sq s)))) = (q, m, dm) -> allpos q ->
  t_qsq (merge_data c s) = Some (q', F) ->
  t_sq (merge_data c s) = Some (q', map2 (fun q f => f / q + 1) q' F).
Proof. intros E Hq EF. rewrite (stored_S_general c s q' F EF).
  rewrite (stored_grid c s q m dm q' F E EF). do 2 f_equal.
  apply Forall_map2_ext with (P := fun x => 0 < x); [exact Hq|]. intros x y Hx. rewrite sdiv_pos by exact Hx. reflexivity. Qed.

(* ---------- C17.3 : the two stored curves are consistent ---------- *)
Theorem curves_consistent (c : @config R) (s : @state R) (q m dm : list R) :
  unzip3 (merge_sorted (sort_items (zip3 (s_sq s)))) = (q, m, dm) -> allpos q ->
  exists S F, t_sq (merge_data c s) = Some (q, S) /\ t_qsq (merge_data c s) = Some (q, F) /\
              length S = length F /\
              F = map2 (fun Q SQ => Q * (SQ - 1)) q S.
Proof. intros E Hq. pose proof (stored_F_readable c s q m dm E) as EF.
  match type of EF with _ = Some (_, ?f) => set (F := f) in * end.
  pose proof (stored_S_formula c s q m dm q F E Hq EF) as ES.
  exists (map2 (fun q f => f / q + 1) q F), F. split; [exact ES|]. split; [exact EF|].
  assert (LF : (length F <= length q)%nat) by (unfold F; rewrite map2_length; lia).
  split; [rewrite map2_length; lia|].
  rewrite map2_map2_r.
  rewrite (Forall_map2_ext (fun x => 0 < x) _ (fun _ y => y) q F Hq) by (intros x y Hx; field; lra).
  symmetry. apply map2_snd. exact LF. Qed.

(* ---------- C17.4 : absent keys behave as the defaults ---------- *)
Theorem absent_is_identity (c : @config R) (m : @mopts R) (s : @state R) :
  merge_data (set_merge c m) s = merge_data (set_merge c (normalize m)) s.
Proof. apply merge_data_depends_only; reflexivity. Qed.

(* the extreme case: no "Merging" options at all = Scale 1 / Offset 0 everywhere *)
Corollary no_options_is_all_defaults (c : @config R) (s : @state R) :
  merge_data (set_merge c {| m_Y := None; m_F := None |}) s =
  merge_data (set_merge c {| m_Y := Some {| o_scale := Some 1; o_offset := Some 0 |};
                             m_F := Some (Some {| o_scale := Some 1; o_offset := Some 0 |}) |}) s.
Proof. exact (absent_is_identity c {| m_Y := None; m_F := None |} s). Qed.

(* ---------- C17.5 : nothing for the NaN scrub to do ---------- *)
Theorem no_nan_scrub_is_identity :
  (forall l : list R, map (fun v => if eqb v v then v else zero) l = l) /\
  (forall (c : @config R) (s : @state R) (q m dm q' F : list R),
     unzip3 (merge_sorted (sort_items (zip3 (s_sq s)))) = (q, m, dm) -> allpos q ->
     t_qsq (merge_data c s) = Some (q', F) ->
     Forall (fun d => Rltb 0 d = true) q' /\ safe_divide F q' = map2 Rdiv F q').
Proof. split; [exact nan_scrub_id|]. intros c s q m dm q' F E Hq EF.
  rewrite (stored_grid c s q m dm q' F E EF). pose proof (allpos_ltb q Hq) as HL.
  split; [exact HL | apply safe_divide_first_branch; exact HL]. Qed.

(* ---------- a concrete instance: three rows, two of them at the same Q ---------- *)
Lemma Reqb_true x y : x = y -> Reqb x y = true.
Proof. intros. destruct (Reqb_spec x y); [reflexivity|contradiction]. Qed.
Lemma Reqb_false x y : x <> y -> Reqb x y = false.
Proof. intros. destruct (Reqb_spec x y); [contradiction|reflexivity]. Qed.

Ltac decR := repeat match goal with
  | |- context [Rleb ?a ?b] => first [rewrite (Rleb_true a b) by lra | rewrite (Rleb_false a b) by lra]
  | |- context [Reqb ?a ?b] => first [rewrite (Reqb_true a b) by lra | rewrite (Reqb_false a b) by lra]
  end.

Definition ex_state : @state R :=
  {| s_xmin := 1; s_xmax := 2; s_recip := ([], [], []);
     s_sq := ([2; 1; 2], [4; 3; 6], [0; 0; 0]);
     t_sq := None; t_qsq := None; t_ft := None; t_sqft := None; t_fq := None;
     t_gr := None; t_grft := None; t_grl := None; t_gk := None |}.
Definition ex_config (m : @mopts R) : @config R :=
  {| c_qmin := None; c_qmax := None; c_rho := 1; c_bcoh := 1; c_btot := 1; c_dr := [1; 2];
     c_lowq := false; c_lorch := false; c_cutoff := 1; c_fn := gG; c_merge := m |}.

Lemma ex_merged :
  unzip3 (merge_sorted (sort_items (zip3 (s_sq ex_state)))) =
    ([1; 2], [3 / 1; (4 + 6) / (1 + 1)], [R_sqrt.sqrt (0 * 0) / 1; R_sqrt.sqrt (0 * 0 + 0 * 0) / (1 + 1)]).
Proof. cbn [ex_state s_sq zip3 map3 sort_items fold_right insert ikey fst snd]. numR. decR.
  cbn [insert ikey fst snd]. numR. decR.
  cbn [merge_sorted go ikey ival ierr fst snd]. numR. decR.
  cbn [go ikey ival ierr fst snd emit]. numR. decR. cbn [go emit unzip3 map ikey ival ierr fst snd]. numR.
  reflexivity. Qed.

Lemma ex_allpos : allpos [1; 2].
Proof. repeat constructor; lra. Qed.

Example stored_F_formula_nonvacuous :
  t_qsq (merge_data (ex_config {| m_Y := Some {| o_scale := Some 2; o_offset := None |};
                                  m_F := Some (Some {| o_scale := None; o_offset := Some 5 |}) |}) ex_state)
  = Some ([1; 2], [1 * (1 * (2 * (3 / 1) + 0 - 1)) + 5; 1 * (2 * (2 * ((4 + 6) / (1 + 1)) + 0 - 1)) + 5]).
Proof. rewrite (stored_F_readable _ _ _ _ _ ex_merged). reflexivity. Qed.

Example stored_S_formula_nonvacuous : exists q m dm q' F,
  unzip3 (merge_sorted (sort_items (zip3 (s_sq ex_state)))) = (q, m, dm) /\ allpos q /\
  t_qsq (merge_data (ex_config {| m_Y := None; m_F := None |}) ex_state) = Some (q', F) /\ q <> [].
Proof. eexists _, _, _, _, _. split; [exact ex_merged|]. split; [exact ex_allpos|].
  split; [exact (stored_F_readable _ _ _ _ _ ex_merged) | discriminate]. Qed.

Example curves_consistent_nonvacuous : exists q m dm,
  unzip3 (merge_sorted (sort_items (zip3 (s_sq ex_state)))) = (q, m, dm) /\ allpos q /\ length q = 2%nat.
Proof. eexists _, _, _. split; [exact ex_merged|]. split; [exact ex_allpos | reflexivity]. Qed.

(* the normal form really differs from an option record with missing keys *)
Example absent_is_identity_nonvacuous :
  normalize {| m_Y := None; m_F := Some None |} <> {| m_Y := None; m_F := Some None |} /\
  merged_yscale (normalize {| m_Y := None; m_F := Some None |}) = 1 /\
  dF (normalize {| m_Y := None; m_F := Some None |}) = 0.
Proof. split; [discriminate|]. split; reflexivity. Qed.
