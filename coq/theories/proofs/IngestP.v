(* IngestP.v -- dataset ingestion (StoG.add_dataset, stog.py:929-1019) at the
   real numbers (C11).

   Rows.  A three-column array  a = (x, y, e)  is read row-wise as
   rows_of a = combine x (combine y e) : a list of nested triples (q, (y, e)).
   (StogM.zip3 is NOT used here.)  For aligned columns nothing is lost in
   that reading; alignment itself is theorem arrays_aligned. *)
From Coq Require Import List Reals Lra Lia Bool ZArith.
From PyStoG Require Import Num NumR ConverterM TransformerM FilterM StogM.
From PyStoG.proofs Require Import VecLib ConverterP CropP.
Import ListNotations.
Open Scope R_scope.

(* ---------- vocabulary of the statements ---------- *)
Definition row := (R * (R * R))%type.
Definition rows_of (a : @arr3 R) : list row := let '(x, y, e) := a in combine x (combine y e).
Definition qcol (a : @arr3 R) : list R := fst (fst a).
Definition aligned (a : @arr3 R) : Prop :=
  let '(x, y, e) := a in length y = length x /\ length e = length x.

(* the uncertainty column of the input: given, or zeros *)
Definition d_err (d : @dinfo R) : list R :=
  match d_dy d with Some e => e | None => zeros_like (d_y d) end.
(* the per-dataset window: Qmin / Qmax of the dataset, else min / max of the rounded Q *)
Definition d_lo (d : @dinfo R) : R := opt_or (d_qmin d) (vmin (map around2 (d_x d))).
Definition d_hi (d : @dinfo R) : R := opt_or (d_qmax d) (vmax (map around2 (d_x d))).
(* 'Y' or 'X' present in the dataset description *)
Definition d_adjusting (d : @dinfo R) : bool :=
  match d_Y d, d_X d with None, None => false | _, _ => true end.
Definition d_yscale (d : @dinfo R) : R := match d_Y d with Some o => opt_or (o_scale o) 1 | None => 1 end.
Definition d_yoffset (d : @dinfo R) : R := match d_Y d with Some o => opt_or (o_offset o) 0 | None => 0 end.
Definition d_xoffset (d : @dinfo R) : R := match d_X d with Some o => opt_or o 0 | None => 0 end.

Definition in_dataset_window (d : @dinfo R) (t : row) : bool :=
  Rleb (d_lo d) (fst t) && Rleb (fst t) (d_hi d).
(* scale then offset y, scale dy, shift Q and put it back on the 0.01 grid *)
Definition adjust_row (d : @dinfo R) (t : row) : row :=
  let '(q, (y, e)) := t in
  if d_adjusting d
  then (around2 (q + d_xoffset d), (y * d_yscale d + d_yoffset d, e * d_yscale d))
  else (q, (y, e)).
Definition in_global_window (c : @config R) (t : row) : bool :=
  (match c_qmin c with Some lo => Rleb lo (fst t) | None => true end) &&
  (match c_qmax c with Some hi => Rleb (fst t) hi | None => true end).

(* the hypotheses on a dataset: the columns handed in have one length *)
Definition d_ok (d : @dinfo R) : Prop :=
  length (d_y d) = length (d_x d) /\ (forall e, d_dy d = Some e -> length e = length (d_x d)).

(* one stored S(Q) row, as the converter's scalar content *)
Definition sq_row (c : @config R) (d : @dinfo R) (t : row) : row :=
  let '(q, (y, e)) := t in
  (q, (rval (conv_kw c) (d_kind d) rS q y, rerr (conv_kw c) (d_kind d) rS q e)).

(* ---------- list helpers ---------- *)
Lemma filter_filter_and {X} (p q : X -> bool) l :
  filter q (filter p l) = filter (fun t => p t && q t) l.
Proof.
  induction l as [|a l IH]; cbn [filter]; auto.
  destruct (p a); cbn [filter andb]; rewrite IH; reflexivity.
Qed.

Lemma filter_all_true {X} (p : X -> bool) l : (forall t, p t = true) -> filter p l = l.
Proof. intros P. induction l as [|a l IH]; cbn [filter]; [reflexivity|]. rewrite P, IH. reflexivity. Qed.

Lemma combine3_map (f g h : R -> R) x y e :
  combine (map f x) (combine (map g y) (map h e)) =
  map (fun t : row => let '(q, (v, w)) := t in (f q, (g v, h w))) (combine x (combine y e)).
Proof.
  revert y e; induction x as [|a x IH]; intros [|b y] [|c e]; cbn [map combine]; auto.
  rewrite IH. reflexivity.
Qed.

Lemma combine3_map2 (f g : R -> R -> R) x y e :
  combine x (combine (map2 f x y) (map2 g x e)) =
  map (fun t : row => let '(q, (v, w)) := t in (q, (f q v, g q w))) (combine x (combine y e)).
Proof.
  revert y e; induction x as [|a x IH]; intros [|b y] [|c e]; cbn [map map2 combine]; auto.
  rewrite IH. reflexivity.
Qed.

Lemma In_combine3_nth (f : R -> R) x y e i :
  (i < length x)%nat -> length y = length x -> length e = length x ->
  In (f (nth i x 0), (nth i y 0, nth i e 0)) (combine (map f x) (combine y e)).
Proof.
  revert y e i; induction x as [|a x IH]; intros [|b y] [|c e] i Hi Ly Le; cbn [length] in *; try lia.
  destruct i as [|i]; cbn [map combine nth In].
  - left; reflexivity.
  - right. apply IH; lia.
Qed.

Lemma map_noise16 (l : list R) : map noise16 l = l.
Proof. exact (map_id l). Qed.

(* ---------- rows of the building blocks ---------- *)
Lemma rows_crop (x y e : list R) lo hi :
  rows_of (apply_cropping x y lo hi (Some e)) =
  filter (fun t => Rleb lo (fst t) && Rleb (fst t) hi) (rows_of (x, y, e)).
Proof.
  pose proof (crop_is_filter_gen x y lo hi (Some e)) as E.
  destruct (apply_cropping x y lo hi (Some e)) as [[x' y'] e']. exact E.
Qed.

Lemma rows_crop_lo lo a : rows_of (crop_lo lo a) = filter (fun t => Rleb lo (fst t)) (rows_of a).
Proof.
  destruct a as [[x y] e]. unfold crop_lo, rows_of. cbv zeta. numR.
  rewrite <- !select_combine. apply (select_map_filter_combine (fun v => Rleb lo v)).
Qed.

Lemma rows_crop_hi hi a : rows_of (crop_hi hi a) = filter (fun t => Rleb (fst t) hi) (rows_of a).
Proof.
  destruct a as [[x y] e]. unfold crop_hi, rows_of. cbv zeta. numR.
  rewrite <- !select_combine. apply (select_map_filter_combine (fun v => Rleb v hi)).
Qed.

Lemma rows_global (c : @config R) a :
  rows_of (match c_qmax c with
           | Some hi => crop_hi hi (match c_qmin c with Some lo => crop_lo lo a | None => a end)
           | None => match c_qmin c with Some lo => crop_lo lo a | None => a end
           end) = filter (in_global_window c) (rows_of a).
Proof.
  unfold in_global_window.
  destruct (c_qmin c) as [lo|], (c_qmax c) as [hi|];
    rewrite ?rows_crop_hi, ?rows_crop_lo, ?filter_filter_and.
  - reflexivity.
  - apply filter_ext. intros t. rewrite andb_true_r. reflexivity.
  - reflexivity.
  - symmetry. apply filter_all_true. reflexivity.
Qed.

Lemma rows_scales (x y e : list R) ys yo xo :
  rows_of (map around2 (vadd_s xo x), vadd_s yo (vscale_r ys y), vscale_r ys e) =
  map (fun t : row => let '(q, (v, w)) := t in (around2 (q + xo), (v * ys + yo, w * ys)))
      (rows_of (x, y, e)).
Proof.
  unfold vadd_s, vscale_r, rows_of. numR.
  rewrite !map_map. apply combine3_map.
Qed.

(* ---------- 1. what is stored for one dataset ---------- *)
Theorem ingest_rows_spec (c : @config R) (d : @dinfo R) :
  rows_of (ingest_rows c d) =
  filter (in_global_window c)
    (map (adjust_row d)
       (filter (in_dataset_window d) (rows_of (map around2 (d_x d), d_y d, d_err d)))).
Proof.
  unfold ingest_rows. cbv zeta. rewrite !map_noise16.
  assert (E : match d_dy d with Some e => map noise16 e | None => zeros_like (d_y d) end = d_err d).
  { unfold d_err. destruct (d_dy d); [apply map_noise16 | reflexivity]. }
  rewrite E. clear E.
  pose proof (rows_crop (map around2 (d_x d)) (d_y d) (d_err d) (d_lo d) (d_hi d)) as E.
  fold (d_lo d) (d_hi d).
  destruct (apply_cropping (map around2 (d_x d)) (d_y d) (d_lo d) (d_hi d) (Some (d_err d)))
    as [[x1 y1] e1].
  change (rows_of (x1, y1, e1) = filter (in_dataset_window d) (rows_of (map around2 (d_x d), d_y d, d_err d))) in E.
  rewrite <- E. clear E.
  unfold adjust_row, d_adjusting, d_yscale, d_yoffset, d_xoffset.
  destruct (d_Y d) as [oy|], (d_X d) as [ox|]; unfold apply_scales_and_offset; cbv beta iota;
    rewrite rows_global; try (rewrite rows_scales; numR; reflexivity).
  f_equal. symmetry. erewrite map_ext; [apply map_id|]. intros [q [y e]]. reflexivity.
Qed.


(* ---------- 2. / 3. the stored rows do not depend on the state ---------- *)
Theorem add_dataset_appends (c : @config R) (s : @state R) (d : @dinfo R) :
  s_recip (add_dataset c s d) = cat3 (s_recip s) (ingest_rows c d) /\
  s_sq (add_dataset c s d) = cat3 (s_sq s) (to_sq c d (ingest_rows c d)) /\
  t_sq (add_dataset c s d) = t_sq s /\ t_qsq (add_dataset c s d) = t_qsq s /\
  t_ft (add_dataset c s d) = t_ft s /\ t_sqft (add_dataset c s d) = t_sqft s /\
  t_fq (add_dataset c s d) = t_fq s /\ t_gr (add_dataset c s d) = t_gr s /\
  t_grft (add_dataset c s d) = t_grft s /\ t_grl (add_dataset c s d) = t_grl s /\
  t_gk (add_dataset c s d) = t_gk s.
Proof. repeat split. Qed.

Theorem ingest_history_independent (c : @config R) (ds : list (@dinfo R)) (s0 : @state R) :
  s_recip (fold_left (add_dataset c) ds s0) =
    fold_left cat3 (map (ingest_rows c) ds) (s_recip s0) /\
  s_sq (fold_left (add_dataset c) ds s0) =
    fold_left cat3 (map (fun d => to_sq c d (ingest_rows c d)) ds) (s_sq s0).
Proof.
  revert s0; induction ds as [|d ds IH]; intros s0; cbn [fold_left map]; [split; reflexivity|].
  destruct (IH (add_dataset c s0 d)) as [E1 E2]. rewrite E1, E2. split; reflexivity.
Qed.

(* the master dictionaries are not touched by any number of add_dataset calls *)
Definition masters (s : @state R) :=
  (t_sq s, t_qsq s, t_ft s, t_sqft s, t_fq s, t_gr s, t_grft s, t_grl s, t_gk s).
Theorem ingest_keeps_masters (c : @config R) (ds : list (@dinfo R)) (s0 : @state R) :
  masters (fold_left (add_dataset c) ds s0) = masters s0.
Proof.
  revert s0; induction ds as [|d ds IH]; intros s0; cbn [fold_left]; [reflexivity|].
  rewrite IH. reflexivity.
Qed.

(* ---------- 4. the S(Q) row is the conversion of the stored row ---------- *)
Theorem to_sq_def (c : @config R) (d : @dinfo R) (x y e : list R) :
  to_sq c d (x, y, e) =
  (x, fst (rconv (d_kind d) rS x y (Some e) (conv_kw c)),
      snd (rconv (d_kind d) rS x y (Some e) (conv_kw c))).
Proof. unfold to_sq. destruct (rconv (d_kind d) rS x y (Some e) (conv_kw c)); reflexivity. Qed.

Lemma qcol_to_sq (c : @config R) (d : @dinfo R) a : qcol (to_sq c d a) = qcol a.
Proof. destruct a as [[x y] e]. rewrite to_sq_def. reflexivity. Qed.

Theorem sq_row_is_conversion (c : @config R) (d : @dinfo R) (x y e : list R) :
  to_sq c d (x, y, e) =
    (x, fst (rconv (d_kind d) rS x y (Some e) (conv_kw c)),
        snd (rconv (d_kind d) rS x y (Some e) (conv_kw c))) /\
  qcol (to_sq c d (x, y, e)) = x.
Proof. split; [apply to_sq_def | apply (qcol_to_sq c d (x, y, e))]. Qed.

Theorem sq_rows_pointwise (c : @config R) (d : @dinfo R) a :
  aligned a -> rows_of (to_sq c d a) = map (sq_row c d) (rows_of a).
Proof.
  destruct a as [[x y] e]. intros [Ly Le]. rewrite to_sq_def.
  rewrite rconv_pointwise by (first [exact Ly | apply dok_some; exact Le]).
  cbn [fst snd dflt_zeros rows_of]. apply combine3_map2.
Qed.

Lemma rerr_toS (k : kw R) X q e : 0 < q -> bcoh k <> 0 -> rerr k X rS q e = dtoS k X q * e.
Proof.
  intros Hq Hb. destruct X; cbn [rerr dtoS]; unfold eF_to_S, eFK_to_F;
    rewrite ?sdiv_pos by assumption; try field; lra.
Qed.

Lemma sq_row_spec (c : @config R) (d : @dinfo R) q y e : 0 < q -> c_bcoh c <> 0 ->
  sq_row c d (q, (y, e)) =
  (q, (rspec (conv_kw c) (d_kind d) rS q y, dtoS (conv_kw c) (d_kind d) q * e)).
Proof.
  intros Hq Hb. unfold sq_row.
  rewrite rval_spec by assumption. rewrite rerr_toS by assumption. reflexivity.
Qed.

(* ---------- alignment of the building blocks ---------- *)
Lemma aligned_crop_lo lo a : aligned a -> aligned (crop_lo lo a).
Proof.
  destruct a as [[x y] e]. unfold crop_lo, aligned. cbv zeta. intros [Ly Le].
  split; apply select_length; assumption.
Qed.
Lemma aligned_crop_hi hi a : aligned a -> aligned (crop_hi hi a).
Proof.
  destruct a as [[x y] e]. unfold crop_hi, aligned. cbv zeta. intros [Ly Le].
  split; apply select_length; assumption.
Qed.

Definition glob (c : @config R) (a : @arr3 R) : @arr3 R :=
  match c_qmax c with
  | Some hi => crop_hi hi (match c_qmin c with Some lo => crop_lo lo a | None => a end)
  | None => match c_qmin c with Some lo => crop_lo lo a | None => a end
  end.

Lemma aligned_glob c a : aligned a -> aligned (glob c a).
Proof.
  intros Al. unfold glob. destruct (c_qmin c), (c_qmax c);
    repeat first [apply aligned_crop_hi | apply aligned_crop_lo]; exact Al.
Qed.

Lemma d_err_length (d : @dinfo R) : d_ok d -> length (d_err d) = length (d_x d).
Proof.
  intros [Ly Le]. unfold d_err. destruct (d_dy d) as [e|]; [apply Le; reflexivity|].
  unfold zeros_like. rewrite map_length. exact Ly.
Qed.

(* a Q value on the 0.01 grid *)
Definition on_grid (q : R) : Prop := exists n : Z, q = IZR n / 100.

Lemma Rrint_integer x : exists n : Z, Rrint x = IZR n.
Proof.
  unfold Rrint. cbv zeta.
  destruct (Rlt_dec (x - IZR (Rfloor x)) (1 / 2)); [eexists; reflexivity|].
  destruct (Rlt_dec (1 / 2) (x - IZR (Rfloor x))); [eexists; reflexivity|].
  destruct (Z.even (Rfloor x)); eexists; reflexivity.
Qed.
Lemma around2_on_grid x : on_grid (around2 x).
Proof. unfold on_grid, around2. numR. destruct (Rrint_integer (x * 100)) as [n ->]. exists n. reflexivity. Qed.
Lemma map_around2_on_grid l : Forall on_grid (map around2 l).
Proof. apply Forall_forall. intros q Hq. apply in_map_iff in Hq. destruct Hq as [v [<- _]]. apply around2_on_grid. Qed.
Lemma select_Forall {X} (P : X -> Prop) m l : Forall P l -> Forall P (select m l).
Proof.
  intros F; revert m; induction F as [|a l Pa F IH]; intros [|b m]; cbn [select]; auto.
  destruct b; [constructor; auto | auto].
Qed.

(* ingest_rows is: something (aligned, on the grid), then the global window *)
Lemma ingest_rows_glob (c : @config R) (d : @dinfo R) :
  exists a, ingest_rows c d = glob c a /\ (d_ok d -> aligned a) /\ Forall on_grid (qcol a).
Proof.
  unfold ingest_rows. cbv zeta. rewrite !map_noise16.
  assert (E : match d_dy d with Some e => map noise16 e | None => zeros_like (d_y d) end = d_err d).
  { unfold d_err. destruct (d_dy d); [apply map_noise16 | reflexivity]. }
  rewrite E. clear E. fold (d_lo d) (d_hi d).
  unfold apply_cropping. cbv zeta. cbn [dflt_zeros].
  set (m := crop_mask (map around2 (d_x d)) (d_lo d) (d_hi d)).
  assert (AL : d_ok d -> aligned (select m (map around2 (d_x d)), select m (d_y d), select m (d_err d))).
  { intros OK. split; apply select_length; rewrite map_length;
      [exact (proj1 OK) | apply d_err_length; exact OK]. }
  assert (G : Forall on_grid (select m (map around2 (d_x d)))) by apply select_Forall, map_around2_on_grid.
  destruct (d_Y d) as [oy|], (d_X d) as [ox|]; unfold apply_scales_and_offset; cbv beta iota;
    (eexists; split; [unfold glob; reflexivity|]);
    (split; [intros OK; specialize (AL OK); unfold aligned, vadd_s, vscale_r in *;
             rewrite ?map_length; exact AL
            | cbn [qcol fst]; first [apply map_around2_on_grid | exact G]]).
Qed.

Theorem ingest_aligned (c : @config R) (d : @dinfo R) : d_ok d -> aligned (ingest_rows c d).
Proof.
  intros OK. destruct (ingest_rows_glob c d) as [a [-> [AL _]]]. apply aligned_glob, AL, OK.
Qed.

Lemma aligned_to_sq (c : @config R) (d : @dinfo R) a : aligned a -> aligned (to_sq c d a).
Proof.
  destruct a as [[x y] e]. intros [Ly Le]. rewrite to_sq_def.
  rewrite rconv_pointwise by (first [exact Ly | apply dok_some; exact Le]).
  cbn [fst snd dflt_zeros]. unfold aligned. rewrite !map2_length, Ly, Le, Nat.min_id.
  split; reflexivity.
Qed.

Lemma aligned_cat3 (a b : @arr3 R) : aligned a -> aligned b -> aligned (cat3 a b).
Proof.
  destruct a as [[x y] e], b as [[x' y'] e']. unfold aligned, cat3. intros [A1 A2] [B1 B2].
  rewrite !app_length. lia.
Qed.
Lemma qcol_cat3 (a b : @arr3 R) : qcol (cat3 a b) = qcol a ++ qcol b.
Proof. destruct a as [[x y] e], b as [[x' y'] e']. reflexivity. Qed.

(* 4, per stored row: value by the defining formula, uncertainty by the slope of X -> S *)
Theorem sq_row_formula (c : @config R) (d : @dinfo R) (i : nat) :
  d_ok d -> c_bcoh c <> 0 ->
  (i < length (rows_of (ingest_rows c d)))%nat ->
  let '(q, (y, e)) := nth i (rows_of (ingest_rows c d)) (0, (0, 0)) in
  0 < q ->
  nth i (rows_of (to_sq c d (ingest_rows c d))) (0, (0, 0)) =
  (q, (rspec (conv_kw c) (d_kind d) rS q y, dtoS (conv_kw c) (d_kind d) q * e)).
Proof.
  intros OK Hb Hi. rewrite sq_rows_pointwise by (apply ingest_aligned; exact OK).
  rewrite (nth_indep (map (sq_row c d) (rows_of (ingest_rows c d))) (0, (0, 0)) (sq_row c d (0, (0, 0))))
    by (rewrite map_length; exact Hi).
  rewrite map_nth.
  destruct (nth i (rows_of (ingest_rows c d)) (0, (0, 0))) as [q [y e]].
  intros Hq. apply sq_row_spec; assumption.
Qed.

(* ---------- 5. nothing outside the global window ---------- *)
Lemma Rleb_le a b : Rleb a b = true -> a <= b.
Proof. destruct (Rleb_spec a b); [auto | discriminate]. Qed.

Lemma qcol_crop_lo lo a : qcol (crop_lo lo a) = filter (fun v => Rleb lo v) (qcol a).
Proof. destruct a as [[x y] e]. unfold crop_lo, qcol. cbv zeta. cbn [fst]. numR. apply select_map_filter. Qed.
Lemma qcol_crop_hi hi a : qcol (crop_hi hi a) = filter (fun v => Rleb v hi) (qcol a).
Proof. destruct a as [[x y] e]. unfold crop_hi, qcol. cbv zeta. cbn [fst]. numR. apply select_map_filter. Qed.

Theorem no_point_outside_global_window (c : @config R) (d : @dinfo R) :
  Forall (fun q => (forall lo, c_qmin c = Some lo -> lo <= q) /\
                   (forall hi, c_qmax c = Some hi -> q <= hi))
         (qcol (ingest_rows c d)).
Proof.
  destruct (ingest_rows_glob c d) as [a [-> _]]. unfold glob.
  apply Forall_forall. intros q Hq.
  destruct (c_qmin c) as [lo|], (c_qmax c) as [hi|];
    rewrite ?qcol_crop_hi, ?qcol_crop_lo in Hq;
    repeat (apply filter_In in Hq; let H := fresh "W" in destruct Hq as [Hq H]; apply Rleb_le in H);
    (split; intros v Ev; [try discriminate Ev | try discriminate Ev]; injection Ev as <-; assumption).
Qed.

(* every stored Q is on the 0.01 grid (also after the Q shift) *)
Theorem stored_q_on_grid (c : @config R) (d : @dinfo R) : Forall on_grid (qcol (ingest_rows c d)).
Proof.
  destruct (ingest_rows_glob c d) as [a [-> [_ G]]]. unfold glob.
  apply Forall_forall. intros q Hq. rewrite Forall_forall in G. apply G.
  destruct (c_qmin c) as [lo|], (c_qmax c) as [hi|];
    rewrite ?qcol_crop_hi, ?qcol_crop_lo in Hq;
    repeat (apply filter_In in Hq; destruct Hq as [Hq _]); exact Hq.
Qed.

(* ---------- 6. nothing inside both windows is lost ---------- *)
Theorem no_point_inside_both_lost (c : @config R) (d : @dinfo R) (i : nat) :
  d_ok d -> (i < length (d_x d))%nat ->
  let q := around2 (nth i (d_x d) 0) in
  let t := adjust_row d (q, (nth i (d_y d) 0, nth i (d_err d) 0)) in
  d_lo d <= q <= d_hi d ->
  (forall lo, c_qmin c = Some lo -> lo <= fst t) ->
  (forall hi, c_qmax c = Some hi -> fst t <= hi) ->
  In t (rows_of (ingest_rows c d)).
Proof.
  intros OK Hi q t Hw Hlo Hhi. rewrite ingest_rows_spec. apply filter_In. split.
  - apply in_map. apply filter_In. split.
    + unfold rows_of. apply In_combine3_nth; [exact Hi | exact (proj1 OK) | apply d_err_length; exact OK].
    + unfold in_dataset_window. cbn [fst]. apply (proj2 (inwin_spec _ _ _)). exact Hw.
  - unfold in_global_window.
    destruct (c_qmin c) as [lo|], (c_qmax c) as [hi|]; rewrite ?Rleb_true; auto.
Qed.

(* ---------- 7. both storage arrays stay aligned, row for row ---------- *)
Lemma arrays_aligned_from (c : @config R) (ds : list (@dinfo R)) (s0 : @state R) :
  Forall d_ok ds ->
  aligned (s_recip s0) -> aligned (s_sq s0) -> qcol (s_recip s0) = qcol (s_sq s0) ->
  let st := fold_left (add_dataset c) ds s0 in
  aligned (s_recip st) /\ aligned (s_sq st) /\ qcol (s_recip st) = qcol (s_sq st).
Proof.
  intros F. revert s0. induction F as [|d ds OK F IH]; intros s0 A1 A2 Q; cbn [fold_left]; [auto|].
  apply IH; cbn [add_dataset s_recip s_sq].
  - apply aligned_cat3; [exact A1 | apply ingest_aligned; exact OK].
  - apply aligned_cat3; [exact A2 | apply aligned_to_sq, ingest_aligned; exact OK].
  - rewrite !qcol_cat3, qcol_to_sq, Q. reflexivity.
Qed.

Theorem arrays_aligned (c : @config R) (ds : list (@dinfo R)) :
  Forall d_ok ds ->
  let st := fold_left (add_dataset c) ds init_state in
  aligned (s_recip st) /\ aligned (s_sq st) /\ qcol (s_recip st) = qcol (s_sq st).
Proof.
  intros F. apply arrays_aligned_from; [exact F | | | reflexivity]; cbn; split; reflexivity.
Qed.

(* ---------- non-vacuity: one concrete dataset worked through ---------- *)
Lemma Rrint_near (n : Z) (x : R) : IZR n - 1/2 < x < IZR n + 1/2 -> Rrint x = IZR n.
Proof.
  intros [H1 H2]. unfold Rrint, Rfloor. cbv zeta.
  destruct (Rle_dec (IZR n) x) as [L|L].
  - assert (U : (n + 1)%Z = up x) by (apply up_tech; [exact L | rewrite plus_IZR; lra]).
    rewrite <- U. replace (n + 1 - 1)%Z with n by lia.
    destruct (Rlt_dec (x - IZR n) (1/2)); [reflexivity | lra].
  - assert (U : (n - 1 + 1)%Z = up x).
    { apply up_tech; [rewrite minus_IZR; lra | replace (n - 1 + 1)%Z with n by lia; lra]. }
    rewrite <- U. replace (n - 1 + 1 - 1)%Z with (n - 1)%Z by lia.
    replace (n - 1 + 1)%Z with n by lia. rewrite minus_IZR.
    destruct (Rlt_dec (x - (IZR n - 1)) (1/2)); [lra|].
    destruct (Rlt_dec (1/2) (x - (IZR n - 1))); [reflexivity | lra].
Qed.

Lemma Rrint_IZR (n : Z) : Rrint (IZR n) = IZR n.
Proof. apply Rrint_near. lra. Qed.

Lemma around2_near (n : Z) (x : R) : IZR n - 1/2 < x * 100 < IZR n + 1/2 -> around2 x = IZR n / 100.
Proof. intros H. unfold around2. numR. rewrite (Rrint_near n) by exact H. reflexivity. Qed.

(* x = [0.1; 0.204; 0.3], dataset Qmin = 0.15, Y scale 2 offset 1, X offset 0.1, Q[S(Q)-1];
   global Qmax = 0.35, <b_coh>^2 = 2 *)
Definition ex_d : @dinfo R :=
  {| d_x := [0.1; 0.204; 0.3]; d_y := [1; 2; 3]; d_dy := Some [0.1; 0.2; 0.3];
     d_qmin := Some 0.15; d_qmax := None;
     d_Y := Some {| o_scale := Some 2; o_offset := Some 1 |}; d_X := Some (Some 0.1);
     d_kind := rF |}.
Definition ex_c : @config R :=
  {| c_qmin := None; c_qmax := Some 0.35; c_rho := 1; c_bcoh := 2; c_btot := 3; c_dr := [];
     c_lowq := false; c_lorch := false; c_cutoff := 1; c_fn := gg;
     c_merge := {| m_Y := None; m_F := None |} |}.

Ltac decide_Rltb :=
  repeat match goal with
  | |- context [Rltb ?a ?b] =>
      first [ rewrite (Rltb_true a b) by lra | rewrite (Rltb_false a b) by lra ]
  end.

Lemma ex_d_ok : d_ok ex_d.
Proof. split; [reflexivity|]. intros e E. injection E as <-. reflexivity. Qed.

Lemma ex_d_hi : d_hi ex_d = 30 / 100.
Proof.
  unfold d_hi. cbn [ex_d d_qmax d_x opt_or map].
  rewrite (around2_near 10 0.1), (around2_near 20 0.204), (around2_near 30 0.3) by lra.
  unfold vmax. cbn [maxl]. numR. decide_Rltb. reflexivity.
Qed.

(* 0.1 is cut by the dataset Qmin, 0.204 -> 0.2 -> 0.3 is stored with y = 2*2+1 and dy = 0.2*2,
   0.3 -> 0.4 is cut by the global Qmax *)
Example ingest_rows_spec_nonvacuous :
  rows_of (ingest_rows ex_c ex_d) = [(0.3, (5, 0.4))].
Proof.
  rewrite ingest_rows_spec.
  unfold in_dataset_window. rewrite ex_d_hi.
  unfold d_err, d_lo, adjust_row, d_adjusting, d_yscale, d_yoffset, d_xoffset,
    in_global_window, rows_of.
  cbn [ex_d ex_c d_x d_y d_dy d_qmin d_Y d_X c_qmin c_qmax o_scale o_offset opt_or map combine].
  rewrite (around2_near 10 0.1), (around2_near 20 0.204), (around2_near 30 0.3) by lra.
  cbn [filter fst]. decide_Rleb. cbn [andb filter map].
  rewrite (around2_near 30 (20 / 100 + 0.1)), (around2_near 40 (30 / 100 + 0.1)) by lra.
  cbn [filter fst]. decide_Rleb. cbn [andb filter].
  repeat f_equal; lra.
Qed.

Example add_dataset_appends_nonvacuous :
  rows_of (s_recip (add_dataset ex_c init_state ex_d)) = [(0.3, (5, 0.4))].
Proof.
  destruct (add_dataset_appends ex_c init_state ex_d) as [E _]. rewrite E.
  cbn [init_state s_recip]. pose proof ingest_rows_spec_nonvacuous as N.
  destruct (ingest_rows ex_c ex_d) as [[x y] e]. exact N.
Qed.

(* the stored S(Q) row of the example: S = F/Q + 1, dS = dF/Q *)
Example sq_row_formula_nonvacuous :
  d_ok ex_d /\ c_bcoh ex_c <> 0 /\ 0 < 0.3 /\
  rows_of (to_sq ex_c ex_d (ingest_rows ex_c ex_d)) = [(0.3, (5 / 0.3 + 1, / 0.3 * 0.4))].
Proof.
  split; [exact ex_d_ok|]. split; [cbn; lra|]. split; [lra|].
  rewrite sq_rows_pointwise by (apply ingest_aligned, ex_d_ok).
  rewrite ingest_rows_spec_nonvacuous. cbn [map].
  rewrite sq_row_spec by (cbn; lra). reflexivity.
Qed.

Example no_point_outside_global_window_nonvacuous :
  c_qmax ex_c = Some 0.35 /\ rows_of (ingest_rows ex_c ex_d) <> [] /\
  ~ (around2 (around2 (nth 2 (d_x ex_d) 0) + 0.1) <= 0.35).
Proof.
  split; [reflexivity|]. split; [rewrite ingest_rows_spec_nonvacuous; discriminate|].
  cbn [ex_d d_x nth]. rewrite (around2_near 30 0.3) by lra.
  rewrite (around2_near 40 (30 / 100 + 0.1)) by lra. lra.
Qed.

(* index 1 of the example satisfies every hypothesis of no_point_inside_both_lost *)
Example no_point_inside_both_lost_nonvacuous :
  d_ok ex_d /\ (1 < length (d_x ex_d))%nat /\
  (let q := around2 (nth 1 (d_x ex_d) 0) in
   let t := adjust_row ex_d (q, (nth 1 (d_y ex_d) 0, nth 1 (d_err ex_d) 0)) in
   d_lo ex_d <= q <= d_hi ex_d /\
   (forall lo, c_qmin ex_c = Some lo -> lo <= fst t) /\
   (forall hi, c_qmax ex_c = Some hi -> fst t <= hi)).
Proof.
  split; [exact ex_d_ok|]. split; [cbn; lia|]. cbv zeta. rewrite ex_d_hi.
  unfold d_lo, adjust_row, d_adjusting, d_xoffset.
  cbn [ex_d ex_c d_x d_y d_qmin d_Y d_X c_qmin c_qmax opt_or nth fst].
  rewrite (around2_near 20 0.204) by lra. rewrite (around2_near 30 (20 / 100 + 0.1)) by lra.
  split; [lra|]. split; [intros lo E; discriminate E|]. intros hi E. injection E as <-. lra.
Qed.

(* a second dataset: plain S(Q), no uncertainties, no adjustments *)
Definition ex_d2 : @dinfo R :=
  {| d_x := [0.2; 0.3]; d_y := [1; 1]; d_dy := None; d_qmin := None; d_qmax := None;
     d_Y := None; d_X := None; d_kind := rS |}.
Lemma ex_d2_ok : d_ok ex_d2.
Proof. split; [reflexivity|]. intros e E. discriminate E. Qed.

Example arrays_aligned_nonvacuous : Forall d_ok [ex_d; ex_d2; ex_d].
Proof.
  apply Forall_cons; [exact ex_d_ok|]. apply Forall_cons; [exact ex_d2_ok|].
  apply Forall_cons; [exact ex_d_ok|]. apply Forall_nil.
Qed.

(* adding the example twice stores its row twice, in both arrays' Q column *)
Example ingest_history_independent_nonvacuous :
  rows_of (s_recip (fold_left (add_dataset ex_c) [ex_d; ex_d] init_state)) =
  [(0.3, (5, 0.4)); (0.3, (5, 0.4))].
Proof.
  destruct (ingest_history_independent ex_c [ex_d; ex_d] init_state) as [E _]. rewrite E.
  cbn [map fold_left init_state s_recip].
  pose proof ingest_rows_spec_nonvacuous as N. pose proof (ingest_aligned ex_c ex_d ex_d_ok) as AL.
  destruct (ingest_rows ex_c ex_d) as [[x y] e]. cbn [cat3 app rows_of] in *.
  destruct AL as [Ly Le].
  destruct x as [|x0 [|x1 x]], y as [|y0 [|y1 y]], e as [|e0 [|e1 e]]; cbn [length combine] in *;
    try discriminate; try lia.
  cbn [app combine]. injection N as -> -> ->. reflexivity.
Qed.
