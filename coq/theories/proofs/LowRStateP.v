(* LowRStateP.v -- the low-r cost read from the workflow state is history-independent (any carrier). *)
From Coq Require Import List.
From PyStoG Require Import Num ConverterM TransformerM FilterM StogM LowRM.
From PyStoG.proofs Require Import GenericStogP.
Import ListNotations.

Section S.
  Context {A : Type} {H : Num A}.

  (* _get_lowR_mean_square on a workflow state: needs a stored real-space curve (KeyError otherwise) *)
  Definition lowr_of_state (c : @config A) (s : @state A) : option A :=
    match t_gr s with Some rg => Some (get_lowr_mean_square (c_dr c) (snd rg)) | None => None end.

  Lemma lowr_of_state_history_independent : forall (c : @config A) (s0 : @state A) (ops : list (@op A)),
    (t_gr s0 = None \/ t_gr s0 = Some (T_g c s0)) ->
    lowr_of_state c (run c s0 ops) = None \/
    lowr_of_state c (run c s0 ops) = Some (get_lowr_mean_square (c_dr c) (snd (T_g c s0))).
  Proof.
    intros c s0 ops Hinit. destruct (inv_run_gen c s0 ops Hinit) as [_ [Hn|Hs]]; unfold lowr_of_state.
    - left. rewrite Hn. reflexivity.
    - right. rewrite Hs. reflexivity.
  Qed.

  Lemma lowr_of_state_after_transform : forall (c : @config A) (s0 : @state A) (ops : list (@op A)),
    lowr_of_state c (fst (transform_merged c (run c s0 ops))) = Some (get_lowr_mean_square (c_dr c) (snd (T_g c s0))).
  Proof.
    intros c s0 ops. pose proof (transform_history_independent_gen c s0 ops) as Ht.
    rewrite (transform_is_library_call_gen c (run c s0 ops)) in Ht |- *. cbn [fst snd] in Ht |- *.
    unfold lowr_of_state. change (t_gr (set_gr (run c s0 ops) (Some (T_g c (run c s0 ops))))) with (Some (T_g c (run c s0 ops))).
    rewrite Ht. reflexivity.
  Qed.
End S.
