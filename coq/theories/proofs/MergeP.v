(* MergeP.v -- C10: the merge step of StoG (stable sort by Q + run-length averaging),
   the canonical Q grid of ingestion, order independence and idempotence of merge_data.
   Everything at the real numbers (eqb = Reqb, leb = Rleb). *)
From Coq Require Import List Reals Lra Lia Bool ZArith Permutation Sorted.
From PyStoG Require Import Num NumR ConverterM TransformerM FilterM StogM.
From PyStoG.proofs Require Import VecLib ConverterP CropP.
Import ListNotations.
Open Scope R_scope.

(* ---------- the specification vocabulary ---------- *)
(* sum of the S values of the items whose key is q *)
Fixpoint sum_at (q : R) (l : list (@item R)) : R :=
  match l with [] => 0 | it :: t => (if Reqb (ikey it) q then ival it else 0) + sum_at q t end.
(* number of items whose key is q, as a real *)
Fixpoint cnt_at (q : R) (l : list (@item R)) : R :=
  match l with [] => 0 | it :: t => (if Reqb (ikey it) q then 1 else 0) + cnt_at q t end.
(* sum of the squared uncertainties of the items whose key is q *)
Fixpoint sumsq_err_at (q : R) (l : list (@item R)) : R :=
  match l with [] => 0 | it :: t => (if Reqb (ikey it) q then ierr it * ierr it else 0) + sumsq_err_at q t end.
(* keys weakly increasing *)
Definition ksorted (l : list (@item R)) : Prop := StronglySorted (fun a b => ikey a <= ikey b) l.
(* a number with at most two decimals *)
Definition canonical (q : R) : Prop := exists n : Z, q = IZR n / 100.
(* three columns of the same length *)
Definition aligned (a : @arr3 R) : Prop :=
  length (snd (fst a)) = length (fst (fst a)) /\ length (snd a) = length (fst (fst a)).
(* a dataset whose y (and dy, when given) column is as long as its x column *)
Definition dataset_ok (d : @dinfo R) : Prop :=
  length (d_y d) = length (d_x d) /\ dok (d_dy d) (length (d_x d)).

Definition rest (k : R) (l : list (@item R)) := filter (fun it => negb (Reqb (ikey it) k)) l.

(* ---------- Reqb ---------- *)
Lemma Reqb_refl a : Reqb a a = true. Proof. unfold Reqb. destruct (Req_EM_T a a); congruence. Qed.
Lemma Reqb_true a b : Reqb a b = true -> a = b. Proof. unfold Reqb. destruct (Req_EM_T a b); congruence. Qed.
Lemma Reqb_false a b : Reqb a b = false -> a <> b. Proof. unfold Reqb. destruct (Req_EM_T a b); congruence. Qed.
Lemma Reqb_neq a b : a <> b -> Reqb a b = false. Proof. unfold Reqb. destruct (Req_EM_T a b); congruence. Qed.

(* ---------- one-step equations of the model at R ---------- *)
Lemma go_nil (prev nt ns ne : R) : go prev nt ns ne [] = [(prev, ns / nt, R_sqrt.sqrt ne / nt)].
Proof. reflexivity. Qed.
Lemma go_cons (prev nt ns ne : R) (it : @item R) l :
  go prev nt ns ne (it :: l) =
  if Reqb (ikey it) prev then go (ikey it) (nt + 1) (ns + ival it) (ne + ierr it * ierr it) l
  else (prev, ns / nt, R_sqrt.sqrt ne / nt) :: go (ikey it) 1 (ival it) (ierr it * ierr it) l.
Proof. reflexivity. Qed.
Lemma merge_sorted_cons (it : @item R) l :
  merge_sorted (it :: l) = go (ikey it) 1 (ival it) (ierr it * ierr it) l.
Proof. reflexivity. Qed.
Lemma insert_cons (it h : @item R) t :
  insert it (h :: t) = if Rleb (ikey it) (ikey h) then it :: h :: t else h :: insert it t.
Proof. reflexivity. Qed.

Lemma ksorted_tail h t : ksorted (h :: t) -> ksorted t. Proof. inversion 1; assumption. Qed.
Lemma ksorted_head h t it : ksorted (h :: t) -> In it t -> ikey h <= ikey it.
Proof. inversion 1 as [|? ? ? Hall]; subst. rewrite Forall_forall in Hall. auto. Qed.

Lemma above_zero q l : (forall it, In it l -> q < ikey it) ->
  sum_at q l = 0 /\ cnt_at q l = 0 /\ sumsq_err_at q l = 0 /\ rest q l = l.
Proof.
  induction l as [|h t IH]; intros Hq; [cbn; auto|].
  destruct (IH ltac:(intros; apply Hq; right; assumption)) as [E1 [E2 [E3 E4]]].
  assert (q < ikey h) by (apply Hq; left; reflexivity).
  cbn [sum_at cnt_at sumsq_err_at rest filter]. rewrite Reqb_neq by lra. cbn [negb]. fold (rest q t).
  rewrite E1, E2, E3, E4. split; [lra|split; [lra|split; [lra|reflexivity]]].
Qed.

(* (1) the loop, started in a group with key prev and partial totals nt, ns, ne *)
Lemma go_split : forall l prev nt ns ne, ksorted l -> (forall it, In it l -> prev <= ikey it) ->
  go prev nt ns ne l =
  (prev, (ns + sum_at prev l) / (nt + cnt_at prev l),
   R_sqrt.sqrt (ne + sumsq_err_at prev l) / (nt + cnt_at prev l)) :: merge_sorted (rest prev l).
Proof.
  induction l as [|h t IH]; intros prev nt ns ne S Hge.
  - rewrite go_nil. cbn [sum_at cnt_at sumsq_err_at rest filter merge_sorted]. rewrite !Rplus_0_r. reflexivity.
  - rewrite go_cons. cbn [sum_at cnt_at sumsq_err_at rest filter]. destruct (Reqb (ikey h) prev) eqn:E.
    + apply Reqb_true in E. rewrite E.
      rewrite IH by (eauto using ksorted_tail; intros; apply Hge; right; assumption).
      cbn [negb]. fold (rest prev t).
      replace (nt + 1 + cnt_at prev t) with (nt + (1 + cnt_at prev t)) by ring.
      replace (ns + ival h + sum_at prev t) with (ns + (ival h + sum_at prev t)) by ring.
      replace (ne + ierr h * ierr h + sumsq_err_at prev t) with (ne + (ierr h * ierr h + sumsq_err_at prev t)) by ring.
      reflexivity.
    + cbn [negb]. apply Reqb_false in E.
      assert (Hlt : prev < ikey h) by (assert (prev <= ikey h) by (apply Hge; left; reflexivity); lra).
      destruct (above_zero prev t) as [-> [-> [-> Er]]].
      { intros it Hin. pose proof (ksorted_head _ _ _ S Hin). lra. }
      fold (rest prev t). rewrite Er, merge_sorted_cons. rewrite !Rplus_0_l, !Rplus_0_r. reflexivity.
Qed.

Lemma merge_sorted_unfold h t : ksorted (h :: t) ->
  merge_sorted (h :: t) =
  (ikey h, sum_at (ikey h) (h :: t) / cnt_at (ikey h) (h :: t),
   R_sqrt.sqrt (sumsq_err_at (ikey h) (h :: t)) / cnt_at (ikey h) (h :: t)) :: merge_sorted (rest (ikey h) (h :: t)).
Proof.
  intros S. rewrite merge_sorted_cons.
  rewrite go_split by (eauto using ksorted_tail; intros; eapply ksorted_head; eauto).
  cbn [sum_at cnt_at sumsq_err_at rest filter]. rewrite Reqb_refl. reflexivity.
Qed.

(* facts about rest *)
Lemma rest_sorted k l : ksorted l -> ksorted (rest k l).
Proof.
  induction 1 as [|h t S IH Hall]; cbn [rest filter]; [constructor|]. fold (rest k t).
  destruct (negb _); [|exact IH].
  constructor; [exact IH|]. rewrite Forall_forall in *. intros it Hin. apply filter_In in Hin. apply Hall. tauto.
Qed.
Lemma rest_length k l : (length (rest k l) <= length l)%nat.
Proof. unfold rest. induction l as [|h t IH]; cbn [filter length]; [lia|]. destruct (negb _); cbn [length]; lia. Qed.
Lemma rest_In k l it : In it (rest k l) <-> In it l /\ ikey it <> k.
Proof.
  unfold rest. rewrite filter_In. split; intros [H1 H2]; split; auto.
  - intros E. rewrite E, Reqb_refl in H2. discriminate.
  - rewrite Reqb_neq by assumption. reflexivity.
Qed.
Lemma rest_sum k q l : q <> k ->
  sum_at q (rest k l) = sum_at q l /\ cnt_at q (rest k l) = cnt_at q l /\ sumsq_err_at q (rest k l) = sumsq_err_at q l.
Proof.
  intros Hq. unfold rest. induction l as [|h t [IH1 [IH2 IH3]]]; [cbn; auto|]. cbn [filter].
  destruct (Reqb (ikey h) k) eqn:E; cbn [negb sum_at cnt_at sumsq_err_at].
  - apply Reqb_true in E. rewrite (Reqb_neq (ikey h) q) by congruence. rewrite IH1, IH2, IH3.
    split; [lra|split; lra].
  - rewrite IH1, IH2, IH3. auto.
Qed.

(* (2) characterisation of the output on key-sorted input, by strong induction on the length *)
Lemma merge_sorted_ok : forall n l, (length l <= n)%nat -> ksorted l ->
  (forall o, In o (merge_sorted l) ->
     ival o = sum_at (ikey o) l / cnt_at (ikey o) l /\
     ierr o = R_sqrt.sqrt (sumsq_err_at (ikey o) l) / cnt_at (ikey o) l /\
     exists it, In it l /\ ikey it = ikey o) /\
  (forall it, In it l -> In (ikey it) (map ikey (merge_sorted l))) /\
  StronglySorted Rlt (map ikey (merge_sorted l)).
Proof.
  induction n as [|n IH]; intros l Hn S.
  - destruct l; [|cbn in Hn; lia]. cbn. split; [|split]; try constructor; intros; contradiction.
  - destruct l as [|h t]. { cbn. split; [|split]; try constructor; intros; contradiction. }
    rewrite merge_sorted_unfold by exact S. set (k := ikey h).
    assert (Hr : rest k (h :: t) = rest k t) by (cbn [rest filter]; unfold k; rewrite Reqb_refl; reflexivity).
    assert (Sr : ksorted (rest k t)) by (apply rest_sorted; eauto using ksorted_tail).
    assert (Lr : (length (rest k t) <= n)%nat) by (pose proof (rest_length k t); cbn in Hn; lia).
    destruct (IH _ Lr Sr) as [A [B C]]. rewrite Hr.
    assert (Hgt : forall it, In it (rest k t) -> k < ikey it).
    { intros it Hin. apply rest_In in Hin. destruct Hin as [Hin Hne].
      pose proof (ksorted_head _ _ _ S Hin). unfold k in *. lra. }
    split; [|split].
    + intros o [Heq|Hin].
      * subst o. cbn [ikey ival ierr fst snd]. split; [reflexivity|]. split; [reflexivity|].
        exists h. split; [left|]; reflexivity.
      * destruct (A o Hin) as [A1 [A2 [it [I1 I2]]]]. pose proof (Hgt it I1) as G.
        assert (Hne : ikey o <> k) by lra. destruct (rest_sum k (ikey o) t Hne) as [E1 [E2 E3]].
        split; [|split].
        -- rewrite A1, E1, E2. cbn [sum_at cnt_at]. fold k. rewrite (Reqb_neq k (ikey o)) by lra.
           rewrite !Rplus_0_l. reflexivity.
        -- rewrite A2, E3, E2. cbn [sumsq_err_at cnt_at]. fold k. rewrite (Reqb_neq k (ikey o)) by lra.
           rewrite !Rplus_0_l. reflexivity.
        -- exists it. apply rest_In in I1. split; [right; tauto|exact I2].
    + intros it [<-|Hin]; [left; reflexivity|]. cbn [map]. destruct (Req_EM_T (ikey it) k) as [E|E]; [left; auto|].
      right. apply B. apply rest_In. auto.
    + cbn [map]. constructor; [exact C|]. rewrite Forall_forall. intros q Hq. apply in_map_iff in Hq.
      destruct Hq as [o [<- Hin]]. destruct (A o Hin) as [_ [_ [it [I1 I2]]]]. cbn [ikey fst]. rewrite <- I2.
      apply Hgt. exact I1.
Qed.

(* ---------- the stable sort ---------- *)
Lemma insert_perm it l : Permutation (it :: l) (insert it l).
Proof.
  induction l as [|h t IH]; [reflexivity|]. rewrite insert_cons. destruct (Rleb _ _); [reflexivity|].
  rewrite perm_swap. constructor. exact IH.
Qed.
Lemma sort_items_perm (l : list (@item R)) : Permutation (sort_items l) l.
Proof.
  induction l as [|h t IH]; [constructor|]. unfold sort_items in *. cbn [fold_right].
  rewrite <- insert_perm. constructor. exact IH.
Qed.
Lemma insert_sorted it l : ksorted l -> ksorted (insert it l).
Proof.
  induction 1 as [|h t S IH Hall].
  - cbn. constructor; constructor.
  - rewrite insert_cons. destruct (Rleb_spec (ikey it) (ikey h)) as [Hle|Hgt].
    + constructor; [constructor; assumption|]. constructor; [exact Hle|].
      rewrite Forall_forall in *. intros x Hx. specialize (Hall x Hx). lra.
    + constructor; [exact IH|]. rewrite Forall_forall in *. intros x Hx.
      apply (Permutation_in _ (Permutation_sym (insert_perm it t))) in Hx. destruct Hx as [<-|Hx]; [lra|auto].
Qed.
Lemma sort_items_sorted (l : list (@item R)) : ksorted (sort_items l).
Proof. induction l as [|h t IH]; [constructor|]. unfold sort_items in *. cbn [fold_right]. apply insert_sorted. exact IH. Qed.

(* sorting an already key-sorted list changes nothing *)
Lemma sort_sorted_id (l : list (@item R)) : ksorted l -> sort_items l = l.
Proof.
  induction 1 as [|h t S IH Hall]; [reflexivity|]. unfold sort_items in *. cbn [fold_right]. rewrite IH.
  destruct t as [|h' t']; [reflexivity|]. rewrite insert_cons.
  rewrite Rleb_true; [reflexivity|]. inversion Hall; assumption.
Qed.

Lemma sums_perm q l l' : Permutation l l' ->
  sum_at q l = sum_at q l' /\ cnt_at q l = cnt_at q l' /\ sumsq_err_at q l = sumsq_err_at q l'.
Proof.
  induction 1 as [|x l l' P [I1 [I2 I3]]|x y l|l l' l'' P1 [I1 [I2 I3]] P2 [J1 [J2 J3]]];
    cbn [sum_at cnt_at sumsq_err_at]; (split; [|split]); lra.
Qed.

Lemma strictly_sorted_ext (a b : list R) : StronglySorted Rlt a -> StronglySorted Rlt b ->
  (forall x, In x a <-> In x b) -> a = b.
Proof.
  revert b. induction a as [|x a IH]; intros b Sa Sb H.
  - destruct b as [|y b]; [reflexivity|]. exfalso. apply (H y). left; reflexivity.
  - destruct b as [|y b]. { exfalso. apply (H x). left; reflexivity. }
    inversion Sa as [|? ? Sa' Ha]; inversion Sb as [|? ? Sb' Hb]; subst. rewrite Forall_forall in Ha, Hb.
    assert (x = y).
    { destruct (proj1 (H x) (or_introl eq_refl)) as [E|Hin]; [auto|].
      destruct (proj2 (H y) (or_introl eq_refl)) as [E|Hin']; [auto|].
      specialize (Ha y Hin'). specialize (Hb x Hin). lra. }
    subst y. f_equal. apply IH; auto. intros z. split; intros Hz.
    + destruct (proj1 (H z) (or_intror Hz)) as [E|?]; [|assumption]. subst z. specialize (Ha x Hz). lra.
    + destruct (proj2 (H z) (or_intror Hz)) as [E|?]; [|assumption]. subst z. specialize (Hb x Hz). lra.
Qed.

Lemma strictly_sorted_NoDup (a : list R) : StronglySorted Rlt a -> NoDup a.
Proof.
  induction 1 as [|x a S IH Hall]; constructor; [|exact IH].
  intros Hin. rewrite Forall_forall in Hall. specialize (Hall x Hin). lra.
Qed.

(* ---------- property-level statements about merge_items ---------- *)
Theorem merge_strictly_increasing (l : list (@item R)) : StronglySorted Rlt (map ikey (merge_items l)).
Proof. apply (merge_sorted_ok (length (sort_items l)) (sort_items l) (le_n _) (sort_items_sorted l)). Qed.

Lemma merge_row (l : list (@item R)) o : In o (merge_items l) ->
  ival o = sum_at (ikey o) l / cnt_at (ikey o) l /\
  ierr o = R_sqrt.sqrt (sumsq_err_at (ikey o) l) / cnt_at (ikey o) l /\
  exists it, In it l /\ ikey it = ikey o.
Proof.
  intros Hin. destruct (merge_sorted_ok _ _ (le_n _) (sort_items_sorted l)) as [A _].
  destruct (A o Hin) as [E1 [E2 [it [I1 I2]]]].
  destruct (sums_perm (ikey o) _ _ (sort_items_perm l)) as [P1 [P2 P3]].
  split; [rewrite <- P1, <- P2; exact E1|]. split; [rewrite <- P3, <- P2; exact E2|].
  exists it. split; [|exact I2]. apply (Permutation_in _ (sort_items_perm l)). exact I1.
Qed.

Lemma merge_covers (l : list (@item R)) it : In it l -> In (ikey it) (map ikey (merge_items l)).
Proof.
  intros Hin. destruct (merge_sorted_ok _ _ (le_n _) (sort_items_sorted l)) as [_ [B _]]. apply B.
  apply (Permutation_in _ (Permutation_sym (sort_items_perm l))). exact Hin.
Qed.

Theorem merge_keys_exactly_once (l : list (@item R)) :
  (forall q, In q (map ikey (merge_items l)) <-> In q (map ikey l)) /\ NoDup (map ikey (merge_items l)).
Proof.
  split; [|apply strictly_sorted_NoDup, merge_strictly_increasing].
  intros q. split; intros Hq; apply in_map_iff in Hq; destruct Hq as [o [<- Hin]].
  - destruct (merge_row l o Hin) as [_ [_ [it [I1 I2]]]]. rewrite <- I2. apply in_map. exact I1.
  - apply merge_covers. exact Hin.
Qed.

Lemma cnt_at_nonneg q l : 0 <= cnt_at q l.
Proof. induction l as [|h t IH]; cbn [cnt_at]; [lra|]. destruct (Reqb _ _); lra. Qed.
Lemma cnt_at_ge1 q l it : In it l -> ikey it = q -> 1 <= cnt_at q l.
Proof.
  induction l as [|h t IH]; intros Hin E; [destruct Hin|]. cbn [cnt_at]. destruct Hin as [->|Hin].
  - rewrite E, Reqb_refl. pose proof (cnt_at_nonneg q t). lra.
  - specialize (IH Hin E). destruct (Reqb _ _); lra.
Qed.

Theorem merge_value_is_mean (l : list (@item R)) it : In it (merge_items l) ->
  ival it = sum_at (ikey it) l / cnt_at (ikey it) l /\
  ierr it = R_sqrt.sqrt (sumsq_err_at (ikey it) l) / cnt_at (ikey it) l /\
  1 <= cnt_at (ikey it) l.
Proof.
  intros Hin. destruct (merge_row l it Hin) as [E1 [E2 [x [I1 I2]]]].
  split; [exact E1|]. split; [exact E2|]. eapply cnt_at_ge1; eauto.
Qed.

(* the mean of a group lies between its extreme members *)
Lemma group_bounds q l :
  (cnt_at q l = 0 /\ sum_at q l = 0) \/
  (0 < cnt_at q l /\ exists lo hi, In lo l /\ In hi l /\ ikey lo = q /\ ikey hi = q /\
     ival lo * cnt_at q l <= sum_at q l <= ival hi * cnt_at q l).
Proof.
  induction l as [|h t IH]; [left; cbn; auto|]. cbn [sum_at cnt_at].
  destruct (Reqb (ikey h) q) eqn:E.
  - right. apply Reqb_true in E. destruct IH as [[-> ->]|[Hc [lo [hi [L1 [L2 [K1 [K2 [B1 B2]]]]]]]]].
    + split; [lra|]. exists h, h. cbn [In]. split; [auto|]. split; [auto|]. split; [auto|]. split; [auto|]. lra.
    + split; [lra|].
      exists (if Rle_dec (ival h) (ival lo) then h else lo), (if Rle_dec (ival hi) (ival h) then h else hi).
      destruct (Rle_dec (ival h) (ival lo)) as [H1|H1], (Rle_dec (ival hi) (ival h)) as [H2|H2];
        cbn [In]; (split; [auto|]); (split; [auto|]); (split; [auto|]); (split; [auto|]); split; nra.
  - destruct IH as [[-> ->]|[Hc [lo [hi [L1 [L2 [K1 [K2 [B1 B2]]]]]]]]]; [left; split; lra|].
    right. split; [lra|]. exists lo, hi. cbn [In]. rewrite !Rplus_0_l. auto 10.
Qed.

Theorem merge_between_min_max (l : list (@item R)) it : In it (merge_items l) ->
  exists lo hi, In lo l /\ In hi l /\ ikey lo = ikey it /\ ikey hi = ikey it /\ ival lo <= ival it <= ival hi.
Proof.
  intros Hin. destruct (merge_value_is_mean l it Hin) as [E [_ Hc]].
  destruct (group_bounds (ikey it) l) as [[Hz _]|[Hp [lo [hi [L1 [L2 [K1 [K2 [B1 B2]]]]]]]]]; [lra|].
  exists lo, hi. split; [auto|]. split; [auto|]. split; [auto|]. split; [auto|]. rewrite E.
  split.
  - apply Rmult_le_reg_r with (cnt_at (ikey it) l); [exact Hp|]. unfold Rdiv. rewrite Rmult_assoc, Rinv_l by lra. lra.
  - apply Rmult_le_reg_r with (cnt_at (ikey it) l); [exact Hp|]. unfold Rdiv. rewrite Rmult_assoc, Rinv_l by lra. lra.
Qed.

Lemma rows_determined (out : list (@item R)) (f g : R -> R) :
  (forall o, In o out -> ival o = f (ikey o) /\ ierr o = g (ikey o)) ->
  out = map (fun q => (q, f q, g q)) (map ikey out).
Proof.
  induction out as [|[[q v] e] t IH]; intros Hall; [reflexivity|]. cbn [map]. f_equal.
  - destruct (Hall (q, v, e) (or_introl eq_refl)) as [E1 E2]. cbn [ikey ival ierr fst snd] in *. rewrite <- E1, <- E2. reflexivity.
  - apply IH. intros; apply Hall; right; assumption.
Qed.

Theorem merge_perm (l1 l2 : list (@item R)) : Permutation l1 l2 -> merge_items l1 = merge_items l2.
Proof.
  intros P.
  assert (K : map ikey (merge_items l1) = map ikey (merge_items l2)).
  { apply strictly_sorted_ext; try apply merge_strictly_increasing. intros q.
    rewrite (proj1 (merge_keys_exactly_once l1) q), (proj1 (merge_keys_exactly_once l2) q).
    split; apply Permutation_in; [|apply Permutation_sym]; apply Permutation_map; exact P. }
  rewrite (rows_determined (merge_items l1) (fun q => sum_at q l1 / cnt_at q l1)
             (fun q => R_sqrt.sqrt (sumsq_err_at q l1) / cnt_at q l1))
    by (intros o Ho; destruct (merge_row l1 o Ho) as [? [? _]]; auto).
  rewrite (rows_determined (merge_items l2) (fun q => sum_at q l2 / cnt_at q l2)
             (fun q => R_sqrt.sqrt (sumsq_err_at q l2) / cnt_at q l2))
    by (intros o Ho; destruct (merge_row l2 o Ho) as [? [? _]]; auto).
  rewrite K. apply map_ext. intros q. destruct (sums_perm q _ _ P) as [-> [-> ->]]. reflexivity.
Qed.

(* ---------- zip3 / unzip3 ---------- *)
Lemma zip3_unzip3 (l : list (@item R)) : zip3 (unzip3 l) = l.
Proof.
  unfold zip3, unzip3. cbv beta iota.
  induction l as [|[[q v] e] t IH]; cbn [map map3]; [reflexivity|]. cbn [ikey ival ierr fst snd]. rewrite IH. reflexivity.
Qed.

Lemma map3_app {X Y Z W} (f : X -> Y -> Z -> W) x y e x' y' e' :
  length y = length x -> length e = length x ->
  map3 f (x ++ x') (y ++ y') (e ++ e') = map3 f x y e ++ map3 f x' y' e'.
Proof.
  revert y e; induction x as [|a x IH]; intros [|b y] [|c e] Ly Le; cbn [length] in *; try lia; [reflexivity|].
  cbn [app map3]. f_equal. apply IH; lia.
Qed.

Lemma zip3_cat3 (a b : @arr3 R) : aligned a -> zip3 (cat3 a b) = zip3 a ++ zip3 b.
Proof.
  destruct a as [[x y] e], b as [[x' y'] e']. unfold aligned. cbn [fst snd cat3 zip3]. intros [Ly Le].
  apply map3_app; assumption.
Qed.

Lemma aligned_cat3 (a b : @arr3 R) : aligned a -> aligned b -> aligned (cat3 a b).
Proof.
  destruct a as [[x y] e], b as [[x' y'] e']. unfold aligned. cbn [fst snd cat3]. intros [Ly Le] [Ly' Le'].
  rewrite !app_length. split; lia.
Qed.

Lemma zip3_keys_incl (a : @arr3 R) q : In q (map ikey (zip3 a)) -> In q (fst (fst a)).
Proof.
  destruct a as [[x y] e]. cbn [fst zip3]. revert y e; induction x as [|a x IH]; intros [|b y] [|c e]; cbn [map3 map In]; try tauto.
  intros [E|Hin]; [left; exact E | right; eapply IH; exact Hin].
Qed.

(* ---------- merge_data : what the merged curves depend on ---------- *)
Lemma merge_data_s_sq (c : @config R) s : s_sq (merge_data c s) = unzip3 (sort_items (zip3 (s_sq s))).
Proof.
  unfold merge_data, unzip3, apply_scales_and_offset, S_to_F, F_to_S. cbv zeta. reflexivity.
Qed.

Lemma merge_data_depends (c : @config R) s1 s2 :
  merge_items (zip3 (s_sq s1)) = merge_items (zip3 (s_sq s2)) ->
  t_sq (merge_data c s1) = t_sq (merge_data c s2) /\ t_qsq (merge_data c s1) = t_qsq (merge_data c s2).
Proof.
  intros E. unfold merge_data. cbv zeta.
  change (merge_sorted (sort_items (zip3 (s_sq s1)))) with (merge_items (zip3 (s_sq s1))).
  change (merge_sorted (sort_items (zip3 (s_sq s2)))) with (merge_items (zip3 (s_sq s2))).
  rewrite E. unfold unzip3, apply_scales_and_offset, S_to_F, F_to_S. cbv zeta. split; reflexivity.
Qed.

(* the Q grid of "S(Q) Merged" is the key column of the merged items *)
Lemma merge_data_grid (c : @config R) s :
  exists sq fq, t_sq (merge_data c s) = Some (map ikey (merge_items (zip3 (s_sq s))), sq) /\
                t_qsq (merge_data c s) = Some (map ikey (merge_items (zip3 (s_sq s))), fq).
Proof.
  assert (Z : forall l : list R, vadd_s zero l = l).
  { intros l. unfold vadd_s. numR. rewrite <- (map_id l) at 2. apply map_ext. intros; lra. }
  unfold merge_data, unzip3, apply_scales_and_offset, S_to_F, F_to_S. cbv zeta. cbn [t_sq t_qsq].
  rewrite Z. unfold merge_items. eexists. eexists. split; reflexivity.
Qed.

Theorem merge_idempotent_state (c : @config R) s :
  t_sq (merge_data c (merge_data c s)) = t_sq (merge_data c s) /\
  t_qsq (merge_data c (merge_data c s)) = t_qsq (merge_data c s) /\
  s_sq (merge_data c (merge_data c s)) = s_sq (merge_data c s).
Proof.
  assert (Z : zip3 (s_sq (merge_data c s)) = sort_items (zip3 (s_sq s)))
    by (rewrite merge_data_s_sq; apply zip3_unzip3).
  destruct (merge_data_depends c (merge_data c s) s) as [E1 E2].
  { rewrite Z. apply merge_perm. apply sort_items_perm. }
  split; [exact E1|]. split; [exact E2|].
  rewrite (merge_data_s_sq c (merge_data c s)), Z, sort_sorted_id by apply sort_items_sorted.
  symmetry. apply merge_data_s_sq.
Qed.

(* ---------- the 0.01 grid ---------- *)
Lemma Rrint_int x : exists n : Z, Rrint x = IZR n.
Proof.
  unfold Rrint. cbv zeta. destruct (Rlt_dec _ _); [eexists; reflexivity|].
  destruct (Rlt_dec _ _); [eexists; reflexivity|]. destruct (Z.even _); eexists; reflexivity.
Qed.
Lemma around2_canonical (x : R) : canonical (around2 x).
Proof. unfold around2, canonical. numR. destruct (Rrint_int (x * 100)) as [n ->]. exists n. reflexivity. Qed.

Lemma select_In {X} m (l : list X) q : In q (select m l) -> In q l.
Proof.
  revert l; induction m as [|b m IH]; intros [|x l]; cbn [select In]; try tauto.
  destruct b; cbn [In]; intros Hin; [destruct Hin as [E|Hin]; [left; exact E|]|]; right; apply IH; exact Hin.
Qed.

Ltac strip_select H :=
  repeat match type of H with In _ (select _ _) => apply select_In in H end.

Theorem keys_canonical (c : @config R) (d : @dinfo R) q : In q (fst (fst (ingest_rows c d))) -> canonical q.
Proof.
  unfold ingest_rows, apply_cropping, apply_scales_and_offset. cbv zeta.
  destruct (d_Y d), (d_X d), (c_qmin c), (c_qmax c); unfold crop_lo, crop_hi; cbv beta iota zeta; cbn [fst snd];
    intros Hin; strip_select Hin; apply in_map_iff in Hin; destruct Hin as [z [<- _]]; apply around2_canonical.
Qed.

Theorem merged_keys_canonical (c : @config R) s :
  (forall q, In q (fst (fst (s_sq s))) -> canonical q) ->
  forall qs sq, t_sq (merge_data c s) = Some (qs, sq) -> forall q, In q qs -> canonical q.
Proof.
  intros Hs qs sq E q Hq. destruct (merge_data_grid c s) as [sq' [fq [E1 _]]]. rewrite E1 in E.
  injection E as <- _. apply Hs. apply zip3_keys_incl.
  apply (proj1 (merge_keys_exactly_once (zip3 (s_sq s)))). exact Hq.
Qed.

(* ---------- the rows stored by add_dataset are aligned ---------- *)
Lemma ingest_rows_aligned (c : @config R) d : dataset_ok d -> aligned (ingest_rows c d).
Proof.
  intros [Ly Ld]. unfold aligned, ingest_rows, apply_cropping, apply_scales_and_offset. cbv zeta.
  set (X := map around2 (d_x d)). set (Y := map noise16 (d_y d)). set (E := dflt_zeros Y _).
  assert (Ly' : length Y = length X) by (unfold X, Y; rewrite !map_length; exact Ly).
  assert (Le : length E = length X).
  { unfold E, X, Y. cbn [dflt_zeros]. destruct (d_dy d) as [e|]; unfold zeros_like; rewrite !map_length;
      [apply Ld; reflexivity | exact Ly]. }
  clearbody X Y E.
  destruct (d_Y d), (d_X d), (c_qmin c), (c_qmax c); unfold crop_lo, crop_hi; cbv beta iota zeta; cbn [fst snd];
    split; repeat apply select_length; unfold vadd_s, vscale_r; rewrite ?map_length;
    repeat apply select_length; assumption.
Qed.

Lemma to_sq_aligned (c : @config R) d a : aligned a -> aligned (to_sq c d a).
Proof.
  destruct a as [[x y] e]. unfold aligned. cbn [fst snd]. intros [Ly Le]. unfold to_sq.
  rewrite rconv_pointwise by (first [exact Ly | intros d' E; injection E as <-; exact Le]).
  cbn [fst snd dflt_zeros]. rewrite !map2_length. split; lia.
Qed.

(* ---------- the state after any number of add_dataset calls ---------- *)
Definition rows_sq (c : @config R) (d : @dinfo R) : @arr3 R := to_sq c d (ingest_rows c d).

Lemma fold_add_s_sq (c : @config R) ds s0 :
  s_sq (fold_left (add_dataset c) ds s0) = fold_left cat3 (map (rows_sq c) ds) (s_sq s0).
Proof. revert s0; induction ds as [|d ds IH]; intros s0; cbn [fold_left map]; [reflexivity|]. rewrite IH. reflexivity. Qed.

Lemma zip3_fold_cat3 rows (a : @arr3 R) : aligned a -> Forall aligned rows ->
  zip3 (fold_left cat3 rows a) = zip3 a ++ flat_map zip3 rows.
Proof.
  intros Ha F. revert a Ha; induction F as [|r rows Hr F IH]; intros a Ha; cbn [fold_left flat_map].
  - rewrite app_nil_r. reflexivity.
  - rewrite IH by (apply aligned_cat3; assumption). rewrite zip3_cat3 by assumption. rewrite app_assoc. reflexivity.
Qed.

Lemma flat_map_perm {X Y} (f : X -> list Y) l l' : Permutation l l' -> Permutation (flat_map f l) (flat_map f l').
Proof.
  induction 1 as [|x l l' P IH|x y l|l l' l'' P1 IH1 P2 IH2]; cbn [flat_map].
  - constructor.
  - apply Permutation_app_head. exact IH.
  - rewrite !app_assoc. apply Permutation_app_tail. apply Permutation_app_comm.
  - etransitivity; eassumption.
Qed.

(* sq_individuals, zipped, after adding the datasets ds to the state s0 *)
Lemma zip3_after_adds (c : @config R) ds s0 : aligned (s_sq s0) -> Forall dataset_ok ds ->
  zip3 (s_sq (fold_left (add_dataset c) ds s0)) = zip3 (s_sq s0) ++ flat_map (fun d => zip3 (rows_sq c d)) ds.
Proof.
  intros Ha F. rewrite fold_add_s_sq, zip3_fold_cat3.
  - f_equal. rewrite flat_map_concat_map, map_map, <- flat_map_concat_map. reflexivity.
  - exact Ha.
  - apply Forall_forall. intros r Hr. apply in_map_iff in Hr. destruct Hr as [d [<- Hd]].
    rewrite Forall_forall in F. apply to_sq_aligned, ingest_rows_aligned, F, Hd.
Qed.

Theorem merge_order_independent_state_partial (c : @config R) s1 s2 :
  Permutation (zip3 (s_sq s1)) (zip3 (s_sq s2)) ->
  t_sq (merge_data c s1) = t_sq (merge_data c s2) /\ t_qsq (merge_data c s1) = t_qsq (merge_data c s2).
Proof. intros P. apply merge_data_depends. apply merge_perm. exact P. Qed.

Theorem merge_order_independent_state (c : @config R) ds1 ds2 s0 :
  aligned (s_sq s0) -> Forall dataset_ok ds1 -> Permutation ds1 ds2 ->
  t_sq (merge_data c (fold_left (add_dataset c) ds1 s0)) = t_sq (merge_data c (fold_left (add_dataset c) ds2 s0)) /\
  t_qsq (merge_data c (fold_left (add_dataset c) ds1 s0)) = t_qsq (merge_data c (fold_left (add_dataset c) ds2 s0)).
Proof.
  intros Ha F P. apply merge_order_independent_state_partial.
  assert (F2 : Forall dataset_ok ds2).
  { rewrite Forall_forall in *. intros d Hd. apply F. apply (Permutation_in _ (Permutation_sym P)). exact Hd. }
  rewrite !zip3_after_adds by assumption. apply Permutation_app_head. apply flat_map_perm. exact P.
Qed.

(* ---------- non-vacuity / concrete instances ---------- *)
Lemma Reqb_eq a b : a = b -> Reqb a b = true. Proof. intros ->. apply Reqb_refl. Qed.
Ltac decide_Reqb :=
  repeat match goal with
  | |- context [Reqb ?a ?b] => first [ rewrite (Reqb_eq a b) by lra | rewrite (Reqb_neq a b) by lra ]
  end.
Definition ex_items : list (@item R) := [(0.3, 1, 3); (0.2, 5, 0); (0.3, 3, 4)].
Example merge_example : merge_items ex_items = [(0.2, 5, 0); (0.3, 2, 5/2)].
Proof.
  unfold ex_items, merge_items, sort_items.
  do 3 (cbn [fold_right insert ikey fst]; numR; decide_Rleb).
  do 3 (cbn [merge_sorted go emit ikey ival ierr fst snd]; numR; decide_Reqb).
  unfold emit. numR.
  replace (0 * 0) with 0 by lra. rewrite sqrt_0.
  replace (3 * 3 + 4 * 4) with (5 * 5) by lra. rewrite sqrt_square by lra.
  replace (5 / 1) with 5 by lra. replace (0 / 1) with 0 by lra.
  replace ((1 + 3) / (1 + 1)) with 2 by lra. replace (5 / (1 + 1)) with (5 / 2) by lra. reflexivity.
Qed.

Example merge_strictly_increasing_nonvacuous :
  map ikey (merge_items ex_items) = [0.2; 0.3] /\ StronglySorted Rlt [0.2; 0.3].
Proof.
  rewrite merge_example. split; [reflexivity|]. repeat constructor. lra.
Qed.

Example merge_keys_exactly_once_nonvacuous :
  map ikey ex_items = [0.3; 0.2; 0.3] /\ map ikey (merge_items ex_items) = [0.2; 0.3].
Proof. rewrite merge_example. split; reflexivity. Qed.

Example merge_value_is_mean_nonvacuous :
  In (0.3, 2, 5 / 2) (merge_items ex_items) /\
  sum_at 0.3 ex_items = 4 /\ cnt_at 0.3 ex_items = 2 /\ sumsq_err_at 0.3 ex_items = 25.
Proof.
  rewrite merge_example. split; [right; left; reflexivity|].
  unfold ex_items. cbn [sum_at cnt_at sumsq_err_at ikey ival ierr fst snd]. decide_Reqb.
  split; [lra|split; lra].
Qed.

Example merge_between_min_max_nonvacuous :
  In (0.3, 2, 5 / 2) (merge_items ex_items) /\
  In (0.3, 1, 3) ex_items /\ In (0.3, 3, 4) ex_items /\ 1 <= 2 <= 3.
Proof.
  rewrite merge_example. unfold ex_items. cbn [In]. split; [auto|]. split; [auto|]. split; [auto|]. lra.
Qed.

Example merge_perm_nonvacuous :
  Permutation ex_items [(0.2, 5, 0); (0.3, 3, 4); (0.3, 1, 3)] /\
  ex_items <> [(0.2, 5, 0); (0.3, 3, 4); (0.3, 1, 3)].
Proof.
  unfold ex_items. split.
  - apply (Permutation_cons_app [(0.2, 5, 0); (0.3, 3, 4)] []). reflexivity.
  - intros E. injection E as E _. lra.
Qed.

Example sort_sorted_id_nonvacuous : ksorted [(1, 2, 0); (1, 3, 0); (2, 0, 0)].
Proof. unfold ksorted. repeat constructor; cbn [ikey fst]; lra. Qed.

Definition ex_config : @config R :=
  {| c_qmin := None; c_qmax := None; c_rho := 1; c_bcoh := 1; c_btot := 1; c_dr := [1]; c_lowq := false;
     c_lorch := false; c_cutoff := 1; c_fn := gg; c_merge := {| m_Y := None; m_F := None |} |}.
Definition ex_d1 : @dinfo R :=
  {| d_x := [1]; d_y := [5]; d_dy := None; d_qmin := None; d_qmax := None; d_Y := None; d_X := None; d_kind := rS |}.
Definition ex_d2 : @dinfo R :=
  {| d_x := [1; 2]; d_y := [3; 4]; d_dy := Some [0; 0]; d_qmin := None; d_qmax := None; d_Y := None; d_X := None;
     d_kind := rF |}.

Example keys_canonical_nonvacuous : In (around2 1) (fst (fst (ingest_rows ex_config ex_d1))).
Proof.
  unfold ingest_rows, apply_cropping, crop_mask, ex_d1, ex_config. cbn [d_x d_y d_dy d_qmin d_qmax d_Y d_X c_qmin c_qmax map opt_or vmin vmax minl maxl].
  numR. decide_Rleb. cbn [andb select fst]. left. reflexivity.
Qed.

Definition ex_state : @state R :=
  {| s_xmin := 0; s_xmax := 1; s_recip := ([], [], []);
     s_sq := ([30 / 100; 20 / 100; 30 / 100], [1; 5; 3], [3; 0; 4]);
     t_sq := None; t_qsq := None; t_ft := None; t_sqft := None; t_fq := None;
     t_gr := None; t_grft := None; t_grl := None; t_gk := None |}.

Example merged_keys_canonical_nonvacuous :
  (forall q, In q (fst (fst (s_sq ex_state))) -> canonical q) /\ fst (fst (s_sq ex_state)) <> [].
Proof.
  split; [|discriminate]. cbn [ex_state s_sq fst In]. intros q [<-|[<-|[<-|[]]]]; [exists 30%Z|exists 20%Z|exists 30%Z]; reflexivity.
Qed.

Lemma init_state_aligned : aligned (s_sq (@init_state R _)).
Proof. split; reflexivity. Qed.

Example merge_order_independent_state_nonvacuous :
  aligned (s_sq (@init_state R _)) /\ Forall dataset_ok [ex_d1; ex_d2] /\
  Permutation [ex_d1; ex_d2] [ex_d2; ex_d1] /\ ex_d1 <> ex_d2.
Proof.
  split; [apply init_state_aligned|]. split; [|split].
  - repeat constructor; cbn [ex_d1 ex_d2 d_dy d_x length]; first [apply dok_none | apply dok_some; reflexivity].
  - apply perm_swap.
  - discriminate.
Qed.
