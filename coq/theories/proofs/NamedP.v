(* NamedP.v -- C05: every named transform is conversion, core transform, conversion;
   and all named transforms of the same physical data agree after conversion. *)
From Coq Require Import List Reals Lra Lia Bool ZArith.
From PyStoG Require Import Num NumR ConverterM TransformerM.
From PyStoG.proofs Require Import VecLib ConverterP.
Import ListNotations.
Open Scope R_scope.

(* the three outputs of a transform: (grid, values, uncertainties) *)
Definition tr_grid (t : list R * list R * list R) : list R := fst (fst t).
Definition tr_val (t : list R * list R * list R) : list R := snd (fst t).
Definition tr_err (t : list R * list R * list R) : list R := snd t.

(* the 2/pi normalisation of the Q -> r direction *)
Definition scale_2_pi (l : list R) : list R := map (fun t => t * (2 / PI)) l.

(* ---------- 1, 2: decomposition (definitional; no side condition is needed) ---------- *)

Theorem q2r_decomposition X Y (q v r : list R) (dy : option (list R)) (k : kw R) :
  q2r X Y q v r dy k =
    let '(f, df) := rconv X rF q v dy k in
    let '(r', T, E) := fourier_transform q f r None None (Some df) k in
    let '(g, dg) := gconv gG Y r' (map (fun t => t * (2 / PI)) T) (Some (map (fun t => t * (2 / PI)) E)) k in
    (r', g, dg).
Proof. destruct X, Y; reflexivity. Qed.

Theorem r2q_decomposition X Y (r v q : list R) (dy : option (list R)) (k : kw R) :
  r2q X Y r v q dy k =
    let '(G, dG) := gconv X gG r v dy k in
    let '(q', T, E) := fourier_transform r G q None None (Some dG) k in
    let '(f, df) := rconv rF Y q' T (Some E) k in (q', f, df).
Proof. destruct X, Y; reflexivity. Qed.

(* the same statements with the side conditions of the task statement *)
Corollary q2r_decomposition_sc X Y (q v r : list R) (dy : option (list R)) (k : kw R) :
  length v = length q -> dok dy (length q) ->
  q2r X Y q v r dy k =
    let '(f, df) := rconv X rF q v dy k in
    let '(r', T, E) := fourier_transform q f r None None (Some df) k in
    let '(g, dg) := gconv gG Y r' (map (fun t => t * (2 / PI)) T) (Some (map (fun t => t * (2 / PI)) E)) k in
    (r', g, dg).
Proof. intros _ _. apply q2r_decomposition. Qed.

Example decomposition_nonvacuous :
  let q := [1; 2; 3] in let v := [1; 1; 1] in length v = length q /\ dok (Some [0; 0; 0]) (length q).
Proof. cbn. split; [reflexivity | apply dok_some; reflexivity]. Qed.

(* the explicit-default lemma for the core transform (definitional) *)
Lemma fourier_transform_dflt (x y xo : list R) a b dy (k : kw R) :
  fourier_transform x y xo a b dy k = fourier_transform x y xo a b (Some (dflt_zeros y dy)) k.
Proof. reflexivity. Qed.

(* projection forms of the decomposition *)
Definition core_q2r X (q v r : list R) dy (k : kw R) :=
  fourier_transform q (fst (rconv X rF q v dy k)) r None None (Some (snd (rconv X rF q v dy k))) k.
Definition core_r2q X (r v q : list R) dy (k : kw R) :=
  fourier_transform r (fst (gconv X gG r v dy k)) q None None (Some (snd (gconv X gG r v dy k))) k.

Lemma q2r_grid X Y q v r dy k : tr_grid (q2r X Y q v r dy k) = r.
Proof. destruct X, Y; reflexivity. Qed.
Lemma q2r_val X Y q v r dy k :
  tr_val (q2r X Y q v r dy k) =
  fst (gconv gG Y r (scale_2_pi (tr_val (core_q2r X q v r dy k))) (Some (scale_2_pi (tr_err (core_q2r X q v r dy k)))) k).
Proof. destruct X, Y; reflexivity. Qed.
Lemma q2r_err X Y q v r dy k :
  tr_err (q2r X Y q v r dy k) =
  snd (gconv gG Y r (scale_2_pi (tr_val (core_q2r X q v r dy k))) (Some (scale_2_pi (tr_err (core_q2r X q v r dy k)))) k).
Proof. destruct X, Y; reflexivity. Qed.

Lemma r2q_grid X Y r v q dy k : tr_grid (r2q X Y r v q dy k) = q.
Proof. destruct X, Y; reflexivity. Qed.
Lemma r2q_val X Y r v q dy k :
  tr_val (r2q X Y r v q dy k) =
  fst (rconv rF Y q (tr_val (core_r2q X r v q dy k)) (Some (tr_err (core_r2q X r v q dy k))) k).
Proof. destruct X, Y; reflexivity. Qed.
Lemma r2q_err X Y r v q dy k :
  tr_err (r2q X Y r v q dy k) =
  snd (rconv rF Y q (tr_val (core_r2q X r v q dy k)) (Some (tr_err (core_r2q X r v q dy k))) k).
Proof. destruct X, Y; reflexivity. Qed.

(* ---------- facts about the core transform ---------- *)

Lemma ft_val_indep_dy (x y xo : list R) a b dy dy' (k : kw R) :
  tr_val (fourier_transform x y xo a b dy k) = tr_val (fourier_transform x y xo a b dy' k).
Proof. reflexivity. Qed.

Lemma ft_val_length (x y xo : list R) a b dy (k : kw R) :
  length (tr_val (fourier_transform x y xo a b dy k)) = length xo.
Proof.
  unfold fourier_transform, apply_cropping, tr_val. cbn [fst snd].
  destruct (omitted k).
  - unfold low_x_correction. rewrite map2_length, map_length. apply Nat.min_id.
  - apply map_length.
Qed.
Lemma ft_err_length (x y xo : list R) a b dy (k : kw R) :
  length (tr_err (fourier_transform x y xo a b dy k)) = length xo.
Proof. unfold fourier_transform, apply_cropping, tr_err. cbn [fst snd]. apply map_length. Qed.

Lemma scale_length l : length (scale_2_pi l) = length l.
Proof. apply map_length. Qed.

(* ---------- lengths and uncertainty paths of the conversions ---------- *)

Lemma rconv_fst_length X Y (k : kw R) q v d : length v = length q -> dok d (length q) ->
  length (fst (rconv X Y q v d k)) = length q.
Proof. intros Lv Ld. rewrite rconv_pointwise by assumption. cbn [fst]. rewrite map2_length, Lv. apply Nat.min_id. Qed.
Lemma rconv_snd_length X Y (k : kw R) q v d : length v = length q -> dok d (length q) ->
  length (snd (rconv X Y q v d k)) = length q.
Proof. intros Lv Ld. rewrite rconv_pointwise by assumption. cbn [snd].
  rewrite map2_length, (dflt_len v d (length q)) by assumption. apply Nat.min_id. Qed.
Lemma gconv_fst_length X Y (k : kw R) r v d : length v = length r -> dok d (length r) ->
  length (fst (gconv X Y r v d k)) = length r.
Proof. intros Lv Ld. rewrite gconv_pointwise by assumption. cbn [fst]. rewrite map2_length, Lv. apply Nat.min_id. Qed.
Lemma gconv_snd_length X Y (k : kw R) r v d : length v = length r -> dok d (length r) ->
  length (snd (gconv X Y r v d k)) = length r.
Proof. intros Lv Ld. rewrite gconv_pointwise by assumption. cbn [snd].
  rewrite map2_length, (dflt_len v d (length r)) by assumption. apply Nat.min_id. Qed.

Lemma rderiv_path (k : kw R) X Z Y q : 0 < q -> bcoh k <> 0 ->
  rderiv k Z Y q * rderiv k X Z q = rderiv k X Y q.
Proof. intros Hq Hb. unfold rderiv. destruct X, Z, Y; cbn; field; lra. Qed.
Lemma gderiv_path (k : kw R) X Z Y r : 0 < r -> 0 < rho k -> bcoh k <> 0 ->
  gderiv k Z Y r * gderiv k X Z r = gderiv k X Y r.
Proof. intros Hr Hp Hb. pose proof PI_RGT_0. unfold gderiv. destruct X, Z, Y; cbn; field; repeat split; lra. Qed.

(* uncertainties propagate along two-step paths as along the direct conversion *)
Theorem rconv_unc_path (k : kw R) X Z Y q v v' d :
  allpos q -> 0 < bcoh k -> length v = length q -> length v' = length q -> dok d (length q) ->
  snd (rconv Z Y q v' (Some (snd (rconv X Z q v d k))) k) = snd (rconv X Y q v d k).
Proof.
  intros Hq Hb Lv Lv' Ld.
  pose proof (rconv_snd_length X Z k q v d Lv Ld) as Ls.
  rewrite (rconv_pointwise Z Y) by (first [assumption | apply dok_some; assumption]).
  rewrite !rconv_pointwise by assumption. cbn [snd dflt_zeros].
  rewrite map2_map2_r. apply Forall_map2_ext with (P := fun x => 0 < x); [exact Hq|].
  intros x y Hx. rewrite !rerr_deriv by assumption.
  rewrite !Rabs_pos_eq by (left; apply rderiv_pos; assumption).
  rewrite <- Rmult_assoc, rderiv_path by lra. reflexivity.
Qed.

Theorem gconv_unc_path (k : kw R) X Z Y r v v' d :
  allpos r -> 0 < rho k -> 0 < bcoh k -> length v = length r -> length v' = length r -> dok d (length r) ->
  snd (gconv Z Y r v' (Some (snd (gconv X Z r v d k))) k) = snd (gconv X Y r v d k).
Proof.
  intros Hr Hp Hb Lv Lv' Ld.
  pose proof (gconv_snd_length X Z k r v d Lv Ld) as Ls.
  rewrite (gconv_pointwise Z Y) by (first [assumption | apply dok_some; assumption]).
  rewrite !gconv_pointwise by assumption. cbn [snd dflt_zeros].
  rewrite map2_map2_r. apply Forall_map2_ext with (P := fun x => 0 < x); [exact Hr|].
  intros x y Hx. rewrite !gerr_deriv by assumption.
  rewrite !Rabs_pos_eq by (left; apply gderiv_pos; assumption).
  rewrite <- Rmult_assoc, gderiv_path by lra. reflexivity.
Qed.

(* ---------- 3: all transforms of the same physical data agree ---------- *)

(* converting the input X -> X' (values and uncertainties) leaves the core transform unchanged *)
Lemma core_q2r_convert (k : kw R) X X' q v r dy :
  allpos q -> 0 < bcoh k -> length v = length q -> dok dy (length q) ->
  core_q2r X' q (fst (rconv X X' q v dy k)) r (Some (snd (rconv X X' q v dy k))) k = core_q2r X q v r dy k.
Proof.
  intros Hq Hb Lv Ld. unfold core_q2r.
  pose proof (rconv_fst_length X X' k q v dy Lv Ld) as Lf.
  pose proof (rconv_snd_length X X' k q v dy Lv Ld) as Ls.
  rewrite (rconv_path k X X' rF q v dy (Some (snd (rconv X X' q v dy k))) dy)
    by (first [assumption | lra | apply dok_some; assumption]).
  rewrite (rconv_unc_path k X X' rF q v _ dy) by assumption.
  reflexivity.
Qed.

Lemma core_r2q_convert (k : kw R) X X' r v q dy :
  allpos r -> 0 < rho k -> 0 < bcoh k -> length v = length r -> dok dy (length r) ->
  core_r2q X' r (fst (gconv X X' r v dy k)) q (Some (snd (gconv X X' r v dy k))) k = core_r2q X r v q dy k.
Proof.
  intros Hr Hp Hb Lv Ld. unfold core_r2q.
  pose proof (gconv_fst_length X X' k r v dy Lv Ld) as Lf.
  pose proof (gconv_snd_length X X' k r v dy Lv Ld) as Ls.
  rewrite (gconv_path k X X' gG r v dy (Some (snd (gconv X X' r v dy k))) dy)
    by (first [assumption | lra | apply dok_some; assumption]).
  rewrite (gconv_unc_path k X X' gG r v _ dy) by assumption.
  reflexivity.
Qed.

Theorem transforms_agree_q2r (k : kw R) X X' Y Y' q v r dy :
  allpos q -> allpos r -> 0 < rho k -> 0 < bcoh k -> length v = length q -> dok dy (length q) ->
  tr_val (q2r X' Y' q (fst (rconv X X' q v dy k)) r (Some (snd (rconv X X' q v dy k))) k)
  = fst (gconv Y Y' r (tr_val (q2r X Y q v r dy k)) None k).
Proof.
  intros Hq Hr Hp Hb Lv Ld. rewrite !q2r_val. rewrite core_q2r_convert by assumption.
  set (C := core_q2r X q v r dy k).
  assert (LV : length (scale_2_pi (tr_val C)) = length r) by (rewrite scale_length; apply ft_val_length).
  assert (LE : length (scale_2_pi (tr_err C)) = length r) by (rewrite scale_length; apply ft_err_length).
  symmetry. apply gconv_path; first [assumption | lra | apply dok_none | apply dok_some; assumption].
Qed.

Theorem transforms_agree_q2r_unc (k : kw R) X X' Y Y' q v r dy :
  allpos q -> allpos r -> 0 < rho k -> 0 < bcoh k -> length v = length q -> dok dy (length q) ->
  tr_err (q2r X' Y' q (fst (rconv X X' q v dy k)) r (Some (snd (rconv X X' q v dy k))) k)
  = snd (gconv Y Y' r (tr_val (q2r X Y q v r dy k)) (Some (tr_err (q2r X Y q v r dy k))) k).
Proof.
  intros Hq Hr Hp Hb Lv Ld. rewrite q2r_err, q2r_val, (q2r_err X Y). rewrite core_q2r_convert by assumption.
  set (C := core_q2r X q v r dy k).
  assert (LV : length (scale_2_pi (tr_val C)) = length r) by (rewrite scale_length; apply ft_val_length).
  assert (LE : length (scale_2_pi (tr_err C)) = length r) by (rewrite scale_length; apply ft_err_length).
  symmetry. apply gconv_unc_path; try assumption.
  - apply gconv_fst_length; [assumption | apply dok_some; assumption].
  - apply dok_some; assumption.
Qed.

Theorem transforms_agree_r2q (k : kw R) X X' Y Y' r v q dy :
  allpos r -> allpos q -> 0 < rho k -> 0 < bcoh k -> length v = length r -> dok dy (length r) ->
  tr_val (r2q X' Y' r (fst (gconv X X' r v dy k)) q (Some (snd (gconv X X' r v dy k))) k)
  = fst (rconv Y Y' q (tr_val (r2q X Y r v q dy k)) None k).
Proof.
  intros Hr Hq Hp Hb Lv Ld. rewrite !r2q_val. rewrite core_r2q_convert by assumption.
  set (C := core_r2q X r v q dy k).
  assert (LV : length (tr_val C) = length q) by apply ft_val_length.
  assert (LE : length (tr_err C) = length q) by apply ft_err_length.
  symmetry. apply rconv_path; first [assumption | lra | apply dok_none | apply dok_some; assumption].
Qed.

Theorem transforms_agree_r2q_unc (k : kw R) X X' Y Y' r v q dy :
  allpos r -> allpos q -> 0 < rho k -> 0 < bcoh k -> length v = length r -> dok dy (length r) ->
  tr_err (r2q X' Y' r (fst (gconv X X' r v dy k)) q (Some (snd (gconv X X' r v dy k))) k)
  = snd (rconv Y Y' q (tr_val (r2q X Y r v q dy k)) (Some (tr_err (r2q X Y r v q dy k))) k).
Proof.
  intros Hr Hq Hp Hb Lv Ld. rewrite r2q_err, r2q_val, (r2q_err X Y). rewrite core_r2q_convert by assumption.
  set (C := core_r2q X r v q dy k).
  assert (LV : length (tr_val C) = length q) by apply ft_val_length.
  assert (LE : length (tr_err C) = length q) by apply ft_err_length.
  symmetry. apply rconv_unc_path; try assumption.
  - apply rconv_fst_length; [assumption | apply dok_some; assumption].
  - apply dok_some; assumption.
Qed.

(* the hypotheses are satisfiable: a 3-point input grid, a 2-point output grid *)
Example transforms_agree_nonvacuous :
  let q := [1; 2; 3] in let r := [1; 2] in let v := [1; 1; 1] in
  let k := {| rho := 1; bcoh := 1; btot := 1; lorch := true; omitted := true |} in
  allpos q /\ allpos r /\ 0 < rho k /\ 0 < bcoh k /\ length v = length q /\ dok (Some [1; 1; 1]) (length q).
Proof.
  cbn. split; [repeat constructor; lra|]. split; [repeat constructor; lra|].
  split; [lra|]. split; [lra|]. split; [reflexivity | apply dok_some; reflexivity].
Qed.

(* the three outputs at once *)
Lemma triple_eta (t : list R * list R * list R) : t = (tr_grid t, tr_val t, tr_err t).
Proof. destruct t as [[a b] c]. reflexivity. Qed.

Theorem transforms_agree_q2r_full (k : kw R) X X' Y Y' q v r dy :
  allpos q -> allpos r -> 0 < rho k -> 0 < bcoh k -> length v = length q -> dok dy (length q) ->
  q2r X' Y' q (fst (rconv X X' q v dy k)) r (Some (snd (rconv X X' q v dy k))) k
  = let t := q2r X Y q v r dy k in
    let c := gconv Y Y' r (tr_val t) (Some (tr_err t)) k in (r, fst c, snd c).
Proof.
  intros Hq Hr Hp Hb Lv Ld. cbv zeta.
  rewrite (triple_eta (q2r X' Y' _ _ _ _ _)). rewrite q2r_grid.
  rewrite (transforms_agree_q2r k X X' Y Y'), (transforms_agree_q2r_unc k X X' Y Y') by assumption.
  f_equal. f_equal.
  assert (LV : length (tr_val (q2r X Y q v r dy k)) = length r).
  { rewrite q2r_val. apply gconv_fst_length.
    - rewrite scale_length; apply ft_val_length.
    - apply dok_some. rewrite scale_length; apply ft_err_length. }
  assert (LE : length (tr_err (q2r X Y q v r dy k)) = length r).
  { rewrite q2r_err. apply gconv_snd_length.
    - rewrite scale_length; apply ft_val_length.
    - apply dok_some. rewrite scale_length; apply ft_err_length. }
  rewrite !gconv_pointwise by (first [assumption | apply dok_none | apply dok_some; assumption]).
  reflexivity.
Qed.

Theorem transforms_agree_r2q_full (k : kw R) X X' Y Y' r v q dy :
  allpos r -> allpos q -> 0 < rho k -> 0 < bcoh k -> length v = length r -> dok dy (length r) ->
  r2q X' Y' r (fst (gconv X X' r v dy k)) q (Some (snd (gconv X X' r v dy k))) k
  = let t := r2q X Y r v q dy k in
    let c := rconv Y Y' q (tr_val t) (Some (tr_err t)) k in (q, fst c, snd c).
Proof.
  intros Hr Hq Hp Hb Lv Ld. cbv zeta.
  rewrite (triple_eta (r2q X' Y' _ _ _ _ _)). rewrite r2q_grid.
  rewrite (transforms_agree_r2q k X X' Y Y'), (transforms_agree_r2q_unc k X X' Y Y') by assumption.
  f_equal. f_equal.
  assert (LV : length (tr_val (r2q X Y r v q dy k)) = length q).
  { rewrite r2q_val. apply rconv_fst_length.
    - apply ft_val_length.
    - apply dok_some. apply ft_err_length. }
  assert (LE : length (tr_err (r2q X Y r v q dy k)) = length q).
  { rewrite r2q_err. apply rconv_snd_length.
    - apply ft_val_length.
    - apply dok_some. apply ft_err_length. }
  rewrite !rconv_pointwise by (first [assumption | apply dok_none | apply dok_some; assumption]).
  reflexivity.
Qed.
