(* CallKwP.v -- proofs about CallKwM *)
From Coq Require Import List Bool Reals Lra PrimFloat.
From PyStoG Require Import Num NumR NumF ConverterM TransformerM StogM CallKwM.
Import ListNotations.

Section Generic.
  Context {A : Type} `{Num A}.

  (* on every carrier: keyword calls are the plain model on the effective description *)
  Lemma ingest_rows_kw_effective (c : @config A) (k : @callkw A) (d : @dinfo A) :
    ingest_rows_kw c k d = ingest_rows c (effective k d).
  Proof.
    unfold ingest_rows_kw, ingest_with, ingest_rows, effective.
    destruct (kw_given k || has_block d) eqn:E.
    - cbn [d_x d_y d_dy d_qmin d_qmax d_Y d_X d_kind o_scale o_offset opt_or]. reflexivity.
    - apply orb_false_iff in E. destruct E as [_ E]. unfold has_block in E.
      destruct (d_Y d), (d_X d); try discriminate. reflexivity.
  Qed.

  (* a description that carries a block: original and repaired code agree *)
  Lemma orig_agrees_with_block (c : @config A) (k : @callkw A) (d : @dinfo A) :
    has_block d = true -> ingest_rows_kw_orig c k d = ingest_rows_kw c k d.
  Proof. intros Hb. unfold ingest_rows_kw_orig, ingest_rows_kw. rewrite Hb, orb_true_r. reflexivity. Qed.

  (* an entry of the description wins over the keyword *)
  Lemma description_wins (k : @callkw A) (d : @dinfo A) (o : @yopts A) (v : A) :
    d_Y d = Some o -> o_scale o = Some v -> eff_yscale k d = v.
  Proof. intros HY Hs. unfold eff_yscale. rewrite HY, Hs. reflexivity. Qed.
  Lemma keyword_fills (k : @callkw A) (d : @dinfo A) (o : @yopts A) :
    d_Y d = Some o -> o_scale o = None -> eff_yscale k d = k_yscale k.
  Proof. intros HY Hs. unfold eff_yscale. rewrite HY, Hs. reflexivity. Qed.
  Lemma keyword_alone (k : @callkw A) (d : @dinfo A) :
    d_Y d = None -> d_X d = None ->
    eff_yscale k d = k_yscale k /\ eff_yoffset k d = k_yoffset k /\ eff_xoffset k d = k_xoffset k.
  Proof. intros HY HX. unfold eff_yscale, eff_yoffset, eff_xoffset. rewrite HY, HX. repeat split. Qed.
End Generic.

(* over R: no keyword given = the model of the call without keywords *)
Lemma Reqb_refl' (v : R) : Reqb v v = true.
Proof. unfold Reqb. destruct (Req_EM_T v v); congruence. Qed.

Lemma kw_default_R : @kw_given R NumR default_kw = false.
Proof. unfold kw_given, default_kw, neqb. cbn [k_yscale k_yoffset k_xoffset eqb NumR one zero]. rewrite !Reqb_refl'. reflexivity. Qed.

Lemma no_keywords_R (c : @config R) (d : @dinfo R) :
  ingest_rows_kw c default_kw d = ingest_rows c d.
Proof.
  rewrite ingest_rows_kw_effective. unfold effective. rewrite kw_default_R. cbn [orb].
  destruct (has_block d) eqn:Hb; [|reflexivity].
  unfold ingest_rows. cbn [d_x d_y d_dy d_qmin d_qmax d_Y d_X d_kind o_scale o_offset opt_or].
  unfold has_block in Hb. unfold eff_yscale, eff_yoffset, eff_xoffset, default_kw.
  cbn [k_yscale k_yoffset k_xoffset].
  destruct (d_Y d) as [o|], (d_X d) as [xo|]; try discriminate; reflexivity.
Qed.

(* binary64, executed: the pinned original drops the keywords of a description without blocks *)
Definition wit_d : @dinfo PrimFloat.float :=
  {| d_x := [0.5; 0.6; 0.7]%float; d_y := [1; 2; 3]%float; d_dy := None; d_qmin := None; d_qmax := None;
     d_Y := None; d_X := None; d_kind := rS |}.
Definition wit_k : @callkw PrimFloat.float := {| k_yscale := 2%float; k_yoffset := 0.5%float; k_xoffset := 0.1%float |}.
Definition wit_c : @config PrimFloat.float :=
  {| c_qmin := None; c_qmax := None; c_rho := 1%float; c_bcoh := 1%float; c_btot := 1%float; c_dr := [];
     c_lowq := false; c_lorch := false; c_cutoff := 0%float; c_fn := gg; c_merge := {| m_Y := None; m_F := None |} |}.
Definition ycol (a : list PrimFloat.float * list PrimFloat.float * list PrimFloat.float) := snd (fst a).

Lemma original_drops_keywords :
  ycol (ingest_rows_kw_orig wit_c wit_k wit_d) = [1; 2; 3]%float /\
  ycol (ingest_rows_kw wit_c wit_k wit_d) = [2.5; 4.5; 6.5]%float.
Proof. split; vm_compute; reflexivity. Qed.
