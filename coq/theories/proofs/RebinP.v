(* RebinP.v -- proofs about RebinM.v (Pre_Proc.rebin) at the reals: property C20. *)
From PyStoG Require Import Num NumR RebinM.
From PyStoG.proofs Require Import VecLib.
From Coq Require Import List Reals ZArith Bool Lia Lra Permutation.
Import ListNotations.
Open Scope R_scope.

(* ------------------------------------------------------------------ *)
(* 1. Rtrunc on nonnegative arguments                                  *)
(* ------------------------------------------------------------------ *)
Lemma Rfloor_bounds t : IZR (Rfloor t) <= t < IZR (Rfloor t) + 1.
Proof. unfold Rfloor. rewrite minus_IZR. destruct (archimed t). lra. Qed.

Lemma Rtrunc_nonneg_floor t : 0 <= t -> Rtrunc t = Rfloor t.
Proof. intros. unfold Rtrunc. destruct (Rle_dec 0 t); [reflexivity|contradiction]. Qed.

Lemma Rtrunc_bounds t : 0 <= t -> IZR (Rtrunc t) <= t < IZR (Rtrunc t) + 1.
Proof. intros. rewrite Rtrunc_nonneg_floor by assumption. apply Rfloor_bounds. Qed.

Lemma IZR_lt_succ a b : IZR a < IZR b + 1 -> (a <= b)%Z.
Proof.
  intros H. assert (H0 : IZR a < IZR (b + 1)) by (rewrite plus_IZR; lra).
  apply lt_IZR in H0. lia.
Qed.

Lemma Rtrunc_nonneg t : 0 <= t -> (0 <= Rtrunc t)%Z.
Proof.
  intros Ht. destruct (Rtrunc_bounds t Ht) as [_ Hu].
  apply IZR_lt_succ. simpl. lra.
Qed.

Lemma Rtrunc_unique t z : IZR z <= t < IZR z + 1 -> 0 <= t -> Rtrunc t = z.
Proof.
  intros [H1 H2] Ht. destruct (Rtrunc_bounds t Ht) as [H3 H4].
  assert (z <= Rtrunc t)%Z by (apply IZR_lt_succ; lra).
  assert (Rtrunc t <= z)%Z by (apply IZR_lt_succ; lra). lia.
Qed.

Lemma Rtrunc_mono s t : 0 <= s -> s <= t -> (Rtrunc s <= Rtrunc t)%Z.
Proof.
  intros Hs Hst. destruct (Rtrunc_bounds s Hs). destruct (Rtrunc_bounds t) as [? ?]; [lra|].
  apply IZR_lt_succ. lra.
Qed.

Lemma div_nonneg a b : 0 <= a -> 0 < b -> 0 <= a / b.
Proof. intros. unfold Rdiv. apply Rmult_le_pos; [assumption | left; apply Rinv_0_lt_compat; assumption]. Qed.

Lemma div_mul_id a b : b <> 0 -> a / b * b = a.
Proof. intros. field. assumption. Qed.

Lemma INR_Z_to_nat z : (0 <= z)%Z -> INR (Z.to_nat z) = IZR z.
Proof. intros. rewrite INR_IZR_INZ, Z2Nat.id by assumption. reflexivity. Qed.

(* ------------------------------------------------------------------ *)
(* 2. The output grid                                                  *)
(* ------------------------------------------------------------------ *)
(* k-th grid point *)
Definition gridpt (xmin xdiv : R) (k : nat) : R := xmin + INR k * xdiv.

Lemma rebin_grid_eq (xmin xdiv xmax : R) :
  rebin_grid xmin xdiv xmax = map (gridpt xmin xdiv) (seq 0 (numpts xmin xdiv xmax)).
Proof.
  unfold rebin_grid. numR. apply map_ext. intro k. unfold gridpt.
  rewrite <- INR_IZR_INZ. reflexivity.
Qed.

Lemma numpts_R (xmin xdiv xmax : R) :
  numpts xmin xdiv xmax = Z.to_nat (Rtrunc ((xmax - xmin) / xdiv) + 1).
Proof. reflexivity. Qed.

Lemma numpts_INR (xmin xdiv xmax : R) : 0 < xdiv -> xmin <= xmax ->
  INR (numpts xmin xdiv xmax) = IZR (Rtrunc ((xmax - xmin) / xdiv)) + 1.
Proof.
  intros Hd Hm. rewrite numpts_R.
  assert (0 <= Rtrunc ((xmax - xmin) / xdiv))%Z by (apply Rtrunc_nonneg, div_nonneg; lra).
  rewrite INR_Z_to_nat by lia. rewrite plus_IZR. reflexivity.
Qed.

Lemma numpts_ge_1 (xmin xdiv xmax : R) : 0 < xdiv -> xmin <= xmax ->
  (1 <= numpts xmin xdiv xmax)%nat.
Proof.
  intros Hd Hm. rewrite numpts_R.
  assert (0 <= Rtrunc ((xmax - xmin) / xdiv))%Z by (apply Rtrunc_nonneg, div_nonneg; lra).
  lia.
Qed.

Lemma rebin_grid_length (xmin xdiv xmax : R) :
  length (rebin_grid xmin xdiv xmax) = numpts xmin xdiv xmax.
Proof. rewrite rebin_grid_eq, map_length, seq_length. reflexivity. Qed.

Lemma nth_map_seq {B} (f : nat -> B) n k d : (k < n)%nat -> nth k (map f (seq 0 n)) d = f k.
Proof.
  intros Hk. rewrite (nth_indep _ d (f 0%nat)) by (rewrite map_length, seq_length; assumption).
  rewrite map_nth, seq_nth by assumption. reflexivity.
Qed.

Lemma rebin_grid_nth (xmin xdiv xmax : R) k d : (k < numpts xmin xdiv xmax)%nat ->
  nth k (rebin_grid xmin xdiv xmax) d = gridpt xmin xdiv k.
Proof. intros. rewrite rebin_grid_eq. apply nth_map_seq. assumption. Qed.

Lemma gridpt_le_xmax (xmin xdiv xmax : R) k : 0 < xdiv -> xmin <= xmax ->
  (k < numpts xmin xdiv xmax)%nat -> gridpt xmin xdiv k <= xmax.
Proof.
  intros Hd Hm Hk. apply lt_INR in Hk. rewrite numpts_INR in Hk by assumption.
  destruct (Rtrunc_bounds ((xmax - xmin) / xdiv)) as [Hl _]; [apply div_nonneg; lra|].
  assert (Hk' : INR k <= (xmax - xmin) / xdiv).
  { pose proof (pos_INR k).
    assert (INR k <= IZR (Rtrunc ((xmax - xmin) / xdiv))); [|lra].
    rewrite INR_IZR_INZ in *. apply IZR_le. apply IZR_lt_succ. assumption. }
  apply (Rmult_le_compat_r xdiv) in Hk'; [|lra].
  rewrite div_mul_id in Hk' by lra. unfold gridpt. lra.
Qed.

Lemma xmax_lt_next_gridpt (xmin xdiv xmax : R) : 0 < xdiv -> xmin <= xmax ->
  xmax < gridpt xmin xdiv (numpts xmin xdiv xmax).
Proof.
  intros Hd Hm. unfold gridpt. rewrite numpts_INR by assumption.
  destruct (Rtrunc_bounds ((xmax - xmin) / xdiv)) as [_ Hu]; [apply div_nonneg; lra|].
  apply (Rmult_lt_compat_r xdiv) in Hu; [|lra].
  rewrite div_mul_id in Hu by lra. lra.
Qed.

Lemma xmin_le_gridpt (xmin xdiv : R) k : 0 < xdiv -> xmin <= gridpt xmin xdiv k.
Proof. intros. unfold gridpt. pose proof (pos_INR k). assert (0 <= INR k * xdiv) by (apply Rmult_le_pos; lra). lra. Qed.

Lemma rebin_fst (x y : list R) (xmin xdiv xmax : R) :
  fst (rebin x y xmin xdiv xmax) = rebin_grid xmin xdiv xmax.
Proof. unfold rebin. destruct (fold_left _ _ _). reflexivity. Qed.

(* Theorem 1 *)
Theorem rebin_grid_spec : forall (x y : list R) (xmin xdiv xmax : R),
  0 < xdiv -> xmin <= xmax ->
  let n := Z.to_nat (Rtrunc ((xmax - xmin) / xdiv) + 1) in
  fst (rebin x y xmin xdiv xmax) = map (fun k => xmin + INR k * xdiv) (seq 0 n) /\
  length (fst (rebin x y xmin xdiv xmax)) = n /\
  (1 <= n)%nat /\
  (forall k, (k < n)%nat -> nth k (fst (rebin x y xmin xdiv xmax)) 0 = xmin + INR k * xdiv) /\
  (forall k, (k < n)%nat -> xmin <= xmin + INR k * xdiv <= xmax) /\
  xmax < xmin + INR n * xdiv.
Proof.
  intros x y xmin xdiv xmax Hd Hm n. rewrite rebin_fst.
  split; [apply rebin_grid_eq|]. split; [apply rebin_grid_length|].
  split; [apply numpts_ge_1; assumption|].
  split; [intros k Hk; apply rebin_grid_nth; assumption|].
  split; [intros k Hk; split; [apply (xmin_le_gridpt xmin xdiv k Hd) | apply gridpt_le_xmax; assumption]|].
  apply xmax_lt_next_gridpt; assumption.
Qed.

(* ------------------------------------------------------------------ *)
(* 3. The code's two-neighbour weights are hat-function weights        *)
(* ------------------------------------------------------------------ *)
(* hat (tent) function of half-width xdiv centred on xk *)
Definition hat (xk xdiv x : R) : R := Rmax 0 (1 - Rabs (x - xk) / xdiv).

(* bin index and weights computed by the code *)
Definition binof (xmin xdiv x : R) : nat := Z.to_nat (Rtrunc ((x - xmin) / xdiv)).
Definition scale1 (xmin xdiv x : R) : R := 1 - (x - gridpt xmin xdiv (binof xmin xdiv x)) / xdiv.
Definition scale2 (xmin xdiv x : R) : R := 1 - scale1 xmin xdiv x.

Lemma hat_offset xmin xdiv j x : 0 < xdiv ->
  hat (gridpt xmin xdiv j) xdiv x = Rmax 0 (1 - Rabs ((x - xmin) / xdiv - INR j)).
Proof.
  intros Hd. unfold hat. f_equal. f_equal.
  replace ((x - xmin) / xdiv - INR j) with ((x - gridpt xmin xdiv j) * / xdiv)
    by (unfold gridpt; field; lra).
  rewrite Rabs_mult, (Rabs_right (/ xdiv)); [reflexivity|].
  apply Rle_ge. left. apply Rinv_0_lt_compat. assumption.
Qed.

Lemma hat_nonneg xk xdiv x : 0 <= hat xk xdiv x.
Proof. unfold hat. apply Rmax_l. Qed.

Lemma hat_le_1 xk xdiv x : 0 < xdiv -> hat xk xdiv x <= 1.
Proof.
  intros Hd. unfold hat. apply Rmax_lub; [lra|].
  assert (0 <= Rabs (x - xk) / xdiv) by (apply div_nonneg; [apply Rabs_pos|assumption]). lra.
Qed.

(* the support of the hat is the open interval of one bin width around xk *)
Lemma hat_pos_iff xk xdiv x : 0 < xdiv -> (0 < hat xk xdiv x <-> Rabs (x - xk) < xdiv).
Proof.
  intros Hd. unfold hat.
  assert (E : Rabs (x - xk) = Rabs (x - xk) / xdiv * xdiv) by (field; lra).
  split; intros Hh.
  - assert (Rabs (x - xk) / xdiv < 1).
    { unfold Rmax in Hh. destruct (Rle_dec 0 (1 - Rabs (x - xk) / xdiv)); lra. }
    rewrite E. apply (Rmult_lt_compat_r xdiv) in H; lra.
  - assert (Rabs (x - xk) / xdiv < 1).
    { apply (Rmult_lt_reg_r xdiv); [assumption|]. rewrite <- E. lra. }
    unfold Rmax. destruct (Rle_dec 0 (1 - Rabs (x - xk) / xdiv)); lra.
Qed.

Ltac eval_hat := unfold Rmax, Rabs;
  repeat match goal with
  | |- context [Rcase_abs ?a] => destruct (Rcase_abs a)
  | |- context [Rle_dec ?a ?b] => destruct (Rle_dec a b)
  end; try lra.

(* scalar weight lemma, bin given by its defining inequality *)
Lemma hat_weights_bin : forall (xmin xdiv x : R) (b : nat), 0 < xdiv ->
  gridpt xmin xdiv b <= x < gridpt xmin xdiv b + xdiv ->
  let s1 := 1 - (x - gridpt xmin xdiv b) / xdiv in
  hat (gridpt xmin xdiv b) xdiv x = s1 /\
  hat (gridpt xmin xdiv (S b)) xdiv x = 1 - s1 /\
  (forall j, j <> b -> j <> S b -> hat (gridpt xmin xdiv j) xdiv x = 0) /\
  0 < s1 <= 1.
Proof.
  intros xmin xdiv x b Hd [Hl Hu] s1.
  set (t := (x - xmin) / xdiv).
  assert (Hs : s1 = 1 - (t - INR b)) by (unfold s1, t, gridpt; field; lra).
  assert (Ht : INR b <= t < INR b + 1).
  { unfold gridpt in Hl, Hu. split.
    - apply (Rmult_le_reg_r xdiv); [assumption|]. unfold t. rewrite div_mul_id by lra. lra.
    - apply (Rmult_lt_reg_r xdiv); [assumption|]. unfold t. rewrite div_mul_id by lra. lra. }
  rewrite Hs. split; [|split; [|split]].
  - rewrite hat_offset by assumption. fold t. eval_hat.
  - rewrite hat_offset by assumption. fold t. rewrite S_INR. eval_hat.
  - intros j Hj1 Hj2. rewrite hat_offset by assumption. fold t.
    destruct (Nat.lt_ge_cases j b) as [Hlt|Hge].
    + assert (INR j + 1 <= INR b) by (rewrite <- S_INR; apply le_INR; lia). eval_hat.
    + assert (INR b + 2 <= INR j).
      { replace (INR b + 2) with (INR (S (S b))) by (rewrite !S_INR; lra). apply le_INR; lia. }
      eval_hat.
  - lra.
Qed.

Lemma binof_bounds (xmin xdiv x : R) : 0 < xdiv -> xmin <= x ->
  gridpt xmin xdiv (binof xmin xdiv x) <= x < gridpt xmin xdiv (binof xmin xdiv x) + xdiv.
Proof.
  intros Hd Hx. unfold gridpt, binof.
  assert (H0 : 0 <= (x - xmin) / xdiv) by (apply div_nonneg; lra).
  rewrite INR_Z_to_nat by (apply Rtrunc_nonneg; assumption).
  destruct (Rtrunc_bounds _ H0) as [Hl Hu].
  apply (Rmult_le_compat_r xdiv) in Hl; [|lra].
  apply (Rmult_lt_compat_r xdiv) in Hu; [|lra].
  rewrite div_mul_id in Hl, Hu by lra. lra.
Qed.

(* scalar weight lemma for the code's bin index b = int((x - xmin)/xdiv) *)
Lemma hat_weights : forall (xmin xdiv x : R), 0 < xdiv -> xmin <= x ->
  let b := Z.to_nat (Rtrunc ((x - xmin) / xdiv)) in
  let s1 := 1 - (x - (xmin + INR b * xdiv)) / xdiv in
  let s2 := 1 - s1 in
  hat (xmin + INR b * xdiv) xdiv x = s1 /\
  hat (xmin + INR (S b) * xdiv) xdiv x = s2 /\
  (forall j, j <> b -> j <> S b -> hat (xmin + INR j * xdiv) xdiv x = 0) /\
  0 < s1 <= 1 /\ 0 <= s2 < 1.
Proof.
  intros xmin xdiv x Hd Hx b s1 s2.
  destruct (hat_weights_bin xmin xdiv x b Hd (binof_bounds xmin xdiv x Hd Hx)) as (H1 & H2 & H3 & H4).
  split; [exact H1|]. split; [exact H2|]. split; [exact H3|].
  split; [exact H4|]. unfold s2. fold (gridpt xmin xdiv b) in s1.
  change (0 < s1 <= 1) in H4. lra.
Qed.

Lemma binof_lt_numpts (xmin xdiv xmax x : R) : 0 < xdiv -> xmin <= x <= xmax ->
  (binof xmin xdiv x < numpts xmin xdiv xmax)%nat.
Proof.
  intros Hd [Hx1 Hx2]. unfold binof. rewrite numpts_R.
  assert (H0 : 0 <= (x - xmin) / xdiv) by (apply div_nonneg; lra).
  assert (H1 : (x - xmin) / xdiv <= (xmax - xmin) / xdiv).
  { unfold Rdiv. apply Rmult_le_compat_r; [left; apply Rinv_0_lt_compat; assumption | lra]. }
  pose proof (Rtrunc_mono _ _ H0 H1). pose proof (Rtrunc_nonneg _ H0). lia.
Qed.

(* ------------------------------------------------------------------ *)
(* 4. The accumulation loop                                            *)
(* ------------------------------------------------------------------ *)
Lemma add_at_length (i : nat) (v : R) (l : list R) : length (add_at i v l) = length l.
Proof. revert i; induction l as [|a l IH]; intros [|i]; cbn; auto. Qed.

Lemma add_at_nth (i : nat) (v : R) (l : list R) k : (i < length l)%nat ->
  nth k (add_at i v l) 0 = nth k l 0 + (if Nat.eqb k i then v else 0).
Proof.
  revert i k; induction l as [|a l IH]; intros [|i] [|k] Hi; cbn in *; try lia; numR; try lra.
  apply IH. lia.
Qed.

Lemma removelast_length' {B} (l : list B) : length (removelast l) = pred (length l).
Proof. induction l as [|a [|b l] IH]; cbn in *; try reflexivity. f_equal. exact IH. Qed.

Lemma nth_removelast {B} (l : list B) k d : (k < pred (length l))%nat ->
  nth k (removelast l) d = nth k l d.
Proof.
  revert k; induction l as [|a [|b l] IH]; intros [|k] Hk; cbn in *; try lia; try reflexivity.
  apply IH. lia.
Qed.

Lemma nth_const_map {B} (c : R) (l : list B) k : nth k (map (fun _ => c) l) c = c.
Proof. revert k; induction l as [|a l IH]; intros [|k]; cbn; auto. Qed.

(* xmin <= x <= xmax, as the code tests it *)
Definition inrangeb (xmin xmax x : R) : bool := Rleb xmin x && Rleb x xmax.

Lemma inrangeb_true_iff xmin xmax x : inrangeb xmin xmax x = true <-> xmin <= x <= xmax.
Proof.
  unfold inrangeb. destruct (Rleb_spec xmin x), (Rleb_spec x xmax); cbn; split; intros; try discriminate; try tauto.
Qed.

(* sum_i [xmin <= x_i <= xmax] hat(xout_k, x_i) * y_i   and   sum_i [..] hat(xout_k, x_i),
   over the list of input pairs (x_i, y_i) *)
Definition ysum (xmin xdiv xmax : R) (k : nat) (l : list (R * R)) : R :=
  fold_right Rplus 0
    (map (fun p => if inrangeb xmin xmax (fst p) then hat (gridpt xmin xdiv k) xdiv (fst p) * snd p else 0) l).
Definition nsum (xmin xdiv xmax : R) (k : nat) (l : list (R * R)) : R :=
  fold_right Rplus 0
    (map (fun p => if inrangeb xmin xmax (fst p) then hat (gridpt xmin xdiv k) xdiv (fst p) else 0) l).

Lemma ysum_cons xmin xdiv xmax k p l : ysum xmin xdiv xmax k (p :: l) =
  (if inrangeb xmin xmax (fst p) then hat (gridpt xmin xdiv k) xdiv (fst p) * snd p else 0) + ysum xmin xdiv xmax k l.
Proof. reflexivity. Qed.
Lemma nsum_cons xmin xdiv xmax k p l : nsum xmin xdiv xmax k (p :: l) =
  (if inrangeb xmin xmax (fst p) then hat (gridpt xmin xdiv k) xdiv (fst p) else 0) + nsum xmin xdiv xmax k l.
Proof. reflexivity. Qed.

Lemma rebin_step_spec (xmin xdiv xmax : R) (ya na : list R) (x y : R) :
  0 < xdiv ->
  length ya = S (numpts xmin xdiv xmax) -> length na = S (numpts xmin xdiv xmax) ->
  let r := rebin_step xmin xdiv xmax (rebin_grid xmin xdiv xmax) (ya, na) (x, y) in
  length (fst r) = S (numpts xmin xdiv xmax) /\ length (snd r) = S (numpts xmin xdiv xmax) /\
  forall k,
    nth k (fst r) 0 = nth k ya 0 +
       (if inrangeb xmin xmax x then hat (gridpt xmin xdiv k) xdiv x * y else 0) /\
    nth k (snd r) 0 = nth k na 0 +
       (if inrangeb xmin xmax x then hat (gridpt xmin xdiv k) xdiv x else 0).
Proof.
  intros Hd Ly Ln r. unfold r, rebin_step, inrangeb. numR.
  destruct (Rleb_spec xmin x) as [H1|H1]; [destruct (Rleb_spec x xmax) as [H2|H2]|]; cbn [andb fst snd];
    try (split; [assumption|split; [assumption|intros k; split; lra]]).
  cbv zeta. change (Z.to_nat (Rtrunc ((x - xmin) / xdiv))) with (binof xmin xdiv x).
  pose proof (binof_lt_numpts xmin xdiv xmax x Hd (conj H1 H2)) as Hb.
  rewrite rebin_grid_nth by assumption.
  destruct (hat_weights_bin xmin xdiv x _ Hd (binof_bounds xmin xdiv x Hd H1)) as (W1 & W2 & W3 & _).
  set (b := binof xmin xdiv x) in *.
  rewrite !add_at_length. split; [assumption|split; [assumption|]].
  intros k. rewrite !add_at_nth by (rewrite ?add_at_length; lia).
  destruct (Nat.eqb_spec k b) as [E1|E1]; destruct (Nat.eqb_spec k (S b)) as [E2|E2]; try lia.
  - subst k. rewrite W1. split; ring.
  - subst k. rewrite W2. split; ring.
  - rewrite (W3 k E1 E2). split; ring.
Qed.

Lemma rebin_fold_spec (xmin xdiv xmax : R) (l : list (R * R)) : 0 < xdiv ->
  forall ya na,
  length ya = S (numpts xmin xdiv xmax) -> length na = S (numpts xmin xdiv xmax) ->
  let r := fold_left (rebin_step xmin xdiv xmax (rebin_grid xmin xdiv xmax)) l (ya, na) in
  length (fst r) = S (numpts xmin xdiv xmax) /\ length (snd r) = S (numpts xmin xdiv xmax) /\
  forall k, nth k (fst r) 0 = nth k ya 0 + ysum xmin xdiv xmax k l /\
            nth k (snd r) 0 = nth k na 0 + nsum xmin xdiv xmax k l.
Proof.
  intros Hd. induction l as [|[x y] l IH]; intros ya na Ly Ln.
  - cbn. split; [assumption|split; [assumption|intros k; split; lra]].
  - cbn [fold_left].
    pose proof (rebin_step_spec xmin xdiv xmax ya na x y Hd Ly Ln) as S.
    destruct (rebin_step xmin xdiv xmax (rebin_grid xmin xdiv xmax) (ya, na) (x, y)) as [ya' na'].
    cbn [fst snd] in S. destruct S as (Ly' & Ln' & S).
    destruct (IH ya' na' Ly' Ln') as (L1 & L2 & F).
    split; [assumption|split; [assumption|]].
    intros k. destruct (F k) as [F1 F2]. destruct (S k) as [S1 S2].
    rewrite ysum_cons, nsum_cons. cbn [fst snd]. split; lra.
Qed.

(* Theorem 2: every output value is the hat-weighted average of the in-range input points *)
Theorem rebin_is_hat_average : forall (x y : list R) (xmin xdiv xmax : R), 0 < xdiv ->
  snd (rebin x y xmin xdiv xmax) =
  map (fun k => ysum xmin xdiv xmax k (combine x y) / nsum xmin xdiv xmax k (combine x y))
      (seq 0 (numpts xmin xdiv xmax)).
Proof.
  intros x y xmin xdiv xmax Hd. unfold rebin. numR.
  set (z := map (fun _ => 0) (seq 0 (S (length (rebin_grid xmin xdiv xmax))))).
  assert (Lz : length z = S (numpts xmin xdiv xmax))
    by (unfold z; rewrite map_length, seq_length, rebin_grid_length; reflexivity).
  pose proof (rebin_fold_spec xmin xdiv xmax (combine x y) Hd z z Lz Lz) as F.
  destruct (fold_left _ (combine x y) (z, z)) as [yo no]. cbn [fst snd] in *.
  destruct F as (L1 & L2 & F).
  apply (nth_ext _ _ 0 0).
  - rewrite removelast_length', map2_length, L1, L2, map_length, seq_length. lia.
  - intros k Hk. rewrite removelast_length', map2_length, L1, L2 in Hk.
    rewrite nth_removelast by (rewrite map2_length, L1, L2; lia).
    rewrite (nth_map2 _ _ _ _ 0 0 0) by lia.
    rewrite (nth_map_seq _ _ _ 0) by lia.
    destruct (F k) as [F1 F2]. rewrite F1, F2. unfold z. rewrite nth_const_map.
    unfold Rdiv. rewrite !Rplus_0_l. reflexivity.
Qed.

(* pointwise form *)
Corollary rebin_is_hat_average_nth : forall (x y : list R) (xmin xdiv xmax : R) k, 0 < xdiv ->
  (k < numpts xmin xdiv xmax)%nat ->
  nth k (snd (rebin x y xmin xdiv xmax)) 0 =
  ysum xmin xdiv xmax k (combine x y) / nsum xmin xdiv xmax k (combine x y).
Proof.
  intros. rewrite rebin_is_hat_average by assumption.
  rewrite (nth_map_seq _ _ _ 0) by assumption. reflexivity.
Qed.

Lemma rebin_snd_length (x y : list R) (xmin xdiv xmax : R) : 0 < xdiv ->
  length (snd (rebin x y xmin xdiv xmax)) = numpts xmin xdiv xmax.
Proof. intros. rewrite rebin_is_hat_average by assumption. rewrite map_length, seq_length. reflexivity. Qed.

(* ------------------------------------------------------------------ *)
(* 5. Corollaries                                                      *)
(* ------------------------------------------------------------------ *)
(* "every returned bin receives data" *)
Definition all_bins_fed (x y : list R) (xmin xdiv xmax : R) : Prop :=
  forall k, (k < numpts xmin xdiv xmax)%nat -> 0 < nsum xmin xdiv xmax k (combine x y).

(* --- order independence --- *)
Lemma fold_right_Rplus_perm (l l' : list R) : Permutation l l' ->
  fold_right Rplus 0 l = fold_right Rplus 0 l'.
Proof. induction 1; cbn; lra. Qed.

Lemma ysum_perm xmin xdiv xmax k l l' : Permutation l l' ->
  ysum xmin xdiv xmax k l = ysum xmin xdiv xmax k l'.
Proof. intros. unfold ysum. apply fold_right_Rplus_perm, Permutation_map. assumption. Qed.
Lemma nsum_perm xmin xdiv xmax k l l' : Permutation l l' ->
  nsum xmin xdiv xmax k l = nsum xmin xdiv xmax k l'.
Proof. intros. unfold nsum. apply fold_right_Rplus_perm, Permutation_map. assumption. Qed.

Theorem rebin_perm : forall (x y x' y' : list R) (xmin xdiv xmax : R), 0 < xdiv ->
  Permutation (combine x y) (combine x' y') ->
  rebin x y xmin xdiv xmax = rebin x' y' xmin xdiv xmax.
Proof.
  intros x y x' y' xmin xdiv xmax Hd P.
  rewrite (surjective_pairing (rebin x y xmin xdiv xmax)), (surjective_pairing (rebin x' y' xmin xdiv xmax)).
  rewrite !rebin_fst, !rebin_is_hat_average by assumption. f_equal.
  apply map_ext. intro k.
  rewrite (ysum_perm _ _ _ k _ _ P), (nsum_perm _ _ _ k _ _ P). reflexivity.
Qed.

(* --- constants --- *)
Lemma ysum_const xmin xdiv xmax k c l :
  (forall p, In p l -> xmin <= fst p <= xmax -> snd p = c) ->
  ysum xmin xdiv xmax k l = c * nsum xmin xdiv xmax k l.
Proof.
  induction l as [|p l IH]; intros Hc.
  - cbn. lra.
  - rewrite ysum_cons, nsum_cons, IH by (intros q Hq; apply Hc; right; assumption).
    destruct (inrangeb xmin xmax (fst p)) eqn:E; [|lra].
    rewrite (Hc p) by (try (left; reflexivity); apply inrangeb_true_iff; assumption). ring.
Qed.

Theorem rebin_constant : forall (x y : list R) (xmin xdiv xmax c : R), 0 < xdiv ->
  (forall p, In p (combine x y) -> xmin <= fst p <= xmax -> snd p = c) ->
  all_bins_fed x y xmin xdiv xmax ->
  snd (rebin x y xmin xdiv xmax) = repeat c (numpts xmin xdiv xmax).
Proof.
  intros x y xmin xdiv xmax c Hd Hc Hn.
  rewrite rebin_is_hat_average by assumption.
  apply (nth_ext _ _ 0 c).
  - rewrite map_length, seq_length, repeat_length. reflexivity.
  - intros k Hk. rewrite map_length, seq_length in Hk.
    rewrite (nth_map_seq _ _ _ 0) by assumption.
    rewrite (ysum_const _ _ _ _ c) by assumption.
    rewrite nth_repeat. specialize (Hn k Hk). field. lra.
Qed.

(* --- linearity in y --- *)
Lemma ysum_linear xmin xdiv xmax k a b : forall x y1 y2, length y1 = length y2 ->
  ysum xmin xdiv xmax k (combine x (map2 (fun u v => a * u + b * v) y1 y2)) =
  a * ysum xmin xdiv xmax k (combine x y1) + b * ysum xmin xdiv xmax k (combine x y2).
Proof.
  induction x as [|x0 x IH]; intros [|u y1] [|v y2] L; cbn [combine map2]; try discriminate;
    try (cbn; lra).
  rewrite !ysum_cons, IH by (cbn in L; lia). cbn [fst snd].
  destruct (inrangeb xmin xmax x0); ring.
Qed.

Lemma nsum_combine xmin xdiv xmax k : forall x (y y' : list R), length y = length y' ->
  nsum xmin xdiv xmax k (combine x y) = nsum xmin xdiv xmax k (combine x y').
Proof.
  induction x as [|x0 x IH]; intros [|u y] [|v y'] L; cbn [combine]; try discriminate; try reflexivity.
  rewrite !nsum_cons, (IH y y') by (cbn in L; lia). reflexivity.
Qed.

Lemma map2_map_map {B C D E} (f : C -> D -> E) (g : B -> C) (h : B -> D) l :
  map2 f (map g l) (map h l) = map (fun k => f (g k) (h k)) l.
Proof. induction l; cbn; f_equal; auto. Qed.

Theorem rebin_linear : forall (x y1 y2 : list R) (a b xmin xdiv xmax : R), 0 < xdiv ->
  length y1 = length y2 ->
  snd (rebin x (map2 (fun u v => a * u + b * v) y1 y2) xmin xdiv xmax) =
  map2 (fun u v => a * u + b * v) (snd (rebin x y1 xmin xdiv xmax)) (snd (rebin x y2 xmin xdiv xmax)).
Proof.
  intros x y1 y2 a b xmin xdiv xmax Hd L.
  rewrite !rebin_is_hat_average by assumption. rewrite map2_map_map.
  apply map_ext. intro k. rewrite ysum_linear by assumption.
  rewrite (nsum_combine _ _ _ k x (map2 _ y1 y2) y1) by (rewrite map2_length; lia).
  rewrite (nsum_combine _ _ _ k x y2 y1) by lia.
  unfold Rdiv. ring.
Qed.

(* --- between the extreme contributing values --- *)
Lemma nsum_nonneg xmin xdiv xmax k l : 0 <= nsum xmin xdiv xmax k l.
Proof.
  induction l as [|p l IH]; [cbn; lra|]. rewrite nsum_cons.
  pose proof (hat_nonneg (gridpt xmin xdiv k) xdiv (fst p)).
  destruct (inrangeb xmin xmax (fst p)); lra.
Qed.

Lemma ysum_bounds xmin xdiv xmax k m M l :
  (forall p, In p l -> xmin <= fst p <= xmax -> 0 < hat (gridpt xmin xdiv k) xdiv (fst p) ->
             m <= snd p <= M) ->
  m * nsum xmin xdiv xmax k l <= ysum xmin xdiv xmax k l <= M * nsum xmin xdiv xmax k l.
Proof.
  induction l as [|p l IH]; intros Hb.
  - cbn. lra.
  - rewrite ysum_cons, nsum_cons.
    destruct IH as [I1 I2]; [intros q Hq; apply Hb; right; assumption|].
    destruct (inrangeb xmin xmax (fst p)) eqn:E; [|lra].
    apply inrangeb_true_iff in E.
    set (h := hat (gridpt xmin xdiv k) xdiv (fst p)) in *.
    pose proof (hat_nonneg (gridpt xmin xdiv k) xdiv (fst p)) as Hh. fold h in Hh.
    destruct (Rle_lt_or_eq_dec 0 h Hh) as [Hpos|Hz].
    + destruct (Hb p (or_introl eq_refl) E Hpos) as [B1 B2].
      pose proof (Rmult_le_compat_l h m (snd p) Hh B1).
      pose proof (Rmult_le_compat_l h (snd p) M Hh B2). lra.
    + rewrite <- Hz. lra.
Qed.

Theorem rebin_between : forall (x y : list R) (xmin xdiv xmax m M : R) (k : nat), 0 < xdiv ->
  (k < numpts xmin xdiv xmax)%nat ->
  0 < nsum xmin xdiv xmax k (combine x y) ->
  (forall p, In p (combine x y) -> xmin <= fst p <= xmax ->
             Rabs (fst p - (xmin + INR k * xdiv)) < xdiv -> m <= snd p <= M) ->
  m <= nth k (snd (rebin x y xmin xdiv xmax)) 0 <= M.
Proof.
  intros x y xmin xdiv xmax m M k Hd Hk Hn Hb.
  rewrite rebin_is_hat_average_nth by assumption.
  destruct (ysum_bounds xmin xdiv xmax k m M (combine x y)) as [B1 B2].
  { intros p Hp Hr Hh. apply Hb; try assumption. apply hat_pos_iff in Hh; assumption. }
  set (N := nsum xmin xdiv xmax k (combine x y)) in *.
  set (Y := ysum xmin xdiv xmax k (combine x y)) in *.
  split; apply (Rmult_le_reg_r N); try assumption; rewrite div_mul_id by lra; assumption.
Qed.

(* --- data on the grid --- *)
Lemma hat_on_grid xmin xdiv k j : 0 < xdiv ->
  hat (gridpt xmin xdiv k) xdiv (gridpt xmin xdiv j) = if Nat.eqb k j then 1 else 0.
Proof.
  intros Hd.
  destruct (hat_weights_bin xmin xdiv (gridpt xmin xdiv j) j Hd) as (W1 & W2 & W3 & _); [lra|].
  replace (1 - (gridpt xmin xdiv j - gridpt xmin xdiv j) / xdiv) with 1 in * by (field; lra).
  destruct (Nat.eqb_spec k j) as [E|E].
  - subst. assumption.
  - destruct (Nat.eq_dec k (S j)) as [E2|E2].
    + subst. rewrite W2. ring.
    + apply W3; assumption.
Qed.

Lemma gridpt_inj xmin xdiv i j : 0 < xdiv -> gridpt xmin xdiv i = gridpt xmin xdiv j -> i = j.
Proof.
  intros Hd E. unfold gridpt in E. apply INR_eq. apply (Rmult_eq_reg_r xdiv); lra.
Qed.

Lemma nsum_pos_of_in xmin xdiv xmax k l p : In p l -> xmin <= fst p <= xmax ->
  0 < hat (gridpt xmin xdiv k) xdiv (fst p) -> 0 < nsum xmin xdiv xmax k l.
Proof.
  induction l as [|q l IH]; intros Hi Hr Hh; [destruct Hi|].
  rewrite nsum_cons. pose proof (nsum_nonneg xmin xdiv xmax k l).
  destruct Hi as [->|Hi].
  - apply inrangeb_true_iff in Hr. rewrite Hr. lra.
  - specialize (IH Hi Hr Hh). pose proof (hat_nonneg (gridpt xmin xdiv k) xdiv (fst q)).
    destruct (inrangeb xmin xmax (fst q)); lra.
Qed.

(* in-range abscissae are grid points; the points sitting on node k all carry the value v and
   there is at least one: the k-th output is v *)
Theorem rebin_identity_on_grid : forall (x y : list R) (xmin xdiv xmax v : R) (k : nat),
  0 < xdiv -> xmin <= xmax -> (k < numpts xmin xdiv xmax)%nat ->
  (forall p, In p (combine x y) -> xmin <= fst p <= xmax -> exists j : nat, fst p = xmin + INR j * xdiv) ->
  (forall p, In p (combine x y) -> fst p = xmin + INR k * xdiv -> snd p = v) ->
  (exists p, In p (combine x y) /\ fst p = xmin + INR k * xdiv) ->
  nth k (snd (rebin x y xmin xdiv xmax)) 0 = v.
Proof.
  intros x y xmin xdiv xmax v k Hd Hm Hk HG HV [p0 [Hp0 Ep0]].
  assert (Hn : 0 < nsum xmin xdiv xmax k (combine x y)).
  { apply (nsum_pos_of_in _ _ _ _ _ p0 Hp0).
    - rewrite Ep0. split; [apply (xmin_le_gridpt xmin xdiv k Hd) | apply gridpt_le_xmax; assumption].
    - rewrite Ep0. fold (gridpt xmin xdiv k). rewrite hat_on_grid, Nat.eqb_refl by assumption. lra. }
  assert (B : v <= nth k (snd (rebin x y xmin xdiv xmax)) 0 <= v); [|lra].
  apply rebin_between; try assumption.
  intros p Hp Hr Hh. destruct (HG p Hp Hr) as [j Ej].
  assert (Hh' : 0 < hat (gridpt xmin xdiv k) xdiv (fst p)) by (apply hat_pos_iff; assumption).
  rewrite Ej in Hh'. fold (gridpt xmin xdiv j) in Hh'. rewrite hat_on_grid in Hh' by assumption.
  destruct (Nat.eqb_spec k j) as [E|E]; [|lra]. subst j.
  rewrite (HV p Hp Ej). lra.
Qed.

(* data given on the output grid itself come back unchanged *)
Theorem rebin_grid_data_unchanged : forall (y : list R) (xmin xdiv xmax : R),
  0 < xdiv -> xmin <= xmax -> length y = numpts xmin xdiv xmax ->
  snd (rebin (rebin_grid xmin xdiv xmax) y xmin xdiv xmax) = y.
Proof.
  intros y xmin xdiv xmax Hd Hm Ly.
  set (g := rebin_grid xmin xdiv xmax).
  assert (Lg : length g = numpts xmin xdiv xmax) by apply rebin_grid_length.
  assert (Lc : length (combine g y) = numpts xmin xdiv xmax) by (rewrite combine_length; lia).
  assert (Hin : forall p, In p (combine g y) ->
            exists i, (i < numpts xmin xdiv xmax)%nat /\ p = (gridpt xmin xdiv i, nth i y 0)).
  { intros p Hp. destruct (In_nth _ _ (0, 0) Hp) as (i & Hi & Ei). exists i.
    rewrite Lc in Hi. split; [assumption|].
    rewrite combine_nth in Ei by lia. unfold g in Ei. rewrite rebin_grid_nth in Ei by assumption.
    symmetry. exact Ei. }
  apply (nth_ext _ _ 0 0); [rewrite rebin_snd_length by assumption; lia|].
  intros k Hk. rewrite rebin_snd_length in Hk by assumption.
  apply rebin_identity_on_grid; try assumption.
  - intros p Hp _. destruct (Hin p Hp) as (i & _ & ->). exists i. reflexivity.
  - intros p Hp Ep. destruct (Hin p Hp) as (i & _ & ->). cbn [fst snd] in *.
    apply (gridpt_inj xmin xdiv i k Hd) in Ep. subst. reflexivity.
  - exists (nth k (combine g y) (0, 0)). split; [apply nth_In; lia|].
    rewrite combine_nth by lia. cbn [fst]. unfold g. rewrite rebin_grid_nth by assumption. reflexivity.
Qed.

(* per-bin form of rebin_constant: only bin k needs to receive data *)
Theorem rebin_constant_nth : forall (x y : list R) (xmin xdiv xmax c : R) (k : nat), 0 < xdiv ->
  (k < numpts xmin xdiv xmax)%nat ->
  (forall p, In p (combine x y) -> xmin <= fst p <= xmax -> snd p = c) ->
  0 < nsum xmin xdiv xmax k (combine x y) ->
  nth k (snd (rebin x y xmin xdiv xmax)) 0 = c.
Proof.
  intros x y xmin xdiv xmax c k Hd Hk Hc Hn.
  rewrite rebin_is_hat_average_nth by assumption.
  rewrite (ysum_const _ _ _ _ c) by assumption. field. lra.
Qed.

(* ------------------------------------------------------------------ *)
(* 6. Non-vacuity: xmin = 0, xdiv = 1, xmax = 2, x = [0; 1/2; 1; 2]    *)
(* ------------------------------------------------------------------ *)
Definition ex_x : list R := [0; 1/2; 1; 2].

Lemma ex_numpts : numpts 0 1 2 = 3%nat.
Proof.
  rewrite numpts_R. replace ((2 - 0) / 1) with 2 by field.
  rewrite (Rtrunc_unique 2 2) by lra. reflexivity.
Qed.

Ltac hat_val := unfold hat, gridpt; cbn [INR]; eval_hat.
Ltac hv k v r := replace (hat (gridpt 0 1 k) 1 v) with r by (symmetry; hat_val).
Ltac ex_inrange :=
  repeat match goal with
  | |- context [inrangeb ?a ?b ?c] =>
      replace (inrangeb a b c) with true by (symmetry; apply inrangeb_true_iff; lra)
  end.
Ltac ex_hats :=
  hv 0%nat 0 1; hv 0%nat (1/2) (1/2); hv 0%nat 1 0; hv 0%nat 2 0;
  hv 1%nat 0 0; hv 1%nat (1/2) (1/2); hv 1%nat 1 1; hv 1%nat 2 0;
  hv 2%nat 0 0; hv 2%nat (1/2) 0; hv 2%nat 1 0; hv 2%nat 2 1.

Example rebin_grid_spec_nonvacuous : forall y : list R,
  0 < 1 /\ 0 <= 2 /\ fst (rebin ex_x y 0 1 2) = [0; 1; 2].
Proof.
  intros y. split; [lra|split; [lra|]].
  rewrite rebin_fst, rebin_grid_eq, ex_numpts. cbn [seq map]. unfold gridpt. cbn [INR].
  repeat (f_equal; try lra).
Qed.

Lemma ex_sums (y0 y1 y2 y3 : R) :
  let l := combine ex_x [y0; y1; y2; y3] in
  (ysum 0 1 2 0 l = y0 + y1 / 2 /\ nsum 0 1 2 0 l = 3 / 2) /\
  (ysum 0 1 2 1 l = y1 / 2 + y2 /\ nsum 0 1 2 1 l = 3 / 2) /\
  (ysum 0 1 2 2 l = y3 /\ nsum 0 1 2 2 l = 1).
Proof.
  unfold ex_x, ysum, nsum. cbn [combine map fold_right fst snd].
  ex_inrange. ex_hats. repeat split; lra.
Qed.

(* the hat-weighted average, computed: three bins, four points *)
Example rebin_is_hat_average_nonvacuous : forall y0 y1 y2 y3 : R,
  snd (rebin ex_x [y0; y1; y2; y3] 0 1 2) =
  [ (y0 + y1 / 2) / (3 / 2); (y1 / 2 + y2) / (3 / 2); y3 ].
Proof.
  intros. rewrite rebin_is_hat_average by lra. rewrite ex_numpts. cbn [seq map].
  destruct (ex_sums y0 y1 y2 y3) as ((A0 & B0) & (A1 & B1) & (A2 & B2)). cbn zeta in *.
  rewrite A0, B0, A1, B1, A2, B2. repeat (f_equal; try lra).
Qed.

Example all_bins_fed_nonvacuous : forall y0 y1 y2 y3 : R,
  all_bins_fed ex_x [y0; y1; y2; y3] 0 1 2.
Proof.
  intros y0 y1 y2 y3 k Hk. rewrite ex_numpts in Hk.
  destruct (ex_sums y0 y1 y2 y3) as ((_ & B0) & (_ & B1) & (_ & B2)). cbn zeta in *.
  destruct k as [|[|[|k]]]; try lia; [rewrite B0|rewrite B1|rewrite B2]; lra.
Qed.

Example rebin_constant_nonvacuous : forall c : R,
  0 < 1 /\
  (forall p, In p (combine ex_x [c; c; c; c]) -> 0 <= fst p <= 2 -> snd p = c) /\
  all_bins_fed ex_x [c; c; c; c] 0 1 2 /\
  snd (rebin ex_x [c; c; c; c] 0 1 2) = [c; c; c].
Proof.
  intros c. split; [lra|]. split; [|split; [apply all_bins_fed_nonvacuous|]].
  - intros p Hp _. cbn in Hp. repeat (destruct Hp as [<-|Hp]; [reflexivity|]). destruct Hp.
  - rewrite rebin_is_hat_average_nonvacuous. repeat (f_equal; try lra).
Qed.

Example rebin_linear_nonvacuous : forall a b : R,
  snd (rebin ex_x (map2 (fun u v => a * u + b * v) [1; 2; 3; 4] [0; 1; 0; 1]) 0 1 2) =
  map2 (fun u v => a * u + b * v) [ (1 + 2 / 2) / (3 / 2); (2 / 2 + 3) / (3 / 2); 4 ]
                                  [ (0 + 1 / 2) / (3 / 2); (1 / 2 + 0) / (3 / 2); 1 ].
Proof.
  intros a b. rewrite rebin_linear by (try reflexivity; lra).
  rewrite !rebin_is_hat_average_nonvacuous. reflexivity.
Qed.

Example rebin_between_nonvacuous :
  (0 < numpts 0%R 1%R 2%R)%nat /\ 0 < nsum 0 1 2 0 (combine ex_x [1; 3; 5; 7]) /\
  (forall p, In p (combine ex_x [1; 3; 5; 7]) -> 0 <= fst p <= 2 ->
             Rabs (fst p - (0 + INR 0 * 1)) < 1 -> 1 <= snd p <= 3) /\
  nth 0 (snd (rebin ex_x [1; 3; 5; 7] 0 1 2)) 0 = 5 / 3.
Proof.
  split; [rewrite ex_numpts; lia|].
  split; [apply all_bins_fed_nonvacuous; rewrite ex_numpts; lia|]. split.
  - intros p Hp _ Ha. cbn in Hp.
    destruct Hp as [<-|[<-|[<-|[<-|[]]]]]; cbn [fst snd INR] in *; try lra;
      revert Ha; unfold Rabs; destruct (Rcase_abs _); lra.
  - rewrite rebin_is_hat_average_nonvacuous. cbn [nth]. field.
Qed.

(* unordered input sitting on grid nodes (and one point out of range) *)
Example rebin_identity_on_grid_nonvacuous : forall a b c d : R,
  let x := [2; 0; 1; 5] in let y := [a; b; c; d] in
  (1 < numpts 0%R 1%R 2%R)%nat /\
  (forall p, In p (combine x y) -> 0 <= fst p <= 2 -> exists j : nat, fst p = 0 + INR j * 1) /\
  (forall p, In p (combine x y) -> fst p = 0 + INR 1 * 1 -> snd p = c) /\
  (exists p, In p (combine x y) /\ fst p = 0 + INR 1 * 1).
Proof.
  intros a b c d x y. split; [rewrite ex_numpts; lia|]. split; [|split].
  - intros p Hp Hr. cbn in Hp. destruct Hp as [<-|[<-|[<-|[<-|[]]]]]; cbn [fst] in *.
    + exists 2%nat. cbn [INR]. lra.
    + exists 0%nat. cbn [INR]. lra.
    + exists 1%nat. cbn [INR]. lra.
    + lra.
  - intros p Hp E. cbn in Hp. destruct Hp as [<-|[<-|[<-|[<-|[]]]]]; cbn [fst snd INR] in *;
      try reflexivity; lra.
  - exists (1, c). split; [cbn; tauto|]. cbn [fst INR]. lra.
Qed.

Example rebin_grid_data_unchanged_nonvacuous : forall a b c : R,
  snd (rebin (rebin_grid 0 1 2) [a; b; c] 0 1 2) = [a; b; c].
Proof. intros. apply rebin_grid_data_unchanged; [lra|lra|rewrite ex_numpts; reflexivity]. Qed.

Example rebin_perm_nonvacuous : forall a b c : R,
  Permutation (combine [0; 1; 2] [a; b; c]) (combine [1; 0; 2] [b; a; c]) /\
  rebin [0; 1; 2] [a; b; c] 0 1 2 = rebin [1; 0; 2] [b; a; c] 0 1 2.
Proof.
  intros. assert (P : Permutation (combine [0; 1; 2] [a; b; c]) (combine [1; 0; 2] [b; a; c]))
    by (cbn [combine]; apply perm_swap).
  split; [exact P|]. apply rebin_perm; [lra|exact P].
Qed.

Example hat_weights_nonvacuous :
  let b := Z.to_nat (Rtrunc ((1 / 2 - 0) / 1)) in
  b = 0%nat /\ hat (0 + INR b * 1) 1 (1 / 2) = 1 / 2 /\ hat (0 + INR (S b) * 1) 1 (1 / 2) = 1 / 2.
Proof.
  assert (E : Z.to_nat (Rtrunc ((1 / 2 - 0) / 1)) = 0%nat).
  { rewrite (Rtrunc_unique _ 0); [reflexivity|lra|lra]. }
  cbn zeta. rewrite E. split; [reflexivity|]. cbn [INR]. split; unfold hat; eval_hat.
Qed.
