(* LowRP.v -- lemmas about LowRM over the reals. *)
From Coq Require Import List Reals Bool Lra.
From PyStoG Require Import Num NumR LowRM.
Import ListNotations.
Open Scope R_scope.

Lemma fold_add_acc : forall (l : list R) (a : R), fold_left Rplus l a = a + fold_left Rplus l 0.
Proof.
  induction l as [|x l IH]; intros a; cbn [fold_left]; [lra|].
  rewrite (IH (a + x)), (IH (0 + x)). lra.
Qed.

Lemma sum_l_nil : sum_l (A:=R) [] = 0.
Proof. reflexivity. Qed.

Lemma sum_l_cons : forall (x : R) l, sum_l (x :: l) = x + sum_l l.
Proof.
  intros x l. unfold sum_l. cbn [fold_left]. numR. rewrite fold_add_acc. lra.
Qed.

Lemma squares_nil : squares (A:=R) [] = [].
Proof. reflexivity. Qed.

Lemma squares_cons : forall (y : R) g, squares (y :: g) = (y * y) :: squares g.
Proof. reflexivity. Qed.

Lemma sum_squares_nonneg : forall g : list R, 0 <= sum_l (squares g).
Proof.
  induction g as [|y g IH]; [rewrite squares_nil, sum_l_nil; lra|].
  rewrite squares_cons, sum_l_cons. pose proof (Rle_0_sqr y) as Hy. unfold Rsqr in Hy. lra.
Qed.

Lemma sum_squares_zero : forall g : list R, sum_l (squares g) = 0 <-> Forall (fun y => y = 0) g.
Proof.
  induction g as [|y g IH]; [split; [constructor|reflexivity]|].
  rewrite squares_cons, sum_l_cons. pose proof (Rle_0_sqr y) as Hy. unfold Rsqr in Hy.
  pose proof (sum_squares_nonneg g) as Hg. split.
  - intros E. assert (Hyy : y * y = 0) by lra. assert (Hgg : sum_l (squares g) = 0) by lra.
    constructor; [|apply IH; exact Hgg].
    destruct (Rmult_integral _ _ Hyy); assumption.
  - intros F. inversion F as [|? ? Hy0 Hg0]; subst. apply IH in Hg0. rewrite Hg0. lra.
Qed.

Lemma mask_le_cons : forall (lim x y : R) r g,
  mask_le lim (x :: r) (y :: g) = if Rleb x lim then y :: mask_le lim r g else mask_le lim r g.
Proof. reflexivity. Qed.

Lemma mask_le_scale : forall (c lim : R) r g, mask_le lim r (map (Rmult c) g) = map (Rmult c) (mask_le lim r g).
Proof.
  intros c lim. induction r as [|x r IH]; intros [|y g]; try reflexivity.
  cbn [map]. rewrite !mask_le_cons. destruct (Rleb x lim); cbn [map]; rewrite IH; reflexivity.
Qed.

Lemma sum_squares_scale : forall (c : R) g, sum_l (squares (map (Rmult c) g)) = (c * c) * sum_l (squares g).
Proof.
  intros c. induction g as [|y g IH]; [cbn [map]; rewrite squares_nil, sum_l_nil; lra|].
  cbn [map]. rewrite !squares_cons, !sum_l_cons, IH. numR. lra.
Qed.

Lemma lowr_nonneg : forall r g lim : _, 0 <= lowr_mean_square (A:=R) r g lim.
Proof. intros. unfold lowr_mean_square. numR. apply sqrt_pos. Qed.

Lemma lowr_square : forall r g (lim : R),
  lowr_mean_square r g lim * lowr_mean_square r g lim = sum_l (squares (mask_le lim r g)).
Proof. intros. unfold lowr_mean_square. numR. apply sqrt_sqrt. apply sum_squares_nonneg. Qed.

Lemma lowr_homogeneous : forall (c : R) r g lim,
  lowr_mean_square r (map (Rmult c) g) lim = Rabs c * lowr_mean_square r g lim.
Proof.
  intros. unfold lowr_mean_square. numR. rewrite mask_le_scale, sum_squares_scale.
  rewrite sqrt_mult_alt; [|apply Rle_0_sqr]. f_equal. apply sqrt_Rsqr_abs.
Qed.

Lemma lowr_zero_iff : forall r g (lim : R),
  lowr_mean_square r g lim = 0 <-> Forall (fun y => y = 0) (mask_le lim r g).
Proof.
  intros. rewrite <- sum_squares_zero. unfold lowr_mean_square. numR. split.
  - intros E. apply sqrt_eq_0; [apply sum_squares_nonneg|exact E].
  - intros E. rewrite E. apply sqrt_0.
Qed.

(* entries beyond the limit cannot influence the value *)
Inductive agree_in (lim : R) : list R -> list R -> list R -> Prop :=
| agree_nil : agree_in lim [] [] []
| agree_cons : forall x r y y' g g', (x <= lim -> y = y') -> agree_in lim r g g' -> agree_in lim (x :: r) (y :: g) (y' :: g').

Lemma mask_le_agree : forall lim r g g', agree_in lim r g g' -> mask_le lim r g = mask_le lim r g'.
Proof.
  intros lim r g g' Hag. induction Hag as [|x r y y' g g' Hy _ IH]; [reflexivity|].
  rewrite !mask_le_cons. destruct (Rleb_spec x lim) as [Hle|Hgt]; [rewrite (Hy Hle), IH; reflexivity|exact IH].
Qed.

Lemma lowr_ignores_beyond_limit : forall lim r g g', agree_in lim r g g' ->
  lowr_mean_square r g lim = lowr_mean_square r g' lim.
Proof. intros lim r g g' Hag. unfold lowr_mean_square. rewrite (mask_le_agree _ _ _ _ Hag). reflexivity. Qed.

(* a larger limit can only add squares *)
Lemma sum_squares_mask_mono : forall (l1 l2 : R), l1 <= l2 -> forall r g,
  sum_l (squares (mask_le l1 r g)) <= sum_l (squares (mask_le l2 r g)).
Proof.
  intros l1 l2 Hl. induction r as [|x r IH]; intros [|y g]; try (cbn [mask_le]; rewrite squares_nil, sum_l_nil; lra).
  rewrite !mask_le_cons. specialize (IH g). pose proof (Rle_0_sqr y) as Hy. unfold Rsqr in Hy.
  destruct (Rleb_spec x l1) as [H1|H1]; destruct (Rleb_spec x l2) as [H2|H2];
    rewrite ?squares_cons, ?sum_l_cons; try lra.
Qed.

Lemma lowr_monotone_in_limit : forall (l1 l2 : R) r g, l1 <= l2 ->
  lowr_mean_square r g l1 <= lowr_mean_square r g l2.
Proof.
  intros l1 l2 r g Hl. unfold lowr_mean_square. numR. apply sqrt_le_1_alt. apply sum_squares_mask_mono; exact Hl.
Qed.

Lemma mask_le_all : forall (lim : R) r g, Forall (fun x => x <= lim) r -> length r = length g -> mask_le lim r g = g.
Proof.
  intros lim. induction r as [|x r IH]; intros [|y g] Hall Hlen; try reflexivity; try discriminate.
  inversion Hall as [|? ? Hx Hr]; subst. rewrite mask_le_cons, (Rleb_true _ _ Hx), (IH g Hr); [reflexivity|].
  cbn [length] in Hlen. congruence.
Qed.

Lemma lowr_whole_curve : forall (lim : R) r g, Forall (fun x => x <= lim) r -> length r = length g ->
  lowr_mean_square r g lim = R_sqrt.sqrt (sum_l (squares g)).
Proof. intros lim r g Hall Hlen. unfold lowr_mean_square. rewrite (mask_le_all _ _ _ Hall Hlen). reflexivity. Qed.

Lemma mask_le_none : forall (lim : R) r g, Forall (fun x => lim < x) r -> mask_le lim r g = [].
Proof.
  intros lim. induction r as [|x r IH]; intros [|y g] Hall; try reflexivity.
  inversion Hall as [|? ? Hx Hr]; subst. rewrite mask_le_cons, Rleb_false; [apply IH; exact Hr|lra].
Qed.

Lemma lowr_empty_window : forall (lim : R) r g, Forall (fun x => lim < x) r -> lowr_mean_square r g lim = 0.
Proof.
  intros lim r g Hall. unfold lowr_mean_square. rewrite (mask_le_none _ _ _ Hall).
  rewrite squares_nil, sum_l_nil. numR. apply sqrt_0.
Qed.

Lemma get_lowr_is_library_call : forall dr g : list R,
  get_lowr_mean_square dr g = lowr_mean_square dr g (101 / 100).
Proof. reflexivity. Qed.

Lemma lowr_square_is_sum : forall r g (lim : R),
  0 <= lowr_mean_square r g lim /\
  lowr_mean_square r g lim * lowr_mean_square r g lim = sum_l (squares (mask_le lim r g)).
Proof. intros; split; [apply lowr_nonneg | apply lowr_square]. Qed.

(* the boundary point r = limit is inside (closed bound), the one beyond is not: sqrt(3^2 + 4^2) = 5 *)
Lemma lowr_closed_bound : lowr_mean_square [0; 1; 2] [3; 4; 12] 1 = 5.
Proof.
  unfold lowr_mean_square. rewrite !mask_le_cons.
  rewrite (Rleb_true 0 1), (Rleb_true 1 1), (Rleb_false 2 1) by lra.
  cbn [mask_le]. rewrite !squares_cons, squares_nil, !sum_l_cons, sum_l_nil. numR.
  replace (3 * 3 + (4 * 4 + 0)) with (5 * 5) by lra. apply sqrt_square. lra.
Qed.
