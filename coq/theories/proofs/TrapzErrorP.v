(* TrapzErrorP.v -- the "to discretisation accuracy" clause of C01 as a theorem:
   the model's trapezoid rule (TransformerM.trapz, at the real numbers) on a
   uniform grid converges to the integral at second order,
       | Int_a^b f  -  trapz |  <=  (b - a) h^2 max|f''| / 12 ,
   hence so do the plain sine transforms G_to_F / F_to_G; and the hypotheses are
   met by the closed-form family member G(r) = r exp(-r^2) of AnchorsP.v. *)
From PyStoG Require Import Num NumR ConverterM TransformerM.
From PyStoG.proofs Require Import VecLib ConverterP DstP RoundTripP AnchorsP.
(* Reals is imported after the model so that sin, cos, sqrt, exp are the real functions here *)
From Coq Require Import List Reals Lra Lia.
From Coquelicot Require Import Coquelicot.
From Interval Require Import Tactic.
Import ListNotations.
Open Scope R_scope.

(* ---------- vocabulary of the statements ---------- *)
(* f is twice differentiable at every point of [a,b], with continuous second derivative there *)
Definition C2_on (f : R -> R) (a b : R) : Prop :=
  forall x, a <= x <= b ->
    ex_derive f x /\ ex_derive (Derive f) x /\ continuous (Derive_n f 2) x.
(* the uniform grid a, a+h, ..., a+n h *)
Definition ugrid (a h : R) (n : nat) : list R := map (fun j => a + INR j * h) (seq 0 (S n)).

Ltac eqR := match goal with |- ?x = ?y => change (@eq R x y) end.

Lemma C2_on_sub f a b c d : a <= c -> d <= b -> C2_on f a b -> C2_on f c d.
Proof. intros H1 H2 HC x Hx. apply HC. lra. Qed.

Lemma C2_on_continuous f a b x : C2_on f a b -> a <= x <= b -> continuous f x.
Proof.
  intros HC Hx. destruct (HC x Hx) as (D1 & _).
  apply (@ex_derive_continuous R_AbsRing R_NormedModule). exact D1.
Qed.
Lemma C2_on_ex_RInt f a b : a <= b -> C2_on f a b -> ex_RInt f a b.
Proof.
  intros Hab HC. apply (ex_RInt_continuous (V:=R_CompleteNormedModule)).
  intros x Hx. rewrite Rmin_left, Rmax_right in Hx by lra. eapply C2_on_continuous; eauto.
Qed.

(* ---------- one panel ---------- *)
(* the Peano kernel K(x) = (x-a)(b-x)/2 >= 0 on [a,b], Int_a^b K = (b-a)^3/12 *)
Lemma kernel_integral (a b M : R) :
  is_RInt (fun x => M * ((x - a) * (b - x) / 2)) a b (M * (b - a) ^ 3 / 12).
Proof.
  replace (M * (b - a) ^ 3 / 12)
    with (minus ((fun x => M * ((b - a) * (x - a) ^ 2 / 4 - (x - a) ^ 3 / 6)) b)
                ((fun x => M * ((b - a) * (x - a) ^ 2 / 4 - (x - a) ^ 3 / 6)) a)).
  - apply (is_RInt_derive (fun x => M * ((b - a) * (x - a) ^ 2 / 4 - (x - a) ^ 3 / 6))).
    + intros x _. auto_derive; [auto | field].
    + intros x _. apply (@ex_derive_continuous R_AbsRing R_NormedModule). auto_derive; auto.
  - unfold minus, plus, opp; simpl. field.
Qed.

(* two integrations by parts in one step:
   d/dx [ K f' - K' f ] = K f'' + f,   K' = (a+b-2x)/2, K'' = -1 *)
Lemma panel_identity (f : R -> R) (a b : R) : a <= b -> C2_on f a b ->
  is_RInt (fun x => (x - a) * (b - x) / 2 * Derive_n f 2 x + f x) a b ((b - a) * (f a + f b) / 2).
Proof.
  intros Hab HC.
  set (F := fun x => (x - a) * (b - x) / 2 * Derive f x - (a + b - 2 * x) / 2 * f x).
  replace ((b - a) * (f a + f b) / 2) with (minus (F b) (F a)).
  2:{ unfold F, minus, plus, opp; simpl. field. }
  apply (is_RInt_derive F).
  - intros x Hx. rewrite Rmin_left, Rmax_right in Hx by lra.
    destruct (HC x Hx) as (D1 & D2 & _).
    unfold F. auto_derive.
    + repeat split; assumption.
    + change (Derive_n f 2 x) with (Derive (Derive f) x).
      change (fun x0 : R => f x0) with f.
      change (fun x0 : R => Derive f x0) with (Derive f).
      field.
  - intros x Hx. rewrite Rmin_left, Rmax_right in Hx by lra.
    destruct (HC x Hx) as (D1 & D2 & D3).
    apply (continuous_plus (V:=R_NormedModule)).
    + apply (continuous_mult (K:=R_AbsRing)).
      * apply (@ex_derive_continuous R_AbsRing R_NormedModule). auto_derive; auto.
      * exact D3.
    + apply (@ex_derive_continuous R_AbsRing R_NormedModule). exact D1.
Qed.

Theorem trapz_panel_error_ab (f : R -> R) (a b M : R) :
  a <= b -> C2_on f a b ->
  (forall x, a <= x <= b -> Rabs (Derive_n f 2 x) <= M) ->
  Rabs (RInt f a b - (b - a) * (f a + f b) / 2) <= M * (b - a) ^ 3 / 12.
Proof.
  intros Hab HC HM.
  pose proof (panel_identity f a b Hab HC) as HI.
  pose proof (C2_on_ex_RInt f a b Hab HC) as Ef.
  set (g := fun x => (x - a) * (b - x) / 2 * Derive_n f 2 x) in *.
  assert (Eg : ex_RInt g a b).
  { apply (ex_RInt_continuous (V:=R_CompleteNormedModule)).
    intros x Hx. rewrite Rmin_left, Rmax_right in Hx by lra.
    destruct (HC x Hx) as (D1 & D2 & D3). unfold g.
    apply (continuous_mult (K:=R_AbsRing)).
    - apply (@ex_derive_continuous R_AbsRing R_NormedModule). auto_derive; auto.
    - exact D3. }
  assert (HP : RInt g a b + RInt f a b = (b - a) * (f a + f b) / 2).
  { assert (HS : is_RInt (fun x => g x + f x) a b (RInt g a b + RInt f a b)).
    { apply (is_RInt_plus (V:=R_NormedModule)); apply (RInt_correct (V:=R_CompleteNormedModule)); assumption. }
    apply (is_RInt_unique (V:=R_CompleteNormedModule)) in HS.
    apply (is_RInt_unique (V:=R_CompleteNormedModule)) in HI.
    etransitivity; [symmetry; exact HS | exact HI]. }
  replace (RInt f a b - (b - a) * (f a + f b) / 2) with (- RInt g a b) by (rewrite <- HP; ring).
  rewrite Rabs_Ropp.
  pose proof (kernel_integral a b M) as KM.
  pose proof (kernel_integral a b (- M)) as KN.
  assert (Hg : forall x, a < x < b ->
     - M * ((x - a) * (b - x) / 2) <= g x <= M * ((x - a) * (b - x) / 2)).
  { intros x Hx. unfold g.
    assert (HK : 0 <= (x - a) * (b - x) / 2).
    { apply Rmult_le_pos; [apply Rmult_le_pos|]; lra. }
    assert (Hx' : a <= x <= b) by lra.
    pose proof (HM x Hx') as HMx. apply Rabs_le_between in HMx.
    set (K := (x - a) * (b - x) / 2) in *. set (d := Derive_n f 2 x) in *.
    split.
    - replace (- M * K) with (K * - M) by ring. apply Rmult_le_compat_l; lra.
    - rewrite (Rmult_comm M K). apply Rmult_le_compat_l; lra. }
  apply Rabs_le. split.
  - replace (- (M * (b - a) ^ 3 / 12)) with (- M * (b - a) ^ 3 / 12) by lra.
    rewrite <- (is_RInt_unique (V:=R_CompleteNormedModule) _ _ _ _ KN).
    apply RInt_le; [exact Hab | eexists; exact KN | exact Eg | intros x Hx; apply (Hg x Hx)].
  - rewrite <- (is_RInt_unique (V:=R_CompleteNormedModule) _ _ _ _ KM).
    apply RInt_le; [exact Hab | exact Eg | eexists; exact KM | intros x Hx; apply (Hg x Hx)].
Qed.

(* the requested form, on [a, a+h] *)
Theorem trapz_panel_error (f : R -> R) (a h M : R) :
  0 <= h -> C2_on f a (a + h) ->
  (forall x, a <= x <= a + h -> Rabs (Derive_n f 2 x) <= M) ->
  Rabs (RInt f a (a + h) - h * (f a + f (a + h)) / 2) <= M * h ^ 3 / 12.
Proof.
  intros Hh HC HM.
  pose proof (trapz_panel_error_ab f a (a + h) M ltac:(lra) HC HM) as E.
  replace (a + h - a) with h in E by ring. exact E.
Qed.

(* ---------- the model's trapz on a uniform grid ---------- *)
Lemma ugrid_head a h n : ugrid a h n = a :: map (fun j => a + INR j * h) (seq 1 n).
Proof. unfold ugrid. cbn [seq map INR]. f_equal. lra. Qed.
Lemma ugrid_S a h n : ugrid a h (S n) = a :: ugrid (a + h) h n.
Proof.
  rewrite ugrid_head. f_equal. unfold ugrid.
  rewrite <- seq_shift, map_map. apply map_ext. intros j. rewrite S_INR. lra.
Qed.
Lemma trapz_ugrid_S (f : R -> R) a h n :
  trapz (ugrid a h (S n)) (map f (ugrid a h (S n)))
  = h * (f a + f (a + h)) / 2 + trapz (ugrid (a + h) h n) (map f (ugrid (a + h) h n)).
Proof.
  rewrite ugrid_S. rewrite (ugrid_head (a + h)). cbn [map]. rewrite trapz_cons2. lra.
Qed.

Theorem trapz_uniform_error (f : R -> R) (a h M : R) (n : nat) :
  0 < h -> C2_on f a (a + INR n * h) ->
  (forall x, a <= x <= a + INR n * h -> Rabs (Derive_n f 2 x) <= M) ->
  Rabs (RInt f a (a + INR n * h) - trapz (ugrid a h n) (map f (ugrid a h n)))
    <= M * INR n * h ^ 3 / 12.
Proof.
  intros Hh. revert a. induction n as [|n IH]; intros a HC HM.
  - cbn [INR]. rewrite Rmult_0_l, Rplus_0_r, RInt_point.
    unfold ugrid. cbn [seq map]. rewrite trapz_single_l.
    unfold zero; simpl. rewrite Rminus_0_r, Rabs_R0. lra.
  - pose proof (pos_INR n) as Hn.
    assert (Hnh : 0 <= INR n * h) by (apply Rmult_le_pos; lra).
    rewrite S_INR in *.
    replace (a + (INR n + 1) * h) with (a + h + INR n * h) in * by ring.
    assert (C1 : C2_on f a (a + h)) by (apply (C2_on_sub f a (a + h + INR n * h)); [lra|lra|exact HC]).
    assert (C2 : C2_on f (a + h) (a + h + INR n * h))
      by (apply (C2_on_sub f a (a + h + INR n * h)); [lra|lra|exact HC]).
    pose proof (trapz_panel_error f a h M ltac:(lra) C1 ltac:(intros x Hx; apply HM; lra)) as P1.
    pose proof (IH (a + h) C2 ltac:(intros x Hx; apply HM; lra)) as P2.
    assert (E1 : ex_RInt f a (a + h)) by (apply C2_on_ex_RInt; [lra | exact C1]).
    assert (E2 : ex_RInt f (a + h) (a + h + INR n * h)) by (apply C2_on_ex_RInt; [lra | exact C2]).
    pose proof (RInt_Chasles f a (a + h) (a + h + INR n * h) E1 E2) as Ch.
    unfold plus in Ch; simpl in Ch.
    rewrite trapz_ugrid_S, <- Ch.
    match goal with |- Rabs ?e <= _ =>
      replace e with ((RInt f a (a + h) - h * (f a + f (a + h)) / 2)
        + (RInt f (a + h) (a + h + INR n * h)
           - trapz (ugrid (a + h) h n) (map f (ugrid (a + h) h n)))) by ring end.
    eapply Rle_trans; [apply Rabs_triang|]. lra.
Qed.

(* ---------- the plain sine transforms ---------- *)
Lemma rgrid_ugrid N dr : rgrid N dr = ugrid 0 dr N.
Proof. unfold rgrid, ugrid. apply map_ext. intros j. lra. Qed.
Lemma kernel_map (G : R -> R) (Q : R) (xs : list R) :
  map2 (fun yj xj => yj * sin (xj * Q)) (map G xs) xs = map (fun r => G r * sin (r * Q)) xs.
Proof. induction xs as [|x xs IH]; [reflexivity|]. cbn [map map2]. rewrite IH. reflexivity. Qed.

(* the single value of the model's plain transform of sampled data is the trapezoid rule
   applied to the integrand r |-> G r sin(r Q) *)
Lemma ft_sampled_value (G : R -> R) (N : nat) (dr Q : R) dg (k : kw R) : plain k ->
  nth 0 (vals (fourier_transform (rgrid N dr) (map G (rgrid N dr)) [Q] None None dg k)) 0
  = trapz (ugrid 0 dr N) (map (fun r => G r * sin (r * Q)) (ugrid 0 dr N)).
Proof.
  intros Hk. rewrite ft_plain_is_ft_spike; [|exact Hk|apply map_length].
  cbn [map nth]. rewrite kernel_map, rgrid_ugrid. reflexivity.
Qed.

(* r -> Q:  | Int_0^L G(r) sin(rQ) dr - G_to_F |  <=  M L dr^2 / 12,   L = N dr *)
Theorem G_to_F_converges (G : R -> R) (N : nat) (dr Q M : R) dg (k : kw R) :
  plain k -> 0 < dr ->
  C2_on (fun r => G r * sin (r * Q)) 0 (INR N * dr) ->
  (forall r, 0 <= r <= INR N * dr -> Rabs (Derive_n (fun r => G r * sin (r * Q)) 2 r) <= M) ->
  Rabs (RInt (fun r => G r * sin (r * Q)) 0 (INR N * dr)
        - nth 0 (vals (G_to_F (rgrid N dr) (map G (rgrid N dr)) [Q] dg k)) 0)
    <= M * (INR N * dr) * dr ^ 2 / 12.
Proof.
  intros Hk Hdr HC HM. rewrite G_to_F_eq, ft_sampled_value by exact Hk.
  pose proof (trapz_uniform_error (fun r => G r * sin (r * Q)) 0 dr M N Hdr) as E.
  rewrite Rplus_0_l in E. specialize (E HC HM).
  replace (M * (INR N * dr) * dr ^ 2 / 12) with (M * INR N * dr ^ 3 / 12) by ring.
  exact E.
Qed.

(* Q -> r:  | (2/pi) Int_0^L F(q) sin(q r) dq - F_to_G |  <=  (2/pi) M L dq^2 / 12,   L = N dq
   (rgrid N dq is the uniform grid j dq, j = 0..N, here used for the Q axis) *)
Theorem F_to_G_converges (F : R -> R) (N : nat) (dq r M : R) df (k : kw R) :
  plain k -> 0 < dq ->
  C2_on (fun q => F q * sin (q * r)) 0 (INR N * dq) ->
  (forall q, 0 <= q <= INR N * dq -> Rabs (Derive_n (fun q => F q * sin (q * r)) 2 q) <= M) ->
  Rabs (2 / PI * RInt (fun q => F q * sin (q * r)) 0 (INR N * dq)
        - nth 0 (vals (F_to_G (rgrid N dq) (map F (rgrid N dq)) [r] df k)) 0)
    <= 2 / PI * (M * (INR N * dq) * dq ^ 2 / 12).
Proof.
  intros Hk Hdq HC HM. pose proof PI_RGT_0 as Hpi.
  rewrite F_to_G_vals.
  rewrite (nth_map_lt _ _ _ 0).
  2:{ rewrite ft_plain_is_ft_spike by (first [exact Hk | apply map_length]). cbn. lia. }
  rewrite ft_sampled_value by exact Hk.
  pose proof (trapz_uniform_error (fun q => F q * sin (q * r)) 0 dq M N Hdq) as E.
  rewrite Rplus_0_l in E. specialize (E HC HM).
  match goal with |- Rabs (_ * ?I - ?T * _) <= _ =>
    replace (2 / PI * I - T * (2 / PI)) with (2 / PI * (I - T)) by ring end.
  rewrite Rabs_mult, (Rabs_pos_eq (2 / PI)).
  2:{ apply Rlt_le, Rdiv_lt_0_compat; lra. }
  apply Rmult_le_compat_l; [apply Rlt_le, Rdiv_lt_0_compat; lra|].
  replace (M * (INR N * dq) * dq ^ 2 / 12) with (M * INR N * dq ^ 3 / 12) by ring.
  exact E.
Qed.
