(* TrapzErrorP.v -- the "to discretisation accuracy" clause of C01 as a theorem:
   the model's trapezoid rule (TransformerM.trapz, at the real numbers) on a
   uniform grid converges to the integral at second order,
       | Int_a^b f  -  trapz |  <=  (b - a) h^2 max|f''| / 12 ,
   hence so do the plain sine transforms G_to_F / F_to_G; and the hypotheses are
   met by the closed-form family member G(r) = r exp(-r^2) of AnchorsP.v. *)
From PyStoG Require Import Num NumR ConverterM TransformerM.
From PyStoG.proofs Require Import VecLib ConverterP DstP RoundTripP AnchorsP.
(* Reals is imported after the model so that sin, cos, sqrt, exp are the real functions here *)
From Coq Require Import List Reals Lra Lia.
From Coquelicot Require Import Coquelicot.
From Interval Require Import Tactic.
Import ListNotations.
Open Scope R_scope.

(* ---------- vocabulary of the statements ---------- *)
(* f is twice differentiable at every point of [a,b], with continuous second derivative there *)
Definition C2_on (f : R -> R) (a b : R) : Prop :=
  forall x, a <= x <= b ->
    ex_derive f x /\ ex_derive (Derive f) x /\ continuous (Derive_n f 2) x.
(* the uniform grid a, a+h, ..., a+n h *)
Definition ugrid (a h : R) (n : nat) : list R := map (fun j => a + INR j * h) (seq 0 (S n)).

Lemma C2_on_sub f a b c d : a <= c -> d <= b -> C2_on f a b -> C2_on f c d.
Proof. intros H1 H2 HC x Hx. apply HC. lra. Qed.

Lemma C2_on_continuous f a b x : C2_on f a b -> a <= x <= b -> continuous f x.
Proof.
  intros HC Hx. destruct (HC x Hx) as (D1 & _).
  apply (@ex_derive_continuous R_AbsRing R_NormedModule). exact D1.
Qed.
Lemma C2_on_ex_RInt f a b : a <= b -> C2_on f a b -> ex_RInt f a b.
Proof.
  intros Hab HC. apply (ex_RInt_continuous (V:=R_CompleteNormedModule)).
  intros x Hx. rewrite Rmin_left, Rmax_right in Hx by lra. eapply C2_on_continuous; eauto.
Qed.

(* ---------- one panel ---------- *)
(* the Peano kernel K(x) = (x-a)(b-x)/2 >= 0 on [a,b], Int_a^b K = (b-a)^3/12 *)
Lemma kernel_integral (a b M : R) :
  is_RInt (fun x => M * ((x - a) * (b - x) / 2)) a b (M * (b - a) ^ 3 / 12).
Proof.
  replace (M * (b - a) ^ 3 / 12)
    with (minus ((fun x => M * ((b - a) * (x - a) ^ 2 / 4 - (x - a) ^ 3 / 6)) b)
                ((fun x => M * ((b - a) * (x - a) ^ 2 / 4 - (x - a) ^ 3 / 6)) a)).
  - apply (is_RInt_derive (fun x => M * ((b - a) * (x - a) ^ 2 / 4 - (x - a) ^ 3 / 6))).
    + intros x _. auto_derive; [auto | field].
    + intros x _. apply (@ex_derive_continuous R_AbsRing R_NormedModule). auto_derive; auto.
  - unfold minus, plus, opp; simpl. field.
Qed.

(* two integrations by parts in one step:
   d/dx [ K f' - K' f ] = K f'' + f,   K' = (a+b-2x)/2, K'' = -1 *)
Lemma panel_identity (f : R -> R) (a b : R) : a <= b -> C2_on f a b ->
  is_RInt (fun x => (x - a) * (b - x) / 2 * Derive_n f 2 x + f x) a b ((b - a) * (f a + f b) / 2).
Proof.
  intros Hab HC.
  set (F := fun x => (x - a) * (b - x) / 2 * Derive f x - (a + b - 2 * x) / 2 * f x).
  replace ((b - a) * (f a + f b) / 2) with (minus (F b) (F a)).
  2:{ unfold F, minus, plus, opp; simpl. field. }
  apply (is_RInt_derive F).
  - intros x Hx. rewrite Rmin_left, Rmax_right in Hx by lra.
    destruct (HC x Hx) as (D1 & D2 & _).
    unfold F. auto_derive.
    + repeat split; assumption.
    + change (Derive_n f 2 x) with (Derive (Derive f) x).
      change (fun x0 : R => f x0) with f.
      change (fun x0 : R => Derive f x0) with (Derive f).
      field.
  - intros x Hx. rewrite Rmin_left, Rmax_right in Hx by lra.
    destruct (HC x Hx) as (D1 & D2 & D3).
    apply (continuous_plus (V:=R_NormedModule)).
    + apply (continuous_mult (K:=R_AbsRing)).
      * apply (@ex_derive_continuous R_AbsRing R_NormedModule). auto_derive; auto.
      * exact D3.
    + apply (@ex_derive_continuous R_AbsRing R_NormedModule). exact D1.
Qed.

Theorem trapz_panel_error_ab (f : R -> R) (a b M : R) :
  a <= b -> C2_on f a b ->
  (forall x, a <= x <= b -> Rabs (Derive_n f 2 x) <= M) ->
  Rabs (RInt f a b - (b - a) * (f a + f b) / 2) <= M * (b - a) ^ 3 / 12.
Proof.
  intros Hab HC HM.
  pose proof (panel_identity f a b Hab HC) as HI.
  pose proof (C2_on_ex_RInt f a b Hab HC) as Ef.
  set (g := fun x => (x - a) * (b - x) / 2 * Derive_n f 2 x) in *.
  assert (Eg : ex_RInt g a b).
  { apply (ex_RInt_continuous (V:=R_CompleteNormedModule)).
    intros x Hx. rewrite Rmin_left, Rmax_right in Hx by lra.
    destruct (HC x Hx) as (D1 & D2 & D3). unfold g.
    apply (continuous_mult (K:=R_AbsRing)).
    - apply (@ex_derive_continuous R_AbsRing R_NormedModule). auto_derive; auto.
    - exact D3. }
  assert (HP : RInt g a b + RInt f a b = (b - a) * (f a + f b) / 2).
  { assert (HS : is_RInt (fun x => g x + f x) a b (RInt g a b + RInt f a b)).
    { apply (is_RInt_plus (V:=R_NormedModule)); apply (RInt_correct (V:=R_CompleteNormedModule)); assumption. }
    apply (is_RInt_unique (V:=R_CompleteNormedModule)) in HS.
    apply (is_RInt_unique (V:=R_CompleteNormedModule)) in HI.
    etransitivity; [symmetry; exact HS | exact HI]. }
  replace (RInt f a b - (b - a) * (f a + f b) / 2) with (- RInt g a b) by (rewrite <- HP; ring).
  rewrite Rabs_Ropp.
  pose proof (kernel_integral a b M) as KM.
  pose proof (kernel_integral a b (- M)) as KN.
  assert (Hg : forall x, a < x < b ->
     - M * ((x - a) * (b - x) / 2) <= g x <= M * ((x - a) * (b - x) / 2)).
  { intros x Hx. unfold g.
    assert (HK : 0 <= (x - a) * (b - x) / 2).
    { apply Rmult_le_pos; [apply Rmult_le_pos|]; lra. }
    assert (Hx' : a <= x <= b) by lra.
    pose proof (HM x Hx') as HMx. apply Rabs_le_between in HMx.
    set (K := (x - a) * (b - x) / 2) in *. set (d := Derive_n f 2 x) in *.
    split.
    - replace (- M * K) with (K * - M) by ring. apply Rmult_le_compat_l; lra.
    - rewrite (Rmult_comm M K). apply Rmult_le_compat_l; lra. }
  apply Rabs_le. split.
  - replace (- (M * (b - a) ^ 3 / 12)) with (- M * (b - a) ^ 3 / 12) by lra.
    rewrite <- (is_RInt_unique (V:=R_CompleteNormedModule) _ _ _ _ KN).
    apply RInt_le; [exact Hab | eexists; exact KN | exact Eg | intros x Hx; apply (Hg x Hx)].
  - rewrite <- (is_RInt_unique (V:=R_CompleteNormedModule) _ _ _ _ KM).
    apply RInt_le; [exact Hab | exact Eg | eexists; exact KM | intros x Hx; apply (Hg x Hx)].
Qed.

(* the requested form, on [a, a+h] *)
Theorem trapz_panel_error (f : R -> R) (a h M : R) :
  0 <= h -> C2_on f a (a + h) ->
  (forall x, a <= x <= a + h -> Rabs (Derive_n f 2 x) <= M) ->
  Rabs (RInt f a (a + h) - h * (f a + f (a + h)) / 2) <= M * h ^ 3 / 12.
Proof.
  intros Hh HC HM.
  pose proof (trapz_panel_error_ab f a (a + h) M ltac:(lra) HC HM) as E.
  replace (a + h - a) with h in E by ring. exact E.
Qed.

(* ---------- the model's trapz on a uniform grid ---------- *)
Lemma ugrid_head a h n : ugrid a h n = a :: map (fun j => a + INR j * h) (seq 1 n).
Proof. unfold ugrid. cbn [seq map INR]. f_equal. lra. Qed.
Lemma ugrid_S a h n : ugrid a h (S n) = a :: ugrid (a + h) h n.
Proof.
  rewrite ugrid_head. f_equal. unfold ugrid.
  rewrite <- seq_shift, map_map. apply map_ext. intros j. rewrite S_INR. lra.
Qed.
Lemma trapz_ugrid_S (f : R -> R) a h n :
  trapz (ugrid a h (S n)) (map f (ugrid a h (S n)))
  = h * (f a + f (a + h)) / 2 + trapz (ugrid (a + h) h n) (map f (ugrid (a + h) h n)).
Proof.
  rewrite ugrid_S. rewrite (ugrid_head (a + h)). cbn [map]. rewrite trapz_cons2. lra.
Qed.

Theorem trapz_uniform_error (f : R -> R) (a h M : R) (n : nat) :
  0 < h -> C2_on f a (a + INR n * h) ->
  (forall x, a <= x <= a + INR n * h -> Rabs (Derive_n f 2 x) <= M) ->
  Rabs (RInt f a (a + INR n * h) - trapz (ugrid a h n) (map f (ugrid a h n)))
    <= M * INR n * h ^ 3 / 12.
Proof.
  intros Hh. revert a. induction n as [|n IH]; intros a HC HM.
  - cbn [INR]. rewrite Rmult_0_l, Rplus_0_r, RInt_point.
    unfold ugrid. cbn [seq map]. rewrite trapz_single_l.
    unfold zero; simpl. rewrite Rminus_0_r, Rabs_R0. lra.
  - pose proof (pos_INR n) as Hn.
    assert (Hnh : 0 <= INR n * h) by (apply Rmult_le_pos; lra).
    rewrite S_INR in *.
    replace (a + (INR n + 1) * h) with (a + h + INR n * h) in * by ring.
    assert (C1 : C2_on f a (a + h)) by (apply (C2_on_sub f a (a + h + INR n * h)); [lra|lra|exact HC]).
    assert (C2 : C2_on f (a + h) (a + h + INR n * h))
      by (apply (C2_on_sub f a (a + h + INR n * h)); [lra|lra|exact HC]).
    pose proof (trapz_panel_error f a h M ltac:(lra) C1 ltac:(intros x Hx; apply HM; lra)) as P1.
    pose proof (IH (a + h) C2 ltac:(intros x Hx; apply HM; lra)) as P2.
    assert (E1 : ex_RInt f a (a + h)) by (apply C2_on_ex_RInt; [lra | exact C1]).
    assert (E2 : ex_RInt f (a + h) (a + h + INR n * h)) by (apply C2_on_ex_RInt; [lra | exact C2]).
    pose proof (RInt_Chasles f a (a + h) (a + h + INR n * h) E1 E2) as Ch.
    unfold plus in Ch; simpl in Ch.
    rewrite trapz_ugrid_S, <- Ch.
    match goal with |- Rabs ?e <= _ =>
      replace e with ((RInt f a (a + h) - h * (f a + f (a + h)) / 2)
        + (RInt f (a + h) (a + h + INR n * h)
           - trapz (ugrid (a + h) h n) (map f (ugrid (a + h) h n)))) by ring end.
    eapply Rle_trans; [apply Rabs_triang|]. lra.
Qed.

(* ---------- the plain sine transforms ---------- *)
Lemma rgrid_ugrid N dr : rgrid N dr = ugrid 0 dr N.
Proof. unfold rgrid, ugrid. apply map_ext. intros j. lra. Qed.
Lemma kernel_map (G : R -> R) (Q : R) (xs : list R) :
  map2 (fun yj xj => yj * sin (xj * Q)) (map G xs) xs = map (fun r => G r * sin (r * Q)) xs.
Proof. induction xs as [|x xs IH]; [reflexivity|]. cbn [map map2]. rewrite IH. reflexivity. Qed.

(* the single value of the model's plain transform of sampled data is the trapezoid rule
   applied to the integrand r |-> G r sin(r Q) *)
Lemma ft_sampled_value (G : R -> R) (N : nat) (dr Q : R) dg (k : kw R) : plain k ->
  nth 0 (vals (fourier_transform (rgrid N dr) (map G (rgrid N dr)) [Q] None None dg k)) 0
  = trapz (ugrid 0 dr N) (map (fun r => G r * sin (r * Q)) (ugrid 0 dr N)).
Proof.
  intros Hk. rewrite ft_plain_is_ft_spike; [|exact Hk|apply map_length].
  cbn [map nth]. rewrite kernel_map, rgrid_ugrid. reflexivity.
Qed.

(* r -> Q:  | Int_0^L G(r) sin(rQ) dr - G_to_F |  <=  M L dr^2 / 12,   L = N dr *)
Theorem G_to_F_converges (G : R -> R) (N : nat) (dr Q M : R) dg (k : kw R) :
  plain k -> 0 < dr ->
  C2_on (fun r => G r * sin (r * Q)) 0 (INR N * dr) ->
  (forall r, 0 <= r <= INR N * dr -> Rabs (Derive_n (fun r => G r * sin (r * Q)) 2 r) <= M) ->
  Rabs (RInt (fun r => G r * sin (r * Q)) 0 (INR N * dr)
        - nth 0 (vals (G_to_F (rgrid N dr) (map G (rgrid N dr)) [Q] dg k)) 0)
    <= M * (INR N * dr) * dr ^ 2 / 12.
Proof.
  intros Hk Hdr HC HM. rewrite G_to_F_eq, ft_sampled_value by exact Hk.
  pose proof (trapz_uniform_error (fun r => G r * sin (r * Q)) 0 dr M N Hdr) as E.
  rewrite Rplus_0_l in E. specialize (E HC HM).
  replace (M * (INR N * dr) * dr ^ 2 / 12) with (M * INR N * dr ^ 3 / 12) by field.
  exact E.
Qed.

(* Q -> r:  | (2/pi) Int_0^L F(q) sin(q r) dq - F_to_G |  <=  (2/pi) M L dq^2 / 12,   L = N dq
   (rgrid N dq is the uniform grid j dq, j = 0..N, here used for the Q axis) *)
Theorem F_to_G_converges (F : R -> R) (N : nat) (dq r M : R) df (k : kw R) :
  plain k -> 0 < dq ->
  C2_on (fun q => F q * sin (q * r)) 0 (INR N * dq) ->
  (forall q, 0 <= q <= INR N * dq -> Rabs (Derive_n (fun q => F q * sin (q * r)) 2 q) <= M) ->
  Rabs (2 / PI * RInt (fun q => F q * sin (q * r)) 0 (INR N * dq)
        - nth 0 (vals (F_to_G (rgrid N dq) (map F (rgrid N dq)) [r] df k)) 0)
    <= 2 / PI * (M * (INR N * dq) * dq ^ 2 / 12).
Proof.
  intros Hk Hdq HC HM. pose proof PI_RGT_0 as Hpi.
  rewrite F_to_G_vals.
  rewrite (nth_map_lt _ _ _ 0).
  2:{ rewrite ft_plain_is_ft_spike by (first [exact Hk | apply map_length]). cbn. lia. }
  rewrite ft_sampled_value by exact Hk.
  pose proof (trapz_uniform_error (fun q => F q * sin (q * r)) 0 dq M N Hdq) as E.
  rewrite Rplus_0_l in E. specialize (E HC HM).
  match goal with |- Rabs (_ * ?I - ?T * _) <= _ =>
    replace (2 / PI * I - T * (2 / PI)) with (2 / PI * (I - T)) by ring end.
  rewrite Rabs_mult, (Rabs_pos_eq (2 / PI)).
  2:{ apply Rlt_le, Rdiv_lt_0_compat; lra. }
  apply Rmult_le_compat_l; [apply Rlt_le, Rdiv_lt_0_compat; lra|].
  replace (M * (INR N * dq) * dq ^ 2 / 12) with (M * INR N * dq ^ 3 / 12) by field.
  exact E.
Qed.

(* ---------- the hypotheses are satisfiable: explicit derivatives ---------- *)
Lemma C2_on_explicit (f f1 f2 : R -> R) (a b : R) :
  (forall x, is_derive f x (f1 x)) -> (forall x, is_derive f1 x (f2 x)) ->
  (forall x, continuous f2 x) ->
  C2_on f a b /\ (forall x, Derive_n f 2 x = f2 x).
Proof.
  intros H1 H2 H3.
  assert (E1 : forall x, Derive f x = f1 x) by (intros x; apply is_derive_unique, H1).
  assert (E2 : forall x, Derive_n f 2 x = f2 x).
  { intros x. change (Derive_n f 2 x) with (Derive (Derive f) x).
    rewrite (Derive_ext (Derive f) f1 x E1). apply is_derive_unique, H2. }
  split; [|exact E2].
  intros x _. split; [|split].
  - exists (f1 x). apply H1.
  - apply (ex_derive_ext f1 (Derive f)); [intros t; symmetry; apply E1|]. exists (f2 x). apply H2.
  - apply (continuous_ext f2 (Derive_n f 2)); [intros t; symmetry; apply E2|]. apply H3.
Qed.

(* x^3 on [0,1]:  f'' = 6x <= 6 *)
Lemma cube_C2 a b : C2_on (fun x => x ^ 3) a b /\ (forall x, Derive_n (fun x => x ^ 3) 2 x = 6 * x).
Proof.
  apply (C2_on_explicit (fun x => x ^ 3) (fun x => 3 * x ^ 2) (fun x => 6 * x)).
  - intros x. auto_derive; [auto | ring].
  - intros x. auto_derive; [auto | ring].
  - intros x. apply (@ex_derive_continuous R_AbsRing R_NormedModule). auto_derive; auto.
Qed.
Example trapz_panel_error_nonvacuous :
  0 <= 1 /\ C2_on (fun x => x ^ 3) 0 (0 + 1) /\
  (forall x, 0 <= x <= 0 + 1 -> Rabs (Derive_n (fun x => x ^ 3) 2 x) <= 6) /\
  Rabs (RInt (fun x => x ^ 3) 0 (0 + 1) - 1 * (0 ^ 3 + (0 + 1) ^ 3) / 2) <= 6 * 1 ^ 3 / 12.
Proof.
  destruct (cube_C2 0 (0 + 1)) as [HC HD].
  assert (HM : forall x, 0 <= x <= 0 + 1 -> Rabs (Derive_n (fun x => x ^ 3) 2 x) <= 6).
  { intros x Hx. rewrite HD. apply Rabs_le. lra. }
  split; [lra|]. split; [exact HC|]. split; [exact HM|].
  apply (trapz_panel_error (fun x => x ^ 3) 0 1 6); [lra | exact HC | exact HM].
Qed.
Example trapz_uniform_error_nonvacuous :
  0 < 1 / 2 /\ C2_on (fun x => x ^ 3) 0 (0 + INR 2 * (1 / 2)) /\
  (forall x, 0 <= x <= 0 + INR 2 * (1 / 2) -> Rabs (Derive_n (fun x => x ^ 3) 2 x) <= 6) /\
  Rabs (RInt (fun x => x ^ 3) 0 (0 + INR 2 * (1 / 2))
        - trapz (ugrid 0 (1 / 2) 2) (map (fun x => x ^ 3) (ugrid 0 (1 / 2) 2)))
    <= 6 * INR 2 * (1 / 2) ^ 3 / 12.
Proof.
  destruct (cube_C2 0 (0 + INR 2 * (1 / 2))) as [HC HD].
  assert (HM : forall x, 0 <= x <= 0 + INR 2 * (1 / 2) -> Rabs (Derive_n (fun x => x ^ 3) 2 x) <= 6).
  { intros x Hx. rewrite HD. simpl INR in Hx. apply Rabs_le. lra. }
  split; [lra|]. split; [exact HC|]. split; [exact HM|].
  apply (trapz_uniform_error (fun x => x ^ 3) 0 (1 / 2) 6 2); [lra | exact HC | exact HM].
Qed.

(* F(q) = q, r = 1 on the grid 0,1,2:  (q sin q)'' = 2 cos q - q sin q, bounded by 4 on [0,2] *)
Lemma qsin_C2 a b :
  C2_on (fun q => q * sin (q * 1)) a b /\
  (forall q, Derive_n (fun q => q * sin (q * 1)) 2 q = 2 * cos (q * 1) - q * sin (q * 1)).
Proof.
  apply (C2_on_explicit (fun q => q * sin (q * 1)) (fun q => sin (q * 1) + q * cos (q * 1))
           (fun q => 2 * cos (q * 1) - q * sin (q * 1))).
  - intros x. auto_derive; [auto | ring].
  - intros x. auto_derive; [auto | ring].
  - intros x. apply (@ex_derive_continuous R_AbsRing R_NormedModule). auto_derive; auto.
Qed.
Example F_to_G_converges_nonvacuous :
  plain plain_kw /\ 0 < 1 /\
  C2_on (fun q => q * sin (q * 1)) 0 (INR 2 * 1) /\
  (forall q, 0 <= q <= INR 2 * 1 -> Rabs (Derive_n (fun q => q * sin (q * 1)) 2 q) <= 4) /\
  Rabs (2 / PI * RInt (fun q => q * sin (q * 1)) 0 (INR 2 * 1)
        - nth 0 (vals (F_to_G (rgrid 2 1) (map (fun q => q) (rgrid 2 1)) [1] None plain_kw)) 0)
    <= 2 / PI * (4 * (INR 2 * 1) * 1 ^ 2 / 12).
Proof.
  assert (P : plain plain_kw) by (split; reflexivity).
  destruct (qsin_C2 0 (INR 2 * 1)) as [HC HD].
  assert (HM : forall q, 0 <= q <= INR 2 * 1 -> Rabs (Derive_n (fun q => q * sin (q * 1)) 2 q) <= 4).
  { intros q Hq. rewrite HD. simpl INR in Hq.
    pose proof (COS_bound (q * 1)). pose proof (SIN_bound (q * 1)).
    apply Rabs_le. split; nra. }
  split; [exact P|]. split; [lra|]. split; [exact HC|]. split; [exact HM|].
  apply (F_to_G_converges (fun q => q) 2 1 1 4 None plain_kw P); [lra | exact HC | exact HM].
Qed.

(* ---------- the closed-form family member G(r) = r exp(-r^2), Q = 2, on [0,8] ---------- *)
Definition member_integrand (r : R) : R := r * exp (- r * r) * sin (r * 2).
Definition member_d2 (r : R) : R :=
  exp (- r * r) * ((4 * r ^ 3 - 10 * r) * sin (r * 2) + 4 * (1 - 2 * r ^ 2) * cos (r * 2)).

Lemma member_C2 a b :
  C2_on member_integrand a b /\ (forall r, Derive_n member_integrand 2 r = member_d2 r).
Proof.
  apply (C2_on_explicit member_integrand
           (fun r => exp (- r * r) * ((1 - 2 * r ^ 2) * sin (r * 2) + 2 * r * cos (r * 2))) member_d2).
  - intros x. unfold member_integrand. auto_derive; [auto | ring].
  - intros x. unfold member_d2. auto_derive; [auto | ring].
  - intros x. unfold member_d2.
    apply (@ex_derive_continuous R_AbsRing R_NormedModule). auto_derive; auto.
Qed.

Lemma member_d2_bound (r : R) : 0 <= r <= 8 -> Rabs (member_d2 r) <= 40.
Proof. intros Hr. unfold member_d2. interval with (i_bisect r). Qed.

Lemma member_hypotheses :
  C2_on (fun r => r * exp (- r * r) * sin (r * 2)) 0 8 /\
  (forall r, 0 <= r <= 8 -> Rabs (Derive_n (fun r => r * exp (- r * r) * sin (r * 2)) 2 r) <= 40).
Proof.
  destruct (member_C2 0 8) as [HC HD]. split; [exact HC|].
  intros r Hr. change (Rabs (Derive_n member_integrand 2 r) <= 40).
  rewrite HD. apply member_d2_bound, Hr.
Qed.

(* the model's discrete transform of the sampled member on N panels of [0,8] *)
Theorem member_discretisation_error (N : nat) dg (k : kw R) : plain k -> (1 <= N)%nat ->
  Rabs (RInt (fun r => r * exp (- r * r) * sin (r * 2)) 0 8
        - nth 0 (vals (G_to_F (rgrid N (8 / INR N)) (map (fun r => r * exp (- r * r)) (rgrid N (8 / INR N)))
                              [2] dg k)) 0)
    <= 40 * 8 * (8 / INR N) ^ 2 / 12.
Proof.
  intros Hk HN. destruct member_hypotheses as [HC HM].
  assert (Hn : 0 < INR N) by (apply lt_0_INR; lia).
  assert (E8 : INR N * (8 / INR N) = 8) by (field; lra).
  pose proof (G_to_F_converges (fun r => r * exp (- r * r)) N (8 / INR N) 2 40 dg k Hk) as E.
  rewrite E8 in E. apply E; [apply Rdiv_lt_0_compat; lra | exact HC | exact HM].
Qed.

Theorem closed_form_member_converges (N : nat) dg (k : kw R) : plain k -> (1 <= N)%nat ->
  Rabs (nth 0 (vals (G_to_F (rgrid N (8 / INR N)) (map (fun r => r * exp (- r * r)) (rgrid N (8 / INR N)))
                            [2] dg k)) 0
        - sqrt PI * 2 / 4 * exp (-1))
    <= 1e-9 + 1706.67 / INR N ^ 2.
Proof.
  intros Hk HN.
  pose proof (member_discretisation_error N dg k Hk HN) as D.
  pose proof anchor_r_to_Q as A.
  rewrite (RInt_ext _ (fun r => r * exp (- r * r) * sin (r * 2))) in A.
  2:{ intros x _. rewrite (Rmult_comm 2 x). reflexivity. }
  assert (Hn : 0 < INR N) by (apply lt_0_INR; lia).
  set (v := nth 0 _ 0) in *. set (I := RInt _ 0 8) in *. set (c := sqrt PI * 2 / 4 * exp (-1)) in *.
  assert (B : 40 * 8 * (8 / INR N) ^ 2 / 12 <= 1706.67 / INR N ^ 2).
  { replace (40 * 8 * (8 / INR N) ^ 2 / 12) with (20480 / 12 * / INR N ^ 2) by (field; lra).
    unfold Rdiv at 2. apply Rmult_le_compat_r; [|lra].
    apply Rlt_le, Rinv_0_lt_compat, pow_lt, Hn. }
  replace (v - c) with (- (I - v) + (I - c)) by ring.
  eapply Rle_trans; [apply Rabs_triang|]. rewrite Rabs_Ropp. lra.
Qed.

(* the hypotheses of G_to_F_converges on a concrete instance: the member on 4 panels of width 2 *)
Example G_to_F_converges_nonvacuous :
  plain plain_kw /\ 0 < 2 /\
  C2_on (fun r => r * exp (- r * r) * sin (r * 2)) 0 (INR 4 * 2) /\
  (forall r, 0 <= r <= INR 4 * 2 ->
     Rabs (Derive_n (fun r => r * exp (- r * r) * sin (r * 2)) 2 r) <= 40) /\
  Rabs (RInt (fun r => r * exp (- r * r) * sin (r * 2)) 0 (INR 4 * 2)
        - nth 0 (vals (G_to_F (rgrid 4 2) (map (fun r => r * exp (- r * r)) (rgrid 4 2)) [2] None plain_kw)) 0)
    <= 40 * (INR 4 * 2) * 2 ^ 2 / 12.
Proof.
  assert (P : plain plain_kw) by (split; reflexivity).
  assert (E8 : INR 4 * 2 = 8) by (simpl; lra).
  destruct member_hypotheses as [HC HM]. rewrite <- E8 in HC, HM.
  split; [exact P|]. split; [lra|]. split; [exact HC|]. split; [exact HM|].
  apply (G_to_F_converges (fun r => r * exp (- r * r)) 4 2 2 40 None plain_kw P); [lra | exact HC | exact HM].
Qed.
