(* ConfigFlagsP.v -- command-line flags: an omitted flag is its argparse default. *)
From Coq Require Import List ZArith Bool.
From PyStoG Require Import Num ConverterM StogM ConfigM.

Section F.
  Context {A : Type} `{Num A}.

  (* every omitted flag written out with its default value *)
  Definition fill_flags (density : A) (g : given_flags) : given_flags :=
    let d := default_args density in
    {| g_fn := Some (opt_or (g_fn g) (a_fn d)); g_rmax := Some (opt_or (g_rmax g) (a_rmax d));
       g_rpoints := Some (opt_or (g_rpoints g) (a_rpoints d)); g_rdelta := g_rdelta g; g_cutoff := g_cutoff g;
       g_lorch := g_lorch g; g_bcoh := Some (opt_or (g_bcoh g) (a_bcoh d)); g_btot := Some (opt_or (g_btot g) (a_btot d));
       g_merge := Some (match g_merge g with Some m => m | None => (a_merge_offset d, a_merge_scale d) end);
       g_lowq := g_lowq g |}.

  Lemma flags_omitted_is_default density g :
    args_of_flags density (fill_flags density g) = args_of_flags density g.
  Proof.
    destruct g as [fn rmax rpoints rdelta cutoff lor bcoh btot mer lowq].
    unfold args_of_flags, fill_flags; cbn.
    destruct fn, rmax, rpoints, rdelta, cutoff, bcoh, btot, mer as [[o sc]|]; reflexivity.
  Qed.

  Lemma no_flags_is_default_args density :
    args_of_flags density {| g_fn := None; g_rmax := None; g_rpoints := None; g_rdelta := None; g_cutoff := None;
                             g_lorch := false; g_bcoh := None; g_btot := None; g_merge := None; g_lowq := false |}
    = default_args density.
  Proof. reflexivity. Qed.

  (* hence the same settings and the same plan of steps *)
  Lemma flags_omitted_same_settings density g :
    kwargs2attr (parse_cli_args (args_of_flags density (fill_flags density g)))
    = kwargs2attr (parse_cli_args (args_of_flags density g)) /\
    cli_plan (parse_cli_args (args_of_flags density (fill_flags density g)))
    = cli_plan (parse_cli_args (args_of_flags density g)).
  Proof. rewrite flags_omitted_is_default. split; reflexivity. Qed.
End F.
