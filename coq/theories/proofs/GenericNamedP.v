(* GenericNamedP.v -- carrier-independent versions of the C05 decomposition
   statements: every named transform is conversion, core transform (and the
   2/pi scaling in the Q -> r direction), conversion -- for ANY instance of Num
   (no law of the operations is used: the proofs are case analysis on the method
   table and unfolding).  Holds in particular at the binary64 instance NumF. *)
From Coq Require Import List Bool ZArith.
From PyStoG Require Import Num ConverterM TransformerM.
Import ListNotations.

Section GenericNamed.
  Context {A : Type} `{Num A}.

  (* each of the 12 Q -> r methods: X -> F(Q), fourier_transform, * (2/pi), G(r) -> Y.
     The factor is the model's own [two_over_pi] = two / pi = of_Z 2 / pi, computed
     once in the carrier's arithmetic, and multiplied from the right (vscale_r). *)
  Theorem q2r_decomposition_gen X Y (q v r : list A) (dy : option (list A)) (k : kw A) :
    q2r X Y q v r dy k =
      let '(f, df) := rconv X rF q v dy k in
      let '(r', T, E) := fourier_transform q f r None None (Some df) k in
      let '(g, dg) := gconv gG Y r' (vscale_r two_over_pi T) (Some (vscale_r two_over_pi E)) k in
      (r', g, dg).
  Proof. destruct X, Y; reflexivity. Qed.

  (* each of the 12 r -> Q methods: X -> G(r), fourier_transform, F(Q) -> Y *)
  Theorem r2q_decomposition_gen X Y (r v q : list A) (dy : option (list A)) (k : kw A) :
    r2q X Y r v q dy k =
      let '(G, dG) := gconv X gG r v dy k in
      let '(q', T, E) := fourier_transform r G q None None (Some dG) k in
      let '(f, df) := rconv rF Y q' T (Some E) k in (q', f, df).
  Proof. destruct X, Y; reflexivity. Qed.

  (* the output grid is the requested grid, for every method *)
  Lemma q2r_grid_gen X Y (q v r : list A) dy (k : kw A) : fst (fst (q2r X Y q v r dy k)) = r.
  Proof. destruct X, Y; reflexivity. Qed.
  Lemma r2q_grid_gen X Y (r v q : list A) dy (k : kw A) : fst (fst (r2q X Y r v q dy k)) = q.
  Proof. destruct X, Y; reflexivity. Qed.

  (* the explicit-default lemma for the core transform *)
  Lemma fourier_transform_dflt_gen (x y xo : list A) a b dy (k : kw A) :
    fourier_transform x y xo a b dy k = fourier_transform x y xo a b (Some (dflt_zeros y dy)) k.
  Proof. reflexivity. Qed.
End GenericNamed.

(* non-vacuity: the statements have no hypotheses; the method table is the named
   methods (so the decomposition speaks about S_to_g, G_to_DCS, ...) *)
Example decomposition_gen_nonvacuous {A} `{Num A} :
  @q2r A _ rS gg = S_to_g /\ @q2r A _ rDCS gGK = DCS_to_GK /\
  @r2q A _ gGK rDCS = GK_to_DCS /\ @r2q A _ gg rS = g_to_S.
Proof. repeat split. Qed.
