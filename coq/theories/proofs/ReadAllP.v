(* ReadAllP.v -- proofs about ReadAllM *)
From Coq Require Import List Bool Lia.
From PyStoG Require Import Num ConverterM TransformerM StogM CallKwM ReadM ReadAllM.
Import ListNotations.

Section Generic.
  Context {A : Type} `{Num A}.

  Lemma readable_columns (xcol ycol dycol : nat) (e : @entry A) : readable xcol ycol e = true ->
    exists xyz, read_columns (snd e) xcol ycol dycol = Some xyz.
  Proof.
    unfold readable, read_columns. intros R. apply negb_true_iff in R. rewrite R. eexists. reflexivity.
  Qed.

  Lemma unreadable_columns (xcol ycol dycol : nat) (e : @entry A) : readable xcol ycol e = false ->
    read_columns (snd e) xcol ycol dycol = None.
  Proof. unfold readable, read_columns. intros R. apply negb_false_iff in R. rewrite R. reflexivity. Qed.

  (* all files readable: the loop is add_dataset on the filled-in entries, in order, and returns normally *)
  Lemma read_loop_all_readable (c : @config A) (es : list (@entry A)) (xcol ycol dycol : nat) : forall s,
    forallb (readable xcol ycol) es = true ->
    read_loop c s es xcol ycol dycol = (fold_left (add_dataset c) (map (filled xcol ycol dycol) es) s, true).
  Proof.
    induction es as [|[d t] es IH]; intros s R; [reflexivity|].
    cbn [forallb] in R. apply andb_true_iff in R. destruct R as [R1 R2].
    destruct (readable_columns xcol ycol dycol (d, t) R1) as [xyz E]. cbn [snd] in E.
    cbn [read_loop map fold_left]. unfold read_dataset, filled. cbn [fst snd]. rewrite E.
    apply IH. exact R2.
  Qed.

  Lemma read_all_all_readable (c : @config A) (s : @state A) (es : list (@entry A)) (xcol ycol dycol : nat) :
    es <> [] -> forallb (readable xcol ycol) es = true ->
    read_all_data c s es xcol ycol dycol = (fold_left (add_dataset c) (map (filled xcol ycol dycol) es) s, true).
  Proof. intros NE R. destruct es; [congruence|]. apply read_loop_all_readable. exact R. Qed.

  Lemma read_all_no_files (c : @config A) (s : @state A) (xcol ycol dycol : nat) :
    read_all_data c s [] xcol ycol dycol = (s, false).
  Proof. reflexivity. Qed.

  (* the first unreadable file stops the loop; the files before it have been stored, nothing after it is looked at *)
  Lemma read_loop_stops (c : @config A) (good : list (@entry A)) (bad : @entry A) (rest : list (@entry A)) (xcol ycol dycol : nat) : forall s,
    forallb (readable xcol ycol) good = true -> readable xcol ycol bad = false ->
    read_loop c s (good ++ bad :: rest) xcol ycol dycol =
    (fold_left (add_dataset c) (map (filled xcol ycol dycol) good) s, false).
  Proof.
    induction good as [|[d t] good IH]; intros s R B.
    - destruct bad as [d t]. pose proof (unreadable_columns xcol ycol dycol (d, t) B) as E. cbn [snd] in E.
      cbn [app read_loop map fold_left]. unfold read_dataset. rewrite E. reflexivity.
    - cbn [forallb] in R. apply andb_true_iff in R. destruct R as [R1 R2].
      destruct (readable_columns xcol ycol dycol (d, t) R1) as [xyz E]. cbn [snd] in E.
      cbn [app read_loop map fold_left]. unfold read_dataset, filled. cbn [fst snd]. rewrite E.
      apply IH; assumption.
  Qed.
End Generic.
